import CashewsVerif.Lemmas.Bits
import CashewsVerif.Lemmas.Indexes
import CashewsVerif.Lemmas.Bloom
/-
C18 — Bloom filter: no false negatives; bit fields are independent saturating counters.
Property theorems only; helper lemmas live in `Lemmas/{Bits,Indexes,Bloom}.lean`, the models in
`Model/{Bits,Indexes,Bloom}.lean`, the ideal counter array in `Spec/Counters.lean`.

Not covered by any theorem here (said again in the manifest and in the evidence):
* termination of `get_indexes`' inner `while value in indexes` loop for an arbitrary hash — the
  model takes fuel and `indexes_spec` is conditional on a result being returned;
* `params_for` (floating-point `log`, `ceil`, `round`) — checked on a grid by the harness only;
* `zlib.crc32` itself — every theorem holds for an arbitrary hash function;
* the purge task of the in-memory backend (what one sweep does to a key is the `touch` step of the
  timed model); the timed Bloom theorem is conditional on the filter's key staying alive.
-/
namespace CashewsVerif.Props.C18
open CashewsVerif CashewsVerif.Bits CashewsVerif.Indexes CashewsVerif.Bloom

/-! ## bit fields -/

/-- **Incrementing one field changes only that field, and the value saturates** — for every
array, every index, every width (powers of two or not, also width 0), every increment (any sign,
any magnitude): after `incr a i w by`, field `i` holds `min (max 0 (old + by)) (2^w - 1)` and
every other field `j ≠ i` of the same width reads what it read before. -/
theorem get_incr (a i w : Nat) (by_ : Int) (j : Nat) :
    get (incr a i w by_) j w =
      if i = j then (min (max 0 ((get a i w : Nat) + by_)) ((2 : Int) ^ w - 1)).toNat
      else get a j w :=
  Bits.get_incr a i w by_ j

/-- the same law in the literal shape of the Python code (the increment is first cut to
`[-(2^w) - 1, 2^w - 1]`): the pre-clamping never changes the outcome. -/
theorem get_incr_clampBy (a i w : Nat) (by_ : Int) (j : Nat) :
    get (incr a i w by_) j w =
      if i = j then (clamp w ((get a i w : Nat) + clampBy w by_)).toNat else get a j w := by
  rw [Bits.get_incr, clamp_clampBy w _ (get_lt a i w)]
  rfl

/-- **Never-written fields read 0** (a missing key is `Bitarray("0")`). -/
theorem get_fresh (i w : Nat) : get 0 i w = 0 := get_zero i w

/-- **Every field value is within `[0, 2^w - 1]`.** -/
theorem get_lt (a i w : Nat) : get a i w < 2 ^ w := Bits.get_lt a i w

/-- the three regimes of the saturating counter, spelled out: clipped at the top, clipped at 0,
exact in between. -/
theorem incr_regimes (a i w : Nat) (by_ : Int) :
    let old : Int := (get a i w : Nat)
    let new : Int := (get (incr a i w by_) i w : Nat)
    ((2 : Int) ^ w - 1 ≤ old + by_ → new = 2 ^ w - 1) ∧
    (old + by_ ≤ 0 → new = 0) ∧
    (0 ≤ old + by_ → old + by_ ≤ 2 ^ w - 1 → new = old + by_) := by
  intro old new
  have h : new = ((min (max 0 (old + by_)) ((2 : Int) ^ w - 1)).toNat : Int) := by
    simp only [new, old]
    rw [Bits.get_incr, if_pos rfl]; rfl
  have hp : (0 : Int) < (2 : Int) ^ w := by
    rw [two_pow_cast]; exact_mod_cast Nat.two_pow_pos w
  generalize (2 : Int) ^ w = P at h hp ⊢
  omega

/-- `Bitarray.set` then `get`: the written field holds the low `w` bits of the value and every
other field is unchanged. -/
theorem get_set (a i v w j : Nat) :
    get (set a i v w) j w = if i = j then v % 2 ^ w else get a j w :=
  Bits.get_set a i v w j

/-- **The bit-field commands are an array of independent saturating counters, for every
history**: at any fixed width, the answers of any sequence of `get_bits` / `incr_bits` commands
(any index lists — also with repeated indexes —, any increments) on a key that starts absent are
exactly the answers of the ideal counter array `Spec/Counters.lean`. -/
theorem bits_refine_counters (w : Nat) (ops : List Bits.Op) :
    Bits.run w 0 ops = Counters.run w Counters.init ops :=
  run_eq ops (repr_init w)

/-! ## bit fields on a key with a lifetime (`expire`, `delete`, passage of time) -/

/-- **A bit-field key in the TTL store is an array of counters that is fresh again after its
deadline, for every history**: at any fixed width, the answers of any sequence of `get_bits` /
`incr_bits` / `expire` / `delete` / `exists` commands interleaved with arbitrary passages of time
— the store deleting a run-out entry only lazily, when a command happens to read it — are exactly
the answers of the ideal, eagerly expiring counter array (`Spec/Counters.lean`, `TCounters`):
counters are independent and saturating while the array lives; at the deadline (or a delete) all
of them are 0 again and the deadline is gone; an increment keeps the array's deadline. -/
theorem tbits_refine_counters (w now : Nat) (ops : List Bits.TOp) :
    Bits.trun w ⟨now, none⟩ ops = Counters.trun w (Counters.fresh now) ops :=
  trun_eq ops (trepr_init w now)

/-- **After the deadline the counter array is fresh** — whether the run-out entry is still
physically in the store or not: every field reads 0. -/
theorem expired_reads_fresh (w : Nat) (t : Bits.TState) (h : t.view = none) (idxs : List Nat) :
    (Bits.tstep w t (.getBits idxs)).2 = idxs.map (fun _ => 0) := by
  simp only [Bits.tstep, tget_snd, h, Option.map_none, Option.getD_none, getBits]
  exact List.map_congr_left (fun j _ => get_zero j w)

/-- **… and an increment then is applied to the fresh array and stored**: on a key that is absent
or whose deadline has passed (purged or not), `incr_bits` reports the values of incrementing the
all-zero array, and afterwards the key holds exactly that array, without a deadline — so the
fields read what was reported. -/
theorem incr_after_deadline (w : Nat) (t : Bits.TState) (h : t.view = none) (idxs : List Nat) (by_ : Int) :
    (Bits.tstep w t (.incrBits idxs by_)).2 = (incrBits 0 idxs w by_).2 ∧
    (Bits.tstep w t (.incrBits idxs by_)).1.view = some ⟨(incrBits 0 idxs w by_).1, none⟩ := by
  constructor
  · simp only [Bits.tstep, tget_snd, h, Option.map_none, Option.getD_none]
  · rw [view_incrBits, h]; rfl

/-- an increment on a live key is applied to the stored array, is stored, and keeps the deadline -/
theorem incr_live (w : Nat) (t : Bits.TState) (sl : Bits.Slot) (h : t.view = some sl) (idxs : List Nat) (by_ : Int) :
    (Bits.tstep w t (.incrBits idxs by_)).2 = (incrBits sl.a idxs w by_).2 ∧
    (Bits.tstep w t (.incrBits idxs by_)).1.view = some ⟨(incrBits sl.a idxs w by_).1, sl.dl⟩ := by
  constructor
  · simp only [Bits.tstep, tget_snd, h, Option.map_some, Option.getD_some]
  · rw [view_incrBits, h]; rfl

/-! ## several keys; bit-field values copied between keys by the value commands -/

/-- **Keys are independent arrays, also after a bit-field VALUE was copied from one key to another
with the value commands** (`set(dst, await get(src))`, `set_many`, a transaction's buffer and
commit — all of them store `copy(value)`): for every history over any number of keys of
`get_bits` / `incr_bits` / `expire` / `delete` / `exists` commands, passages of time and such copies
(with or without a ttl, also onto the key itself, also from or onto a run-out unpurged entry), the
answers are those of one eagerly expiring ideal counter array PER KEY, where a copy gives `dst`
the counter values `src` has at that moment — and nothing else ever connects two keys. -/
theorem mbits_refine_counters (w now : Nat) (ops : List Bits.MOp) :
    Bits.mrun w (fun _ => ⟨now, none⟩) ops = Counters.mrun w (fun _ => Counters.fresh now) ops :=
  mrun_eq ops (mrepr_init w now)

/-- a command on one key changes no other key — whatever was copied where before -/
theorem other_keys_untouched (w : Nat) (m : Bits.MState) (k k' : Nat) (op : Bits.TOp) (h : k' ≠ k) :
    (Bits.mstep w m (.on k op)).1 k' = m k' := by
  simp [Bits.mstep, Bits.MState.set, h]

/-- right after a copy `dst` reads what `src` reads, field by field (when `src` held an array) -/
theorem copy_copies (w : Nat) (m : Bits.MState) (src dst ttl : Nat) (sl : Bits.Slot) (h : (m src).view = some sl)
    (idxs : List Nat) :
    (Bits.tstep w ((Bits.mstep w m (.copy src dst ttl)).1 dst) (.getBits idxs)).2 = getBits sl.a idxs w := by
  have e : (Bits.mstep w m (.copy src dst ttl)).1 dst = Bits.tset ((Bits.MState.set m src (Bits.tget (m src)).1) dst) sl.a ttl := by
    simp only [Bits.mstep, tget_snd, h]
    exact MState.set_same _ _ _
  rw [e]
  simp only [Bits.tstep, tget_snd, tset_view']
  rfl

/-! ## index derivation -/

/-- **`get_indexes` returns exactly `k` distinct indexes, all below `m`** — for every hash
function (any number of algorithms), every key, every `k ≤ m` including `k = m`: *if* a result is
returned (partial: the inner re-probing loop has no termination argument for an arbitrary hash,
so the model carries fuel; the harness measures the re-probe counts that really occur). -/
theorem indexes_spec (hash : Nat → List UInt8 → Nat) (nalg : Nat) (key : List UInt8)
    (k m fuel : Nat) (S : List Nat)
    (h : getIndexes hash nalg key k m fuel = some S) (hk : k ≤ m) :
    S.length = k ∧ S.Nodup ∧ ∀ x ∈ S, x < m := by
  have := loop_spec h List.nodup_nil (by simp) (by omega)
  simpa using this

/-- **Determinism I** — the fuel is only a device of the model: once a result is returned, every
larger fuel returns the same result (so the result, when it exists, is *the* value of the Python
function). -/
theorem indexes_fuel_irrelevant (hash : Nat → List UInt8 → Nat) (nalg : Nat) (key : List UInt8)
    (k m fuel fuel' : Nat) (S : List Nat)
    (h : getIndexes hash nalg key k m fuel = some S) (hle : fuel ≤ fuel') :
    getIndexes hash nalg key k m fuel' = some S :=
  loop_mono hle h

/-- **Determinism II** — the result depends on nothing but the hash values of the probe strings
`f"{key}_{j}"` for `j < k + fuel`: two hash families that agree there give the same answer.  (This
is also what licenses the driver to run the model on a table of real crc32 values.) -/
theorem indexes_depend_only_on_probes (hash hash' : Nat → List UInt8 → Nat) (nalg : Nat)
    (key : List UInt8) (k m fuel : Nat)
    (h : ∀ a j, j < k + fuel → hash a (probeBytes key j) = hash' a (probeBytes key j)) :
    getIndexes hash nalg key k m fuel = getIndexes hash' nalg key k m fuel :=
  loop_congr (fun a j hj => h a j (by omega))

/-! ## Bloom filter -/

/-- **No false negatives, for every add sequence and every index function**: after any sequence
of `func.set` calls (each with the element and the wrapped function's truthy/falsy result; from
any starting bit array), every element that was added (its call returned truthy) finds all of its
bits set. -/
theorem bloom_no_false_negative {α : Type} (idx : α → List Nat) (a : Nat)
    (adds : List (α × Bool)) (e : α) (he : (e, true) ∈ adds) :
    allSet (runAdds a (adds.map fun p => (idx p.1, p.2))) (idx e) = true := by
  rw [allSet_iff]
  intro j hj
  rw [get_runAdds]
  have : ∃ p ∈ adds.map (fun p => (idx p.1, p.2)), p.2 = true ∧ j ∈ p.1 :=
    ⟨(idx e, true), List.mem_map.2 ⟨(e, true), he, rfl⟩, rfl, hj⟩
  rw [if_pos this]
  decide

/-- **… whichever call form was used to add and to ask**: the decorator derives the indexes from
the call's *bound arguments* (`bind`: signature binding with defaults applied — the key of C08),
so for any two call forms `f`, `g` of the same element (`bind f = bind g`: positional / keyword /
default omitted), an element added through `f` finds all its bits set when asked through `g`.
(That the real decorator's indexes are a function of the bound arguments only is what the
correspondence checks: mixed call forms, indexes reaching the backend compared with the model's.) -/
theorem bloom_no_false_negative_call_forms {φ α : Type} (bind : φ → α) (idx : α → List Nat) (a : Nat)
    (adds : List (φ × Bool)) (f g : φ) (hf : (f, true) ∈ adds) (hb : bind f = bind g) :
    allSet (runAdds a (adds.map fun p => (idx (bind p.1), p.2))) (idx (bind g)) = true := by
  have := bloom_no_false_negative (fun x : φ => idx (bind x)) a adds f hf
  rw [← hb]; exact this

/-- … hence the decorated predicate never answers `False` by itself for an added element: its
answer is the wrapped function's own answer (`check_false_positive=True`) or `True`. -/
theorem bloom_answer_for_added {α : Type} (idx : α → List Nat) (a : Nat)
    (adds : List (α × Bool)) (e : α) (he : (e, true) ∈ adds) (checkFp underlying : Bool) :
    query (runAdds a (adds.map fun p => (idx p.1, p.2))) (idx e) checkFp underlying =
      (if checkFp then underlying else true) := by
  unfold query
  rw [bloom_no_false_negative idx a adds e he, if_pos rfl]

/-- the filter's state, exactly: starting from the absent key, bit `j` is set iff some added
element has `j` among its indexes (so a `False` answer really means "never added", and false
positives are exactly the elements whose indexes are covered by others'). -/
theorem bloom_state_exact {α : Type} (idx : α → List Nat) (adds : List (α × Bool)) (q : List Nat) :
    allSet (runAdds 0 (adds.map fun p => (idx p.1, p.2))) q = true ↔
      ∀ j ∈ q, ∃ e, (e, true) ∈ adds ∧ j ∈ idx e := by
  rw [allSet_iff]
  constructor
  · intro h j hj
    have := h j hj
    rw [get_runAdds] at this
    split at this
    · rename_i hex
      obtain ⟨p, hp, hr, hjp⟩ := hex
      obtain ⟨⟨e, r⟩, hmem, rfl⟩ := List.mem_map.1 hp
      simp only at hr hjp
      subst hr
      exact ⟨e, hmem, hjp⟩
    · rw [get_zero] at this; exact absurd rfl this
  · intro h j hj
    obtain ⟨e, hmem, hje⟩ := h j hj
    rw [get_runAdds]
    have : ∃ p ∈ adds.map (fun p => (idx p.1, p.2)), p.2 = true ∧ j ∈ p.1 :=
      ⟨(idx e, true), List.mem_map.2 ⟨(e, true), hmem, rfl⟩, rfl, hje⟩
    rw [if_pos this]
    decide

/-- **No false negatives on a filter whose key has a lifetime**: from any state of the store
(key absent, live, or run out and not purged yet), after `func.set` of an element whose wrapped
function answered truthy and then any history of further adds, queries, `expire` / `exists`
commands on the filter's key and passages of time during which the key stays alive (it is not
deleted and no deadline is reached), the element finds all its bits set.  In particular the first
add after a filter's deadline is not lost. -/
theorem tbloom_no_false_negative (t : Bits.TState) (idxs : List Nat) (post : List FOp)
    (h : aliveThrough (fstep t (.add idxs true)) post = true) :
    tallSet (frun (fstep t (.add idxs true)) post) idxs = true := by
  have e : fstep t (.add idxs true) = (Bits.tstep 1 t (.incrBits idxs 1)).1 := by simp [fstep]
  rw [e] at h ⊢
  refine bits_kept_through idxs post _ _ (view_incrBits 1 t idxs 1) ?_ h
  intro j hj
  show get (addBits _ idxs) j 1 = 1
  rw [get_addBits, if_pos hj]

/-- … hence the decorated predicate's answer for it is the wrapped function's own answer or `True`. -/
theorem tbloom_answer_for_added (t : Bits.TState) (idxs : List Nat) (post : List FOp)
    (h : aliveThrough (fstep t (.add idxs true)) post = true) (checkFp underlying : Bool) :
    tquery (frun (fstep t (.add idxs true)) post) idxs checkFp underlying =
      (if checkFp then underlying else true) := by
  unfold tquery
  rw [tbloom_no_false_negative t idxs post h, if_pos rfl]

/-- a filter whose deadline has passed (or that was deleted) is the empty filter: it answers
`False` for every element with at least one index, purged or not -/
theorem tbloom_expired_is_empty (t : Bits.TState) (h : t.view = none) (idxs : List Nat) (hne : idxs ≠ []) :
    tallSet t idxs = false := by
  rw [tallSet_eq, h]
  cases idxs with
  | nil => exact absurd rfl hne
  | cons i rest => simp [allSet, getBits, get_zero]

/-- **A lookup leaves the filter intact** — whatever state the store is in: after a call of the
decorated predicate the filter's key logically holds exactly what it held before (same array, same
deadline; at most a run-out entry has been purged) and no time has passed.  (Lookups are the only
thing the facade's controls — `invalidate_further`, `disabling`, transactions — may wrap without
becoming a different step; that the real lookup under such a control is this step is what the
correspondence checks.) -/
theorem lookup_leaves_filter_intact (t : Bits.TState) (idxs : List Nat) :
    (fstep t (.query idxs)).view = t.view ∧ (fstep t (.query idxs)).now = t.now := by
  simp only [fstep, Bits.tstep]
  exact ⟨tget_view t, tget_now t⟩

/-- … hence lookups — of any elements, added or not, before or after the add, in any number —
never make an added element disappear: this is `tbloom_no_false_negative` with `post` made of
queries only, where the aliveness premise is automatic. -/
theorem lookups_never_lose_an_element (t : Bits.TState) (idxs : List Nat) (qs : List (List Nat)) :
    tallSet (frun (fstep t (.add idxs true)) (qs.map FOp.query)) idxs = true := by
  apply tbloom_no_false_negative
  have hlive : ∀ (qs : List (List Nat)) (s : Bits.TState), s.view.isSome = true →
      aliveThrough s (qs.map FOp.query) = true := by
    intro qs
    induction qs with
    | nil => intro s _; rfl
    | cons q rest ih =>
      intro s hs
      have hv := (lookup_leaves_filter_intact s q).1
      simp only [List.map_cons, aliveThrough, Bool.and_eq_true]
      exact ⟨by rw [hv]; exact hs, ih _ (by rw [hv]; exact hs)⟩
  apply hlive
  have e : fstep t (.add idxs true) = (Bits.tstep 1 t (.incrBits idxs 1)).1 := by simp [fstep]
  rw [e, view_incrBits]; rfl

/-- when the backend gives no answer (`get_bits` disabled, backend unavailable) the decorated
predicate answers what the wrapped function answers — never the filter's `False` — and asks it. -/
theorem lookup_without_backend_answer (underlying : Bool) : queryOff underlying = (underlying, true) := rfl

/-- `dual_bloom` (its documentation allows false negatives — for elements it never managed to
record): **an element recorded in the true filter is never answered `False` by the filters** —
once all its true-filter bits are set (the call that found both filters undecided, got a truthy
answer and wrote them), then after any further sequence of calls (any elements, any answers) a
call for it answers `True` or the wrapped function's own answer. -/
theorem dual_recorded_never_false (nc : Bool) (s : Dual) (it : List Nat) (h : allSet s.t it = true)
    (calls : List (List Nat × List Nat × Bool)) (if_ : List Nat) (u : Bool) :
    (dualCall (dualRun nc s calls) it if_ nc u).2.1 = true ∨
    (dualCall (dualRun nc s calls) it if_ nc u).2.1 = u :=
  dualCall_recorded _ it if_ nc u (dualRun_t_mono nc calls s it h)

/-! ## non-vacuity: the models compute, the hypotheses are satisfiable -/

-- width 3 (not a power of two), field 2 of 0b101_110_011: +5 saturates at 7, neighbours intact
example : get 0b101110011 2 3 = 5 ∧ get (incr 0b101110011 2 3 5) 2 3 = 7
    ∧ get (incr 0b101110011 2 3 5) 1 3 = 6 ∧ get (incr 0b101110011 2 3 5) 0 3 = 3
    ∧ get (incr 0b101110011 2 3 5) 3 3 = 0 := by decide
-- decrement below zero saturates at 0; huge |by| too
example : get (incr 0b101110011 1 3 (-7)) 1 3 = 0 ∧ incr 0b101110011 1 3 (-131072) = 0b101000011
    ∧ incr 0b101110011 0 3 131072 = 0b101110111 := by decide
-- the three regimes are all inhabited
example : ((2 : Int) ^ 3 - 1 ≤ (5 : Int) + 5) ∧ ((6 : Int) + (-7) ≤ 0) ∧ (0 ≤ (3 : Int) + 2 ∧ (3 : Int) + 2 ≤ 2 ^ 3 - 1) := by decide
-- a history with repeated indexes, run by model and ideal array
example : Bits.run 3 0 [.incrBits [1, 1, 4] 3, .incrBits [1] 3, .getBits [0, 1, 4], .incrBits [4, 1] (-5), .getBits [1, 4, 9]]
    = [[3, 6, 3], [7], [0, 7, 3], [0, 2], [2, 0, 0]] := by decide

-- a key with a lifetime: width 3, deadline at tick 8; the entry is still physically there at tick 9
-- (nothing read it), the increment then starts from 0, is stored, and has no deadline any more
example : Bits.trun 3 ⟨0, none⟩ [.incrBits [1] 5, .expire 8, .incrBits [1] 1, .adv 7, .getBits [1], .adv 2,
      .incrBits [1, 2] 3, .getBits [1, 2], .adv 100, .getBits [1], .touch, .delete, .touch]
    = [[5], [], [6], [], [6], [], [3, 3], [3, 3], [], [3], [1], [1], [0]] := by decide
example : (Bits.tstate 3 ⟨0, none⟩ [.incrBits [1] 5, .expire 8, .adv 9]).slot = some ⟨5 <<< 3, some 8⟩
    ∧ (Bits.tstate 3 ⟨0, none⟩ [.incrBits [1] 5, .expire 8, .adv 9]).view = none := by decide
-- `incr_after_deadline` / `incr_live`: premises satisfiable
example : (⟨9, some ⟨40, some 8⟩⟩ : Bits.TState).view = none ∧ (⟨7, some ⟨40, some 8⟩⟩ : Bits.TState).view = some ⟨40, some 8⟩ := by decide
-- the timed Bloom theorem: an add on a run-out filter, then more adds, a new deadline, time short of it
example :
    let t : Bits.TState := ⟨9, some ⟨0b1111, some 8⟩⟩
    let post : List FOp := [.add [5] true, .expire 16, .adv 15, .query [0], .touch]
    aliveThrough (fstep t (.add [2, 6] true)) post = true ∧
    tallSet (frun (fstep t (.add [2, 6] true)) post) [2, 6] = true ∧
    tallSet (frun (fstep t (.add [2, 6] true)) post) [0] = false ∧
    aliveThrough (fstep t (.add [2, 6] true)) (post ++ [.adv 1]) = false ∧
    tallSet (frun (fstep t (.add [2, 6] true)) (post ++ [.adv 1])) [2, 6] = false := by decide

-- two keys: key 0 is copied to key 1 (with a ttl of 8), then each is incremented; nothing leaks, the copy runs out alone
example : Bits.mrun 4 (fun _ => ⟨0, none⟩)
      [.on 0 (.incrBits [1, 3] 5), .copy 0 1 8, .on 1 (.getBits [0, 1, 2, 3]), .on 0 (.incrBits [7] 2), .on 1 (.getBits [7]),
       .on 0 (.incrBits [1] 100), .on 1 (.getBits [1]), .on 1 (.incrBits [3] (-5)), .on 0 (.getBits [3]), .copy 2 0 0,
       .adv 8, .on 1 (.getBits [1]), .on 0 (.getBits [1, 3, 7])]
    = [[5, 5], [1], [0, 5, 0, 5], [2], [0], [15], [5], [0], [5], [0], [], [0], [15, 5, 2]] := by decide

/-- a toy hash with collisions: half the byte sum -/
def toyHash : Nat → List UInt8 → Nat := fun _ bs => (bs.foldl (fun s b => s + b.toNat) 0) / 2

-- `indexes_spec`'s hypothesis is satisfiable, also for k = m, with re-probing actually happening
-- (probes 0 and 1 collide: (240+0)/2 = (240+1)/2)
example : getIndexes toyHash 1 [0x61] 4 7 8 = some [1, 2, 3, 4] := by decide
example : getIndexes toyHash 1 [0x61] 4 4 8 = some [0, 1, 2, 3] ∧ (4 : Nat) ≤ 4 := by decide
example : (List.range 4).map (reprobes toyHash 1 [0x61] 7 8 [1, 2, 3, 4]) = [0, 1, 2, 3] := by decide
-- … and the conditional form is necessary: a constant hash never finds a second index
example : getIndexes (fun _ _ => 3) 1 [0x61] 2 4 50 = none := by decide
-- `indexes_fuel_irrelevant` / `indexes_depend_only_on_probes`: premises satisfiable
example : getIndexes toyHash 1 [0x61] 4 7 4 = some [1, 2, 3, 4] ∧ (4 : Nat) ≤ 8 := by decide

-- Bloom: two elements added, one rejected by the wrapped function; the added ones are found,
-- the third is a genuine negative, a covered one is a false positive
example :
    let idx : Nat → List Nat := fun e => [e % 5, (e / 5) % 5]
    let f := runAdds 0 ([(7, true), (13, true), (4, false)].map fun p => (idx p.1, p.2))
    ((7, true) ∈ [(7, true), (13, true), (4, false)]) ∧
    allSet f (idx 7) = true ∧ allSet f (idx 13) = true ∧ allSet f (idx 4) = false ∧
    allSet f (idx 11) = true ∧ query f (idx 4) true true = false ∧ query f (idx 7) true true = true
    ∧ query f (idx 7) false false = true := by decide

-- dual_bloom: the first call records the element in the true filter (premise of `dual_recorded_never_false`)
example : allSet (dualCall ⟨0, 0⟩ [1, 4] [2] false true).1.t [1, 4] = true
    ∧ (dualCall (dualRun false (dualCall ⟨0, 0⟩ [1, 4] [2] false true).1 [([3], [2], false)]) [1, 4] [5] false true).2 = (true, false)
    ∧ (dualCall (dualRun false (dualCall ⟨0, 0⟩ [1, 4] [2] false true).1 [([3], [2], false)]) [1, 4] [2] false true).2 = (true, true) := by decide

-- lookups before and after an add (also of the added element's "twin" indexes) leave the filter as it is
example : (frun (fstep ⟨9, some ⟨0b1111, some 8⟩⟩ (.query [1, 2])) [.add [2, 6] true, .query [3], .query [2, 6]]).view
    = some ⟨0b1000100, none⟩ := by decide

end CashewsVerif.Props.C18
