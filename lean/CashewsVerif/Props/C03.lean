import CashewsVerif.Lemmas.TxModes
import CashewsVerif.Lemmas.TxNest
import CashewsVerif.Props.C04
import CashewsVerif.Lemmas.TxGate
/-
C03 — transaction effects are all-or-nothing and invisible until commit.
Property theorems only.  Models: `Model/Tx.lean` (`TransactionBackend` / `LockTransactionBackend`),
`Model/TxCtx.lean` (`Cache.transaction` blocks); standing assumptions `TxSetup`, proviso
`NoDeadlineCrossed` as in `Props/C04.lean`.
-/
namespace CashewsVerif.Props.C03
open CashewsVerif Store

/-- **Invisible until commit.** After any sequence of commands inside a transaction, in any mode, an outside
reader sees every user key of the store exactly as it would have seen it had the transaction not
existed: same value, same deadline (the store has merely aged by the time that passed).  Needs no
proviso.  (In the locked modes the reserved ':'-prefixed lock keys do appear in the store.) -/
theorem invisible_until_commit (K : List Key) (b : Mem) (ops : List Op) (hs : TxSetup K b ops)
    (mode : TxMode) (id timeout : Nat) (k : Key) (hu : reserved k = false) :
    ((TxSt.begin_ b mode id timeout).run ops).1.b.view k = ({ b with now := endTime b.now ops } : Mem).view k := by
  obtain ⟨tb, href, _⟩ := reach hs mode id timeout
  rw [href.b.ref.2 k, href.user k hu, abs_b_run hs, view_toTtl_now]

/-- **Commit = applying the writes in order.** After commit the store holds, for every user key, exactly the
value that running the transaction's writes (and time advances) directly on the store would have
left there — present or absent alike. -/
theorem commit_is_in_order_application (K : List Key) (b : Mem) (ops : List Op) (hs : TxSetup K b ops)
    (hn : NoDeadlineCrossed b ops = true) (mode : TxMode) (id timeout : Nat) (k : Key) (hu : reserved k = false) :
    (((TxSt.begin_ b mode id timeout).run ops).1.commit.b.view k).map (·.val) =
      ((b.run (writesOf ops)).1.view k).map (·.val) := by
  obtain ⟨tb, href, _⟩ := reachNdc hs hn mode id timeout
  obtain ⟨tb', g', _, _, huser⟩ := TxSt.commit_refines href (wfReach hs)
  have hX := expired_nil_of_fresh href (Nat.le_of_eq (now_of_ref hs href).2.1)
  rw [hX] at huser
  have hsim := (simReach hs hn).1
  rw [g'.ref.2 k, huser k hu, commitAt_nil_del, commitAt_vals hsim k]
  have hw : TxSetup K b (writesOf ops) :=
    ⟨hs.within, hs.fits, hs.fitsOv, hs.free, fun op hop => hs.ops op (List.mem_filter.mp hop).1⟩
  rw [(directReach hw).1.ref.2 k, TtlMap.run_writesOf ops _ (fun op hop => (hs.ops op hop).2.2)]

/-- **No key written with a TTL outlives its deadline or becomes permanent** — without any proviso.
If, when the block ends, the overlay holds key `k` with value `v` and deadline `d` (that is what a write
with a TTL leaves there, see `ttl_write_sets_deadline`), then after commit the store holds `k` with
exactly the deadline `d` (never none, never later) if `d` is still ahead, and does not hold `k` at all if
`d` has already passed. -/
theorem committed_ttl_bound (K : List Key) (b : Mem) (ops : List Op) (hs : TxSetup K b ops)
    (mode : TxMode) (id timeout : Nat) (k : Key) (v : Val) (d : Time) :
    let st := ((TxSt.begin_ b mode id timeout).run ops).1
    lookup st.ov.store k = some ⟨v, some d⟩ →
    st.commit.b.view k = if st.b.now < d then some ⟨v, some d⟩ else none := by
  intro st hl
  obtain ⟨tb, href, _⟩ := reach hs mode id timeout
  obtain ⟨tb', g', _, _, huser⟩ := TxSt.commit_refines href (wfReach hs)
  have hu : reserved k = false := (href.fresh _ (mem_of_lookup hl)).1
  obtain ⟨n1, n2, _⟩ := now_of_ref hs href
  have hov : ((ATx.begin_ b.toTtl).run ops).1.ov.find k = (lookup st.ov.store k).filter (·.live st.b.now) := by
    rw [← href.ov.ref.2 k]; unfold Mem.view; rw [n1, ← n2]
  rw [g'.ref.2 k, huser k hu]
  unfold ATx.commitAt
  simp only
  rw [hov, hl]
  by_cases hlt : st.b.now < d
  · have : (⟨v, some d⟩ : Entry).live st.b.now = true := by simp [Entry.live, hlt]
    simp [Option.filter, this, hlt]
  · have hlive : (⟨v, some d⟩ : Entry).live st.b.now = false := by simp [Entry.live, hlt]
    have hin : k ∈ TxSt.expiredKeys st.b.now st.ov.store :=
      (TxSt.mem_expiredKeys _ _ _).mpr ⟨_, mem_of_lookup hl, hlive⟩
    simp [Option.filter, hlive, hlt]
    intro _ hnot; exact absurd hin hnot

/-- a write with a (non-zero) TTL leaves the key in the overlay with the deadline `now + ttl` -/
theorem ttl_write_sets_deadline (K : List Key) (b : Mem) (ops : List Op) (k : Key) (v : Val) (n : Nat)
    (hs : TxSetup K b (ops ++ [.set k v (some (n + 1)) .always])) (mode : TxMode) (id timeout : Nat) :
    lookup ((((TxSt.begin_ b mode id timeout).run ops).1).step (.set k v (some (n + 1)) .always)).1.ov.store k =
      some ⟨v, some (((TxSt.begin_ b mode id timeout).run ops).1.ov.now + (n + 1))⟩ := by
  obtain ⟨tb, href, _⟩ := reach hs.prefix mode id timeout
  have hop := hs.ops (.set k v (some (n + 1)) .always) (by simp)
  have hkk := hop.1 k (by simp [Op.keys])
  generalize ((TxSt.begin_ b mode id timeout).run ops).1 = st at href ⊢
  obtain ⟨tb1, h1, ok1⟩ := TxSt.lockAll_refines (TxSt.writeKeys (.set k v (some (n + 1)) .always)) href
    (fun k' hk' => ⟨(hop.1 k' (TxSt.writeKeys_subset _ k' hk')).2, hop.2.1 k' hk' _⟩)
  have hp := TxSt.lockAll_proj (TxSt.writeKeys (.set k v (some (n + 1)) .always)) st
  unfold TxSt.step
  simp only [ok1, if_true, TxSt.baseStep, TxSt.set, TxSt.put]
  rw [Mem.rawSet_noevict h1.ov.within h1.ov.fits hkk.1]
  simp only [lookup_put, if_true, hp.1]
  simp [Mem.newDeadline, deadlineOf]

/-- **Rollback is the identity** — explicit `tx.rollback()` and an exception leaving the block both run
`rollback`.  Afterwards every key of the store, user key or reserved, is exactly what it was before the
block (aged by the time that passed): nothing written, nothing deleted, no lock key left.  No proviso. -/
theorem rollback_is_identity (K : List Key) (b : Mem) (ops : List Op) (hs : TxSetup K b ops)
    (mode : TxMode) (id timeout : Nat) (k : Key) :
    ((TxSt.begin_ b mode id timeout).run ops).1.rollback.b.view k = ({ b with now := endTime b.now ops } : Mem).view k := by
  obtain ⟨tb, href, _⟩ := reach hs mode id timeout
  obtain ⟨tb', g', _, hres, huser⟩ := TxSt.rollback_refines href
  rw [g'.ref.2 k]
  cases hr : reserved k with
  | false => rw [huser k hr, abs_b_run hs, view_toTtl_now]
  | true =>
    rw [hres k hr]
    have h0 := hs.free k hr
    have hge := endTime_ge ops b.now
    have : endTime b.now ops = b.now + (endTime b.now ops - b.now) := by omega
    unfold Mem.view at h0 ⊢
    rw [this]
    show none = Option.filter (fun e => e.live (b.now + (endTime b.now ops - b.now))) (lookup b.store k)
    rw [Mem.filter_live_adv, h0]; rfl

/-- **After the transaction no lock key survives**, committed or rolled back. -/
theorem no_lock_key_survives (K : List Key) (b : Mem) (ops : List Op) (hs : TxSetup K b ops)
    (mode : TxMode) (id timeout : Nat) (k : Key) (hr : reserved k = true) :
    ((TxSt.begin_ b mode id timeout).run ops).1.commit.b.view k = none ∧
    ((TxSt.begin_ b mode id timeout).run ops).1.rollback.b.view k = none := by
  obtain ⟨tb, href, _⟩ := reach hs mode id timeout
  obtain ⟨t1, g1, _, r1, _⟩ := TxSt.commit_refines href (wfReach hs)
  obtain ⟨t2, g2, _, r2, _⟩ := TxSt.rollback_refines href
  exact ⟨by rw [g1.ref.2 k, r1 k hr], by rw [g2.ref.2 k, r2 k hr]⟩

/-- **The three modes agree for a single task** — no proviso.  The same commands give the same answers in
fast, locked and serializable mode, leave the same overlay and pending deletes, the same store after
rollback and the same store after commit (every key, values and deadlines). -/
theorem modes_agree_single_task (K : List Key) (b : Mem) (ops : List Op) (hs : TxSetup K b ops)
    (m1 m2 : TxMode) (id1 id2 t1 t2 : Nat) :
    ((TxSt.begin_ b m1 id1 t1).run ops).2 = ((TxSt.begin_ b m2 id2 t2).run ops).2 ∧
    (∀ k, ((TxSt.begin_ b m1 id1 t1).run ops).1.rollback.b.view k = ((TxSt.begin_ b m2 id2 t2).run ops).1.rollback.b.view k) ∧
    (∀ k, ((TxSt.begin_ b m1 id1 t1).run ops).1.commit.b.view k = ((TxSt.begin_ b m2 id2 t2).run ops).1.commit.b.view k) := by
  refine ⟨?_, fun k => ?_, fun k => ?_⟩
  · rw [(reach hs m1 id1 t1).choose_spec.2, (reach hs m2 id2 t2).choose_spec.2]
  · rw [rollback_is_identity K b ops hs m1 id1 t1 k, rollback_is_identity K b ops hs m2 id2 t2 k]
  · obtain ⟨ta, ha, _⟩ := reach hs m1 id1 t1
    obtain ⟨tb, hb, _⟩ := reach hs m2 id2 t2
    obtain ⟨ta', ga, _, ra, ua⟩ := TxSt.commit_refines ha (wfReach hs)
    obtain ⟨tb', gb, _, rb, ub⟩ := TxSt.commit_refines hb (wfReach hs)
    have hsame := sameOv_reach hs m1 m2 id1 id2 t1 t2
    have hnow := ((now_of_ref hs ha).2.1).trans ((now_of_ref hs hb).2.1).symm
    rw [ga.ref.2 k, gb.ref.2 k]
    cases hr : reserved k with
    | true => rw [ra k hr, rb k hr]
    | false => rw [ua k hr, ub k hr, hsame.1, hnow]

/-- **Nested blocks join the outermost one** (any depth, any inner modes, inner blocks left normally or by a
caught exception) — for programs that open every block on a context object of its own
(`async with cache.transaction(m):` written at the block, or the decorator form): erasing every inner
`enter … exit` pair from a task's program changes neither the final backend / transaction state nor any
command's answer.  (`reentered_object_joins` is the same statement for all programs, including those that
share context objects.) -/
theorem nested_blocks_join (es : List Ev) (_hf : sharedFree es = true) (c : Ctx) (h1 : c.inTx = false)
    (h2 : c.frames = []) (h3 : c.objsIdle) :
    (c.run es).1.st = (c.run (flatten 0 es)).1.st ∧ (c.run es).1.inTx = (c.run (flatten 0 es)).1.inTx ∧
    cmdOuts es (c.run es).2 = cmdOuts (flatten 0 es) (c.run (flatten 0 es)).2 := by
  obtain ⟨hr, ho⟩ := nest_run es Nest.empty c c (nestRel_init c h1 h2 h3)
  exact ⟨hr.st, hr.inTx, ho⟩

/-- **A re-entered context object joins too — to any depth.**  The program may keep `cache.transaction(m)`
objects in variables and enter them again — nested inside their own block any number of times, nested
inside blocks of other objects, mixed with blocks on objects of their own, or sequentially for several
outermost blocks.  For every such program (no hypothesis on it), erasing every inner `enter … exit` pair
changes neither the final backend / transaction state nor any command's answer: the end of a re-entered
block neither commits nor rolls back, writes issued after it are still buffered, and only the outermost
exit ends the transaction.  This is what the `_inner` counter of the context object is for (it tells the
inner exits of the owning object from its outermost exit; as a boolean — before 02b4f5f — it failed at
the third simultaneous block, and without it — seeded change C03-3 — at the second). -/
theorem reentered_object_joins (es : List Ev) (c : Ctx)
    (h1 : c.inTx = false) (h2 : c.frames = []) (h3 : c.objsIdle) :
    (c.run es).1.st = (c.run (flatten 0 es)).1.st ∧ (c.run es).1.inTx = (c.run (flatten 0 es)).1.inTx ∧
    cmdOuts es (c.run es).2 = cmdOuts (flatten 0 es) (c.run (flatten 0 es)).2 := by
  obtain ⟨hr, ho⟩ := nest_run es Nest.empty c c (nestRel_init c h1 h2 h3)
  exact ⟨hr.st, hr.inTx, ho⟩

/-- **A program that has closed all its blocks leaves every context object reusable**: no transaction is
running, no block is open and every shared object is back in its initial state (`_tx = None`,
`_inner = 0`), so the same objects can open the next outermost block (sequential re-use). -/
theorem closed_program_leaves_objects_idle (es : List Ev)
    (hc : (nestAfter Nest.empty es).owner = none) (c : Ctx)
    (h1 : c.inTx = false) (h2 : c.frames = []) (h3 : c.objsIdle) :
    (c.run es).1.inTx = false ∧ (c.run es).1.frames = [] ∧ (c.run es).1.objsIdle := by
  obtain ⟨hr, _⟩ := nest_run es Nest.empty c c (nestRel_init c h1 h2 h3)
  obtain ⟨_, a, b, _, d, _⟩ := hr.zero hc
  exact ⟨a, b, d⟩

/-- **A block is begin; commands; commit-or-rollback**: `async with cache.transaction(mode): <commands>`
leaves the backend `commit` (the body ran to its end) or `rollback` (an exception of ANY kind leaves the block:
an `Exception`, a `BaseException` that is not an `Exception`, or the `CancelledError` of a task cancelled at a
suspension point inside the body — `Leave` lists all kinds there are) of the transaction's run leaves, and the task
outside any transaction. -/
theorem block_is_run_then_end (b : Mem) (timeout : Nat) (m : TxMode) (ops : List Op) (how : Leave) :
    let c := (Ctx.init b timeout).run (.enter m :: (ops.map .cmd ++ [.exit how]))
    c.1.inTx = false ∧
    c.1.st.b = (if how.raises then ((TxSt.begin_ b m 1 timeout).run ops).1.rollback
                else ((TxSt.begin_ b m 1 timeout).run ops).1.commit).b := by
  have : ∀ (c : Ctx) (es : List Ev) (e : Ev), (c.run (es ++ [e])).1 = ((c.run es).1.step e).1 := by
    intro c es; induction es generalizing c with
    | nil => intro e; rfl
    | cons e' es ih => intro e; simp only [List.cons_append, Ctx.run]; exact ih _ e
  simp only [Ctx.run, Ctx.step, Ctx.init, Bool.false_eq_true, if_false]
  rw [this, Ctx.run_cmds ops _ rfl]
  simp only [Ctx.step]
  cases how.raises <;> simp [TxSt.begin_]

/-- the same for a block opened on a shared context object that is not in use -/
theorem shared_block_is_run_then_end (b : Mem) (timeout : Nat) (o : Nat) (m : TxMode) (ops : List Op) (how : Leave) :
    let c := (Ctx.init b timeout).run (.enterObj o m :: (ops.map .cmd ++ [.exit how]))
    c.1.inTx = false ∧ c.1.objs o = ⟨false, 0⟩ ∧
    c.1.st.b = (if how.raises then ((TxSt.begin_ b m 1 timeout).run ops).1.rollback
                else ((TxSt.begin_ b m 1 timeout).run ops).1.commit).b := by
  have : ∀ (c : Ctx) (es : List Ev) (e : Ev), (c.run (es ++ [e])).1 = ((c.run es).1.step e).1 := by
    intro c es; induction es generalizing c with
    | nil => intro e; rfl
    | cons e' es ih => intro e; simp only [List.cons_append, Ctx.run]; exact ih _ e
  simp only [Ctx.run, Ctx.step, Ctx.init, Bool.false_eq_true, if_false]
  rw [this, Ctx.run_cmds ops _ rfl]
  simp only [Ctx.step]
  cases how.raises <;> simp [TxSt.begin_, Ctx.setObj]

/-- **An exit with an exception of any kind is the identity on the store** (the rollback theorem, for all the
kinds of `Leave`): whatever leaves the block — an `Exception`, a `BaseException` that is not an `Exception`
(`KeyboardInterrupt`, a user subclass, …), or `asyncio.CancelledError` because the task was cancelled while it was
suspended inside the body after some writes, or an exception object whose truth value is False (`Leave.falsy`: seeded
change C05-9 decided with `if exc_value` and committed it) — afterwards every key of the store, user key or lock key, is exactly what
it was before the block (aged by the time that passed), no transaction is current in the task's context, and (for a
shared context object) the object is idle again.  No proviso.  In particular a cancelled, half-done transaction is
never committed (seeded changes C03-5 / C05-4 decided with `isinstance(exc_value, Exception)` and did commit it). -/
theorem exit_with_any_exception_is_identity (K : List Key) (b : Mem) (ops : List Op) (hs : TxSetup K b ops)
    (timeout : Nat) (m : TxMode) (how : Leave) (hx : how ≠ .ok) (k : Key) :
    let c := (Ctx.init b timeout).run (.enter m :: (ops.map .cmd ++ [.exit how]))
    let c' := (Ctx.init b timeout).run (.enterObj 0 m :: (ops.map .cmd ++ [.exit how]))
    (c.1.inTx = false ∧ c.1.st.b.view k = ({ b with now := endTime b.now ops } : Mem).view k) ∧
    (c'.1.inTx = false ∧ c'.1.objs 0 = ⟨false, 0⟩ ∧ c'.1.st.b.view k = ({ b with now := endTime b.now ops } : Mem).view k) := by
  have hr : how.raises = true := by cases how <;> simp_all [Leave.raises]
  have h1 := block_is_run_then_end b timeout m ops how
  have h2 := shared_block_is_run_then_end b timeout 0 m ops how
  simp only [hr, if_true] at h1 h2
  refine ⟨⟨h1.1, ?_⟩, h2.1, h2.2.1, ?_⟩
  · rw [h1.2]; exact rollback_is_identity K b ops hs m 1 timeout k
  · rw [h2.2.2]; exact rollback_is_identity K b ops hs m 1 timeout k

/-- **An explicit `tx.rollback()` / `tx.commit()` in the middle of a body** acts on what the block buffered so far
and leaves the same transaction running, empty: after `enter; ops; rollback` (resp. `commit`) the backend is the
`rollback` (resp. `commit`) of the run so far, the task is still inside the block, nothing is buffered and no lock is
held — the commands that follow start a new segment on that backend (and take their locks again), and the end of
the block commits or rolls back only that last segment. -/
theorem explicit_end_midbody_starts_afresh (b : Mem) (timeout : Nat) (m : TxMode) (ops : List Op) :
    let r := ((Ctx.init b timeout).run (.enter m :: (ops.map .cmd ++ [.rollback]))).1
    let c := ((Ctx.init b timeout).run (.enter m :: (ops.map .cmd ++ [.commit]))).1
    (r.inTx = true ∧ r.st = ((TxSt.begin_ b m 1 timeout).run ops).1.rollback) ∧
    (c.inTx = true ∧ c.st = ((TxSt.begin_ b m 1 timeout).run ops).1.commit) := by
  have : ∀ (c : Ctx) (es : List Ev) (e : Ev), (c.run (es ++ [e])).1 = ((c.run es).1.step e).1 := by
    intro c es; induction es generalizing c with
    | nil => intro e; rfl
    | cons e' es ih => intro e; simp only [List.cons_append, Ctx.run]; exact ih _ e
  simp only [Ctx.run, Ctx.step, Ctx.init, Bool.false_eq_true, if_false]
  rw [this, this, Ctx.run_cmds ops _ rfl]
  simp [Ctx.step, TxSt.begin_]

/-! ### histories with pattern commands (`delete_match` is one of the transactional writes) -/

/-- **Invisible until commit, with pattern commands.**  After any history of regular commands, `delete_match`,
`scan` and `get_match` inside a transaction, in any mode, an outside reader sees every user key of the store exactly
as if the transaction did not exist (a `delete_match` touches the store only to take lock keys).  No proviso on time. -/
theorem invisible_until_commit_with_patterns (K : List Key) (name : Nat → List Char) (b : Mem) (cmds : List TxCmd)
    (hs : TxSetupC K name b cmds) (mode : TxMode) (id timeout : Nat) (k : Key) (hu : reserved k = false) :
    ((TxSt.begin_ b mode id timeout).runC name cmds).1.b.view k = ({ b with now := endTimeC b.now cmds } : Mem).view k := by
  obtain ⟨a, tb, href, _, hb⟩ := reachC hs mode id timeout
  rw [href.b.ref.2 k, href.user k hu, hb, view_toTtl_now]

/-- **Commit = applying the writes in order, `delete_match` included.**  After commit the store holds, for every
user key, exactly the value that running the transaction's writes — set, set_many, incr, delete, delete_many,
expire, DELETE_MATCH — and time advances directly on the store, in order, would have left there, present or absent
alike, in fast, locked and serializable mode.  In particular a `delete_match` whose pattern matches only keys
written earlier in the same transaction (no store key) still removes those pending writes (seeded change C03-9
skipped that in the locked modes), one that matches nothing removes nothing, and one repeated after a matching
key was written again removes it again (seeded change C13-9). -/
theorem commit_is_in_order_application_with_patterns (K : List Key) (name : Nat → List Char) (b : Mem) (cmds : List TxCmd)
    (hs : TxSetupC K name b cmds) (hn : NoDeadlineCrossedC b cmds = true) (mode : TxMode) (id timeout : Nat)
    (k : Key) (hu : reserved k = false) :
    (((TxSt.begin_ b mode id timeout).runC name cmds).1.commit.b.view k).map (·.val) =
      ((b.runC name (writesOfC cmds)).1.view k).map (·.val) := by
  obtain ⟨a, tb, href, hw, hb, hsim, _⟩ := reachNdcC hs hn mode id timeout
  obtain ⟨tb', g', _, _, huser⟩ := TxSt.commit_refines href hw
  have hX := expired_nil_of_fresh href (Nat.le_of_eq (now_of_refC href hw hb).2.1)
  rw [hX] at huser
  rw [g'.ref.2 k, huser k hu, commitAt_nil_del, commitAt_vals hsim k]
  have hd := Mem.good_runC name (writesOfC cmds) hs.good hs.writes.hist
  rw [hd.ref.2 k, TtlMap.runC_writesOfC name cmds _ (fun c hc => cmdOk_isTxOp (hs.cmds c hc))]

/-- **Rollback is the identity, with pattern commands**: afterwards every key of the store, user key or reserved,
is what it was before the block (aged): nothing written, nothing deleted by a `delete_match`, no lock key left. -/
theorem rollback_is_identity_with_patterns (K : List Key) (name : Nat → List Char) (b : Mem) (cmds : List TxCmd)
    (hs : TxSetupC K name b cmds) (mode : TxMode) (id timeout : Nat) (k : Key) :
    ((TxSt.begin_ b mode id timeout).runC name cmds).1.rollback.b.view k = ({ b with now := endTimeC b.now cmds } : Mem).view k := by
  obtain ⟨a, tb, href, _, hb⟩ := reachC hs mode id timeout
  obtain ⟨tb', g', _, hres, huser⟩ := TxSt.rollback_refines href
  rw [g'.ref.2 k]
  cases hr : reserved k with
  | false => rw [huser k hr, hb, view_toTtl_now]
  | true =>
    rw [hres k hr]
    have h0 := hs.free k hr
    have hge : b.now ≤ endTimeC b.now cmds := endTime_ge _ b.now
    have : endTimeC b.now cmds = b.now + (endTimeC b.now cmds - b.now) := by omega
    unfold Mem.view at h0 ⊢
    rw [this]
    show none = Option.filter (fun e => e.live (b.now + (endTimeC b.now cmds - b.now))) (lookup b.store k)
    rw [Mem.filter_live_adv, h0]; rfl

/-- **After a transaction with pattern commands no lock key survives** (a `delete_match` in the locked modes
takes one lock per store key it deletes), committed or rolled back. -/
theorem no_lock_key_survives_with_patterns (K : List Key) (name : Nat → List Char) (b : Mem) (cmds : List TxCmd)
    (hs : TxSetupC K name b cmds) (mode : TxMode) (id timeout : Nat) (k : Key) (hr : reserved k = true) :
    ((TxSt.begin_ b mode id timeout).runC name cmds).1.commit.b.view k = none ∧
    ((TxSt.begin_ b mode id timeout).runC name cmds).1.rollback.b.view k = none := by
  obtain ⟨a, tb, href, hw, _⟩ := reachC hs mode id timeout
  obtain ⟨t1, g1, _, r1, _⟩ := TxSt.commit_refines href hw
  obtain ⟨t2, g2, _, r2, _⟩ := TxSt.rollback_refines href
  exact ⟨by rw [g1.ref.2 k, r1 k hr], by rw [g2.ref.2 k, r2 k hr]⟩

/-- **The three modes agree on histories with pattern commands** (one task, under the proviso): the same history
gives the same observed answers in fast, locked and serializable mode and the same values of all user keys after
commit — although the plain and the lock backend have each their own copy of `delete_match`. -/
theorem modes_agree_with_patterns (K : List Key) (name : Nat → List Char) (b : Mem) (cmds : List TxCmd)
    (hs : TxSetupC K name b cmds) (hn : NoDeadlineCrossedC b cmds = true) (m1 m2 : TxMode) (id1 id2 t1 t2 : Nat) :
    obsAllC K cmds ((TxSt.begin_ b m1 id1 t1).runC name cmds).2 = obsAllC K cmds ((TxSt.begin_ b m2 id2 t2).runC name cmds).2 ∧
    ∀ k, reserved k = false →
      (((TxSt.begin_ b m1 id1 t1).runC name cmds).1.commit.b.view k).map (·.val) =
      (((TxSt.begin_ b m2 id2 t2).runC name cmds).1.commit.b.view k).map (·.val) := by
  refine ⟨?_, fun k hu => ?_⟩
  · rw [C04.tx_step_simulates_direct_with_patterns K name b cmds hs hn m1 id1 t1,
      C04.tx_step_simulates_direct_with_patterns K name b cmds hs hn m2 id2 t2]
  · rw [commit_is_in_order_application_with_patterns K name b cmds hs hn m1 id1 t1 k hu,
      commit_is_in_order_application_with_patterns K name b cmds hs hn m2 id2 t2 k hu]

/-- **A block is begin; commands; commit-or-rollback — with pattern commands** (`Ctx.stepC` routes them like
`Ctx.step (.cmd _)` routes a regular command: to the running transaction). -/
theorem block_with_patterns_is_run_then_end (name : Nat → List Char) (b : Mem) (timeout : Nat) (m : TxMode)
    (cmds : List TxCmd) (how : Leave) :
    let c := ((cmds.foldl (fun c cmd => (c.stepC name cmd).1) ((Ctx.init b timeout).step (.enter m)).1).step (.exit how)).1
    c.inTx = false ∧
    c.st.b = (if how.raises then ((TxSt.begin_ b m 1 timeout).runC name cmds).1.rollback
              else ((TxSt.begin_ b m 1 timeout).runC name cmds).1.commit).b := by
  have h0 : ((Ctx.init b timeout).step (.enter m)).1.inTx = true := by simp [Ctx.step, Ctx.init]
  rw [Ctx.runC_in name cmds _ h0]
  simp only [Ctx.step, Ctx.init, Bool.false_eq_true, if_false]
  cases how.raises <;> simp [TxSt.begin_]

/-! ### control state (`cache.disable(...)`) × transactions: `Model/TxGate.lean` -/

/-- the writes among the accepted commands are the accepted commands among the writes -/
theorem accepted_writes (h : GHist) : accepted (h.filter fun cd => cd.1.isWrite) = writesOfC (accepted h) := by
  simp only [accepted, writesOfC, List.filter_map, List.filter_filter]
  congr 1
  apply List.filter_congr
  intro x _
  simp [Function.comp, Bool.and_comm]

/-- **A commit applies exactly the writes that were accepted into the transaction — all of them, whatever is
disabled by then.**  For every history issued under a control state that may change from command to command
(each command of `h` tagged with whether it was disabled when it was issued: single commands, bulk commands,
pattern commands, in any combination), in every mode: the commands that were disabled when issued never entered
the transaction, and after commit every user key holds what running the writes of the history directly on the
store under the same control state would have left there.  The flush of a commit (`delete_many` / `set_many` on the
backend object) is not a command of the user: `TxSt.commit` does not consult the control state, so disabling the
bulk commands while their single-key counterparts stay enabled drops neither the accepted deletes nor the accepted
sets (seeded change C03-12 did). -/
theorem commit_applies_exactly_the_accepted_writes (K : List Key) (name : Nat → List Char) (b : Mem) (h : GHist)
    (hs : TxSetupC K name b (accepted h)) (hn : NoDeadlineCrossedC b (accepted h) = true)
    (mode : TxMode) (id timeout : Nat) (k : Key) (hu : reserved k = false) :
    (((TxSt.begin_ b mode id timeout).runG name h).1.commit.b.view k).map (·.val) =
      ((b.runG name (h.filter fun cd => cd.1.isWrite)).1.view k).map (·.val) := by
  rw [(TxSt.runG_eq name h _).1, (Mem.runG_eq name _ b).1, accepted_writes]
  exact commit_is_in_order_application_with_patterns K name b (accepted h) hs hn mode id timeout k hu

/-- **Under any control state a transaction stays invisible until commit and a rollback is the identity**; a
command that is disabled when it is issued changes nothing at all (no buffered write, no lock key). -/
theorem invisible_and_rollback_under_control_state (K : List Key) (name : Nat → List Char) (b : Mem) (h : GHist)
    (hs : TxSetupC K name b (accepted h)) (mode : TxMode) (id timeout : Nat) (k : Key) :
    (reserved k = false → ((TxSt.begin_ b mode id timeout).runG name h).1.b.view k =
        ({ b with now := endTimeC b.now (accepted h) } : Mem).view k) ∧
    ((TxSt.begin_ b mode id timeout).runG name h).1.rollback.b.view k =
        ({ b with now := endTimeC b.now (accepted h) } : Mem).view k ∧
    (∀ (st : TxSt) (c : TxCmd), st.stepG name (c, true) = (st, none)) := by
  rw [(TxSt.runG_eq name h _).1]
  exact ⟨invisible_until_commit_with_patterns K name b _ hs mode id timeout k,
    rollback_is_identity_with_patterns K name b _ hs mode id timeout k, fun _ _ => rfl⟩

/-! ### several backends in one transaction; commands issued from child tasks -/

/-- **A commit applies the writes on EVERY backend of the transaction.**  For a cache that routes its keys to several
backends, each with its own initial store and its own share `p.2` of the block's commands (any number of backends, in
any order of first touch, every mode): after `Transaction.commit` every backend holds, for each user key, what running
its writes in order directly on its store leaves — none is skipped (seeded change C03-15 skipped every second one), and
no backend keeps a lock key; `Transaction.rollback` leaves every backend as it was. -/
theorem commit_applies_the_writes_on_every_backend (K : List Key) (name : Nat → List Char)
    (parts : List (Mem × List TxCmd))
    (hs : ∀ p ∈ parts, TxSetupC K name p.1 p.2 ∧ NoDeadlineCrossedC p.1 p.2 = true)
    (mode : TxMode) (id timeout : Nat) (k : Key) :
    (reserved k = false →
      (commitAll (parts.map fun p => ((TxSt.begin_ p.1 mode id timeout).runC name p.2).1)).map
          (fun st => (st.b.view k).map (·.val)) =
        parts.map fun p => ((p.1.runC name (writesOfC p.2)).1.view k).map (·.val)) ∧
    (reserved k = true →
      ∀ st ∈ commitAll (parts.map fun p => ((TxSt.begin_ p.1 mode id timeout).runC name p.2).1), st.b.view k = none) ∧
    (rollbackAll (parts.map fun p => ((TxSt.begin_ p.1 mode id timeout).runC name p.2).1)).map (fun st => st.b.view k) =
      parts.map fun p => ({ p.1 with now := endTimeC p.1.now p.2 } : Mem).view k := by
  induction parts with
  | nil => exact ⟨fun _ => rfl, fun _ st h => by simp [commitAll] at h, rfl⟩
  | cons p parts ih =>
    obtain ⟨i1, i2, i3⟩ := ih (fun q hq => hs q (by simp [hq]))
    obtain ⟨h1, h2⟩ := hs p (by simp)
    refine ⟨fun hu => ?_, fun hr st hst => ?_, ?_⟩
    · simp only [List.map_cons, commitAll]
      rw [commit_is_in_order_application_with_patterns K name p.1 p.2 h1 h2 mode id timeout k hu, i1 hu]
    · simp only [List.map_cons, commitAll, List.mem_cons] at hst
      rcases hst with hst | hst
      · rw [hst]; exact (no_lock_key_survives_with_patterns K name p.1 p.2 h1 mode id timeout k hr).1
      · exact i2 hr st hst
    · simp only [List.map_cons, rollbackAll]
      rw [rollback_is_identity_with_patterns K name p.1 p.2 h1 mode id timeout k, i3]

/-- **Commands issued from child tasks that the body awaits are commands of the transaction.**  A task created inside
the block (`asyncio.gather`, `create_task`, a `TaskGroup`) inherits a copy of the context and with it the context
variable `_transaction`, so `_get_backend` wraps the backend for it exactly as for the task that opened the block
(`Ctx.stepC` looks at `inTx` only, not at who asks): in whatever order `order` the fanned-out commands `cmds` run, the
block's state afterwards is the transaction's run of that order — everything is buffered, nothing reaches the store
before the end of the block (with `invisible_until_commit_with_patterns`), a rollback drops it all.  (Seeded change
C03-14 bound the transaction to the task that opened it: child commands went straight to the store.) -/
theorem fan_out_commands_are_commands_of_the_transaction (name : Nat → List Char) (c : Ctx) (hin : c.inTx = true)
    (cmds order : List TxCmd) (_hp : order.Perm cmds) :
    order.foldl (fun c cmd => (c.stepC name cmd).1) c = { c with st := (c.st.runC name order).1 } ∧
    (order.foldl (fun c cmd => (c.stepC name cmd).1) c).inTx = true := by
  rw [Ctx.runC_in name order c hin]
  exact ⟨rfl, hin⟩

/-! ### Non-vacuity (the sample transaction of `Props/C04.lean` meets every hypothesis used here) -/

open CashewsVerif.Props.C04 in
example : TxSetup sampleK sampleStore sampleOps ∧ NoDeadlineCrossed sampleStore sampleOps = true :=
  ⟨sampleSetup, by decide⟩

open CashewsVerif.Props.C04 in
/-- the committed store of the sample: key 0 counted from the deleted state with its 1 s TTL (5 ticks left
at commit, 6 = now), key 2 with the re-timed deadline, key 4 with the TTL given by the conditional write -/
example : (((TxSt.begin_ sampleStore .serializable 1 80).run sampleOps).1.commit.b.store, 
           ((TxSt.begin_ sampleStore .serializable 1 80).run sampleOps).1.b.now) =
    ([(2, ⟨.int 6, some 84⟩), (4, ⟨.int 1, some 20⟩), (0, ⟨.int 1, some 14⟩)], 6) := by decide

open CashewsVerif.Props.C04 in
/-- premise of `committed_ttl_bound`: the overlay of the sample holds key 0 with a deadline -/
example : lookup ((TxSt.begin_ sampleStore .fast 1 80).run sampleOps).1.ov.store 0 = some ⟨.int 1, some 14⟩ := by decide

/-- a program with blocks nested twice, an inner block left by a caught exception, flattened -/
example : flatten 0 [.enter .fast, .cmd (.set 0 (.tok 1) none .always), .enter .locked, .enter .serializable,
      .cmd (.incr 2 1 none), .exit .error, .exit .ok, .cmd (.get 0), .exit .ok, .cmd (.get 2)] =
    [.enter .fast, .cmd (.set 0 (.tok 1) none .always), .cmd (.incr 2 1 none), .cmd (.get 0), .exit .ok,
      .cmd (.get 2)] := rfl

/-- a program for `reentered_object_joins` / `closed_program_leaves_objects_idle`: a shared object nested in
itself THREE deep, a second shared object entered three times inside it, a block on an object of its own in
between, then the first object re-used for a second outermost block — closed, and flattened -/
example : (fun es : List Ev =>
      (nestAfter Nest.empty es).owner = none ∧
      flatten 0 es = [.enterObj 0 .locked, .cmd (.set 0 (.tok 1) none .always), .cmd (.incr 2 1 none), .cmd (.get 0),
        .exit .error, .enterObj 0 .locked, .cmd (.set 4 (.tok 2) none .always), .exit .ok])
    [.enterObj 0 .locked, .cmd (.set 0 (.tok 1) none .always), .enterObj 0 .locked, .enterObj 0 .locked,
      .enterObj 1 .fast, .enter .serializable, .enterObj 1 .fast, .enterObj 1 .fast, .cmd (.incr 2 1 none),
      .exit .ok, .exit .error, .exit .ok, .exit .ok, .exit .ok, .exit .ok, .cmd (.get 0), .exit .error,
      .enterObj 0 .locked, .enterObj 0 .locked, .cmd (.set 4 (.tok 2) none .always), .exit .ok, .exit .ok] :=
  ⟨by decide, rfl⟩

/-- the three-deep witness of the defect repaired by 02b4f5f: after the second and third block of the owning
object have ended the transaction is still running, the lock is held and nothing is in the store; the
exception leaving the outermost block rolls everything back -/
example : (fun es : List Ev =>
      ((Ctx.init (Mem.init 10) 80).run es).1.inTx = true ∧
      ((Ctx.init (Mem.init 10) 80).run es).1.objs 0 = ⟨true, 0⟩ ∧
      ((Ctx.init (Mem.init 10) 80).run es).1.st.b.view 0 = none ∧
      ((Ctx.init (Mem.init 10) 80).run (es ++ [.cmd (.set 2 (.tok 2) none .always), .exit .error])).1.st.b.store = [])
    [.enterObj 0 .fast, .cmd (.set 0 (.tok 7) none .always), .enterObj 0 .fast, .enterObj 0 .fast,
      .exit .ok, .exit .ok] := by decide

/-- the model does something on it: the first outermost block is rolled back by the exception that leaves it
(nothing of it in the store, although the re-entered block inside it ended normally), the second one commits -/
example : ((Ctx.init (Mem.init 10) 80).run [.enterObj 0 .locked, .cmd (.set 0 (.tok 1) none .always),
      .enterObj 0 .locked, .cmd (.set 2 (.tok 1) none .always), .exit .ok, .cmd (.set 4 (.tok 1) none .always),
      .exit .error, .enterObj 0 .locked, .enterObj 0 .locked, .cmd (.set 4 (.tok 2) none .always), .exit .ok,
      .exit .ok]).1.st.b.store = [(4, ⟨.tok 2, none⟩)] := by decide

example : (Ctx.init (Mem.init 10) 80).objsIdle := fun _ => rfl

/-- all kinds of exit on one body (a write in locked mode, so a lock key is in the store while the block runs):
only `ok` commits; an `Exception`, a non-`Exception` `BaseException`, a cancellation and a falsy exception object leave
nothing, not even the lock -/
example : ([Leave.ok, .error, .base, .cancelled, .falsy].map fun how =>
      ((Ctx.init (Mem.init 10) 80).run [.enter .locked, .cmd (.set 0 (.tok 1) none .always), .exit how]).1.st.b.store) =
    [[(0, ⟨.tok 1, none⟩)], [], [], [], []] := by decide

/-- the lock key really is there before the exit (so "no lock key left" says something) -/
example : ((Ctx.init (Mem.init 10) 80).run [.enter .locked, .cmd (.set 0 (.tok 1) none .always)]).1.st.b.store.length = 1 := by
  decide

/-- explicit `commit()` mid-body, a further write, then a cancellation: the committed segment stays, the segment that
was open when the task was cancelled is dropped -/
example : ((Ctx.init (Mem.init 10) 80).run [.enter .serializable, .cmd (.set 0 (.tok 1) none .always), .commit,
      .cmd (.set 2 (.tok 2) none .always), .exit .cancelled]).1.st.b.store = [(0, ⟨.tok 1, none⟩)] := by decide

/-- explicit `rollback()` mid-body, a further write, normal exit: only the later segment is committed -/
example : ((Ctx.init (Mem.init 10) 80).run [.enter .locked, .cmd (.set 0 (.tok 1) none .always), .rollback,
      .cmd (.set 2 (.tok 2) none .always), .exit .ok]).1.st.b.store = [(2, ⟨.tok 2, none⟩)] := by decide

/-! ### Non-vacuity of the theorems with pattern commands -/

open CashewsVerif.Props.C04 in
example : TxSetupC sampleK sampleName sampleStore sampleCmds ∧ NoDeadlineCrossedC sampleStore sampleCmds = true :=
  ⟨sampleSetupC, by decide⟩

open CashewsVerif.Props.C04 in
/-- the committed store of the sample with pattern commands, the same in the three modes: only the key written
after the last `delete_match` is there; while the block runs in locked mode the store holds one lock key per key
a command or a `delete_match` touched -/
example : (∀ mode ∈ [TxMode.fast, .locked, .serializable],
      ((TxSt.begin_ sampleStore mode 1 80).runC sampleName sampleCmds).1.commit.b.store = [(0, ⟨.int 3, none⟩)]) ∧
    (((TxSt.begin_ sampleStore .locked 1 80).runC sampleName sampleCmds).1.locks = [7, 5, 3]) := by decide

open CashewsVerif.Props.C04 in
/-- the writes of the sample: the reads by pattern are not among them, the `delete_match`es are -/
example : (writesOfC sampleCmds).length = 10 := by decide

open CashewsVerif.Props.C04 in
/-- witness of the class seeded change C03-9 broke: nothing in the store matches, the pattern matches the keys
written earlier in the transaction — in every mode the commit leaves only what was written afterwards -/
example : ∀ mode ∈ [TxMode.fast, .locked, .serializable],
    ((TxSt.begin_ (Mem.init 1000) mode 1 80).runC sampleName
      [.op (.set 0 (.tok 1) (some 80) .always), .op (.setMany [(2, .tok 2), (4, .tok 3)] none), .op (.incr 4 1 none),
       .deleteMatch pAll, .op (.set 4 (.tok 9) none .always)]).1.commit.b.store = [(4, ⟨.tok 9, none⟩)] := by decide

open CashewsVerif.Props.C04 in
/-- witness of the class seeded change C13-9 broke: store key matching p, `delete_match(p)`, the key written
again, `delete_match(p)` again — the key is gone inside the transaction and after commit -/
example : ∀ mode ∈ [TxMode.fast, .locked, .serializable],
    (fun st : TxSt => ((st.get 0).2, st.commit.b.store))
      ((TxSt.begin_ sampleStore mode 1 80).runC sampleName
        [.deleteMatch pAll, .op (.set 0 (.tok 5) none .always), .deleteMatch pAll]).1 = (none, [(4, ⟨.tok 2, some 2⟩)]) := by
  decide

open CashewsVerif.Props.C04 in
/-- control state: `delete_many` and `delete_match` disabled, `delete` / `set` / `incr` enabled (the class seeded
change C03-12 broke).  The disabled `delete_match` never enters the transaction; the accepted delete, set and incr
are all committed, in every mode — exactly what the same commands leave when issued directly -/
example : ∀ mode ∈ [TxMode.fast, .locked, .serializable],
    ((TxSt.begin_ sampleStore mode 1 80).runG sampleName
      [(.op (.set 4 (.tok 9) none .always), false), (.deleteMatch pAll, true), (.op (.delete 0), false),
       (.op (.incr 2 1 none), false), (.op (.deleteMany [2]), true)]).1.commit.b.store =
    (sampleStore.runG sampleName
      [(.op (.set 4 (.tok 9) none .always), false), (.deleteMatch pAll, true), (.op (.delete 0), false),
       (.op (.incr 2 1 none), false), (.op (.deleteMany [2]), true)]).1.store := by decide

open CashewsVerif.Props.C04 in
/-- two backends in one serializable transaction (the second one only touched by a read and a delete): both are
committed, neither keeps its lock key -/
example : (commitAll [((TxSt.begin_ sampleStore .serializable 1 80).runC sampleName [.op (.set 0 (.tok 9) none .always)]).1,
      ((TxSt.begin_ sampleStore .serializable 1 80).runC sampleName [.op (.get 2), .op (.delete 2)]).1]).map (·.b.store) =
    [[(2, ⟨.int 5, some 14⟩), (4, ⟨.tok 2, some 2⟩), (0, ⟨.tok 9, none⟩)], [(0, ⟨.tok 1, none⟩), (4, ⟨.tok 2, some 2⟩)]] := by
  decide

end CashewsVerif.Props.C03
