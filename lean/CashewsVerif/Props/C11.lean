import CashewsVerif.Lemmas.LruLeaves
import CashewsVerif.Lemmas.SweepReach
import CashewsVerif.Lemmas.LruX
/-
C11 — the in-memory backend respects its capacity and evicts least-recently-used first.
Property theorems only; the ghost-instrumented model is `Model/Lru.lean`, helper lemmas are
`Lemmas/LruPurge.lean`, `Lemmas/LruGhost.lean`, `Lemmas/LruOrder.lean`, `Lemmas/LruLeaves.lean`; the purge
task at key granularity is `Model/Sweep.lean` with `Lemmas/Sweep.lean`, `Lemmas/SweepReach.lean`.

Every theorem quantifies over *all* capacities (0 included) and *all* histories of the `Op` alphabet
(set / conditional set / set_many / get / get_many / exists / incr / delete / delete_many / expire /
get_expire / clear / time advances / purge sweeps anywhere), so expired-but-unpurged entries occupying
slots, purge on and purge off, and every purge timing are covered.
-/
namespace CashewsVerif.Props.C11
open CashewsVerif Store

/-- **The ghost only observes.**  Running the instrumented model `Lru` (use log, eviction records,
`gone` list) on any history from any capacity gives exactly the store and exactly the answers of the
plain `Mem` model — so the theorems below, stated with the ghost, are about `Mem`. -/
theorem ghost_is_erasable (cap : Nat) (ops : List Op) :
    ((Lru.init cap).run ops).1.mem = ((Mem.init cap).run ops).1 ∧
    ((Lru.init cap).run ops).2 = ((Mem.init cap).run ops).2 :=
  Lru.run_mem ops (Lru.init cap)

/-- **(a) Capacity bound.**  After every command of every history (every prefix `p` of every `ops`) the
store holds at most `cap` entries, under pairwise distinct keys — expired-but-unpurged entries counted. -/
theorem cap_bound (cap : Nat) (ops p : List Op) (_hp : p <+: ops) :
    ((Mem.init cap).run p).1.store.length ≤ cap ∧ (keys ((Mem.init cap).run p).1.store).Nodup := by
  have h := Lru.inv_run cap p
  have hc := Lru.cap_run cap p
  rw [← (ghost_is_erasable cap p).1]
  refine ⟨?_, h.ord.nodup⟩
  have := h.bounded
  unfold Lru.Bounded at this
  rw [hc] at this
  exact this

/-- **(b) Store order = recency order.**  After every history the keys of the store, read from the
front (the next eviction victim) to the back, are strictly increasing in `lastUse` of the ghost use log:
each key was last used before the key behind it.  Purge sweeps are in the history but log no use. -/
theorem order_is_recency (cap : Nat) (ops : List Op) :
    let x := ((Lru.init cap).run ops).1
    (keys x.mem.store).Pairwise (fun a b => lastUse x.log a < lastUse x.log b) :=
  (Lru.inv_run cap ops).ord

/-- **(b) Victim rule.**  For every eviction `(k, log)` that happens anywhere in any history there are at
least `cap` pairwise distinct keys, all different from the victim `k`, each used more recently than `k`
(`lastUse` w.r.t. the use log at the moment of the eviction). -/
theorem victim_rule (cap : Nat) (ops : List Op) (k : Key) (log : List Key)
    (hev : (k, log) ∈ ((Lru.init cap).run ops).1.evs) :
    ∃ W : List Key, W.Nodup ∧ cap ≤ W.length ∧ ∀ w ∈ W, w ≠ k ∧ lastUse log k < lastUse log w := by
  have h := (Lru.inv_run cap ops).evs (k, log) hev
  rw [Lru.cap_run] at h
  obtain ⟨W, h1, h2, h3⟩ := h
  exact ⟨W, h1, h2, fun w hw => ⟨(h3 w hw).1, lastUse_lt_of_mem_usedSince (h3 w hw).2⟩⟩

/-- the victim rule as a count (what the harness oracle evaluates): the distinct keys in the part of the
use log after the victim's latest use number at least `cap`, and the victim is not among them. -/
theorem victim_rule_count (cap : Nat) (ops : List Op) (k : Key) (log : List Key)
    (hev : (k, log) ∈ ((Lru.init cap).run ops).1.evs) :
    cap ≤ (recentOthers log k).length ∧ k ∉ recentOthers log k := by
  have h := (Lru.inv_run cap ops).evs (k, log) hev
  rw [Lru.cap_run] at h
  refine ⟨h.count, fun hk => ?_⟩
  unfold recentOthers at hk
  exact ne_of_mem_usedSince (List.mem_eraseDups.mp hk) rfl

/-- **Evictions are exactly what is recorded**, for any state: a key that was held (or is the key being
written) and is no longer held after `_set` is the recorded victim of that `_set`. -/
theorem eviction_is_recorded (x : Lru) (k : Key) (v : Val) (ttl : Option Nat) (k' : Key)
    (hin : k' ∈ keys x.mem.store ∨ k' = k) (hout : k' ∉ keys (x.gSet k v ttl).mem.store) :
    (k', k :: x.log) ∈ (x.gSet k v ttl).evs := by
  have hmem : k' ∈ keys (put x.mem.store k ⟨v, x.mem.newDeadline k ttl⟩) :=
    (mem_keys_put _ _ _ _).mpr (hin.symm)
  rcases trim_cases x.mem.cap _ hmem with h | h
  · exact absurd h hout
  · simp only [Lru.gSet, h]
    exact List.mem_cons_self

/-- **The `gone` list is what it says**: after every history no key on it is held (a key written again
is taken off), and every held key has been used. -/
theorem gone_not_held (cap : Nat) (ops : List Op) :
    let x := ((Lru.init cap).run ops).1
    (∀ k ∈ x.gone, k ∉ keys x.mem.store) ∧ (∀ k ∈ keys x.mem.store, k ∈ x.log) :=
  ⟨(Lru.disj_run cap ops).gone, (Lru.disj_run cap ops).used⟩

/-- **A key leaves the store only for a reason.**  In every reachable state `x` and for every command
`op`: a key that `x` holds and the successor state does not is either on the successor's `gone` list
(deleted, cleared, or collected because its deadline had passed — by `gone_not_held` it was not on it
before), or `op` recorded an eviction of it, and then at least `cap` pairwise distinct other keys were
used more recently than it.  Nothing else makes a key disappear. -/
theorem leaves_only_by (cap : Nat) (ops : List Op) (op : Op) (k : Key) :
    let x := ((Lru.init cap).run ops).1
    let x' := (x.step op).1
    k ∈ keys x.mem.store → k ∉ keys x'.mem.store →
    k ∈ x'.gone ∨
    ∃ new log, x'.evs = new ++ x.evs ∧ (k, log) ∈ new ∧
      ∃ W : List Key, W.Nodup ∧ cap ≤ W.length ∧ ∀ w ∈ W, w ≠ k ∧ lastUse log k < lastUse log w := by
  intro x x' hin hout
  have hl : Lru.Leaves x x' := (Lru.leaves_closed x).step x op (Lru.leaves_refl (Lru.disj_run cap ops))
  obtain ⟨_, new, hev, hacc⟩ := hl
  rcases hacc k hin with h | h | ⟨lg, hlg⟩
  · exact absurd h hout
  · exact Or.inl h
  · refine Or.inr ⟨new, lg, hev, hlg, ?_⟩
    have hx' : x' = ((Lru.init cap).run (ops ++ [op])).1 := (Lru.run_snoc ops op _).symm
    apply victim_rule cap (ops ++ [op]) k lg
    rw [← hx', hev]
    exact List.mem_append_left _ hlg

/-- **(c) A purge sweep is order-neutral.**  In every reachable state, one sweep of the purge task
(`for key in dict(self.store): await self.get(key)`) leaves exactly the live entries, values and
deadlines unchanged, in the same relative order — although each of its reads does `move_to_end`.
This is why a sweep is not a use. -/
theorem purge_preserves_order (cap : Nat) (ops : List Op) :
    let s := ((Mem.init cap).run ops).1
    s.purge = { s with store := s.store.filter (fun p => p.2.live s.now) } :=
  Mem.purge_eq _ (cap_bound cap ops ops (List.prefix_refl _)).2

/-- (c) for an arbitrary (not necessarily reachable) store with distinct keys -/
theorem purge_preserves_order_any (s : Mem) (h : (keys s.store).Nodup) :
    s.purge = { s with store := s.store.filter (fun p => p.2.live s.now) } :=
  Mem.purge_eq s h

/-- **Sweeps are `purge` operations: the atomicity assumption made explicit.**  All theorems of this file
quantify over histories of `Op`, in which a sweep is the single operation `purge`.  That is the right
alphabet for the real system *under the assumption that a sweep is atomic with respect to commands*
(`Memory.get` never suspends, so the purge task handles all keys of a tick in one step; Model/Sweep.lean).
Formally: take any history of commands and ticks (`Item`), any start state; write every tick out as its
per-key micro-steps `recheck k` over the keys the tick finds, *contiguously* (`atomicEvents`).  Running
that key-granularity history gives the same answers and the same final store as the command-granularity
run, whose states are the states of the `Op` history with `purge` at the places of the ticks.  Nothing is
claimed - and, see `split_recheck_sweep_breaks_lru`, nothing of C11 holds - for key-granularity histories
outside the image of `atomicEvents`, i.e. sweeps cut in pieces by commands. -/
theorem atomic_sweeps_are_purge_ops (s : Mem) (h : List Item) :
    s.runEv (s.atomicEvents h) = s.runItems h ∧ (s.runItems h).1 = (s.run (h.map Item.toOp)).1 :=
  ⟨Mem.atomic_history h s, Mem.runItems_state h s⟩

/-- **The same for a sweep written differently**: one that first collects the keys whose deadline has passed
and then removes exactly those (`expiredKeys`, micro-step `stale k`), as long as it is uninterrupted, is
also the model's `purge` - in every reachable state.  This is why the harness translates whatever the
purge task did at one instant, without an application command in between, into one `purge` line and lets
the comparison decide: how the sweep is written does not matter, whether it is atomic does. -/
theorem atomic_snapshot_sweeps_are_purge_ops (cap : Nat) (pre : List Op) (h : List Item) :
    let s := ((Mem.init cap).run pre).1
    s.runEv (s.atomicStaleEvents h) = s.runItems h :=
  Mem.atomic_stale_history cap h pre

/-- **Why the assumption is needed for C11, even for the re-checking sweep**: capacity 2, keys 0 and 1 written
in this order.  A tick handles key 0 (moved to the end), then - the sweep is cut here - the application
writes key 2: the store is full and the victim is key 1, *more* recently used than key 0, with only one
other key (2) used after it: the victim rule is broken.  With the sweep before or after the write (the
two atomic placements) the victim is key 0. -/
theorem split_recheck_sweep_breaks_lru :
    let w0 := Op.set 0 (.tok 0) none .always
    let w1 := Op.set 1 (.tok 1) none .always
    let w2 := Op.set 2 (.tok 2) none .always
    keys ((Mem.init 2).runEv [.cmd w0, .cmd w1, .recheck 0, .cmd w2, .recheck 1]).1.store = [0, 2] ∧
    keys ((Mem.init 2).runItems [.cmd w0, .cmd w1, .tick, .cmd w2]).1.store = [1, 2] ∧
    keys ((Mem.init 2).runItems [.cmd w0, .cmd w1, .cmd w2, .tick]).1.store = [1, 2] := by decide

/-- … and for the snapshot sweep: cut by a fresh write of a key it had decided to remove, it removes the
most recently used key of the store (seeded change C11-6) -/
theorem split_snapshot_sweep_removes_fresh_key :
    let pre := [Ev.cmd (.set 0 (.tok 0) (some 8) .always), .cmd (.set 1 (.tok 1) (some 8) .always), .cmd (.adv 8)]
    let w := Op.set 1 (.tok 2) (some 80) .always
    keys ((Mem.init 3).runEv (pre ++ [.stale 0, .cmd w, .stale 1])).1.store = [] ∧
    keys ((Mem.init 3).runEv (pre ++ [.stale 0, .stale 1, .cmd w])).1.store = [1] := by decide

/-- **(d) Recently used ⇒ still held, at all times.**  After every history: a key that has been used,
has not been deleted / cleared / collected as expired since its last use (`k ∉ gone`), and has fewer than
`cap` distinct other keys used more recently, is physically in the store; and unless that entry's deadline
has passed, reading it returns its value. -/
theorem recent_readable (cap : Nat) (ops : List Op) (k : Key) :
    let x := ((Lru.init cap).run ops).1
    k ∈ x.log → k ∉ x.gone → (recentOthers x.log k).length < cap →
    ∃ e, lookup x.mem.store k = some e ∧
      (e.live x.mem.now = true → (x.mem.rawGet k).2 = some e.val) := by
  intro x hlog hgone hcount
  have h := (Lru.inv_run cap ops).held k hlog
  rw [Lru.cap_run] at h
  rcases h with h | h | h
  · have hs := (mem_keys_iff_lookup _ _).mp h
    cases hl : lookup x.mem.store k with
    | none => rw [hl] at hs; simp at hs
    | some e =>
      refine ⟨e, rfl, fun hlive => ?_⟩
      unfold Mem.rawGet
      simp [hl, hlive]
  · exact absurd h hgone
  · exact absurd h.count (Nat.not_le.mpr hcount)

/-! ### The larger alphabet: every command built from `_get` / `_set` / `_delete`

`XOp` (Model/Lru.lean) adds to the regular commands `set_lock` (= `lock()`, `@locked`), `is_locked`, `unlock`,
`set_add`, `set_remove`, `set_pop`, `slice_incr`, `incr_bits`, `get_bits`, `get_raw`, `get_match`,
`delete_match`, each written out as a program (`Prog`) over the three primitives through which `Memory` touches
its store.  Every theorem above is restated at full strength for histories over `XOp`, mixed in any order with the
regular commands, time advances and purge sweeps, at every capacity; `any_program_*` say the same for programs
that are not in the list at all. -/

/-- **The ghost only observes**, larger alphabet. -/
theorem x_ghost_is_erasable (cap : Nat) (ops : List XOp) :
    ((Lru.init cap).xrun ops).1.mem = ((Mem.init cap).xrun ops).1 ∧
    ((Lru.init cap).xrun ops).2 = ((Mem.init cap).xrun ops).2 :=
  Lru.xrun_mem ops (Lru.init cap)

/-- the histories of the first part are the `reg`-only histories of this one: nothing was re-defined -/
theorem x_extends_regular (cap : Nat) (ops : List Op) :
    (Mem.init cap).xrun (ops.map .reg) = (Mem.init cap).run ops := by
  have h := Lru.xrun_mem (ops.map .reg) (Lru.init cap)
  have h' := Lru.run_mem ops (Lru.init cap)
  rw [Lru.xrun_reg] at h
  exact Prod.ext (h.1.symm.trans h'.1) (h.2.symm.trans h'.2)

/-- **(a) Capacity bound, larger alphabet.**  After every command of every history over `XOp` - so after every
`set_lock`, `set_add`, `set_remove`, `set_pop`, `slice_incr`, `incr_bits` that creates an entry, on a full store
or not - the store holds at most `cap` entries under pairwise distinct keys. -/
theorem x_cap_bound (cap : Nat) (ops p : List XOp) (_hp : p <+: ops) :
    ((Mem.init cap).xrun p).1.store.length ≤ cap ∧ (keys ((Mem.init cap).xrun p).1.store).Nodup := by
  have h := Lru.inv_xrun cap p
  have hc := Lru.cap_xrun cap p
  rw [← (x_ghost_is_erasable cap p).1]
  refine ⟨?_, h.ord.nodup⟩
  have := h.bounded
  unfold Lru.Bounded at this
  rw [hc] at this
  exact this

/-- **(b) Store order = recency order, larger alphabet** (uses: every live `_get`, every `_set`, whichever
command makes them). -/
theorem x_order_is_recency (cap : Nat) (ops : List XOp) :
    let x := ((Lru.init cap).xrun ops).1
    (keys x.mem.store).Pairwise (fun a b => lastUse x.log a < lastUse x.log b) :=
  (Lru.inv_xrun cap ops).ord

/-- **(b) Victim rule, larger alphabet**: whichever command's `_set` evicts. -/
theorem x_victim_rule (cap : Nat) (ops : List XOp) (k : Key) (log : List Key)
    (hev : (k, log) ∈ ((Lru.init cap).xrun ops).1.evs) :
    ∃ W : List Key, W.Nodup ∧ cap ≤ W.length ∧ ∀ w ∈ W, w ≠ k ∧ lastUse log k < lastUse log w := by
  have h := (Lru.inv_xrun cap ops).evs (k, log) hev
  rw [Lru.cap_xrun] at h
  obtain ⟨W, h1, h2, h3⟩ := h
  exact ⟨W, h1, h2, fun w hw => ⟨(h3 w hw).1, lastUse_lt_of_mem_usedSince (h3 w hw).2⟩⟩

theorem x_victim_rule_count (cap : Nat) (ops : List XOp) (k : Key) (log : List Key)
    (hev : (k, log) ∈ ((Lru.init cap).xrun ops).1.evs) :
    cap ≤ (recentOthers log k).length ∧ k ∉ recentOthers log k := by
  have h := (Lru.inv_xrun cap ops).evs (k, log) hev
  rw [Lru.cap_xrun] at h
  refine ⟨h.count, fun hk => ?_⟩
  unfold recentOthers at hk
  exact ne_of_mem_usedSince (List.mem_eraseDups.mp hk) rfl

/-- **A key leaves the store only for a reason, larger alphabet**: deleted (`delete`, `unlock`, `delete_match`,
the `del` inside `set_add` - which writes it again at once), cleared, collected after its deadline, or evicted by a
recorded eviction that obeys the victim rule. -/
theorem x_leaves_only_by (cap : Nat) (ops : List XOp) (op : XOp) (k : Key) :
    let x := ((Lru.init cap).xrun ops).1
    let x' := (x.xstep op).1
    k ∈ keys x.mem.store → k ∉ keys x'.mem.store →
    k ∈ x'.gone ∨
    ∃ new log, x'.evs = new ++ x.evs ∧ (k, log) ∈ new ∧
      ∃ W : List Key, W.Nodup ∧ cap ≤ W.length ∧ ∀ w ∈ W, w ≠ k ∧ lastUse log k < lastUse log w := by
  intro x x' hin hout
  have hl : Lru.Leaves x x' := (Lru.leaves_closed x).xstep x op (Lru.leaves_refl (Lru.disj_xrun cap ops))
  obtain ⟨_, new, hev, hacc⟩ := hl
  rcases hacc k hin with h | h | ⟨lg, hlg⟩
  · exact absurd h hout
  · exact Or.inl h
  · refine Or.inr ⟨new, lg, hev, hlg, ?_⟩
    have hx' : x' = ((Lru.init cap).xrun (ops ++ [op])).1 := (Lru.xrun_snoc ops op _).symm
    apply x_victim_rule cap (ops ++ [op]) k lg
    rw [← hx', hev]
    exact List.mem_append_left _ hlg

/-- **(d) Recently used ⇒ still held, larger alphabet.** -/
theorem x_recent_readable (cap : Nat) (ops : List XOp) (k : Key) :
    let x := ((Lru.init cap).xrun ops).1
    k ∈ x.log → k ∉ x.gone → (recentOthers x.log k).length < cap →
    ∃ e, lookup x.mem.store k = some e ∧
      (e.live x.mem.now = true → (x.mem.rawGet k).2 = some e.val) := by
  intro x hlog hgone hcount
  have h := (Lru.inv_xrun cap ops).held k hlog
  rw [Lru.cap_xrun] at h
  rcases h with h | h | h
  · have hs := (mem_keys_iff_lookup _ _).mp h
    cases hl : lookup x.mem.store k with
    | none => rw [hl] at hs; simp at hs
    | some e =>
      refine ⟨e, rfl, fun hlive => ?_⟩
      unfold Mem.rawGet
      simp [hl, hlive]
  · exact absurd h hgone
  · exact absurd h.count (Nat.not_le.mpr hcount)

/-- **Any command that reaches the store only through `_get` / `_set` / `_delete` keeps the bound and the order** -
not only the ones listed in `XOp`: from every reachable state, after running an arbitrary adaptive program over the
three primitives, at most `cap` entries are held, under distinct keys, front to back in order of last use.  This is
the sufficient condition the classification "creating write / touching use" rests on; what it excludes is a command
that writes `self.store` directly (`set_raw`, or a `set_lock` that stores its token without `_set`). -/
theorem any_program_keeps_bound_and_order (cap : Nat) (ops : List XOp) (p : Prog) :
    let x := (((Lru.init cap).xrun ops).1.exec p).1
    x.mem.store.length ≤ cap ∧ (keys x.mem.store).Nodup ∧
    (keys x.mem.store).Pairwise (fun a b => lastUse x.log a < lastUse x.log b) := by
  intro x
  have h : Lru.Inv x := Lru.inv_closed.exec p _ (Lru.inv_xrun cap ops)
  have hc : x.mem.cap = cap := (Lru.cap_closed cap).exec p _ (Lru.cap_xrun cap ops)
  refine ⟨?_, h.ord.nodup, h.ord⟩
  have := h.bounded
  unfold Lru.Bounded at this
  rw [hc] at this
  exact this

/-- the ghost of a program is erasable too: the statement above is about `Mem.exec` -/
theorem any_program_ghost_is_erasable (x : Lru) (p : Prog) :
    (x.exec p).1.mem = (x.mem.exec p).1 ∧ (x.exec p).2 = (x.mem.exec p).2 :=
  Lru.exec_mem p x

/-! ### Non-vacuity -/

/-- capacity 2, the store is full (keys 0, 1); a lock is taken on key 2 (seeded change C11-12: the model writes it
through `_set`, so key 0 is evicted and two entries are held), refused the second time (a use of key 2), probed,
released with the wrong and with the right token; then a set key 3 and a rate-limit key 4 are created by
`set_add` / `slice_incr`, each on a full store. -/
def sampleXHist : List XOp :=
  [.reg (.set 0 (.tok 0) none .always), .reg (.set 1 (.tok 1) none .always),
   .setLock 2 (.tok 7) (some 80), .setLock 2 (.tok 8) (some 80), .isLocked 2, .unlock 2 (.tok 8), .unlock 2 (.tok 7),
   .setAdd 3 (some 8), .sliceIncr 4 (some 8), .reg (.adv 8), .getMatch, .setAdd 3 none, .delMatch]

example : ((Lru.init 2).xrun sampleXHist).2 =
    [.bool true, .bool true, .bool true, .bool false, .bool true, .bool false, .bool true,
     .unit, .unit, .unit, .unit, .unit, .unit] := by decide

/-- the store after every command: never more than two entries; the lock evicts key 0, `set_add` on the full
store evicts key 1 … -/
example : (List.range 14).map (fun n => keys ((Mem.init 2).xrun (sampleXHist.take n)).1.store) =
    [[], [0], [0, 1], [1, 2], [1, 2], [1, 2], [1, 2], [1], [1, 3], [3, 4], [3, 4], [3, 4], [4, 3], [4]] := by decide

example : ((Lru.init 2).xrun sampleXHist).1.evs.map (·.1) = [1, 0] := by decide

/-- what the bound excludes: the store after a write that bypasses `_set` (here `put` without `trim`, which is what
`self.store[key] = ...` does) holds three entries at capacity 2 -/
example : let s := ((Mem.init 2).xrun (sampleXHist.take 2)).1
    (put s.store 2 ⟨.tok 7, some 80⟩).length = 3 ∧ (s.xstep (.setLock 2 (.tok 7) (some 80))).1.store.length = 2 := by
  decide


/-- capacity 2, keys 0..3.  `0` gets a TTL of 1 s and expires unpurged (it still occupies a slot and is
still "more recently used" than nothing); a failed only-if-absent write refreshes `1`; the write of `3`
evicts the expired `0`… -/
def sampleHist : List Op :=
  [.set 0 (.tok 0) (some 8) .always, .set 1 (.tok 1) none .always, .adv 16,
   .set 1 (.tok 9) none .nx,            -- fails, but refreshes key 1
   .set 2 (.tok 2) none .always,        -- store full: evicts key 0 (expired, unpurged, least recent)
   .get 1,                              -- hit: 1 becomes most recent
   .getExpire 2,                        -- not a use
   .set 3 (.tok 3) none .always,        -- evicts 2, not 1
   .get 1, .get 2]

example : ((Lru.init 2).run sampleHist).2 =
    [.bool true, .bool true, .unit, .bool false, .bool true, .val (some (.tok 1)), .int (-1), .bool true,
     .val (some (.tok 1)), .val none] := by decide

/-- the evictions of the sample history (latest first) with the use logs at those moments -/
example : ((Lru.init 2).run sampleHist).1.evs = [(2, [3, 1, 2, 1, 1, 0]), (0, [2, 1, 1, 0])] := by decide

example : keys ((Lru.init 2).run sampleHist).1.mem.store = [3, 1] ∧
    ((Lru.init 2).run sampleHist).1.log = [1, 3, 1, 2, 1, 1, 0] := by decide

/-- `recent_readable`'s premises are satisfiable (key 1) and its count premise fails for the evicted key 2 -/
example : let x := ((Lru.init 2).run sampleHist).1
    1 ∈ x.log ∧ 1 ∉ x.gone ∧ (recentOthers x.log 1).length < 2 ∧ ¬ (recentOthers x.log 2).length < 2 := by decide

/-- a sweep that has something to collect and something to keep: order of the survivors unchanged -/
example : keys ((Mem.init 3).run [.set 0 (.tok 0) none .always, .set 1 (.tok 1) (some 8) .always,
    .set 2 (.tok 2) none .always, .adv 8, .purge]).1.store = [0, 2] := by decide

/-- a collected key lands on the `gone` list, a re-written key leaves it -/
example : ((Lru.init 3).run [.set 0 (.tok 0) (some 8) .always, .set 1 (.tok 1) none .always, .adv 8, .purge,
    .delete 1, .set 1 (.tok 2) none .always]).1.gone = [0] := by decide

example : [Op.get 0] <+: [Op.get 0, Op.clear] := ⟨[Op.clear], rfl⟩

/-- `atomicEvents` / `atomicStaleEvents` write a tick out over what it finds: key 0 expired, key 1 live -/
example : (Mem.init 2).atomicEvents [.cmd (.set 0 (.tok 0) (some 8) .always), .cmd (.set 1 (.tok 1) none .always),
      .cmd (.adv 8), .tick, .cmd (.get 1)]
    = [.cmd (.set 0 (.tok 0) (some 8) .always), .cmd (.set 1 (.tok 1) none .always), .cmd (.adv 8),
       .recheck 0, .recheck 1, .cmd (.get 1)] := by rfl

example : (Mem.init 2).atomicStaleEvents [.cmd (.set 0 (.tok 0) (some 8) .always), .cmd (.set 1 (.tok 1) none .always),
      .cmd (.adv 8), .tick, .cmd (.get 1)]
    = [.cmd (.set 0 (.tok 0) (some 8) .always), .cmd (.set 1 (.tok 1) none .always), .cmd (.adv 8),
       .stale 0, .cmd (.get 1)] := by rfl

/-- premises of `eviction_is_recorded` / `leaves_only_by` are satisfiable, by eviction (key 0 is held and is
no longer held after the write of key 2) … -/
example : let x := ((Lru.init 2).run [.set 0 (.tok 0) none .always, .set 1 (.tok 1) none .always]).1
    0 ∈ keys x.mem.store ∧ 0 ∉ keys (x.gSet 2 (.tok 2) none).mem.store ∧
    0 ∉ keys (x.step (.set 2 (.tok 2) none .always)).1.mem.store ∧
    (x.step (.set 2 (.tok 2) none .always)).1.evs = [(0, [2, 1, 0])] := by decide

/-- … and by the other branch: the read finds key 0 expired, collects it, and puts it on the `gone` list -/
example : let x := ((Lru.init 2).run [.set 0 (.tok 0) (some 8) .always, .adv 8]).1
    0 ∈ keys x.mem.store ∧ 0 ∉ keys (x.step (.get 0)).1.mem.store ∧ 0 ∈ (x.step (.get 0)).1.gone := by decide

example : (keys ([(3, ⟨.nil, some 4⟩), (1, ⟨.nil, none⟩)] : Store)).Nodup := by decide

end CashewsVerif.Props.C11
