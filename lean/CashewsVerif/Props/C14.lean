import CashewsVerif.Lemmas.Decor.Early
import CashewsVerif.Lemmas.Decor.SoftFail
import CashewsVerif.Lemmas.Decor.HitStep
/-
C14 — early / soft / failover / hit keep their staleness and reuse bounds.

Property theorems only (helper lemmas live in `Lemmas/Decor/`).  Every theorem quantifies over ALL
histories `ops : List DOp` — calls with a scripted outcome of the wrapped function and of the store step that
follows a success (success with a fresh token stamped with its virtual instant, stored | listed exception |
unlisted exception | success turned down by the storing `condition` | success whose store step raises — the
`condition` / a callable `ttl` before the backend is touched, or `backend.set` itself — with a listed or an
unlisted exception), arbitrary time advances, completions of background refreshes at arbitrary later points — and is proved by induction
over the history (an invariant of the step function).  `trace step init ops` lists, for every operation,
the state before it, the operation and its answer; `final step init ops` is the state afterwards.
A served value `(stamp, id)` carries the instant at which it was produced/stored, so `now - stamp` is
its age.  TTLs are ticks of 1/8 s; `0 < ttl` excludes the "0 = no TTL" convention of the backend.

Boundaries mirrored from the code (DESIGN §8, not judged): `early` serves without refreshing at exactly
`early_ttl`; `soft` recomputes at exactly `soft_ttl`.
-/
namespace CashewsVerif.Props.C14
open CashewsVerif CashewsVerif.Decor

/-! ## early -/

/-- **early: a call never receives a result stored more than ttl ago.**  Whatever value a call hands
out (fresh or from the store, also the one handed out after a foreground refresh) was stored at an
instant `s ≤ now` with `now < s + ttl`. -/
theorem early_never_older_than_ttl (c : Early.Cfg) (httl : 0 < c.ttl) (ops : List DOp) :
    ∀ e ∈ trace (Early.step c) Early.init ops, ∀ out, e.2.2 = .call out →
      ∀ s i, (out.res = .fresh s i ∨ out.res = .stored s i) → s ≤ e.1.t.now ∧ e.1.t.now < s + c.ttl := by
  intro e he out hout s i hr
  obtain ⟨hinv, hans⟩ := (trace_inv' (Early.step c) (Early.Inv c) (fun s o => Early.inv_step httl s o)
    ops Early.init (Early.inv_init c)).2 e he
  obtain ⟨s0, op, ans⟩ := e
  simp only at hout hans hinv ⊢
  subst hout
  cases op with
  | call o =>
    simp only [Early.step, Ans.call.injEq] at hans
    subst hans
    exact Early.call_age httl hinv o hr
  | adv dt => simp [Early.step] at hans
  | done j o => simp [Early.step] at hans

/-- **early: while the stored result is younger than early_ttl (or exactly that old — the code's
boundary) a call receives it without executing the function**, without creating a refresh task and
without touching the store — after any history, whatever the function would have done. -/
theorem early_young_served_without_executing (c : Early.Cfg) (httl : 0 < c.ttl) (ops : List DOp) (o : Outcome) :
    let st := final (Early.step c) Early.init ops
    ∀ s i x, cached3 st.t = some (s, i, x) → st.t.now ≤ s + c.early →
      Early.call c st o = (st, ⟨.stored s i, false, false⟩) := by
  intro st s i x hc hy
  have hinv := (trace_inv' (Early.step c) (Early.Inv c) (fun s o => Early.inv_step httl s o)
    ops Early.init (Early.inv_init c)).1
  exact Early.call_young hinv o hc hy

/-- **early: at most one refresh at a time, as long as a refresh completes within early_ttl.**  In every
history in which, whenever a call is made, each refresh in flight was started less than `early_ttl`
ago (`Early.Timely`), there is never more than one refresh in flight — before every operation and at
the end.  (Calls keep being answered from the store meanwhile: next theorem.) -/
theorem early_at_most_one_refresh (c : Early.Cfg) (hearly : 0 < c.early) (ops : List DOp)
    (htimely : ∀ e ∈ trace (Early.step c) Early.init ops, Early.Timely c e.1 e.2.1) :
    (final (Early.step c) Early.init ops).inflight.length ≤ 1 ∧
    ∀ e ∈ trace (Early.step c) Early.init ops, e.1.inflight.length ≤ 1 := by
  have h := trace_inv (Early.step c) (Early.Single c) (Early.Timely c)
    (fun s o hs ht => Early.single_step hearly s o hs ht) ops Early.init (Early.single_init c) htimely
  exact ⟨Early.single_length h.1, fun e he => Early.single_length (h.2 e he).1⟩

/- FULL STATEMENT (does not hold, see `early_foreground_failure_propagates`; recorded as known finding D19):
   theorem early_answers_from_store (c) (httl : 0 < c.ttl) (ops) (o) :
       let st := final (Early.step c) Early.init ops
       ∀ s i x, cached3 st.t = some (s, i, x) → (Early.call c st o).2.res = .stored s i
-/
/-- **early: a call that finds a stored result (one younger than ttl) answers from the store** — also
when it is older than early_ttl and whether or not this call triggers the refresh — *provided* the
refresh runs in the background or, running in the foreground, raises nothing (it succeeds and is stored, or
the condition turns its result down).  What is missing for the full statement is exactly the case
`background=False` + a refresh that raises (the function, or the store step after it), where the code lets the
exception out of `await task` (D19, known finding). -/
theorem early_answers_from_store_partial (c : Early.Cfg) (ops : List DOp) (o : Outcome)
    (hyp : c.bg = true ∨ o.raises = false) :
    let st := final (Early.step c) Early.init ops
    ∀ s i x, cached3 st.t = some (s, i, x) → (Early.call c st o).2.res = .stored s i := by
  intro st s i x hc
  exact Early.call_from_store o hc hyp

/-- **D19 witnessed in the model**: ttl 2 s, early_ttl ½ s, background off; a result is stored, 5/8 s
pass, the refresh made by the next call raises: the call raises too although a result younger than ttl
is in the store.  (The same history is corpus/C14/D19_early_foreground_refresh_failure.json and behaves
identically on the real code.) -/
theorem early_foreground_failure_propagates :
    ∃ (c : Early.Cfg) (ops : List DOp) (o : Outcome), 0 < c.ttl ∧ 0 < c.early ∧
      cached3 (final (Early.step c) Early.init ops).t = some (0, 0, 4) ∧
      (Early.call c (final (Early.step c) Early.init ops) o).2.res = .raised o :=
  ⟨⟨16, 4, false⟩, [.call .ok, .adv 5], .listed, by decide, by decide, by decide, by decide⟩

/-! ## soft -/

/-- **soft: a result older than soft_ttl (or exactly that old, or gone) is recomputed by the next
call**: after any history, if whatever is stored is at least `soft_ttl` old, the call executes the function. -/
theorem soft_old_is_recomputed (c : Soft.Cfg) (httl : 0 < c.ttl) (ops : List DOp) (o : Outcome) :
    let st := final (Soft.step c) Soft.init ops
    (∀ s i x, cached3 st.t = some (s, i, x) → s + c.soft ≤ st.t.now) → (Soft.call c st o).2.exec = true := by
  intro st hold
  have hinv := (trace_inv' (Soft.step c) (Soft.Inv c) (fun s o => Soft.inv_step httl s o)
    ops Soft.init (Soft.inv_init c)).1
  exact Soft.call_exec hinv o hold

/-- **soft: a stale result is served again only if that recomputation raised a listed exception and
the result is still younger than ttl.**  Every call of every history that hands out a stored result
`(s, i)`: the result is younger than ttl, and either it is younger than soft_ttl and nothing was
executed, or it is at least soft_ttl old, this call executed the function and the outcome was a listed
exception (never success, never an unlisted exception). -/
theorem soft_stale_only_on_listed (c : Soft.Cfg) (httl : 0 < c.ttl) (ops : List DOp) :
    ∀ e ∈ trace (Soft.step c) Soft.init ops, ∀ o out, e.2.1 = .call o → e.2.2 = .call out →
      ∀ s i, out.res = .stored s i →
        s ≤ e.1.t.now ∧ e.1.t.now < s + c.ttl ∧
        ((e.1.t.now < s + c.soft ∧ out.exec = false) ∨
         (s + c.soft ≤ e.1.t.now ∧ out.exec = true ∧ o = .listed)) := by
  intro e he o out hop hout s i hr
  obtain ⟨hinv, hans⟩ := (trace_inv' (Soft.step c) (Soft.Inv c) (fun s o => Soft.inv_step httl s o)
    ops Soft.init (Soft.inv_init c)).2 e he
  obtain ⟨s0, op, ans⟩ := e
  simp only at hop hout hans hinv ⊢
  subst hop hout
  simp only [Soft.step, Ans.call.injEq] at hans
  subst hans
  exact Soft.call_stored hinv o hr

/-! ## failover -/

/-- **failover: the function is executed on every call** — every call answer of every history reports
an execution, and the number of executions grows by one with each call. -/
theorem failover_executes_every_call (c : Fail.Cfg) (ops : List DOp) :
    ∀ e ∈ trace (Fail.step c) Fail.init ops, ∀ o, e.2.1 = .call o →
      (∃ out, e.2.2 = .call out ∧ out.exec = true) ∧ (Fail.step c e.1 e.2.1).1.nexec = e.1.nexec + 1 := by
  intro e he o hop
  obtain ⟨_, hans⟩ := (trace_inv' (Fail.step c) (fun _ => True) (fun _ _ _ => trivial)
    ops Fail.init trivial).2 e he
  obtain ⟨s0, op, ans⟩ := e
  simp only at hop hans ⊢
  subst hop
  simp only [Fail.step] at hans ⊢
  exact ⟨⟨_, hans, (Fail.call_exec c s0 o).1⟩, (Fail.call_exec c s0 o).2⟩

/-- **failover: a stored result is returned only when the function raised a listed exception, and only
while younger than ttl.** -/
theorem failover_stored_only_on_listed (c : Fail.Cfg) (httl : 0 < c.ttl) (ops : List DOp) :
    ∀ e ∈ trace (Fail.step c) Fail.init ops, ∀ o out, e.2.1 = .call o → e.2.2 = .call out →
      ∀ s i, out.res = .stored s i → o = .listed ∧ s ≤ e.1.t.now ∧ e.1.t.now < s + c.ttl := by
  intro e he o out hop hout s i hr
  obtain ⟨hinv, hans⟩ := (trace_inv' (Fail.step c) (Fail.Inv c) (fun s o => Fail.inv_step httl s o)
    ops Fail.init (Fail.inv_init c)).2 e he
  obtain ⟨s0, op, ans⟩ := e
  simp only at hop hout hans hinv ⊢
  subst hop hout
  simp only [Fail.step, Ans.call.injEq] at hans
  subst hans
  exact Fail.call_stored hinv o hr

/-! ## hit -/

/-- **hit: in any sequential history a stored result is served at most cache_hits times before the
function is executed again.**  `Hit.counts false` counts, from the recorded answers alone, the serves
since the function last *began* to execute (in a call, or as a refresh task).  In every history in
which no call is made while a background refresh is still in flight (`Hit.SeqOK`) this count never
exceeds `cache_hits` — for every history, hence at every point of every history. -/
theorem hit_serves_bounded_sequential (c : Hit.Cfg) (httl : 0 < c.ttl) (ops : List DOp)
    (hseq : ∀ e ∈ trace (Hit.step c) Hit.init ops, Hit.SeqOK e.1 e.2.1) :
    (Hit.counts false (trace (Hit.step c) Hit.init ops)).1 ≤ c.hits := by
  have h := Hit.good_run httl false ops Hit.init 0 0 (Hit.good_init c false) (fun _ => hseq)
  rw [Hit.counts_eq]
  exact h.tg.bound

/-- **hit, overlapping refreshes too**: for *every* history (calls while refreshes are in flight,
refreshes finishing in any order and arbitrarily late), at most `cache_hits` serves lie between two
consecutive execution events, where an event is the function beginning to execute or a background
refresh finishing and getting as far as storing its result — stored, or refused by the backend after the
counter was deleted (`Hit.counts true`, `Hit.reachedSet`). -/
theorem hit_serves_bounded (c : Hit.Cfg) (httl : 0 < c.ttl) (ops : List DOp) :
    (Hit.counts true (trace (Hit.step c) Hit.init ops)).1 ≤ c.hits := by
  have h := Hit.good_run httl true ops Hit.init 0 0 (Hit.good_init c true) (fun hb => by simp at hb)
  rw [Hit.counts_eq]
  exact h.tg.bound

/-- **hit: a refresh is started exactly when the hit count reaches update_after.**  After any history,
let `k` be the number of calls since a result was last stored (computed from the recorded answers).
(With store-step failures in the history: since a store was last made *or attempted at the backend* — an
execution whose `backend.set` is refused has already deleted the counter, the older result stays and its hits
are counted from 0 again; `Hit.callsAfter`.)
If a stored result is found then: the call creates a refresh task iff it is the `update_after`-th call
since the store (with `0 < update_after ≤ cache_hits`); up to the `cache_hits`-th call the stored result is
the answer (except that a *foreground* refresh that raises — the function or its store step — lets that
exception out: mirrored, the sentence about hit does not promise an answer); and the `(cache_hits+1)`-th and
later calls execute the function again and are answered by that execution (`Outcome.result`: its fresh result,
its exception, or the exception of its store step — never the stored result). -/
theorem hit_refresh_iff_update_after (c : Hit.Cfg) (httl : 0 < c.ttl) (ops : List DOp) (o : Outcome) :
    let st := final (Hit.step c) Hit.init ops
    let k := (Hit.counts true (trace (Hit.step c) Hit.init ops)).2
    ∀ s i, cached2 st.t = some (s, i) →
      (((Hit.call c st o).2.started = true ↔ (k + 1 = c.upd ∧ c.upd ≠ 0 ∧ c.upd ≤ c.hits)) ∧
       (k + 1 ≤ c.hits → (Hit.call c st o).2.res = .stored s i ∨
          (c.bg = false ∧ o.raises = true ∧ k + 1 = c.upd ∧ (Hit.call c st o).2.res = o.result st.t.now st.nexec)) ∧
       (c.hits < k + 1 → (Hit.call c st o).2.exec = true ∧ (Hit.call c st o).2.started = false ∧
          (Hit.call c st o).2.res = o.result st.t.now st.nexec)) := by
  intro st k s i hc
  have h := Hit.good_run httl true ops Hit.init 0 0 (Hit.good_init c true) (fun hb => by simp at hb)
  rw [← Hit.counts_eq] at h
  exact Hit.call_started httl h o hc

/-! ## the store step after a successful execution (condition, callable ttl, `backend.set`)

A result the function *returned* is never replaced by an older stored one because something went wrong — or was
decided — afterwards: the caller gets the fresh result (also when the condition turns it down) or the exception
the store step raised, whether or not that exception is one of the decorator's listed `exceptions`; and whatever
is stored stays exactly what it was unless the outcome is `ok`. -/

/-- **failover: a call whose execution returned is answered by that execution** — its fresh result (stored, or
turned down by the condition), or the exception its store step raised (condition / callable ttl / `backend.set`,
listed or not) — never a stored result; and unless the outcome is `ok` the store is left exactly as it was.
After any history. -/
theorem failover_returned_execution_answers (c : Fail.Cfg) (ops : List DOp) (o : Outcome) :
    let st := final (Fail.step c) Fail.init ops
    (o.returns = true → (Fail.call c st o).2.res = o.result st.t.now st.nexec) ∧
    (o ≠ .ok → (Fail.call c st o).1.t = st.t) := by
  intro st
  have h := Fail.call_spec c st o
  refine ⟨?_, h.2.2⟩
  intro hr
  cases o with
  | ok => exact h.1 (Or.inl rfl)
  | rejected => exact h.1 (Or.inr rfl)
  | storeFails stg l => exact h.2.1 stg l rfl
  | listed => simp [Outcome.returns] at hr
  | unlisted => simp [Outcome.returns] at hr

/-- **soft: a recomputation that returned is answered by itself** — whenever a call executes the function and the
function returns, the caller gets that fresh result (stored, or turned down by the condition) or the exception
of the store step (listed or not), never the stale result; and unless the outcome is `ok` the store is left
exactly as it was (so the next call recomputes again: `soft_old_is_recomputed`).  After any history. -/
theorem soft_returned_execution_answers (c : Soft.Cfg) (ops : List DOp) (o : Outcome) :
    let st := final (Soft.step c) Soft.init ops
    ((Soft.call c st o).2.exec = true → o.returns = true → (Soft.call c st o).2.res = o.result st.t.now st.nexec) ∧
    (o ≠ .ok → (Soft.call c st o).1.t = st.t) := by
  intro st
  rcases Soft.call_cases c st o with ⟨hx, x, hcall⟩ | ⟨hx, hs⟩
  · rw [hcall]
    have h := Soft.execute_spec c st o x
    refine ⟨fun _ hr => ?_, h.2.2⟩
    cases o with
    | ok => exact h.1 (Or.inl rfl)
    | rejected => exact h.1 (Or.inr rfl)
    | storeFails stg l => exact h.2.1 stg l rfl
    | listed => simp [Outcome.returns] at hr
    | unlisted => simp [Outcome.returns] at hr
  · exact ⟨fun hx' => by rw [hx] at hx'; simp at hx', fun _ => by rw [hs]⟩

/-- **early: whenever the function runs inside a call, the caller is handed what that execution produced** —
its result, its exception or the exception of its store step (`Outcome.result`) when nothing was stored; for a
foreground refresh (`started`) that raises, the same (D19); for a foreground refresh that raises nothing, the
stored result it was started for.  After any history. -/
theorem early_execution_answers (c : Early.Cfg) (ops : List DOp) (o : Outcome) :
    let st := final (Early.step c) Early.init ops
    (Early.call c st o).2.exec = true →
      ((Early.call c st o).2.started = false ∧ cached3 st.t = none ∧
         (Early.call c st o).2.res = o.result st.t.now st.nexec) ∨
      ((Early.call c st o).2.started = true ∧
        ((o.raises = true ∧ (Early.call c st o).2.res = o.result st.t.now st.nexec) ∨
         (o.raises = false ∧ ∃ s i x, cached3 st.t = some (s, i, x) ∧ (Early.call c st o).2.res = .stored s i))) := by
  intro st hx
  exact Early.call_answer c st o hx

/-- **early: only an execution with outcome `ok` changes the stored result.**  A call, or the completion of a
background refresh, whose execution raises, is turned down by the condition or fails in its store step leaves
what `get` finds under the result's key exactly as it was.  After any history. -/
theorem early_only_ok_stores (c : Early.Cfg) (hearly : 0 < c.early) (ops : List DOp) (o : Outcome) (ho : o ≠ .ok) :
    let st := final (Early.step c) Early.init ops
    cached3 (Early.call c st o).1.t = cached3 st.t ∧ ∀ i, cached3 (Early.done c st i o).1.t = cached3 st.t := by
  intro st
  have h1 := Early.call_main hearly st o ho
  refine ⟨cached3_congr h1.2 h1.1, fun i => ?_⟩
  have h2 := Early.done_main (c := c) st i o ho
  exact cached3_congr h2.2 h2.1

/-- **hit: whenever the function runs inside a call, the caller is handed what that execution produced** — its
result, its exception or the exception of its store step when the call is its own computation; for a foreground
refresh that raises, the same; for a foreground refresh that raises nothing, the stored result.  After any
history. -/
theorem hit_execution_answers (c : Hit.Cfg) (ops : List DOp) (o : Outcome) :
    let st := final (Hit.step c) Hit.init ops
    (Hit.call c st o).2.exec = true →
      ((Hit.call c st o).2.started = false ∧ (Hit.call c st o).2.res = o.result st.t.now st.nexec) ∨
      ((Hit.call c st o).2.started = true ∧
        ((o.raises = true ∧ (Hit.call c st o).2.res = o.result st.t.now st.nexec) ∨
         (o.raises = false ∧ ∃ s i, cached2 st.t = some (s, i) ∧ (Hit.call c st o).2.res = .stored s i))) := by
  intro st hx
  exact Hit.call_answer c st o hx

/-- **hit: only an execution with outcome `ok` changes the stored result** (a `backend.set` that is refused has
deleted the hit counter, not the result).  After any history. -/
theorem hit_only_ok_stores (c : Hit.Cfg) (ops : List DOp) (o : Outcome) (ho : o ≠ .ok) :
    let st := final (Hit.step c) Hit.init ops
    cached2 (Hit.call c st o).1.t = cached2 st.t ∧ ∀ i, cached2 (Hit.done c st i o).1.t = cached2 st.t := by
  intro st
  have h1 := Hit.call_main c st o ho
  refine ⟨Hit.cached2_congr h1.2 h1.1, fun i => ?_⟩
  have h2 := Hit.done_main c st i o ho
  exact Hit.cached2_congr h2.2 h2.1

/-! ## Non-vacuity: the models do something, and the hypotheses are satisfiable by interesting histories -/

/-- early, ttl 2 s, early_ttl ½ s, background on: store; 5/8 s later the call starts a refresh and is
answered from the store; a second call meanwhile is answered from the store without a second refresh;
the refresh completes; the new result is served. -/
def earlyHist : List DOp := [.call .ok, .adv 5, .call .ok, .call .listed, .adv 2, .done 0 .ok, .call .ok]

example : answers (trace (Early.step ⟨16, 4, true⟩) Early.init earlyHist) =
    [.call ⟨.fresh 0 0, true, false⟩, .ok, .call ⟨.stored 0 0, false, true⟩, .call ⟨.stored 0 0, false, false⟩,
     .ok, .done .stored, .call ⟨.stored 7 1, false, false⟩] := by decide

/-- … and that history satisfies the timeliness hypothesis with a refresh really in flight during a call -/
example : ∀ e ∈ trace (Early.step ⟨16, 4, true⟩) Early.init earlyHist, Early.Timely ⟨16, 4, true⟩ e.1 e.2.1 := by
  intro e he o hop x hx
  simp only [earlyHist, trace, Early.step, Early.call, Early.done, Early.init, List.mem_cons, List.not_mem_nil,
    or_false] at he
  rcases he with rfl | rfl | rfl | rfl | rfl | rfl | rfl <;> revert x hx <;> decide

/-- without timeliness two refreshes do overlap (the second call comes after the first refresh's lock expired) -/
example : (final (Early.step ⟨16, 4, true⟩) Early.init [.call .ok, .adv 5, .call .ok, .adv 4, .call .ok]).inflight.length = 2 := by
  decide

/-- soft, ttl 2 s, soft_ttl ½ s: fresh; served young; at exactly soft_ttl recomputed, the listed failure
serves the stale value; an unlisted failure raises; after ttl a listed failure raises as well. -/
example : answers (trace (Soft.step ⟨16, 4⟩) Soft.init
      [.call .ok, .adv 3, .call .unlisted, .adv 1, .call .listed, .call .unlisted, .adv 12, .call .listed]) =
    [.call ⟨.fresh 0 0, true, false⟩, .ok, .call ⟨.stored 0 0, false, false⟩, .ok, .call ⟨.stored 0 0, true, false⟩,
     .call ⟨.raised .unlisted, true, false⟩, .ok, .call ⟨.raised .listed, true, false⟩] := by decide

/-- failover, ttl 2 s -/
example : answers (trace (Fail.step ⟨16⟩) Fail.init
      [.call .listed, .call .ok, .adv 15, .call .listed, .call .unlisted, .adv 1, .call .listed]) =
    [.call ⟨.raised .listed, true, false⟩, .call ⟨.fresh 0 1, true, false⟩, .ok, .call ⟨.stored 0 1, true, false⟩,
     .call ⟨.raised .unlisted, true, false⟩, .ok, .call ⟨.raised .listed, true, false⟩] := by decide

/-- hit, cache_hits 2, update_after 2, background on: two serves, the second starts a refresh, the
third call executes again; a sequential history (the refresh completes before the next call) -/
def hitHist : List DOp := [.call .ok, .call .ok, .call .ok, .done 0 .ok, .call .ok, .call .ok, .done 0 .listed, .call .ok]

example : answers (trace (Hit.step ⟨16, 2, 2, true⟩) Hit.init hitHist) =
    [.call ⟨.fresh 0 0, true, false⟩, .call ⟨.stored 0 0, false, false⟩, .call ⟨.stored 0 0, false, true⟩,
     .done .stored, .call ⟨.stored 0 1, false, false⟩, .call ⟨.stored 0 1, false, true⟩, .done .failed,
     .call ⟨.fresh 0 3, true, false⟩] := by decide

example : ∀ e ∈ trace (Hit.step ⟨16, 2, 2, true⟩) Hit.init hitHist, Hit.SeqOK e.1 e.2.1 := by
  intro e he o hop
  simp only [hitHist, trace, List.mem_cons, List.not_mem_nil, or_false] at he
  rcases he with rfl | rfl | rfl | rfl | rfl | rfl | rfl | rfl <;> first | rfl | (simp at hop)

/-- the bound is attained: cache_hits = 2 serves since the last execution -/
example : (Hit.counts false (trace (Hit.step ⟨16, 2, 0, true⟩) Hit.init [.call .ok, .call .ok, .call .ok])).1 = 2 := by decide

/-! ### … with store steps that fail or turn the result down -/

/-- failover, ttl 2 s: a result is stored; later executions return but the condition raises a listed exception /
`backend.set` raises an unlisted one: the exception is the answer, not the stored `(0,0)`; a result the condition
turns down is returned; and the stored `(0,0)` is still what a listed failure of the function falls back to. -/
example : answers (trace (Fail.step ⟨16⟩) Fail.init
      [.call .ok, .adv 3, .call (.storeFails .pre true), .call (.storeFails .set false), .call .rejected, .call .listed]) =
    [.call ⟨.fresh 0 0, true, false⟩, .ok, .call ⟨.storeErr true, true, false⟩, .call ⟨.storeErr false, true, false⟩,
     .call ⟨.fresh 3 3, true, false⟩, .call ⟨.stored 0 0, true, false⟩] := by decide

/-- soft, ttl 2 s, soft_ttl ½ s: at soft_ttl the recomputation returns but the set is refused with a listed
exception — that exception is the answer, not the stale value; the next call recomputes again, its result is turned
down by the condition and returned; a listed failure of the function still falls back to `(0,0)`. -/
example : answers (trace (Soft.step ⟨16, 4⟩) Soft.init
      [.call .ok, .adv 4, .call (.storeFails .set true), .call .rejected, .call .listed, .call .ok]) =
    [.call ⟨.fresh 0 0, true, false⟩, .ok, .call ⟨.storeErr true, true, false⟩, .call ⟨.fresh 4 2, true, false⟩,
     .call ⟨.stored 0 0, true, false⟩, .call ⟨.fresh 4 4, true, false⟩] := by decide

/-- early, background off: nothing stored — a turned-down result is returned and the next call executes again, a
failing store step raises; with `(0,2)` stored and older than early_ttl a foreground refresh whose set is refused
raises (D19-like), one whose result is turned down answers from the store and the next call refreshes again. -/
example : answers (trace (Early.step ⟨16, 4, false⟩) Early.init
      [.call .rejected, .call (.storeFails .pre false), .call .ok, .adv 5, .call (.storeFails .set true), .call .rejected,
       .call .ok, .call .listed]) =
    [.call ⟨.fresh 0 0, true, false⟩, .call ⟨.storeErr false, true, false⟩, .call ⟨.fresh 0 2, true, false⟩, .ok,
     .call ⟨.storeErr true, true, true⟩, .call ⟨.stored 0 2, true, true⟩, .call ⟨.stored 0 2, true, true⟩,
     .call ⟨.stored 5 5, false, false⟩] := by decide

/-- early, background on: background refreshes whose store step fails / whose result is turned down release the
lock and leave the stored result; the next call starts another refresh. -/
example : answers (trace (Early.step ⟨16, 4, true⟩) Early.init
      [.call .ok, .adv 5, .call .ok, .done 0 (.storeFails .set true), .call .ok, .done 0 .rejected, .call .ok, .done 0 .ok,
       .call .listed]) =
    [.call ⟨.fresh 0 0, true, false⟩, .ok, .call ⟨.stored 0 0, false, true⟩, .done .failed, .call ⟨.stored 0 0, false, true⟩,
     .done .skipped, .call ⟨.stored 0 0, false, true⟩, .done .stored, .call ⟨.stored 5 3, false, false⟩] := by decide

/-- hit, cache_hits 2: after two serves the third call executes; `backend.set` refuses its result — the exception
is the answer, the counter is gone, the older result is served for two more calls, then the function runs again;
a store step failing before the backend / a turned-down result leave the counter running: every later call executes. -/
example : answers (trace (Hit.step ⟨16, 2, 0, true⟩) Hit.init
      [.call .ok, .call .ok, .call .ok, .call (.storeFails .set false), .call .listed, .call .listed, .call .listed,
       .call (.storeFails .pre true), .call .rejected, .call .ok]) =
    [.call ⟨.fresh 0 0, true, false⟩, .call ⟨.stored 0 0, false, false⟩, .call ⟨.stored 0 0, false, false⟩,
     .call ⟨.storeErr false, true, false⟩, .call ⟨.stored 0 0, false, false⟩, .call ⟨.stored 0 0, false, false⟩,
     .call ⟨.raised .listed, true, false⟩, .call ⟨.storeErr true, true, false⟩, .call ⟨.fresh 0 4, true, false⟩,
     .call ⟨.fresh 0 5, true, false⟩] := by decide

/-- hit, cache_hits 3, update_after 1, background on: the background refresh finishes with its set refused; the
counter restarts, the next call is again the `update_after`-th and starts a refresh; the bound 3 is attained. -/
example : (Hit.counts true (trace (Hit.step ⟨16, 3, 1, true⟩) Hit.init
      [.call .ok, .call .ok, .call .ok, .done 0 (.storeFails .set true), .call .ok, .call .ok, .call .ok])) = (3, 3) := by
  decide

end CashewsVerif.Props.C14
