import CashewsVerif.Lemmas.Decor.Early
import CashewsVerif.Lemmas.Decor.SoftFail
import CashewsVerif.Lemmas.Decor.HitStep
import CashewsVerif.Lemmas.Decor.Overlap
/-
C14 — early / soft / failover / hit keep their staleness and reuse bounds.

EXECUTIONS TAKE TIME.  A call operation `.call o d` carries, besides the scripted outcome `o`, the duration `d` of the
function body IF it runs inside the call: what the decorator does before `await func(...)` (which reads, which
comparisons with the clock, which lock / counter writes) happens at the instant the call began, what it does after it
(which reads, the deadline stamps, the store) and the answer itself `d` ticks later — exactly as ordered in
early.py / soft.py / fail.py / hit.py.  The age of whatever a call hands out is judged AT THE INSTANT IT IS HANDED OUT,
`servedAt start d out` (= the clock after the call step: `answer_instant_is_clock_after_call`).

Property theorems only (helper lemmas live in `Lemmas/Decor/`).  Every theorem quantifies over ALL
histories `ops : List DOp` — calls with a scripted outcome of the wrapped function and of the store step that
follows a success (success with a fresh token stamped with its virtual instant, stored | listed exception |
unlisted exception | success turned down by the storing `condition` | success whose store step raises — the
`condition` / a callable `ttl` before the backend is touched, or `backend.set` itself — with a listed or an
unlisted exception), arbitrary time advances, completions of background refreshes at arbitrary later points — and is proved by induction
over the history (an invariant of the step function).  `trace step init ops` lists, for every operation,
the state before it, the operation and its answer; `final step init ops` is the state afterwards.
A served value `(stamp, id)` carries the instant at which it was produced/stored, so `now - stamp` is
its age.  TTLs are ticks of 1/8 s; `0 < ttl` excludes the "0 = no TTL" convention of the backend.

early after the repair of D44: one recalculation of a key at a time.  A call that finds nothing stored while a recalculation
of its key is in flight is answered `Res.joined id`: it executes nothing and waits; what it is handed is
`Early.joinedAnswer` at the `done` operation that completes that recalculation (`early_joined_caller_answer`).

Boundaries mirrored from the code (DESIGN §8, not judged): `early` serves without refreshing at exactly
`early_ttl`; `soft` recomputes at exactly `soft_ttl`.
-/
namespace CashewsVerif.Props.C14
open CashewsVerif CashewsVerif.Decor

/-! ## the instant of the answer -/

/-- **the instant at which a call hands out its answer is the model clock after the call**, for the four strategies:
the instant the call began when no function body ran inside it, `d` ticks later when one did. -/
theorem answer_instant_is_clock_after_call (o : Outcome) (d : Nat) :
    (∀ (c : Early.Cfg) (s : Early.St), (Early.call c s o d).1.t.now = servedAt s.t.now d (Early.call c s o d).2) ∧
    (∀ (c : Soft.Cfg) (s : Soft.St), (Soft.call c s o d).1.t.now = servedAt s.t.now d (Soft.call c s o d).2) ∧
    (∀ (c : Fail.Cfg) (s : Fail.St), (Fail.call c s o d).1.t.now = servedAt s.t.now d (Fail.call c s o d).2) ∧
    (∀ (c : Hit.Cfg) (s : Hit.St), (Hit.call c s o d).1.t.now = servedAt s.t.now d (Hit.call c s o d).2) :=
  ⟨fun c s => Early.call_now c s o d, fun c s => Soft.call_now c s o d, fun c s => Fail.call_now c s o d,
   fun c s => Hit.call_now c s o d⟩

/-! ## early -/

/-- **early: a call never receives a result stored more than ttl ago** — judged at the instant the result is handed
out, executions taking any time.  Whatever value a call hands out — fresh after an execution of any duration (nothing
was stored, or a foreground refresh the caller waited for), or from the store — was produced / stored at an instant `s`
not after the instant `at` of the answer, with `at < s + ttl`; a fresh value is stamped with the instant of the answer
(age 0), and a value from the store is handed out without the function running inside the call, i.e. at the very
instant it was read. -/
theorem early_never_older_than_ttl (c : Early.Cfg) (httl : 0 < c.ttl) (ops : List DOp) :
    ∀ e ∈ trace (Early.step c) Early.init ops, ∀ o d out, e.2.1 = .call o d → e.2.2 = .call out →
      ∀ s i, (out.res = .fresh s i ∨ out.res = .stored s i) →
        s ≤ servedAt e.1.t.now d out ∧ servedAt e.1.t.now d out < s + c.ttl ∧
        (out.res = .fresh s i → s = servedAt e.1.t.now d out) ∧
        (out.res = .stored s i → out.exec = false ∧ servedAt e.1.t.now d out = e.1.t.now) := by
  intro e he o d out hop hout s i hr
  obtain ⟨hinv, hans⟩ := (trace_inv' (Early.step c) (Early.Inv c) (fun s o => Early.inv_step httl s o)
    ops Early.init (Early.inv_init c)).2 e he
  obtain ⟨s0, op, ans⟩ := e
  simp only at hop hout hans hinv ⊢
  subst hop hout
  simp only [Early.step, Ans.call.injEq] at hans
  subst hans
  have h := Early.call_age httl hinv o d hr
  exact ⟨h.1, h.2.1, h.2.2.1, fun hs => ⟨h.2.2.2 hs, by simp [servedAt, h.2.2.2 hs]⟩⟩

/-- **early, foreground refresh: the caller that waited gets the refreshed result** (the repair of D40: the code used to
return the result it had read BEFORE the refresh — after a slow refresh one stored more than ttl ago).  After any
history, with `background=False`, a call that finds a stale stored result and no refresh lock executes the function
for `d` ticks and is answered with that execution's own outcome at `now + d` — never with the result read `d` ticks
earlier. -/
theorem early_foreground_refresh_answers_fresh (c : Early.Cfg) (ops : List DOp) (o : Outcome) (d : Nat) :
    let st := final (Early.step c) Early.init ops
    (Early.call c st o d).2.exec = true → (Early.call c st o d).2.started = true →
      (Early.call c st o d).2.res = o.result (st.t.now + d) st.nexec ∧ ∀ s i, (Early.call c st o d).2.res ≠ .stored s i := by
  intro st hx _
  have h := (Early.call_answer c st o d hx).1
  refine ⟨h, fun s i hs => ?_⟩
  rw [h] at hs
  cases o <;> simp [Outcome.result] at hs

/-- **early: while the stored result is younger than early_ttl (or exactly that old — the code's
boundary) a call receives it without executing the function**, without creating a refresh task and
without touching the store or letting time pass — after any history, whatever the function would have done and
however long it would have taken.  (The age counts from the instant the execution that produced the result
FINISHED: that is the stamp `s`.) -/
theorem early_young_served_without_executing (c : Early.Cfg) (httl : 0 < c.ttl) (ops : List DOp) (o : Outcome) (d : Nat) :
    let st := final (Early.step c) Early.init ops
    ∀ s i x, cached3 st.t = some (s, i, x) → st.t.now ≤ s + c.early →
      Early.call c st o d = (st, ⟨.stored s i, false, false⟩) := by
  intro st s i x hc hy
  have hinv := (trace_inv' (Early.step c) (Early.Inv c) (fun s o => Early.inv_step httl s o)
    ops Early.init (Early.inv_init c)).1
  exact Early.call_young hinv o d hc hy

/-- **early: the inner deadline and the hard ttl of a result count from the instant its execution finished**, however
long the execution took: after any history, a call that finds nothing stored (and no recalculation of the key in flight
to wait for) and whose execution takes `d` ticks and succeeds stores `(now + d, id)` with inner deadline
`now + d + early_ttl`, readable until `now + d + ttl`. -/
theorem early_deadlines_count_from_completion (c : Early.Cfg) (httl : 0 < c.ttl) (ops : List DOp) (d : Nat) :
    let st := final (Early.step c) Early.init ops
    cached3 st.t = none → st.inflight = [] →
      cached3 (Early.call c st .ok d).1.t = some (st.t.now + d, st.nexec, st.t.now + d + c.early) ∧
      ∀ dt, cached3 (advance (Early.call c st .ok d).1.t dt) =
        if dt < c.ttl then some (st.t.now + d, st.nexec, st.t.now + d + c.early) else none := by
  intro st hc hi
  have key : ∀ dt, cached3 (advance (Early.call c st .ok d).1.t dt) =
      if dt < c.ttl then some (st.t.now + d, st.nexec, st.t.now + d + c.early) else none := by
    intro dt
    rw [Early.call_cold _ _ hc hi]
    unfold Early.produce
    simp only [Bool.false_eq_true, if_false]
    unfold cached3 TtlMap.find Early.save
    simp only [advance_m, advance_now, write_now]
    rw [write_m _ _ _ httl]
    simp only [if_true, Entry.live]
    by_cases h : dt < c.ttl
    · have : st.t.now + d + dt < st.t.now + d + c.ttl := by omega
      simp [this, h, pack3, unpack3]
    · have : ¬ st.t.now + d + dt < st.t.now + d + c.ttl := by omega
      simp [this, h]
  refine ⟨?_, key⟩
  have := key 0
  simpa [advance, httl] using this

/-- **early: at most one refresh at a time — unconditionally** (the repair of D44; the property asks for it only "as long
as a refresh completes within early_ttl", and before the repair a recalculation that outlived its lock key, or the stored
result, was joined by a second and a third one).  In every history — recalculations as slow as one likes, outliving the
lock key and the stored result — there is never more than one recalculation of the key in flight, before every operation
and at the end; and a call creates a refresh task only when none is in flight.  (Calls keep being answered from the
store meanwhile, or wait for the recalculation: next theorems.) -/
theorem early_at_most_one_refresh (c : Early.Cfg) (ops : List DOp) :
    (final (Early.step c) Early.init ops).inflight.length ≤ 1 ∧
    ∀ e ∈ trace (Early.step c) Early.init ops, e.1.inflight.length ≤ 1 ∧
      ∀ o d out, e.2.1 = .call o d → e.2.2 = .call out → out.started = true → e.1.inflight = [] := by
  have h := trace_inv' (Early.step c) Early.Single (fun s o hs => Early.single_step s o hs) ops Early.init Early.single_init
  refine ⟨h.1, fun e he => ⟨(h.2 e he).1, ?_⟩⟩
  intro o d out hop hout hs
  have hans := (h.2 e he).2
  obtain ⟨s0, op, ans⟩ := e
  simp only at hop hout hans ⊢
  subst hop hout
  simp only [Early.step, Ans.call.injEq] at hans
  subst hans
  exact Early.call_started_alone o d hs

/-- **early, while a recalculation of the key is in flight** (after any history): a call that still finds a stored
result is answered with it, immediately, and touches nothing — whatever its age beyond early_ttl and whether or not the
lock key has expired meanwhile; a call that finds NOTHING stored (the result reached its ttl) does not execute the
function a second time: it is parked on the running recalculation (`Res.joined` with that recalculation's ordinal),
nothing is executed or started, the state is untouched. -/
theorem early_while_recalculating (c : Early.Cfg) (ops : List DOp) (o : Outcome) (d : Nat) :
    let st := final (Early.step c) Early.init ops
    ∀ rid ts rest, st.inflight = (rid, ts) :: rest →
      (∀ s i x, cached3 st.t = some (s, i, x) → Early.call c st o d = (st, ⟨.stored s i, false, false⟩)) ∧
      (cached3 st.t = none → Early.call c st o d = (st, ⟨.joined rid, false, false⟩)) := by
  intro st rid ts rest hi
  exact ⟨fun s i x hc => Early.call_stale_inflight o d hc (by rw [hi]; simp), fun hc => Early.call_join o d hc hi⟩

/-- **early: a caller parked on a recalculation is handed that recalculation's outcome when it completes** — and only
then, and only such callers are parked: in every history a call answers `joined rid` only if it found nothing stored and
the recalculation `rid` is in flight; and when the i-th recalculation in flight completes with outcome `o`, its waiters
get `o.result now id` — its fresh result stamped with the instant it is handed out (age 0: younger than ttl), its
exception or the exception of its store step; never a stored result. -/
theorem early_joined_caller_answer (c : Early.Cfg) (ops : List DOp) :
    (∀ e ∈ trace (Early.step c) Early.init ops, ∀ o d out rid, e.2.1 = .call o d → e.2.2 = .call out →
      out.res = .joined rid → cached3 e.1.t = none ∧ (∃ ts rest, e.1.inflight = (rid, ts) :: rest) ∧
        out.exec = false ∧ out.started = false ∧ (Early.step c e.1 e.2.1).1 = e.1) ∧
    (∀ i o r, Early.joinedAnswer (final (Early.step c) Early.init ops) i o = some r →
      (∃ id ts, (final (Early.step c) Early.init ops).inflight[i]? = some (id, ts) ∧
        r = o.result (final (Early.step c) Early.init ops).t.now id ∧
        (Early.done c (final (Early.step c) Early.init ops) i o).2 ≠ .noop) ∧
      (∀ s j, r = .fresh s j → s = (final (Early.step c) Early.init ops).t.now) ∧ (∀ s j, r ≠ .stored s j)) := by
  constructor
  · intro e he o d out rid hop hout hr
    have hans := ((trace_inv' (Early.step c) (fun _ => True) (fun _ _ _ => trivial) ops Early.init trivial).2 e he).2
    obtain ⟨s0, op, ans⟩ := e
    simp only at hop hout hans ⊢
    subst hop hout
    simp only [Early.step, Ans.call.injEq] at hans ⊢
    subst hans
    obtain ⟨h1, h2, h3⟩ := Early.call_joined o d hr
    rw [h3]
    exact ⟨h1, h2, rfl, rfl, rfl⟩
  · intro i o r hj
    unfold Early.joinedAnswer at hj
    cases hi : (final (Early.step c) Early.init ops).inflight[i]? with
    | none => simp [hi] at hj
    | some p =>
      obtain ⟨id, ts⟩ := p
      simp [hi] at hj
      subst hj
      refine ⟨⟨id, ts, rfl, rfl, ?_⟩, ?_, ?_⟩
      · unfold Early.done; simp only [hi]; cases o <;> simp
      · intro s j h; cases o <;> simp [Outcome.result] at h <;> exact h.1.symm
      · intro s j h; cases o <;> simp [Outcome.result] at h

/- FULL STATEMENT (does not hold, see `early_foreground_failure_propagates`; recorded as known finding D19):
   theorem early_answers_from_store (c) (httl : 0 < c.ttl) (ops) (o) (d) :
       let st := final (Early.step c) Early.init ops
       ∀ s i x, cached3 st.t = some (s, i, x) →
         (Early.call c st o d).2.res = .stored s i ∨ (… the refreshed result, as below …)
-/
/-- **early: a call that finds a stored result (one younger than ttl) answers from the store** — also
when it is older than early_ttl and whether or not this call triggers the refresh: it is answered with the stored
result, immediately and without the function running inside the call, or — `background=False`, the call has waited for
the refresh it triggered — with the refreshed result (the one that refresh has just stored, or that the condition
turned down), stamped with the instant of the answer; *provided* the refresh runs in the background or, running in the
foreground, raises nothing.  What is missing for the full statement is exactly the case `background=False` + a refresh
that raises (the function, or the store step after it), where the code lets the exception out of `await task` (D19,
known finding). -/
theorem early_answers_from_store_partial (c : Early.Cfg) (ops : List DOp) (o : Outcome) (d : Nat)
    (hyp : c.bg = true ∨ o.raises = false) :
    let st := final (Early.step c) Early.init ops
    ∀ s i x, cached3 st.t = some (s, i, x) →
      ((Early.call c st o d).2.res = .stored s i ∧ (Early.call c st o d).2.exec = false) ∨
      (c.bg = false ∧ (Early.call c st o d).2.exec = true ∧ (Early.call c st o d).2.started = true ∧
        (Early.call c st o d).2.res = .fresh (st.t.now + d) st.nexec) := by
  intro st s i x hc
  rcases Early.call_from_store (c := c) o d hc with h | ⟨h1, h2, h3, h4⟩
  · exact Or.inl h
  · rcases hyp with hyp | hyp
    · rw [hyp] at h1; simp at h1
    · refine Or.inr ⟨h1, h2, h3, ?_⟩
      rw [h4]
      cases o <;> first | rfl | (simp [Outcome.raises] at hyp)

/-- **D19 witnessed in the model**: ttl 2 s, early_ttl ½ s, background off; a result is stored, 5/8 s
pass, the refresh made by the next call raises: the call raises too although a result younger than ttl
is in the store.  (The same history is corpus/C14/D19_early_foreground_refresh_failure.json and behaves
identically on the real code.) -/
theorem early_foreground_failure_propagates :
    ∃ (c : Early.Cfg) (ops : List DOp) (o : Outcome) (d : Nat), 0 < c.ttl ∧ 0 < c.early ∧
      cached3 (final (Early.step c) Early.init ops).t = some (0, 0, 4) ∧
      (Early.call c (final (Early.step c) Early.init ops) o d).2.res = .raised o :=
  ⟨⟨16, 4, false⟩, [.call .ok 0, .adv 5], .listed, 0, by decide, by decide, by decide, by decide⟩

/-! ## soft -/

/-- **soft: a result older than soft_ttl (or exactly that old, or gone) is recomputed by the next
call**: after any history, if whatever is stored is at least `soft_ttl` old when the call begins, the call executes
the function (however long that takes). -/
theorem soft_old_is_recomputed (c : Soft.Cfg) (httl : 0 < c.ttl) (ops : List DOp) (o : Outcome) (d : Nat) :
    let st := final (Soft.step c) Soft.init ops
    (∀ s i x, cached3 st.t = some (s, i, x) → s + c.soft ≤ st.t.now) → (Soft.call c st o d).2.exec = true := by
  intro st hold
  have hinv := (trace_inv' (Soft.step c) (Soft.Inv c) (fun s o => Soft.inv_step httl s o)
    ops Soft.init (Soft.inv_init c)).1
  exact Soft.call_exec hinv o d hold

/-- **soft: a stale result is served again only if that recomputation raised a listed exception and the result is
still younger than ttl — AT THE INSTANT IT IS HANDED OUT.**  Every call of every history that hands out a stored result
`(s, i)`: the result is younger than ttl at the instant of the answer, and either it was younger than soft_ttl when the
call began, nothing was executed and the answer is immediate, or it was at least soft_ttl old, this call executed the
function, the outcome was a listed exception (never success, never an unlisted exception) and the answer comes `d` ticks
after the call began (the result having been read again at that moment: a result that reached its ttl while the
function was running is not served). -/
theorem soft_stale_only_on_listed (c : Soft.Cfg) (httl : 0 < c.ttl) (ops : List DOp) :
    ∀ e ∈ trace (Soft.step c) Soft.init ops, ∀ o d out, e.2.1 = .call o d → e.2.2 = .call out →
      ∀ s i, out.res = .stored s i →
        s ≤ servedAt e.1.t.now d out ∧ servedAt e.1.t.now d out < s + c.ttl ∧
        ((e.1.t.now < s + c.soft ∧ out.exec = false ∧ servedAt e.1.t.now d out = e.1.t.now) ∨
         (s + c.soft ≤ e.1.t.now ∧ out.exec = true ∧ o = .listed ∧ servedAt e.1.t.now d out = e.1.t.now + d)) := by
  intro e he o d out hop hout s i hr
  obtain ⟨hinv, hans⟩ := (trace_inv' (Soft.step c) (Soft.Inv c) (fun s o => Soft.inv_step httl s o)
    ops Soft.init (Soft.inv_init c)).2 e he
  obtain ⟨s0, op, ans⟩ := e
  simp only at hop hout hans hinv ⊢
  subst hop hout
  simp only [Soft.step, Ans.call.injEq] at hans
  subst hans
  obtain ⟨h1, h2, h3⟩ := Soft.call_stored hinv o d hr
  refine ⟨h1, h2, ?_⟩
  rcases h3 with ⟨h4, h5⟩ | ⟨h4, h5, h6⟩
  · exact Or.inl ⟨h4, h5, by simp [servedAt, h5]⟩
  · exact Or.inr ⟨h4, h5, h6, by simp [servedAt, h5]⟩

/-- **soft: the fallback is looked up when the recomputation fails, not when the call starts** (the repair of D39: the
code used to fall back to what it had read before the function ran — after a slow failure a result stored more than ttl
ago).  After any history, a call that recomputes (whatever is stored is at least soft_ttl old, or nothing is), whose
function runs for `d` ticks and raises a listed exception, is answered with whatever is readable `d` ticks later: the
stored result if it is still there, the exception itself if nothing is — in particular if the result that was there
when the call began expired meanwhile. -/
theorem soft_fallback_judged_at_failure (c : Soft.Cfg) (ops : List DOp) (d : Nat) :
    let st := final (Soft.step c) Soft.init ops
    (Soft.call c st .listed d).2.exec = true →
      (∀ s i x, cached3 (advance st.t d) = some (s, i, x) → (Soft.call c st .listed d).2.res = .stored s i) ∧
      (cached3 (advance st.t d) = none → (Soft.call c st .listed d).2.res = .raised .listed) := by
  intro st hx
  rcases Soft.call_cases c st .listed d with ⟨_, hcall, _⟩ | ⟨hx', _⟩
  · rw [hcall]
    exact Soft.execute_listed c (Soft.later st d)
  · rw [hx] at hx'; simp at hx'

/-! ## failover -/

/-- **failover: the function is executed on every call** — every call answer of every history reports
an execution, the number of executions grows by one with each call, and the answer comes `d` ticks after the call
began. -/
theorem failover_executes_every_call (c : Fail.Cfg) (ops : List DOp) :
    ∀ e ∈ trace (Fail.step c) Fail.init ops, ∀ o d, e.2.1 = .call o d →
      (∃ out, e.2.2 = .call out ∧ out.exec = true ∧ servedAt e.1.t.now d out = e.1.t.now + d) ∧
      (Fail.step c e.1 e.2.1).1.nexec = e.1.nexec + 1 := by
  intro e he o d hop
  obtain ⟨_, hans⟩ := (trace_inv' (Fail.step c) (fun _ => True) (fun _ _ _ => trivial)
    ops Fail.init trivial).2 e he
  obtain ⟨s0, op, ans⟩ := e
  simp only at hop hans ⊢
  subst hop
  simp only [Fail.step] at hans ⊢
  have h := Fail.call_exec c s0 o d
  exact ⟨⟨_, hans, h.1, by simp [servedAt, h.1]⟩, h.2.1⟩

/-- **failover: a stored result is returned only when the function raised a listed exception, and only
while younger than ttl — AT THE INSTANT IT IS RETURNED**, i.e. when the function has failed, `d` ticks after the call
began: a result that reaches its ttl while the function is running is not returned. -/
theorem failover_stored_only_on_listed (c : Fail.Cfg) (httl : 0 < c.ttl) (ops : List DOp) :
    ∀ e ∈ trace (Fail.step c) Fail.init ops, ∀ o d out, e.2.1 = .call o d → e.2.2 = .call out →
      ∀ s i, out.res = .stored s i →
        o = .listed ∧ s ≤ servedAt e.1.t.now d out ∧ servedAt e.1.t.now d out < s + c.ttl := by
  intro e he o d out hop hout s i hr
  obtain ⟨hinv, hans⟩ := (trace_inv' (Fail.step c) (Fail.Inv c) (fun s o => Fail.inv_step httl s o)
    ops Fail.init (Fail.inv_init c)).2 e he
  obtain ⟨s0, op, ans⟩ := e
  simp only at hop hout hans hinv ⊢
  subst hop hout
  simp only [Fail.step, Ans.call.injEq] at hans
  subst hans
  have h := Fail.call_stored hinv o d hr
  have hx := (Fail.call_exec c s0 o d).1
  simpa [servedAt, hx] using h

/-- **failover: the fallback is looked up when the function fails, not when the call starts.**  After any history, a
call whose function runs for `d` ticks and raises a listed exception is answered with whatever is readable `d` ticks
later: the stored result if it is still there (younger than ttl then), the exception itself if nothing is — in
particular if the result that was there when the call began expired meanwhile. -/
theorem failover_fallback_judged_at_failure (c : Fail.Cfg) (ops : List DOp) (d : Nat) :
    let st := final (Fail.step c) Fail.init ops
    (∀ s i, cached2 (advance st.t d) = some (s, i) → (Fail.call c st .listed d).2.res = .stored s i) ∧
    (cached2 (advance st.t d) = none → (Fail.call c st .listed d).2.res = .raised .listed) := by
  intro st
  exact ⟨fun s i hc => Fail.call_listed hc, fun hc => Fail.call_listed_expired hc⟩

/-- **failover: the result of a successful call is the fallback for a full ttl counted from THAT call** — however often
and however long ago an equal result was stored before (every success writes the entry again and with it renews its
expiry).  After any history: a call whose function returns after `d` ticks (outcome `ok`) stores `(now + d, id)`; let any
time `dt` pass and the store's content stay (calls that fail, are turned down or whose store step fails do not touch it:
`failover_returned_execution_answers`); a call whose function then runs for `d'` ticks and raises a listed exception is
answered with exactly that result as long as `dt + d' < ttl`, and with the exception itself from `ttl` on. -/
theorem failover_success_is_fallback_for_ttl (c : Fail.Cfg) (httl : 0 < c.ttl) (ops : List DOp) (d dt d' : Nat) :
    let st := final (Fail.step c) Fail.init ops
    let s1 := (Fail.call c st .ok d).1
    (Fail.call c { s1 with t := advance s1.t dt } .listed d').2.res =
      if dt + d' < c.ttl then .stored (st.t.now + d) st.nexec else .raised .listed := by
  intro st s1
  have hc : cached2 (advance (advance s1.t dt) d') = if dt + d' < c.ttl then some (st.t.now + d, st.nexec) else none := by
    show cached2 (advance (advance (Fail.call c st .ok d).1.t dt) d') = _
    unfold Fail.call Fail.afterExec
    unfold cached2 TtlMap.find
    simp only [advance_m, advance_now, write_now]
    rw [write_m _ _ _ httl]
    simp only [if_true, Entry.live]
    by_cases h : dt + d' < c.ttl
    · have : st.t.now + d + dt + d' < st.t.now + d + c.ttl := by omega
      simp [this, h, pack2, unpack2]
    · have : ¬ st.t.now + d + dt + d' < st.t.now + d + c.ttl := by omega
      simp [this, h]
  by_cases h : dt + d' < c.ttl
  · rw [if_pos h] at hc ⊢
    exact Fail.call_listed hc
  · rw [if_neg h] at hc ⊢
    exact Fail.call_listed_expired hc

/-! ## hit -/

/-- **hit: in any sequential history a stored result is served at most cache_hits times before the
function is executed again.**  `Hit.counts false` counts, from the recorded answers alone, the serves
since the function last *began* to execute (in a call, or as a refresh task).  In every history in
which no call is made while a background refresh is still in flight (`Hit.SeqOK`) this count never
exceeds `cache_hits` — for every history, hence at every point of every history, whatever the executions' durations. -/
theorem hit_serves_bounded_sequential (c : Hit.Cfg) (httl : 0 < c.ttl) (ops : List DOp)
    (hseq : ∀ e ∈ trace (Hit.step c) Hit.init ops, Hit.SeqOK e.1 e.2.1) :
    (Hit.counts false (trace (Hit.step c) Hit.init ops)).1 ≤ c.hits := by
  have h := Hit.good_run httl false ops Hit.init 0 0 (Hit.good_init c false) (fun _ => hseq)
  rw [Hit.counts_eq]
  exact h.tg.bound

/-- **hit, overlapping refreshes too**: for *every* history (calls while refreshes are in flight,
refreshes finishing in any order and arbitrarily late, foreground executions of any duration), at most `cache_hits`
serves lie between two consecutive execution events, where an event is the function beginning to execute or a
background refresh finishing and getting as far as storing its result — stored, or refused by the backend after the
counter was deleted (`Hit.counts true`, `Hit.reachedSet`). -/
theorem hit_serves_bounded (c : Hit.Cfg) (httl : 0 < c.ttl) (ops : List DOp) :
    (Hit.counts true (trace (Hit.step c) Hit.init ops)).1 ≤ c.hits := by
  have h := Hit.good_run httl true ops Hit.init 0 0 (Hit.good_init c true) (fun hb => by simp at hb)
  rw [Hit.counts_eq]
  exact h.tg.bound

/-- **hit: a refresh is started exactly when the hit count reaches update_after.**  After any history,
let `k` be the number of calls since a result was last stored (computed from the recorded answers).
(With store-step failures in the history: since a store was last made *or attempted at the backend* — an
execution whose `backend.set` is refused has already deleted the counter, the older result stays and its hits
are counted from 0 again; `Hit.callsAfter`.)
If a stored result is found then: the call creates a refresh task iff it is the `update_after`-th call
since the store (with `0 < update_after ≤ cache_hits`); up to the `cache_hits`-th call the stored result is
the answer (except that a *foreground* refresh that raises — the function or its store step — lets that
exception out: mirrored, the sentence about hit does not promise an answer); and the `(cache_hits+1)`-th and
later calls execute the function again and are answered by that execution (`Outcome.result`: its fresh result stamped
with the instant it finished, its exception, or the exception of its store step — never the stored result). -/
theorem hit_refresh_iff_update_after (c : Hit.Cfg) (httl : 0 < c.ttl) (ops : List DOp) (o : Outcome) (d : Nat) :
    let st := final (Hit.step c) Hit.init ops
    let k := (Hit.counts true (trace (Hit.step c) Hit.init ops)).2
    ∀ s i, cached2 st.t = some (s, i) →
      (((Hit.call c st o d).2.started = true ↔ (k + 1 = c.upd ∧ c.upd ≠ 0 ∧ c.upd ≤ c.hits)) ∧
       (k + 1 ≤ c.hits → (Hit.call c st o d).2.res = .stored s i ∨
          (c.bg = false ∧ o.raises = true ∧ k + 1 = c.upd ∧ (Hit.call c st o d).2.res = o.result (st.t.now + d) st.nexec)) ∧
       (c.hits < k + 1 → (Hit.call c st o d).2.exec = true ∧ (Hit.call c st o d).2.started = false ∧
          (Hit.call c st o d).2.res = o.result (st.t.now + d) st.nexec)) := by
  intro st k s i hc
  have h := Hit.good_run httl true ops Hit.init 0 0 (Hit.good_init c true) (fun hb => by simp at hb)
  rw [← Hit.counts_eq] at h
  exact Hit.call_started httl h o d hc

/-! ## the store step after a successful execution (condition, callable ttl, `backend.set`)

A result the function *returned* is never replaced by an older stored one because something went wrong — or was
decided — afterwards: the caller gets the fresh result (also when the condition turns it down) or the exception
the store step raised, whether or not that exception is one of the decorator's listed `exceptions`; and whatever
is stored stays exactly what it was unless the outcome is `ok`. -/

/-- **failover: a call whose execution returned is answered by that execution** — its fresh result (stamped with the
instant the function finished; stored, or turned down by the condition), or the exception its store step raised
(condition / callable ttl / `backend.set`, listed or not) — never a stored result; and unless the outcome is `ok` the
store is left exactly as it was (only the clock has moved).  After any history. -/
theorem failover_returned_execution_answers (c : Fail.Cfg) (ops : List DOp) (o : Outcome) (d : Nat) :
    let st := final (Fail.step c) Fail.init ops
    (o.returns = true → (Fail.call c st o d).2.res = o.result (st.t.now + d) st.nexec) ∧
    (o ≠ .ok → (Fail.call c st o d).1.t = advance st.t d) := by
  intro st
  have h := Fail.call_spec c st o d
  refine ⟨?_, h.2.2⟩
  intro hr
  cases o with
  | ok => exact h.1 (Or.inl rfl)
  | rejected => exact h.1 (Or.inr rfl)
  | storeFails stg l => exact h.2.1 stg l rfl
  | listed => simp [Outcome.returns] at hr
  | unlisted => simp [Outcome.returns] at hr

/-- **soft: a recomputation that returned is answered by itself** — whenever a call executes the function and the
function returns, the caller gets that fresh result (stored, or turned down by the condition) or the exception
of the store step (listed or not), never the stale result; and unless the outcome is `ok` the content of the store is
left exactly as it was (so the next call recomputes again: `soft_old_is_recomputed`).  After any history. -/
theorem soft_returned_execution_answers (c : Soft.Cfg) (ops : List DOp) (o : Outcome) (d : Nat) :
    let st := final (Soft.step c) Soft.init ops
    ((Soft.call c st o d).2.exec = true → o.returns = true → (Soft.call c st o d).2.res = o.result (st.t.now + d) st.nexec) ∧
    (o ≠ .ok → (Soft.call c st o d).1.t.m = st.t.m) := by
  intro st
  rcases Soft.call_cases c st o d with ⟨hx, hcall, _⟩ | ⟨hx, hs, _⟩
  · rw [hcall]
    have h := Soft.execute_spec c (Soft.later st d) o
    refine ⟨fun _ hr => ?_, fun ho => by rw [h.2.2 ho]; rfl⟩
    cases o with
    | ok => exact h.1 (Or.inl rfl)
    | rejected => exact h.1 (Or.inr rfl)
    | storeFails stg l => exact h.2.1 stg l rfl
    | listed => simp [Outcome.returns] at hr
    | unlisted => simp [Outcome.returns] at hr
  · exact ⟨fun hx' => by rw [hx] at hx'; simp at hx', fun _ => by rw [hs]⟩

/-- **early: whenever the function runs inside a call, the caller is handed what that execution produced** —
its result (stamped with the instant it finished), its exception or the exception of its store step
(`Outcome.result`) — both when nothing was stored and when the call waited for a foreground refresh (`started`;
`background=False`, a stale result stored; a refresh that raises: D19); never a stored result; and the function runs
inside a call only when no recalculation of the key is in flight.  After any history. -/
theorem early_execution_answers (c : Early.Cfg) (ops : List DOp) (o : Outcome) (d : Nat) :
    let st := final (Early.step c) Early.init ops
    (Early.call c st o d).2.exec = true →
      (Early.call c st o d).2.res = o.result (st.t.now + d) st.nexec ∧ st.inflight = [] ∧
      (((Early.call c st o d).2.started = false ∧ cached3 st.t = none) ∨
       ((Early.call c st o d).2.started = true ∧ c.bg = false ∧ ∃ s i x, cached3 st.t = some (s, i, x) ∧ x < st.t.now)) := by
  intro st hx
  exact Early.call_answer c st o d hx

/-- **early: only an execution with outcome `ok` changes the stored result.**  A call, or the completion of a
background refresh, whose execution raises, is turned down by the condition or fails in its store step leaves
the entry under the result's key exactly as it was.  After any history. -/
theorem early_only_ok_stores (c : Early.Cfg) (hearly : 0 < c.early) (ops : List DOp) (o : Outcome) (d : Nat) (ho : o ≠ .ok) :
    let st := final (Early.step c) Early.init ops
    (Early.call c st o d).1.t.m kMain = st.t.m kMain ∧ ∀ i, cached3 (Early.done c st i o).1.t = cached3 st.t := by
  intro st
  refine ⟨Early.call_main hearly st o d ho, fun i => ?_⟩
  have h2 := Early.done_main (c := c) st i o ho
  exact cached3_congr h2.2 h2.1

/-- **hit: whenever the function runs inside a call, the caller is handed what that execution produced** — its
result, its exception or the exception of its store step when the call is its own computation; for a foreground
refresh that raises, the same; for a foreground refresh that raises nothing, the stored result.  After any
history. -/
theorem hit_execution_answers (c : Hit.Cfg) (ops : List DOp) (o : Outcome) (d : Nat) :
    let st := final (Hit.step c) Hit.init ops
    (Hit.call c st o d).2.exec = true →
      ((Hit.call c st o d).2.started = false ∧ (Hit.call c st o d).2.res = o.result (st.t.now + d) st.nexec) ∨
      ((Hit.call c st o d).2.started = true ∧
        ((o.raises = true ∧ (Hit.call c st o d).2.res = o.result (st.t.now + d) st.nexec) ∨
         (o.raises = false ∧ ∃ s i, cached2 st.t = some (s, i) ∧ (Hit.call c st o d).2.res = .stored s i))) := by
  intro st hx
  exact Hit.call_answer c st o d hx

/-- **hit: only an execution with outcome `ok` changes the stored result** (a `backend.set` that is refused has
deleted the hit counter, not the result).  After any history. -/
theorem hit_only_ok_stores (c : Hit.Cfg) (ops : List DOp) (o : Outcome) (d : Nat) (ho : o ≠ .ok) :
    let st := final (Hit.step c) Hit.init ops
    (Hit.call c st o d).1.t.m kMain = st.t.m kMain ∧ ∀ i, cached2 (Hit.done c st i o).1.t = cached2 st.t := by
  intro st
  refine ⟨Hit.call_main c st o d ho, fun i => ?_⟩
  have h2 := Hit.done_main c st i o ho
  exact Hit.cached2_congr h2.2 h2.1

/-! ## overlapping calls of one key (failover; soft without single-flight protection)

Only the sentence about `hit` is restricted to sequential histories.  Here a call is not atomic: it begins, other calls
begin or finish and time passes, and later its function body finishes (`Overlap.COp`: `begin`, `fin i o`, `adv`). -/

/-- **failover, overlapping calls: the function is executed on every call, and a stored result is returned only to a
call whose OWN execution raised a listed exception, and only younger than ttl at that instant.**  In every history of
overlapping calls: every call that begins enters the function with an execution of its own (it is never answered
without executing, never attached to another call's execution), whatever other calls are inside the function at that
moment; and when the body of a pending call finishes with outcome `o`, that call is answered — a stored result only if
`o` is a listed exception and the result (whoever stored it, possibly an overlapping call a moment ago) is younger than
ttl now; a fresh result only if its own execution returned, stamped now. -/
theorem failover_overlapping_calls (c : Fail.Cfg) (httl : 0 < c.ttl) (ops : List Overlap.COp) :
    ∀ e ∈ trace (Overlap.failStep c) Overlap.init ops,
      (e.2.1 = .begin → e.2.2 = .began e.1.next ∧
        (Overlap.failStep c e.1 e.2.1).1.pending = e.1.pending ++ [e.1.next] ∧
        (Overlap.failStep c e.1 e.2.1).1.next = e.1.next + 1) ∧
      (∀ i o r, e.2.1 = .fin i o → e.2.2 = .answered r →
        (∃ id, e.1.pending[i]? = some id ∧ ∀ s j, r = .fresh s j → j = id) ∧
        (∀ s j, r = .stored s j → o = .listed ∧ s ≤ e.1.t.now ∧ e.1.t.now < s + c.ttl) ∧
        (∀ s j, r = .fresh s j → s = e.1.t.now ∧ o.returns = true)) := by
  intro e he
  obtain ⟨hinv, hans⟩ := (trace_inv' (Overlap.failStep c) (fun s => KeyWf2 c.ttl s.t)
    (fun s o h => Overlap.failStep_wf httl s o h) ops Overlap.init (wf2_init _)).2 e he
  obtain ⟨s0, op, ans⟩ := e
  simp only at hinv hans ⊢
  subst hans
  refine ⟨fun hop => ?_, fun i o r hop hr => ?_⟩
  · subst hop; exact ⟨rfl, rfl, rfl⟩
  · subst hop
    simp only [Overlap.failStep, Overlap.finishWith] at hr
    cases hp : s0.pending[i]? with
    | none => simp [hp] at hr
    | some id =>
      simp [hp] at hr
      subst hr
      have h := Overlap.failFinish_res hinv id o
      exact ⟨⟨id, rfl, fun s j hf => (h.2 s j hf).2.1⟩, h.1, fun s j hf => ⟨(h.2 s j hf).1, (h.2 s j hf).2.2⟩⟩

/-- **soft (no single-flight protection), overlapping calls: never a value older than ttl, and a stale one only after the
call's own recomputation raised a listed exception.**  In every history of overlapping calls: a call that begins is
either answered at once with the stored result, which is then younger than soft_ttl (and than ttl), nothing being
executed — or it enters the function with an execution of its own; and when the body of a pending call finishes with
outcome `o`, a stored result is handed out only if `o` is a listed exception and the result that is in the store AT THAT
INSTANT (possibly written by an overlapping call meanwhile — not the one this call read when it began) is younger than
ttl; a fresh result only if its own execution returned, stamped now. -/
theorem soft_overlapping_calls (c : Soft.Cfg) (httl : 0 < c.ttl) (ops : List Overlap.COp) :
    ∀ e ∈ trace (Overlap.softStep c) Overlap.init ops,
      (e.2.1 = .begin →
        (e.2.2 = .began e.1.next ∧ (Overlap.softStep c e.1 e.2.1).1.pending = e.1.pending ++ [e.1.next] ∧
          ∀ s j x, cached3 e.1.t = some (s, j, x) → s + c.soft ≤ e.1.t.now) ∨
        (∃ s j, e.2.2 = .served (.stored s j) ∧ s ≤ e.1.t.now ∧ e.1.t.now < s + c.soft ∧ e.1.t.now < s + c.ttl ∧
          (Overlap.softStep c e.1 e.2.1).1 = e.1)) ∧
      (∀ i o r, e.2.1 = .fin i o → e.2.2 = .answered r →
        (∃ id, e.1.pending[i]? = some id ∧ ∀ s j, r = .fresh s j → j = id) ∧
        (∀ s j, r = .stored s j → o = .listed ∧ s ≤ e.1.t.now ∧ e.1.t.now < s + c.ttl) ∧
        (∀ s j, r = .fresh s j → s = e.1.t.now ∧ o.returns = true)) := by
  intro e he
  obtain ⟨hinv, hans⟩ := (trace_inv' (Overlap.softStep c) (fun s => KeyWf3 c.ttl c.soft s.t)
    (fun s o h => Overlap.softStep_wf httl s o h) ops Overlap.init (wf3_init _ _)).2 e he
  obtain ⟨s0, op, ans⟩ := e
  simp only at hinv hans ⊢
  subst hans
  refine ⟨fun hop => ?_, fun i o r hop hr => ?_⟩
  · subst hop
    simp only [Overlap.softStep]
    cases hc : cached3 s0.t with
    | none => exact Or.inl ⟨rfl, rfl, by simp⟩
    | some p =>
      obtain ⟨st, id, x⟩ := p
      have hs := cached3_spec hinv hc
      simp only []
      by_cases hn : s0.t.now < x
      · rw [if_pos hn]
        exact Or.inr ⟨st, id, rfl, hs.2.1, by rw [← hs.1]; exact hn, hs.2.2.1, rfl⟩
      · rw [if_neg hn]
        refine Or.inl ⟨rfl, rfl, ?_⟩
        intro s j x' h
        simp at h
        obtain ⟨h1, _, h3⟩ := h
        subst h1 h3
        rw [hs.1] at hn
        omega
  · subst hop
    simp only [Overlap.softStep, Overlap.finishWith] at hr
    cases hp : s0.pending[i]? with
    | none => simp [hp] at hr
    | some id =>
      simp [hp] at hr
      subst hr
      have h := Overlap.softFinish_res hinv id o
      exact ⟨⟨id, rfl, fun s j hf => (h.2 s j hf).2.1⟩, h.1, fun s j hf => ⟨(h.2 s j hf).1, (h.2 s j hf).2.2⟩⟩

/-! ## Non-vacuity: the models do something, and the hypotheses are satisfiable by interesting histories -/

/-- early, ttl 2 s, early_ttl ½ s, background on: store; 5/8 s later the call starts a refresh and is
answered from the store; a second call meanwhile is answered from the store without a second refresh;
the refresh completes; the new result is served. -/
def earlyHist : List DOp := [.call .ok 0, .adv 5, .call .ok 0, .call .listed 0, .adv 2, .done 0 .ok, .call .ok 0]

example : answers (trace (Early.step ⟨16, 4, true⟩) Early.init earlyHist) =
    [.call ⟨.fresh 0 0, true, false⟩, .ok, .call ⟨.stored 0 0, false, true⟩, .call ⟨.stored 0 0, false, false⟩,
     .ok, .done .stored, .call ⟨.stored 7 1, false, false⟩] := by decide

/-- a recalculation that outlives its lock key (a call 4 ticks after it started: the lock key is gone) is NOT joined by
a second one: the call is served from the store (before D44 was repaired: `inflight.length = 2`) -/
example : (final (Early.step ⟨16, 4, true⟩) Early.init [.call .ok 0, .adv 5, .call .ok 0, .adv 4, .call .ok 0]).inflight.length = 1 := by
  decide

/-- … and one that outlives the stored result is waited for: the result `(0,0)` is gone at 16, the calls at 17 and 18 find
nothing, execute nothing and are parked on recalculation 1; it completes at 19 and they are handed `(19, 1)`; the next
call is served that result. -/
example : answers (trace (Early.step ⟨16, 4, true⟩) Early.init
      [.call .ok 0, .adv 5, .call .ok 0, .adv 12, .call .ok 3, .adv 1, .call .listed 0, .adv 1, .done 0 .ok, .call .listed 0]) =
    [.call ⟨.fresh 0 0, true, false⟩, .ok, .call ⟨.stored 0 0, false, true⟩, .ok, .call ⟨.joined 1, false, false⟩, .ok,
     .call ⟨.joined 1, false, false⟩, .ok, .done .stored, .call ⟨.stored 19 1, false, false⟩] := by decide

example : Early.joinedAnswer (final (Early.step ⟨16, 4, true⟩) Early.init
      [.call .ok 0, .adv 5, .call .ok 0, .adv 12, .call .ok 3, .adv 1, .call .listed 0, .adv 1]) 0 .ok = some (.fresh 19 1) ∧
    Early.joinedAnswer (final (Early.step ⟨16, 4, true⟩) Early.init
      [.call .ok 0, .adv 5, .call .ok 0, .adv 12, .call .ok 3]) 0 .listed = some (.raised .listed) := by decide

/-- soft, ttl 2 s, soft_ttl ½ s: fresh; served young; at exactly soft_ttl recomputed, the listed failure
serves the stale value; an unlisted failure raises; after ttl a listed failure raises as well. -/
example : answers (trace (Soft.step ⟨16, 4⟩) Soft.init
      [.call .ok 0, .adv 3, .call .unlisted 0, .adv 1, .call .listed 0, .call .unlisted 0, .adv 12, .call .listed 0]) =
    [.call ⟨.fresh 0 0, true, false⟩, .ok, .call ⟨.stored 0 0, false, false⟩, .ok, .call ⟨.stored 0 0, true, false⟩,
     .call ⟨.raised .unlisted, true, false⟩, .ok, .call ⟨.raised .listed, true, false⟩] := by decide

/-- failover, ttl 2 s -/
example : answers (trace (Fail.step ⟨16⟩) Fail.init
      [.call .listed 0, .call .ok 0, .adv 15, .call .listed 0, .call .unlisted 0, .adv 1, .call .listed 0]) =
    [.call ⟨.raised .listed, true, false⟩, .call ⟨.fresh 0 1, true, false⟩, .ok, .call ⟨.stored 0 1, true, false⟩,
     .call ⟨.raised .unlisted, true, false⟩, .ok, .call ⟨.raised .listed, true, false⟩] := by decide

/-- hit, cache_hits 2, update_after 2, background on: two serves, the second starts a refresh, the
third call executes again; a sequential history (the refresh completes before the next call) -/
def hitHist : List DOp := [.call .ok 0, .call .ok 0, .call .ok 0, .done 0 .ok, .call .ok 0, .call .ok 0, .done 0 .listed, .call .ok 0]

example : answers (trace (Hit.step ⟨16, 2, 2, true⟩) Hit.init hitHist) =
    [.call ⟨.fresh 0 0, true, false⟩, .call ⟨.stored 0 0, false, false⟩, .call ⟨.stored 0 0, false, true⟩,
     .done .stored, .call ⟨.stored 0 1, false, false⟩, .call ⟨.stored 0 1, false, true⟩, .done .failed,
     .call ⟨.fresh 0 3, true, false⟩] := by decide

example : ∀ e ∈ trace (Hit.step ⟨16, 2, 2, true⟩) Hit.init hitHist, Hit.SeqOK e.1 e.2.1 := by
  intro e he o d hop
  simp only [hitHist, trace, List.mem_cons, List.not_mem_nil, or_false] at he
  rcases he with rfl | rfl | rfl | rfl | rfl | rfl | rfl | rfl <;> first | rfl | (simp at hop)

/-- the bound is attained: cache_hits = 2 serves since the last execution -/
example : (Hit.counts false (trace (Hit.step ⟨16, 2, 0, true⟩) Hit.init [.call .ok 0, .call .ok 0, .call .ok 0])).1 = 2 := by decide

/-! ### … with store steps that fail or turn the result down -/

/-- failover, ttl 2 s: a result is stored; later executions return but the condition raises a listed exception /
`backend.set` raises an unlisted one: the exception is the answer, not the stored `(0,0)`; a result the condition
turns down is returned; and the stored `(0,0)` is still what a listed failure of the function falls back to. -/
example : answers (trace (Fail.step ⟨16⟩) Fail.init
      [.call .ok 0, .adv 3, .call (.storeFails .pre true) 0, .call (.storeFails .set false) 0, .call .rejected 0, .call .listed 0]) =
    [.call ⟨.fresh 0 0, true, false⟩, .ok, .call ⟨.storeErr true, true, false⟩, .call ⟨.storeErr false, true, false⟩,
     .call ⟨.fresh 3 3, true, false⟩, .call ⟨.stored 0 0, true, false⟩] := by decide

/-- soft, ttl 2 s, soft_ttl ½ s: at soft_ttl the recomputation returns but the set is refused with a listed
exception — that exception is the answer, not the stale value; the next call recomputes again, its result is turned
down by the condition and returned; a listed failure of the function still falls back to `(0,0)`. -/
example : answers (trace (Soft.step ⟨16, 4⟩) Soft.init
      [.call .ok 0, .adv 4, .call (.storeFails .set true) 0, .call .rejected 0, .call .listed 0, .call .ok 0]) =
    [.call ⟨.fresh 0 0, true, false⟩, .ok, .call ⟨.storeErr true, true, false⟩, .call ⟨.fresh 4 2, true, false⟩,
     .call ⟨.stored 0 0, true, false⟩, .call ⟨.fresh 4 4, true, false⟩] := by decide

/-- early, background off: nothing stored — a turned-down result is returned and the next call executes again, a
failing store step raises; with `(0,2)` stored and older than early_ttl a foreground refresh whose set is refused
raises (D19-like), one whose result is turned down hands that result to the caller that waited (nothing is stored) and
the next call refreshes again — and gets the result it has just stored. -/
example : answers (trace (Early.step ⟨16, 4, false⟩) Early.init
      [.call .rejected 0, .call (.storeFails .pre false) 0, .call .ok 0, .adv 5, .call (.storeFails .set true) 0, .call .rejected 0,
       .call .ok 0, .call .listed 0]) =
    [.call ⟨.fresh 0 0, true, false⟩, .call ⟨.storeErr false, true, false⟩, .call ⟨.fresh 0 2, true, false⟩, .ok,
     .call ⟨.storeErr true, true, true⟩, .call ⟨.fresh 5 4, true, true⟩, .call ⟨.fresh 5 5, true, true⟩,
     .call ⟨.stored 5 5, false, false⟩] := by decide

/-- early, background on: background refreshes whose store step fails / whose result is turned down release the
lock and leave the stored result; the next call starts another refresh. -/
example : answers (trace (Early.step ⟨16, 4, true⟩) Early.init
      [.call .ok 0, .adv 5, .call .ok 0, .done 0 (.storeFails .set true), .call .ok 0, .done 0 .rejected, .call .ok 0, .done 0 .ok,
       .call .listed 0]) =
    [.call ⟨.fresh 0 0, true, false⟩, .ok, .call ⟨.stored 0 0, false, true⟩, .done .failed, .call ⟨.stored 0 0, false, true⟩,
     .done .skipped, .call ⟨.stored 0 0, false, true⟩, .done .stored, .call ⟨.stored 5 3, false, false⟩] := by decide

/-- hit, cache_hits 2: after two serves the third call executes; `backend.set` refuses its result — the exception
is the answer, the counter is gone, the older result is served for two more calls, then the function runs again;
a store step failing before the backend / a turned-down result leave the counter running: every later call executes. -/
example : answers (trace (Hit.step ⟨16, 2, 0, true⟩) Hit.init
      [.call .ok 0, .call .ok 0, .call .ok 0, .call (.storeFails .set false) 0, .call .listed 0, .call .listed 0, .call .listed 0,
       .call (.storeFails .pre true) 0, .call .rejected 0, .call .ok 0]) =
    [.call ⟨.fresh 0 0, true, false⟩, .call ⟨.stored 0 0, false, false⟩, .call ⟨.stored 0 0, false, false⟩,
     .call ⟨.storeErr false, true, false⟩, .call ⟨.stored 0 0, false, false⟩, .call ⟨.stored 0 0, false, false⟩,
     .call ⟨.raised .listed, true, false⟩, .call ⟨.storeErr true, true, false⟩, .call ⟨.fresh 0 4, true, false⟩,
     .call ⟨.fresh 0 5, true, false⟩] := by decide

/-- hit, cache_hits 3, update_after 1, background on: the background refresh finishes with its set refused; the
counter restarts, the next call is again the `update_after`-th and starts a refresh; the bound 3 is attained. -/
example : (Hit.counts true (trace (Hit.step ⟨16, 3, 1, true⟩) Hit.init
      [.call .ok 0, .call .ok 0, .call .ok 0, .done 0 (.storeFails .set true), .call .ok 0, .call .ok 0, .call .ok 0])) = (3, 3) := by
  decide

/-! ### … with executions that take time (ttl 2 s = 16 ticks, inner ttl ½ s = 4 ticks) -/

/-- failover: a result is stored at 0; a call beginning at 14 whose function takes 1 tick and raises a listed exception
falls back to it (aged 15 at the failure); the next call begins at 15 (the result is still younger than ttl), its
function takes 2 ticks and raises a listed exception at 17: the result expired meanwhile, the exception is the answer
(with the seeded change C14-8 — fallback read before the function runs — `(0,0)` would be returned, 17 ticks old). -/
example : answers (trace (Fail.step ⟨16⟩) Fail.init [.call .ok 0, .adv 14, .call .listed 1, .call .listed 2]) =
    [.call ⟨.fresh 0 0, true, false⟩, .ok, .call ⟨.stored 0 0, true, false⟩, .call ⟨.raised .listed, true, false⟩] := by decide

/-- … and that history passes through the premise of `failover_fallback_judged_at_failure` both ways -/
example : cached2 (advance (final (Fail.step ⟨16⟩) Fail.init [.call .ok 0, .adv 14]).t 1) = some (0, 0) ∧
    cached2 (advance (final (Fail.step ⟨16⟩) Fail.init [.call .ok 0, .adv 14, .call .listed 1]).t 2) = none := by decide

/-- soft (D39 repaired): the first execution takes 3 ticks, its result is stamped 3 (soft deadline 7, gone at 19); a call
at 6 is served without executing; a call at 7 recomputes for 2 ticks and fails: served stale at 9; a call beginning at 18
(aged 15) recomputes for 2 ticks and fails at 20: the result expired at 19, the exception is the answer. -/
example : answers (trace (Soft.step ⟨16, 4⟩) Soft.init
      [.call .ok 3, .adv 3, .call .unlisted 9, .adv 1, .call .listed 2, .adv 9, .call .listed 2]) =
    [.call ⟨.fresh 3 0, true, false⟩, .ok, .call ⟨.stored 3 0, false, false⟩, .ok, .call ⟨.stored 3 0, true, false⟩, .ok,
     .call ⟨.raised .listed, true, false⟩] := by decide

example : (final (Soft.step ⟨16, 4⟩) Soft.init
      [.call .ok 3, .adv 3, .call .unlisted 9, .adv 1, .call .listed 2, .adv 9, .call .listed 2]).t.now = 20 := by decide

/-- early, background off (D40 repaired): the first execution takes 3 ticks (stamp 3, early deadline 7 — with the seeded
change C14-1 it would be 4); the call at 7 is still served without a refresh; the call at 8 waits 2 ticks for its
foreground refresh and gets the refreshed result `(10, 1)`; a call beginning at 25 (`(10,1)` aged 15) waits 5 ticks — longer
than the refresh lock lives and beyond the old result's ttl — and gets `(30, 2)`, not the 20-tick-old `(10, 1)`. -/
example : answers (trace (Early.step ⟨16, 4, false⟩) Early.init
      [.call .ok 3, .adv 4, .call .ok 9, .adv 1, .call .ok 2, .adv 15, .call .ok 5, .call .listed 1]) =
    [.call ⟨.fresh 3 0, true, false⟩, .ok, .call ⟨.stored 3 0, false, false⟩, .ok, .call ⟨.fresh 10 1, true, true⟩, .ok,
     .call ⟨.fresh 30 2, true, true⟩, .call ⟨.stored 30 2, false, false⟩] := by decide

/-- early, nothing stored, the execution takes 3 ticks: the result can be read for exactly ttl ticks after its completion
(`early_deadlines_count_from_completion`) -/
example : cached3 (advance (Early.call ⟨16, 4, true⟩ Early.init .ok 3).1.t 15) = some (3, 0, 7) ∧
    cached3 (advance (Early.call ⟨16, 4, true⟩ Early.init .ok 3).1.t 16) = none := by decide

/-- hit, cache_hits 2, update_after 1, background off: the first execution takes 2 ticks; the next call is the
`update_after`-th: it waits 3 ticks for its foreground refresh and is answered with the result it read before (the sentence
about hit bounds serves, not ages); a call beginning at 20 finds `(5,1)` (aged 15), counts hit 1 = update_after, refreshes
for 2 ticks: answered at 22 with `(5,1)`; the next call is again the `update_after`-th, its foreground refresh raises and so does
the call (mirrored). -/
example : answers (trace (Hit.step ⟨16, 2, 1, false⟩) Hit.init [.call .ok 2, .call .ok 3, .adv 15, .call .ok 2, .call .listed 0]) =
    [.call ⟨.fresh 2 0, true, false⟩, .call ⟨.stored 2 0, true, true⟩, .ok, .call ⟨.stored 5 1, true, true⟩,
     .call ⟨.raised .listed, true, true⟩] := by decide

/-- failover: `(0,0)` stored at 0, a second success at 15 (an equal payload or not: every success is a write that renews the
expiry), a listed failure at 30 — later than ttl after the first success, within ttl of the second — falls back to the
second one; one tick later it is gone.  (The seeded change C14-15 skips the second write when the payloads are equal: the
entry keeps the deadline 16 and the failure at 30 raises.) -/
example : answers (trace (Fail.step ⟨16⟩) Fail.init
      [.call .ok 0, .adv 15, .call .ok 0, .adv 15, .call .listed 0, .adv 1, .call .listed 0]) =
    [.call ⟨.fresh 0 0, true, false⟩, .ok, .call ⟨.fresh 15 1, true, false⟩, .ok, .call ⟨.stored 15 1, true, false⟩, .ok,
     .call ⟨.raised .listed, true, false⟩] := by decide

/-! ### … with overlapping calls (ttl 2 s = 16 ticks, soft_ttl ½ s = 4 ticks) -/

/-- failover: a result is stored at 0; at 14 call A enters the function, then call B (its own execution, ordinal 2); B's
body raises a listed exception at 15 and falls back to `(0,0)` (aged 15); A's body raises at 17: `(0,0)` is gone, A raises.
With the seeded change C14-10 (failover single-flight) B would never execute and be handed A's outcome. -/
example : answers (trace (Overlap.failStep ⟨16⟩) Overlap.init
      [.begin, .fin 0 .ok, .adv 14, .begin, .begin, .adv 1, .fin 1 .listed, .adv 2, .fin 0 .listed]) =
    [.began 0, .answered (.fresh 0 0), .ok, .began 1, .began 2, .ok, .answered (.stored 0 0), .ok,
     .answered (.raised .listed)] := by decide

/-- soft: `(0,0)` stored; at 14 (stale) call A enters the function, at 15 call B too; B returns at 15 and stores `(15,2)`;
A's body raises a listed exception at 17: A is answered with what is in the store NOW, `(15,2)` aged 2 — not with the
`(0,0)` it read when it began, 17 ticks old (the seeded change C14-11 serves that one: the key "exists"). -/
example : answers (trace (Overlap.softStep ⟨16, 4⟩) Overlap.init
      [.begin, .fin 0 .ok, .adv 3, .begin, .adv 11, .begin, .adv 1, .begin, .fin 1 .ok, .adv 2, .fin 0 .listed, .begin]) =
    [.began 0, .answered (.fresh 0 0), .ok, .served (.stored 0 0), .ok, .began 1, .ok, .began 2, .answered (.fresh 15 2), .ok,
     .answered (.stored 15 2), .served (.stored 15 2)] := by decide

end CashewsVerif.Props.C14
