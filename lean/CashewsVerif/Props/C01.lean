import CashewsVerif.Lemmas.MemStep
import CashewsVerif.Lemmas.Sweep
/-
C01 — the in-memory store is a TTL key-value map for every command history.
Property theorems only; helper lemmas live in `Lemmas/`.
-/
namespace CashewsVerif.Props.C01
open CashewsVerif Store

/-- every key a history mentions belongs to the universe `K` -/
def HistWithin (K : List Key) (ops : List Op) : Prop := ∀ op ∈ ops, ∀ k ∈ op.keys, k ∈ K

/-- **Refinement.** For every history over a key universe that fits the capacity (capacity
eviction is C11's business), with arbitrary time advances and purge sweeps anywhere, every
result of the in-memory model equals the result of the ideal TTL map. -/
theorem mem_refines_ttlmap (cap : Nat) (K : List Key) (hK : K.length ≤ cap)
    (ops : List Op) (hops : HistWithin K ops) :
    ((Mem.init cap).run ops).2 = (TtlMap.init.run ops).2 :=
  (Mem.good_run ops (Mem.good_init K cap hK) hops).2

/-- reachable states stay in the refinement (used by the corollaries below) -/
theorem reachable_good (cap : Nat) (K : List Key) (hK : K.length ≤ cap)
    (ops : List Op) (hops : HistWithin K ops) :
    Good K ((Mem.init cap).run ops).1 (TtlMap.init.run ops).1 :=
  (Mem.good_run ops (Mem.good_init K cap hK) hops).1

/-- **Never at or after the deadline** — for *any* store state (reachable or not): a read
returns a value only from an entry whose deadline, if any, is still strictly ahead. -/
theorem never_at_or_after_deadline (s : Mem) (k : Key) (v : Val) (h : (s.rawGet k).2 = some v) :
    ∃ e, lookup s.store k = some e ∧ e.val = v ∧ ∀ d, e.dl = some d → s.now < d := by
  unfold Mem.rawGet at h
  split at h
  · simp at h
  · rename_i e he
    split at h
    · rename_i hl
      refine ⟨e, he, by simpa using h, fun d hd => ?_⟩
      simpa [Entry.live, hd] using hl
    · simp at h

/-- **A successful write is readable immediately** (any conditional flavour, any TTL), in
every reachable state. -/
theorem write_then_read (cap : Nat) (K : List Key) (hK : K.length ≤ cap)
    (ops : List Op) (hops : HistWithin K ops) (k : Key) (hk : k ∈ K) (v : Val)
    (ttl : Option Nat) (c : Cond) :
    let s := ((Mem.init cap).run ops).1
    (s.step (.set k v ttl c)).2 = .bool true →
    ((s.step (.set k v ttl c)).1.step (.get k)).2 = .val (some v) := by
  intro s hset
  have g := reachable_good cap K hK ops hops
  have g1 := Mem.good_step g (.set k v ttl c) (by simp [Op.keys, hk])
  have g2 := Mem.good_step g1.1 (.get k) (by simp [Op.keys, hk])
  rw [g2.2]
  have hset' : ((TtlMap.init.run ops).1.step (.set k v ttl c)).2 = .bool true := by rw [← g1.2]; exact hset
  generalize (TtlMap.init.run ops).1 = t at hset' ⊢
  -- the ideal map: a write is live at the instant it is made
  have hw : ((t.write k v ttl).find k).map (·.val) = some v := by
    have key : ∀ dl : Option Nat, (∀ d, dl = some d → t.now < d) →
        (Option.filter (·.live t.now) (some (⟨v, dl⟩ : Entry))).map (·.val) = some v := by
      intro dl h
      have : (⟨v, dl⟩ : Entry).live t.now = true := by
        unfold Entry.live
        cases dl with
        | none => rfl
        | some d => simpa using h d rfl
      simp [Option.filter, this]
    unfold TtlMap.write
    simp only [TtlMap.find_eq, if_true]
    apply key
    intro d hd
    cases hdo : deadlineOf t.now ttl with
    | some d' =>
      rw [hdo] at hd
      simp only [Option.some.injEq] at hd
      subst hd
      unfold deadlineOf at hdo
      split at hdo <;> simp at hdo
      omega
    | none =>
      rw [hdo] at hd
      simp only at hd
      cases hf : t.m k with
      | none => simp [hf, Option.filter] at hd
      | some e =>
        by_cases hl : e.live t.now
        · simp only [hf, Option.filter, hl, if_true, Option.bind_some] at hd
          simpa [Entry.live, hd] using hl
        · have hl' : e.live t.now = false := by simpa using hl
          simp [hf, Option.filter, hl'] at hd
  cases c with
  | always => simpa [TtlMap.step] using hw
  | nx =>
    simp only [TtlMap.step] at hset' ⊢
    split at hset' <;> simp_all [TtlMap.step]
  | xx =>
    simp only [TtlMap.step] at hset' ⊢
    split at hset' <;> simp_all [TtlMap.step]

/-- **An expired, not yet purged key is exactly an absent key** for conditional writes,
counters, TTL queries, existence tests, reads, re-timing and delete — result *and* successor
state coincide with those of the store from which the entry has been removed. Holds for any
store state. -/
theorem expired_unpurged_eq_absent (s : Mem) (k : Key) (e : Entry)
    (hl : lookup s.store k = some e) (hexp : e.live s.now = false) (op : Op)
    (hop : op = .set k v ttl .nx ∨ op = .set k v ttl .xx ∨ op = .incr k n ttl ∨
           op = .expire k ttl ∨ op = .getExpire k ∨ op = .exists_ k ∨ op = .get k ∨ op = .delete k) :
    (s.step op).2 = (({ s with store := erase s.store k } : Mem).step op).2 ∧
    (op ≠ .getExpire k → (s.step op).1 = (({ s with store := erase s.store k } : Mem).step op).1) := by
  have h1 : s.rawGet k = ({ s with store := erase s.store k }, none) := by
    unfold Mem.rawGet; simp [hl, hexp]
  have h2 : ({ s with store := erase s.store k } : Mem).rawGet k = ({ s with store := erase s.store k }, none) := by
    unfold Mem.rawGet; simp
  have h3 : s.rawDelete k = ({ s with store := erase s.store k }, false) := by
    unfold Mem.rawDelete; simp [hl, hexp]
  have h4 : ({ s with store := erase s.store k } : Mem).rawDelete k = ({ s with store := erase s.store k }, false) := by
    unfold Mem.rawDelete; simp
  have h5 : s.getExpire k = -2 := by
    unfold Mem.getExpire; simp only [hl]
    unfold Entry.live at hexp
    cases hd : e.dl with
    | none => simp [hd] at hexp
    | some d => simp [hd] at hexp ⊢; intro h; omega
  have h6 : ({ s with store := erase s.store k } : Mem).getExpire k = -2 := by
    unfold Mem.getExpire; simp
  rcases hop with h | h | h | h | h | h | h | h <;> subst h <;>
    simp [Mem.step, h1, h2, h3, h4, h5, h6]

/-- **get_many answers position by position**: its i-th answer is what `get` of the i-th key
answers in the same state. -/
theorem get_many_positional (cap : Nat) (K : List Key) (hK : K.length ≤ cap)
    (ops : List Op) (hops : HistWithin K ops) (ks : List Key) (hks : ∀ k ∈ ks, k ∈ K) :
    let s := ((Mem.init cap).run ops).1
    (s.step (.getMany ks)).2 = .vals (ks.map fun k =>
      match (s.step (.get k)).2 with | .val r => r | _ => none) := by
  intro s
  have g := reachable_good cap K hK ops hops
  have g1 := Mem.good_step g (.getMany ks) (by simpa [Op.keys] using hks)
  rw [g1.2]
  simp only [TtlMap.step]
  congr 1
  apply List.map_congr_left
  intro k hk
  have g2 := Mem.good_step g (.get k) (by simp [Op.keys, hks k hk])
  rw [g2.2]
  simp [TtlMap.step]

/-- **Purge sweeps are invisible to the ideal map** (command granularity).  In a history of application
commands and purge ticks - every tick one *atomic* sweep, see Model/Sweep.lean - the commands get exactly
the answers the ideal map gives to the commands alone, with the ticks left out: wherever the ticks fall,
however many there are.  (`mem_refines_ttlmap` says the same with `Op.purge` as a command that the ideal
map ignores; this form removes the sweeps from the specification side altogether.) -/
theorem sweeps_invisible (cap : Nat) (K : List Key) (hK : K.length ≤ cap)
    (h : List Item) (hh : ∀ it ∈ h, ∀ k ∈ it.toOp.keys, k ∈ K) :
    ((Mem.init cap).runItems h).2 = (TtlMap.init.run (Item.cmds h)).2 :=
  (Mem.good_runItems h (Mem.good_init K cap hK) hh).2

/-- **A sweep that looks at each entry when it handles it is invisible even if it is not atomic.**
Key granularity: `recheck k` (= `await self.get(k)` by the purge task) may fall anywhere between the
commands, for any keys of the universe, in any number - complete sweeps, partial ones, sweeps cut in
pieces by commands.  The commands still get the ideal map's answers.  So for C01 the atomicity of the
sweep is *not* needed as long as the sweep re-checks; the hypothesis `isStale = false` is what is
needed: `stale_split_sweep_is_visible` below shows that a sweep acting on an earlier decision is
visible as soon as one command gets between the decision and the act. -/
theorem recheck_sweep_invisible (cap : Nat) (K : List Key) (hK : K.length ≤ cap) (evs : List Ev)
    (hev : ∀ ev ∈ evs, ev.isStale = false ∧ ∀ k ∈ ev.keys, k ∈ K) :
    ((Mem.init cap).runEv evs).2 = (TtlMap.init.run (Ev.cmds evs)).2 :=
  (Mem.good_runEv evs (Mem.good_init K cap hK) hev).2

/-- the events of the seeded change C11-6 / C06-4: keys 0 and 1 are expired when the tick starts; the
sweep decides to remove both, removes 0, suspends; the application writes 1 afresh; the sweep removes 1 -/
def staleSplit : List Ev :=
  [.cmd (.set 0 (.tok 0) (some 8) .always), .cmd (.set 1 (.tok 1) (some 8) .always), .cmd (.adv 8),
   .stale 0, .cmd (.set 1 (.tok 2) (some 80) .always), .stale 1, .cmd (.get 1)]

/-- the same sweep, uninterrupted -/
def staleAtomic : List Ev :=
  [.cmd (.set 0 (.tok 0) (some 8) .always), .cmd (.set 1 (.tok 1) (some 8) .always), .cmd (.adv 8),
   .stale 0, .stale 1, .cmd (.set 1 (.tok 2) (some 80) .always), .cmd (.get 1)]

/-- **Why the hypothesis is there**: a snapshot sweep cut in two by one write loses that write - the read
answers "missing" where the ideal map holds the fresh value; uninterrupted, the same sweep is invisible. -/
theorem stale_split_sweep_is_visible :
    ((Mem.init 4).runEv staleSplit).2 ≠ (TtlMap.init.run (Ev.cmds staleSplit)).2 ∧
    ((Mem.init 4).runEv staleAtomic).2 = (TtlMap.init.run (Ev.cmds staleAtomic)).2 := by decide

/-! ### Non-vacuity: a concrete history meets the hypotheses and exercises the interesting states -/

/-- premises of `sweeps_invisible` / `recheck_sweep_invisible` are satisfiable by histories in which the
sweeps have something to collect: a tick between the deadline of key 0 and its re-write; a re-checking
sweep over keys 0,1 cut in two by that re-write -/
example : (∀ it ∈ [Item.cmd (.set 0 (.tok 0) (some 8) .always), .cmd (.adv 8), .tick,
      .cmd (.set 0 (.tok 1) none .nx), .tick, .cmd (.get 0)], ∀ k ∈ it.toOp.keys, k ∈ [0, 1]) ∧
    ((Mem.init 2).runItems [.cmd (.set 0 (.tok 0) (some 8) .always), .cmd (.adv 8), .tick,
      .cmd (.set 0 (.tok 1) none .nx), .tick, .cmd (.get 0)]).2
      = [.bool true, .unit, .bool true, .val (some (.tok 1))] := by
  refine ⟨by decide, by decide⟩

example : (∀ ev ∈ [Ev.cmd (.set 0 (.tok 0) (some 8) .always), .cmd (.set 1 (.tok 1) (some 8) .always), .cmd (.adv 8),
      .recheck 0, .cmd (.set 1 (.tok 2) (some 80) .always), .recheck 1, .cmd (.get 1)],
      ev.isStale = false ∧ ∀ k ∈ ev.keys, k ∈ [0, 1]) ∧
    ((Mem.init 2).runEv [.cmd (.set 0 (.tok 0) (some 8) .always), .cmd (.set 1 (.tok 1) (some 8) .always), .cmd (.adv 8),
      .recheck 0, .cmd (.set 1 (.tok 2) (some 80) .always), .recheck 1, .cmd (.get 1)]).2
      = [.bool true, .bool true, .unit, .bool true, .val (some (.tok 2))] := by
  refine ⟨by decide, by decide⟩

/-- keys {0,1}, capacity 2: write with TTL, jump past the deadline with no access in between,
then an only-if-absent write, a TTL query, a counter and a TTL-less overwrite all hit the
expired-but-unpurged entry. -/
def sampleHist : List Op :=
  [.set 0 (.tok 1) (some 8) .always, .adv 16, .set 0 (.tok 2) none .nx, .getExpire 0, .get 0,
   .set 1 (.int 0) (some 4) .always, .adv 4, .incr 1 1 (some 8), .getExpire 1, .getMany [0, 1, 0]]

example : HistWithin [0, 1] sampleHist ∧ [0, 1].length ≤ 2 := by
  unfold HistWithin sampleHist; decide

example : ((Mem.init 2).run sampleHist).2 =
    [.bool true, .unit, .bool true, .int (-1), .val (some (.tok 2)), .bool true, .unit, .int 1,
     .int 1, .vals [some (.tok 2), some (.int 1), some (.tok 2)]] := by decide

end CashewsVerif.Props.C01
