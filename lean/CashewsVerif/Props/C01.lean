import CashewsVerif.Lemmas.MemStep
import CashewsVerif.Lemmas.Sweep
import CashewsVerif.Lemmas.TtlFacade
import CashewsVerif.Lemmas.Fine
import CashewsVerif.Lemmas.Routed
import CashewsVerif.Lemmas.MemLaws
/-
C01 — the in-memory store is a TTL key-value map for every command history.
Property theorems only; helper lemmas live in `Lemmas/`.
-/
namespace CashewsVerif.Props.C01
open CashewsVerif Store

/-- every key a history mentions belongs to the universe `K` -/
def HistWithin (K : List Key) (ops : List Op) : Prop := ∀ op ∈ ops, ∀ k ∈ op.keys, k ∈ K

/-- **Refinement.** For every history over a key universe that fits the capacity (capacity
eviction is C11's business), with arbitrary time advances and purge sweeps anywhere, every
result of the in-memory model equals the result of the ideal TTL map. -/
theorem mem_refines_ttlmap (cap : Nat) (K : List Key) (hK : K.length ≤ cap)
    (ops : List Op) (hops : HistWithin K ops) :
    ((Mem.init cap).run ops).2 = (TtlMap.init.run ops).2 :=
  (Mem.good_run ops (Mem.good_init K cap hK) hops).2

/-- reachable states stay in the refinement (used by the corollaries below) -/
theorem reachable_good (cap : Nat) (K : List Key) (hK : K.length ≤ cap)
    (ops : List Op) (hops : HistWithin K ops) :
    Good K ((Mem.init cap).run ops).1 (TtlMap.init.run ops).1 :=
  (Mem.good_run ops (Mem.good_init K cap hK) hops).1

/-- **Never at or after the deadline** — for *any* store state (reachable or not): a read
returns a value only from an entry whose deadline, if any, is still strictly ahead. -/
theorem never_at_or_after_deadline (s : Mem) (k : Key) (v : Val) (h : (s.rawGet k).2 = some v) :
    ∃ e, lookup s.store k = some e ∧ e.val = v ∧ ∀ d, e.dl = some d → s.now < d := by
  unfold Mem.rawGet at h
  split at h
  · simp at h
  · rename_i e he
    split at h
    · rename_i hl
      refine ⟨e, he, by simpa using h, fun d hd => ?_⟩
      simpa [Entry.live, hd] using hl
    · simp at h

/-- **A successful write is readable immediately** (any conditional flavour, any TTL), in
every reachable state. -/
theorem write_then_read (cap : Nat) (K : List Key) (hK : K.length ≤ cap)
    (ops : List Op) (hops : HistWithin K ops) (k : Key) (hk : k ∈ K) (v : Val)
    (ttl : Option Nat) (c : Cond) :
    let s := ((Mem.init cap).run ops).1
    (s.step (.set k v ttl c)).2 = .bool true →
    ((s.step (.set k v ttl c)).1.step (.get k)).2 = .val (some v) := by
  intro s hset
  have g := reachable_good cap K hK ops hops
  have g1 := Mem.good_step g (.set k v ttl c) (by simp [Op.keys, hk])
  have g2 := Mem.good_step g1.1 (.get k) (by simp [Op.keys, hk])
  rw [g2.2]
  have hset' : ((TtlMap.init.run ops).1.step (.set k v ttl c)).2 = .bool true := by rw [← g1.2]; exact hset
  generalize (TtlMap.init.run ops).1 = t at hset' ⊢
  -- the ideal map: a write is live at the instant it is made
  have hw : ((t.write k v ttl).find k).map (·.val) = some v := by
    have key : ∀ dl : Option Nat, (∀ d, dl = some d → t.now < d) →
        (Option.filter (·.live t.now) (some (⟨v, dl⟩ : Entry))).map (·.val) = some v := by
      intro dl h
      have : (⟨v, dl⟩ : Entry).live t.now = true := by
        unfold Entry.live
        cases dl with
        | none => rfl
        | some d => simpa using h d rfl
      simp [Option.filter, this]
    unfold TtlMap.write
    simp only [TtlMap.find_eq, if_true]
    apply key
    intro d hd
    cases hdo : deadlineOf t.now ttl with
    | some d' =>
      rw [hdo] at hd
      simp only [Option.some.injEq] at hd
      subst hd
      unfold deadlineOf at hdo
      split at hdo <;> simp at hdo
      omega
    | none =>
      rw [hdo] at hd
      simp only at hd
      cases hf : t.m k with
      | none => simp [hf, Option.filter] at hd
      | some e =>
        by_cases hl : e.live t.now
        · simp only [hf, Option.filter, hl, if_true, Option.bind_some] at hd
          simpa [Entry.live, hd] using hl
        · have hl' : e.live t.now = false := by simpa using hl
          simp [hf, Option.filter, hl'] at hd
  cases c with
  | always => simpa [TtlMap.step] using hw
  | nx =>
    simp only [TtlMap.step] at hset' ⊢
    split at hset' <;> simp_all [TtlMap.step]
  | xx =>
    simp only [TtlMap.step] at hset' ⊢
    split at hset' <;> simp_all [TtlMap.step]

/-- **An expired, not yet purged key is exactly an absent key** for conditional writes,
counters, TTL queries, existence tests, reads, re-timing and delete — result *and* successor
state coincide with those of the store from which the entry has been removed. Holds for any
store state. -/
theorem expired_unpurged_eq_absent (s : Mem) (k : Key) (e : Entry)
    (hl : lookup s.store k = some e) (hexp : e.live s.now = false) (op : Op)
    (hop : op = .set k v ttl .nx ∨ op = .set k v ttl .xx ∨ op = .incr k n ttl ∨
           op = .expire k ttl ∨ op = .getExpire k ∨ op = .exists_ k ∨ op = .get k ∨ op = .delete k) :
    (s.step op).2 = (({ s with store := erase s.store k } : Mem).step op).2 ∧
    (op ≠ .getExpire k → (s.step op).1 = (({ s with store := erase s.store k } : Mem).step op).1) := by
  have h1 : s.rawGet k = ({ s with store := erase s.store k }, none) := by
    unfold Mem.rawGet; simp [hl, hexp]
  have h2 : ({ s with store := erase s.store k } : Mem).rawGet k = ({ s with store := erase s.store k }, none) := by
    unfold Mem.rawGet; simp
  have h3 : s.rawDelete k = ({ s with store := erase s.store k }, false) := by
    unfold Mem.rawDelete; simp [hl, hexp]
  have h4 : ({ s with store := erase s.store k } : Mem).rawDelete k = ({ s with store := erase s.store k }, false) := by
    unfold Mem.rawDelete; simp
  have h5 : s.getExpire k = -2 := by
    unfold Mem.getExpire; simp only [hl]
    unfold Entry.live at hexp
    cases hd : e.dl with
    | none => simp [hd] at hexp
    | some d => simp [hd] at hexp ⊢; intro h; omega
  have h6 : ({ s with store := erase s.store k } : Mem).getExpire k = -2 := by
    unfold Mem.getExpire; simp
  rcases hop with h | h | h | h | h | h | h | h <;> subst h <;>
    simp [Mem.step, h1, h2, h3, h4, h5, h6]

/-- **get_many answers position by position**: its i-th answer is what `get` of the i-th key
answers in the same state. -/
theorem get_many_positional (cap : Nat) (K : List Key) (hK : K.length ≤ cap)
    (ops : List Op) (hops : HistWithin K ops) (ks : List Key) (hks : ∀ k ∈ ks, k ∈ K) :
    let s := ((Mem.init cap).run ops).1
    (s.step (.getMany ks)).2 = .vals (ks.map fun k =>
      match (s.step (.get k)).2 with | .val r => r | _ => none) := by
  intro s
  have g := reachable_good cap K hK ops hops
  have g1 := Mem.good_step g (.getMany ks) (by simpa [Op.keys] using hks)
  rw [g1.2]
  simp only [TtlMap.step]
  congr 1
  apply List.map_congr_left
  intro k hk
  have g2 := Mem.good_step g (.get k) (by simp [Op.keys, hks k hk])
  rw [g2.2]
  simp [TtlMap.step]

/-- **Purge sweeps are invisible to the ideal map** (command granularity).  In a history of application
commands and purge ticks - every tick one *atomic* sweep, see Model/Sweep.lean - the commands get exactly
the answers the ideal map gives to the commands alone, with the ticks left out: wherever the ticks fall,
however many there are.  (`mem_refines_ttlmap` says the same with `Op.purge` as a command that the ideal
map ignores; this form removes the sweeps from the specification side altogether.) -/
theorem sweeps_invisible (cap : Nat) (K : List Key) (hK : K.length ≤ cap)
    (h : List Item) (hh : ∀ it ∈ h, ∀ k ∈ it.toOp.keys, k ∈ K) :
    ((Mem.init cap).runItems h).2 = (TtlMap.init.run (Item.cmds h)).2 :=
  (Mem.good_runItems h (Mem.good_init K cap hK) hh).2

/-- **A sweep that looks at each entry when it handles it is invisible even if it is not atomic.**
Key granularity: `recheck k` (= `await self.get(k)` by the purge task) may fall anywhere between the
commands, for any keys of the universe, in any number - complete sweeps, partial ones, sweeps cut in
pieces by commands.  The commands still get the ideal map's answers.  So for C01 the atomicity of the
sweep is *not* needed as long as the sweep re-checks; the hypothesis `isStale = false` is what is
needed: `stale_split_sweep_is_visible` below shows that a sweep acting on an earlier decision is
visible as soon as one command gets between the decision and the act. -/
theorem recheck_sweep_invisible (cap : Nat) (K : List Key) (hK : K.length ≤ cap) (evs : List Ev)
    (hev : ∀ ev ∈ evs, ev.isStale = false ∧ ∀ k ∈ ev.keys, k ∈ K) :
    ((Mem.init cap).runEv evs).2 = (TtlMap.init.run (Ev.cmds evs)).2 :=
  (Mem.good_runEv evs (Mem.good_init K cap hK) hev).2

/-- the events of the seeded change C11-6 / C06-4: keys 0 and 1 are expired when the tick starts; the
sweep decides to remove both, removes 0, suspends; the application writes 1 afresh; the sweep removes 1 -/
def staleSplit : List Ev :=
  [.cmd (.set 0 (.tok 0) (some 8) .always), .cmd (.set 1 (.tok 1) (some 8) .always), .cmd (.adv 8),
   .stale 0, .cmd (.set 1 (.tok 2) (some 80) .always), .stale 1, .cmd (.get 1)]

/-- the same sweep, uninterrupted -/
def staleAtomic : List Ev :=
  [.cmd (.set 0 (.tok 0) (some 8) .always), .cmd (.set 1 (.tok 1) (some 8) .always), .cmd (.adv 8),
   .stale 0, .stale 1, .cmd (.set 1 (.tok 2) (some 80) .always), .cmd (.get 1)]

/-- **Why the hypothesis is there**: a snapshot sweep cut in two by one write loses that write - the read
answers "missing" where the ideal map holds the fresh value; uninterrupted, the same sweep is invisible. -/
theorem stale_split_sweep_is_visible :
    ((Mem.init 4).runEv staleSplit).2 ≠ (TtlMap.init.run (Ev.cmds staleSplit)).2 ∧
    ((Mem.init 4).runEv staleAtomic).2 = (TtlMap.init.run (Ev.cmds staleAtomic)).2 := by decide


/-! ### TTL spellings: from what the application writes to the ticks the model works with

`Cache.set / set_many / expire` hand their `expire=` / `timeout=` through `cashews.ttl.ttl_to_seconds` before the
backend sees a number.  `Model/TtlFacade.lean`: `FOp` = a command with its TTL as *spelled* (`Ttl.Plain`: int, float,
timedelta, duration string), `FOp.lower` = the facade's conversion (C02's model of `ttl_to_seconds`), `Ttl.Denotes` =
what a spelling means, written without the parser (`Spec/Ttl.lean`).  The parser facts are C02's (Lemmas/Ttl.lean
`ttlFromStr_render`, `ttlFromStr_digits`, i.e. Props/C02 `ttl_segments` / `ttl_forms_agree`). -/

/-- **One command.**  However a duration of `t` ticks is spelled (`Denotes p t`), `set`, `set_many` and `expire`
through the facade are the backend's `set` / `set_many` / `expire` with `t` ticks; a TTL that is not given stays not
given. -/
theorem facade_spelling_is_ticks (p : Ttl.Plain) (t : Nat) (h : Ttl.Denotes p t) (k : Key) (v : Val) (c : Cond)
    (kvs : List (Key × Val)) :
    (FOp.set k v (some p) c).lower = some (.set k v (some t) c) ∧
    (FOp.setMany kvs (some p)).lower = some (.setMany kvs (some t)) ∧
    (FOp.expire k p).lower = some (.expire k (some t)) ∧
    (FOp.set k v none c).lower = some (.set k v none c) ∧
    (FOp.setMany kvs none).lower = some (.setMany kvs none) :=
  ⟨(Spells.set k v c (.given h)).lower_eq, (Spells.setMany kvs (.given h)).lower_eq, (Spells.expire k h).lower_eq,
   (Spells.set k v c .absent).lower_eq, (Spells.setMany kvs .absent).lower_eq⟩

/-- **All spellings of `d` days `h` hours `m` minutes `s` seconds denote the same `8·(86400 d + 3600 h + 60 m + s)`
ticks**: the int, the float, `timedelta(days=d, seconds=3600 h + 60 m + s)` (its `days` field counts), the strings
`"{d}d{h}h{m}m{s}s"`, `"{N}s"` and `"{N}"` with `N` the total number of seconds, and any other cut of the same
duration into `<number><unit>` segments. -/
theorem spellings_of_a_duration (d h m s : Nat) (segs : List (Nat × Ttl.U))
    (hsegs : Ttl.total segs = 86400 * d + 3600 * h + 60 * m + s) :
    let N := 86400 * d + 3600 * h + 60 * m + s
    Ttl.Denotes (.int N) (8 * N) ∧ Ttl.Denotes (.float (8 * N)) (8 * N) ∧
    Ttl.Denotes (.delta (Ttl.TDelta.ticks ⟨d, 3600 * h + 60 * m + s, 0⟩)) (8 * N) ∧
    Ttl.Denotes (.str (Ttl.render [(d, .d), (h, .h), (m, .m), (s, .s)])) (8 * N) ∧
    Ttl.Denotes (.str (Ttl.render [(N, .s)])) (8 * N) ∧
    Ttl.Denotes (.str (Ttl.digits N)) (8 * N) ∧
    Ttl.Denotes (.str (Ttl.render segs)) (8 * N) := by
  intro N
  have e1 : Ttl.TDelta.ticks ⟨d, 3600 * h + 60 * m + s, 0⟩ = 8 * N := by simp only [Ttl.TDelta.ticks]; omega
  have e2 : Ttl.total [(d, .d), (h, .h), (m, .m), (s, .s)] = N := by simp only [Ttl.total, Ttl.U.secs]; omega
  have e3 : Ttl.total [(N, .s)] = N := by simp [Ttl.total, Ttl.U.secs]
  refine ⟨.int N, .float _, ?_, ?_, ?_, .digits N, ?_⟩
  · have := Ttl.Denotes.delta ⟨d, 3600 * h + 60 * m + s, 0⟩
    rw [e1] at this ⊢
    exact this
  · have := Ttl.Denotes.segments [(d, .d), (h, .h), (m, .m), (s, .s)]
    rwa [e2] at this
  · have := Ttl.Denotes.segments [(N, .s)]
    rwa [e3] at this
  · have := Ttl.Denotes.segments segs
    rwa [hsegs] at this

/-- **Refinement through the facade.**  A history written with spelled TTLs (`fops`), each of which denotes the
ticks of the corresponding command of `ops` (`SpellsAll`), is never refused by the conversion, and every result it
gets from the in-memory backend is the result the ideal TTL map gives to `ops` - `mem_refines_ttlmap` composed with
the spelling theorem.  In particular a key written with `timedelta(days=1, seconds=90)` is held for 691920 ticks,
neither for 720 nor for ever. -/
theorem facade_spellings_refine (cap : Nat) (K : List Key) (hK : K.length ≤ cap)
    (fops : List FOp) (ops : List Op) (hsp : SpellsAll fops ops) (hops : HistWithin K ops) :
    facadeRun cap fops = some (TtlMap.init.run ops).2 := by
  unfold facadeRun
  rw [hsp.mapM_lower]
  simp [mem_refines_ttlmap cap K hK ops hops]

/-- the model evaluates on spelled histories: `timedelta(days=1, seconds=90)` is readable one tick before 691920
ticks have passed and gone exactly then; `"2d"` with only-if-absent; re-timing with `" 1D1M30S "`; `set_many` with
the int 86400 expiring exactly one day later -/
example : facadeRun 2 [.set 0 (.tok 1) (some (.delta (Ttl.TDelta.ticks ⟨1, 90, 0⟩))) .always, .other (.getExpire 0),
      .other (.adv 691919), .other (.get 0), .other (.adv 1), .other (.get 0),
      .set 1 (.int 5) (some (.str "2d".toList)) .nx, .other (.adv 1382399), .expire 1 (.str " 1D1M30S ".toList),
      .other (.getExpire 1), .setMany [(0, .int 1)] (some (.int 86400)), .other (.adv 691200), .other (.getMany [0, 1])] =
    some [.bool true, .int 86490, .unit, .val (some (.tok 1)), .unit, .val none, .bool true, .unit, .unit, .int 86490,
      .unit, .unit, .vals [none, some (.int 5)]] := by decide

/-- a spelling the parser refuses is refused before the backend is reached -/
example : facadeRun 2 [.set 0 (.tok 1) (some (.str "1w".toList)) .always] = none := by decide

/-- the hypotheses of `facade_spellings_refine` are satisfiable by a history with a days-carrying timedelta and a
composite string -/
example : SpellsAll [.set 0 (.tok 1) (some (.delta (Ttl.TDelta.ticks ⟨1, 90, 0⟩))) .always, .other (.adv 691920),
      .expire 0 (.str (Ttl.render [(1, .d), (30, .s)])), .other (.get 0)]
    [.set 0 (.tok 1) (some 691920) .always, .adv 691920, .expire 0 (some (8 * 86430)), .get 0] ∧
    HistWithin [0] [.set 0 (.tok 1) (some 691920) .always, .adv 691920, .expire 0 (some (8 * 86430)), .get 0] := by
  refine ⟨.cons (.set 0 _ _ (.given (.delta ⟨1, 90, 0⟩))) (.cons (.other _) (.cons (.expire 0 (.segments [(1, .d), (30, .s)]))
    (.cons (.other _) .nil))), ?_⟩
  unfold HistWithin; decide

/-! ### Clock resolution and value kinds

Every theorem above is about ticks, whatever a tick is worth: nothing in `Mem` or `TtlMap` looks at the size of a
tick except the TTL query, which answers whole seconds.  The two theorems below remove that exception and say that
no kind of value is treated specially by the multi-key read. -/

/-- **The TTL query at any clock resolution.**  In every reachable state, for a clock of `R` ticks per second
(`R = 8`: the ordinary histories; `R = 2^20`: the histories with TTLs that are not a whole number of milliseconds),
`get_expire` of the in-memory model - `round((deadline - now) / R)`, half to even, `-2` for an absent or expired
key, `-1` without a deadline - equals the ideal map's; and for `R = 8` it is the `getExpire` of `mem_refines_ttlmap`.
Together with `mem_refines_ttlmap` (all other results do not depend on `R`): a deadline is `written_at + ttl` to the
tick - not to the millisecond -, at every resolution. -/
theorem ttl_query_at_any_resolution (cap : Nat) (K : List Key) (hK : K.length ≤ cap)
    (ops : List Op) (hops : HistWithin K ops) (R : Nat) (k : Key) :
    ((Mem.init cap).run ops).1.getExpireR R k = (TtlMap.init.run ops).1.getExpireR R k ∧
    ((Mem.init cap).run ops).1.getExpireR 8 k = ((Mem.init cap).run ops).1.getExpire k ∧
    (TtlMap.init.run ops).1.getExpireR 8 k = (TtlMap.init.run ops).1.getExpire k :=
  ⟨Mem.good_getExpireR (reachable_good cap K hK ops hops) R k, Mem.getExpireR_eight _ k, TtlMap.getExpireR_eight _ k⟩

/-- **A key lives to the very tick of its deadline, however short the TTL.**  In every reachable state, after
`set k v` with a TTL of `ttl + 1` ticks, a read made `dt ≤ ttl` ticks later (nothing else in between) returns `v` -
also for a TTL of one tick, also one tick before the deadline - and a read made exactly `ttl + 1` ticks later
returns nothing. -/
theorem alive_until_the_last_tick (cap : Nat) (K : List Key) (hK : K.length ≤ cap)
    (ops : List Op) (hops : HistWithin K ops) (k : Key) (hk : k ∈ K) (v : Val) (ttl dt : Nat) (hdt : dt ≤ ttl) :
    let s1 := (((Mem.init cap).run ops).1.step (.set k v (some (ttl + 1)) .always)).1
    ((s1.step (.adv dt)).1.step (.get k)).2 = .val (some v) ∧
    ((s1.step (.adv (ttl + 1))).1.step (.get k)).2 = .val none := by
  intro s1
  have g := reachable_good cap K hK ops hops
  have g1 := Mem.good_step g (.set k v (some (ttl + 1)) .always) (by simp [Op.keys, hk])
  have key : ∀ d, ((s1.step (.adv d)).1.step (.get k)).2 = .val (if d ≤ ttl then some v else none) := by
    intro d
    have g2 := Mem.good_step g1.1 (.adv d) (by simp [Op.keys])
    have g3 := Mem.good_step g2.1 (.get k) (by simp [Op.keys, hk])
    rw [g3.2]
    generalize (TtlMap.init.run ops).1 = t
    simp only [TtlMap.step, TtlMap.write, TtlMap.find_eq, if_true, deadlineOf, Option.filter, Entry.live]
    by_cases h : d ≤ ttl
    · have : t.now + d < t.now + (ttl + 1) := by omega
      simp [h, this]
    · have : ¬ t.now + d < t.now + (ttl + 1) := by omega
      simp [h, this]
  exact ⟨by rw [key dt]; simp [hdt], by rw [key (ttl + 1)]; simp⟩

/-- **No kind of value is hidden by the multi-key read.**  In every reachable state, after a successful write of
*any* value `v` - an int, an opaque payload, `None`, a set (`.keys`), a list (`.nums`) - `get_many` over any
repetition of the key answers `v` at every position. -/
theorem get_many_returns_any_value (cap : Nat) (K : List Key) (hK : K.length ≤ cap)
    (ops : List Op) (hops : HistWithin K ops) (k : Key) (hk : k ∈ K) (v : Val) (ttl : Option Nat) (c : Cond) (n : Nat) :
    let s := ((Mem.init cap).run ops).1
    (s.step (.set k v ttl c)).2 = .bool true →
    ((s.step (.set k v ttl c)).1.step (.getMany (List.replicate n k))).2 = .vals (List.replicate n (some v)) := by
  intro s hset
  have hw : HistWithin K (ops ++ [.set k v ttl c]) := by
    intro op hop k' hk'
    rcases List.mem_append.mp hop with h | h
    · exact hops op h k' hk'
    · simp only [List.mem_singleton] at h; subst h; simp [Op.keys] at hk'; subst hk'; exact hk
  have hrun : ((Mem.init cap).run (ops ++ [.set k v ttl c])).1 = (s.step (.set k v ttl c)).1 := by
    rw [Mem.run_append_state]; rfl
  have hpos := get_many_positional cap K hK (ops ++ [.set k v ttl c]) hw (List.replicate n k)
    (by intro k' hk'; rw [List.eq_of_mem_replicate hk']; exact hk)
  have hget := write_then_read cap K hK ops hops k hk v ttl c hset
  simp only [hrun] at hpos
  rw [hpos, List.map_replicate, hget]

/-- ticks of 2^-20 s: a TTL of 1500 ticks (1.43 ms - not a whole number of milliseconds) is readable 1499 ticks
later and gone at 1500; a TTL of one tick is readable at once; the TTL query of a key with 2^20 + 2^19 ticks
(1.5 s) left answers 2 (half to even), with 2^19 ticks left it answers 0; a Python set (`.keys`) comes back from
`get_many` at every position -/
example : ((Mem.init 4).run [.set 0 (.tok 1) (some 1500) .always, .adv 1499, .get 0, .adv 1, .get 0,
      .set 1 (.tok 2) (some 1) .nx, .get 1, .set 2 (.keys [1, 2]) none .always, .getMany [2, 0, 2]]).2 =
    [.bool true, .unit, .val (some (.tok 1)), .unit, .val none, .bool true, .val (some (.tok 2)), .bool true,
     .vals [some (.keys [1, 2]), none, some (.keys [1, 2])]] ∧
    ((Mem.init 4).run [.set 0 (.tok 1) (some (2 ^ 20 + 2 ^ 19)) .always]).1.getExpireR (2 ^ 20) 0 = 2 ∧
    ((Mem.init 4).run [.set 0 (.tok 1) (some (2 ^ 20 + 2 ^ 19)) .always, .adv (2 ^ 20)]).1.getExpireR (2 ^ 20) 0 = 0 := by
  decide

/-- **get_many through a facade with two backends answers position by position.**  `Model/Routed.lean`:
the facade groups the requested keys per backend (`r k` = key `k` is routed to the second one), asks each backend
once for its group and reads the gathered answers out in the order of the request.  For two backends in *any*
reachable states (each with its own history) and any request - keys of the two backends mixed in any order, repeated
keys - the i-th answer is what a single-key `get` of the i-th key on the backend that owns it answers: the grouping is
invisible.  (`get_many_positional` for each backend composed with `facadeGetMany_positional`.) -/
theorem two_backends_get_many_positional (capa capb : Nat) (Ka Kb : List Key) (hKa : Ka.length ≤ capa) (hKb : Kb.length ≤ capb)
    (opsa opsb : List Op) (hopsa : HistWithin Ka opsa) (hopsb : HistWithin Kb opsb) (r : Key → Bool) (ks : List Key)
    (hks : ∀ k ∈ ks, if r k then k ∈ Kb else k ∈ Ka) :
    let sa := ((Mem.init capa).run opsa).1
    let sb := ((Mem.init capb).run opsb).1
    facadeGetMany r sa.answers sb.answers ks = ks.map fun k => if r k then sb.answer1 k else sa.answer1 k := by
  intro sa sb
  apply facadeGetMany_positional
  · have h := get_many_positional capa Ka hKa opsa hopsa (ks.filter fun k => !r k) (by
      intro k hk
      obtain ⟨h1, h2⟩ := List.mem_filter.mp hk
      have := hks k h1
      simpa [show r k = false by simpa using h2] using this)
    simp only [Mem.answers, sa]
    rw [h]
    rfl
  · have h := get_many_positional capb Kb hKb opsb hopsb (ks.filter r) (by
      intro k hk
      obtain ⟨h1, h2⟩ := List.mem_filter.mp hk
      have := hks k h1
      simpa [h2] using this)
    simp only [Mem.answers, sb]
    rw [h]
    rfl

/-- two backends (even keys / odd keys), a request that interleaves them and repeats a key: the answers come back in
the order of the request -/
example : let sa := ((Mem.init 4).run [.set 0 (.tok 0) none .always, .set 2 (.tok 2) (some 8) .always, .adv 8]).1
    let sb := ((Mem.init 4).run [.set 1 (.tok 1) none .always, .set 3 (.keys [1]) none .always]).1
    facadeGetMany (fun k => k % 2 = 1) sa.answers sb.answers [1, 0, 3, 2, 1] =
      [some (.tok 1), some (.tok 0), some (.keys [1]), none, some (.tok 1)] := by decide

/-! ### Non-vacuity: a concrete history meets the hypotheses and exercises the interesting states -/

/-- premises of `sweeps_invisible` / `recheck_sweep_invisible` are satisfiable by histories in which the
sweeps have something to collect: a tick between the deadline of key 0 and its re-write; a re-checking
sweep over keys 0,1 cut in two by that re-write -/
example : (∀ it ∈ [Item.cmd (.set 0 (.tok 0) (some 8) .always), .cmd (.adv 8), .tick,
      .cmd (.set 0 (.tok 1) none .nx), .tick, .cmd (.get 0)], ∀ k ∈ it.toOp.keys, k ∈ [0, 1]) ∧
    ((Mem.init 2).runItems [.cmd (.set 0 (.tok 0) (some 8) .always), .cmd (.adv 8), .tick,
      .cmd (.set 0 (.tok 1) none .nx), .tick, .cmd (.get 0)]).2
      = [.bool true, .unit, .bool true, .val (some (.tok 1))] := by
  refine ⟨by decide, by decide⟩

example : (∀ ev ∈ [Ev.cmd (.set 0 (.tok 0) (some 8) .always), .cmd (.set 1 (.tok 1) (some 8) .always), .cmd (.adv 8),
      .recheck 0, .cmd (.set 1 (.tok 2) (some 80) .always), .recheck 1, .cmd (.get 1)],
      ev.isStale = false ∧ ∀ k ∈ ev.keys, k ∈ [0, 1]) ∧
    ((Mem.init 2).runEv [.cmd (.set 0 (.tok 0) (some 8) .always), .cmd (.set 1 (.tok 1) (some 8) .always), .cmd (.adv 8),
      .recheck 0, .cmd (.set 1 (.tok 2) (some 80) .always), .recheck 1, .cmd (.get 1)]).2
      = [.bool true, .bool true, .unit, .bool true, .val (some (.tok 2))] := by
  refine ⟨by decide, by decide⟩

/-- keys {0,1}, capacity 2: write with TTL, jump past the deadline with no access in between,
then an only-if-absent write, a TTL query, a counter and a TTL-less overwrite all hit the
expired-but-unpurged entry. -/
def sampleHist : List Op :=
  [.set 0 (.tok 1) (some 8) .always, .adv 16, .set 0 (.tok 2) none .nx, .getExpire 0, .get 0,
   .set 1 (.int 0) (some 4) .always, .adv 4, .incr 1 1 (some 8), .getExpire 1, .getMany [0, 1, 0]]

example : HistWithin [0, 1] sampleHist ∧ [0, 1].length ≤ 2 := by
  unfold HistWithin sampleHist; decide

example : ((Mem.init 2).run sampleHist).2 =
    [.bool true, .unit, .bool true, .int (-1), .val (some (.tok 2)), .bool true, .unit, .int 1,
     .int 1, .vals [some (.tok 2), some (.int 1), some (.tok 2)]] := by decide

/-! ### Laws of single commands that hold in every state (no reachability, no capacity hypothesis) -/
section AnyState
open CashewsVerif.MemLaws

/-- **Deleted means absent** — any state (reachable or not, purge on or off, expired or live
entry): after `delete k` a read of `k` returns the default and the key reports no ttl. -/
theorem delete_then_absent (s : Mem) (k : Key) :
    ((s.step (.delete k)).1.step (.get k)).2 = .val none ∧
    ((s.step (.delete k)).1.step (.getExpire k)).2 = .int (-2) := by
  have h := rawDelete_lookup s k
  simp only [Mem.step]
  exact ⟨by rw [rawGet_of_lookup_none h], by rw [getExpire_of_lookup_none h]⟩

/-- **`delete` answers what a read would have seen**: it returns `True` exactly when a read
of the key at the same instant would have returned a value. -/
theorem delete_reports_readability (s : Mem) (k : Key) :
    (s.step (.delete k)).2 = .bool (s.rawGet k).2.isSome := by
  simp only [Mem.step]
  unfold Mem.rawDelete Mem.rawGet
  split
  · rfl
  · split <;> simp [*]

/-- **Cleared means absent**, for every key. -/
theorem clear_then_absent (s : Mem) (k : Key) :
    ((s.step .clear).1.step (.get k)).2 = .val none ∧
    ((s.step .clear).1.step (.getExpire k)).2 = .int (-2) := by
  simp [Mem.step, Mem.rawGet, Mem.getExpire]

/-- **Reads are repeatable**: a second read at the same instant returns what the first did
(the lazy expiry and the `move_to_end` of the first read are invisible to the second). -/
theorem get_repeatable (s : Mem) (k : Key) :
    ((s.step (.get k)).1.step (.get k)).2 = (s.step (.get k)).2 := by
  simp only [Mem.step]
  rcases rawGet_lookup s k with ⟨e, _, hl, hv, hs⟩ | ⟨hv, hs⟩
  · rw [hv]
    rw [rawGet_of_lookup_live hs (by rw [rawGet_now]; exact hl)]
  · rw [hv, rawGet_of_lookup_none hs]

/-- **Absent stays absent while only time passes**: once a read returned the default, no
advance of the clock brings the key back. -/
theorem absent_stays_absent (s : Mem) (k : Key) (dt : Nat)
    (h : (s.step (.get k)).2 = .val none) :
    (((s.step (.get k)).1.step (.adv dt)).1.step (.get k)).2 = .val none := by
  simp only [Mem.step] at h ⊢
  rcases rawGet_lookup s k with ⟨e, _, _, hv, _⟩ | ⟨_, hs⟩
  · rw [hv] at h; simp at h
  · rw [rawGet_of_lookup_none (by simpa using hs)]

/-- **`exists` and `get` agree** at every instant in every state. -/
theorem exists_iff_get (s : Mem) (k : Key) :
    (s.step (.exists_ k)).2 = .bool true ↔ ∃ v, (s.step (.get k)).2 = .val (some v) := by
  simp only [Mem.step]
  cases h : (s.rawGet k).2 <;> simp

example : ((Mem.init 2).run [.set 0 (.tok 1) (some 8) .always, .adv 8, .delete 0, .get 0, .getExpire 0]).2
    = [.bool true, .unit, .bool false, .val none, .int (-2)] := by decide

/-- **An unconditional write is readable immediately, in every state** — full or not (the
capacity trim never takes the key just written when `size ≥ 1`), whatever entry, live or
expired, the key held before, whatever TTL. -/
theorem set_then_get_any_state (s : Mem) (hc : 0 < s.cap) (k : Key) (v : Val) (ttl : Option Nat) :
    ((s.step (.set k v ttl .always)).1.step (.get k)).2 = .val (some v) := by
  simp only [Mem.step]
  rw [rawSet_then_get s hc]

/-- the capacity hypothesis is needed: a store of size 0 drops the write at once (mirrored) -/
example : ((Mem.init 0).run [.set 0 (.tok 1) none .always, .get 0]).2 = [.bool true, .val none] := by decide


/-- **A counter reads back what `incr` returned**, in every state with `size ≥ 1`. -/
theorem incr_then_get_any_state (s : Mem) (hc : 0 < s.cap) (k : Key) (b : Int) (ttl : Option Nat) (n : Int)
    (h : (s.step (.incr k b ttl)).2 = .int n) :
    ((s.step (.incr k b ttl)).1.step (.get k)).2 = .val (some (.int n)) := by
  rcases incr_shape s k b ttl with he | ⟨c, _, hs⟩
  · rw [he] at h; cases h
  · rw [hs] at h ⊢
    simp only at h
    injection h with h; subst h
    simp only [Mem.step]
    rw [rawSet_then_get _ (by rw [rawGet_cap]; exact hc)]

/-- **Increments accumulate — none is lost between two consecutive calls**, in every state
with `size ≥ 1`, whatever the TTL arguments: the second `incr` returns the first result plus
its own amount. -/
theorem incr_accumulates_any_state (s : Mem) (hc : 0 < s.cap) (k : Key) (a b : Int) (t1 t2 : Option Nat) (n : Int)
    (h : (s.step (.incr k a t1)).2 = .int n) :
    ((s.step (.incr k a t1)).1.step (.incr k b t2)).2 = .int (n + b) := by
  have hg := incr_then_get_any_state s hc k a t1 n h
  generalize (s.step (.incr k a t1)).1 = s1 at hg
  simp only [Mem.step] at hg ⊢
  injection hg with hg
  simp [hg, Val.toInt?]

example : ((Mem.init 1).run [.set 0 (.tok 7) none .always, .incr 1 5 (some 8), .incr 1 (-4) (some 8), .adv 8, .get 1, .incr 0 1 none]).2
    = [.bool true, .int 5, .int 1, .unit, .val none, .int 1] := by decide


/-- **Only-if-absent succeeds exactly when a read would miss**, in every state (an
expired-unpurged entry counts as absent). -/
theorem set_nx_answers_absence (s : Mem) (k : Key) (v : Val) (ttl : Option Nat) :
    (s.step (.set k v ttl .nx)).2 = .bool (!(s.rawGet k).2.isSome) := by
  simp only [Mem.step]
  cases h : (s.rawGet k).2 <;> simp

/-- **Only-if-present succeeds exactly when a read would hit**, in every state. -/
theorem set_xx_answers_presence (s : Mem) (k : Key) (v : Val) (ttl : Option Nat) :
    (s.step (.set k v ttl .xx)).2 = .bool (s.rawGet k).2.isSome := by
  simp only [Mem.step]
  cases h : (s.rawGet k).2 <;> simp

/-- **A refused conditional write changes nothing a reader can see**: the key reads as before. -/
theorem refused_set_keeps_value (s : Mem) (k : Key) (v : Val) (ttl : Option Nat) (c : Cond)
    (h : (s.step (.set k v ttl c)).2 = .bool false) :
    ((s.step (.set k v ttl c)).1.step (.get k)).2 = (s.step (.get k)).2 := by
  cases c with
  | always => simp [Mem.step] at h
  | nx =>
    simp only [Mem.step] at h ⊢
    cases hr : (s.rawGet k).2 with
    | none => simp [hr] at h
    | some w =>
      simp only [Option.isSome_some, if_true]
      have := get_repeatable s k
      simp only [Mem.step] at this
      rw [hr] at this; injection this with this; rw [this]
  | xx =>
    simp only [Mem.step] at h ⊢
    cases hr : (s.rawGet k).2 with
    | some w => simp [hr] at h
    | none =>
      simp only [Option.isSome_none]
      have := get_repeatable s k
      simp only [Mem.step] at this
      rw [hr] at this; injection this with this; simp [this]

end AnyState

end CashewsVerif.Props.C01
