import CashewsVerif.Lemmas.TagsTrace
import CashewsVerif.Lemmas.TagTemplates
/-
C12 — `delete_tags` removes every live key carrying the tag, whatever the write order.
Property theorems only; helper lemmas live in `Lemmas/Tags*.lean`, the model in `Model/Tags.lean`.

Reading guide.  `exec cfg init ops` is the state after an arbitrary history `ops` of tagged / untagged
`set` (plain, nx, xx), `incr`, decorated calls, `get`, `exists`, `delete`, `delete_many`,
`delete_match`, `delete_tags`, time advances and purge sweeps, started on the empty store.
`trace cfg init ops` pairs every command with its result; `latestTags k trace` is the tag list of
the latest command in the trace that wrote `k` ("the latest write of `k` carried ...").
`readable s k` is what `get k` returns in state `s`.  The model has no capacity: the property's
hypothesis "store within capacity" is built in (C01 / C11 cover the store itself).
-/
namespace CashewsVerif.Props.C12
open CashewsVerif CashewsVerif.Tags

/-- documented usage: every tag given to a write is one the registry derives from the written key
(`cache.register_tag(tag, key_template)` before use; `@cache(..., tags=...)` registers by itself) -/
def Registered (cfg : Cfg) (ops : List TOp) : Prop := ∀ op ∈ ops, op.registered cfg = true

instance (cfg : Cfg) (ops : List TOp) : Decidable (Registered cfg ops) := by unfold Registered; infer_instance

/-- **The invariant behind C12.**  After any history: a live key whose latest write carried tag `t` is
a member of the tag set `_tag:t`, and that set does not expire before the key (it has no deadline, or
both have one and the key's is not later).  This is what the max-deadline rule of `set_add`
(9a3ae50) and the TTL rule of the tagged `incr` (8a2895c) are needed for. -/
theorem tag_invariant (cfg : Cfg) (ops : List TOp) (k t : Nat) (e : Entry)
    (ht : t ∈ latestTags k (trace cfg init ops))
    (he : (exec cfg init ops).kv k = some e) (hl : e.live (exec cfg init ops).now = true) :
    ∃ se, (exec cfg init ops).ts t = some se ∧ k ∈ members se ∧ se.live (exec cfg init ops).now = true ∧
      (se.dl = none ∨ ∃ d d', e.dl = some d ∧ se.dl = some d' ∧ d ≤ d') := by
  have hinv := cinv_exec cfg ops cinv_init
  rw [← last_eq_latestTags] at ht
  obtain ⟨se, h1, h2, h3⟩ := hinv k t ht e he hl
  exact ⟨se, h1, h2, live_of_covers hl h3, h3⟩

/-- **Completeness.**  For every history `ops`, every `delete_tags(*tl)` issued after it and every key
`k` whose latest write carried one of the tags: `k` is unreadable afterwards (`get` answers the
default, `exists` answers False) — immediately and after any further commands `post` that do not
write `k` (probes of other keys, writes of other keys, time, more deletions).  No assumption on write
order, TTLs (long, short, none, 0), registration or the number of members (`batch` is the `count` of
`set_pop`, any positive value; the code uses 100). -/
theorem delete_tags_complete (cfg : Cfg) (hb : 0 < cfg.batch) (ops : List TOp) (tl : List Nat) (t k : Nat)
    (hmem : t ∈ tl) (ht : t ∈ latestTags k (trace cfg init ops))
    (post : List TOp) (hpost : ∀ op ∈ post, op.writes k = false) :
    let s' := exec cfg init (ops ++ .deleteTags tl :: post)
    readable s' k = none ∧ (step cfg s' (.get k)).2 = .val none ∧ (step cfg s' (.exists_ k)).2 = .bool false := by
  intro s'
  have hinv := cinv_exec cfg ops cinv_init
  rw [← last_eq_latestTags] at ht
  have h1 : readable ((exec cfg init ops).deleteTags cfg tl) k = none := deleteTags_kills cfg hb tl hinv ht hmem
  have h2 : readable s' k = none := by
    show readable (exec cfg init (ops ++ .deleteTags tl :: post)) k = none
    rw [exec_append, exec_cons]
    exact readable_none_ks (ks_exec cfg post _ k hpost) h1
  exact ⟨h2, by rw [get_out, h2], by rw [exists_out, h2]; rfl⟩

/-- **Precision, general form.**  Under documented usage, a key that carried none of the tags since its
last explicit deletion keeps its entry — value *and* deadline — through `delete_tags`. -/
theorem delete_tags_precise (cfg : Cfg) (ops : List TOp) (hreg : Registered cfg ops) (tl : List Nat) (k : Nat)
    (h : ∀ t ∈ tl, t ∉ (exec cfg init ops).since k) :
    (step cfg (exec cfg init ops) (.deleteTags tl)).1.kv k = (exec cfg init ops).kv k :=
  deleteTags_other tl k (pinv_exec ops hreg (pinv_init cfg)) h

/-- **Precision, first clause of the property.**  A key that never carried any of the tags (no command of
the history attached one of them to it) is left untouched. -/
theorem never_carried_untouched (cfg : Cfg) (ops : List TOp) (hreg : Registered cfg ops) (tl : List Nat) (k : Nat)
    (h : ∀ op ∈ ops, ∀ t ∈ tl, t ∉ op.tagsFor k) :
    (step cfg (exec cfg init ops) (.deleteTags tl)).1.kv k = (exec cfg init ops).kv k := by
  apply delete_tags_precise cfg ops hreg
  intro t ht hs
  rcases exec_since cfg ops init k t hs with h' | ⟨op, ho, hx⟩
  · simp [init] at h'
  · exact h op ho t ht hx

/-- **Precision, second clause of the property.**  A key that was explicitly deleted (`delete k`, or a
`delete_many` naming it) after carrying the tag and was re-created by commands that do not attach the
tag again is left untouched. -/
theorem deleted_recreated_untouched (cfg : Cfg) (pre post : List TOp) (d : TOp) (tl : List Nat) (k : Nat)
    (hd : d = .delete k ∨ ∃ ks, d = .deleteMany ks ∧ k ∈ ks)
    (hreg : Registered cfg (pre ++ d :: post))
    (h : ∀ op ∈ post, ∀ t ∈ tl, t ∉ op.tagsFor k) :
    (step cfg (exec cfg init (pre ++ d :: post)) (.deleteTags tl)).1.kv k = (exec cfg init (pre ++ d :: post)).kv k := by
  apply delete_tags_precise cfg _ hreg
  intro t ht hs
  rw [exec_append, exec_cons] at hs
  rcases exec_since cfg post _ k t hs with h' | ⟨op, ho, hx⟩
  · rcases hd with hd | ⟨ks, hd, hk⟩
    · subst hd
      rw [since_after_delete] at h'
      simp at h'
    · subst hd
      have : (step cfg (exec cfg init pre) (.deleteMany ks)).1.since k = [] := by
        show (ks.foldl (St.delKey cfg) (exec cfg init pre)).since k = []
        rw [foldl_delKey_since]; simp [hk]
      rw [this] at h'
      simp at h'
  · exact h op ho t ht hx

/-- **`delete_tags` only removes.**  For every history (registered or not): every key's entry after
`delete_tags` is the entry it had, or gone — never a different value or deadline. -/
theorem delete_tags_only_removes (cfg : Cfg) (ops : List TOp) (tl : List Nat) (k : Nat) :
    (step cfg (exec cfg init ops) (.deleteTags tl)).1.kv k = (exec cfg init ops).kv k ∨
    (step cfg (exec cfg init ops) (.deleteTags tl)).1.kv k = none :=
  (ks_deleteTags cfg tl _ k).1

/-- **Batching.**  In *any* state, `_delete_tag` removes every member the tag set has, however many there
are: the `set_pop(count)` / `delete_many` loop runs until a short batch comes back (any `count ≥ 1`). -/
theorem delete_tag_removes_all_members (cfg : Cfg) (hb : 0 < cfg.batch) (s : St) (t k : Nat) (hk : k ∈ lm s t) :
    (s.deleteTag cfg t).kv k = none :=
  loop_complete cfg hb t k _ s (Nat.lt_succ_self _) hk

/-! ### the model does something: concrete histories (evaluated by the kernel) -/

/-- keys 0..3, registry: keys 0-2 ↦ tags {0,1}, key 3 ↦ {}; batches of 2 -/
def cfgEx : Cfg := { tagOf := fun k => if k < 3 then [0, 1] else [], batch := 2, keys := [0, 1, 2, 3] }

/-- long-lived member, then a short-lived one and a TTL-less one (D20 shapes), a tagged `incr` of an
existing counter (8a2895c shape), time beyond the short TTL, three members > batch size 2 -/
def histEx : List TOp :=
  [.set 0 (.tok 1) (some 800) .always [0], .set 1 (.tok 2) (some 8) .always [0], .set 3 (.int 5) none .always [],
   .incr 3 1 (some 8) [], .set 2 (.int 5) none .always [1], .incr 2 1 (some 8) [0], .adv 16]

example : (run cfgEx init (histEx ++ [.get 0, .get 2, .get 3, .deleteTags [0], .get 0, .get 1, .get 2, .get 3])).2 =
    [.bool true, .bool true, .bool true, .int 6, .bool true, .int 6, .unit,
     .val (some (.tok 1)), .val (some (.int 6)), .val (some (.int 6)), .unit,
     .val none, .val none, .val none, .val (some (.int 6))] := by decide

/-- the premises of `delete_tags_complete` are satisfiable and its conclusion is not trivial: key 0 is
readable before and carried tag 0 -/
example : 0 ∈ latestTags 0 (trace cfgEx init histEx) ∧ readable (exec cfgEx init histEx) 0 = some (.tok 1) ∧
    0 ∈ latestTags 2 (trace cfgEx init histEx) ∧ readable (exec cfgEx init histEx) 2 = some (.int 6) := by decide

/-- the invariant in action: the tag set took the *longer* deadline and holds all three members -/
example : ((exec cfgEx init histEx).ts 0).map (fun e => (members e, e.dl)) = some ([0, 1, 2], none) := by decide

example : Registered cfgEx histEx := by decide

/-- `never_carried_untouched` applies to key 3 (never tagged) and is not vacuous: key 3 is live -/
example : (∀ op ∈ histEx, ∀ t ∈ [0], t ∉ op.tagsFor 3) ∧ readable (exec cfgEx init histEx) 3 = some (.int 6) := by decide

/-- `deleted_recreated_untouched`: key 1 carried tag 0, was deleted, re-created without it; `delete_tags 0`
removes key 0 and spares key 1 -/
example :
    let ops := [TOp.set 0 (.tok 1) none .always [0], .set 1 (.tok 2) none .always [0], .delete 1, .set 1 (.tok 3) (some 8) .always [1]]
    Registered cfgEx ops ∧
    (run cfgEx init (ops ++ [.deleteTags [0], .get 0, .get 1])).2 =
      [.bool true, .bool true, .bool true, .bool true, .unit, .val none, .val (some (.tok 3))] := by decide

/-- without registration the second clause fails (D21, documented usage excludes it): the model shows it -/
example :
    let cfg : Cfg := { tagOf := fun _ => [], batch := 100, keys := [0] }
    (run cfg init [.set 0 (.tok 1) none .always [7], .delete 0, .set 0 (.tok 2) none .always [], .deleteTags [7], .get 0]).2 =
      [.bool true, .bool true, .bool true, .unit, .val none] := by decide

/-- **The former `incr` rule breaks the property** (why 8a2895c was needed): tagging an existing counter
with a TTL gave the tag set that TTL although the counter kept living; after the TTL `delete_tags` missed it. -/
theorem legacy_incr_rule_incomplete :
    let cfg : Cfg := { tagOf := fun _ => [0], batch := 100, keys := [0] }
    let s1 := (step cfg init (.set 0 (.int 5) none .always [])).1
    let s2 := (s1.wincrWith false cfg 0 1 (some 8) [0]).1
    let s3 := (step cfg s2 (.adv 16)).1
    0 ∈ s2.last 0 ∧ readable (step cfg s3 (.deleteTags [0])).1 0 = some (.int 6) := by decide

/-- **The former `set_add` rule breaks the property** (D20, why 9a3ae50 was needed): a long-lived member followed
by a short-lived one gave the set the short TTL; after it `delete_tags` missed the long-lived key. -/
theorem latest_ttl_rule_incomplete :
    let cfg : Cfg := { tagOf := fun _ => [0], batch := 100, keys := [0, 1] }
    let s1 := (((init.rawSet 0 (.tok 1) (some 800)).setAddLegacy 0 0 (some 800)).noteWrite 0 [0])
    let s2 := (((s1.rawSet 1 (.tok 2) (some 8)).setAddLegacy 0 1 (some 8)).noteWrite 1 [0])
    let s3 := (step cfg s2 (.adv 16)).1
    0 ∈ s3.last 0 ∧ readable (step cfg s3 (.deleteTags [0])).1 0 = some (.tok 1) := by decide

/-! ### second layer: the registry's template matching (what makes templated tags `Registered`) -/

open CashewsVerif.TagTpl in
/-- **The registry recovers the writer's field values.**  If every literal character of the key template is a
separator, fields are separated by non-empty literals (`WellSeparated`) and no argument value contains a
separator, then *every* way the registry's regular expression (`(?P<f>.+)?` per field) can match the rendered
key binds the groups to exactly the writer's values — so Python's `re`, whatever its search order, does. -/
theorem registry_recovers_fields (isSep : Char → Bool) (val : Nat → List Char) (keyTpl : Tpl)
    (hw : WellSeparated isSep keyTpl = true) (hv : SepFreeVals isSep val keyTpl)
    (asg : List (Nat × List Char)) (hm : Matches keyTpl (render val keyTpl) asg) :
    asg = intended val keyTpl :=
  match_unique keyTpl hw hv asg hm

open CashewsVerif.TagTpl in
/-- **Templated tags are registered tags.**  Under the same hypotheses, for a tag template whose fields all
occur in the key template (`register_tag(tagTpl, keyTpl)`, or `@cache(key=keyTpl, tags=[tagTpl])`): the tag
`get_key_tags` derives from the key is the tag the writer rendered from the call's arguments.  This is the
hypothesis `Registered` of the precision theorems, discharged for templated tags. -/
theorem registry_tag_is_writers_tag (isSep : Char → Bool) (val : Nat → List Char) (keyTpl tagTpl : Tpl)
    (hw : WellSeparated isSep keyTpl = true) (hv : SepFreeVals isSep val keyTpl)
    (hsub : ∀ f ∈ fields tagTpl, f ∈ fields keyTpl)
    (asg : List (Nat × List Char)) (hm : Matches keyTpl (render val keyTpl) asg) :
    render (lookup asg) tagTpl = render val tagTpl := by
  rw [match_unique keyTpl hw hv asg hm]
  exact render_congr tagTpl (fun f hf => lookup_intended val keyTpl f (hsub f hf))

section
open CashewsVerif.TagTpl

/-- `"u:{0}:p:{1}"`, separators = the characters of its literals -/
def keyTplEx : Tpl := [.lit ['u', ':'], .fld 0, .lit [':', 'p', ':'], .fld 1]
def sepEx (c : Char) : Bool := c == ':' || c == 'u' || c == 'p'
def valEx (f : Nat) : List Char := if f = 0 then ['1', '2'] else ['a']

example : WellSeparated sepEx keyTplEx = true ∧ SepFreeVals sepEx valEx keyTplEx ∧
    render valEx keyTplEx = ['u', ':', '1', '2', ':', 'p', ':', 'a'] := by
  refine ⟨by decide, ?_, by decide⟩
  intro f hf c hc
  simp [keyTplEx, fields] at hf
  rcases hf with h | h <;> subst h <;> simp [valEx] at hc
  · rcases hc with h | h <;> subst h <;> decide
  · subst hc; decide

/-- the hypothesis is needed: with a value containing the separator the key `k:a:b:c` of template `k:{0}:{1}`
matches in two ways (the writer's `0 ↦ a:b, 1 ↦ c`, and `0 ↦ a, 1 ↦ b:c`), and a tag `t:{0}` comes out differently -/
example :
    let tpl : Tpl := [.lit ['k', ':'], .fld 0, .lit [':'], .fld 1]
    Matches tpl ['k', ':', 'a', ':', 'b', ':', 'c'] [(0, ['a', ':', 'b']), (1, ['c'])] ∧
    Matches tpl ['k', ':', 'a', ':', 'b', ':', 'c'] [(0, ['a']), (1, ['b', ':', 'c'])] := by
  constructor
  · exact .lit ['k', ':'] (.fld 0 ['a', ':', 'b'] (.lit [':'] (.fld 1 ['c'] .nil)))
  · exact .lit ['k', ':'] (.fld 0 ['a'] (.lit [':'] (.fld 1 ['b', ':', 'c'] .nil)))

end

end CashewsVerif.Props.C12
