import CashewsVerif.Lemmas.TagsDecor
import CashewsVerif.Lemmas.TagTemplates
/-
C12 — `delete_tags` removes every live key carrying the tag, whatever the write order.
Property theorems only; helper lemmas live in `Lemmas/Tags*.lean`, the model in `Model/Tags.lean`.

Reading guide.  `exec cfg init ops` is the state after an arbitrary history `ops` of tagged / untagged
`set` (plain, nx, xx), `incr`, decorated calls, `get`, `exists`, `delete`, `delete_many`,
`delete_match` (given by the list of keys its pattern matches: a glob, a wildcard-free pattern naming one
key, or a pattern matching nothing), `delete_tags`, time advances and purge sweeps, started on the empty store.
A decorated call is given by the key and the tags rendered from its arguments at call time
(`decorator_tags_are_call_time_tags`, `decorator_tags_are_registry_tags` in the second layer).
The simple `@cache` is the command `.call` (one write, on a miss); the decorators that write a live entry again -
`early`, `soft`, `hit` / `dynamic` - are the programs `earlyCall`, `softCall`, `hitCall` over these commands
(`DecorCall`; section "decorators that write a live entry again").
`trace cfg init ops` pairs every command with its result; `latestTags k trace` is the tag list of
the latest command in the trace that wrote `k` ("the latest write of `k` carried ...").
`readable s k` is what `get k` returns in state `s`.  The model has no capacity: the property's
hypothesis "store within capacity" is built in (C01 / C11 cover the store itself).
-/
namespace CashewsVerif.Props.C12
open CashewsVerif CashewsVerif.Tags

/-- documented usage: every tag given to a write is one the registry derives from the written key
(`cache.register_tag(tag, key_template)` before use; `@cache(..., tags=...)` registers by itself) -/
def Registered (cfg : Cfg) (ops : List TOp) : Prop := ∀ op ∈ ops, op.registered cfg = true

instance (cfg : Cfg) (ops : List TOp) : Decidable (Registered cfg ops) := by unfold Registered; infer_instance

/-- **The invariant behind C12.**  After any history: a live key whose latest write carried tag `t` is
a member of the tag set `_tag:t`, and that set does not expire before the key (it has no deadline, or
both have one and the key's is not later).  This is what the max-deadline rule of `set_add`
(9a3ae50) and the TTL rule of the tagged `incr` (8a2895c) are needed for. -/
theorem tag_invariant (cfg : Cfg) (ops : List TOp) (k t : Nat) (e : Entry)
    (ht : t ∈ latestTags k (trace cfg init ops))
    (he : (exec cfg init ops).kv k = some e) (hl : e.live (exec cfg init ops).now = true) :
    ∃ se, (exec cfg init ops).ts t = some se ∧ k ∈ members se ∧ se.live (exec cfg init ops).now = true ∧
      (se.dl = none ∨ ∃ d d', e.dl = some d ∧ se.dl = some d' ∧ d ≤ d') := by
  have hinv := cinv_exec cfg ops cinv_init
  rw [← last_eq_latestTags] at ht
  obtain ⟨se, h1, h2, h3⟩ := hinv k t ht e he hl
  exact ⟨se, h1, h2, live_of_covers hl h3, h3⟩

/-- **Completeness.**  For every history `ops`, every `delete_tags(*tl)` issued after it and every key
`k` whose latest write carried one of the tags: `k` is unreadable afterwards (`get` answers the
default, `exists` answers False) — immediately and after any further commands `post` that do not
write `k` (probes of other keys, writes of other keys, time, more deletions).  No assumption on write
order, TTLs (long, short, none, 0), registration or the number of members (`batch` is the `count` of
`set_pop`, any positive value; the code uses 100). -/
theorem delete_tags_complete (cfg : Cfg) (hb : 0 < cfg.batch) (ops : List TOp) (tl : List Nat) (t k : Nat)
    (hmem : t ∈ tl) (ht : t ∈ latestTags k (trace cfg init ops))
    (post : List TOp) (hpost : ∀ op ∈ post, op.writes k = false) :
    let s' := exec cfg init (ops ++ .deleteTags tl :: post)
    readable s' k = none ∧ (step cfg s' (.get k)).2 = .val none ∧ (step cfg s' (.exists_ k)).2 = .bool false := by
  intro s'
  have hinv := cinv_exec cfg ops cinv_init
  rw [← last_eq_latestTags] at ht
  have h1 : readable ((exec cfg init ops).deleteTags cfg tl) k = none := deleteTags_kills cfg hb tl hinv ht hmem
  have h2 : readable s' k = none := by
    show readable (exec cfg init (ops ++ .deleteTags tl :: post)) k = none
    rw [exec_append, exec_cons]
    exact readable_none_ks (ks_exec cfg post _ k hpost) h1
  exact ⟨h2, by rw [get_out, h2], by rw [exists_out, h2]; rfl⟩

/-- **Precision, general form.**  Under documented usage, a key that carried none of the tags since its
last explicit deletion keeps its entry — value *and* deadline — through `delete_tags`. -/
theorem delete_tags_precise (cfg : Cfg) (ops : List TOp) (hreg : Registered cfg ops) (tl : List Nat) (k : Nat)
    (h : ∀ t ∈ tl, t ∉ (exec cfg init ops).since k) :
    (step cfg (exec cfg init ops) (.deleteTags tl)).1.kv k = (exec cfg init ops).kv k :=
  deleteTags_other tl k (pinv_exec ops hreg (pinv_init cfg)) h

/-- **Precision, first clause of the property.**  A key that never carried any of the tags (no command of
the history attached one of them to it) is left untouched. -/
theorem never_carried_untouched (cfg : Cfg) (ops : List TOp) (hreg : Registered cfg ops) (tl : List Nat) (k : Nat)
    (h : ∀ op ∈ ops, ∀ t ∈ tl, t ∉ op.tagsFor k) :
    (step cfg (exec cfg init ops) (.deleteTags tl)).1.kv k = (exec cfg init ops).kv k := by
  apply delete_tags_precise cfg ops hreg
  intro t ht hs
  rcases exec_since cfg ops init k t hs with h' | ⟨op, ho, hx⟩
  · simp [init] at h'
  · exact h op ho t ht hx

/-- **Precision, second clause of the property.**  A key that was explicitly deleted after carrying the tag -
by `delete k`, by a `delete_many` naming it, by a `delete_match` whose pattern it matches while it is readable
(`ks` = the keys matching the pattern: a glob, or a wildcard-free pattern naming exactly this key), or by an
earlier `delete_tags` that physically removed it - and was re-created by commands that do not attach the tag
again is left untouched. -/
theorem deleted_recreated_untouched (cfg : Cfg) (pre post : List TOp) (d : TOp) (tl : List Nat) (k : Nat)
    (hd : d = .delete k ∨ (∃ ks, d = .deleteMany ks ∧ k ∈ ks) ∨
          (∃ ks, d = .deleteMatch ks ∧ k ∈ ks ∧ (readable (exec cfg init pre) k).isSome = true) ∨
          (∃ tl', d = .deleteTags tl' ∧ (exec cfg init pre).kv k ≠ none ∧ (step cfg (exec cfg init pre) d).1.kv k = none))
    (hreg : Registered cfg (pre ++ d :: post))
    (h : ∀ op ∈ post, ∀ t ∈ tl, t ∉ op.tagsFor k) :
    (step cfg (exec cfg init (pre ++ d :: post)) (.deleteTags tl)).1.kv k = (exec cfg init (pre ++ d :: post)).kv k := by
  apply delete_tags_precise cfg _ hreg
  intro t ht hs
  rw [exec_append, exec_cons] at hs
  rcases exec_since cfg post _ k t hs with h' | ⟨op, ho, hx⟩
  · have hnil : (step cfg (exec cfg init pre) d).1.since k = [] := by
      rcases hd with hd | ⟨ks, hd, hk⟩ | ⟨ks, hd, hk, hl⟩ | ⟨tl', hd, hb, ha⟩
      · subst hd; exact since_after_delete cfg _ k
      · subst hd
        show (ks.foldl (St.delKey cfg) (exec cfg init pre)).since k = []
        rw [foldl_delKey_since]; simp [hk]
      · subst hd
        show ((exec cfg init pre).delMatch cfg ks).since k = []
        have hl' : (liveAt (exec cfg init pre).now (exec cfg init pre).kv k).isSome = true := by
          simpa [readable] using hl
        rw [(delMatch_kv_since cfg ks _ k).2, if_pos ⟨hk, hl'⟩]
      · subst hd
        exact deleteTags_removed_since cfg tl' _ k hb ha
    rw [hnil] at h'
    simp at h'
  · exact h op ho t ht hx

/-- **`delete_match` removes exactly the live matching keys.**  After any history, `delete_match(pattern)` -
`ks` = the keys the pattern matches, be it a glob, the exact name of one key, or nothing - removes the entry of
every matching key that is readable, and leaves every other entry (value and deadline) as it was. -/
theorem delete_match_removes_live_matches (cfg : Cfg) (ops : List TOp) (ks : List Nat) (k : Nat) :
    (step cfg (exec cfg init ops) (.deleteMatch ks)).1.kv k =
      if k ∈ ks ∧ (readable (exec cfg init ops) k).isSome = true then none else (exec cfg init ops).kv k := by
  show ((exec cfg init ops).delMatch cfg ks).kv k = _
  rw [(delMatch_kv_since cfg ks _ k).1]
  simp [readable]

/-- **`delete_match` prunes tag membership.**  Under documented usage, a key removed by `delete_match` (it
matched and was readable) is a member of no tag set afterwards - so a later `set` of the same key without
tags is not reachable from any `delete_tags`.  (`membersOpt (liveAt ..)` = the members `set_pop` would see.) -/
theorem delete_match_prunes_membership (cfg : Cfg) (ops : List TOp) (hreg : Registered cfg ops) (ks : List Nat) (k t : Nat)
    (hk : k ∈ ks) (hl : (readable (exec cfg init ops) k).isSome = true) :
    let s' := (step cfg (exec cfg init ops) (.deleteMatch ks)).1
    k ∉ membersOpt (liveAt s'.now s'.ts t) := by
  intro s'
  have hl' : (liveAt (exec cfg init ops).now (exec cfg init ops).kv k).isSome = true := by simpa [readable] using hl
  exact delMatch_pruned ks (pinv_exec ops hreg (pinv_init cfg)) hk hl' t

/-- **`delete_tags` only removes.**  For every history (registered or not): every key's entry after
`delete_tags` is the entry it had, or gone — never a different value or deadline. -/
theorem delete_tags_only_removes (cfg : Cfg) (ops : List TOp) (tl : List Nat) (k : Nat) :
    (step cfg (exec cfg init ops) (.deleteTags tl)).1.kv k = (exec cfg init ops).kv k ∨
    (step cfg (exec cfg init ops) (.deleteTags tl)).1.kv k = none :=
  (ks_deleteTags cfg tl _ k).1

/-- **Batching.**  In *any* state, `_delete_tag` removes every member the tag set has, however many there
are: the `set_pop(count)` / `delete_many` loop runs until a short batch comes back (any `count ≥ 1`). -/
theorem delete_tag_removes_all_members (cfg : Cfg) (hb : 0 < cfg.batch) (s : St) (t k : Nat) (hk : k ∈ lm s t) :
    (s.deleteTag cfg t).kv k = none :=
  loop_complete cfg hb t k _ s (Nat.lt_succ_self _) hk

/-! ### the model does something: concrete histories (evaluated by the kernel) -/

/-- keys 0..3, registry: keys 0-2 ↦ tags {0,1}, key 3 ↦ {}; batches of 2 -/
def cfgEx : Cfg := { tagOf := fun k => if k < 3 then [0, 1] else [], batch := 2, keys := [0, 1, 2, 3] }

/-- long-lived member, then a short-lived one and a TTL-less one (D20 shapes), a tagged `incr` of an
existing counter (8a2895c shape), time beyond the short TTL, three members > batch size 2 -/
def histEx : List TOp :=
  [.set 0 (.tok 1) (some 800) .always [0], .set 1 (.tok 2) (some 8) .always [0], .set 3 (.int 5) none .always [],
   .incr 3 1 (some 8) [], .set 2 (.int 5) none .always [1], .incr 2 1 (some 8) [0], .adv 16]

example : (run cfgEx init (histEx ++ [.get 0, .get 2, .get 3, .deleteTags [0], .get 0, .get 1, .get 2, .get 3])).2 =
    [.bool true, .bool true, .bool true, .int 6, .bool true, .int 6, .unit,
     .val (some (.tok 1)), .val (some (.int 6)), .val (some (.int 6)), .unit,
     .val none, .val none, .val none, .val (some (.int 6))] := by decide

/-- the premises of `delete_tags_complete` are satisfiable and its conclusion is not trivial: key 0 is
readable before and carried tag 0 -/
example : 0 ∈ latestTags 0 (trace cfgEx init histEx) ∧ readable (exec cfgEx init histEx) 0 = some (.tok 1) ∧
    0 ∈ latestTags 2 (trace cfgEx init histEx) ∧ readable (exec cfgEx init histEx) 2 = some (.int 6) := by decide

/-- the invariant in action: the tag set took the *longer* deadline and holds all three members -/
example : ((exec cfgEx init histEx).ts 0).map (fun e => (members e, e.dl)) = some ([0, 1, 2], none) := by decide

example : Registered cfgEx histEx := by decide

/-- `never_carried_untouched` applies to key 3 (never tagged) and is not vacuous: key 3 is live -/
example : (∀ op ∈ histEx, ∀ t ∈ [0], t ∉ op.tagsFor 3) ∧ readable (exec cfgEx init histEx) 3 = some (.int 6) := by decide

/-- `deleted_recreated_untouched`: key 1 carried tag 0, was deleted, re-created without it; `delete_tags 0`
removes key 0 and spares key 1 -/
example :
    let ops := [TOp.set 0 (.tok 1) none .always [0], .set 1 (.tok 2) none .always [0], .delete 1, .set 1 (.tok 3) (some 8) .always [1]]
    Registered cfgEx ops ∧
    (run cfgEx init (ops ++ [.deleteTags [0], .get 0, .get 1])).2 =
      [.bool true, .bool true, .bool true, .bool true, .unit, .val none, .val (some (.tok 3))] := by decide

/-- `deleted_recreated_untouched` through `delete_match`: key 1 carried tag 0 and is removed by the wildcard-free
pattern naming it (`ks = [1]`), key 2 by a glob matching keys 2 and 3, a third pattern matches nothing; both are
re-created without the tag; `delete_tags 0` removes key 0 only.  The premises of the theorem hold (key 1 is readable
when the `delete_match` is issued) and the removed key is in no tag set afterwards. -/
example :
    let pre := [TOp.set 0 (.tok 1) none .always [0], .set 1 (.tok 2) none .always [0, 1], .set 2 (.tok 3) (some 800) .always [0]]
    let post := [TOp.deleteMatch [2, 3], .deleteMatch [], .set 1 (.tok 4) none .always [], .set 2 (.tok 5) none .always [1]]
    Registered cfgEx (pre ++ .deleteMatch [1] :: post) ∧
    (readable (exec cfgEx init pre) 1).isSome = true ∧
    ((exec cfgEx init (pre ++ [.deleteMatch [1]])).ts 0).map members = some [0, 2] ∧
    ((exec cfgEx init (pre ++ [.deleteMatch [1]])).ts 1).map members = some [] ∧
    (run cfgEx init (pre ++ .deleteMatch [1] :: post ++ [.deleteTags [0], .get 0, .get 1, .get 2])).2 =
      [.bool true, .bool true, .bool true, .unit, .unit, .unit, .bool true, .bool true, .unit,
       .val none, .val (some (.tok 4)), .val (some (.tok 5))] := by decide

/-- `deleted_recreated_untouched` through an earlier `delete_tags`: key 1 carried tags 0 and 1, `delete_tags 1`
physically removes it (premises of the fourth alternative), it is re-created untagged, `delete_tags 0` spares it -/
example :
    let pre := [TOp.set 0 (.tok 1) none .always [0], .set 1 (.tok 2) none .always [0, 1]]
    (exec cfgEx init pre).kv 1 ≠ none ∧ (step cfgEx (exec cfgEx init pre) (.deleteTags [1])).1.kv 1 = none ∧
    (run cfgEx init (pre ++ [.deleteTags [1], .set 1 (.tok 3) none .always [], .deleteTags [0], .get 0, .get 1])).2 =
      [.bool true, .bool true, .unit, .bool true, .unit, .val none, .val (some (.tok 3))] := by decide

/-- `delete_match` skips a key that is expired but not yet purged (`scan` ignores it): nothing is removed, and the
key does not count as explicitly deleted - the hypothesis "readable" of the `delete_match` alternative is needed -/
example :
    let ops := [TOp.set 1 (.tok 2) (some 8) .always [0], .adv 16]
    (readable (exec cfgEx init ops) 1).isSome = false ∧
    (step cfgEx (exec cfgEx init ops) (.deleteMatch [1])).1.kv 1 = (exec cfgEx init ops).kv 1 ∧
    (exec cfgEx init ops).kv 1 ≠ none := by decide

/-- without registration the second clause fails (D21, documented usage excludes it): the model shows it -/
example :
    let cfg : Cfg := { tagOf := fun _ => [], batch := 100, keys := [0] }
    (run cfg init [.set 0 (.tok 1) none .always [7], .delete 0, .set 0 (.tok 2) none .always [], .deleteTags [7], .get 0]).2 =
      [.bool true, .bool true, .bool true, .unit, .val none] := by decide

/-- **The former `incr` rule breaks the property** (why 8a2895c was needed): tagging an existing counter
with a TTL gave the tag set that TTL although the counter kept living; after the TTL `delete_tags` missed it. -/
theorem legacy_incr_rule_incomplete :
    let cfg : Cfg := { tagOf := fun _ => [0], batch := 100, keys := [0] }
    let s1 := (step cfg init (.set 0 (.int 5) none .always [])).1
    let s2 := (s1.wincrWith false cfg 0 1 (some 8) [0]).1
    let s3 := (step cfg s2 (.adv 16)).1
    0 ∈ s2.last 0 ∧ readable (step cfg s3 (.deleteTags [0])).1 0 = some (.int 6) := by decide

/-- **The former `set_add` rule breaks the property** (D20, why 9a3ae50 was needed): a long-lived member followed
by a short-lived one gave the set the short TTL; after it `delete_tags` missed the long-lived key. -/
theorem latest_ttl_rule_incomplete :
    let cfg : Cfg := { tagOf := fun _ => [0], batch := 100, keys := [0, 1] }
    let s1 := (((init.rawSet 0 (.tok 1) (some 800)).setAddLegacy 0 0 (some 800)).noteWrite 0 [0])
    let s2 := (((s1.rawSet 1 (.tok 2) (some 8)).setAddLegacy 0 1 (some 8)).noteWrite 1 [0])
    let s3 := (step cfg s2 (.adv 16)).1
    0 ∈ s3.last 0 ∧ readable (step cfg s3 (.deleteTags [0])).1 0 = some (.tok 1) := by decide

/-! ### decorators that write a live entry again (`early`, `soft`, `hit`, `dynamic`) -/

/-- **Completeness for tags attached by any decorator, on every write path and under every wrapping option.**  `DecorCall`
is a call of a function decorated with `tags=` - under the ordinary wrapping or with `upper=True`, `lock=True`,
`protected=False`, `time_condition=` (`Run`: how long the body takes and which results the condition accepts; none of
them changes the key and the tags of what is stored) - by the simple `@cache`, by `early` (miss; recalculation ahead of the deadline, in the foreground or
in a background task), by `soft` (miss; recomputation after the soft deadline) or by `hit` / `dynamic` (miss; update at
`update_after` hits; recomputation beyond `cache_hits`) - given as the wrapper commands it issues.  After any history
`ops`, if the body of such a call ran (so the decorator wrote the key - for the first time or **again, over the live entry,
with a new deadline**), then after any further commands `mid` that do not write `k` (in particular time running past
the deadline the entry had before the re-write), a `delete_tags` of one of the call's tags leaves `k` unreadable,
immediately and after any `post` that does not write `k`.  This is `delete_tags_complete` for a history that contains the
decorator's program: a re-write is a tagged write like any other. -/
theorem decorated_write_delete_tags_complete (cfg : Cfg) (hb : 0 < cfg.batch) (ops : List TOp) (k : Nat) (ttl : Option Nat)
    (tags : List Nat) (p : List TOp × Out) (hp : DecorCall cfg (exec cfg init ops) k ttl tags p) (hran : bodyRan p.2 = true)
    (mid : List TOp) (hmid : ∀ op ∈ mid, op.writes k = false) (tl : List Nat) (t : Nat) (hmem : t ∈ tl) (ht : t ∈ tags)
    (post : List TOp) (hpost : ∀ op ∈ post, op.writes k = false) :
    let s' := exec cfg init (ops ++ p.1 ++ mid ++ .deleteTags tl :: post)
    readable s' k = none ∧ (step cfg s' (.get k)).2 = .val none ∧ (step cfg s' (.exists_ k)).2 = .bool false := by
  apply delete_tags_complete cfg hb (ops ++ p.1 ++ mid) tl t k hmem _ post hpost
  rw [← last_eq_latestTags, exec_append, exec_append, exec_last_frame cfg mid _ k hmid, decorCall_last hp hran]
  exact ht

/-- **A re-write moves the tag sets along with the key.**  After any history, when a decorator stores a result under
`k` with a ttl and the call's tags (first write or re-write: the key's deadline becomes `now + ttl`), every tag set of the
call holds `k` and has no deadline or one that is not earlier than the key's new deadline - whatever deadline the set had
before (e.g. that of the first write, which the re-write outlives). -/
theorem rewrite_moves_tag_sets_along (cfg : Cfg) (ops : List TOp) (k : Nat) (v : Val) (ttl : Nat) (tags : List Nat) (t : Nat)
    (ht : t ∈ tags) :
    let s' := exec cfg init (ops ++ [decorWrite k v (some (ttl + 1)) tags])
    s'.kv k = some ⟨v, some (s'.now + (ttl + 1))⟩ ∧
    ∃ se, s'.ts t = some se ∧ k ∈ members se ∧ (se.dl = none ∨ ∃ d', se.dl = some d' ∧ s'.now + (ttl + 1) ≤ d') := by
  intro s'
  have hs : s' = ((exec cfg init ops).writeTagged k v (some (ttl + 1)) tags) := by
    show exec cfg init (ops ++ [decorWrite k v (some (ttl + 1)) tags]) = _
    rw [exec_append]; rfl
  have hnow : s'.now = (exec cfg init ops).now := by rw [hs, writeTagged_now]
  have hkv : s'.kv k = some ⟨v, some (s'.now + (ttl + 1))⟩ := by
    rw [hnow, hs, writeTagged_kv]
    simp [St.rawSet, upd, deadlineOf]
  refine ⟨hkv, ?_⟩
  have hlast : t ∈ latestTags k (trace cfg init (ops ++ [decorWrite k v (some (ttl + 1)) tags])) := by
    rw [← last_eq_latestTags]
    have := last_after_decorWrite cfg init ops [] k v (some (ttl + 1)) tags (by simp)
    rw [this]; exact ht
  have hl : (⟨v, some (s'.now + (ttl + 1))⟩ : Entry).live s'.now = true := by simp [Entry.live]
  obtain ⟨se, h1, h2, _, h4⟩ := tag_invariant cfg (ops ++ [decorWrite k v (some (ttl + 1)) tags]) k t _ hlast hkv hl
  refine ⟨se, h1, h2, ?_⟩
  rcases h4 with h | ⟨d, d', hd, hd', hle⟩
  · exact Or.inl h
  · right
    refine ⟨d', hd', ?_⟩
    simp at hd
    omega

/-- keys 0 (data), 1 (its lock), registry: key 0 ↦ tag 0 -/
def cfgDec : Cfg := { tagOf := fun k => if k = 0 then [0] else [], batch := 100, keys := [0, 1] }

/-- the premises of `decorated_write_delete_tags_complete` are satisfiable on the re-write path, and its conclusion is not
trivial: an `early` function (ttl 800, early_ttl 80, tag 0) is called at 0 and again at 400 - past the early deadline 80,
the entry (deadline 800) still alive -: the second call recalculates (`bodyRan`), the entry's deadline moves to 1200 and so
does the tag set's; at 900 - past the original deadline - the key is readable and `delete_tags 0` removes it -/
example :
    let ops := (earlyCall cfgDec init 0 1 1 (some 800) 80 [0] .plain).1 ++ [.adv 400]
    let p := earlyCall cfgDec (exec cfgDec init ops) 0 1 2 (some 800) 80 [0] .plain
    bodyRan p.2 = true ∧ readable (exec cfgDec init ops) 0 = some (.nums [80, 1]) ∧
    p.1 = [.get 0, .set 1 (.tok 1) (some 80) .nx [], .adv 0, decorWrite 0 (.nums [480, 2]) (some 800) [0], .delete 1] ∧
    readable (exec cfgDec init (ops ++ p.1 ++ [.adv 500])) 0 = some (.nums [480, 2]) ∧
    ((exec cfgDec init (ops ++ p.1 ++ [.adv 500])).ts 0).map (fun e => (members e, e.dl)) = some ([0], some 1200) ∧
    readable (exec cfgDec init (ops ++ p.1 ++ [.adv 500, .deleteTags [0]])) 0 = none := by decide

/-- `soft` (soft_ttl 80: recomputation at 400) and `hit` (cache_hits 3, update_after 2: the third call updates; key 2,
counter 3) reach their re-writes too -/
example :
    let cfg : Cfg := { tagOf := fun k => if k = 0 ∨ k = 2 ∨ k = 3 then [0] else [], batch := 100, keys := [0, 1, 2, 3] }
    let s1 := exec cfg init ((softCall cfg init 0 1 (some 800) 80 [0] .plain).1 ++ [.adv 400])
    let h1 := exec cfg init (hitCall cfg init 2 3 1 (some 800) [0] 3 2 .plain).1
    let h2 := exec cfg h1 (hitCall cfg h1 2 3 2 (some 800) [0] 3 2 .plain).1
    (softCall cfg s1 0 2 (some 800) 80 [0] .plain).2 = .vals [some (.tok 2)] ∧ readable s1 0 = some (.nums [80, 1]) ∧
    (hitCall cfg h1 2 3 2 (some 800) [0] 3 2 .plain).2 = .val (some (.tok 1)) ∧
    hitCall cfg h2 2 3 3 (some 800) [0] 3 2 .plain =
      ([.get 2, .incr 3 1 (some 800) [0], .adv 0, .delete 3, decorWrite 2 (.tok 3) (some 800) [0]], .vals [some (.tok 3)]) := by decide

/-- the wrapping options: under `time_condition=` (limit 8 ticks) a body that takes 8 ticks is not stored, one that takes 9
is - under its tags, with the deadline counted from the end of the body -; under `upper=True` an `early` call that finds its
entry due for recalculation runs the body but stores nothing (finding the entry is recorded in `detect.calls`), the entry
and its tags stay as they were and `delete_tags` still removes it -/
example :
    let fast : Run := ⟨8, false, false⟩
    let slow : Run := ⟨9, true, true⟩
    let upper : Run := ⟨0, true, false⟩
    simpleCall cfgDec init 0 (.tok 1) (some 800) [0] fast = ([.get 0, .adv 8], .vals [none]) ∧
    readable (exec cfgDec init (simpleCall cfgDec init 0 (.tok 1) (some 800) [0] fast).1) 0 = none ∧
    simpleCall cfgDec init 0 (.tok 1) (some 800) [0] slow = ([.get 0, .adv 9, decorWrite 0 (.tok 1) (some 800) [0]], .vals [some (.tok 1)]) ∧
    (exec cfgDec init (simpleCall cfgDec init 0 (.tok 1) (some 800) [0] slow).1).kv 0 = some ⟨.tok 1, some 809⟩ ∧
    (let s1 := exec cfgDec init ((earlyCall cfgDec init 0 1 1 (some 800) 80 [0] upper).1 ++ [.adv 400])
     earlyCall cfgDec s1 0 1 2 (some 800) 80 [0] upper =
       ([.get 0, .set 1 (.tok 1) (some 80) .nx [], .adv 0, .delete 1], .vals [none]) ∧
     readable (exec cfgDec s1 ((earlyCall cfgDec s1 0 1 2 (some 800) 80 [0] upper).1)) 0 = some (.nums [80, 1]) ∧
     readable (exec cfgDec s1 ((earlyCall cfgDec s1 0 1 2 (some 800) 80 [0] upper).1 ++ [.deleteTags [0]])) 0 = none) := by decide

/-- **A wrapping path that drops the tags breaks the property.**  The per-call decorator of `upper=True` built from
`decor_kwargs` without `tags` runs the program of a call with no tags (`simpleCall .. [] ..`) for a call whose decorator
has tag 0: the entry is stored, filed under nothing, and `delete_tags 0` leaves it readable; built with the tags, the same
call's entry is removed. -/
theorem tagless_wrapping_path_incomplete :
    let upper : Run := ⟨0, true, false⟩
    (simpleCall cfgDec init 0 (.tok 1) (some 800) [0] upper).2 = .vals [some (.tok 1)] ∧
    (simpleCall cfgDec init 0 (.tok 1) (some 800) [] upper).2 = .vals [some (.tok 1)] ∧
    readable (exec cfgDec init ((simpleCall cfgDec init 0 (.tok 1) (some 800) [0] upper).1 ++ [.deleteTags [0]])) 0 = none ∧
    readable (exec cfgDec init ((simpleCall cfgDec init 0 (.tok 1) (some 800) [] upper).1 ++ [.deleteTags [0]])) 0 =
      some (.tok 1) := by decide

/-- **Re-writing without the tags breaks the property.**  The variant of `early` whose recalculation stores the fresh
result with `tags=()` "because the key is already a member of its tag sets" (`earlyCallWith false`): the first call at 0
files the entry (deadline 800) under tag 0, whose set gets deadline 800; the recalculation at 400 moves the key's deadline to
1200 but not the set's; at 900 the set is gone, the key - whose latest write is the decorator's, for a call tagged 0 - is
alive, and `delete_tags 0` misses it.  With the tags (`earlyCall`) the same history ends with the key removed. -/
theorem untagged_refresh_incomplete :
    let ops := (earlyCall cfgDec init 0 1 1 (some 800) 80 [0] .plain).1 ++ [.adv 400]
    let s1 := exec cfgDec init ops
    let good := earlyCall cfgDec s1 0 1 2 (some 800) 80 [0] .plain
    let bad := earlyCallWith false cfgDec s1 0 1 2 (some 800) 80 [0] .plain
    bodyRan good.2 = true ∧ bodyRan bad.2 = true ∧
    readable (exec cfgDec s1 (good.1 ++ [.adv 500, .deleteTags [0]])) 0 = none ∧
    readable (exec cfgDec s1 (bad.1 ++ [.adv 500])) 0 = some (.nums [480, 2]) ∧
    (liveAt 900 (exec cfgDec s1 (bad.1 ++ [.adv 500])).ts 0) = none ∧
    readable (exec cfgDec s1 (bad.1 ++ [.adv 500, .deleteTags [0]])) 0 = some (.nums [480, 2]) := by decide

/-! ### tag members in several prefix-routed backends -/

/-- **`delete_many` over several backends removes every key it is given.**  When the keys of one call - for `_delete_tag`: the
members popped from a tag set - live in several backends routed by key prefix (`owner`: any assignment of keys to backends),
grouping them by owner and sending each group to its backend removes exactly the keys of the call, like the single-backend
`delete_many` of the history theorems (`.deleteMany`): every entry named is gone and counts as explicitly deleted, every other
entry is as it was.  So `delete_tags_complete` and the precision theorems hold for any number of data backends. -/
theorem delete_many_routed_removes_all (cfg : Cfg) (owner : Nat → Nat) (s : St) (ks : List Nat) (k : Nat) :
    (deleteManyRouted cfg owner s ks).kv k = (step cfg s (.deleteMany ks)).1.kv k ∧
    (deleteManyRouted cfg owner s ks).since k = (step cfg s (.deleteMany ks)).1.since k ∧
    (deleteManyRouted cfg owner s ks).kv k = if k ∈ ks then none else s.kv k := by
  have h := foldl_groups_kv_since cfg (groupsBy owner ks) s k
  have hm : (∃ g ∈ groupsBy owner ks, k ∈ g) ↔ k ∈ ks := mem_groupsBy owner ks k
  have e1 : (deleteManyRouted cfg owner s ks).kv k = if k ∈ ks then none else s.kv k := by
    unfold deleteManyRouted; rw [h.1]; simp [hm]
  have e2 : (deleteManyRouted cfg owner s ks).since k = if k ∈ ks then [] else s.since k := by
    unfold deleteManyRouted; rw [h.2]; simp [hm]
  refine ⟨?_, ?_, e1⟩
  · rw [e1]; show _ = (ks.foldl (St.delKey cfg) s).kv k; rw [foldl_delKey_kv]
  · rw [e2]; show _ = (ks.foldl (St.delKey cfg) s).since k; rw [foldl_delKey_since]

/-- **Sending every group to the first key's backend breaks the property.**  Keys 0 and 1 carry tag 0 and live in two backends
(`owner k = k % 2`).  `_delete_tag` pops both members; the mis-routed `delete_many` (`keys[0]` instead of the group's first key)
deletes only what the first key's backend owns: key 1 stays readable although its latest write carried the tag, and since its
membership is popped a second `delete_tags` does not find it either.  Routed by owner, both are gone. -/
theorem misrouted_delete_many_incomplete :
    let s0 := exec cfgEx init [.set 0 (.tok 1) none .always [0], .set 1 (.tok 2) none .always [0]]
    let popped := s0.setPop 0 100
    let bad := deleteManyMisrouted cfgEx (· % 2) popped.1 popped.2
    let good := deleteManyRouted cfgEx (· % 2) popped.1 popped.2
    popped.2 = [0, 1] ∧ 0 ∈ s0.last 1 ∧ readable bad 0 = none ∧ readable bad 1 = some (.tok 2) ∧
    readable (bad.deleteTags cfgEx [0]) 1 = some (.tok 2) ∧ readable good 0 = none ∧ readable good 1 = none := by decide

/-! ### second layer: the registry's template matching (what makes templated tags `Registered`) -/

open CashewsVerif.TagTpl in
/-- **The registry recovers the writer's field values.**  If every literal character of the key template is a
separator, fields are separated by non-empty literals (`WellSeparated`) and no argument value contains a
separator, then *every* way the registry's regular expression (`(?P<f>.+)?` per field) can match the rendered
key binds the groups to exactly the writer's values — so Python's `re`, whatever its search order, does. -/
theorem registry_recovers_fields (isSep : Char → Bool) (val : Nat → List Char) (keyTpl : Tpl)
    (hw : WellSeparated isSep keyTpl = true) (hv : SepFreeVals isSep val keyTpl)
    (asg : List (Nat × List Char)) (hm : Matches keyTpl (render val keyTpl) asg) :
    asg = intended val keyTpl :=
  match_unique keyTpl hw hv asg hm

open CashewsVerif.TagTpl in
/-- **Templated tags are registered tags.**  Under the same hypotheses, for a tag template whose fields all
occur in the key template (`register_tag(tagTpl, keyTpl)`, or `@cache(key=keyTpl, tags=[tagTpl])`): the tag
`get_key_tags` derives from the key is the tag the writer rendered from the call's arguments.  This is the
hypothesis `Registered` of the precision theorems, discharged for templated tags. -/
theorem registry_tag_is_writers_tag (isSep : Char → Bool) (val : Nat → List Char) (keyTpl tagTpl : Tpl)
    (hw : WellSeparated isSep keyTpl = true) (hv : SepFreeVals isSep val keyTpl)
    (hsub : ∀ f ∈ fields tagTpl, f ∈ fields keyTpl)
    (asg : List (Nat × List Char)) (hm : Matches keyTpl (render val keyTpl) asg) :
    render (lookup asg) tagTpl = render val tagTpl := by
  rw [match_unique keyTpl hw hv asg hm]
  exact render_congr tagTpl (fun f hf => lookup_intended val keyTpl f (hsub f hf))

open CashewsVerif.TagTpl in
/-- **A decorator's tags are those of the call.**  A miss of a function decorated with
`@cache(key=keyTpl, tags=tagTpls)` files the entry under the key and the tags rendered from the arguments as the
caller passed them - whatever the decorated function does to its (mutable) arguments while it runs (`body`
arbitrary: sorting or extending a list, filling a dict, rewriting an attribute). -/
theorem decorator_tags_are_call_time_tags (keyTpl : Tpl) (tagTpls : List Tpl) (val : Nat → List Char)
    (body : (Nat → List Char) → (Nat → List Char)) :
    decorMiss keyTpl tagTpls val body = { key := render val keyTpl, tags := tagTpls.map (render val) } := rfl

open CashewsVerif.TagTpl in
/-- **A decorator's tags are the registry's tags for the stored key**, for every body.  Under the hypotheses of
`registry_recovers_fields`, for tag templates over fields of the key template: the tags the entry is filed
under are exactly those `get_key_tags` derives from the key it is stored under (any match of the registry's
regular expression) - decorated calls are `Registered`, so both `delete_tags_complete` (the entry goes with
each of its call-time tags) and the precision theorems apply to them, mutation or not. -/
theorem decorator_tags_are_registry_tags (isSep : Char → Bool) (val : Nat → List Char) (keyTpl : Tpl) (tagTpls : List Tpl)
    (body : (Nat → List Char) → (Nat → List Char))
    (hw : WellSeparated isSep keyTpl = true) (hv : SepFreeVals isSep val keyTpl)
    (hsub : ∀ tt ∈ tagTpls, ∀ f ∈ fields tt, f ∈ fields keyTpl)
    (asg : List (Nat × List Char)) (hm : Matches keyTpl (decorMiss keyTpl tagTpls val body).key asg) :
    (decorMiss keyTpl tagTpls val body).tags = tagTpls.map (render (lookup asg)) := by
  show tagTpls.map (render val) = tagTpls.map (render (lookup asg))
  apply List.map_congr_left
  intro tt htt
  exact (registry_tag_is_writers_tag isSep val keyTpl tt hw hv (hsub tt htt) asg hm).symm

open CashewsVerif.TagTpl in
/-- **Rendering the tags after the call breaks the property.**  `@cache(key="r/{0}", tags=["c/{0}"])` on a function
that appends to its list argument (`ab` becomes `abz`): rendered late, the entry stored under `r/ab` is filed under
`c/abz` instead of its call's `c/ab`; and an entry filed under another tag (1) than its call's (0) is still
readable after `delete_tags` of the call's tag. -/
theorem late_tag_formatting_incomplete :
    let keyTpl : Tpl := [.lit ['r', '/'], .fld 0]
    let tagTpl : Tpl := [.lit ['c', '/'], .fld 0]
    let val : Nat → List Char := fun _ => ['a', 'b']
    let body : (Nat → List Char) → (Nat → List Char) := fun v f => v f ++ ['z']
    (decorMiss keyTpl [tagTpl] val body).tags = [['c', '/', 'a', 'b']] ∧
    (decorMissLate keyTpl [tagTpl] val body).key = ['r', '/', 'a', 'b'] ∧
    (decorMissLate keyTpl [tagTpl] val body).tags = [['c', '/', 'a', 'b', 'z']] ∧
    (let cfg : Cfg := { tagOf := fun _ => [0, 1], batch := 100, keys := [0] }
     readable (exec cfg init [.call 0 (.tok 1) (some 800) [1], .deleteTags [0]]) 0 = some (.tok 1) ∧
     readable (exec cfg init [.call 0 (.tok 1) (some 800) [0], .deleteTags [0]]) 0 = none) := by decide

open CashewsVerif.TagTpl in
/-- **A decorator's re-write carries the tags of the call that triggered it**: the recalculation of `early`, the
recomputation of `soft` and the update of `hit` file the refreshed entry under the same key and the same tags as a miss of
the same call would - the tags rendered from the arguments of this call, whatever the body does to them. -/
theorem decorator_refresh_tags_are_call_time_tags (keyTpl : Tpl) (tagTpls : List Tpl) (val : Nat → List Char)
    (body : (Nat → List Char) → (Nat → List Char)) :
    decorRefresh keyTpl tagTpls val body = decorMiss keyTpl tagTpls val body ∧
    (decorRefresh keyTpl tagTpls val body).tags = tagTpls.map (render val) := ⟨rfl, rfl⟩

open CashewsVerif.TagTpl in
/-- the untagged re-write files the refreshed entry under no tag at all, although the call has one (template level of
`untagged_refresh_incomplete`) -/
example :
    let keyTpl : Tpl := [.lit ['r', '/'], .fld 0]
    let tagTpl : Tpl := [.lit ['c', '/'], .fld 0]
    let val : Nat → List Char := fun _ => ['a']
    (decorRefresh keyTpl [tagTpl] val id).tags = [['c', '/', 'a']] ∧ (decorRefreshUntagged keyTpl [tagTpl] val id).tags = [] ∧
    (decorRefreshUntagged keyTpl [tagTpl] val id).key = (decorRefresh keyTpl [tagTpl] val id).key := by decide

section
open CashewsVerif.TagTpl

/-- the hypotheses of `decorator_tags_are_registry_tags` are satisfiable with a body that changes the argument -/
example :
    let keyTpl : Tpl := [.lit ['r', '/'], .fld 0]
    let val : Nat → List Char := fun _ => ['a', 'b']
    let body : (Nat → List Char) → (Nat → List Char) := fun v f => v f ++ ['z']
    WellSeparated (fun c => c == 'r' || c == '/') keyTpl = true ∧ body val 0 ≠ val 0 ∧
    SepFreeVals (fun c => c == 'r' || c == '/') val keyTpl ∧
    Matches keyTpl (decorMiss keyTpl [[.lit ['c', '/'], .fld 0]] val body).key [(0, ['a', 'b'])] := by
  refine ⟨by decide, by decide, ?_, ?_⟩
  · intro f _ c hc
    simp at hc
    rcases hc with h | h <;> subst h <;> decide
  · exact .lit ['r', '/'] (.fld 0 ['a', 'b'] .nil)

/-- `"u:{0}:p:{1}"`, separators = the characters of its literals -/
def keyTplEx : Tpl := [.lit ['u', ':'], .fld 0, .lit [':', 'p', ':'], .fld 1]
def sepEx (c : Char) : Bool := c == ':' || c == 'u' || c == 'p'
def valEx (f : Nat) : List Char := if f = 0 then ['1', '2'] else ['a']

example : WellSeparated sepEx keyTplEx = true ∧ SepFreeVals sepEx valEx keyTplEx ∧
    render valEx keyTplEx = ['u', ':', '1', '2', ':', 'p', ':', 'a'] := by
  refine ⟨by decide, ?_, by decide⟩
  intro f hf c hc
  simp [keyTplEx, fields] at hf
  rcases hf with h | h <;> subst h <;> simp [valEx] at hc
  · rcases hc with h | h <;> subst h <;> decide
  · subst hc; decide

/-- the hypothesis is needed: with a value containing the separator the key `k:a:b:c` of template `k:{0}:{1}`
matches in two ways (the writer's `0 ↦ a:b, 1 ↦ c`, and `0 ↦ a, 1 ↦ b:c`), and a tag `t:{0}` comes out differently -/
example :
    let tpl : Tpl := [.lit ['k', ':'], .fld 0, .lit [':'], .fld 1]
    Matches tpl ['k', ':', 'a', ':', 'b', ':', 'c'] [(0, ['a', ':', 'b']), (1, ['c'])] ∧
    Matches tpl ['k', ':', 'a', ':', 'b', ':', 'c'] [(0, ['a']), (1, ['b', ':', 'c'])] := by
  constructor
  · exact .lit ['k', ':'] (.fld 0 ['a', ':', 'b'] (.lit [':'] (.fld 1 ['c'] .nil)))
  · exact .lit ['k', ':'] (.fld 0 ['a'] (.lit [':'] (.fld 1 ['b', ':', 'c'] .nil)))

end

end CashewsVerif.Props.C12
