import CashewsVerif.Lemmas.C15Breaker
import CashewsVerif.Lemmas.C15Rate
import CashewsVerif.Lemmas.C15Sched
import CashewsVerif.Lemmas.TtlFacade
/-
C15 — rate limiters and circuit breaker never admit more than configured.
Property theorems only; models in `Model/Decor/{Rate,SlideRate,Breaker,RateSched}.lean`, the executable
statement of the property in `Spec/RateLimit.lean`, helper lemmas in `Lemmas/C15*.lean`.

A call history is a list of waits (`dt` ticks pass, then one call), so instants never decrease; the
sliding limiter and the breaker are stated for strictly increasing instants (every wait but the first
positive), which is the property's own quantifier.  All theorems quantify over *every* history.
-/
namespace CashewsVerif.Props.C15
open CashewsVerif CashewsVerif.Decor CashewsVerif.Decor.Spec

/-! ## `rate_limit` (fixed window) -/

/-- **Fixed window.**  Cut the observed trace into counter windows by the lapse rule of the property
alone — a window ends `period` after its first counted call or, once a call in it has been rejected,
the ban `ttl` after that first rejection; a call arriving strictly before that instant belongs to the
window, the first call at or after it starts the next one.  Then in *every* window of *every*
history exactly the first `limit` calls run the function and every later call is rejected (never a
fault).  Hence between two lapses of the counter the function runs at most `limit` times and all
calls in between are rejected. -/
theorem fixed_window (p : Rate.Params) (hp : 0 < p.period) (calls : List Nat) :
    ∀ w ∈ windows p.period p.effTtl [] (Rate.run p TtlMap.init calls), RunsFirst p.limit w :=
  Rate.windows_runsFirst p hp calls TtlMap.init [] ⟨fun _ => rfl, fun h => absurd rfl h⟩
    (by intro i e h; simp at h)

/-- the windows of `fixed_window` contain every observed call exactly once, in order -/
theorem fixed_window_partition (period ttl : Nat) (tr : List Ev) : (windows period ttl [] tr).flatten = tr := by
  simpa using Rate.windows_flatten period ttl tr []

/-- **At most `limit` runs between two lapses**, and nothing runs after the first rejection of a
window — the executable form of the property (the one the harness evaluates on the real code's
traces) holds of every model trace. -/
theorem fixed_window_runs_le (p : Rate.Params) (hp : 0 < p.period) (calls : List Nat) :
    (∀ w ∈ windows p.period p.effTtl [] (Rate.run p TtlMap.init calls), w.countP (·.ran) ≤ p.limit) ∧
    fixedHolds p.limit p.period p.effTtl (Rate.run p TtlMap.init calls) = true := by
  have h := fixed_window p hp calls
  refine ⟨fun w hw => Rate.countP_ran_le _ _ (h w hw), ?_⟩
  unfold fixedHolds
  rw [List.all_eq_true]
  exact fun w hw => Rate.windowHolds_of_runsFirst (h w hw)

/-- **At most `limit` runs per `period` whenever `ttl ≥ period`.**  *Reading fixed here:* "per `period`" of
the property is per counter window, i.e. per stretch `[s, s + period)` that starts with the first counted
call `s` of a window — not per arbitrary sliding interval, which no fixed-window limiter bounds by `limit`.
If the ban is not shorter than the
period, every counter window lasts at least `period`, the windows follow each other in time, and so the
stretch of length `period` that starts with the first counted call of any window contains at most
`limit` runs of the function.  (Stretches that start elsewhere may straddle two windows and contain up
to `2·limit − 1` runs — inherent to fixed windows, see the example below; and with `ttl < period` a
window can be cut short by the ban, see the other example.) -/
theorem fixed_window_per_period (p : Rate.Params) (hp : 0 < p.period) (httl : p.period ≤ p.effTtl) (calls : List Nat) :
    ∀ w ∈ windows p.period p.effTtl [] (Rate.run p TtlMap.init calls), ∀ e0, w.head? = some e0 →
      runsIn (Rate.run p TtlMap.init calls) e0.ts p.period ≤ p.limit := by
  intro w hw e0 he0
  have hchrono := Rate.windows_chrono p hp calls TtlMap.init [] ⟨fun _ => rfl, fun h => absurd rfl h⟩
    (by intro i e h; simp at h) ⟨by simp, by simp, by simp⟩
  have := Rate.chrono_count p.limit p.period p.effTtl httl _ hchrono (fixed_window_runs_le p hp calls).1 w hw e0 he0
  rwa [fixed_window_partition] at this

/-! ## `slice_rate_limit` (sliding log) -/

/-- **Sliding window.**  For strictly increasing call instants, every half-open interval of length
`period` contains at most `limit` runs of the function — for every history and every `t`.
*Reading fixed here:* "any interval of length `period`" of the property is the half-open `[t, t + period)`;
the closed reading is `sliding_closed` (all `limit ≥ 2`) and fails at exactly one point for `limit = 1`
(`sliding_closed_limit_one`: two calls exactly `period` apart, nothing in between). -/
theorem sliding (p : SlideRate.Params) (hp : 0 < p.period) (calls : List Nat) (hinc : StrictlyIncreasing calls)
    (t : Nat) : runsIn (SlideRate.run p TtlMap.init calls) t p.period ≤ p.limit :=
  (SlideRate.run_bound_init p hp calls hinc t).1

/-- **Sliding window, closed intervals.**  With `limit ≥ 2` the same holds for every *closed*
interval `[t, t + period]`.  (With `limit = 1` two calls exactly `period` apart both run, because the
log key lapses at its deadline — see the remark `sliding_closed_limit_one` below.) -/
theorem sliding_closed (p : SlideRate.Params) (hp : 0 < p.period) (hl : 2 ≤ p.limit) (calls : List Nat)
    (hinc : StrictlyIncreasing calls) (t : Nat) :
    runsInClosed (SlideRate.run p TtlMap.init calls) t p.period ≤ p.limit :=
  (SlideRate.run_bound_init p hp calls hinc t).2 hl

/-- the executable form evaluated by the harness holds of every model trace -/
theorem sliding_holds (p : SlideRate.Params) (hp : 0 < p.period) (calls : List Nat) (hinc : StrictlyIncreasing calls) :
    slidingHolds p.limit p.period (SlideRate.run p TtlMap.init calls) = true := by
  unfold slidingHolds
  rw [List.all_eq_true]
  intro e _
  have h := SlideRate.run_bound_init p hp calls hinc e.ts
  by_cases h2 : 2 ≤ p.limit
  · simp [h.1, h.2 h2]
  · simp [h.1]; omega

/-- **Remark (noted, not reported).**  Without strictly increasing instants the bound fails: the window
is half-open at `now`, so calls made at one and the same instant do not see each other — after any
wait `T`, `n + 1` calls at instant `T` all run, whatever `limit ≥ 1` is. -/
theorem sliding_equal_instants_unbounded (p : SlideRate.Params) (hl : 1 ≤ p.limit) (hp : 0 < p.period) (T n : Nat) :
    ∀ e ∈ SlideRate.run p TtlMap.init (T :: List.replicate n 0), e.dec = .run ∧ e.ts = T := by
  intro e he
  have hk : kept (TtlMap.init.step (.adv T)).1 SlideRate.key p.period (TtlMap.init.now + T) = [] := by
    unfold kept
    rw [logOf_none (TtlMap.find_none rfl)]
    rfl
  have hc := SlideRate.call_eq p TtlMap.init T
  rw [hk] at hc
  have h0 : TtlMap.init.now + T = T := by simp [TtlMap.init]
  simp only [SlideRate.run] at he
  rcases List.mem_cons.mp he with rfl | he
  · rw [hc]; simp [h0]; omega
  · have hnow : (SlideRate.call p TtlMap.init T).1.now = T := by rw [hc, sliceIncr_now]; exact h0
    have := SlideRate.same_instant_runs p hl hp n (SlideRate.call p TtlMap.init T).1 (by
      intro a ha
      rw [hnow]
      have := (SlideRate.logOf_after_call p hp TtlMap.init T a ha).2 hk
      omega) e he
    rw [hnow] at this
    exact this

/-! ## `circuit_breaker` -/
open Breaker

/-- **The breaker conforms to the property, call by call.**  For strictly increasing instants (and
fewer calls than the log cap 9999): every call made while the breaker is open — some earlier call
opened it less than `ttl` ago — is rejected; every other call runs the function, and it opens the
breaker exactly when the trip rule of the property holds (`shouldOpen`). -/
theorem breaker_conforms (p : Params) (hp : 0 < p.period) (httl : 0 < p.ttl) (calls : List (Nat × Outcome))
    (hinc : StrictlyIncreasing (calls.map (·.1))) (hlen : calls.length ≤ p.cap) :
    breakerHolds p (Breaker.run p TtlMap.init calls) = true :=
  Breaker.run_holds_init p hp httl calls hinc hlen

/-- **Trip rule.**  A call `e` made while the breaker is closed opens it if and only if it failed at
a moment at which, within the last `period` (the call itself included), at least `min_calls` calls
were made and the failed ones are at least `errors_rate` percent of them. -/
theorem breaker_trip_iff (p : Params) (hp : 0 < p.period) (httl : 0 < p.ttl) (calls : List (Nat × Outcome))
    (hinc : StrictlyIncreasing (calls.map (·.1))) (hlen : calls.length ≤ p.cap)
    (past : List BEv) (e : BEv) (rest : List BEv) (hsplit : Breaker.run p TtlMap.init calls = past ++ e :: rest)
    (hclosed : openAt p past e.ts = false) :
    e.opened = true ↔
      (e.failed = true ∧ p.minCalls ≤ totalAt past e.ts p.period ∧
        p.rate * totalAt past e.ts p.period ≤ 100 * failsAt past e.ts p.period) := by
  have h := Breaker.holdsFrom_split p _ [] past e rest (breaker_conforms p hp httl calls hinc hlen) hsplit
  simp only [List.nil_append, breakerStepHolds, hclosed, Bool.false_eq_true, if_false, Bool.and_eq_true, beq_iff_eq] at h
  rw [h.2]
  simp [shouldOpen, and_assoc]

/-- **While open it never runs the function**: a call made less than `ttl` after a call that opened
the breaker is rejected (`CircuitBreakerOpen`); conversely a call made while it is closed is let
through. -/
theorem breaker_open_never_runs (p : Params) (hp : 0 < p.period) (httl : 0 < p.ttl) (calls : List (Nat × Outcome))
    (hinc : StrictlyIncreasing (calls.map (·.1))) (hlen : calls.length ≤ p.cap)
    (past : List BEv) (e : BEv) (rest : List BEv) (hsplit : Breaker.run p TtlMap.init calls = past ++ e :: rest) :
    (openAt p past e.ts = true → e.res = .rejected) ∧ (openAt p past e.ts = false → e.admitted = true) := by
  have h := Breaker.holdsFrom_split p _ [] past e rest (breaker_conforms p hp httl calls hinc hlen) hsplit
  simp only [List.nil_append, breakerStepHolds] at h
  constructor
  · intro ho; simpa [ho] using h
  · intro ho
    simp only [ho, Bool.false_eq_true, if_false, Bool.and_eq_true] at h
    exact h.1

/-- the integer trip rule of the model is Python's float test: below the threshold the exact quotient
stays at least `1/total ≥ 1/9999` under the integer rate, far more than the rounding error of the
division (see the comment on `Breaker.trip_gap`) -/
theorem breaker_trip_rule_gap (rate total fails : Nat) (ht : total ≤ 9999) (hlt : fails * 100 < rate * total) :
    total ≤ 9999 * (rate * total - fails * 100) :=
  Breaker.trip_gap rate total fails ht hlt

/-! ## a rejected call never runs the function -/

/-- **Rejected ⇒ not executed, and the action is taken.**  In the models a call has exactly one of two
outcomes: `run` (the function is executed and its result or exception is passed through) or `reject`
(the function is not executed and the configured action is returned / the documented error raised);
the third constructor — a backend command failing because the key holds a non-number — never occurs
in any history of either limiter.  (That the real decorators take exactly one of the two branches is
what the harness observes on every call: executed flag × returned value × exception class.) -/
theorem rejected_never_runs (pf : Rate.Params) (ps : SlideRate.Params) (hp : 0 < pf.period) (calls : List Nat) :
    (∀ e ∈ Rate.run pf TtlMap.init calls, e.dec = .run ∨ e.dec = .reject) ∧
    (∀ e ∈ SlideRate.run ps TtlMap.init calls, e.dec = .run ∨ e.dec = .reject) := by
  constructor
  · intro e he
    have hflat := fixed_window_partition pf.period pf.effTtl (Rate.run pf TtlMap.init calls)
    rw [← hflat, List.mem_flatten] at he
    obtain ⟨w, hw, hew⟩ := he
    obtain ⟨i, hi, rfl⟩ := List.getElem_of_mem hew
    have := fixed_window pf hp calls w hw i w[i] (List.getElem?_eq_getElem hi)
    rw [this]
    split <;> simp
  · have : ∀ (calls : List Nat) (t : TtlMap), ∀ e ∈ SlideRate.run ps t calls, e.dec = .run ∨ e.dec = .reject := by
      intro calls
      induction calls with
      | nil => intro t e he; simp [SlideRate.run] at he
      | cons dt rest ih =>
        intro t e he
        simp only [SlideRate.run] at he
        rcases List.mem_cons.mp he with rfl | he
        · simp only [SlideRate.call]
          split <;> simp
        · exact ih _ e he
    exact this calls TtlMap.init

/-! ## interleavings of concurrent callers (schedules at backend-command granularity) -/
open Sched

/-- **Under every schedule** of any number of concurrent callers of one `rate_limit`-ed function —
steps of different callers interleaved arbitrarily, the `incr`/`expire` pair of a caller not being
atomic, virtual time passing between any two steps — the counter values drawn form ramps 1, 2, 3, …
that restart at 1 only when the counter has lapsed, and a caller goes on to the function body iff the
value it drew is at most `limit`. -/
theorem sched_counter (p : Rate.Params) (ocs : List Outcome) (acts : List Act) :
    RampFrom 0 ((incrEvents (.fixed p) (Sched.init ocs) acts).map (·.1)) ∧
    ∀ e ∈ incrEvents (.fixed p) (Sched.init ocs) acts, e.2 = decide (e.1 ≤ p.limit) :=
  events_ramp p acts (Sched.init ocs) 0 (counterInv_init ocs)

/-- **…hence between two lapses of the counter at most `limit` callers are admitted, under every
schedule**: in any stretch `seg` of consecutive draws that contains no restart after its first draw,
at most `limit` callers went on to the function body. -/
theorem sched_never_more_than_limit (p : Rate.Params) (ocs : List Outcome) (acts : List Act)
    (a seg b : List (Nat × Bool)) (hsplit : incrEvents (.fixed p) (Sched.init ocs) acts = a ++ seg ++ b)
    (hseg : ∀ e ∈ seg.tail, e.1 ≠ 1) : seg.countP (·.2) ≤ p.limit := by
  obtain ⟨hramp, hadm⟩ := sched_counter p ocs acts
  rw [hsplit] at hramp
  simp only [List.map_append] at hramp
  have := ramp_segment p.limit 0 (a.map (·.1)) (seg.map (·.1)) (b.map (·.1)) hramp (by
    intro n hn
    rw [← List.map_tail, List.mem_map] at hn
    obtain ⟨e, he, rfl⟩ := hn
    exact hseg e he)
  rw [List.countP_map] at this
  refine Nat.le_trans (Nat.le_of_eq ?_) this
  apply List.countP_congr
  intro e he
  have := hadm e (by rw [hsplit]; simp [he])
  simp [this]

/-- **A concurrent caller that finds the breaker open never runs the function**, under every schedule:
once its `is_locked(":open")` step answered true the task is finished without having executed the body,
whatever is scheduled afterwards. -/
theorem sched_open_never_runs (k : Kind) (w : World) (i : Nat) (later : List Act)
    (h : (Sched.step k w (.task i)).2 = .isLocked true) :
    ((Sched.run k (Sched.step k w (.task i)).1 later).1.tasks[i]?).map (·.phase) = some (.done false false) :=
  run_done k i false false later _ (step_isLocked_true k w i h)

/-! ## `period` / `ttl` as the application writes them

The decorators run `period` and `ttl` through `cashews.ttl.ttl_to_seconds` when they are built
(`Model/TtlFacade.lean`: `Rate.Spelled.params` etc. over C02's model `Ttl.Plain.ticks`); the theorems above are about
the tick-valued parameters.  `Ttl.Denotes p t` says what a spelling means without looking at the parser (an int /
float is seconds, a timedelta its total length - days included -, a duration string the sum of its segments); that
the conversion gives exactly that is `Ttl.Denotes.ticks_eq` (Lemmas/TtlFacade.lean, over C02's parser lemmas).
Each theorem below is the property composed with that fact: a limiter / breaker configured with *any* spelling of
`P` (and `T`) ticks is the limiter / breaker of the theorems above with `period = P` (`ttl = T`). -/
/-- **rate_limit, spelled.**  If `period` denotes `P > 0` ticks and `ttl` (when given) denotes `T` ticks, the decorator
is built (no ValueError) with exactly `period = P`, `ttl = T`, and in every counter window - cut by `P` and the ban
`T or P` - of every history exactly the first `limit` calls run. -/
theorem rate_limit_spelled (s : Rate.Spelled) (P : Nat) (T : Option Nat) (hP : Ttl.Denotes s.period P)
    (hT : Ttl.DenotesOpt s.ttl T) (hp : 0 < P) (calls : List Nat) :
    ∃ p : Rate.Params, s.params = some p ∧ p.limit = s.limit ∧ p.period = P ∧ p.ttl = T ∧
      ∀ w ∈ windows P p.effTtl [] (Rate.run p TtlMap.init calls), RunsFirst s.limit w := by
  refine ⟨⟨s.limit, P, T⟩, ?_, rfl, rfl, rfl, fixed_window ⟨s.limit, P, T⟩ hp calls⟩
  simp [Rate.Spelled.params, hP.ticks_eq, Ttl.DenotesOpt.lower_eq hT]

/-- **slice_rate_limit, spelled.**  If `period` denotes `P > 0` ticks the limiter is built with `period = P` and, for
strictly increasing instants, every half-open interval of `P` ticks contains at most `limit` runs. -/
theorem slice_rate_limit_spelled (s : SlideRate.Spelled) (P : Nat) (hP : Ttl.Denotes s.period P) (hp : 0 < P)
    (calls : List Nat) (hinc : StrictlyIncreasing calls) (t : Nat) :
    ∃ p : SlideRate.Params, s.params = some p ∧ p.limit = s.limit ∧ p.period = P ∧
      runsIn (SlideRate.run p TtlMap.init calls) t P ≤ s.limit := by
  refine ⟨⟨s.limit, P⟩, ?_, rfl, rfl, sliding ⟨s.limit, P⟩ hp calls hinc t⟩
  simp [SlideRate.Spelled.params, hP.ticks_eq]

/-- **circuit_breaker, spelled.**  If `period` denotes `P > 0` and `ttl` denotes `T > 0` ticks the breaker is built with
exactly these, and conforms call by call (`breaker_conforms`): open for `T` ticks after a trip - a day and a minute
when `ttl=timedelta(days=1, minutes=1)` -, counts taken over the last `P` ticks. -/
theorem circuit_breaker_spelled (s : Breaker.Spelled) (P T : Nat) (hP : Ttl.Denotes s.period P) (hT : Ttl.Denotes s.ttl T)
    (hp : 0 < P) (httl : 0 < T) (calls : List (Nat × Outcome)) (hinc : StrictlyIncreasing (calls.map (·.1)))
    (hlen : calls.length ≤ 9999) :
    ∃ p : Breaker.Params, s.params = some p ∧ p.rate = s.rate ∧ p.period = P ∧ p.ttl = T ∧ p.minCalls = s.minCalls ∧
      breakerHolds p (Breaker.run p TtlMap.init calls) = true := by
  refine ⟨{ rate := s.rate, period := P, ttl := T, minCalls := s.minCalls }, ?_, rfl, rfl, rfl, rfl,
    breaker_conforms _ hp httl calls hinc hlen⟩
  simp [Breaker.Spelled.params, hP.ticks_eq, hT.ticks_eq]

/-- **rate_limit with callable durations, every combination.**  `period` and `ttl` may each be plain or a callable of
the call's arguments - plain + plain, callable period, callable ttl, both.  If for the arguments `args` of a call
`period` denotes `P` ticks and `ttl` (when given) denotes `T` ticks, that call works with exactly `period = P`,
`ttl = T`: each of the two is resolved on its own, so the ban a first rejection arms is the `T or P` of `fixed_window`
whether or not the *other* duration is a callable.  For calls that all resolve to the same `P > 0`, `T` the history is
therefore the `Rate.run` of `fixed_window` with these parameters. -/
theorem rate_limit_callable_spelled (s : Rate.SpelledC) (args P : Nat) (T : Option Nat)
    (hP : Ttl.DenotesAt args s.period P)
    (hT : match s.ttl, T with | none, none => True | some sp, some t => Ttl.DenotesAt args sp t | _, _ => False)
    (hp : 0 < P) (calls : List Nat) :
    ∃ p : Rate.Params, s.paramsAt args = some p ∧ p.limit = s.limit ∧ p.period = P ∧ p.ttl = T ∧
      ∀ w ∈ windows P p.effTtl [] (Rate.run p TtlMap.init calls), RunsFirst s.limit w := by
  refine ⟨⟨s.limit, P, T⟩, ?_, rfl, rfl, rfl, fixed_window ⟨s.limit, P, T⟩ hp calls⟩
  unfold Rate.SpelledC.paramsAt
  rw [hP.ticks_eq]
  cases hs : s.ttl with
  | none => cases T with
    | none => rfl
    | some t => simp [hs] at hT
  | some sp => cases T with
    | none => simp [hs] at hT
    | some t =>
      simp only [hs] at hT
      simp [Ttl.DenotesAt.ticks_eq hT]

/-- **slice_rate_limit with a callable period**: a call whose arguments make `period` denote `P > 0` ticks works with
`period = P`; for calls that all resolve to the same `P` the bound of `sliding` holds. -/
theorem slice_rate_limit_callable_spelled (s : SlideRate.SpelledC) (args P : Nat) (hP : Ttl.DenotesAt args s.period P)
    (hp : 0 < P) (calls : List Nat) (hinc : StrictlyIncreasing calls) (t : Nat) :
    ∃ p : SlideRate.Params, s.paramsAt args = some p ∧ p.limit = s.limit ∧ p.period = P ∧
      runsIn (SlideRate.run p TtlMap.init calls) t P ≤ s.limit := by
  refine ⟨⟨s.limit, P⟩, ?_, rfl, rfl, sliding ⟨s.limit, P⟩ hp calls hinc t⟩
  simp [SlideRate.SpelledC.paramsAt, hP.ticks_eq]

/-- **The trip test is exact.**  The breaker's decision on the counts `(total, fails)` is
`total ≠ 0 ∧ min_calls ≤ total ∧ errors_rate · total ≤ 100 · fails` - a comparison of the exact share with the
threshold, not of a rounded or truncated percentage: a share strictly below `errors_rate` never trips, however close
(2 of 3 against 67, 1 of 6 against 17, 3 of 7 against 43: all round onto the threshold, none trips). -/
theorem breaker_trip_is_exact (p : Breaker.Params) (total fails : Nat) :
    (Breaker.trips p total fails = true ↔ total ≠ 0 ∧ p.minCalls ≤ total ∧ p.rate * total ≤ fails * 100) ∧
    (fails * 100 < p.rate * total → Breaker.trips p total fails = false) := by
  unfold Breaker.trips
  constructor
  · simp only [Bool.and_eq_true, bne_iff_ne, ne_eq, Bool.not_eq_true', decide_eq_false_iff_not, Nat.not_lt,
      decide_eq_true_eq, and_assoc]
  · intro h
    have : ¬ p.rate * total ≤ fails * 100 := by omega
    simp [this]

/-! ## Non-vacuity: the models do something, the hypotheses are satisfiable, the remarks are real -/

/-- limit 2, period 1 s, ban 2 s: calls at 0, ⅛, ¼ (rejected: ban until 2¼ s), 1 s (still banned although the
period is over), 2¼ s (runs: the ban lapsed exactly now) -/
example : Rate.run ⟨2, 8, some 16⟩ TtlMap.init [0, 1, 1, 6, 10] =
    [⟨0, .run⟩, ⟨1, .run⟩, ⟨2, .reject⟩, ⟨8, .reject⟩, ⟨18, .run⟩] := by decide

example : windows 8 16 [] (Rate.run ⟨2, 8, some 16⟩ TtlMap.init [0, 1, 1, 6, 10]) =
    [[⟨0, .run⟩, ⟨1, .run⟩, ⟨2, .reject⟩, ⟨8, .reject⟩], [⟨18, .run⟩]] := by decide

/-- a fixed window bounds runs per *counter window*, not per arbitrary interval: limit 2, period 1 s, calls at
0, ⅞, 1, 1⅛ s all run — three of them inside [⅞, 1⅞) (inherent to fixed windows; not judged) -/
example : runsIn (Rate.run ⟨2, 8, none⟩ TtlMap.init [0, 7, 1, 1]) 7 8 = 3 := by decide

/-- with a ban shorter than the period (`ttl < period`) the counter lapses early: limit 1, period 1 s, ban ⅛ s,
calls at 0 (runs), ⅛ (rejected, ban until ¼), ¼ s (runs) — two runs within one period; the hypothesis
`period ≤ ttl` of `fixed_window_per_period` is needed -/
example : runsIn (Rate.run ⟨1, 8, some 1⟩ TtlMap.init [0, 1, 1]) 0 8 = 2 := by decide

/-- …and is satisfiable: the default (`ttl` not given) is `ttl = period` -/
example : (⟨2, 8, none⟩ : Rate.Params).period ≤ (⟨2, 8, none⟩ : Rate.Params).effTtl := by decide

/-- `StrictlyIncreasing` is satisfiable by a history that straddles a window boundary -/
example : StrictlyIncreasing [0, 4, 4, 1] := by decide

example : SlideRate.run ⟨2, 8⟩ TtlMap.init [0, 4, 4, 1, 3] =
    [⟨0, .run⟩, ⟨4, .run⟩, ⟨8, .reject⟩, ⟨9, .reject⟩, ⟨12, .reject⟩] := by decide

/-- **Remark.**  With `limit = 1` the closed-interval bound fails at exactly one point: two calls exactly
`period` apart with nothing in between both run (the log key lapses at its deadline, as every key does). -/
theorem sliding_closed_limit_one :
    StrictlyIncreasing [0, 8] ∧ runsInClosed (SlideRate.run ⟨1, 8⟩ TtlMap.init [0, 8]) 0 8 = 2 := by decide

/-- breaker 50 %, period 1 s, open for 2 s, min_calls 2: the first failure does not trip it (one call), the second
does; the call at ¼ s is rejected; at 2⅛ s (exactly `ttl` after the trip) it is closed again -/
example : (Breaker.run { rate := 50, period := 8, ttl := 16, minCalls := 2 } TtlMap.init
      [(0, .fail), (1, .fail), (1, .ok), (15, .ok)]).map (fun e => (e.ts, e.res, e.openAfter)) =
    [(0, .ran .fail false, false), (1, .ran .fail true, true), (2, .rejected, true), (17, .ran .ok false, false)] := by
  decide

example : StrictlyIncreasing ([(0, Outcome.fail), (1, .fail), (1, .ok), (15, .ok)].map (·.1)) ∧
    [(0, Outcome.fail), (1, .fail), (1, .ok), (15, .ok)].length ≤ (9999 : Nat) := by decide

/-- two concurrent callers, limit 1: caller 0 draws 1, caller 1 draws 2 *before* caller 0's body runs; caller 1's
`expire` comes last -/
example : incrEvents (.fixed ⟨1, 8, some 4⟩) (Sched.init [.ok, .ok])
    [.task 0, .task 1, .task 0, .task 1, .tick 1, .task 0, .task 1] = [(1, true), (2, false)] := by decide

/-- spelled parameters: `rate_limit(limit=2, period=timedelta(days=1, hours=1))` is a limiter with a period of
720000 ticks (25 h, not 1 h): the third call is rejected and bans until 25 h after it; a call just past one hour is
still rejected, as is the one at 25 h + ⅛ s; the call at 25 h + ¼ s runs -/
example : (Rate.Spelled.params ⟨2, .delta (Ttl.TDelta.ticks ⟨1, 3600, 0⟩), none⟩).map
      (fun p => (p.period, Rate.run p TtlMap.init [0, 1, 1, 28801, 691198, 1])) =
    some (720000, [⟨0, .run⟩, ⟨1, .run⟩, ⟨2, .reject⟩, ⟨28803, .reject⟩, ⟨720001, .reject⟩, ⟨720002, .run⟩]) := by decide

/-- `slice_rate_limit(limit=1, period="2d")`: a second call ⅛ s before two days have passed is rejected, one ⅛ s
after them runs -/
example : (SlideRate.Spelled.params ⟨1, .str "2d".toList⟩).map
      (fun p => (p.period, SlideRate.run p TtlMap.init [0, 1382399], SlideRate.run p TtlMap.init [0, 1382401])) =
    some (1382400, [⟨0, .run⟩, ⟨1382399, .reject⟩], [⟨0, .run⟩, ⟨1382401, .run⟩]) := by decide

/-- `circuit_breaker(50, period=60, ttl=timedelta(days=1, minutes=1), min_calls=1)`: tripped at 0, still open a
minute later, closed again exactly one day and one minute after the trip -/
example : (Breaker.Spelled.params ⟨50, .int 60, .delta (Ttl.TDelta.ticks ⟨1, 60, 0⟩), 1⟩).map
      (fun p => (p.ttl, (Breaker.run p TtlMap.init [(0, .fail), (481, .ok), (691198, .ok), (1, .ok)]).map (fun e => (e.ts, e.res)))) =
    some (691680, [(0, .ran .fail true), (481, .rejected), (691679, .rejected), (691680, .ran .ok false)]) := by decide

/-- the hypotheses of the `*_spelled` theorems are satisfiable with a days-carrying timedelta and a composite string -/
example : Ttl.Denotes (.delta (Ttl.TDelta.ticks ⟨1, 3600, 0⟩)) 720000 ∧
    Ttl.DenotesOpt (some (.str (Ttl.render [(1, .d), (90, .s)]))) (some (8 * 86490)) :=
  ⟨.delta ⟨1, 3600, 0⟩, .given (.segments [(1, .d), (90, .s)])⟩

/-- a spelling the parser refuses: the decorator is not built -/
example : (SlideRate.Spelled.params ⟨1, .str "1w".toList⟩).isNone = true := by decide

/-- the four combinations for `rate_limit(limit=2, period=2 s, ttl=6 s)`: plain / callable period with plain / callable
ttl all resolve to the same parameters for a call with arguments 7 (the callables look at their argument) -/
example : let per : Ttl.Spelling := .plain (.int 2)
    let perC : Ttl.Spelling := .callable fun a _ => if a = 7 then .delta 16 else .int 0
    let ttl : Ttl.Spelling := .plain (.str "6s".toList)
    let ttlC : Ttl.Spelling := .callable fun a _ => if a = 7 then .float 48 else .int 0
    [Rate.SpelledC.paramsAt ⟨2, per, some ttl⟩ 7, Rate.SpelledC.paramsAt ⟨2, perC, some ttl⟩ 7,
     Rate.SpelledC.paramsAt ⟨2, per, some ttlC⟩ 7, Rate.SpelledC.paramsAt ⟨2, perC, some ttlC⟩ 7].map
      (fun o => o.map fun p => (p.limit, p.period, p.ttl)) = List.replicate 4 (some (2, 16, some 48)) := by decide

/-- shares that round onto the threshold do not trip; the next lower threshold does -/
example : Breaker.trips { rate := 67, period := 32, ttl := 16, minCalls := 3 } 3 2 = false ∧
    Breaker.trips { rate := 66, period := 32, ttl := 16, minCalls := 3 } 3 2 = true ∧
    Breaker.trips { rate := 17, period := 32, ttl := 16, minCalls := 1 } 6 1 = false ∧
    Breaker.trips { rate := 43, period := 32, ttl := 16, minCalls := 1 } 7 3 = false := by decide

end CashewsVerif.Props.C15
