import CashewsVerif.Lemmas.SingleFlight
/-
C07 — single-flight: one execution per key in flight, shared by all waiters; cancelling one caller
affects only that caller.  Property theorems only; the model is `Model/SingleFlight.lean`, the invariant
and its preservation are in `Lemmas/SingleFlight.lean`.

Every theorem quantifies over *all* traces `tr : List Act` of the transition system (any number of callers,
keys, executions, any interleaving of calls, body steps, completions, cancellations - cancellations of
any number of callers at any point, not just one - and TIME STEPS `tick d` of any duration at any position),
starting from the empty state, with the executions running either the bare function (`b = false`) or a cache
decorator (`b = true`) whose ttl is any `T` (in ticks).  Time steps are stutter steps for single-flight
(`time_step_is_stutter`): the property has no ttl carve-out - an execution is joined while it is in flight however
long it has been running (`old_execution_is_still_joined`), and for the bare decorator time steps can be erased
from a trace altogether (`time_erasure_bare`).  The clock is read by the cache decorator underneath only: is a stored
result still there / still fresh for a call that found nothing in flight (`look`), is the lock key still there.

The configuration `cfg : Cfg` is arbitrary in every theorem: bare function, plain cache decorator, or `early` with any
ttl / early_ttl, `background` or not.  `early`'s RECALCULATIONS - tasks that call the wrapped function again for a stale
value, outside `tasks` - are part of the model (`recalcs`, `rtable`, `lock`, actions `rstep` / `rfinish`); the bound
"one body per key at a time" (`body_running_count_le_one`) counts them, needs the per-key `recalculations` table of
repair D44 (`cfg.guarded = true`) and fails without it (`recalculation_table_is_necessary`).

An execution's outcome is one of three: it returned a value, raised an exception, or *ended cancelled*
(`Outcome.cancelled`: the body's own await was cancelled underneath it - distinct from the cancellation of a
caller, which is the `cancel` action).  Every theorem below is for all three.  An exception outcome is the
exception OBJECT: a class and an opaque payload (arguments, message, attributes, cause, ...); `waiters_share_outcome`
says a waiter holds exactly `x.outcome` - class and payload - and `exception_delivered_unchanged`,
`waiters_receive_the_same` spell that out.  The `key` of a call is the
rendered cache key, not the argument list (`Args`, `cacheKey`, `Act.callWith` in the model).

Trusted, not proved (DESIGN §3): asyncio runs a task without preemption up to its next suspension point
(A1: a `call` is atomic), cancelling a task that awaits `asyncio.shield(t)` does not cancel `t` (A2: the
`cancel` action touches the caller only), and a task that ended cancelled is done - its done-callbacks run and
its shielded waiters get `CancelledError` (A3).  The harness exercises all three against the real event loop.
-/
namespace CashewsVerif.Props.C07
open CashewsVerif.SingleFlight

/-- every reachable state satisfies the invariant -/
theorem reachable_inv (cfg : Cfg) (tr : List Act) : Inv (run (init cfg) tr) :=
  inv_run _ (inv_init cfg) tr

/-- **At most one execution per key in flight**, for every interleaving: two unfinished executions of the
same key are the same execution. -/
theorem at_most_one_running (cfg : Cfg) (tr : List Act) (key e1 e2 : Nat)
    (h1 : InFlight (run (init cfg) tr) e1 key) (h2 : InFlight (run (init cfg) tr) e2 key) : e1 = e2 :=
  inflight_unique _ (reachable_inv cfg tr) key e1 e2 h1 h2

/-- The same as a counter (the quantity the harness observes and the driver prints): the number of
executions in flight for a key never exceeds one. -/
theorem running_count_le_one (cfg : Cfg) (tr : List Act) (key : Nat) :
    inFlightCount (run (init cfg) tr) key ≤ 1 := by
  have h := reachable_inv cfg tr
  apply filter_length_le_one _ _ h.nodup
  intro a c _ _ ha hc
  exact inflight_unique _ h key a c ((inFlightB_iff _ _ _).1 ha) ((inFlightB_iff _ _ _).1 hc)

/-- every reachable state of a configuration with the `recalculations` table satisfies the recalculation invariant -/
theorem reachable_rinv (cfg : Cfg) (hg : cfg.guarded = true) (tr : List Act) : RInv (run (init cfg) tr) :=
  rinv_run _ (inv_init cfg) (rinv_init cfg) hg tr

/-- ... and so **the wrapped body is never running twice at the same time for one key** - counting the bodies run
by executions (`tasks`) AND by `early`'s recalculations (background or awaited) together, in every reachable state:
any interleaving of calls, body steps, completions, cancellations and time steps of any length, so that the lock
key and the stored value may expire while a recalculation is still running.  (`cfg.guarded`: the `recalculations`
table of D44 is there; `recalculation_table_is_necessary` shows that without it the bound fails.) -/
theorem body_running_count_le_one (cfg : Cfg) (hg : cfg.guarded = true) (tr : List Act) (key : Nat) :
    bodyRunningCount (run (init cfg) tr) key ≤ 1 :=
  body_count_le_one _ (reachable_inv cfg tr) (reachable_rinv cfg hg tr) key

/-- **A concurrent call joins.**  While `e` is in flight for `key`, a call with that key by a new caller
starts nothing: the caller waits on `e`, the set of executions and the table are unchanged. -/
theorem concurrent_call_joins (cfg : Cfg) (tr : List Act) (key e c n : Nat) (o : Outcome)
    (he : InFlight (run (init cfg) tr) e key) (hc : (run (init cfg) tr).callers c = none) :
    (step (run (init cfg) tr) (.call c key n o)).callers c = some ⟨some e, .waiting⟩ ∧
    (step (run (init cfg) tr) (.call c key n o)).execs = (run (init cfg) tr).execs ∧
    (step (run (init cfg) tr) (.call c key n o)).created = (run (init cfg) tr).created ∧
    (step (run (init cfg) tr) (.call c key n o)).table = (run (init cfg) tr).table := by
  have h := reachable_inv cfg tr
  generalize run (init cfg) tr = s at *
  obtain ⟨x, hx, hk, hf⟩ := he
  have ht : s.table key = some e := by
    have := h.reg e x hx hf
    rwa [hk] at this
  simp only [step_call]
  unfold stepCall
  rw [hc, ht]
  exact ⟨by simp, rfl, rfl, rfl⟩

/-- **Every call attaches to an execution of its key.**  Whatever the state, a call by a new caller leaves
the caller waiting on an execution that is in flight for exactly the key it called with - the one already
there, or a new one when the key was free.  (Together with `at_most_one_running`: *the* execution.) -/
theorem call_attaches (cfg : Cfg) (tr : List Act) (key c n : Nat) (o : Outcome)
    (hc : (run (init cfg) tr).callers c = none) :
    ∃ e, (run (init cfg) (tr ++ [.call c key n o])).callers c = some ⟨some e, .waiting⟩ ∧
      InFlight (run (init cfg) (tr ++ [.call c key n o])) e key := by
  have h := reachable_inv cfg tr
  have e1 : run (init cfg) (tr ++ [.call c key n o]) = step (run (init cfg) tr) (.call c key n o) := by
    rw [run_append]; rfl
  rw [e1]
  generalize run (init cfg) tr = s at *
  cases ht : s.table key with
  | some e =>
    obtain ⟨x, hx, hk, hf⟩ := h.tab key e ht
    refine ⟨e, ?_, x, ?_, hk, hf⟩ <;> (simp only [step_call]; unfold stepCall; rw [hc, ht])
    · simp
    · exact hx
  | none =>
    refine ⟨c, ?_, newExec s c key n o, ?_, newExec_key _ _ _ _ _, newExec_unfinished _ _ _ _ _⟩
    · simp only [step_call]; unfold stepCall; rw [hc, ht]; simp
    · simp only [step_call]; unfold stepCall; rw [hc, ht]; simp

/-- **Waiters share the outcome.**  In every reachable state, a caller that joined (or started) execution
`e` and was not cancelled is either still waiting on the *unfinished* `e`, or holds exactly `e`'s outcome -
returned value, raised exception, or the `CancelledError` of an execution that ended cancelled - and `e` has
finished.  In particular nobody is left waiting on a
finished execution and nobody receives anything else. -/
theorem waiters_share_outcome (cfg : Cfg) (tr : List Act) (c e : Nat) (st : CSt)
    (hc : (run (init cfg) tr).callers c = some ⟨some e, st⟩) (hnc : st ≠ .cancelled) :
    ∃ x, (run (init cfg) tr).execs e = some x ∧
      ((st = .waiting ∧ x.finished = false) ∨ (st = .got x.outcome ∧ x.finished = true)) := by
  obtain ⟨x, hx, hok⟩ := (reachable_inv cfg tr).joined c e st hc
  refine ⟨x, hx, ?_⟩
  rcases hok with h | h | h
  · exact absurd h hnc
  · exact Or.inl h
  · exact Or.inr h

/-- The outcome a waiter receives is the one scripted when the execution was created: key, outcome and
hit-flag of an execution never change, whatever happens later. -/
theorem exec_script_fixed (cfg : Cfg) (tr tr2 : List Act) (e : Nat) (x : Exec)
    (hx : (run (init cfg) tr).execs e = some x) :
    ∃ x', (run (init cfg) (tr ++ tr2)).execs e = some x' ∧ x'.key = x.key ∧ x'.outcome = x.outcome ∧
      x'.hit = x.hit ∧ (x.finished = true → x'.finished = true) := by
  rw [run_append]
  obtain ⟨x', hx', h1, h2, h3, h4, _⟩ := exec_run _ (reachable_inv cfg tr) tr2 e x hx
  exact ⟨x', hx', h1, h2, h3, h4⟩

/-- **Completion fans out and clears the table.**  When an unfinished execution with no suspension point left
finishes (with any outcome - a value, an exception, or ended cancelled): every caller waiting on it receives its outcome, every other caller is untouched, its key becomes
free and no other key is affected. -/
theorem finish_delivers (cfg : Cfg) (tr : List Act) (e : Nat) (x : Exec)
    (hx : (run (init cfg) tr).execs e = some x) (hf : x.finished = false) (hr : x.remaining = 0)
    (hb : blocked (run (init cfg) tr) x = false) :
    (∀ c, (run (init cfg) tr).callers c = some ⟨some e, .waiting⟩ →
        (step (run (init cfg) tr) (.finish e)).callers c = some ⟨some e, .got x.outcome⟩) ∧
    (∀ c, (run (init cfg) tr).callers c ≠ some ⟨some e, .waiting⟩ →
        (step (run (init cfg) tr) (.finish e)).callers c = (run (init cfg) tr).callers c) ∧
    (step (run (init cfg) tr) (.finish e)).table x.key = none ∧
    (∀ k, k ≠ x.key → (step (run (init cfg) tr) (.finish e)).table k = (run (init cfg) tr).table k) := by
  generalize run (init cfg) tr = s at *
  simp only [step_finish]
  unfold stepFinish
  rw [hx]
  simp only [hf, hr, hb, Bool.false_eq_true, ne_eq, not_true_eq_false, or_self, if_false]
  refine ⟨?_, ?_, by simp, fun k hk => by simp [upd_apply, hk]⟩
  · intro c hc
    rcases deliver_cases s.callers e x.outcome c with ⟨_, h2⟩ | ⟨h1, _⟩
    · exact h2
    · exact absurd hc h1
  · intro c hc
    rcases deliver_cases s.callers e x.outcome c with ⟨h1, _⟩ | ⟨_, h2⟩
    · exact absurd h1 hc
    · exact h2

/-- **After the completion the key is free** - after ANY completion: `x.outcome` is arbitrary (returned, raised,
ended cancelled; `cancelled_execution_is_over` spells the last case out): the next call with that key (by any new caller) starts a new
execution - distinct from the finished one, in flight, with the caller waiting on it. -/
theorem table_cleared_on_finish (cfg : Cfg) (tr : List Act) (e : Nat) (x : Exec)
    (hx : (run (init cfg) tr).execs e = some x) (hf : x.finished = false) (hr : x.remaining = 0)
    (hb : blocked (run (init cfg) tr) x = false)
    (c n : Nat) (o : Outcome) (hc : (run (init cfg) (tr ++ [.finish e])).callers c = none) :
    (run (init cfg) (tr ++ [.finish e])).table x.key = none ∧
    c ≠ e ∧
    InFlight (run (init cfg) (tr ++ [.finish e, .call c x.key n o])) c x.key ∧
    (run (init cfg) (tr ++ [.finish e, .call c x.key n o])).callers c = some ⟨some c, .waiting⟩ ∧
    (∃ x', (run (init cfg) (tr ++ [.finish e, .call c x.key n o])).execs e = some x' ∧ x'.finished = true) := by
  have hfin := (finish_delivers cfg tr e x hx hf hr hb).2.2.1
  have hinv := reachable_inv cfg (tr ++ [.finish e])
  have e1 : run (init cfg) (tr ++ [.finish e]) = step (run (init cfg) tr) (.finish e) := by
    rw [run_append]; rfl
  have e2 : run (init cfg) (tr ++ [.finish e, .call c x.key n o]) =
      step (run (init cfg) (tr ++ [.finish e])) (.call c x.key n o) := by
    rw [run_append, run_append]; rfl
  rw [← e1] at hfin
  have hex : ∃ x', (run (init cfg) (tr ++ [.finish e])).execs e = some x' ∧ x'.finished = true := by
    rw [e1]
    show ∃ x', (stepFinish (run (init cfg) tr) e).execs e = some x' ∧ _
    unfold stepFinish
    rw [hx]
    simp only [hf, hr, hb, Bool.false_eq_true, ne_eq, not_true_eq_false, or_self, if_false]
    exact ⟨_, if_pos rfl, rfl⟩
  have hce : c ≠ e := by
    intro hh
    subst hh
    obtain ⟨x', hx', _⟩ := hex
    exact hinv.fresh c (by rw [hx']; simp) hc
  rw [e2]
  generalize run (init cfg) (tr ++ [.finish e]) = s at *
  refine ⟨hfin, hce, ?_, ?_, ?_⟩
  · show InFlight (stepCall s c x.key n o) c x.key
    unfold stepCall
    rw [hc, hfin]
    exact ⟨newExec s c x.key n o, by simp, newExec_key _ _ _ _ _, newExec_unfinished _ _ _ _ _⟩
  · show (stepCall s c x.key n o).callers c = _
    unfold stepCall
    rw [hc, hfin]
    simp
  · obtain ⟨x', hx', hf'⟩ := hex
    obtain ⟨y, hy, hl⟩ := exec_step s hinv (.call c x.key n o) e x' hx'
    exact ⟨y, hy, hl.2.2.2.1 hf'⟩

/-- **The registry key is the cache key, not the argument list.**  Two calls whose arguments render to the
same cache key - however they differ in what the key template leaves out (a per-request session, ...) - made
one after the other from any reachable state end up waiting on one and the same in-flight execution of that
key, and the second call starts nothing. -/
theorem same_cache_key_shares (cfg : Cfg) (tr : List Act) (c1 c2 n1 n2 : Nat) (o1 o2 : Outcome) (a1 a2 : Args)
    (hk : cacheKey a1 = cacheKey a2) (h12 : c2 ≠ c1)
    (h1 : (run (init cfg) tr).callers c1 = none) (h2 : (run (init cfg) tr).callers c2 = none) :
    ∃ e, (run (init cfg) (tr ++ [.callWith c1 a1 n1 o1, .callWith c2 a2 n2 o2])).callers c1 = some ⟨some e, .waiting⟩ ∧
      (run (init cfg) (tr ++ [.callWith c1 a1 n1 o1, .callWith c2 a2 n2 o2])).callers c2 = some ⟨some e, .waiting⟩ ∧
      InFlight (run (init cfg) (tr ++ [.callWith c1 a1 n1 o1, .callWith c2 a2 n2 o2])) e (cacheKey a1) ∧
      (run (init cfg) (tr ++ [.callWith c1 a1 n1 o1, .callWith c2 a2 n2 o2])).created =
        (run (init cfg) (tr ++ [.callWith c1 a1 n1 o1])).created := by
  obtain ⟨e, he1, hfl⟩ := call_attaches cfg tr (cacheKey a1) c1 n1 o1 h1
  have e1 : run (init cfg) (tr ++ [.call c1 (cacheKey a1) n1 o1]) = step (run (init cfg) tr) (.call c1 (cacheKey a1) n1 o1) := by
    rw [run_append]; rfl
  have h2' : (run (init cfg) (tr ++ [.call c1 (cacheKey a1) n1 o1])).callers c2 = none := by
    rw [e1, call_other_caller _ c1 c2 _ _ _ h12]; exact h2
  obtain ⟨j1, j2, j3, _⟩ := concurrent_call_joins cfg (tr ++ [.call c1 (cacheKey a1) n1 o1]) (cacheKey a1) e c2 n2 o2 hfl h2'
  have e2 : run (init cfg) (tr ++ [.callWith c1 a1 n1 o1, .callWith c2 a2 n2 o2]) =
      step (run (init cfg) (tr ++ [.call c1 (cacheKey a1) n1 o1])) (.call c2 (cacheKey a1) n2 o2) := by
    rw [run_append, run_append]
    show step (step _ (.call c1 (cacheKey a1) n1 o1)) (.call c2 (cacheKey a2) n2 o2) = _
    rw [← hk]; rfl
  rw [e2]
  refine ⟨e, ?_, j1, ?_, j3⟩
  · rw [call_other_caller _ c2 c1 _ _ _ (Ne.symm h12)]; exact he1
  · obtain ⟨x, hx, hk', hf⟩ := hfl
    exact ⟨x, by rw [j2]; exact hx, hk', hf⟩

/-- **Two calls share an execution iff they have the same (rendered cache) key.**  From any reachable state, two
new callers call one after the other with keys `k1`, `k2` (whatever the arguments were that rendered to them, whoever
the callers are - plain callers or tasks spawned by an earlier body - and whatever else is in flight): they end up
attached to one and the same execution exactly when `k1 = k2`.  Equal arguments that render differently, or the same
arguments under another template context, are different keys: different executions. -/
theorem share_iff_same_key (cfg : Cfg) (tr : List Act) (c1 c2 k1 k2 n1 n2 : Nat) (o1 o2 : Outcome) (h12 : c2 ≠ c1)
    (h1 : (run (init cfg) tr).callers c1 = none) (h2 : (run (init cfg) tr).callers c2 = none) :
    (∃ e st1 st2, (run (init cfg) (tr ++ [.call c1 k1 n1 o1, .call c2 k2 n2 o2])).callers c1 = some ⟨some e, st1⟩ ∧
      (run (init cfg) (tr ++ [.call c1 k1 n1 o1, .call c2 k2 n2 o2])).callers c2 = some ⟨some e, st2⟩) ↔ k1 = k2 := by
  constructor
  · rintro ⟨e, st1, st2, a1, a2⟩
    obtain ⟨e1, he1, x1, hx1, hk1, _⟩ := call_attaches cfg tr k1 c1 n1 o1 h1
    have e1' : run (init cfg) (tr ++ [.call c1 k1 n1 o1]) = step (run (init cfg) tr) (.call c1 k1 n1 o1) := by
      rw [run_append]; rfl
    have h2' : (run (init cfg) (tr ++ [.call c1 k1 n1 o1])).callers c2 = none := by
      rw [e1', call_other_caller _ c1 c2 _ _ _ h12]; exact h2
    obtain ⟨e2, he2, x2, hx2, hk2, _⟩ := call_attaches cfg (tr ++ [.call c1 k1 n1 o1]) k2 c2 n2 o2 h2'
    have e2' : run (init cfg) (tr ++ [.call c1 k1 n1 o1, .call c2 k2 n2 o2]) =
        run (init cfg) (tr ++ [.call c1 k1 n1 o1] ++ [.call c2 k2 n2 o2]) := by
      rw [List.append_assoc]; rfl
    rw [e2'] at a1 a2
    have e3 : run (init cfg) (tr ++ [.call c1 k1 n1 o1] ++ [.call c2 k2 n2 o2]) =
        step (run (init cfg) (tr ++ [.call c1 k1 n1 o1])) (.call c2 k2 n2 o2) := by
      rw [run_append]; rfl
    -- caller 1's entry is not touched by the second call
    rw [e3, call_other_caller _ c2 c1 _ _ _ (Ne.symm h12), he1] at a1
    rw [he2] at a2
    simp only [Option.some.injEq, Caller.mk.injEq] at a1 a2
    obtain ⟨a1, _⟩ := a1
    obtain ⟨a2, _⟩ := a2
    have hee : e1 = e2 := by
      have a1' : e1 = e := by simpa using a1
      have a2' : e2 = e := by simpa using a2
      rw [a1', a2']
    subst hee
    -- the key of an execution never changes
    obtain ⟨x', hx', hl⟩ := exec_step _ (reachable_inv cfg (tr ++ [.call c1 k1 n1 o1])) (.call c2 k2 n2 o2) e1 x1 hx1
    rw [← e3] at hx'
    rw [hx2] at hx'
    simp only [Option.some.injEq] at hx'
    subst hx'
    rw [← hk1, ← hk2]
    exact hl.1.symm
  · intro hk
    subst hk
    obtain ⟨e, j1, j2, _, _⟩ := same_cache_key_shares cfg tr c1 c2 n1 n2 o1 o2 ⟨k1, 0⟩ ⟨k1, 0⟩ rfl h12 h1 h2
    exact ⟨e, .waiting, .waiting, j1, j2⟩

/-- **An execution that ended cancelled is over like any other.**  When an execution whose outcome is
`cancelled` (the body's own await was cancelled) completes: every caller waiting on it receives
`CancelledError` (`got cancelled` - what `await asyncio.shield(task)` does for a cancelled task), the key is
free, nothing is stored in the cache, and the next call with that key - by any new caller - starts a new
execution that runs that call's own script (or is a cache hit of an earlier stored value), with the caller
waiting on it. -/
theorem cancelled_execution_is_over (cfg : Cfg) (tr : List Act) (e : Nat) (x : Exec)
    (hx : (run (init cfg) tr).execs e = some x) (hf : x.finished = false) (hr : x.remaining = 0)
    (hb : blocked (run (init cfg) tr) x = false)
    (ho : x.outcome = .cancelled) :
    (∀ c, (run (init cfg) tr).callers c = some ⟨some e, .waiting⟩ →
        (run (init cfg) (tr ++ [.finish e])).callers c = some ⟨some e, .got .cancelled⟩) ∧
    (run (init cfg) (tr ++ [.finish e])).table x.key = none ∧
    (run (init cfg) (tr ++ [.finish e])).cached = (run (init cfg) tr).cached ∧
    (∀ c n o, (run (init cfg) (tr ++ [.finish e])).callers c = none →
      c ≠ e ∧ InFlight (run (init cfg) (tr ++ [.finish e, .call c x.key n o])) c x.key ∧
      (run (init cfg) (tr ++ [.finish e, .call c x.key n o])).callers c = some ⟨some c, .waiting⟩ ∧
      (run (init cfg) (tr ++ [.finish e, .call c x.key n o])).execs c =
        some (newExec (run (init cfg) (tr ++ [.finish e])) c x.key n o)) := by
  have e1 : run (init cfg) (tr ++ [.finish e]) = step (run (init cfg) tr) (.finish e) := by
    rw [run_append]; rfl
  obtain ⟨d1, _, d3, _⟩ := finish_delivers cfg tr e x hx hf hr hb
  refine ⟨?_, ?_, ?_, ?_⟩
  · intro c hc
    rw [e1, d1 c hc, ho]
  · rw [e1]; exact d3
  · rw [e1]
    show (stepFinish (run (init cfg) tr) e).cached = _
    unfold stepFinish
    rw [hx]
    simp only [hf, hr, hb, Bool.false_eq_true, ne_eq, not_true_eq_false, or_self, if_false, ho]
  · intro c n o hc
    obtain ⟨t1, t2, t3, t4, _⟩ := table_cleared_on_finish cfg tr e x hx hf hr hb c n o hc
    refine ⟨t2, t3, t4, ?_⟩
    have e2 : run (init cfg) (tr ++ [.finish e, .call c x.key n o]) =
        step (run (init cfg) (tr ++ [.finish e])) (.call c x.key n o) := by
      rw [run_append, run_append]; rfl
    rw [e2]
    show (stepCall _ c x.key n o).execs c = _
    unfold stepCall
    rw [hc, t1]
    simp

/-- **A finished execution is never joined** - whatever its outcome (returned, raised, ended cancelled) and
whatever happens afterwards: a caller found attached to `e` at any later point was already attached to `e`
when `e` had just finished.  (No later call is ever treated as a waiter of an execution that is over.) -/
theorem finished_execution_gains_no_waiters (cfg : Cfg) (tr tr2 : List Act) (e : Nat) (x : Exec)
    (hx : (run (init cfg) tr).execs e = some x) (hf : x.finished = true) (c : Nat) (st : CSt)
    (hc : (run (init cfg) (tr ++ tr2)).callers c = some ⟨some e, st⟩) :
    ∃ st', (run (init cfg) tr).callers c = some ⟨some e, st'⟩ := by
  rw [run_append] at hc
  exact finished_no_new_waiters _ (reachable_inv cfg tr) tr2 e x hx hf c st hc

/-- **Cancellation is local (one step, any state whatsoever).**  Cancelling caller `c` changes no other
caller's entry, no execution (none is stopped, none loses a step), not the table, not the cache - and no
recalculation: whether `c` started it (a background recalculation survives every caller) or waits for it through
its execution (a joiner is cancelled alone), the recalculation keeps running, stays in `recalculations`, the lock
key stays. -/
theorem cancellation_is_local (s : SfSt) (c : Nat) :
    (step s (.cancel c)).table = s.table ∧ (step s (.cancel c)).execs = s.execs ∧
    (step s (.cancel c)).cached = s.cached ∧ (step s (.cancel c)).created = s.created ∧
    (∀ c', c' ≠ c → (step s (.cancel c)).callers c' = s.callers c') ∧
    (step s (.cancel c)).recalcs = s.recalcs ∧ (step s (.cancel c)).rtable = s.rtable ∧
    (step s (.cancel c)).lock = s.lock ∧ (step s (.cancel c)).rcreated = s.rcreated ∧
    (∀ key, bodyRunningCount (step s (.cancel c)) key = bodyRunningCount s key) := by
  obtain ⟨_, h2, h3, h4, h5, h6, _⟩ := cancel_frame s c
  have hr : Rest (step s (.cancel c)) s := stepCancel_rest s c
  refine ⟨h2, h3, h4, h5, h6, hr.recalcs, hr.rtable, hr.lock, hr.rcreated, ?_⟩
  intro key
  unfold bodyRunningCount bodyRunningB recalcRunningB
  rw [h3, h5, hr.recalcs, hr.rcreated]

/-- what the cancellation does to the cancelled caller itself: a waiting caller becomes cancelled (and stays
attached to nothing else); a caller that already holds an outcome keeps it -/
theorem cancel_marks_only_waiting (s : SfSt) (c : Nat) (e : Option Nat) :
    (s.callers c = some ⟨e, .waiting⟩ → (step s (.cancel c)).callers c = some ⟨e, .cancelled⟩) ∧
    (∀ o, s.callers c = some ⟨e, .got o⟩ → (step s (.cancel c)).callers c = some ⟨e, .got o⟩) := by
  constructor
  · intro h
    show (stepCancel s c).callers c = _
    unfold stepCancel
    rw [h]
    simp
  · intro o h
    exact settled_step s (.cancel c) c e (.got o) h (by simp)

/-- **Cancellation does not interfere with anything that follows** (trace form, the full strength of
"affects only that caller").  Take any history `tr1` after which caller `c` has made its call, and any
continuation `tr2` (more calls, steps, completions, further cancellations).  Running `tr2` after cancelling
`c` and running it without the cancellation lead to the same executions (same progress, same completions -
even if `c` was the last waiter, the execution still runs to its end), the same recalculations, the same tables and cache, and the
same state for every other caller: each of them receives exactly what it would have received. -/
theorem cancellation_noninterference (cfg : Cfg) (tr1 tr2 : List Act) (c : Nat)
    (hc : (run (init cfg) tr1).callers c ≠ none) :
    (run (init cfg) (tr1 ++ .cancel c :: tr2)).execs = (run (init cfg) (tr1 ++ tr2)).execs ∧
    (run (init cfg) (tr1 ++ .cancel c :: tr2)).table = (run (init cfg) (tr1 ++ tr2)).table ∧
    (run (init cfg) (tr1 ++ .cancel c :: tr2)).cached = (run (init cfg) (tr1 ++ tr2)).cached ∧
    (run (init cfg) (tr1 ++ .cancel c :: tr2)).created = (run (init cfg) (tr1 ++ tr2)).created ∧
    (∀ c', c' ≠ c → (run (init cfg) (tr1 ++ .cancel c :: tr2)).callers c' = (run (init cfg) (tr1 ++ tr2)).callers c') ∧
    (run (init cfg) (tr1 ++ .cancel c :: tr2)).recalcs = (run (init cfg) (tr1 ++ tr2)).recalcs ∧
    (run (init cfg) (tr1 ++ .cancel c :: tr2)).rtable = (run (init cfg) (tr1 ++ tr2)).rtable := by
  rw [run_append, run_append, run_cons]
  generalize run (init cfg) tr1 = s at *
  obtain ⟨h1, h2, h3, h4, h5, h6, h7⟩ := cancel_frame s c
  have ag : Agree c (step s (.cancel c)) s :=
    ⟨h1, h2, h3, h4, h5, h6, h7, hc, (stepCancel_clock s c).1, (stepCancel_clock s c).2, stepCancel_rest s c⟩
  have := agree_run c _ _ ag tr2
  exact ⟨this.execs, this.table, this.cached, this.created, this.others, this.rest.recalcs, this.rest.rtable⟩

/-- A delivered outcome (or a cancellation) is final: no later action - in particular no later cancellation
of anybody - changes what a caller has received. -/
theorem delivered_outcome_is_final (cfg : Cfg) (tr tr2 : List Act) (c : Nat) (e : Option Nat) (st : CSt)
    (hc : (run (init cfg) tr).callers c = some ⟨e, st⟩) (hst : st ≠ .waiting) :
    (run (init cfg) (tr ++ tr2)).callers c = some ⟨e, st⟩ := by
  rw [run_append]
  exact settled_run _ tr2 c e st hc hst

/-- **Every waiter receives the very exception the body raised.**  An exception outcome is a class together with
an opaque payload (everything else a caller can see of the exception object: constructor arguments, message,
attributes, cause).  When an execution that raises `exc cls p` completes, every caller waiting on it - the one that
started it and every joiner alike - holds `exc cls p`: same class, same payload; nothing is rebuilt, copied or
wrapped on the way. -/
theorem exception_delivered_unchanged (cfg : Cfg) (tr : List Act) (e : Nat) (x : Exec) (cls p : Nat)
    (hx : (run (init cfg) tr).execs e = some x) (hf : x.finished = false) (hr : x.remaining = 0)
    (hb : blocked (run (init cfg) tr) x = false)
    (ho : x.outcome = .exc cls p) (c : Nat) (hc : (run (init cfg) tr).callers c = some ⟨some e, .waiting⟩) :
    (run (init cfg) (tr ++ [.finish e])).callers c = some ⟨some e, .got (.exc cls p)⟩ := by
  have e1 : run (init cfg) (tr ++ [.finish e]) = step (run (init cfg) tr) (.finish e) := by
    rw [run_append]; rfl
  rw [e1, (finish_delivers cfg tr e x hx hf hr hb).1 c hc, ho]

/-- **A returned value is delivered as a value - whatever it is.**  An execution whose body RETURNS `v` - also when
`v` is an exception object (errors as values), a `BaseException` object, a wrapper around an error: for single-flight
just another value; `retNoStore`: one that the cache decorator underneath does not keep - completes: every caller
waiting on it, starter and joiners alike, holds that returned value; nobody holds a raised exception (`exc`) or a
cancellation, and an unstored value leaves the cache as it was. -/
theorem returned_value_is_delivered_as_a_value (cfg : Cfg) (tr : List Act) (e : Nat) (x : Exec) (v : Nat)
    (hx : (run (init cfg) tr).execs e = some x) (hf : x.finished = false) (hr : x.remaining = 0)
    (hb : blocked (run (init cfg) tr) x = false)
    (ho : x.outcome = .ret v ∨ x.outcome = .retNoStore v) (c : Nat)
    (hc : (run (init cfg) tr).callers c = some ⟨some e, .waiting⟩) :
    ((run (init cfg) (tr ++ [.finish e])).callers c = some ⟨some e, .got (.ret v)⟩ ∨
     (run (init cfg) (tr ++ [.finish e])).callers c = some ⟨some e, .got (.retNoStore v)⟩) ∧
    (x.outcome = .retNoStore v → (run (init cfg) (tr ++ [.finish e])).cached = (run (init cfg) tr).cached) := by
  have e1 : run (init cfg) (tr ++ [.finish e]) = step (run (init cfg) tr) (.finish e) := by
    rw [run_append]; rfl
  have hd := (finish_delivers cfg tr e x hx hf hr hb).1 c hc
  refine ⟨?_, ?_⟩
  · rcases ho with h | h
    · left; rw [e1, hd, h]
    · right; rw [e1, hd, h]
  · intro h
    rw [e1]
    show (stepFinish (run (init cfg) tr) e).cached = _
    unfold stepFinish
    rw [hx]
    simp only [hf, hr, hb, Bool.false_eq_true, ne_eq, not_true_eq_false, or_self, if_false, h]

/-- **All waiters of one execution hold the same thing**, in every reachable state: two callers attached to the same
execution that have both received something have received the same outcome - the execution's own (for an
exception: the same class and the same payload). -/
theorem waiters_receive_the_same (cfg : Cfg) (tr : List Act) (c1 c2 e : Nat) (o1 o2 : Outcome)
    (h1 : (run (init cfg) tr).callers c1 = some ⟨some e, .got o1⟩)
    (h2 : (run (init cfg) tr).callers c2 = some ⟨some e, .got o2⟩) :
    o1 = o2 ∧ ∃ x, (run (init cfg) tr).execs e = some x ∧ x.outcome = o1 := by
  obtain ⟨x, hx, hok⟩ := waiters_share_outcome cfg tr c1 e _ h1 (by simp)
  obtain ⟨y, hy, hok'⟩ := waiters_share_outcome cfg tr c2 e _ h2 (by simp)
  rw [hx] at hy
  simp only [Option.some.injEq] at hy
  subst hy
  rcases hok with ⟨h, _⟩ | ⟨h, _⟩
  · simp at h
  · rcases hok' with ⟨h', _⟩ | ⟨h', _⟩
    · simp at h'
    · simp only [CSt.got.injEq] at h h'
      exact ⟨h.trans h'.symm, x, hx, h.symm⟩

/-- **A time step is a stutter step of single-flight** (any state whatsoever, any duration): the passage of time
moves the clock and changes nothing else - not the in-flight table, no execution, no caller, not what is stored;
the same executions are in flight for the same keys and the observable counters are the same.  Every theorem of
this file quantifies over all traces, time steps of any length at any position included; this one says that
single-flight does not even look at them. -/
theorem time_step_is_stutter (s : SfSt) (d : Nat) :
    (step s (.tick d)).table = s.table ∧ (step s (.tick d)).execs = s.execs ∧
    (step s (.tick d)).callers = s.callers ∧ (step s (.tick d)).created = s.created ∧
    (step s (.tick d)).cached = s.cached ∧ (step s (.tick d)).now = s.now + d ∧
    (∀ e key, InFlight (step s (.tick d)) e key ↔ InFlight s e key) ∧
    (∀ key, inFlightCount (step s (.tick d)) key = inFlightCount s key ∧
      bodyRunningCount (step s (.tick d)) key = bodyRunningCount s key ∧
      bodyStarts (step s (.tick d)) key = bodyStarts s key) :=
  ⟨rfl, rfl, rfl, rfl, rfl, rfl, fun _ _ => Iff.rfl, fun _ => ⟨rfl, rfl, rfl⟩⟩

/-- **An execution in flight is joined however old it is - there is no ttl carve-out.**  Let `e` be in flight for
`key` after any history, then let any amount of time pass in any number of steps (`ds`: the durations; their sum
is not bounded by the decorator's ttl `T` or by anything else) while `e` is still running.  A call with that key
by a new caller then waits on `e` and starts nothing: the executions, their number and the table are exactly
what they were before the time passed. -/
theorem old_execution_is_still_joined (cfg : Cfg) (tr : List Act) (key e : Nat) (ds : List Nat)
    (c n : Nat) (o : Outcome)
    (he : InFlight (run (init cfg) tr) e key) (hc : (run (init cfg) tr).callers c = none) :
    (run (init cfg) (tr ++ ds.map Act.tick ++ [.call c key n o])).callers c = some ⟨some e, .waiting⟩ ∧
    (run (init cfg) (tr ++ ds.map Act.tick ++ [.call c key n o])).execs = (run (init cfg) tr).execs ∧
    (run (init cfg) (tr ++ ds.map Act.tick ++ [.call c key n o])).created = (run (init cfg) tr).created ∧
    (run (init cfg) (tr ++ ds.map Act.tick ++ [.call c key n o])).table = (run (init cfg) tr).table ∧
    (run (init cfg) (tr ++ ds.map Act.tick ++ [.call c key n o])).now = (run (init cfg) tr).now + ds.sum := by
  obtain ⟨_, _, f3, f4, f5, _, f7, f8, _⟩ := run_ticks_frame (run (init cfg) tr) ds
  have e0 : run (init cfg) (tr ++ ds.map Act.tick) = run (run (init cfg) tr) (ds.map Act.tick) := run_append _ _ _
  have he' : InFlight (run (init cfg) (tr ++ ds.map Act.tick)) e key := by
    obtain ⟨x, hx, hk, hf⟩ := he
    exact ⟨x, by rw [e0, f4]; exact hx, hk, hf⟩
  have hc' : (run (init cfg) (tr ++ ds.map Act.tick)).callers c = none := by rw [e0, f5]; exact hc
  obtain ⟨j1, j2, j3, j4⟩ := concurrent_call_joins cfg (tr ++ ds.map Act.tick) key e c n o he' hc'
  have e1 : run (init cfg) (tr ++ ds.map Act.tick ++ [.call c key n o]) =
      step (run (init cfg) (tr ++ ds.map Act.tick)) (.call c key n o) := by
    rw [run_append]; rfl
  rw [e1]
  refine ⟨j1, by rw [j2, e0, f4], by rw [j3, e0, f7], by rw [j4, e0, f3], ?_⟩
  rw [← f8, ← e0]
  show (stepCall _ c key n o).now = _
  unfold stepCall
  rw [hc']
  obtain ⟨x, hx, hk, hf⟩ := he'
  have ht := (reachable_inv cfg (tr ++ ds.map Act.tick)).reg e x hx hf
  rw [hk] at ht
  rw [ht]

/-- **Time can be erased** (bare `thunder_protection`, no cache decorator underneath): removing every time step
from a trace leads to the same table, the same executions at the same stage, the same state of every caller and
the same executions created - time steps are invisible to single-flight, wherever they occur and however long
they are.  (With a cache decorator underneath the clock is read in one place only - whether a stored result is
still a hit when a call finds nothing in flight, `lookupCached` - which is the cache's business, C02.) -/
theorem time_erasure_bare (T : Nat) (tr : List Act) :
    (run (init (.plain false T)) tr).table = (run (init (.plain false T)) (untimed tr)).table ∧
    (run (init (.plain false T)) tr).execs = (run (init (.plain false T)) (untimed tr)).execs ∧
    (run (init (.plain false T)) tr).callers = (run (init (.plain false T)) (untimed tr)).callers ∧
    (run (init (.plain false T)) tr).created = (run (init (.plain false T)) (untimed tr)).created := by
  have h := untimed_run (init (.plain false T)) (init (.plain false T)) ⟨rfl, rfl, rfl, rfl, rfl, rfl, rfl, rest_refl _, fun _ => rfl⟩ rfl tr
  exact ⟨h.table, h.execs, h.callers, h.created⟩

/-! ### `early`: recalculations -/

/-- **A caller joined to a recalculation receives the recalculation's result or exception, unchanged.**  An
execution may await a recalculation instead of running the body itself (a cold miss while the recalculation of the
key is running: `await asyncio.shield(recalculation)`; `background=False`: `await task`).  In every reachable state
a caller attached to such an execution and not cancelled is either still waiting - the execution has not ended - or
holds exactly the outcome of THAT recalculation (for an exception: same class, same payload), and the
recalculation has ended. -/
theorem recalculation_outcome_shared (cfg : Cfg) (hg : cfg.guarded = true) (tr : List Act) (c e r : Nat) (st : CSt)
    (x : Exec) (hc : (run (init cfg) tr).callers c = some ⟨some e, st⟩) (hnc : st ≠ .cancelled)
    (hx : (run (init cfg) tr).execs e = some x) (hw : x.waitsOn = some r) :
    ∃ y, (run (init cfg) tr).recalcs r = some y ∧ y.key = x.key ∧
      ((st = .waiting ∧ x.finished = false) ∨ (st = .got y.outcome ∧ y.finished = true)) := by
  obtain ⟨y, hy, hk, ho, hfin⟩ := (reachable_rinv cfg hg tr).waits e x r hx hw
  obtain ⟨x', hx', hok⟩ := waiters_share_outcome cfg tr c e st hc hnc
  rw [hx] at hx'
  simp only [Option.some.injEq] at hx'
  subst hx'
  refine ⟨y, hy, hk, ?_⟩
  rcases hok with h | ⟨h1, h2⟩
  · exact Or.inl h
  · exact Or.inr ⟨by rw [ho]; exact h1, hfin h2⟩

/-- **A cold miss while the recalculation of the key is running joins it.**  The stored value has expired, nothing
is in flight in `tasks`, recalculation `r` of the key is still running: a call starts an execution that runs no body -
it awaits `r` and will deliver `r`'s outcome; no recalculation is started, the bodies running are the same. -/
theorem cold_miss_joins_recalculation (cfg : Cfg) (hg : cfg.guarded = true) (tr : List Act) (key r c n : Nat)
    (o : Outcome) (y : Exec) (hy : (run (init cfg) tr).recalcs r = some y) (hk : y.key = key) (hf : y.finished = false)
    (ht : (run (init cfg) tr).table key = none) (hc : (run (init cfg) tr).callers c = none)
    (hl : look (run (init cfg) tr) key = .cold) :
    (step (run (init cfg) tr) (.call c key n o)).execs c = some ⟨key, 0, y.outcome, false, true, some r⟩ ∧
    (step (run (init cfg) tr) (.call c key n o)).callers c = some ⟨some c, .waiting⟩ ∧
    (step (run (init cfg) tr) (.call c key n o)).recalcs = (run (init cfg) tr).recalcs ∧
    (step (run (init cfg) tr) (.call c key n o)).rcreated = (run (init cfg) tr).rcreated := by
  have hrt := (reachable_rinv cfg hg tr).rreg r y hy hf
  have hg' : (run (init cfg) tr).guarded = true := by rw [guarded_run]; exact hg
  rw [hk] at hrt
  generalize run (init cfg) tr = s at *
  have hsp : spawns s key = false := by unfold spawns; rw [hl]
  have hne : newExec s c key n o = ⟨key, 0, y.outcome, false, true, some r⟩ := by
    unfold newExec running
    rw [hl, hg']
    simp only [if_true, hrt, hy]
  simp only [step_call]
  unfold stepCall
  rw [hc, ht]
  simp only [hsp, Bool.false_eq_true, if_false, hne, upd_same]
  exact ⟨trivial, trivial, trivial, trivial⟩

/-- **A stale hit while the recalculation of the key is running starts nothing** - however long that recalculation
has been running, in particular after its lock key (which lives `early_ttl` only) has expired: the call is served
the stored value, no second recalculation is started. -/
theorem stale_hit_while_recalculating_starts_nothing (cfg : Cfg) (hg : cfg.guarded = true) (tr : List Act)
    (key r c n v : Nat) (o : Outcome) (hr : Recalculating (run (init cfg) tr) r key)
    (ht : (run (init cfg) tr).table key = none) (hc : (run (init cfg) tr).callers c = none)
    (hl : look (run (init cfg) tr) key = .stale v) :
    (step (run (init cfg) tr) (.call c key n o)).execs c = some (hitExec key v) ∧
    (step (run (init cfg) tr) (.call c key n o)).recalcs = (run (init cfg) tr).recalcs ∧
    (step (run (init cfg) tr) (.call c key n o)).rcreated = (run (init cfg) tr).rcreated ∧
    (step (run (init cfg) tr) (.call c key n o)).rtable = (run (init cfg) tr).rtable := by
  obtain ⟨y, hy, hk, hf⟩ := hr
  have hrt := (reachable_rinv cfg hg tr).rreg r y hy hf
  have hg' : (run (init cfg) tr).guarded = true := by rw [guarded_run]; exact hg
  rw [hk] at hrt
  generalize run (init cfg) tr = s at *
  have hsp : spawns s key = false := by
    unfold spawns running
    rw [hl, hg']
    simp [hrt]
  have hne : newExec s c key n o = hitExec key v := by
    unfold newExec
    rw [hl]
    simp [hsp]
  simp only [step_call]
  unfold stepCall
  rw [hc, ht]
  simp only [hsp, Bool.false_eq_true, if_false, hne, upd_same]
  exact ⟨trivial, trivial, trivial, trivial⟩

/-- the replay of D44: ttl 24 ticks, early_ttl 8.  Call 1 stores 7 at tick 0.  Tick 9: the value is stale, call 2 is
served 7 and starts a recalculation (two suspension points, lock key until tick 17).  Tick 18: still stale, the lock
key is gone - call 3.  Tick 27: the stored value is gone - call 4. -/
def d44 : List Act :=
  [.call 1 0 0 (.ret 7), .finish 1, .tick 9, .call 2 0 2 (.ret 8), .finish 2,
   .tick 9, .call 3 0 1 (.ret 9), .finish 3, .tick 9, .call 4 0 1 (.exc 3 4)]

def earlyCfg (guarded background : Bool) : Cfg :=
  { caching := true, ttl := 24, early := true, earlyTtl := 8, background := background, guarded := guarded }

/-- **The `recalculations` table is necessary.**  Without it (`guarded := false`: `early` as it was before D44,
with only the lock key of lifetime `early_ttl`) the bound of `body_running_count_le_one` fails: on the history `d44`
call 3 starts a second recalculation while the first is running, and call 4 runs the body in its execution while
both are still running - three bodies of one key at the same time. -/
theorem recalculation_table_is_necessary :
    ∃ cfg tr key, cfg.guarded = false ∧ 1 < bodyRunningCount (run (init cfg) tr) key :=
  ⟨earlyCfg false true, d44, 0, rfl, by decide⟩

/-- The scheduler granularity the harness drives (bursts of released tasks followed by the completion of
every body that has no suspension point left) only produces traces of the transition system, so every
theorem above applies to every state the correspondence check compares. -/
theorem bursts_are_traces (cfg : Cfg) (bursts : List (List Act)) :
    ∃ tr, bursts.foldl macroStep (init cfg) = run (init cfg) tr :=
  macro_run (init cfg) bursts

/-! ### non-vacuity: the model does something, the premises are satisfiable -/

/-- three callers on key 0, one on key 1; the body of execution 1 yields twice and returns 7 -/
def demo : List Act :=
  [.call 1 0 2 (.ret 7), .call 2 0 0 (.ret 8), .call 4 1 1 (.exc 3 0), .bodyStep 1, .call 3 0 5 (.ret 9)]

-- caller 2 and 3 joined execution 1 (their own scripts are not run); key 1 runs separately
example : (run (init (.plain false 8)) demo).callers 3 = some ⟨some 1, .waiting⟩ := by decide
example : (run (init (.plain false 8)) demo).created = [1, 4] := by decide
example : inFlightCount (run (init (.plain false 8)) demo) 0 = 1 ∧ inFlightCount (run (init (.plain false 8)) demo) 1 = 1 := by decide
example : InFlight (run (init (.plain false 8)) demo) 1 0 := ⟨⟨0, 1, .ret 7, false, false, none⟩, by decide, rfl, rfl⟩
-- premises of `concurrent_call_joins` / `call_attaches`
example : (run (init (.plain false 8)) demo).callers 5 = none := by decide

/-- ... caller 2 is cancelled, the body passes its last point and finishes -/
def demo2 : List Act := demo ++ [.cancel 2, .bodyStep 1, .finish 1]

-- waiters 1 and 3 hold execution 1's outcome, the cancelled caller 2 does not; key 0 is free again
example : (run (init (.plain false 8)) demo2).callers 1 = some ⟨some 1, .got (.ret 7)⟩ := by decide
example : (run (init (.plain false 8)) demo2).callers 3 = some ⟨some 1, .got (.ret 7)⟩ := by decide
example : (run (init (.plain false 8)) demo2).callers 2 = some ⟨some 1, .cancelled⟩ := by decide
example : (run (init (.plain false 8)) demo2).table 0 = none ∧ (run (init (.plain false 8)) demo2).table 1 = some 4 := by decide
example : inFlightCount (run (init (.plain false 8)) demo2) 0 = 0 := by decide
-- premises of `finish_delivers` / `table_cleared_on_finish` just before the completion
example : (run (init (.plain false 8)) (demo ++ [.cancel 2, .bodyStep 1])).execs 1 = some ⟨0, 0, .ret 7, false, false, none⟩ := by decide
-- a later call on key 0 starts a new execution (5), which then raises to its caller
example : (run (init (.plain false 8)) (demo2 ++ [.call 5 0 0 (.exc 1 0), .finish 5])).callers 5 = some ⟨some 5, .got (.exc 1 0)⟩ := by
  decide
-- an exception fans out to every waiter
example : (run (init (.plain false 8)) [.call 1 0 0 (.exc 2 0), .call 2 0 0 (.ret 1), .finish 1]).callers 2
    = some ⟨some 1, .got (.exc 2 0)⟩ := by decide
-- the only waiter is cancelled: the execution still runs to its end, clears the table and fills the cache
example : (run (init (.plain true 8)) [.call 1 0 1 (.ret 7), .cancel 1, .bodyStep 1, .finish 1]).cached 0 = some (7, 0, 8) ∧
    (run (init (.plain true 8)) [.call 1 0 1 (.ret 7), .cancel 1, .bodyStep 1, .finish 1]).table 0 = none ∧
    (run (init (.plain true 8)) [.call 1 0 1 (.ret 7), .cancel 1, .bodyStep 1, .finish 1]).callers 1 = some ⟨some 1, .cancelled⟩ := by
  decide
-- with a cache decorator a later call is a hit: a new execution that runs no body and delivers the stored value
example : (run (init (.plain true 8)) [.call 1 0 0 (.ret 7), .finish 1, .call 2 0 3 (.ret 9)]).execs 2
    = some ⟨0, 0, .ret 7, false, true, none⟩ := by decide
example : bodyStarts (run (init (.plain true 8)) [.call 1 0 0 (.ret 7), .finish 1, .call 2 0 3 (.ret 9), .finish 2]) 0 = 1 := by
  decide
-- premise of `cancellation_noninterference` and a run where the two sides are visibly the same for caller 3
example : (run (init (.plain false 8)) demo).callers 2 ≠ none := by decide
example : (run (init (.plain false 8)) (demo ++ [.bodyStep 1, .finish 1])).callers 3 = some ⟨some 1, .got (.ret 7)⟩ := by decide
-- bursts: two callers released together on an execution without suspension points share it
example : (macroStep (init (.plain false 8)) [.call 1 0 0 (.ret 7), .call 2 0 0 (.ret 8)]).callers 2
    = some ⟨some 1, .got (.ret 7)⟩ := by decide

-- an execution that ENDS CANCELLED (outcome `cancelled`, nobody cancelled a caller): both waiters receive
-- CancelledError, the key is free, and the next call starts execution 3 which delivers its own result
def demoK : List Act := [.call 1 0 1 .cancelled, .call 2 0 0 (.ret 8), .bodyStep 1, .finish 1]
example : (run (init (.plain true 8)) demoK).callers 1 = some ⟨some 1, .got .cancelled⟩ ∧
    (run (init (.plain true 8)) demoK).callers 2 = some ⟨some 1, .got .cancelled⟩ ∧
    (run (init (.plain true 8)) demoK).table 0 = none ∧ (run (init (.plain true 8)) demoK).cached 0 = none := by decide
example : (run (init (.plain true 8)) (demoK ++ [.call 3 0 0 (.ret 9), .call 4 0 0 (.ret 5), .finish 3])).callers 3
      = some ⟨some 3, .got (.ret 9)⟩ ∧
    (run (init (.plain true 8)) (demoK ++ [.call 3 0 0 (.ret 9), .call 4 0 0 (.ret 5), .finish 3])).callers 4
      = some ⟨some 3, .got (.ret 9)⟩ ∧
    bodyStarts (run (init (.plain true 8)) (demoK ++ [.call 3 0 0 (.ret 9), .call 4 0 0 (.ret 5), .finish 3])) 0 = 2 := by decide
-- premises of `cancelled_execution_is_over` just before the completion
example : (run (init (.plain true 8)) [.call 1 0 1 .cancelled, .call 2 0 0 (.ret 8), .bodyStep 1]).execs 1
    = some ⟨0, 0, .cancelled, false, false, none⟩ := by decide
-- premises of `finished_execution_gains_no_waiters`: execution 1 is finished in `demoK`, caller 3 arrives later
example : (run (init (.plain true 8)) demoK).execs 1 = some ⟨0, 0, .cancelled, true, false, none⟩ := by decide
-- calls that differ only in the argument the key template leaves out share one execution; a different key does not
example : (run (init (.plain true 8)) [.callWith 1 ⟨7, 100⟩ 1 (.ret 1), .callWith 2 ⟨7, 200⟩ 1 (.ret 2), .callWith 3 ⟨8, 100⟩ 1 (.ret 3)]).callers 2
    = some ⟨some 1, .waiting⟩ := by decide
example : (run (init (.plain true 8)) [.callWith 1 ⟨7, 100⟩ 1 (.ret 1), .callWith 2 ⟨7, 200⟩ 1 (.ret 2), .callWith 3 ⟨8, 100⟩ 1 (.ret 3)]).created
    = [1, 3] := by decide
-- premises of `same_cache_key_shares`
example : cacheKey ⟨7, 100⟩ = cacheKey ⟨7, 200⟩ ∧ (run (init (.plain true 8)) []).callers 1 = none := by decide

-- TIME.  ttl 8; execution 1 starts at instant 0 and is still running at instant 20 (> ttl): caller 2 joins it,
-- nothing new is created; then the body finishes and both hold its result
def demoT : List Act := [.call 1 0 1 (.ret 7), .tick 5, .tick 15, .call 2 0 0 (.ret 8)]
example : (run (init (.plain true 8)) demoT).callers 2 = some ⟨some 1, .waiting⟩ ∧ (run (init (.plain true 8)) demoT).created = [1] ∧
    (run (init (.plain true 8)) demoT).now = 20 ∧ inFlightCount (run (init (.plain true 8)) demoT) 0 = 1 := by decide
example : (run (init (.plain true 8)) (demoT ++ [.bodyStep 1, .finish 1])).callers 2 = some ⟨some 1, .got (.ret 7)⟩ ∧
    (run (init (.plain true 8)) (demoT ++ [.bodyStep 1, .finish 1])).cached 0 = some (7, 20, 28) := by decide
-- premises of `old_execution_is_still_joined` with ds = [5, 15], 5 + 15 > ttl
example : InFlight (run (init (.plain true 8)) [.call 1 0 1 (.ret 7)]) 1 0 := ⟨⟨0, 1, .ret 7, false, false, none⟩, by decide, rfl, rfl⟩
example : (run (init (.plain true 8)) [.call 1 0 1 (.ret 7)]).callers 2 = none ∧ [5, 15].sum > 8 := by decide
-- the clock is read by the cache decorator only: the result stored at instant 20 is a hit at 27 and gone at 28
example : (run (init (.plain true 8)) (demoT ++ [.bodyStep 1, .finish 1, .tick 7, .call 3 0 2 (.ret 9)])).execs 3
    = some ⟨0, 0, .ret 7, false, true, none⟩ := by decide
example : (run (init (.plain true 8)) (demoT ++ [.bodyStep 1, .finish 1, .tick 8, .call 3 0 2 (.ret 9)])).execs 3
    = some ⟨0, 2, .ret 9, false, false, none⟩ := by decide
-- erasing the time steps of a bare trace
example : untimed demoT = [.call 1 0 1 (.ret 7), .call 2 0 0 (.ret 8)] := by decide
-- EXCEPTIONS carry a payload: starter and joiner both hold class 3 with payload 41 - and agree
example : (run (init (.plain false 8)) [.call 1 0 0 (.exc 3 41), .call 2 0 0 (.exc 3 42), .finish 1]).callers 1
      = some ⟨some 1, .got (.exc 3 41)⟩ ∧
    (run (init (.plain false 8)) [.call 1 0 0 (.exc 3 41), .call 2 0 0 (.exc 3 42), .finish 1]).callers 2
      = some ⟨some 1, .got (.exc 3 41)⟩ := by decide
-- premises of `exception_delivered_unchanged`
example : (run (init (.plain false 8)) [.call 1 0 0 (.exc 3 41), .call 2 0 0 (.exc 3 42)]).execs 1
    = some ⟨0, 0, .exc 3 41, false, false, none⟩ := by decide

-- EARLY.  The history of D44 without the table: two bodies after call 3, three after call 4 ...
example : bodyRunningCount (run (init (earlyCfg false true)) (d44.take 8)) 0 = 2 := by decide
example : bodyRunningCount (run (init (earlyCfg false true)) d44) 0 = 3 := by decide
-- ... and with it: call 2 is served the stale 7 and starts recalculation 2; call 3 is served 7 and starts nothing;
-- call 4 (cold miss) awaits recalculation 2; one body throughout
example : (run (init (earlyCfg true true)) d44).callers 2 = some ⟨some 2, .got (.ret 7)⟩ ∧
    (run (init (earlyCfg true true)) d44).callers 3 = some ⟨some 3, .got (.ret 7)⟩ ∧
    (run (init (earlyCfg true true)) d44).execs 4 = some ⟨0, 0, .ret 8, false, true, some 2⟩ ∧
    (run (init (earlyCfg true true)) d44).rcreated = [2] ∧
    bodyRunningCount (run (init (earlyCfg true true)) d44) 0 = 1 ∧ bodyStarts (run (init (earlyCfg true true)) d44) 0 = 2 := by
  decide
-- the lock key set at tick 9 has expired at tick 18, the recalculation is still registered
example : lockHeld (run (init (earlyCfg true true)) (d44.take 6)) 0 = false ∧
    (run (init (earlyCfg true true)) (d44.take 6)).rtable 0 = some 2 := by decide
-- the recalculation ends: the joined caller 4 receives ITS result 8 (not its own script's exception), caller 5 joins
-- execution 4 meanwhile and receives the same; the new value is stored with fresh deadlines; table and lock are free
def d44end : List Act := d44 ++ [.call 5 0 0 (.ret 1), .rstep 2, .cancel 5, .rstep 2, .rfinish 2, .finish 4]
example : (run (init (earlyCfg true true)) d44end).callers 4 = some ⟨some 4, .got (.ret 8)⟩ ∧
    (run (init (earlyCfg true true)) d44end).callers 5 = some ⟨some 4, .cancelled⟩ ∧
    (run (init (earlyCfg true true)) d44end).cached 0 = some (8, 35, 51) ∧
    (run (init (earlyCfg true true)) d44end).rtable 0 = none ∧ (run (init (earlyCfg true true)) d44end).lock 0 = none ∧
    bodyRunningCount (run (init (earlyCfg true true)) d44end) 0 = 0 := by decide
-- an execution that awaits a recalculation cannot end before it (`finish 4` is not enabled while 2 runs)
example : enabled (run (init (earlyCfg true true)) d44) (.finish 4) = false ∧
    enabled (run (init (earlyCfg true true)) (d44 ++ [.rstep 2, .rstep 2, .rfinish 2])) (.finish 4) = true := by decide
-- premises of `cold_miss_joins_recalculation` (before call 4) and `stale_hit_while_recalculating_starts_nothing` (before call 3)
example : look (run (init (earlyCfg true true)) (d44.take 9)) 0 = .cold ∧
    (run (init (earlyCfg true true)) (d44.take 9)).recalcs 2 = some ⟨0, 2, .ret 8, false, false, none⟩ ∧
    (run (init (earlyCfg true true)) (d44.take 9)).table 0 = none := by decide
example : look (run (init (earlyCfg true true)) (d44.take 6)) 0 = .stale 7 := by decide
-- background=False: the execution that starts the recalculation awaits it and delivers ITS outcome (an exception here,
-- class 3 payload 2) to the caller and to a caller that joined meanwhile; nothing is stored, the stale value stays
def fg : List Act :=
  [.call 1 0 0 (.ret 7), .finish 1, .tick 9, .call 2 0 1 (.exc 3 2), .call 3 0 0 (.ret 9), .rstep 2, .rfinish 2, .finish 2]
example : (run (init (earlyCfg true false)) fg).callers 2 = some ⟨some 2, .got (.exc 3 2)⟩ ∧
    (run (init (earlyCfg true false)) fg).callers 3 = some ⟨some 2, .got (.exc 3 2)⟩ ∧
    (run (init (earlyCfg true false)) fg).cached 0 = some (7, 8, 24) ∧
    bodyStarts (run (init (earlyCfg true false)) fg) 0 = 2 := by decide
-- premises of `recalculation_outcome_shared`
example : (run (init (earlyCfg true false)) (fg.take 5)).execs 2 = some ⟨0, 0, .exc 3 2, false, true, some 2⟩ := by decide

-- keys decide: calls 1 and 3 (key 7) share execution 1, call 2 (key 8 - e.g. the same arguments under another template
-- context, or 1.0 instead of 1) runs on its own
example : (run (init (.plain true 8)) [.call 1 7 1 (.ret 1), .call 2 8 1 (.ret 2), .call 3 7 0 (.ret 3)]).callers 3
      = some ⟨some 1, .waiting⟩ ∧
    (run (init (.plain true 8)) [.call 1 7 1 (.ret 1), .call 2 8 1 (.ret 2), .call 3 7 0 (.ret 3)]).callers 2
      = some ⟨some 2, .waiting⟩ := by decide

-- a returned value that is not stored (an exception object returned by the body, under `cache`): both waiters hold it as a
-- value, nothing is stored, the next call runs its own body
example : (run (init (.plain true 8)) [.call 1 0 0 (.retNoStore 903), .call 2 0 0 (.ret 8), .finish 1]).callers 2
      = some ⟨some 1, .got (.retNoStore 903)⟩ ∧
    (run (init (.plain true 8)) [.call 1 0 0 (.retNoStore 903), .call 2 0 0 (.ret 8), .finish 1]).cached 0 = none ∧
    (run (init (.plain true 8)) [.call 1 0 0 (.retNoStore 903), .call 2 0 0 (.ret 8), .finish 1, .call 3 0 1 (.ret 9)]).execs 3
      = some ⟨0, 1, .ret 9, false, false, none⟩ := by decide

end CashewsVerif.Props.C07
