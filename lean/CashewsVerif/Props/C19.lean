import CashewsVerif.Lemmas.RedisDegrade
import CashewsVerif.Lemmas.RedisLock
/-
C19 — the Redis backend translates commands faithfully and degrades safely when the server is down.

EVERYTHING HERE IS ABOUT MODELS: `Redis.Srv` (our reading of the Redis documentation for the commands and of the
three Lua scripts cashews sends) and `Redis.step` (`backend.py` + `client.py` over our reading of redis-py).
Neither a Redis server nor redis-py is available in the sandbox; the correspondence check ties `Redis.step`
to the real `backend.py`/`client.py` run on a stub `redis` package whose server is `Redis.Srv`.

Property theorems only; lemmas live in `Lemmas/Redis*.lean`.
-/
namespace CashewsVerif.Props.C19
open CashewsVerif CashewsVerif.Redis

/-- **Refinement.**  With the connection up, for every history of cashews commands (any length, any time advances,
any suppress setting, any decodability predicate for the serializer), the backend model — every command translated
into client calls (SET PX NX/XX, MGET, UNLINK, paged SCAN loops, PEXPIRE, TTL, BITFIELD, SADD/SPOP, MULTI/EXEC
pipelines, SCRIPT LOAD + EVALSHA of the three scripts) against the wire-level server, plus post-processing of the
replies — answers exactly what the same commands answer on the millisecond TTL reference `Ref`, and leaves the
server's keyspace equal to the reference state ("the server-side effect and the result"). -/
theorem redis_refines_reference (cfg : Cfg) (hup : ∀ n, cfg.down n = false) (ops : List ROp) :
    (run cfg World.init ops).2 = (Ref.run cfg KS.init ops).2 ∧
    (run cfg World.init ops).1.srv.ks = (Ref.run cfg KS.init ops).1 := by
  obtain ⟨h1, h2⟩ := sim_run cfg hup ops World.init KS.init inv_init
  exact ⟨h2, h1.1⟩

/-- **Refinement from any state** (what the correspondence check evaluates after connection faults): from every
world in which the remembered script SHAs are loaded on the server, a command run with the connection up has the
result and the effect of the same command on the reference started from the server's current keyspace. -/
theorem redis_step_refines (cfg : Cfg) (hup : ∀ n, cfg.down n = false) (w : World)
    (hc : ∀ s ∈ w.cached, s ∈ w.srv.loaded) (op : ROp) :
    (step cfg w op).2 = (Ref.step cfg w.srv.ks op).2 ∧ (step cfg w op).1.srv.ks = (Ref.step cfg w.srv.ks op).1 := by
  obtain ⟨h1, h2⟩ := sim_step cfg hup w w.srv.ks ⟨rfl, hc⟩ op
  exact ⟨h2, h1.1⟩

/-- **Safe degradation, totality.**  Error suppression on: for EVERY pattern of connection failures `down : Nat → Bool`
(down from the start, going down in the middle of a history or in the middle of a command, coming back), every error
reply and every state, no command lets an exception escape — except `ping`, which raises the documented error only. -/
theorem degrade_total (cfg : Cfg) (hs : cfg.suppress = true) (w : World) (op : ROp) :
    (step cfg w op).2 ≠ .raiseOther ∧ ((step cfg w op).2 = .raise → op = .ping) := by
  simp only [step]
  rcases stepM_fine cfg op w with ⟨o, ho, hp⟩ | ⟨hr, hb⟩
  · rw [ho]
    exact ⟨hp.2, fun h => absurd h hp.1⟩
  · rw [hr]
    refine ⟨by simp [outOf], fun _ => ?_⟩
    rcases hb with hb | hb
    · rw [hs] at hb; cases hb
    · cases op <;> simp [isPingOp] at hb ⊢

/-- the same over whole histories, from any state: position by position -/
theorem degrade_total_run (cfg : Cfg) (hs : cfg.suppress = true) (ops : List ROp) :
    ∀ w : World, ∀ p ∈ ops.zip (run cfg w ops).2, p.2 ≠ ROut.raiseOther ∧ (p.2 = ROut.raise → p.1 = ROp.ping) := by
  induction ops with
  | nil => intro w p hp; simp at hp
  | cons op ops ih =>
    intro w p hp
    simp only [run, List.zip_cons_cons, List.mem_cons] at hp
    rcases hp with rfl | hp
    · exact degrade_total cfg hs w op
    · exact ih _ p hp

/-- **Safe degradation, values.**  Error suppression on, server unreachable from now on: every command answers its
failure value — reads the default (`get` the default, `get_many` defaults, scans nothing, `exists`/`is_locked` False,
`get_expire` 0), writes failure (`set`/`set_lock`/`delete` False, the others None) — `ping` raises, and the server is
not touched. -/
theorem degrade_failure_values (cfg : Cfg) (hs : cfg.suppress = true) (w : World)
    (hd : ∀ n, w.calls ≤ n → cfg.down n = true) (op : ROp) :
    (step cfg w op).2 = Ref.failureValue op ∧ ((∀ dt, op ≠ .adv dt) → (step cfg w op).1.srv = w.srv) :=
  step_all_down cfg hs w hd op

/-- **Suppression off, client level**: a client call that fails — connection down at that call, or an error reply —
surfaces as CacheBackendInteractionError (`Res.raise`); nothing else can come out of a call but a non-error reply. -/
theorem degrade_unsuppressed (cfg : Cfg) (hs : cfg.suppress = false) (c : Cmd) (w : World) :
    ((cfg.down w.calls = true ∨ (w.srv.exec c).2 = .err) → (clientCall cfg c w).2 = .raise) ∧
    ((clientCall cfg c w).2 = .raise ∨ ∃ r, (clientCall cfg c w).2 = .ok r ∧ r = (w.srv.exec c).2 ∧ r ≠ .err) := by
  constructor
  · intro h
    unfold clientCall failed
    rcases h with h | h
    · simp [h, hs]
    · by_cases hd : cfg.down w.calls = true <;> simp [hd, h, hs]
  · unfold clientCall failed
    by_cases hd : cfg.down w.calls = true
    · simp [hd, hs]
    · by_cases he : (w.srv.exec c).2 = .err
      · simp [hd, he, hs]
      · exact Or.inr ⟨_, by simp [hd, he], rfl, he⟩

/-- the same for pipelines (`set_many`, `set_add(expire=…)`; repaired code, finding D29) -/
theorem degrade_unsuppressed_pipeline (cfg : Cfg) (hs : cfg.suppress = false) (cs : List Cmd) (hcs : cs ≠ []) (w : World)
    (h : cfg.down w.calls = true ∨ multiErr w.srv cs = true) : (pipeCall cfg cs w).2 = .raise := by
  have h0 : cs.isEmpty = false := by cases cs <;> simp_all
  unfold pipeCall
  rcases h with h | h
  · simp [h0, h, hs]
  · by_cases hd : cfg.down w.calls = true <;> simp [h0, hd, h, hs]

/-- **Suppression off, command level**: a command whose first client call hits a dead connection raises
CacheBackendInteractionError; and, whatever fails and whenever, nothing but that documented error ever escapes a command. -/
theorem degrade_unsuppressed_step (cfg : Cfg) (hs : cfg.suppress = false) (w : World) (op : ROp) :
    (cfg.down w.calls = true → makesCall op = true → (step cfg w op).2 = .raise) ∧ (step cfg w op).2 ≠ .raiseOther := by
  refine ⟨fun hd hop => step_unsuppressed_down cfg hs w hd op hop, ?_⟩
  simp only [step]
  rcases stepM_fine cfg op w with ⟨o, ho, hp⟩ | ⟨hr, _⟩
  · rw [ho]; exact hp.2
  · rw [hr]; simp [outOf]

/-- **Lock contract, acquire**: `set_lock` (SET NX PX) is write-if-absent with a lease: it succeeds iff the key is not
visible, then the key holds the token until `now + ms` — or, for `ms = 0` (no ttl: `locked(ttl=None)`, finding D67 repaired:
SET NX without PX), without a deadline until it is released; otherwise nothing changes. -/
theorem lock_acquire (cfg : Cfg) (hup : ∀ n, cfg.down n = false) (w : World)
    (hc : ∀ s ∈ w.cached, s ∈ w.srv.loaded) (k : String) (tok : Bytes) (ms : Nat) :
    (step cfg w (.setLock k tok ms)).2 = .bool (!w.srv.ks.present k) ∧
    (w.srv.ks.present k = true → (step cfg w (.setLock k tok ms)).1.srv.ks = w.srv.ks) ∧
    (w.srv.ks.present k = false →
      (step cfg w (.setLock k tok ms)).1.srv.ks.find k =
        some ⟨.str tok, if ms = 0 then none else some (w.srv.ks.now + ms)⟩) := by
  obtain ⟨h1, h2⟩ := redis_step_refines cfg hup w hc (.setLock k tok ms)
  rw [h1, h2]
  cases hp : w.srv.ks.present k
  · refine ⟨by simp [Ref.step, hp], by simp, fun _ => ?_⟩
    simp only [Ref.step, hp, Bool.false_eq_true, if_false]
    cases ms with
    | zero =>
      have h0 : pxOf (some 0) = none := rfl
      simp only [h0, Option.map_none, if_true]
      exact KS.find_put_self_live _ _ _ (by simp [REntry.live])
    | succ n =>
      have h1 : pxOf (some (n + 1)) = some (n + 1) := rfl
      have hne : ¬ (n + 1 = 0) := by omega
      simp only [h1, Option.map_some, hne, if_false]
      exact KS.find_put_self_live _ _ _ (by simp [REntry.live])
  · exact ⟨by simp [Ref.step, hp], fun _ => by simp [Ref.step, hp], by simp⟩

/-- **Lock contract, release**: `unlock` (the `_UNLOCK` script) deletes the key iff it holds exactly the caller's
token — the owner check — and otherwise changes nothing and answers 0. -/
theorem lock_release (cfg : Cfg) (hup : ∀ n, cfg.down n = false) (w : World)
    (hc : ∀ s ∈ w.cached, s ∈ w.srv.loaded) (k : String) (tok : Bytes) :
    (∀ dl, w.srv.ks.find k = some ⟨.str tok, dl⟩ →
      (step cfg w (.unlock k tok)).2 = .int 1 ∧ (step cfg w (.unlock k tok)).1.srv.ks.find k = none) ∧
    (∀ b dl, w.srv.ks.find k = some ⟨.str b, dl⟩ → b ≠ tok →
      (step cfg w (.unlock k tok)).2 = .int 0 ∧ (step cfg w (.unlock k tok)).1.srv.ks = w.srv.ks) ∧
    (w.srv.ks.find k = none →
      (step cfg w (.unlock k tok)).2 = .int 0 ∧ (step cfg w (.unlock k tok)).1.srv.ks = w.srv.ks) := by
  obtain ⟨h1, h2⟩ := redis_step_refines cfg hup w hc (.unlock k tok)
  rw [h1, h2]
  refine ⟨fun dl hf => ?_, fun b dl hf hb => ?_, fun hf => ?_⟩
  · simp [Ref.step, hf]
  · simp [Ref.step, hf, hb]
  · simp [Ref.step, hf]

/-- mutual exclusion inside the lease, as a corollary: after a successful `set_lock`, and before the lease is over,
no other `set_lock` on that key succeeds and an `unlock` with another token does not release it. -/
theorem lock_excludes (cfg : Cfg) (hup : ∀ n, cfg.down n = false) (w : World)
    (hc : ∀ s ∈ w.cached, s ∈ w.srv.loaded) (k : String) (tok tok' : Bytes) (dl : Option Nat) (ms : Nat) (hms : 0 < ms)
    (hheld : w.srv.ks.find k = some ⟨.str tok, dl⟩) (hne : tok' ≠ tok) :
    (step cfg w (.setLock k tok' ms)).2 = .bool false ∧ (step cfg w (.unlock k tok')).2 = .int 0 ∧
    (step cfg w (.unlock k tok')).1.srv.ks.find k = some ⟨.str tok, dl⟩ := by
  have hp : w.srv.ks.present k = true := by simp [KS.present, hheld]
  obtain ⟨a1, _, _⟩ := lock_acquire cfg hup w hc k tok' ms
  obtain ⟨_, b2, _⟩ := lock_release cfg hup w hc k tok'
  obtain ⟨c1, c2⟩ := b2 tok dl hheld (fun h => hne h.symm)
  refine ⟨by rw [a1, hp]; rfl, c1, by rw [c2]; exact hheld⟩

/-- **A lock wait loop does not outlive the server** (`_BackendInterface.lock()`: `async with cache.lock(..)`, `@cache.locked`,
`@cache(.., lock=True)`).  From ANY point of the loop — about to try the lock, about to ping after a failed attempt, or
sleeping between two attempts, i.e. however many times the caller has already found the key held and the server alive —,
whatever the holder, the other clients and the clock do in between (`env`: arbitrary on the server, it only moves the call
counter forward), for either value of `wait`: once the server is unreachable (`down` from the current call on) the caller
leaves the loop within ONE further iteration (three small steps: wake up, SET NX, PING).  With suppression on it runs its body
unprotected (the safe client turns the failed SET NX into `False`, which looks like "held"; the liveness ping made after
EVERY failed attempt raises and tells the difference); with suppression off the documented error escapes from `set_lock` —
or, when the outage begins between a failed attempt and its ping, the ping's error is caught and the body runs. -/
theorem lock_wait_terminates_when_down (cfg : Cfg) (k : String) (tok : Bytes) (ms : Nat) (wait : Bool)
    (env : Nat → World → World) (henv : EnvOk env) (p : LPos) (w : World)
    (hd : ∀ n, w.calls ≤ n → cfg.down n = true) (fuel : Nat) (hf : 3 ≤ fuel) :
    (lockRun cfg k tok ms wait env fuel p w).2 = some (downOutcome cfg p) ∧
    (cfg.suppress = true → downOutcome cfg p = .unprotected) ∧
    (downOutcome cfg p = .unprotected ∨ (downOutcome cfg p = .raise ∧ cfg.suppress = false)) := by
  refine ⟨lockRun_down cfg k tok ms wait env henv p w hd fuel hf, ?_, ?_⟩
  · intro hs; cases p <;> simp [downOutcome, hs]
  · cases p <;> cases hs : cfg.suppress <;> simp [downOutcome, hs]

/-- **…and for every failure pattern** (`down : Nat → Bool` arbitrary: outages that begin and end anywhere), any `env`, any
number of steps: nothing but the documented error ever escapes the loop, and that only with suppression off — with suppression
on a caller of `lock()` acquires, runs unprotected, gets `LockedError` (`wait=False`) or is still waiting, never anything else. -/
theorem lock_wait_degrades_safely (cfg : Cfg) (k : String) (tok : Bytes) (ms : Nat) (wait : Bool)
    (env : Nat → World → World) (fuel : Nat) (p : LPos) (w : World) :
    (lockRun cfg k tok ms wait env fuel p w).2 ≠ some .raiseOther ∧
    ((lockRun cfg k tok ms wait env fuel p w).2 = some .raise → cfg.suppress = false) :=
  lockRun_fine cfg k tok ms wait env fuel p w

/-- **The transaction's lock wait loop is bounded** (`LockTransactionBackend._lock_updates`): it is `rounds = timeout / 0.1`
attempts long by construction (`txLockRun` recurses on `rounds`; with nobody else acting it makes at most `rounds` client
calls); for every failure pattern it ends in "acquired", `LockedError` or — suppression off only — the documented error; with
the server unreachable from the current call on it ends in `LockedError` after the remaining rounds (suppression on: every
SET NX answers `False`; there is no liveness ping in this loop) or raises the documented error at the next attempt
(suppression off). -/
theorem tx_lock_wait_bounded (cfg : Cfg) (k : String) (tok : Bytes) (ms : Nat) (env : Nat → World → World)
    (rounds : Nat) (w : World) :
    (txLockRun cfg k tok ms env rounds w).2 ≠ .raiseOther ∧
    ((txLockRun cfg k tok ms env rounds w).2 = .raise → cfg.suppress = false) ∧
    (txLockRun cfg k tok ms envId rounds w).1.calls ≤ w.calls + rounds ∧
    (EnvOk env → (∀ n, w.calls ≤ n → cfg.down n = true) →
      (txLockRun cfg k tok ms env rounds w).2 =
        (if cfg.suppress then .lockedError else if rounds = 0 then .lockedError else .raise)) :=
  ⟨(txLockRun_fine cfg k tok ms env rounds w).1, (txLockRun_fine cfg k tok ms env rounds w).2,
   txLockRun_calls cfg k tok ms rounds w, fun henv hd => txLockRun_down cfg k tok ms env henv rounds w hd⟩

/-! ### Non-vacuity -/

/-- a configuration with the connection always up, suppression on, every payload decodable -/
def cfgUp : Cfg := { suppress := true, down := fun _ => false, isEnc := fun _ => true }
/-- the connection goes down at client call 3 and stays down -/
def cfgDownFrom3 : Cfg := { suppress := true, down := fun n => decide (3 ≤ n), isEnc := fun _ => true }

example : ∀ n, cfgUp.down n = false := fun _ => rfl
example : ∀ n, 3 ≤ n → cfgDownFrom3.down n = true := by intro n h; simp [cfgDownFrom3, h]

/-- TTL-ed write, negative counter read back as an int, counter whose TTL is armed on creation, expiry, owner-checked
unlock, a paged pattern scan, a pipeline, a bit field with saturation, the sliding window reaching its limit -/
def sampleHist : List ROp :=
  [.set "k:a" (.int (-5)) (some 1000) .always, .get "k:a", .incr "k:b" 1 (some 2000), .getExpire "k:b",
   .setLock "L" (.blob "aa") 500, .unlock "L" (.blob "bb"), .unlock "L" (.blob "aa"), .unlock "L" (.blob "aa"),
   .setMany [("k:c", .obj "01"), ("j", .int 7)] none, .scan "k:*" 2, .adv 1000, .get "k:a", .getMany ["k:b", "k:c", "zz"],
   .incrBits "B" [1, 2] 2 3, .incrBits "B" [1] 2 3, .getBits "B" [0, 1, 2] 2,
   .sliceIncr "Z" (.num 0) (.num 10) 2 (some 1000), .sliceIncr "Z" (.num 0) (.num 11) 2 none, .sliceIncr "Z" (.num 0) (.num 12) 2 none,
   .deleteMatch "k:*", .keysCount]

/-- the model computes on it (connection up) … -/
example : (run cfgUp World.init sampleHist).2 =
    [.bool true, .val (some (.int (-5))), .int 1, .int 2, .bool true, .int 0, .int 1, .int 0, .none_,
     .keys ["k:a", "k:b", "k:c"], .none_, .val none, .vals [some (.int 1), some (.obj "01"), none],
     .ints [3, 3], .ints [3], .ints [0, 3, 3], .int 1, .int 2, .int 2, .none_, .int 3] := by decide +kernel

/-- … and when the connection dies at the fourth client call (in the middle of `incr`: SCRIPT LOAD went through, EVALSHA did not) -/
example : (run cfgDownFrom3 World.init sampleHist).2 =
    [.bool true, .val (some (.int (-5))), .none_, .int 0, .bool false, .none_, .none_, .none_, .none_, .keys [], .none_,
     .val none, .vals [none, none, none], .ints [], .ints [], .ints [], .none_, .none_, .none_, .none_, .none_] := by decide +kernel

/-- the premises of the lock lemmas are reachable: after a successful `set_lock` the key is held with a lease -/
example :
    (run cfgUp World.init [.setLock "L" (.blob "aa") 500]).1.srv.ks.find "L" = some ⟨.str (.blob "aa"), some 500⟩ ∧
    (run cfgUp World.init [.setLock "L" (.blob "aa") 500]).1.cached = [] := by decide +kernel

/-- the world of a waiter: somebody holds `L` (one client call made so far) -/
def heldWorld (cfg : Cfg) : World := (run cfg World.init [.setLock "L" (.blob "aa") 8000]).1

/-- the connection goes down at client call `n` and stays down -/
def cfgDownFrom (n : Nat) (suppress : Bool) : Cfg := { suppress := suppress, down := fun m => decide (n ≤ m), isEnc := fun _ => true }

example : EnvOk envId := fun _ _ => Nat.le_refl _
example : ∀ m, (heldWorld (cfgDownFrom 6 true)).calls + 5 ≤ m → (cfgDownFrom 6 true).down m = true := by
  intro m h; have : (heldWorld (cfgDownFrom 6 true)).calls = 1 := by decide +kernel
  simp [cfgDownFrom]; omega

/-- the loop really loops: server up, key held, `wait=True` — after 30 steps (10 iterations: SET NX, PING, sleep) the waiter is
still inside, having made 20 client calls; with `wait=False` it gets LockedError after one SET NX and one PING; when the key
is free it acquires -/
example :
    (lockRun cfgUp "L" (.blob "bb") 1000 true envId 30 .atSetLock (heldWorld cfgUp)).2 = none ∧
    (lockRun cfgUp "L" (.blob "bb") 1000 true envId 30 .atSetLock (heldWorld cfgUp)).1.calls = 21 ∧
    (lockRun cfgUp "L" (.blob "bb") 1000 false envId 30 .atSetLock (heldWorld cfgUp)).2 = some .lockedError ∧
    (lockRun cfgUp "M" (.blob "bb") 1000 true envId 30 .atSetLock (heldWorld cfgUp)).2 = some .acquired := by decide +kernel

/-- the outage begins while the waiter is in its third turn (the holder made call 0; client call 5 = the waiter's third
SET NX, call 6 = its third PING): suppression on → unprotected after that turn's SET NX and PING (7 calls in all) whichever
of the two the outage begins at; suppression off → the documented error from the SET NX, or — outage beginning at the PING —
unprotected -/
example :
    (lockRun (cfgDownFrom 5 true) "L" (.blob "bb") 1000 true envId 30 .atSetLock (heldWorld (cfgDownFrom 5 true))).2 = some .unprotected ∧
    (lockRun (cfgDownFrom 5 true) "L" (.blob "bb") 1000 true envId 30 .atSetLock (heldWorld (cfgDownFrom 5 true))).1.calls = 7 ∧
    (lockRun (cfgDownFrom 6 true) "L" (.blob "bb") 1000 true envId 30 .atSetLock (heldWorld (cfgDownFrom 6 true))).2 = some .unprotected ∧
    (lockRun (cfgDownFrom 6 true) "L" (.blob "bb") 1000 true envId 30 .atSetLock (heldWorld (cfgDownFrom 6 true))).1.calls = 7 ∧
    (lockRun (cfgDownFrom 5 false) "L" (.blob "bb") 1000 true envId 30 .atSetLock (heldWorld (cfgDownFrom 5 false))).2 = some .raise ∧
    (lockRun (cfgDownFrom 6 false) "L" (.blob "bb") 1000 true envId 30 .atSetLock (heldWorld (cfgDownFrom 6 false))).2 = some .unprotected := by
  decide +kernel

/-- the transaction's loop: key held and server up → LockedError after the 10 rounds (10 calls); server down from the waiter's
fourth attempt → LockedError all the same (suppression on), the documented error at that attempt (suppression off) -/
example :
    (txLockRun cfgUp "L" (.blob "bb") 1000 envId 10 (heldWorld cfgUp)).2 = .lockedError ∧
    (txLockRun cfgUp "L" (.blob "bb") 1000 envId 10 (heldWorld cfgUp)).1.calls = 11 ∧
    (txLockRun (cfgDownFrom 4 true) "L" (.blob "bb") 1000 envId 10 (heldWorld (cfgDownFrom 4 true))).2 = .lockedError ∧
    (txLockRun (cfgDownFrom 4 false) "L" (.blob "bb") 1000 envId 10 (heldWorld (cfgDownFrom 4 false))).2 = .raise ∧
    (txLockRun (cfgDownFrom 4 false) "L" (.blob "bb") 1000 envId 10 (heldWorld (cfgDownFrom 4 false))).1.calls = 5 ∧
    (txLockRun cfgUp "M" (.blob "bb") 1000 envId 10 (heldWorld cfgUp)).2 = .acquired := by decide +kernel

/-- a lock without a lease (`ms = 0`: `@cache.locked()` with its default ttl, finding D67 repaired): SET NX goes without PX, time
does not release the key, a competitor is refused, only the owner's unlock frees it -/
example : (run cfgUp World.init [.setLock "L" (.blob "aa") 0, .getExpire "L", .adv 100000000, .isLocked "L",
      .setLock "L" (.blob "bb") 500, .unlock "L" (.blob "bb"), .unlock "L" (.blob "aa"), .isLocked "L"]).2 =
    [.bool true, .int (-1), .none_, .bool true, .bool false, .int 0, .int 1, .bool false] ∧
    (run cfgUp World.init [.setLock "L" (.blob "aa") 0]).1.log = [.one (.set "L" (.blob "aa") none .nx)] := by decide +kernel

end CashewsVerif.Props.C19
