import CashewsVerif.Lemmas.LockExamples
import CashewsVerif.Lemmas.LockHealth
import CashewsVerif.Lemmas.LockFacade
/-
C06 — `cache.lock` / `@locked` give mutual exclusion with owner-only release.

The theorems are about the transition system of `Model/Lock.lean` (the acquire loop and the
`finally: unlock` of `_BackendInterface.lock`), for EVERY trace of actions (any number of tasks,
keys, lock ttls, time advances, foreign unlocks, purge sweeps, in any order) and for EVERY backend
that satisfies the lock contract of `Lemmas/LockContract.lean`; `mem_satisfies_lock_contract` and
`ttlmap_satisfies_lock_contract` show that the in-memory backend model (repaired `set(exist=False)`
and owner-checked `unlock`) and the ideal TTL map (= Redis `SET NX PX` + the `_UNLOCK` script) do,
and the `…_mem` theorems are the instantiations for the in-memory model started empty.

Vocabulary: `run B s0 tr` is the state after the trace `tr`; `insideKey s t key` = activation `t`
is in the section guarded by `key` HOLDING the lock; `withinLease B s t` = it is, and its lock ttl has
not elapsed (`now < acquisition instant + ttl`; no ttl = never elapses); `inSection s t key` = it is in
the section with or without a lock (`unguarded`: `lock()` yielded because SET_LOCK is disabled on the
backend that owns the key, or because the liveness probe got no answer); `overstayed B s t` = it holds
a lock whose ttl has elapsed.

The traces contain, besides the lock commands, the transaction moves of the threads (`txBegin`,
`txSet`, `txEnd`: a task may be inside a `cache.transaction()` block of any mode when it takes or
releases a lock, see `inTx`) and changes of the health of the configured backends (`setHealth`); every
theorem below is stated for all such traces.  The section-level theorems (`section_exclusion…`,
`contended_attempt_healthy_owner`) need exactly one thing: the backend that OWNS the key (`s.route key`,
prefix routing of C17) stays healthy - the other backends may be disabled or down.
-/
namespace CashewsVerif.Props.C06
open CashewsVerif CashewsVerif.Lock

variable {σ : Type} {B : LockOps σ} {Ok : σ → Prop} {keyOk : Key → Prop}

/-- The in-memory backend model satisfies the lock contract (as long as the lock keys fit the
capacity): `set_lock` writes iff there is no *live* lock — an expired entry that is still stored
counts as absent — and `unlock` deletes iff the presented value is the stored one. -/
theorem mem_satisfies_lock_contract (K : List Key) : LockContract memOps (MemOk K) (· ∈ K) :=
  memContract K

/-- The ideal TTL map (what `SET NX PX` and the owner-checked `_UNLOCK` script implement on
Redis) satisfies the lock contract. -/
theorem ttlmap_satisfies_lock_contract : LockContract ttlOps (fun _ => True) (fun _ => True) :=
  ttlContract

/-- `set_lock` of the lock model is literally the conditional write of the C01 model. -/
theorem mem_set_lock_is_conditional_write (s : Mem) (k : Key) (v : Val) (ttl : Option Nat) :
    s.step (.set k v ttl .nx) = ((memSetLock s k v ttl).1, .bool (memSetLock s k v ttl).2) :=
  memSetLock_eq_step s k v ttl

/-! ### mutual exclusion -/

/-- **Stronger form (overstayers cannot break others).** After any trace, if two different
activations are inside the section of the same key at the same instant, at most one of them is
still within its lease.  This is where owner-only `unlock` matters: a holder that overstayed and
leaves late does not remove the lock of the next holder. -/
theorem mutual_exclusion_within_lease (C : LockContract B Ok keyOk) {s0 : LockSt σ}
    (h0 : Start B Ok s0) (tr : List Act) (htr : ∀ a ∈ tr, a.keysIn keyOk)
    (key t1 t2 : Nat) (hne : t1 ≠ t2)
    (h1 : insideKey (run B s0 tr) t1 key = true) (h2 : insideKey (run B s0 tr) t2 key = true) :
    ¬ (withinLease B (run B s0 tr) t1 = true ∧ withinLease B (run B s0 tr) t2 = true) := by
  have inv := inv_reach C h0 tr htr
  generalize run B s0 tr = s at *
  intro ⟨w1, w2⟩
  unfold insideKey at h1 h2
  unfold withinLease at w1 w2
  cases hs1 : s.tasks t1 with
  | inside k1 tok1 d1 =>
    cases hs2 : s.tasks t2 with
    | inside k2 tok2 d2 =>
      simp only [hs1, hs2, beq_iff_eq] at h1 h2 w1 w2
      rw [h1] at hs1; rw [h2] at hs2
      have o1 := inv.holds t1 key tok1 d1 hs1 w1
      have o2 := inv.holds t2 key tok2 d2 hs2 w2
      rw [o1] at o2
      simp only [Option.some.injEq, Prod.mk.injEq] at o2
      have : tok1 = tok2 := ownTok_inj o2.1
      exact hne (inv.distinct t1 t2 tok1 (by rw [hs1]; rfl) (by rw [hs2, this]; rfl))
    | _ => simp [hs2] at h2
  | _ => simp [hs1] at h1

/-- **Mutual exclusion.** After any trace, if every activation that is inside a section is
within its lease (every holder leaves before its lock ttl elapses), at most one activation is
inside the section of a given key. -/
theorem mutual_exclusion (C : LockContract B Ok keyOk) {s0 : LockSt σ}
    (h0 : Start B Ok s0) (tr : List Act) (htr : ∀ a ∈ tr, a.keysIn keyOk)
    (hlease : ∀ t key, insideKey (run B s0 tr) t key = true → withinLease B (run B s0 tr) t = true)
    (key t1 t2 : Nat)
    (h1 : insideKey (run B s0 tr) t1 key = true) (h2 : insideKey (run B s0 tr) t2 key = true) :
    t1 = t2 := by
  by_cases hne : t1 = t2
  · exact hne
  · exact absurd ⟨hlease t1 key h1, hlease t2 key h2⟩
      (mutual_exclusion_within_lease C h0 tr htr key t1 t2 hne h1 h2)

/-- The same in the wording of the property: along a whole run in which no holder is ever found
inside at or after its lease deadline, at every point of the run at most one activation is inside
per key. -/
theorem mutual_exclusion_always (C : LockContract B Ok keyOk) {s0 : LockSt σ}
    (h0 : Start B Ok s0) (tr : List Act) (htr : ∀ a ∈ tr, a.keysIn keyOk)
    (hlease : ∀ p, p <+: tr → ∀ t key,
      insideKey (run B s0 p) t key = true → withinLease B (run B s0 p) t = true)
    (p : List Act) (hp : p <+: tr) (key t1 t2 : Nat)
    (h1 : insideKey (run B s0 p) t1 key = true) (h2 : insideKey (run B s0 p) t2 key = true) :
    t1 = t2 :=
  mutual_exclusion C h0 p (fun a ha => htr a (hp.subset ha)) (hlease p hp) key t1 t2 h1 h2

/-! ### owner-only release -/

/-- **An unlock that does not present the owner's value releases nothing** (contract level: any
backend state, any value — a made-up one or the stale identifier of an earlier holder). -/
theorem foreign_unlock_noop (C : LockContract B Ok keyOk) (s : σ) (hs : Ok s) (key : Key) (v : Val)
    (hv : ∀ d, B.owner s key ≠ some (v, d)) :
    (B.unlock s key v).2 = false ∧ ∀ k, B.owner (B.unlock s key v).1 k = B.owner s k := by
  refine ⟨(C.unlock_other s key v hs hv).1, fun k => ?_⟩
  by_cases e : k = key
  · rw [e]; exact (C.unlock_other s key v hs hv).2
  · exact C.unlock_frame s key v k hs e

/-- The same for the in-memory model, spelled out on its state. -/
theorem foreign_unlock_noop_mem (K : List Key) (s : Mem) (hs : MemOk K s) (key : Key) (v : Val)
    (hv : ∀ d, memOwner s key ≠ some (v, d)) :
    (memUnlock s key v).2 = false ∧ ∀ k, memOwner (memUnlock s key v).1 k = memOwner s k :=
  foreign_unlock_noop (memContract K) s hs key v hv

/-- In every reachable state of the protocol, an `unlock` with a value that no `lock()` call
generated answers False, changes no live lock and no task. -/
theorem foreign_unlock_noop_reachable (C : LockContract B Ok keyOk) {s0 : LockSt σ}
    (h0 : Start B Ok s0) (tr : List Act) (htr : ∀ a ∈ tr, a.keysIn keyOk) (key n : Nat) :
    (step B (run B s0 tr) (.foreignUnlock key n)).2 = .bool false ∧
    (step B (run B s0 tr) (.foreignUnlock key n)).1.tasks = (run B s0 tr).tasks ∧
    ∀ k, B.owner (step B (run B s0 tr) (.foreignUnlock key n)).1.be k = B.owner (run B s0 tr).be k := by
  have inv := inv_reach C h0 tr htr
  generalize run B s0 tr = s at *
  have hne : ∀ d, B.owner s.be key ≠ some (alienTok n, d) := by
    intro d hd
    obtain ⟨t0, tok0, hv, _⟩ := inv.owned key _ d hd
    exact ownTok_ne_alien tok0 n hv.symm
  have := foreign_unlock_noop C s.be inv.ok key (alienTok n) hne
  simp only [step, this.1, true_and]
  exact this.2

/-- **Released on every exit.** When an activation leaves its section — normally, by an exception
or by cancellation (`how` is arbitrary) — its own lock is gone afterwards, it is `done`, no other
task changes, no other key changes, and a live lock on the same key that belongs to somebody else
(the leaver overstayed) is left untouched.  If the leaver was within its lease the unlock answers
True and the key is free. -/
theorem released_on_every_exit (C : LockContract B Ok keyOk) {s0 : LockSt σ}
    (h0 : Start B Ok s0) (tr : List Act) (htr : ∀ a ∈ tr, a.keysIn keyOk)
    (t : Nat) (how : How) (key tok : Nat) (dl : Option Nat)
    (ht : (run B s0 tr).tasks t = .inside key tok dl) :
    let s := run B s0 tr
    let s' := (step B s (.leave t how)).1
    s'.tasks t = .done ∧
    (∀ t', t' ≠ t → s'.tasks t' = s.tasks t') ∧
    (∀ k, k ≠ key → B.owner s'.be k = B.owner s.be k) ∧
    (∀ d, B.owner s'.be key ≠ some (ownTok tok, d)) ∧
    (∀ v d, B.owner s.be key = some (v, d) → v ≠ ownTok tok → B.owner s'.be key = some (v, d)) ∧
    (withinLease B s t = true →
      (step B s (.leave t how)).2 = .released true ∧ B.owner s'.be key = none) := by
  have inv := inv_reach C h0 tr htr
  generalize run B s0 tr = s at *
  simp only [step, ht]
  refine ⟨by simp [setTask_tasks], ?_, ?_, ?_, ?_, ?_⟩
  · intro t' hne; simp [setTask_tasks, hne]
  · intro k hk
    exact C.unlock_frame s.be key (ownTok tok) k inv.ok hk
  · intro d hd
    have hd' : B.owner (B.unlock s.be key (ownTok tok)).1 key = some (ownTok tok, d) := hd
    by_cases hmine : ∃ d0, B.owner s.be key = some (ownTok tok, d0)
    · obtain ⟨d0, h0'⟩ := hmine
      rw [(C.unlock_owner s.be key (ownTok tok) d0 inv.ok h0').2] at hd'
      simp at hd'
    · rw [(C.unlock_other s.be key (ownTok tok) inv.ok (fun d0 h0' => hmine ⟨d0, h0'⟩)).2] at hd'
      exact hmine ⟨d, hd'⟩
  · intro v d hown hv
    show B.owner (B.unlock s.be key (ownTok tok)).1 key = some (v, d)
    rw [(C.unlock_other s.be key (ownTok tok) inv.ok (fun d0 h0' => by
      rw [hown] at h0'
      simp only [Option.some.injEq, Prod.mk.injEq] at h0'
      exact hv h0'.1)).2]
    exact hown
  · intro hw
    unfold withinLease at hw
    simp only [ht] at hw
    have hown := inv.holds t key tok dl ht hw
    obtain ⟨r1, r2⟩ := C.unlock_owner s.be key (ownTok tok) dl inv.ok hown
    exact ⟨by rw [r1], r2⟩

/-! ### acquisition does not depend on unrelated events -/

/-- **Acquisition liveness.** In every reachable state, if there is no live lock on the key
(never taken, released, or its ttl elapsed), the next attempt of a waiting or newly arrived
activation succeeds: it is inside the section and owns the key with a fresh lease.  No premise
about the purge task, about the probe or about any other backend; the one premise `hen` is that
`set_lock` is not a disabled command on the backend owning the key (a disabled `set_lock` answers
None and `lock()` then runs the section without locking, see `disabled_set_lock_means_no_locking`). -/
theorem acquisition_liveness (C : LockContract B Ok keyOk) {s0 : LockSt σ}
    (h0 : Start B Ok s0) (tr : List Act) (htr : ∀ a ∈ tr, a.keysIn keyOk)
    (t key : Nat) (ttl : Option Nat) (wait : Bool) (tok : Nat)
    (ht : (run B s0 tr).tasks t = .trying key ttl wait tok)
    (hen : ((run B s0 tr).health ((run B s0 tr).route key)).setLock = true)
    (hfree : B.owner (run B s0 tr).be key = none) :
    let s := run B s0 tr
    (step B s (.attempt t)).2 = .acquired ∧
    (step B s (.attempt t)).1.tasks t = .inside key tok (deadlineOf (B.now s.be) ttl) ∧
    B.owner (step B s (.attempt t)).1.be key = some (ownTok tok, deadlineOf (B.now s.be) ttl) := by
  have inv := inv_reach C h0 tr htr
  generalize run B s0 tr = s at *
  have hk := inv.keys t key ttl wait tok ht
  obtain ⟨r1, r2⟩ := C.setLock_free s.be key (ownTok tok) ttl inv.ok hk hfree
  simp only [step, ht, attemptCore, hen, r1, if_true, setTask_tasks, true_and]
  exact r2

/-- For the in-memory model "no live lock" is a statement about the raw store: the key is absent
**or its stored deadline is `<= now`** — an expired entry that nobody purged does not block. -/
theorem acquisition_liveness_mem (cap : Nat) (K : List Key) (hK : K.length ≤ cap)
    (tr : List Act) (htr : ∀ a ∈ tr, a.keysIn (· ∈ K))
    (t key : Nat) (ttl : Option Nat) (wait : Bool) (tok : Nat)
    (ht : (run memOps (init (Mem.init cap)) tr).tasks t = .trying key ttl wait tok)
    (hen : ((run memOps (init (Mem.init cap)) tr).health
      ((run memOps (init (Mem.init cap)) tr).route key)).setLock = true)
    (hraw : Store.lookup (run memOps (init (Mem.init cap)) tr).be.store key = none ∨
      ∃ e d, Store.lookup (run memOps (init (Mem.init cap)) tr).be.store key = some e ∧
        e.dl = some d ∧ d ≤ (run memOps (init (Mem.init cap)) tr).be.now) :
    (step memOps (run memOps (init (Mem.init cap)) tr) (.attempt t)).2 = .acquired := by
  exact (acquisition_liveness (memContract K) (mem_start cap K hK) tr htr t key ttl wait tok ht hen
    ((memOwner_none_iff _ key).mpr hraw)).1

/-- After a holder that is within its lease leaves (in any way), the next attempt of a waiter on
that key succeeds. -/
theorem acquire_after_release (C : LockContract B Ok keyOk) {s0 : LockSt σ}
    (h0 : Start B Ok s0) (tr : List Act) (htr : ∀ a ∈ tr, a.keysIn keyOk)
    (t1 t2 key : Nat) (how : How) (tok1 tok2 : Nat) (dl : Option Nat) (ttl : Option Nat) (wait : Bool)
    (h1 : (run B s0 tr).tasks t1 = .inside key tok1 dl)
    (hw : withinLease B (run B s0 tr) t1 = true)
    (h2 : (run B s0 tr).tasks t2 = .trying key ttl wait tok2)
    (hen : ((run B s0 tr).health ((run B s0 tr).route key)).setLock = true) :
    (step B (run B s0 (tr ++ [.leave t1 how])) (.attempt t2)).2 = .acquired := by
  have hrel := released_on_every_exit C h0 tr htr t1 how key tok1 dl h1
  simp only at hrel
  have hne : t2 ≠ t1 := by intro e; rw [e, h1] at h2; simp at h2
  have htr' : ∀ a ∈ tr ++ [Act.leave t1 how], a.keysIn keyOk := by
    intro a ha
    simp only [List.mem_append, List.mem_singleton] at ha
    rcases ha with ha | ha
    · exact htr a ha
    · rw [ha]; trivial
  have hrun : run B s0 (tr ++ [Act.leave t1 how]) = (step B (run B s0 tr) (.leave t1 how)).1 :=
    run_snoc s0 tr _
  have hen' : ((run B s0 (tr ++ [Act.leave t1 how])).health
      ((run B s0 (tr ++ [Act.leave t1 how])).route key)).setLock = true := by
    rw [hrun, step_route, step_health_eq _ _ (by intro b h; simp)]; exact hen
  have h2' : (run B s0 (tr ++ [Act.leave t1 how])).tasks t2 = .trying key ttl wait tok2 := by
    rw [hrun, hrel.2.1 t2 hne]; exact h2
  have hfree : B.owner (run B s0 (tr ++ [Act.leave t1 how])).be key = none := by
    rw [hrun]; exact (hrel.2.2.2.2.2 hw).2
  exact (acquisition_liveness C h0 _ htr' t2 key ttl wait tok2 h2' hen' hfree).1

/-- Once the ttl of the lock on a key has elapsed, the next attempt of a waiter on that key
succeeds — whether or not the old holder is still inside, and with no purge in between. -/
theorem acquire_after_expiry (C : LockContract B Ok keyOk) {s0 : LockSt σ}
    (h0 : Start B Ok s0) (tr : List Act) (htr : ∀ a ∈ tr, a.keysIn keyOk)
    (t key : Nat) (ttl : Option Nat) (wait : Bool) (tok : Nat) (v : Val) (d dt : Nat)
    (ht : (run B s0 tr).tasks t = .trying key ttl wait tok)
    (hown : B.owner (run B s0 tr).be key = some (v, some d))
    (hexp : d ≤ B.now (run B s0 tr).be + dt)
    (hen : ((run B s0 tr).health ((run B s0 tr).route key)).setLock = true) :
    (step B (run B s0 (tr ++ [.tick dt])) (.attempt t)).2 = .acquired := by
  have inv := inv_reach C h0 tr htr
  have htr' : ∀ a ∈ tr ++ [Act.tick dt], a.keysIn keyOk := by
    intro a ha
    simp only [List.mem_append, List.mem_singleton] at ha
    rcases ha with ha | ha
    · exact htr a ha
    · rw [ha]; trivial
  have hrun : run B s0 (tr ++ [Act.tick dt]) = (step B (run B s0 tr) (.tick dt)).1 :=
    run_snoc s0 tr _
  have hen' : ((run B s0 (tr ++ [Act.tick dt])).health
      ((run B s0 (tr ++ [Act.tick dt])).route key)).setLock = true := by
    rw [hrun, step_route, step_health_eq _ _ (by intro b h; simp)]; exact hen
  have ht' : (run B s0 (tr ++ [Act.tick dt])).tasks t = .trying key ttl wait tok := by
    rw [hrun]; simp only [step]; exact ht
  have hfree : B.owner (run B s0 (tr ++ [Act.tick dt])).be key = none := by
    rw [hrun]; simp only [step]
    rw [C.tick_owner _ dt key inv.ok, hown]
    have : liveAt (some d) (B.now (run B s0 tr).be + dt) = false := by
      simp only [liveAt, decide_eq_false_iff_not]; omega
    simp [Option.filter, this]
  exact (acquisition_liveness C h0 _ htr' t key ttl wait tok ht' hen' hfree).1

/-! ### the same for the in-memory model started empty -/

/-- Mutual exclusion within the lease for the protocol over the in-memory backend model, any
trace whose lock keys fit the capacity. -/
theorem mutual_exclusion_within_lease_mem (cap : Nat) (K : List Key) (hK : K.length ≤ cap)
    (tr : List Act) (htr : ∀ a ∈ tr, a.keysIn (· ∈ K)) (key t1 t2 : Nat) (hne : t1 ≠ t2)
    (h1 : insideKey (run memOps (init (Mem.init cap)) tr) t1 key = true)
    (h2 : insideKey (run memOps (init (Mem.init cap)) tr) t2 key = true) :
    ¬ (withinLease memOps (run memOps (init (Mem.init cap)) tr) t1 = true ∧
       withinLease memOps (run memOps (init (Mem.init cap)) tr) t2 = true) :=
  mutual_exclusion_within_lease (memContract K) (mem_start cap K hK) tr htr key t1 t2 hne h1 h2

/-- Mutual exclusion for the protocol over the in-memory backend model. -/
theorem mutual_exclusion_mem (cap : Nat) (K : List Key) (hK : K.length ≤ cap)
    (tr : List Act) (htr : ∀ a ∈ tr, a.keysIn (· ∈ K))
    (hlease : ∀ t key, insideKey (run memOps (init (Mem.init cap)) tr) t key = true →
      withinLease memOps (run memOps (init (Mem.init cap)) tr) t = true)
    (key t1 t2 : Nat)
    (h1 : insideKey (run memOps (init (Mem.init cap)) tr) t1 key = true)
    (h2 : insideKey (run memOps (init (Mem.init cap)) tr) t2 key = true) : t1 = t2 :=
  mutual_exclusion (memContract K) (mem_start cap K hK) tr htr hlease key t1 t2 h1 h2

/-! ### several backends: the liveness probe concerns the backend that owns the key -/

/-- **Nobody is in a section without a lock while the owning backend is healthy.**  `lock()` runs
the section without holding the lock in two situations only: `set_lock` answered None (the command is
disabled) or, after a refused `set_lock`, the probe `ping(b"LOCK")` got no answer (backend down).
Both are read off the backend that OWNS the key.  Hence: if that backend is healthy at the start and no
action of the trace makes IT unhealthy - the other configured backends may be disabled, lose single
commands or go down at any point - no activation is ever `unguarded` on the key. -/
theorem healthy_owner_never_unguarded {s0 : LockSt σ} (h0 : Start B Ok s0) (tr : List Act) (key : Nat)
    (hh : s0.health (s0.route key) = Health.ok)
    (hacts : ∀ a ∈ tr, a.keepsHealthy (s0.route key)) (t : Nat) :
    (run B s0 tr).tasks t ≠ .unguarded key :=
  run_no_unguarded s0 tr key hh hacts (fun t' => by rw [h0.2.2 t']; simp) t

/-- **A contended attempt on a healthy owning backend never lets the caller in.**  In every reachable
state: if the key has a live lock and the backend owning the key has SET_LOCK enabled and answers the
probe, the attempt answers `retry` (wait=True) or `locked` (wait=False: `LockedError`), the caller is
not in the section afterwards, and the live lock is untouched - whatever the health of every other
backend (it does not occur in the statement). -/
theorem contended_attempt_healthy_owner (C : LockContract B Ok keyOk) {s0 : LockSt σ}
    (h0 : Start B Ok s0) (tr : List Act) (htr : ∀ a ∈ tr, a.keysIn keyOk)
    (t key : Nat) (ttl : Option Nat) (wait : Bool) (tok : Nat) (o : Val × Option Nat)
    (ht : (run B s0 tr).tasks t = .trying key ttl wait tok)
    (hown : B.owner (run B s0 tr).be key = some o)
    (hh : (run B s0 tr).health ((run B s0 tr).route key) = Health.ok) :
    let s := run B s0 tr
    (step B s (.attempt t)).2 = (if wait then .retry else .locked) ∧
    inSection (step B s (.attempt t)).1 t key = false ∧
    B.owner (step B s (.attempt t)).1.be key = some o := by
  have inv := inv_reach C h0 tr htr
  generalize run B s0 tr = s at *
  have hk := inv.keys t key ttl wait tok ht
  obtain ⟨r1, r2⟩ := C.setLock_held s.be key (ownTok tok) ttl o inv.ok hk hown
  simp only [step, ht, attemptCore, hh, Health.ok, r1, if_true, Bool.false_eq_true, if_false]
  cases wait with
  | true => simp only [if_true, inSection, ht]; exact ⟨trivial, trivial, r2⟩
  | false =>
    simp only [Bool.false_eq_true, if_false, inSection, setTask_tasks, if_true]
    exact ⟨trivial, trivial, r2⟩

/-- **The probe concerns the owning backend only.**  Changing the health of any backend that does not
own the key of a waiting activation changes neither the answer of its attempt nor the state it leads to
(apart from that recorded health). -/
theorem probe_concerns_owning_backend (s : LockSt σ) (t key : Nat) (ttl : Option Nat) (wait : Bool)
    (tok : Nat) (ht : s.tasks t = .trying key ttl wait tok) (b : Nat) (hb : b ≠ s.route key) (h : Health) :
    (step B (step B s (.setHealth b h)).1 (.attempt t)).2 = (step B s (.attempt t)).2 ∧
    (step B (step B s (.setHealth b h)).1 (.attempt t)).1.tasks = (step B s (.attempt t)).1.tasks ∧
    (step B (step B s (.setHealth b h)).1 (.attempt t)).1.be = (step B s (.attempt t)).1.be := by
  have hne : ¬ (s.route key = b) := fun x => hb x.symm
  simp only [step, ht, hne, if_false]
  unfold attemptCore
  dsimp only
  cases (s.health (s.route key)).setLock <;> cases (s.health (s.route key)).ping <;> cases wait <;>
    cases (B.setLock s.be key (ownTok tok) ttl).2 <;> exact ⟨rfl, rfl, rfl⟩

/-- **Mutual exclusion of the sections, stronger form.**  While the backend owning the key stays
healthy: if two different activations are in the section of the key at the same instant - with or
without a lock - at least one of them holds a lock whose ttl has elapsed (it overstayed). -/
theorem section_exclusion_within_lease (C : LockContract B Ok keyOk) {s0 : LockSt σ}
    (h0 : Start B Ok s0) (tr : List Act) (htr : ∀ a ∈ tr, a.keysIn keyOk) (key : Nat)
    (hh : s0.health (s0.route key) = Health.ok)
    (hacts : ∀ a ∈ tr, a.keepsHealthy (s0.route key))
    (t1 t2 : Nat) (hne : t1 ≠ t2)
    (h1 : inSection (run B s0 tr) t1 key = true) (h2 : inSection (run B s0 tr) t2 key = true) :
    overstayed B (run B s0 tr) t1 = true ∨ overstayed B (run B s0 tr) t2 = true := by
  have hno := healthy_owner_never_unguarded (B := B) h0 tr key hh hacts
  have hmx := mutual_exclusion_within_lease C h0 tr htr key t1 t2 hne
  generalize run B s0 tr = s at *
  have conv : ∀ t, inSection s t key = true → insideKey s t key = true ∧
      (withinLease B s t = false → overstayed B s t = true) := by
    intro t ht
    unfold inSection at ht
    unfold insideKey withinLease overstayed
    cases hs : s.tasks t with
    | inside k tok dl => simp only [hs] at ht; simp [ht]
    | unguarded k =>
      simp only [hs, beq_iff_eq] at ht
      exact absurd (ht ▸ hs) (hno t)
    | _ => simp [hs] at ht
  obtain ⟨i1, o1⟩ := conv t1 h1
  obtain ⟨i2, o2⟩ := conv t2 h2
  have := hmx i1 i2
  cases w1 : withinLease B s t1 with
  | false => exact Or.inl (o1 w1)
  | true =>
    cases w2 : withinLease B s t2 with
    | false => exact Or.inr (o2 w2)
    | true => exact absurd ⟨w1, w2⟩ this

/-- **Mutual exclusion of the sections.**  While the backend owning the key stays healthy and every
lock holder of the key is within its lease, at most one activation is in the section of the key. -/
theorem section_exclusion (C : LockContract B Ok keyOk) {s0 : LockSt σ}
    (h0 : Start B Ok s0) (tr : List Act) (htr : ∀ a ∈ tr, a.keysIn keyOk) (key : Nat)
    (hh : s0.health (s0.route key) = Health.ok)
    (hacts : ∀ a ∈ tr, a.keepsHealthy (s0.route key))
    (hlease : ∀ t, insideKey (run B s0 tr) t key = true → withinLease B (run B s0 tr) t = true)
    (t1 t2 : Nat)
    (h1 : inSection (run B s0 tr) t1 key = true) (h2 : inSection (run B s0 tr) t2 key = true) :
    t1 = t2 := by
  by_cases hne : t1 = t2
  · exact hne
  · exfalso
    have hov : ∀ t, overstayed B (run B s0 tr) t = true → inSection (run B s0 tr) t key = true → False := by
      intro t ho hi
      have hl := hlease t
      unfold overstayed at ho
      unfold inSection at hi
      unfold insideKey withinLease at hl
      cases hs : (run B s0 tr).tasks t with
      | inside k tok dl =>
        simp only [hs] at ho hi hl
        have := hl hi
        simp [this] at ho
      | _ => simp [hs] at ho
    rcases section_exclusion_within_lease C h0 tr htr key hh hacts t1 t2 hne h1 h2 with h | h
    · exact hov t1 h h1
    · exact hov t2 h h2

/-- The section-level mutual exclusion for the in-memory model with several backends (`n` keys per
backend, `key / n` owns `key`) whose health `hl` is arbitrary except for the backend owning `key`. -/
theorem section_exclusion_mem (cap : Nat) (K : List Key) (hK : K.length ≤ cap) (n : Nat) (hl : Nat → Health)
    (tr : List Act) (htr : ∀ a ∈ tr, a.keysIn (· ∈ K)) (key : Nat)
    (hh : hl (key / n) = Health.ok) (hacts : ∀ a ∈ tr, a.keepsHealthy (key / n))
    (hlease : ∀ t, insideKey (run memOps { initRouted (Mem.init cap) n with health := hl } tr) t key = true →
      withinLease memOps (run memOps { initRouted (Mem.init cap) n with health := hl } tr) t = true)
    (t1 t2 : Nat)
    (h1 : inSection (run memOps { initRouted (Mem.init cap) n with health := hl } tr) t1 key = true)
    (h2 : inSection (run memOps { initRouted (Mem.init cap) n with health := hl } tr) t2 key = true) :
    t1 = t2 :=
  section_exclusion (memContract K) (mem_start_routed cap K hK n hl) tr htr key hh hacts hlease t1 t2 h1 h2

/-! ### transactions: the lock commands bypass the overlay -/

/-- **The lock commands are applied to the shared store whatever transaction is current.**  For every
action that is not a transaction move (`attempt` = `set_lock`, `leave` = `unlock`, foreign `unlock`,
`is_locked`, cancellation of a waiter, time, purge, `enter`, health changes): replacing the
transactions of all threads by anything (`withTx s x`) changes neither the answer nor the resulting
store / activations, and the action leaves every overlay exactly as it was.
(`TransactionBackend.set_lock / unlock / is_locked / ping` proxy to `self._backend`.) -/
theorem lock_commands_bypass_transactions (s : LockSt σ) (x : Nat → Option TxCtx) (a : Act)
    (ha : a.isTxAct = false) :
    step B (withTx s x) a = (withTx (step B s a).1 x, (step B s a).2) :=
  step_withTx s x a ha

/-- **The transaction moves do not touch the locks**: opening a transaction, writing application keys
into its overlay, committing or rolling back changes neither the store of the lock keys nor any
activation, identifier, routing or health. -/
theorem transaction_moves_leave_locks_alone (s : LockSt σ) (a : Act) (ha : a.isTxAct = true) :
    (step B s a).1.be = s.be ∧ (step B s a).1.tasks = s.tasks ∧ (step B s a).1.next = s.next ∧
    (step B s a).1.route = s.route ∧ (step B s a).1.health = s.health := by
  have h := step_txAct (B := B) s a ha
  exact ⟨h.be, h.tasks, h.next, h.route, h.health⟩

/-- **Along a whole run the locks do not depend on the transactions**: deleting every transaction move
from a trace (`eraseTx`) leads to the same store and the same activations.  Together with the theorems
above: a task that takes `cache.lock` / `@cache.locked` while it is inside a `cache.transaction()` block
(any mode, any nesting, before or after writing in it) excludes and is excluded exactly like a task that
is in no transaction; `mutual_exclusion…`, `released_on_every_exit`, `acquisition_liveness`,
`section_exclusion…` are statements about ALL traces, those with `txBegin/txSet/txEnd` included. -/
theorem locks_do_not_depend_on_transactions (s0 : LockSt σ) (tr : List Act) :
    (run B s0 tr).be = (run B s0 (eraseTx tr)).be ∧
    (run B s0 tr).tasks = (run B s0 (eraseTx tr)).tasks := by
  obtain ⟨x', hx⟩ := run_eraseTx (B := B) s0 s0.tx tr
  have e : withTx s0 s0.tx = s0 := rfl
  rw [e] at hx
  rw [hx]
  exact ⟨rfl, rfl⟩

/-! ### the facade: ttl spellings, user middlewares, generator consumers -/

/-- **The lease is the duration the ttl denotes.**  A `lock()` call written with any spelling of its ttl
(`int` seconds, `float`, a `timedelta` WITH its days and its sub-second part, `"1m30s"`, `"90"`, or none) is the
`enter` action with the denoted number of ticks (`Model/TtlFacade.lean: Denotes`) - `ttl_to_seconds` neither
truncates nor drops anything.  All theorems of this file therefore hold with "lease" = the duration the
application wrote. -/
theorem spelled_ttl_is_the_lease (e : FEnter) (ttl : Option Nat) (h : Ttl.DenotesOpt e.expire ttl) :
    e.lower = some (.enter e.t e.th e.key ttl e.wait) :=
  FEnter.lower_of_denotes e ttl h

/-- the same, spelled out for the acquisition: in a reachable state with no live lock on the key, a caller that
wrote its ttl as `p` (denoting `d` ticks) and attempts at instant `now` owns the key until `now + d` -/
theorem spelled_lease_deadline (C : LockContract B Ok keyOk) {s0 : LockSt σ}
    (h0 : Start B Ok s0) (tr : List Act) (htr : ∀ a ∈ tr, a.keysIn keyOk)
    (e : FEnter) (p : Ttl.Plain) (d : Nat) (hp : e.expire = some p) (hd : Ttl.Denotes p d)
    (hk : keyOk e.key) (hidle : ((run B s0 tr).tasks e.t).busy = false)
    (hen : ((run B s0 tr).health ((run B s0 tr).route e.key)).setLock = true)
    (hfree : B.owner (run B s0 tr).be e.key = none) :
    ∃ a, e.lower = some a ∧
      let s := (step B (run B s0 tr) a).1
      (step B s (.attempt e.t)).2 = .acquired ∧
      ∃ tok, (step B s (.attempt e.t)).1.tasks e.t = .inside e.key tok (deadlineOf (B.now (run B s0 tr).be) (some d)) := by
  have hl := FEnter.lower_of_denotes e (some d) (hp ▸ Ttl.DenotesOpt.given hd)
  refine ⟨_, hl, ?_⟩
  have htr' : ∀ a ∈ tr ++ [Act.enter e.t e.th e.key (some d) e.wait], a.keysIn keyOk := by
    intro a ha
    simp only [List.mem_append, List.mem_singleton] at ha
    rcases ha with ha | ha
    · exact htr a ha
    · rw [ha]; exact hk
  have hrun := run_snoc (B := B) s0 tr (Act.enter e.t e.th e.key (some d) e.wait)
  have hstep : (step B (run B s0 tr) (.enter e.t e.th e.key (some d) e.wait)).1 =
      { setTask (run B s0 tr) e.t (.trying e.key (some d) e.wait (run B s0 tr).next) with
        next := (run B s0 tr).next + 1,
        thr := fun t' => if t' = e.t then e.th else (run B s0 tr).thr t' } := by
    simp only [step, hidle, Bool.false_eq_true, if_false]
  have ht : (run B s0 (tr ++ [Act.enter e.t e.th e.key (some d) e.wait])).tasks e.t =
      .trying e.key (some d) e.wait (run B s0 tr).next := by
    rw [hrun, hstep]; simp [setTask_tasks]
  have hbe : (run B s0 (tr ++ [Act.enter e.t e.th e.key (some d) e.wait])).be = (run B s0 tr).be := by
    rw [hrun, hstep]; rfl
  have hen' : ((run B s0 (tr ++ [Act.enter e.t e.th e.key (some d) e.wait])).health
      ((run B s0 (tr ++ [Act.enter e.t e.th e.key (some d) e.wait])).route e.key)).setLock = true := by
    rw [hrun, hstep]; exact hen
  have := acquisition_liveness C h0 _ htr' e.t e.key (some d) e.wait _ ht hen' (by rw [hbe]; exact hfree)
  simp only at this
  rw [hrun] at this
  have hbe' : (step B (run B s0 tr) (Act.enter e.t e.th e.key (some d) e.wait)).1.be = (run B s0 tr).be := by
    rw [hstep]; rfl
  rw [hbe'] at this
  exact ⟨this.1, _, this.2.1⟩

/-- **A callable ttl is resolved on every call, with the arguments of that call.**  For a function decorated with
`@locked(ttl=f)` where `f` is a callable of the call's arguments: the call with arguments `args` is the `enter` action
whose ttl is what `f args` denotes - not what `f` returned for an earlier call.  Two calls of the same decorated function
with different arguments therefore hold leases of their own durations. -/
theorem callable_ttl_is_resolved_per_call (c : FCall) (f : Nat → Nat → Ttl.Plain) (d : Nat)
    (hs : c.ttl = some (.callable f)) (hd : Ttl.Denotes (f c.args 0) d) :
    c.lower = some (.enter c.t c.th c.key (some d) c.wait) :=
  FCall.lower_callable c f d hs hd

/-- non-vacuity: one decorated function whose ttl is `args` seconds; the call with 1 asks for 8 ticks, the call with 5
for 40 - reusing the first call's answer would give the second caller a lease of 8 ticks instead of 40 -/
example :
    let f : Nat → Nat → Ttl.Plain := fun args _ => .int args
    (FCall.mk 0 0 1 (some (.callable f)) 1 true).lower = some (.enter 0 0 1 (some 8) true) ∧
    (FCall.mk 1 0 0 (some (.callable f)) 5 true).lower = some (.enter 1 0 0 (some 40) true) := ⟨rfl, rfl⟩

/-- **`memory_limit` lets the lock commands through**: whatever the window and whatever the size of the
token, `set_lock`, `unlock`, `is_locked` and the probe reach the backend (the middleware filters `set` and
`set_many` only).  A user middleware that answered None for `set_lock` would switch locking off
(`disabled_set_lock_means_no_locking`). -/
theorem memory_limit_passes_lock_commands (minB : Nat) (maxB : Option Nat) (c : CmdKind) (sizes : List Nat)
    (hc : c.isLockCmd = true) : memoryLimitPasses minB maxB c sizes = true := by
  cases c <;> simp [CmdKind.isLockCmd] at hc <;> rfl

/-- **Key-rewriting middlewares** (`add_prefix`, `all_keys_lower`: the same function of the key for every lock
command) keep the protocol: the run is the run of the renamed trace, to which the mutual-exclusion theorem
applies with the renamed key - two activations inside the section of `f key` are not both within their lease. -/
theorem mutual_exclusion_under_key_middleware (C : LockContract B Ok keyOk) {s0 : LockSt σ}
    (h0 : Start B Ok s0) (f : Nat → Nat) (tr : List Act) (htr : ∀ a ∈ tr, a.keysIn (fun k => keyOk (f k)))
    (key t1 t2 : Nat) (hne : t1 ≠ t2)
    (h1 : insideKey (run B s0 (tr.map (Act.mapKey f))) t1 (f key) = true)
    (h2 : insideKey (run B s0 (tr.map (Act.mapKey f))) t2 (f key) = true) :
    ¬ (withinLease B (run B s0 (tr.map (Act.mapKey f))) t1 = true ∧
       withinLease B (run B s0 (tr.map (Act.mapKey f))) t2 = true) := by
  apply mutual_exclusion_within_lease C h0 (tr.map (Act.mapKey f)) _ (f key) t1 t2 hne h1 h2
  intro a ha
  obtain ⟨b, hb, rfl⟩ := List.mem_map.mp ha
  exact mapKey_keysIn f keyOk b (htr b hb)

/-- **Every way of leaving releases**, the consumer of a `@locked` async generator that stops iterating
included: `released_on_every_exit` is stated for an arbitrary `how`; this is its instance for
`How.closed` (GeneratorExit at the yield point: `break` + `aclose()`, `aclosing`, finalisation of an abandoned
generator) - the leaver's own lock is gone afterwards and, if it was within its lease, the key is free. -/
theorem released_when_consumer_closes_generator (C : LockContract B Ok keyOk) {s0 : LockSt σ}
    (h0 : Start B Ok s0) (tr : List Act) (htr : ∀ a ∈ tr, a.keysIn keyOk)
    (t : Nat) (key tok : Nat) (dl : Option Nat)
    (ht : (run B s0 tr).tasks t = .inside key tok dl)
    (hw : withinLease B (run B s0 tr) t = true) :
    (step B (run B s0 tr) (.leave t .closed)).2 = .released true ∧
    B.owner (step B (run B s0 tr) (.leave t .closed)).1.be key = none ∧
    (step B (run B s0 tr) (.leave t .closed)).1.tasks t = .done := by
  have h := released_on_every_exit C h0 tr htr t .closed key tok dl ht
  simp only at h
  exact ⟨(h.2.2.2.2.2 hw).1, (h.2.2.2.2.2 hw).2, h.1⟩

/-- **Released on every exception class.**  `released_on_every_exit` is stated for an arbitrary `how`; this is its
instance for a body that ends with an exception of ANY class - an application exception, every class that
`cashews/exceptions.py` defines (`CacheBackendInteractionError`, `LockedError`, `NotConfiguredError`,
`UnSecureDataError`, ...: the body may itself talk to a cache and let the error through) or a `BaseException`
outside `Exception`: the class of the exception is not an input of the release.  The leaver's lock is gone, it is
`done`, and if it was within its lease the unlock answers True, the key is free and the next attempt of a waiter
succeeds (`acquire_after_release`). -/
theorem released_on_every_exception_class (C : LockContract B Ok keyOk) {s0 : LockSt σ}
    (h0 : Start B Ok s0) (tr : List Act) (htr : ∀ a ∈ tr, a.keysIn keyOk)
    (c : ExcClass) (t : Nat) (key tok : Nat) (dl : Option Nat)
    (ht : (run B s0 tr).tasks t = .inside key tok dl)
    (hw : withinLease B (run B s0 tr) t = true) :
    (step B (run B s0 tr) (.leave t (.exc c))).2 = .released true ∧
    B.owner (step B (run B s0 tr) (.leave t (.exc c))).1.be key = none ∧
    (step B (run B s0 tr) (.leave t (.exc c))).1.tasks t = .done ∧
    step B (run B s0 tr) (.leave t (.exc c)) = step B (run B s0 tr) (.leave t .normal) := by
  have h := released_on_every_exit C h0 tr htr t (.exc c) key tok dl ht
  simp only at h
  refine ⟨(h.2.2.2.2.2 hw).1, (h.2.2.2.2.2 hw).2, h.1, ?_⟩
  simp only [step]

/-- If leaving with ONE exception class skipped the unlock (`CacheBackendInteractionError`: "the backend went
away, the lease runs out by itself"), the release clause would be FALSE for that class and for no other: after a
body that raised it nobody is in the section, yet the key is still owned and a later caller is refused for the
rest of the ttl - with every other class the caller gets in. -/
theorem skipping_unlock_for_one_exception_class_breaks_release :
    (let s := runLostBackend (init TtlMap.init) (trBodyRaises .backendInteraction)
     inSection s 0 0 = false ∧ inSection s 1 0 = false ∧ (ttlOps.owner s.be 0).isSome = true ∧
     s.tasks 1 = .failed) ∧
    (∀ c ∈ ExcClass.all, c ≠ .backendInteraction →
      insideKey (runLostBackend (init TtlMap.init) (trBodyRaises c)) 1 0 = true) ∧
    (∀ c ∈ ExcClass.all, insideKey (run ttlOps (init TtlMap.init) (trBodyRaises c)) 1 0 = true) := by decide

/-- If a `timedelta` ttl were cut to whole seconds, the lease would end early: a holder that wrote
`timedelta(seconds=2, milliseconds=500)` (20 ticks) is inside and within ITS lease at tick 16, yet a waiter
acquires there (with the faithful lowering it is refused); and `timedelta(milliseconds=500)` would become 0 =
no expiry at all. -/
theorem truncated_timedelta_breaks_lease :
    (Ttl.TDelta.ticks ⟨0, 2, 4⟩ = 20 ∧ truncDelta ⟨0, 2, 4⟩ = 16 ∧ truncDelta ⟨0, 0, 4⟩ = 0) ∧
    outs ttlOps (init TtlMap.init) (trLease (Ttl.TDelta.ticks ⟨0, 2, 4⟩)) =
      [.unit, .acquired, .unit, .retry, .unit, .retry] ∧
    outs ttlOps (init TtlMap.init) (trLease (truncDelta ⟨0, 2, 4⟩)) =
      [.unit, .acquired, .unit, .retry, .unit, .acquired] ∧
    deadlineOf 0 (some (truncDelta ⟨0, 0, 4⟩)) = none := by decide

/-! ### the contract is needed: the two repaired defects, as backends, break the theorems -/

/-- With a token-blind `unlock` (defect D7) the stronger mutual-exclusion statement is FALSE: a holder
that overstayed removes the next holder's lock when it leaves, and a third task gets in while the
second is inside and within its lease.  (So `mutual_exclusion_within_lease` really uses the
owner-only clause of the contract.) -/
theorem token_blind_unlock_breaks_exclusion :
    ¬ ∀ (tr : List Act) (key t1 t2 : Nat), t1 ≠ t2 →
      insideKey (run tokenBlindOps (init TtlMap.init) tr) t1 key = true →
      insideKey (run tokenBlindOps (init TtlMap.init) tr) t2 key = true →
      ¬ (withinLease tokenBlindOps (run tokenBlindOps (init TtlMap.init) tr) t1 = true ∧
         withinLease tokenBlindOps (run tokenBlindOps (init TtlMap.init) tr) t2 = true) := by
  intro h
  exact h trThree 0 1 2 (by decide) (by decide) (by decide) (by decide)

/-- With a conditional write that tests raw membership (defect D1) acquisition liveness is FALSE:
after the lock's ttl has elapsed a waiter is still refused, however long it waits, as long as nobody
purges. -/
theorem raw_membership_set_lock_breaks_liveness :
    outs rawMembershipOps (init TtlMap.init)
      [.enter 0 0 0 (some 8) true, .attempt 0, .enter 1 1 0 (some 8) true, .tick 8, .attempt 1,
       .tick 100, .attempt 1] =
    [.unit, .acquired, .unit, .unit, .retry, .unit, .retry] := by decide

/-- If `set_lock` inside a transaction were the overlay's conditional write (the lock lives in the
thread's private view), mutual exclusion would be FALSE: two threads, each in its own FAST transaction,
are both inside the section of key 0 within their lease; and a thread in a LOCKED transaction does not
exclude a thread that is in no transaction.  (So the bypass is needed.) -/
theorem private_set_lock_breaks_exclusion :
    (insideKey (runPrivate (init TtlMap.init) trTwoTx) 0 0 = true ∧
     insideKey (runPrivate (init TtlMap.init) trTwoTx) 1 0 = true ∧
     withinLease ttlOps (runPrivate (init TtlMap.init) trTwoTx) 0 = true ∧
     withinLease ttlOps (runPrivate (init TtlMap.init) trTwoTx) 1 = true) ∧
    (insideKey (runPrivate (init TtlMap.init) trTxAndPlain) 0 0 = true ∧
     insideKey (runPrivate (init TtlMap.init) trTxAndPlain) 1 0 = true) := by decide

/-- If the probe asked EVERY configured backend, a disabled backend that does not own the key would let
a second task into the section (contended attempt answered `down`): backend 0 is off, key 100 lives on
the healthy backend 1, tasks 0, 1 (wait=False) and 2 (wait=True) all end up in the section. -/
theorem probe_of_all_backends_breaks_exclusion :
    let s := runProbeAll 2 (initRouted TtlMap.init 100) trOtherBackendOff
    inSection s 0 100 = true ∧ inSection s 1 100 = true ∧ inSection s 2 100 = true ∧
    overstayed ttlOps s 0 = false ∧ overstayed ttlOps s 1 = false := by decide

/-- The repaired behaviour (fix 9f42eb2) mirrored: `set_lock` disabled on the owning backend means no
locking at all - every caller runs the section, nothing is written, nothing is unlocked. -/
theorem disabled_set_lock_means_no_locking :
    outs ttlOps (initRouted TtlMap.init 100) trSetLockOff =
      [.unit, .unit, .noLocking, .unit, .noLocking, .bool false, .unit, .unit] := by decide

/-- The owning backend stops answering the probe while task 0 holds the lock: the contended attempt of
task 1 is answered `down` and task 1 runs the section without a lock (the documented "backend down"
fallback of `lock()`); its exit issues no unlock, task 0's exit releases task 0's lock.  The health
premise of `section_exclusion…` is therefore needed. -/
theorem dead_owner_lets_second_task_in :
    outs ttlOps (initRouted TtlMap.init 100) trOwnerDown =
      [.unit, .acquired, .unit, .unit, .down, .unit, .released true] ∧
    (let s := run ttlOps (initRouted TtlMap.init 100) (trOwnerDown.take 5)
     inSection s 0 100 = true ∧ inSection s 1 100 = true ∧
     overstayed ttlOps s 0 = false ∧ overstayed ttlOps s 1 = false) := by decide

/-! ### non-vacuity: the model does something, and the premises are satisfiable -/

section Examples

example : outs memOps (init (Mem.init 10)) trGood =
    [.unit, .acquired, .unit, .retry, .unit, .bool false, .released true, .acquired, .bool true,
     .released true, .bool false] := by decide

example : outs ttlOps (init TtlMap.init) trGood = outs memOps (init (Mem.init 10)) trGood := by decide

/-- the premises of `mutual_exclusion` hold on a state with a holder: after the first 5 actions
task 0 is inside key 0 and within its lease, nobody else is inside -/
example : insideKey (run memOps (init (Mem.init 10)) (trGood.take 5)) 0 0 = true ∧
    withinLease memOps (run memOps (init (Mem.init 10)) (trGood.take 5)) 0 = true ∧
    insideKey (run memOps (init (Mem.init 10)) (trGood.take 5)) 1 0 = false := by decide

example : ∀ a ∈ trGood, a.keysIn (· ∈ [0, 1]) := by
  intro a ha
  simp only [trGood, List.mem_cons, List.mem_nil_iff, or_false] at ha
  rcases ha with h | h | h | h | h | h | h | h | h | h | h <;> subst h <;> simp [Act.keysIn]

/-- the overstayer trace `trOverstay`: task 0 holds key 0 past its ttl (1 s), task 1 acquires at the
deadline with NO purge in between (`acquisition_liveness`), both are inside at once, only task 1 is
within its lease (`mutual_exclusion_within_lease` is not vacuous); task 0's late unlock answers False
and task 1 still owns the lock (`released_on_every_exit`, `foreign_unlock_noop`); task 2 cannot enter -/
example : outs memOps (init (Mem.init 10)) trOverstay =
    [.unit, .acquired, .unit, .retry, .unit, .acquired, .released false, .unit, .locked, .bool true] := by
  decide

example :
    let s := run memOps (init (Mem.init 10)) (trOverstay.take 6)
    insideKey s 0 0 = true ∧ insideKey s 1 0 = true ∧
    withinLease memOps s 0 = false ∧ withinLease memOps s 1 = true ∧
    -- the expired entry of task 0 was still stored (unpurged) when task 1 attempted:
    (Store.lookup (run memOps (init (Mem.init 10)) (trOverstay.take 5)).be.store 0).isSome = true := by
  decide

/-- on a contract-satisfying backend the trace that breaks the token-blind one is harmless -/
example :
    let s := run ttlOps (init TtlMap.init) trThree
    insideKey s 1 0 = true ∧ insideKey s 2 0 = false := by decide

/-- a lock without ttl never expires; a cancelled waiter gives up without touching the lock -/
example : outs ttlOps (init TtlMap.init)
    [.enter 0 0 3 none true, .attempt 0, .tick 1000, .enter 1 1 3 (some 1) true, .attempt 1, .giveUp 1,
     .purge, .probe 3, .leave 0 .normal, .probe 3] =
    [.unit, .acquired, .unit, .unit, .retry, .unit, .unit, .bool true, .released true, .bool false] := by
  decide

/-- transactions: threads 0, 1 in FAST transactions (thread 0 has written into its overlay), thread 2 in a
LOCKED one; the second contender is refused, the third waits and gets in after the first left -/
example : outs ttlOps (init TtlMap.init) trTx =
    [.unit, .unit, .unit, .unit, .unit, .acquired, .unit, .locked, .unit, .retry, .released true, .unit,
     .acquired, .unit] := by decide

example : outs memOps (init (Mem.init 10)) trTx = outs ttlOps (init TtlMap.init) trTx := by decide

/-- after 10 actions of `trTx`: activation 0 holds the lock and its thread is inside a transaction with a
non-empty overlay; activation 2 waits inside a transaction of another mode -/
example :
    let s := run ttlOps (init TtlMap.init) (trTx.take 10)
    insideKey s 0 0 = true ∧ inTx s 0 = true ∧ inTx s 2 = true ∧ inSection s 2 0 = false ∧
    (s.tx 0).map (·.overlay) = some [(50, 1)] ∧ (s.tx 2).map (·.mode) = some .locked := by decide

/-- the same trace without its transaction moves gives the same answers of the lock commands -/
example : (outs ttlOps (init TtlMap.init) (eraseTx trTx)) =
    [.unit, .acquired, .unit, .locked, .unit, .retry, .released true, .acquired] := by decide

/-- several backends: backend 0 switched off entirely, key 100 on the healthy backend 1 - the contended
attempts are refused as usual (compare `probe_of_all_backends_breaks_exclusion`) -/
example : outs ttlOps (initRouted TtlMap.init 100) trOtherBackendOff =
    [.unit, .unit, .acquired, .unit, .locked, .unit, .retry] := by decide

/-- the premises of `section_exclusion` are satisfiable with an unhealthy other backend -/
example : (∀ a ∈ trOtherBackendOff, a.keepsHealthy ((initRouted TtlMap.init 100).route 100)) ∧
    (initRouted TtlMap.init 100).health ((initRouted TtlMap.init 100).route 100) = Health.ok := by
  refine ⟨?_, by decide⟩
  intro a ha
  simp only [trOtherBackendOff, List.mem_cons, List.mem_nil_iff, or_false] at ha
  rcases ha with h | h | h | h | h | h | h <;> subst h <;> simp [Act.keepsHealthy, initRouted, init]

/-- `memory_limit(min_bytes=100)` does filter a `set` of an 85-byte value and a `set_many` of only such values -
and lets `set_lock` with the 85-byte token through -/
example : memoryLimitPasses 100 none .set [85] = false ∧ memoryLimitPasses 100 none .setMany [85, 40] = false ∧
    memoryLimitPasses 0 (some 50) .set [85] = false ∧ memoryLimitPasses 100 none .setMany [85, 400] = true ∧
    memoryLimitPasses 100 none .setLock [85] = true ∧ memoryLimitPasses 0 (some 50) .unlock [85] = true := by decide

/-- a timedelta of 2.5 s denotes 20 ticks, and the facade-level call lowers to `enter … (some 20)` -/
example : (FEnter.mk 0 0 0 (some (.delta (Ttl.TDelta.ticks ⟨0, 2, 4⟩))) true).lower =
    some (.enter 0 0 0 (some 20) true) := rfl

/-- leaving by a consumer's close releases like any other exit -/
example : outs ttlOps (init TtlMap.init)
    [.enter 0 0 0 (some 8) true, .attempt 0, .leave 0 .closed, .enter 1 1 0 (some 8) false, .attempt 1] =
    [.unit, .acquired, .released true, .unit, .acquired] := by decide

end Examples

end CashewsVerif.Props.C06
