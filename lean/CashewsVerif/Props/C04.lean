import CashewsVerif.Lemmas.TxSample
import CashewsVerif.Model.TxDefault
/-
C04 — inside a transaction, commands see the store plus their own earlier writes.
Property theorems only; the models are `Model/Tx.lean` (the code) and `Spec/TxSpec.lean`
(proviso, observation, abstract transaction); helper lemmas live in `Lemmas/Tx*.lean`.

Standing assumptions (`TxSetup K b ops`): one task (no foreign lock key live), keys of a universe `K`
that fits the capacities (eviction is C11), user keys only (reserved ':'-keys are never named by
commands), commands routed by a transaction (everything but `clear`).
Proviso (`NoDeadlineCrossed b ops`): no deadline — of a store key, or assigned by a command of the
transaction — is passed before the block ends.
-/
namespace CashewsVerif.Props.C04
open CashewsVerif Store

/-- **Simulation.** For every initial store, every mode and every finite sequence of commands inside one
transaction (time advances included), every command answers exactly what the same command answers
when the sequence is run directly on a copy of the store — i.e. on the store to which all earlier
writes have been applied.  Observation `obs`: the full answer for get / get_many / exists /
set (always, only-if-absent, only-if-present) / incr; "is it missing?" for get_expire. -/
theorem tx_step_simulates_direct (K : List Key) (b : Mem) (ops : List Op) (hs : TxSetup K b ops)
    (hn : NoDeadlineCrossed b ops = true) (mode : TxMode) (id timeout : Nat) :
    obsAll ops ((TxSt.begin_ b mode id timeout).run ops).2 = obsAll ops (b.run ops).2 := by
  obtain ⟨_, _, houts⟩ := reach hs mode id timeout
  rw [houts, (simReach hs hn).2, (directReach hs).2]

/-- **No write disappears / nothing else influences a read.** After any sequence of commands, what a `get`
inside the transaction returns for a key is exactly the value direct execution of the same sequence
left in the store (so an earlier write of the transaction can only be replaced by a later write of
the same transaction, never by a read, a failed conditional, `expire` or `incr`). -/
theorem no_write_disappears (K : List Key) (b : Mem) (ops : List Op) (hs : TxSetup K b ops)
    (hn : NoDeadlineCrossed b ops = true) (mode : TxMode) (id timeout : Nat)
    (k : Key) (hk : k ∈ K) (hu : reserved k = false) :
    (((TxSt.begin_ b mode id timeout).run ops).1.get k).2 = ((b.run ops).1.rawGet k).2 := by
  obtain ⟨_, href, _⟩ := reach hs mode id timeout
  have hsim := (simReach hs hn).1
  have hd := (directReach hs).1
  rw [(TxSt.get_refines href hk hu).2, (Mem.good_rawGet hd k).2, ← hsim.vals' k]
  unfold ATx.view
  split <;> rfl

/-- **A conditional write that reports failure changes nothing**: the overlay's live contents, the
pending deletes and the store's user keys are what they were, and a commit right after it leaves the
store exactly as a commit right before it would have (in the locked modes the failed command may have
taken a lock key; commit releases it). -/
theorem failed_conditional_is_noop (K : List Key) (b : Mem) (ops : List Op) (k : Key) (v : Val)
    (ttl : Option Nat) (c : Cond) (hs : TxSetup K b (ops ++ [.set k v ttl c]))
    (hn : NoDeadlineCrossed b (ops ++ [.set k v ttl c]) = true) (mode : TxMode) (id timeout : Nat) :
    let st := ((TxSt.begin_ b mode id timeout).run ops).1
    let st' := (st.step (.set k v ttl c)).1
    (st.step (.set k v ttl c)).2 = .bool false →
      (∀ k', st'.ov.view k' = st.ov.view k') ∧ st'.del = st.del ∧
      (∀ k', reserved k' = false → st'.b.view k' = st.b.view k') ∧
      (∀ k', st'.commit.b.view k' = st.commit.b.view k') := by
  intro st st' hfalse
  -- the proviso for the whole sequence gives the one for the prefix, with the same end time
  have hs0 := hs.prefix
  have hT : endTime b.now (ops ++ [.set k v ttl c]) = endTime b.now ops := by
    have : ∀ (l : List Op) now, endTime now (l ++ [.set k v ttl c]) = endTime now l := by
      intro l; induction l with
      | nil => intro now; simp [endTime, Op.dt]
      | cons op l ih => intro now; simp only [List.cons_append, endTime]; exact ih _
    exact this ops b.now
  have hn0 : NoDeadlineCrossed b ops = true := by
    have hn' := hn
    simp only [NoDeadlineCrossed, Bool.and_eq_true, hT] at hn' ⊢
    refine ⟨hn'.1, ?_⟩
    have : ∀ (l : List Op) now T, assignedOk T now (l ++ [.set k v ttl c]) = true → assignedOk T now l = true := by
      intro l; induction l with
      | nil => intro _ _ _; rfl
      | cons op l ih =>
        intro now T h
        simp only [List.cons_append, assignedOk, Bool.and_eq_true] at h ⊢
        exact ⟨h.1, ih _ _ h.2⟩
    exact this ops _ _ hn'.2
  obtain ⟨tb, href, _⟩ := reachNdc hs0 hn0 mode id timeout
  have hw := wfReach hs0
  have hop := hs.ops (.set k v ttl c) (by simp)
  obtain ⟨n1, n2, _⟩ := now_of_ref hs0 href
  -- the deadline this very command would assign lies beyond the end as well
  have hdl : dlAfter (endTime b.now ops) (deadlineOf st.ov.now ttl) = true := by
    have hn' := hn
    simp only [NoDeadlineCrossed, Bool.and_eq_true, hT] at hn'
    have : ∀ (l : List Op) now, assignedOk (endTime b.now ops) now (l ++ [.set k v ttl c]) = true →
        dlAfter (endTime b.now ops) (deadlineOf (endTime now l) ttl) = true := by
      intro l; induction l with
      | nil => intro now h; simpa [assignedOk, Op.ttls, endTime] using h
      | cons op l ih =>
        intro now h
        simp only [List.cons_append, assignedOk, Bool.and_eq_true] at h
        simp only [endTime]; exact ih _ h.2
    have hend := this ops b.now hn'.2
    rw [n1]; exact hend
  obtain ⟨tb', href', hout⟩ := TxSt.step_refines href (.set k v ttl c) hop.1
    (fun k' hk' => hop.2.1 k' hk' _) (by rfl) (by intro ttl' h'; simp [Op.ttls] at h'; subst h'; exact hdl)
  -- the abstract step reports failure too, hence did nothing
  have habs : ((((ATx.begin_ b.toTtl).run ops).1).step (.set k v ttl c)).1 = ((ATx.begin_ b.toTtl).run ops).1 := by
    have h2 : ((((ATx.begin_ b.toTtl).run ops).1).step (.set k v ttl c)).2 = .bool false := by rw [← hout]; exact hfalse
    generalize ((ATx.begin_ b.toTtl).run ops).1 = a at h2 ⊢
    cases c with
    | always => simp [ATx.step] at h2
    | nx => simp only [ATx.step] at h2 ⊢; split at h2 <;> simp_all
    | xx => simp only [ATx.step] at h2 ⊢; split at h2 <;> simp_all
  rw [habs] at href'
  refine ⟨fun k' => ?_, ?_, fun k' hu => ?_, fun k' => ?_⟩
  · rw [href'.ov.ref.2 k', href.ov.ref.2 k']
  · rw [href'.del, href.del]
  · rw [href'.b.ref.2 k', href.b.ref.2 k', href'.user k' hu, href.user k' hu]
  · obtain ⟨t1, g1, _, r1, u1⟩ := TxSt.commit_refines href hw
    obtain ⟨t2, g2, _, r2, u2⟩ := TxSt.commit_refines href' hw
    obtain ⟨_, n2', _⟩ := now_of_ref hs0 href'
    have hb : ((TxSt.begin_ b mode id timeout).run ops).1.b.now ≤ endTime b.now ops := Nat.le_of_eq n2
    have hb' : ((((TxSt.begin_ b mode id timeout).run ops).1).step (.set k v ttl c)).1.b.now ≤ endTime b.now ops :=
      Nat.le_of_eq n2'
    rw [expired_nil_of_fresh href hb] at u1
    rw [expired_nil_of_fresh href' hb'] at u2
    rw [g2.ref.2 k', g1.ref.2 k']
    cases hr : reserved k' with
    | true => rw [r1 k' hr, r2 k' hr]
    | false => rw [u1 k' hr, u2 k' hr]

/-- **Reads with a caller-supplied default.**  `get(k, default=d)` / `get_many(..., default=d)` hand the caller the
model's answer with "not there" replaced by `d` (`Out.withDefault`, Model/TxDefault.lean).  For every choice of
defaults — one per command, arbitrary values, in particular values that are stored under the key or were written
earlier in the same transaction — what the callers receive inside the transaction is what they receive from direct
execution.  (With default `d` a caller cannot tell "holds `d`" from "missing"; this is the statement about
exactly what such a caller can see.  It follows from the simulation because the code only ever *returns* the
default and decides presence with private sentinels — which is what the correspondence checks.) -/
theorem reads_with_caller_default_simulate_direct (K : List Key) (b : Mem) (ops : List Op) (hs : TxSetup K b ops)
    (hn : NoDeadlineCrossed b ops = true) (mode : TxMode) (id timeout : Nat) (ds : List (Option Val)) :
    withDefaults ds (obsAll ops ((TxSt.begin_ b mode id timeout).run ops).2) =
      withDefaults ds (obsAll ops (b.run ops).2) := by
  rw [tx_step_simulates_direct K b ops hs hn mode id timeout]

/-- **The default never masks a write.**  After any sequence of commands, a `get` with ANY default `d` inside the
transaction returns the value direct execution left under the key whenever there is one — also when that value
is `d` itself (`set(k, None); get(k)`, `set(c, 0); get(c, default=0)`) — and `d` exactly when direct execution
left the key missing.  It never returns an older value of the store. -/
theorem get_with_default_sees_own_writes (K : List Key) (b : Mem) (ops : List Op) (hs : TxSetup K b ops)
    (hn : NoDeadlineCrossed b ops = true) (mode : TxMode) (id timeout : Nat)
    (k : Key) (hk : k ∈ K) (hu : reserved k = false) (d : Val) :
    withDefault1 d (((TxSt.begin_ b mode id timeout).run ops).1.get k).2 =
      some ((((b.run ops).1.rawGet k).2).getD d) := by
  rw [no_write_disappears K b ops hs hn mode id timeout k hk hu]
  rfl

/-! ### Non-vacuity (sample transaction: `Lemmas/TxSample.lean`) -/

/-- the hypotheses of the theorems are satisfiable by a non-trivial transaction -/
example : TxSetup sampleK sampleStore sampleOps ∧ NoDeadlineCrossed sampleStore sampleOps = true :=
  ⟨sampleSetup, by decide⟩

/-- …and the model really does something on it (locked mode) -/
example : ((TxSt.begin_ sampleStore .locked 1 80).run sampleOps).2 =
    [.bool false, .bool true, .unit, .bool true, .bool false, .bool true, .int 6, .unit, .val (some (.int 6)), .unit,
     .vals [none, some (.int 6), some (.int 1)], .int (-2), .bool true, .int 1] := by decide

/-- a failed conditional exists among the sample commands (premise of `failed_conditional_is_noop`) -/
example : (((TxSt.begin_ sampleStore .fast 1 80).run (sampleOps.take 4)).1.step (.set 0 (.tok 7) none .xx)).2
    = .bool false := by decide

/-- the witness of the caller-default class: the store holds `0 ↦ 5`; the transaction overwrites it with `None` and reads
it back with the default default (`None`), then resets key 2 to `0` and reads it with `default=0`, then reads both
with `get_many(default=None)`: the callers get `None`, `0`, `(None, 0)` — never the old `5` / `7` -/
example : ∀ mode ∈ [TxMode.fast, .locked, .serializable],
    withDefaults [none, some .nil, none, some (.int 0), some .nil]
      ((TxSt.begin_ { now := 3, cap := 1000, store := [(0, ⟨.int 5, none⟩), (2, ⟨.int 7, none⟩)] } mode 1 80).run
        [.set 0 .nil none .always, .get 0, .set 2 (.int 0) none .xx, .get 2, .getMany [0, 2, 4]]).2 =
    [.bool true, .val (some .nil), .bool true, .val (some (.int 0)), .vals [some .nil, some (.int 0), some .nil]] := by
  decide

end CashewsVerif.Props.C04
