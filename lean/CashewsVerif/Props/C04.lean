import CashewsVerif.Lemmas.TxSample
import CashewsVerif.Lemmas.TxMatchSample
import CashewsVerif.Model.TxDefault
/-
C04 — inside a transaction, commands see the store plus their own earlier writes.
Property theorems only; the models are `Model/Tx.lean` (the code) and `Spec/TxSpec.lean`
(proviso, observation, abstract transaction); helper lemmas live in `Lemmas/Tx*.lean`.

Standing assumptions (`TxSetup K b ops`): one task (no foreign lock key live), keys of a universe `K`
that fits the capacities (eviction is C11), user keys only (reserved ':'-keys are never named by
commands), commands routed by a transaction (everything but `clear`).
Proviso (`NoDeadlineCrossed b ops`): no deadline — of a store key, or assigned by a command of the
transaction — is passed before the block ends.

Histories WITH PATTERN COMMANDS (`delete_match`, `scan`, `get_match` next to the regular commands: `TxCmd`,
`Model/TxMatch.lean`) are the `…_with_patterns` theorems.  Keys have names (`name : Nat → List Char`, any naming);
standing assumptions `TxSetupC K name b cmds`: those of `TxSetup`, the universe holds the lock keys of its user
keys, and (the properties' proviso on patterns, `PatOk`) no pattern matches the name of a reserved ':'-key.
-/
namespace CashewsVerif.Props.C04
open CashewsVerif Store

/-- **Simulation.** For every initial store, every mode and every finite sequence of commands inside one
transaction (time advances included), every command answers exactly what the same command answers
when the sequence is run directly on a copy of the store — i.e. on the store to which all earlier
writes have been applied.  Observation `obs`: the full answer for get / get_many / exists /
set (always, only-if-absent, only-if-present) / incr; "is it missing?" for get_expire. -/
theorem tx_step_simulates_direct (K : List Key) (b : Mem) (ops : List Op) (hs : TxSetup K b ops)
    (hn : NoDeadlineCrossed b ops = true) (mode : TxMode) (id timeout : Nat) :
    obsAll ops ((TxSt.begin_ b mode id timeout).run ops).2 = obsAll ops (b.run ops).2 := by
  obtain ⟨_, _, houts⟩ := reach hs mode id timeout
  rw [houts, (simReach hs hn).2, (directReach hs).2]

/-- **No write disappears / nothing else influences a read.** After any sequence of commands, what a `get`
inside the transaction returns for a key is exactly the value direct execution of the same sequence
left in the store (so an earlier write of the transaction can only be replaced by a later write of
the same transaction, never by a read, a failed conditional, `expire` or `incr`). -/
theorem no_write_disappears (K : List Key) (b : Mem) (ops : List Op) (hs : TxSetup K b ops)
    (hn : NoDeadlineCrossed b ops = true) (mode : TxMode) (id timeout : Nat)
    (k : Key) (hk : k ∈ K) (hu : reserved k = false) :
    (((TxSt.begin_ b mode id timeout).run ops).1.get k).2 = ((b.run ops).1.rawGet k).2 := by
  obtain ⟨_, href, _⟩ := reach hs mode id timeout
  have hsim := (simReach hs hn).1
  have hd := (directReach hs).1
  rw [(TxSt.get_refines href hk hu).2, (Mem.good_rawGet hd k).2, ← hsim.vals' k]
  unfold ATx.view
  split <;> rfl

/-- **A conditional write that reports failure changes nothing**: the overlay's live contents, the
pending deletes and the store's user keys are what they were, and a commit right after it leaves the
store exactly as a commit right before it would have (in the locked modes the failed command may have
taken a lock key; commit releases it). -/
theorem failed_conditional_is_noop (K : List Key) (b : Mem) (ops : List Op) (k : Key) (v : Val)
    (ttl : Option Nat) (c : Cond) (hs : TxSetup K b (ops ++ [.set k v ttl c]))
    (hn : NoDeadlineCrossed b (ops ++ [.set k v ttl c]) = true) (mode : TxMode) (id timeout : Nat) :
    let st := ((TxSt.begin_ b mode id timeout).run ops).1
    let st' := (st.step (.set k v ttl c)).1
    (st.step (.set k v ttl c)).2 = .bool false →
      (∀ k', st'.ov.view k' = st.ov.view k') ∧ st'.del = st.del ∧
      (∀ k', reserved k' = false → st'.b.view k' = st.b.view k') ∧
      (∀ k', st'.commit.b.view k' = st.commit.b.view k') := by
  intro st st' hfalse
  -- the proviso for the whole sequence gives the one for the prefix, with the same end time
  have hs0 := hs.prefix
  have hT : endTime b.now (ops ++ [.set k v ttl c]) = endTime b.now ops := by
    have : ∀ (l : List Op) now, endTime now (l ++ [.set k v ttl c]) = endTime now l := by
      intro l; induction l with
      | nil => intro now; simp [endTime, Op.dt]
      | cons op l ih => intro now; simp only [List.cons_append, endTime]; exact ih _
    exact this ops b.now
  have hn0 : NoDeadlineCrossed b ops = true := by
    have hn' := hn
    simp only [NoDeadlineCrossed, Bool.and_eq_true, hT] at hn' ⊢
    refine ⟨hn'.1, ?_⟩
    have : ∀ (l : List Op) now T, assignedOk T now (l ++ [.set k v ttl c]) = true → assignedOk T now l = true := by
      intro l; induction l with
      | nil => intro _ _ _; rfl
      | cons op l ih =>
        intro now T h
        simp only [List.cons_append, assignedOk, Bool.and_eq_true] at h ⊢
        exact ⟨h.1, ih _ _ h.2⟩
    exact this ops _ _ hn'.2
  obtain ⟨tb, href, _⟩ := reachNdc hs0 hn0 mode id timeout
  have hw := wfReach hs0
  have hop := hs.ops (.set k v ttl c) (by simp)
  obtain ⟨n1, n2, _⟩ := now_of_ref hs0 href
  -- the deadline this very command would assign lies beyond the end as well
  have hdl : dlAfter (endTime b.now ops) (deadlineOf st.ov.now ttl) = true := by
    have hn' := hn
    simp only [NoDeadlineCrossed, Bool.and_eq_true, hT] at hn'
    have : ∀ (l : List Op) now, assignedOk (endTime b.now ops) now (l ++ [.set k v ttl c]) = true →
        dlAfter (endTime b.now ops) (deadlineOf (endTime now l) ttl) = true := by
      intro l; induction l with
      | nil => intro now h; simpa [assignedOk, Op.ttls, endTime] using h
      | cons op l ih =>
        intro now h
        simp only [List.cons_append, assignedOk, Bool.and_eq_true] at h
        simp only [endTime]; exact ih _ h.2
    have hend := this ops b.now hn'.2
    rw [n1]; exact hend
  obtain ⟨tb', href', hout⟩ := TxSt.step_refines href (.set k v ttl c) hop.1
    (fun k' hk' => hop.2.1 k' hk' _) (by rfl) (by intro ttl' h'; simp [Op.ttls] at h'; subst h'; exact hdl)
  -- the abstract step reports failure too, hence did nothing
  have habs : ((((ATx.begin_ b.toTtl).run ops).1).step (.set k v ttl c)).1 = ((ATx.begin_ b.toTtl).run ops).1 := by
    have h2 : ((((ATx.begin_ b.toTtl).run ops).1).step (.set k v ttl c)).2 = .bool false := by rw [← hout]; exact hfalse
    generalize ((ATx.begin_ b.toTtl).run ops).1 = a at h2 ⊢
    cases c with
    | always => simp [ATx.step] at h2
    | nx => simp only [ATx.step] at h2 ⊢; split at h2 <;> simp_all
    | xx => simp only [ATx.step] at h2 ⊢; split at h2 <;> simp_all
  rw [habs] at href'
  refine ⟨fun k' => ?_, ?_, fun k' hu => ?_, fun k' => ?_⟩
  · rw [href'.ov.ref.2 k', href.ov.ref.2 k']
  · rw [href'.del, href.del]
  · rw [href'.b.ref.2 k', href.b.ref.2 k', href'.user k' hu, href.user k' hu]
  · obtain ⟨t1, g1, _, r1, u1⟩ := TxSt.commit_refines href hw
    obtain ⟨t2, g2, _, r2, u2⟩ := TxSt.commit_refines href' hw
    obtain ⟨_, n2', _⟩ := now_of_ref hs0 href'
    have hb : ((TxSt.begin_ b mode id timeout).run ops).1.b.now ≤ endTime b.now ops := Nat.le_of_eq n2
    have hb' : ((((TxSt.begin_ b mode id timeout).run ops).1).step (.set k v ttl c)).1.b.now ≤ endTime b.now ops :=
      Nat.le_of_eq n2'
    rw [expired_nil_of_fresh href hb] at u1
    rw [expired_nil_of_fresh href' hb'] at u2
    rw [g2.ref.2 k', g1.ref.2 k']
    cases hr : reserved k' with
    | true => rw [r1 k' hr, r2 k' hr]
    | false => rw [u1 k' hr, u2 k' hr]

/-- **Reads with a caller-supplied default.**  `get(k, default=d)` / `get_many(..., default=d)` hand the caller the
model's answer with "not there" replaced by `d` (`Out.withDefault`, Model/TxDefault.lean).  For every choice of
defaults — one per command, arbitrary values, in particular values that are stored under the key or were written
earlier in the same transaction — what the callers receive inside the transaction is what they receive from direct
execution.  (With default `d` a caller cannot tell "holds `d`" from "missing"; this is the statement about
exactly what such a caller can see.  It follows from the simulation because the code only ever *returns* the
default and decides presence with private sentinels — which is what the correspondence checks.) -/
theorem reads_with_caller_default_simulate_direct (K : List Key) (b : Mem) (ops : List Op) (hs : TxSetup K b ops)
    (hn : NoDeadlineCrossed b ops = true) (mode : TxMode) (id timeout : Nat) (ds : List (Option Val)) :
    withDefaults ds (obsAll ops ((TxSt.begin_ b mode id timeout).run ops).2) =
      withDefaults ds (obsAll ops (b.run ops).2) := by
  rw [tx_step_simulates_direct K b ops hs hn mode id timeout]

/-- **The default never masks a write.**  After any sequence of commands, a `get` with ANY default `d` inside the
transaction returns the value direct execution left under the key whenever there is one — also when that value
is `d` itself (`set(k, None); get(k)`, `set(c, 0); get(c, default=0)`) — and `d` exactly when direct execution
left the key missing.  It never returns an older value of the store. -/
theorem get_with_default_sees_own_writes (K : List Key) (b : Mem) (ops : List Op) (hs : TxSetup K b ops)
    (hn : NoDeadlineCrossed b ops = true) (mode : TxMode) (id timeout : Nat)
    (k : Key) (hk : k ∈ K) (hu : reserved k = false) (d : Val) :
    withDefault1 d (((TxSt.begin_ b mode id timeout).run ops).1.get k).2 =
      some ((((b.run ops).1.rawGet k).2).getD d) := by
  rw [no_write_disappears K b ops hs hn mode id timeout k hk hu]
  rfl

/-! ### histories with pattern commands -/

/-- **Simulation, with pattern commands.**  For every initial store, every mode and every finite history of regular
commands, `delete_match`, `scan` and `get_match` inside one transaction — in any order, patterns repeated or not,
matching keys that are only pending, only in the store, both, pending-deleted, or nothing at all — every command
answers what the same command answers when the history is run directly on a copy of the store.  Observation
`obsC`: `obs` for the regular commands; for `scan` which keys of the universe are yielded; for `get_match`
the pair yielded for each key of the universe (value included). -/
theorem tx_step_simulates_direct_with_patterns (K : List Key) (name : Nat → List Char) (b : Mem) (cmds : List TxCmd)
    (hs : TxSetupC K name b cmds) (hn : NoDeadlineCrossedC b cmds = true) (mode : TxMode) (id timeout : Nat) :
    obsAllC K cmds ((TxSt.begin_ b mode id timeout).runC name cmds).2 = obsAllC K cmds (b.runC name cmds).2 := by
  obtain ⟨_, _, _, _, _, _, ho⟩ := reachNdcC hs hn mode id timeout
  exact ho

/-- **No write disappears, with pattern commands** — and no delete either: after any history with pattern
commands, a `get` inside the transaction returns for a key exactly the value direct execution of the history
left in the store.  In particular a later `delete_match` — whatever its pattern, matching or not, repeated or
not — neither brings back a key that `delete` / `delete_many` / an earlier `delete_match` removed, nor keeps a
pending write of a matching key, nor loses one of a non-matching key. -/
theorem no_write_disappears_with_patterns (K : List Key) (name : Nat → List Char) (b : Mem) (cmds : List TxCmd)
    (hs : TxSetupC K name b cmds) (hn : NoDeadlineCrossedC b cmds = true) (mode : TxMode) (id timeout : Nat)
    (k : Key) (hk : k ∈ K) (hu : reserved k = false) :
    (((TxSt.begin_ b mode id timeout).runC name cmds).1.get k).2 = ((b.runC name cmds).1.rawGet k).2 := by
  obtain ⟨a, tb, href, _, _, hsim, _⟩ := reachNdcC hs hn mode id timeout
  have hd := Mem.good_runC name cmds hs.good hs.hist
  rw [(TxSt.get_refines href hk hu).2, (Mem.good_rawGet hd k).2, ← hsim.vals' k]
  unfold ATx.view
  split <;> rfl

/-- **A conditional write that reports failure changes nothing — after any history with pattern commands**
(e.g. `set(k, …, exist=True)` of a key an earlier `delete_match` removed): overlay, pending deletes and the
store's user keys are what they were, and a commit right after it leaves the store exactly as a commit right
before it would have. -/
theorem failed_conditional_is_noop_with_patterns (K : List Key) (name : Nat → List Char) (b : Mem) (cmds : List TxCmd)
    (k : Key) (v : Val) (ttl : Option Nat) (c : Cond) (hs : TxSetupC K name b (cmds ++ [.op (.set k v ttl c)]))
    (hn : NoDeadlineCrossedC b (cmds ++ [.op (.set k v ttl c)]) = true) (mode : TxMode) (id timeout : Nat) :
    let st := ((TxSt.begin_ b mode id timeout).runC name cmds).1
    let st' := (st.step (.set k v ttl c)).1
    (st.step (.set k v ttl c)).2 = .bool false →
      (∀ k', st'.ov.view k' = st.ov.view k') ∧ st'.del = st.del ∧
      (∀ k', reserved k' = false → st'.b.view k' = st.b.view k') ∧
      (∀ k', st'.commit.b.view k' = st.commit.b.view k') := by
  intro st st' hfalse
  have hs0 := hs.prefix
  have hmap : (cmds ++ [TxCmd.op (.set k v ttl c)]).map TxCmd.timing = cmds.map TxCmd.timing ++ [.set k v ttl c] := by
    simp [TxCmd.timing]
  have hT : endTimeC b.now (cmds ++ [.op (.set k v ttl c)]) = endTimeC b.now cmds := by
    have : ∀ (l : List Op) now, endTime now (l ++ [.set k v ttl c]) = endTime now l := by
      intro l; induction l with
      | nil => intro now; simp [endTime, Op.dt]
      | cons op l ih => intro now; simp only [List.cons_append, endTime]; exact ih _
    unfold endTimeC; rw [hmap]; exact this _ b.now
  have hn' := hn
  simp only [NoDeadlineCrossedC, NoDeadlineCrossed, Bool.and_eq_true, hmap] at hn'
  have hT' : endTime b.now (cmds.map TxCmd.timing ++ [.set k v ttl c]) = endTimeC b.now cmds := by
    have := hT; unfold endTimeC at this; rw [hmap] at this; exact this
  rw [hT'] at hn'
  have hn0 : NoDeadlineCrossedC b cmds = true := by
    simp only [NoDeadlineCrossedC, NoDeadlineCrossed, Bool.and_eq_true]
    refine ⟨hn'.1, ?_⟩
    have : ∀ (l : List Op) now T, assignedOk T now (l ++ [.set k v ttl c]) = true → assignedOk T now l = true := by
      intro l; induction l with
      | nil => intro _ _ _; rfl
      | cons op l ih =>
        intro now T h
        simp only [List.cons_append, assignedOk, Bool.and_eq_true] at h ⊢
        exact ⟨h.1, ih _ _ h.2⟩
    exact this _ _ _ hn'.2
  obtain ⟨a, tb, href, hw, hb, _, _⟩ := reachNdcC hs0 hn0 mode id timeout
  have hop : OpOk K (.set k v ttl c) := hs.cmds (.op (.set k v ttl c)) (by simp)
  obtain ⟨n1, n2, _⟩ := now_of_refC href hw hb
  have hdl : dlAfter (endTimeC b.now cmds) (deadlineOf st.ov.now ttl) = true := by
    have : ∀ (l : List Op) now, assignedOk (endTimeC b.now cmds) now (l ++ [.set k v ttl c]) = true →
        dlAfter (endTimeC b.now cmds) (deadlineOf (endTime now l) ttl) = true := by
      intro l; induction l with
      | nil => intro now h; simpa [assignedOk, Op.ttls, endTime] using h
      | cons op l ih =>
        intro now h
        simp only [List.cons_append, assignedOk, Bool.and_eq_true] at h
        simp only [endTime]; exact ih _ h.2
    have hend := this _ b.now hn'.2
    rw [n1]; exact hend
  obtain ⟨tb', href', hout⟩ := TxSt.step_refines href (.set k v ttl c) hop.1
    (fun k' hk' => hop.2.1 k' hk' _) (by rfl) (by intro ttl' h'; simp [Op.ttls] at h'; subst h'; exact hdl)
  have habs : (a.step (.set k v ttl c)).1 = a := by
    have h2 : (a.step (.set k v ttl c)).2 = .bool false := by rw [← hout]; exact hfalse
    cases c with
    | always => simp [ATx.step] at h2
    | nx => simp only [ATx.step] at h2 ⊢; split at h2 <;> simp_all
    | xx => simp only [ATx.step] at h2 ⊢; split at h2 <;> simp_all
  rw [habs] at href'
  refine ⟨fun k' => ?_, ?_, fun k' hu => ?_, fun k' => ?_⟩
  · rw [href'.ov.ref.2 k', href.ov.ref.2 k']
  · rw [href'.del, href.del]
  · rw [href'.b.ref.2 k', href.b.ref.2 k', href'.user k' hu, href.user k' hu]
  · obtain ⟨t1, g1, _, r1, u1⟩ := TxSt.commit_refines href hw
    obtain ⟨t2, g2, _, r2, u2⟩ := TxSt.commit_refines href' hw
    obtain ⟨_, n2', _⟩ := now_of_refC href' hw hb
    rw [expired_nil_of_fresh href (Nat.le_of_eq n2)] at u1
    rw [expired_nil_of_fresh href' (Nat.le_of_eq n2')] at u2
    rw [g2.ref.2 k', g1.ref.2 k']
    cases hr : reserved k' with
    | true => rw [r1 k' hr, r2 k' hr]
    | false => rw [u1 k' hr, u2 k' hr]

/-- a history of regular commands only is a history with pattern commands: same run, same answers -/
theorem regular_history_is_a_history (name : Nat → List Char) (ops : List Op) (st : TxSt) (m : Mem) :
    (st.runC name (ops.map .op)).1 = (st.run ops).1 ∧ (st.runC name (ops.map .op)).2 = (st.run ops).2.map .out ∧
    (m.runC name (ops.map .op)).1 = (m.run ops).1 ∧ (m.runC name (ops.map .op)).2 = (m.run ops).2.map .out :=
  ⟨(TxSt.runC_ops name ops st).1, (TxSt.runC_ops name ops st).2, (Mem.runC_ops name ops m).1, (Mem.runC_ops name ops m).2⟩

/-- **In fast mode the lock backend's `delete_match` is the plain backend's** (`TransactionBackend.delete_match`:
the overlay's `delete_match`, every scanned store key ADDED to the pending deletes), and in every mode the scanned
keys are added to — never replace — the pending deletes: a key deleted earlier stays deleted. -/
theorem delete_match_extends_pending_deletes (name : Nat → List Char) (st : TxSt) (pat : List Char) (hm : st.mode = .fast) :
    (st.stepC name (.deleteMatch pat)).1 = st.deleteMatchBase name pat ∧
    ∀ k, k ∈ st.del → k ∈ (st.deleteMatchBase name pat).del := by
  refine ⟨by rw [TxSt.stepC_deleteMatch, TxSt.deleteMatchLock_fast name st pat hm], fun k hk => ?_⟩
  have : ∀ (ks : List Key) (d : List Key), k ∈ d → k ∈ ks.foldl (fun d k => k :: d) d := by
    intro ks; induction ks with
    | nil => intro d h; exact h
    | cons x ks ih => intro d h; simp only [List.foldl_cons]; exact ih _ (List.mem_cons_of_mem _ h)
  exact this _ _ hk

/-! ### Non-vacuity (sample transaction: `Lemmas/TxSample.lean`) -/

/-- the hypotheses of the theorems are satisfiable by a non-trivial transaction -/
example : TxSetup sampleK sampleStore sampleOps ∧ NoDeadlineCrossed sampleStore sampleOps = true :=
  ⟨sampleSetup, by decide⟩

/-- …and the model really does something on it (locked mode) -/
example : ((TxSt.begin_ sampleStore .locked 1 80).run sampleOps).2 =
    [.bool false, .bool true, .unit, .bool true, .bool false, .bool true, .int 6, .unit, .val (some (.int 6)), .unit,
     .vals [none, some (.int 6), some (.int 1)], .int (-2), .bool true, .int 1] := by decide

/-- a failed conditional exists among the sample commands (premise of `failed_conditional_is_noop`) -/
example : (((TxSt.begin_ sampleStore .fast 1 80).run (sampleOps.take 4)).1.step (.set 0 (.tok 7) none .xx)).2
    = .bool false := by decide

/-- the witness of the caller-default class: the store holds `0 ↦ 5`; the transaction overwrites it with `None` and reads
it back with the default default (`None`), then resets key 2 to `0` and reads it with `default=0`, then reads both
with `get_many(default=None)`: the callers get `None`, `0`, `(None, 0)` — never the old `5` / `7` -/
example : ∀ mode ∈ [TxMode.fast, .locked, .serializable],
    withDefaults [none, some .nil, none, some (.int 0), some .nil]
      ((TxSt.begin_ { now := 3, cap := 1000, store := [(0, ⟨.int 5, none⟩), (2, ⟨.int 7, none⟩)] } mode 1 80).run
        [.set 0 .nil none .always, .get 0, .set 2 (.int 0) none .xx, .get 2, .getMany [0, 2, 4]]).2 =
    [.bool true, .val (some .nil), .bool true, .val (some (.int 0)), .vals [some .nil, some (.int 0), some .nil]] := by
  decide

/-! ### Non-vacuity of the theorems with pattern commands (sample: `Lemmas/TxMatchSample.lean`) -/

/-- the hypotheses are satisfiable by a non-trivial history with pattern commands -/
example : TxSetupC sampleK sampleName sampleStore sampleCmds ∧ NoDeadlineCrossedC sampleStore sampleCmds = true :=
  ⟨sampleSetupC, by decide⟩

/-- …and the model really does something on it, the same in the three modes: the deleted key 0 stays deleted
through the unrelated `delete_match`es, `scan` / `get_match` see the own writes, the repeated identical
`delete_match` removes the key written again, the only-if-present write of the removed key fails -/
example : ∀ mode ∈ [TxMode.fast, .locked, .serializable],
    ((TxSt.begin_ sampleStore mode 1 80).runC sampleName sampleCmds).2 =
    [.out (.bool true), .out .unit, .out (.val none), .keys [], .out (.bool true), .out (.int 1),
     .pairs [(2, some (.tok 9)), (4, some (.int 1))], .out .unit, .out .unit, .out (.bool false), .out .unit,
     .out (.vals [none, none, none]), .out .unit, .keys [], .out (.bool true)] := by decide

/-- the premise of `failed_conditional_is_noop_with_patterns` occurs in the sample (the 10th command) -/
example : (((TxSt.begin_ sampleStore .locked 1 80).runC sampleName (sampleCmds.take 9)).1.step (.set 2 (.tok 7) none .xx)).2
    = .bool false := by decide

/-- `delete(ka); delete_match("kb*")` in fast mode: the pending delete of ka is still there (seeded change C04-9
replaced the set of pending deletes by the scanned keys) -/
example : ((TxSt.begin_ sampleStore .fast 1 80).runC sampleName [.op (.delete 0), .deleteMatch pB]).1.del = [2, 0] := by
  decide

end CashewsVerif.Props.C04
