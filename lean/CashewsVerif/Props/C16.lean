import CashewsVerif.Lemmas.TxFaultLocks
/-
C16 — a failing backend never leaves a task stuck in a transaction or locks held.

Every theorem is quantified over EVERY fault oracle `cfg.fails : Nat → Bool` (any number of failing commands,
anywhere) with EVERY assignment of kinds `cfg.base : Nat → Bool` (each failing command raises an `Exception` or a
BaseException that is not one — `asyncio.CancelledError`: a command cut short by a time limit / a cancelled task),
EVERY environment `cfg.env : Nat → List (backend × lock key)` (which foreign lock holders — other open
transactions — release their locks just before which command of this task: before the block's first command,
between two attempts of a blocked `_lock_updates`, during commit / rollback, never), every duration `cfg.stepDt`
of a lock-step, every mode / timeout / retry count / set-iteration order (`cfg`), every body (any length, any
number of backends and keys, single- and multi-key writes, TTL changes (`expire`), counters and conditional writes
(`incr` with a ttl, `set(exist=…)` — read-modify-writes whose own backend read comes after the lock was taken and can
fail), nested blocks to any depth on any context object — the very object of an
enclosing block included —, ending normally or by raising), every context object `o` of the outermost block (one of its
own, or a shared one that is idle) and every starting world outside a transaction (in particular: any set of lock
keys held by foreign owners, any store content with any deadlines).
Property theorems only; helper lemmas live in `Lemmas/TxFault*.lean`, the model in `Model/TxFault.lean`.
-/
namespace CashewsVerif.Props.C16
open CashewsVerif CashewsVerif.TxFault

/-- no lock entry carries this transaction's token yet (`_lock_id` is a fresh uuid) -/
def NoMine (w : FWorld) : Prop := ∀ key e, alLookup w.locks key = some e → e.mine = false

/-- **The task is out of the transaction once the block has been left** — whatever failed in the body, in
commit, in rollback or while unlocking. -/
theorem ctx_reset_after_exit (cfg : Cfg) (o : Option Nat) (body : List BodyCmd) (w : FWorld) (h : w.ctx = none) (hidle : ObjIdle w o) :
    (runBlockOn cfg o body w).2.ctx = none := by
  rw [runBlockOn_world cfg o body w h hidle]
  generalize (runBody cfg body (enteredOn o w)).2 = w2
  generalize (!(runBody cfg body (enteredOn o w)).1.isOk) = exc
  unfold aexitOn
  split
  · assumption
  · rw [tryFinally_snd]
    cases o <;> rfl

/-- **A write issued right after the block reaches the store** (it is not buffered in a dead overlay): unless
that very command is made to fail, a live read of the backend returns the value. -/
theorem write_after_block_reaches_store (cfg cfg' : Cfg) (o : Option Nat) (body : List BodyCmd) (w : FWorld) (h : w.ctx = none) (hidle : ObjIdle w o)
    (b k : Nat) (v : Int) (hf : cfg'.fails (runBlockOn cfg o body w).2.counter = false) :
    dataView (facadeSet cfg' b k v (runBlockOn cfg o body w).2).2 b k = some v := by
  have hc := ctx_reset_after_exit cfg o body w h hidle
  generalize (runBlockOn cfg o body w).2 = w' at hc hf
  unfold facadeSet
  simp only [hc]
  rw [backendCmd_ok cfg' b _ w' hf]
  simp only [applyCmd, dataView, logged]
  exact memGet_memSet _ _ _ _

/-- the `unlock` of lock key `lk` on backend `b` was issued during the block (that started in `w` and ended in `w'`)
and the oracle made it fail -/
def OwnUnlockFailed (cfg : Cfg) (w w' : FWorld) (b lk : Nat) : Prop :=
  ∃ i, w.counter ≤ i ∧ i < w'.counter ∧ cfg.fails i = true ∧ (⟨i, b, .unlock lk, true⟩ : Ev) ∈ w'.log

/-- the entry lapses by itself at most `timeout` after the block was left -/
def LapsesWithin (cfg : Cfg) (w' : FWorld) (e : LEntry) : Prop := ∃ d, e.dl = some d ∧ d ≤ w'.now + cfg.timeout

/-- the OLD loop of `Transaction._rollback` (before 12f0cbb: `except Exception` only, `cfg.rbAll = false`) was left because
the `unlock` of ANOTHER lock entry, issued during the block, ended with a BaseException (it was cut short by a time
limit / the task was cancelled): the backends after it were never unlocked -/
def RollbackLeftEarly (cfg : Cfg) (w w' : FWorld) (b lk : Nat) : Prop :=
  cfg.rbAll = false ∧ ∃ i b' lk', w.counter ≤ i ∧ i < w'.counter ∧ cfg.fails i = true ∧ cfg.base i = true ∧
    (b', lk') ≠ (b, lk) ∧ (⟨i, b', .unlock lk', true⟩ : Ev) ∈ w'.log

/-- (remark, both loops) what is true whichever loop `_rollback` is: any entry still carrying this transaction's token
after the block has a logged `unlock` of its own that was made to fail, or — only possible with the OLD loop — the unlock
of another entry ended with a BaseException and `_rollback` was left.  The headline theorem
`locks_released_or_self_failed` below is the instance for the loop of /repo. -/
theorem locks_released_or_rollback_left_early (cfg : Cfg) (o : Option Nat) (body : List BodyCmd) (w : FWorld)
    (h : w.ctx = none) (hidle : ObjIdle w o) (hm : NoMine w) :
    ∀ b lk e, alLookup (runBlockOn cfg o body w).2.locks (b, lk) = some e → e.mine = true →
      (OwnUnlockFailed cfg w (runBlockOn cfg o body w).2 b lk ∨ RollbackLeftEarly cfg w (runBlockOn cfg o body w).2 b lk) ∧
      LapsesWithin cfg (runBlockOn cfg o body w).2 e := by
  intro b lk e he hmine
  unfold OwnUnlockFailed RollbackLeftEarly LapsesWithin
  rw [runBlockOn_world cfg o body w h hidle] at he ⊢
  -- the invariant holds when the body starts, hence when it ends (normally or not)
  have hI0 : LockInv cfg w.counter (enteredOn o w) :=
    ⟨Nat.le_of_eq (enterOn_counter o w).symm, ⟨[]⟩, enteredOn_ctx o w h, fun b lk e he hme => by
      rw [enteredOn_locks] at he; have := hm _ _ he; rw [hme] at this; cases this⟩
  have hI := runBody_RI cfg w.counter body (enteredOn o w) hI0
  have hcnt : w.counter ≤ (runBody cfg body (enteredOn o w)).2.counter := (runBody_outerK cfg o body w h).2.2
  generalize (runBody cfg body (enteredOn o w)).2 = w2 at hI hcnt he ⊢
  generalize (!(runBody cfg body (enteredOn o w)).1.isOk) = exc at he ⊢
  obtain ⟨_, tx, hctx, hinv⟩ := hI
  have hcov : Covered cfg w.counter tx.backs w2 := fun b lk e he hme => (hinv b lk e he hme).1
  -- `__aexit__`: commit or rollback over all wrapped backends, then `close()` (which touches the context only)
  have key : ∀ w3, RExit w2 w3 → Covered cfg w.counter [] w3 →
      alLookup w3.locks (b, lk) = some e →
      ((∃ i, w.counter ≤ i ∧ i < w3.counter ∧ cfg.fails i = true ∧ (⟨i, b, .unlock lk, true⟩ : Ev) ∈ w3.log) ∨
       (cfg.rbAll = false ∧ ∃ i b' lk', w.counter ≤ i ∧ i < w3.counter ∧ cfg.fails i = true ∧ cfg.base i = true ∧
          (b', lk') ≠ (b, lk) ∧ (⟨i, b', .unlock lk', true⟩ : Ev) ∈ w3.log)) ∧
      (∃ d, e.dl = some d ∧ d ≤ w3.now + cfg.timeout) := by
    intro w3 hr hc3 he3
    refine ⟨?_, ?_⟩
    · rcases hc3 b lk e he3 hmine with ⟨t, ht, _⟩ | hfu | ⟨hall, i, b', lk', h1, h2, h3, h4, h5⟩
      · cases ht
      · exact Or.inl hfu
      · by_cases heq : (b', lk') = (b, lk)
        · simp only [Prod.mk.injEq] at heq
          obtain ⟨rfl, rfl⟩ := heq
          exact Or.inl ⟨i, h1, h2, h3, h5⟩
        · exact Or.inr ⟨hall, i, b', lk', h1, h2, h3, h4, heq, h5⟩
    · obtain ⟨d, hd1, hd2⟩ := (hinv b lk e (hr.2.2.2 _ _ he3) hmine).2
      exact ⟨d, hd1, by rw [hr.2.2.1]; exact hd2⟩
  unfold aexitOn at he ⊢
  simp only [hctx] at he ⊢
  rw [tryFinally_snd] at he ⊢
  cases exc with
  | true =>
    simp only [if_true] at he ⊢
    rw [txRollback_snd] at he ⊢
    exact key _ (RExit.pre.trans (rollbackList_RExit cfg tx.backs w2) (closeOn_RExit o _))
      ((rollbackList_cov cfg w.counter tx.backs w2 hcnt hcov).mono (closeOn_RExit o _)) he
  | false =>
    simp only [Bool.false_eq_true, if_false] at he ⊢
    exact key _ (RExit.pre.trans (commitLoop_RExit cfg tx.backs w2) (closeOn_RExit o _))
      ((commitLoop_cov cfg w.counter tx.backs w2 hcnt hcov).mono (closeOn_RExit o _)) he

/-- **Every lock the transaction took is released, or the failing command is that very unlock** — then the entry lapses
by itself at most `timeout` after the block was left.  FULL statement, for the code of /repo (`_rollback` rolls every
backend back whatever fails, `cfg.rbAll = true`, the model's default), for EVERY fault oracle and EVERY assignment of
kinds (Exception / BaseException such as `asyncio.CancelledError`): any entry still carrying this transaction's token
after the block has a logged `unlock` command of its own key, on its own backend, issued during this block, that the
oracle made fail; and its deadline is within the timeout. -/
theorem locks_released_or_self_failed (cfg : Cfg) (hall : cfg.rbAll = true) (o : Option Nat) (body : List BodyCmd) (w : FWorld)
    (h : w.ctx = none) (hidle : ObjIdle w o) (hm : NoMine w) :
    ∀ b lk e, alLookup (runBlockOn cfg o body w).2.locks (b, lk) = some e → e.mine = true →
      OwnUnlockFailed cfg w (runBlockOn cfg o body w).2 b lk ∧ LapsesWithin cfg (runBlockOn cfg o body w).2 e := by
  intro b lk e he hmine
  obtain ⟨h1 | ⟨h3, _⟩, h2⟩ := locks_released_or_rollback_left_early cfg o body w h hidle hm b lk e he hmine
  · exact ⟨h1, h2⟩
  · rw [hall] at h3
    cases h3

/-- (remark, both loops) **the full statement holds even for the OLD loop when no `unlock` ends with a BaseException**: failing commands of
BaseException kind anywhere else — in the body, while a lock is being acquired, in the `delete_many` / `set_many` of
the commit of ANY backend (the first of several in particular: `Transaction.commit` catches BaseException and rolls
the remaining backends back) — and failing unlocks of Exception kind leave no lock behind except one whose own
unlock failed.  (All-`Exception` oracles, `cfg.base = fun _ => false`, are the special case proved before kinds existed.) -/
theorem locks_released_when_unlock_faults_are_exceptions (cfg : Cfg) (o : Option Nat) (body : List BodyCmd) (w : FWorld)
    (h : w.ctx = none) (hidle : ObjIdle w o) (hm : NoMine w)
    (hu : ∀ i b' lk', w.counter ≤ i → (⟨i, b', .unlock lk', true⟩ : Ev) ∈ (runBlockOn cfg o body w).2.log → cfg.base i = false) :
    ∀ b lk e, alLookup (runBlockOn cfg o body w).2.locks (b, lk) = some e → e.mine = true →
      OwnUnlockFailed cfg w (runBlockOn cfg o body w).2 b lk ∧ LapsesWithin cfg (runBlockOn cfg o body w).2 e := by
  intro b lk e he hmine
  obtain ⟨h1 | ⟨_, i, b', lk', hi1, _, _, hi4, _, hi6⟩, h2⟩ := locks_released_or_rollback_left_early cfg o body w h hidle hm b lk e he hmine
  · exact ⟨h1, h2⟩
  · rw [hu i b' lk' hi1 hi6] at hi4
    cases hi4

/-- **… and that stays so whatever happens to the foreign locks afterwards**: once the block has been left nothing
of this transaction is still waiting for a lock (acquisition is sequential: a blocked `_lock_updates` has obtained
its lock or raised before the next command starts), so when other holders release their locks LATER (any list of
release events after the block) still every entry carrying this transaction's token is one whose own `unlock`,
issued during the block, was made to fail. -/
theorem locks_released_or_self_failed_after_release (cfg : Cfg) (hall : cfg.rbAll = true) (o : Option Nat) (body : List BodyCmd) (w : FWorld)
    (h : w.ctx = none) (hidle : ObjIdle w o) (hm : NoMine w) (later : List (Nat × Nat)) :
    ∀ b lk e, alLookup (envRel later (runBlockOn cfg o body w).2.locks) (b, lk) = some e → e.mine = true →
      OwnUnlockFailed cfg w (runBlockOn cfg o body w).2 b lk ∧ LapsesWithin cfg (runBlockOn cfg o body w).2 e :=
  fun b lk e he hmine => locks_released_or_self_failed cfg hall o body w h hidle hm b lk e (envRel_sub _ _ _ _ he) hmine

/-- the environment never releases this transaction's own locks (it cannot be blamed for a missing entry, and
the theorems above are not vacuous because "somebody else cleaned up") -/
theorem env_keeps_own_locks (later : List (Nat × Nat)) (w : FWorld) (key : Nat × Nat) (e : LEntry)
    (he : alLookup w.locks key = some e) (hmine : e.mine = true) :
    alLookup (envRel later w.locks) key = some e := envRel_mine later w.locks key e he hmine

/-- corollary: if no `unlock` command of this block was made to fail (with an exception of either kind), nothing of
the transaction's locks is left -/
theorem no_lock_left_without_unlock_fault (cfg : Cfg) (o : Option Nat) (body : List BodyCmd) (w : FWorld)
    (h : w.ctx = none) (hidle : ObjIdle w o) (hm : NoMine w)
    (hu : ∀ ev ∈ (runBlockOn cfg o body w).2.log, w.counter ≤ ev.idx → (∃ lk, ev.cmd = .unlock lk) → ev.failed = false) :
    NoMine (runBlockOn cfg o body w).2 := by
  intro key e he
  cases hme : e.mine with
  | false => rfl
  | true =>
    obtain ⟨⟨i, h1, _, _, h4⟩ | ⟨_, i, _, _, h1, _, _, _, _, h4⟩, _⟩ :=
      locks_released_or_rollback_left_early cfg o body w h hidle hm key.1 key.2 e he hme
    · have := hu _ h4 h1 ⟨_, rfl⟩
      cases this
    · have := hu _ h4 h1 ⟨_, rfl⟩
      cases this

/-- a body that raised — a failing command, `LockedError`, or its own exception — **applies none of the
transaction's writes**: the data of every backend is exactly what it was before the block (whatever else fails
during the rollback). -/
theorem failed_body_applies_nothing (cfg : Cfg) (o : Option Nat) (body : List BodyCmd) (w : FWorld) (h : w.ctx = none) (hidle : ObjIdle w o) (hnc : hasCommitL body = false)
    (hb : (runBody cfg body (enteredOn o w)).1.isOk = false) :
    (runBlockOn cfg o body w).2.data = w.data := by
  rw [runBlockOn_world cfg o body w h hidle, hb]
  exact ((aexitOn_exc_RBody cfg o _).2.1).trans (runBody_outer cfg o body w h hnc).2.1

/-- **A failure inside the body applies none of the transaction's writes**: if any backend command issued by
the body is made to fail (index between the block's first command and the body's last), the data of every
backend after the block is what it was before — for every fault oracle, whatever else fails afterwards. -/
theorem body_fault_applies_nothing (cfg : Cfg) (o : Option Nat) (body : List BodyCmd) (w : FWorld) (h : w.ctx = none) (hidle : ObjIdle w o) (hnc : hasCommitL body = false)
    (hf : ∃ i, w.counter ≤ i ∧ i < (runBody cfg body (enteredOn o w)).2.counter ∧ cfg.fails i = true) :
    (runBlockOn cfg o body w).2.data = w.data := by
  apply failed_body_applies_nothing cfg o body w h hidle hnc
  cases hok : (runBody cfg body (enteredOn o w)).1.isOk with
  | false => rfl
  | true =>
    obtain ⟨i, h1, h2, h3⟩ := hf
    have := (runBody_Clean cfg body (enteredOn o w)).2 hok i (by rw [show (enteredOn o w).counter = w.counter from enterOn_counter o w]; exact h1) h2
    rw [h3] at this
    cases this

/-- a read (`get`, `exists`) or a lock command (`set_lock`, `unlock`): the commands that cannot touch the data of a backend -/
def ReadOrLock (c : BCmd) : Prop :=
  (∃ k, c = .get k) ∨ (∃ k, c = .has k) ∨ (∃ lk ttl, c = .setLock lk ttl) ∨ (∃ lk, c = .unlock lk)

theorem readOrLock_of_noData (c : BCmd) (h : c.noData) : ReadOrLock c := by
  cases c with
  | get k => exact Or.inl ⟨k, rfl⟩
  | has k => exact Or.inr (Or.inl ⟨k, rfl⟩)
  | setLock lk ttl => exact Or.inr (Or.inr (Or.inl ⟨lk, ttl, rfl⟩))
  | unlock lk => exact Or.inr (Or.inr (Or.inr ⟨lk, rfl⟩))
  | set k v => exact h.elim
  | deleteMany ks => exact h.elim
  | setMany kvs ttl => exact h.elim

/-- **Until the body ends every write is buffered**: whatever the body does — `set` (with or without a ttl, conditional or
not), `incr`, `delete`, `set_many`, `delete_many`, `expire` — and whatever fails, the only commands that reach a backend
before `__aexit__` are reads (`get`, `exists`) and `set_lock`s.  In particular `expire` of a key the transaction has not
written reads the value and buffers it with the new TTL; it does not send `expire` to the store (seeded change C16-8). -/
theorem body_sends_no_write (cfg : Cfg) (o : Option Nat) (body : List BodyCmd) (w : FWorld) (h : w.ctx = none) (hnc : hasCommitL body = false) :
    ∀ ev, ev ∈ (runBody cfg body (enteredOn o w)).2.log → ev ∈ w.log ∨ ReadOrLock ev.cmd := by
  intro ev hev
  rcases (runBody_outer cfg o body w h hnc).2.2 ev hev with h' | h'
  · exact Or.inl h'
  · exact Or.inr (readOrLock_of_noData _ h')

/-- **A block whose body failed sends no write to any backend at all** — not in the body, not while rolling back: every
command it logged is a read, a `set_lock` or an `unlock`.  This is "a failure inside the body applies none of the
transaction's writes" at the level of the command trace; unlike `failed_body_applies_nothing` it does not depend on the
reading "a failing command has no effect on the backend". -/
theorem failed_body_sends_no_write (cfg : Cfg) (o : Option Nat) (body : List BodyCmd) (w : FWorld) (h : w.ctx = none) (hidle : ObjIdle w o) (hnc : hasCommitL body = false)
    (hb : (runBody cfg body (enteredOn o w)).1.isOk = false) :
    ∀ ev, ev ∈ (runBlockOn cfg o body w).2.log → ev ∈ w.log ∨ ReadOrLock ev.cmd := by
  intro ev hev
  rw [runBlockOn_world cfg o body w h hidle, hb] at hev
  rcases (aexitOn_exc_RBody cfg o _).2.2 ev hev with h1 | h1
  · rcases (runBody_outer cfg o body w h hnc).2.2 ev h1 with h2 | h2
    · exact Or.inl h2
    · exact Or.inr (readOrLock_of_noData _ h2)
  · exact Or.inr (readOrLock_of_noData _ h1)

/-- **… value AND deadline**: after a failed body every key of every backend has exactly the entry it had before the block
— the same value and the same deadline (a TTL changed by `expire`, by a `set`/`incr` with a ttl or by a conditional `set`
inside the failed body is not applied either) — so at every later instant `t` the store shows what it would have shown
had the block never run. -/
theorem failed_body_keeps_values_and_deadlines (cfg : Cfg) (o : Option Nat) (body : List BodyCmd) (w : FWorld) (h : w.ctx = none) (hidle : ObjIdle w o) (hnc : hasCommitL body = false)
    (hb : (runBody cfg body (enteredOn o w)).1.isOk = false) (b k : Nat) :
    alLookup (runBlockOn cfg o body w).2.data (b, k) = alLookup w.data (b, k) ∧
    ∀ t, entryView { (runBlockOn cfg o body w).2 with now := t } b k = entryView { w with now := t } b k := by
  have hd := failed_body_applies_nothing cfg o body w h hidle hnc hb
  refine ⟨by rw [hd], fun t => ?_⟩
  unfold entryView
  simp only [hd]

/-- the same for a body in which a backend command was made to fail (the premise of `body_fault_applies_nothing`) -/
theorem body_fault_keeps_values_and_deadlines (cfg : Cfg) (o : Option Nat) (body : List BodyCmd) (w : FWorld) (h : w.ctx = none) (hidle : ObjIdle w o) (hnc : hasCommitL body = false)
    (hf : ∃ i, w.counter ≤ i ∧ i < (runBody cfg body (enteredOn o w)).2.counter ∧ cfg.fails i = true) (b k : Nat) :
    alLookup (runBlockOn cfg o body w).2.data (b, k) = alLookup w.data (b, k) ∧
    ∀ t, entryView { (runBlockOn cfg o body w).2 with now := t } b k = entryView { w with now := t } b k := by
  apply failed_body_keeps_values_and_deadlines cfg o body w h hidle hnc
  cases hok : (runBody cfg body (enteredOn o w)).1.isOk with
  | false => rfl
  | true =>
    obtain ⟨i, h1, h2, h3⟩ := hf
    have := (runBody_Clean cfg body (enteredOn o w)).2 hok i (by rw [show (enteredOn o w).counter = w.counter from enterOn_counter o w]; exact h1) h2
    rw [h3] at this
    cases this

/-- **A nested block leaves the transaction open** — on whichever context object it is opened: an object of its own (an
inline `async with cache.transaction(…)`, a call of a decorated function), another shared object, or THE VERY OBJECT of an
enclosing block (`tx = cache.transaction(); async with tx: …; async with tx: …`).  Run inside a transaction (from any world
in which the context variable is set), with any body, any faults, leaving normally or not: the task is still inside the
transaction afterwards (nothing was committed, rolled back or closed), every context object has the fields it had
(`_inner` was bumped and taken back), the data of every backend is untouched and only reads / lock commands were sent.
(Seeded change C16-10: an `__aexit__` that recognised "inner" by `self._tx is not self.current_tx` committed and closed
here when the object was that of the outermost block.) -/
theorem nested_block_leaves_transaction_open (cfg : Cfg) (o : Option Nat) (inner : List BodyCmd) (w : FWorld)
    (hs : w.ctx.isSome = true) (hnc : hasCommitL inner = false) :
    (bodyStep cfg (.block o inner) w).2.ctx.isSome = true ∧
    (∀ i, objOf (bodyStep cfg (.block o inner) w).2 i = objOf w i) ∧
    (bodyStep cfg (.block o inner) w).2.data = w.data ∧
    ∀ ev, ev ∈ (bodyStep cfg (.block o inner) w).2.log → ev ∈ w.log ∨ ReadOrLock ev.cmd := by
  obtain ⟨a, b, _, c, d⟩ := bodyStep_RIn cfg (.block o inner) (by simpa [BodyCmd.hasCommit] using hnc) w hs
  refine ⟨a, b, c, fun ev hev => ?_⟩
  rcases d ev hev with h' | h'
  · exact Or.inl h'
  · exact Or.inr (readOrLock_of_noData _ h')

/-- … so **the body of the outermost block ends inside the transaction it started, however it nests**: the context variable
is still set when `__aexit__` of the outermost block runs, and the block object is as `__aenter__` left it (`_inner` = 0,
`_tx` set) — which is why that `__aexit__` commits / rolls back EVERYTHING the body did (`exitOn_outer`), a failure after an
inner block included. -/
theorem body_ends_inside_its_transaction (cfg : Cfg) (o : Option Nat) (body : List BodyCmd) (w : FWorld) (h : w.ctx = none) :
    (runBody cfg body (enteredOn o w)).2.ctx.isSome = true ∧
    ∀ i, objOf (runBody cfg body (enteredOn o w)).2 i = objOf (enteredOn o w) i :=
  ⟨(runBody_outerK cfg o body w h).1, (runBody_outerK cfg o body w h).2.1⟩

/-- **The block object can be used again** (`async with tx: …` … later `async with tx: …`, sequentially): once the outermost
block of object `o` has been left — whatever failed — the task is outside any transaction, `o` is as constructed (`_tx` =
None, `_inner` = 0) and every other context object has the fields it had; so the premises `w.ctx = none`, `ObjIdle w o` of
every theorem of this file hold again for the next block on `o` or on any other object that was idle. -/
theorem block_object_idle_after_exit (cfg : Cfg) (o : Option Nat) (body : List BodyCmd) (w : FWorld) (h : w.ctx = none)
    (hidle : ObjIdle w o) :
    (runBlockOn cfg o body w).2.ctx = none ∧ ObjIdle (runBlockOn cfg o body w).2 o ∧
    ∀ i, objOf (runBlockOn cfg o body w).2 i = if o = some i then { objOf w i with tx := false } else objOf w i := by
  refine ⟨ctx_reset_after_exit cfg o body w h hidle, fun i hi => ?_, runBlockOn_objs cfg o body w h hidle⟩
  rw [runBlockOn_objs cfg o body w h hidle i, if_pos hi]
  exact hidle i hi

/-- **With explicit `tx.commit()` calls in the body: a failure applies nothing of what was written since the last of them.**
The body is `b1 ++ b2`; `b1` is arbitrary (explicit commits and rollbacks, nested blocks) and ran to its end; `b2` contains no
`tx.commit()` at any depth (explicit `tx.rollback()`s and nested blocks are fine) and the body failed in it — a failing backend
command, `LockedError`, its own exception.  Then the data of every backend after the block is what it was when `b1` ended:
every command after the last explicit commit went to the buffer — not to the store (seeded change C16-14) — and the buffer
was dropped.  (What `b1` committed stays, of course: that is what an explicit commit is.) -/
theorem failure_applies_nothing_since_last_commit (cfg : Cfg) (o : Option Nat) (b1 b2 : List BodyCmd) (w : FWorld)
    (h : w.ctx = none) (hidle : ObjIdle w o) (hnc : hasCommitL b2 = false)
    (h1 : (runBody cfg b1 (enteredOn o w)).1.isOk = true)
    (hb : (runBody cfg (b1 ++ b2) (enteredOn o w)).1.isOk = false) :
    (runBlockOn cfg o (b1 ++ b2) w).2.data = (runBody cfg b1 (enteredOn o w)).2.data := by
  rw [runBlockOn_world cfg o (b1 ++ b2) w h hidle, hb]
  refine ((aexitOn_exc_RBody cfg o _).2.1).trans ?_
  rw [runBody_append]
  have hs1 := (runBody_outerK cfg o b1 w h).1
  generalize runBody cfg b1 (enteredOn o w) = p at h1 hs1
  obtain ⟨r, w1⟩ := p
  cases r with
  | err e => simp [Res.isOk] at h1
  | ok a => exact ((runBody_RIn cfg b2 hnc w1 hs1).2.2).2.1

/-- … and it sends no write to a backend after the last explicit commit: every command logged after `b1` ended is a read, a
`set_lock` or an `unlock` -/
theorem failure_sends_no_write_since_last_commit (cfg : Cfg) (o : Option Nat) (b1 b2 : List BodyCmd) (w : FWorld)
    (h : w.ctx = none) (hidle : ObjIdle w o) (hnc : hasCommitL b2 = false)
    (h1 : (runBody cfg b1 (enteredOn o w)).1.isOk = true)
    (hb : (runBody cfg (b1 ++ b2) (enteredOn o w)).1.isOk = false) :
    ∀ ev, ev ∈ (runBlockOn cfg o (b1 ++ b2) w).2.log → ev ∈ (runBody cfg b1 (enteredOn o w)).2.log ∨ ReadOrLock ev.cmd := by
  intro ev hev
  rw [runBlockOn_world cfg o (b1 ++ b2) w h hidle, hb] at hev
  rcases (aexitOn_exc_RBody cfg o _).2.2 ev hev with h2 | h2
  · rw [runBody_append] at h2
    have hs1 := (runBody_outerK cfg o b1 w h).1
    generalize runBody cfg b1 (enteredOn o w) = p at h1 hs1 h2 ⊢
    obtain ⟨r, w1⟩ := p
    cases r with
    | err e => simp [Res.isOk] at h1
    | ok a =>
      rcases ((runBody_RIn cfg b2 hnc w1 hs1).2.2).2.2 ev h2 with h3 | h3
      · exact Or.inl h3
      · exact Or.inr (readOrLock_of_noData _ h3)
  · exact Or.inr (readOrLock_of_noData _ h2)

/-- **An explicit `tx.commit()` / `tx.rollback()` does not end the transaction**: for EVERY body (explicit commits and
rollbacks, nested blocks on any object, any faults) the task is still inside the transaction when the body ends and the block
object is as `__aenter__` left it — the commands after an explicit commit / rollback are buffered again, take locks again, and
the outermost `__aexit__` commits or rolls THEM back and releases THEIR locks (`locks_released_or_self_failed` holds for
bodies with explicit commits and rollbacks: seeded change C16-13). -/
theorem explicit_commit_or_rollback_keeps_the_transaction_open (cfg : Cfg) (w : FWorld) (hs : w.ctx.isSome = true) :
    (bodyStep cfg .commit w).2.ctx.isSome = true ∧ (bodyStep cfg .rollback w).2.ctx.isSome = true ∧
    (∀ i, objOf (bodyStep cfg .commit w).2 i = objOf w i) ∧ (∀ i, objOf (bodyStep cfg .rollback w).2 i = objOf w i) := by
  obtain ⟨a, b, _⟩ := bodyStep_RInK cfg .commit w hs
  obtain ⟨a', b', _⟩ := bodyStep_RInK cfg .rollback w hs
  exact ⟨a, a', b, b'⟩

/-- **A failure is never silent**: if the block returns normally, no backend command issued by it — in the body,
in commit, or while unlocking — was made to fail.  (Contrapositive: any fault reaches the caller as an exception;
the errors `Transaction.commit` swallows while rolling back the remaining backends only occur under an exception
that is re-raised.) -/
theorem fault_never_silent (cfg : Cfg) (o : Option Nat) (body : List BodyCmd) (w : FWorld) (h : w.ctx = none) (hidle : ObjIdle w o)
    (hok : (runBlockOn cfg o body w).1.isOk = true) :
    ∀ i, w.counter ≤ i → i < (runBlockOn cfg o body w).2.counter → cfg.fails i = false := by
  rw [runBlockOn_res cfg o body w h hidle] at hok ⊢
  have hb := runBody_Clean cfg body (enteredOn o w)
  rw [show (enteredOn o w).counter = w.counter from enterOn_counter o w] at hb
  generalize runBody cfg body (enteredOn o w) = p at hb hok ⊢
  obtain ⟨r, w2⟩ := p
  cases r with
  | ok a =>
    have he := aexitOn_Clean cfg o false w2
    simp only at hb hok he ⊢
    intro i hi1 hi2
    by_cases hlt : i < w2.counter
    · exact hb.2 rfl i hi1 hlt
    · exact he.2 hok i (by omega) hi2
  | err e =>
    simp only at hok
    generalize aexitOn cfg o true w2 = q at hok
    obtain ⟨r', w3⟩ := q
    cases r' <;> simp [Res.isOk] at hok

/-! ### non-vacuity: the model does something, the premises are satisfiable, both disjuncts occur -/

/-- the oracle failing exactly the listed command indices -/
def failsAt (l : List Nat) : Nat → Bool := fun i => l.contains i

/-- locked mode, timeout 16 ticks, 5 lock attempts -/
def demoCfg (faults : List Nat) : Cfg := ⟨.locked, 16, 5, [], failsAt faults, 0, fun _ => [], fun _ => false, true⟩

/-- the same, the faults listed in `bases` being of BaseException kind (a command cut short by a time limit ends with
`asyncio.CancelledError`); `rbAll`: which `_rollback` loop (true = /repo) -/
def demoCfgB (faults bases : List Nat) (rbAll : Bool) : Cfg :=
  { demoCfg faults with base := failsAt bases, rbAll := rbAll }

/-- two backends: writes on 0 (set, incr, delete) and on 1 (set with a TTL) -/
def demoBody : List BodyCmd := [.set 0 0 1 none, .set 1 0 2 (some 8), .incr 0 1 none, .delete 0 2]

def demoWorld : FWorld := { FWorld.init with data := [((0, 1), ⟨5, none⟩), ((0, 2), ⟨7, none⟩)] }

example : demoWorld.ctx = none ∧ NoMine demoWorld := ⟨rfl, fun _ _ h => by simp [demoWorld, FWorld.init] at h⟩

/-- no fault: 12 commands (4 `set_lock`, 1 `get`, commit of backend 0 then of backend 1, 4 `unlock`), the writes
are applied, every lock is gone, the task is out of the transaction -/
example :
    let w := (runBlock (demoCfg []) demoBody demoWorld).2
    w.counter = 12 ∧ w.locks = [] ∧ w.ctx = none ∧
    w.data = [((0, 0), ⟨1, none⟩), ((0, 1), ⟨6, none⟩), ((1, 0), ⟨2, some 8⟩)] ∧
    (w.log.filter fun ev => match ev.cmd with | .setLock _ _ => true | _ => false).length = 4 := by decide +kernel

/-- the `unlock` of lock key 2 on backend 0 (command 8) fails: exactly that entry is left, with the lease it was
taken with; the other unlocks of the same `gather` (commands 7 and 9) still ran; backend 1 is rolled back and
unlocked; the caller sees that fault -/
example :
    let r := runBlock (demoCfg [8]) demoBody demoWorld
    r.2.locks = [((0, 2), ⟨true, some 16⟩)] ∧ r.2.counter = 11 ∧ r.2.ctx = none ∧
    (match r.1 with | .err (.fault 8 .exception) => true | _ => false) = true ∧
    (⟨8, 0, .unlock 2, true⟩ : Ev) ∈ r.2.log ∧ (⟨9, 0, .unlock 3, false⟩ : Ev) ∈ r.2.log ∧
    (⟨10, 1, .unlock 1, false⟩ : Ev) ∈ r.2.log := by decide +kernel

/-- a fault inside the body (command 2, a `set_lock`): premise of `body_fault_applies_nothing`; the rollback
releases the two locks taken before it and the store is untouched -/
example :
    (∃ i, demoWorld.counter ≤ i ∧ i < (runBody (demoCfg [2]) demoBody (entered demoWorld)).2.counter ∧
      (demoCfg [2]).fails i = true) ∧
    (runBlock (demoCfg [2]) demoBody demoWorld).2.data = demoWorld.data ∧
    (runBlock (demoCfg [2]) demoBody demoWorld).2.locks = [] ∧
    (runBlock (demoCfg [2]) demoBody demoWorld).2.counter = 5 :=
  ⟨⟨2, by decide +kernel⟩, by decide +kernel, by decide +kernel, by decide +kernel⟩

/-- a pair of faults: the body fails at command 2 and the first unlock of the rollback (command 3) fails too:
the caller sees the rollback's exception, the lock whose unlock failed is left, the other one is released, the
store is untouched, the task is out of the transaction -/
example :
    let r := runBlock (demoCfg [2, 3]) demoBody demoWorld
    (match r.1 with | .err (.fault 3 .exception) => true | _ => false) = true ∧
    r.2.locks = [((0, 1), ⟨true, some 16⟩)] ∧ r.2.data = demoWorld.data ∧ r.2.ctx = none := by decide +kernel

/-- a write right after any of these blocks reaches the store -/
example : dataView (facadeSet (demoCfg []) 0 9 1 (runBlock (demoCfg [2, 3]) demoBody demoWorld).2).2 0 9 = some 1 := by
  decide +kernel

/-- contention: lock key 2 of backend 0 is held for ever by someone else; the body gives up with `LockedError`
after 5 attempts, the lock it had taken is released, the foreign one is untouched -/
example :
    let w0 : FWorld := { demoWorld with locks := [((0, 2), ⟨false, none⟩)] }
    let r := runBlock (demoCfg []) [.set 0 0 1 none, .set 0 1 2 none] w0
    (match r.1 with | .err .locked => true | _ => false) = true ∧
    r.2.locks = [((0, 2), ⟨false, none⟩)] ∧ r.2.counter = 7 ∧ r.2.ctx = none := by decide +kernel

/-! #### multi-key commands and a contending holder that releases its lock at a chosen moment -/

/-- locked mode, timeout 4, 3 lock attempts, a lock-step takes 1; the holder of lock key 2 of backend 0 releases it
just before command `rel` -/
def contCfg (faults : List Nat) (rel : Nat) : Cfg :=
  ⟨.locked, 4, 3, [], failsAt faults, 1, fun i => if i = rel then [(0, 2)] else [], fun _ => false, true⟩

/-- `set_many` over keys 0, 1, 2 (lock keys 1, 2, 3), then a `delete_many` -/
def contBody : List BodyCmd := [.setMany 0 [(0, 1), (1, 2), (2, 3)] none, .delMany 0 [2, 3]]

/-- lock key 2 is held by another open transaction -/
def contWorld : FWorld := { demoWorld with locks := [((0, 2), ⟨false, none⟩)] }

example : contWorld.ctx = none ∧ NoMine contWorld :=
  ⟨rfl, fun key e h => by
    simp only [contWorld, alLookup] at h
    split at h
    · cases h; rfl
    · cases h⟩

/-- never released: `set_lock` of key 2 is answered False three times (commands 1-3), `LockedError`; the lock taken
before (key 1) is released by the rollback (command 4), the foreign entry is untouched, three lock-steps passed -/
example :
    let r := runBlock (contCfg [] 99) contBody contWorld
    (match r.1 with | .err .locked => true | _ => false) = true ∧
    r.2.locks = [((0, 2), ⟨false, none⟩)] ∧ r.2.counter = 5 ∧ r.2.now = 3 ∧ r.2.ctx = none ∧
    r.2.data = demoWorld.data := by decide +kernel

/-- released between the first and the second attempt (before command 2): the second attempt succeeds, with a
lease counted from that moment; all of `set_many` and `delete_many` is applied by the commit, every lock is released -/
example :
    let r := runBlock (contCfg [] 2) contBody contWorld
    (match r.1 with | .ok _ => true | _ => false) = true ∧ r.2.locks = [] ∧ r.2.counter = 11 ∧ r.2.now = 1 ∧
    (⟨1, 0, .setLock 2 4, false⟩ : Ev) ∈ r.2.log ∧ (⟨2, 0, .setLock 2 4, false⟩ : Ev) ∈ r.2.log ∧
    r.2.data = [((0, 0), ⟨1, none⟩), ((0, 1), ⟨2, none⟩)] := by decide +kernel

/-- the witness of the class: the holder releases key 2 while the multi-key command waits for it, THEN the
`set_lock` of the next key (command 3) fails: both locks taken so far (one of them after waiting) are released by
the rollback, nothing is applied, nothing is left — also after any later release -/
example :
    let r := runBlock (contCfg [3] 2) contBody contWorld
    (match r.1 with | .err (.fault 3 .exception) => true | _ => false) = true ∧ r.2.locks = [] ∧ r.2.counter = 6 ∧
    r.2.data = demoWorld.data ∧ r.2.ctx = none ∧ envRel [(0, 2), (0, 3)] r.2.locks = [] := by decide +kernel

/-- the fault hits a retry of the blocked acquisition itself (command 2) and the unlock of the lock taken before
(command 3) fails too: that entry — and only that — is left, and a later release of the foreign lock does not change it -/
example :
    let r := runBlock (contCfg [2, 3] 99) contBody contWorld
    (match r.1 with | .err (.fault 3 .exception) => true | _ => false) = true ∧
    r.2.locks = [((0, 2), ⟨false, none⟩), ((0, 1), ⟨true, some 4⟩)] ∧
    envRel [(0, 2)] r.2.locks = [((0, 1), ⟨true, some 4⟩)] ∧ r.2.ctx = none := by decide +kernel

/-! #### TTLs are data: `expire`, `incr` with a ttl, conditional `set`; stores with deadlines -/

/-- key 1 of backend 0 lapses at 40, key 2 never -/
def ttlWorld : FWorld := { FWorld.init with data := [((0, 1), ⟨5, some 40⟩), ((0, 2), ⟨7, none⟩)] }

example : ttlWorld.ctx = none ∧ NoMine ttlWorld := ⟨rfl, fun _ _ h => by simp [ttlWorld, FWorld.init] at h⟩

/-- `expire` of a stored key the transaction has not written, then a `set`: no fault — the lock of key 1 (command 0), the
READ of its value (command 1: `get`, not `expire`), the lock of key 0; the commit writes the buffered copy with the new TTL
(`set_many` with expire 8) and the new key; nothing but reads and `set_lock`s before the body ends -/
example :
    let r := runBlock (demoCfg []) [.expire 0 1 8, .set 0 0 1 none] ttlWorld
    (match r.1 with | .ok _ => true | _ => false) = true ∧ r.2.counter = 7 ∧ r.2.locks = [] ∧
    r.2.data = [((0, 2), ⟨7, none⟩), ((0, 1), ⟨5, some 8⟩), ((0, 0), ⟨1, none⟩)] ∧
    (⟨1, 0, .get 1, false⟩ : Ev) ∈ r.2.log ∧ (⟨3, 0, .setMany [(1, 5)] (some 8), false⟩ : Ev) ∈ r.2.log := by
  decide +kernel

/-- the witness of the class of seeded change C16-8: the same body, the `set_lock` of the SECOND command (command 2) fails:
premise of `body_fault_keeps_values_and_deadlines`; key 1 still lapses at 40 (not at 8), the lock taken for `expire` is
released, only `set_lock` / `get` / `unlock` were sent -/
example :
    (∃ i, ttlWorld.counter ≤ i ∧ i < (runBody (demoCfg [2]) [.expire 0 1 8, .set 0 0 1 none] (entered ttlWorld)).2.counter ∧
      (demoCfg [2]).fails i = true) ∧
    (let r := runBlock (demoCfg [2]) [.expire 0 1 8, .set 0 0 1 none] ttlWorld
     (match r.1 with | .err (.fault 2 .exception) => true | _ => false) = true ∧ r.2.data = ttlWorld.data ∧
     entryView r.2 0 1 = some ⟨5, some 40⟩ ∧ r.2.locks = [] ∧
     r.2.log.map (·.cmd) = [.setLock 2 16, .get 1, .setLock 1 16, .unlock 2]) :=
  ⟨⟨2, by decide +kernel⟩, by decide +kernel⟩

/-- the class of seeded change C16-7 on `expire`: its own read (command 1) fails right after its lock was taken — the
lock is released by the rollback although nothing was buffered on that backend -/
example :
    let r := runBlock (demoCfg [1]) [.expire 0 1 8] ttlWorld
    (match r.1 with | .err (.fault 1 .exception) => true | _ => false) = true ∧ r.2.locks = [] ∧ r.2.counter = 3 ∧
    r.2.data = ttlWorld.data ∧ (⟨2, 0, .unlock 2, false⟩ : Ev) ∈ r.2.log := by decide +kernel

/-- … and on a conditional `set` (its `exists`, command 1) and on `incr` with a ttl (its `get`, command 1) -/
example :
    (runBlock (demoCfg [1]) [.setIf 0 1 9 none true] ttlWorld).2.locks = [] ∧
    (⟨1, 0, .has 1, true⟩ : Ev) ∈ (runBlock (demoCfg [1]) [.setIf 0 1 9 none true] ttlWorld).2.log ∧
    (runBlock (demoCfg [1]) [.incr 0 3 (some 8)] ttlWorld).2.locks = [] ∧
    (⟨1, 0, .get 3, true⟩ : Ev) ∈ (runBlock (demoCfg [1]) [.incr 0 3 (some 8)] ttlWorld).2.log := by decide +kernel

/-- `expire` in its three other situations: on a key written earlier in the transaction (the buffered entry gets the TTL: no
backend read), on a missing key (read, nothing buffered), on a key deleted earlier in the transaction (nothing at all);
then a conditional `set` that is refused (`exist=False` on a buffered key), one that goes through, and a counter created
with a ttl (the second `incr` keeps the deadline) -/
example :
    let body : List BodyCmd := [.set 0 0 1 none, .expire 0 0 4, .expire 0 3 4, .delete 0 2, .expire 0 2 4,
      .setIf 0 0 9 none false, .setIf 0 1 9 none true, .incr 0 3 (some 8), .incr 0 3 (some 2)]
    let r := runBlock { demoCfg [] with mode := .fast } body ttlWorld
    r.2.outs = [.bool true, .unit, .unit, .bool true, .unit, .bool false, .bool true, .int 1, .int 2] ∧
    r.2.log.map (·.cmd) = [.get 3, .has 1, .get 3, .deleteMany [2], .setMany [(0, 1)] (some 4), .setMany [(1, 9)] none,
      .setMany [(3, 2)] (some 8)] ∧
    r.2.data = [((0, 0), ⟨1, some 4⟩), ((0, 1), ⟨9, some 40⟩), ((0, 3), ⟨2, some 8⟩)] := by decide +kernel

/-- time matters: a TTL set by `expire` inside the transaction can run out before the commit (the buffered copy is then
deleted by the commit), and a failed body leaves the store's own deadline running: at instant 40 key 1 is gone either way -/
example :
    (runBlock (demoCfg []) [.expire 0 1 4, .adv 8] ttlWorld).2.data = [((0, 2), ⟨7, none⟩)] ∧
    (let r := runBlock (demoCfg []) [.expire 0 1 4, .adv 8, .raise] ttlWorld
     r.2.data = ttlWorld.data ∧ entryView r.2 0 1 = some ⟨5, some 40⟩ ∧ entryView { r.2 with now := 40 } 0 1 = none) := by
  decide +kernel

/-! #### nested blocks on shared context objects (`tx = cache.transaction(); async with tx: …; async with tx: …`) -/

/-- the outermost block is on shared object 0 and the body enters the SAME object again (and, inside that, an object of its
own), writes in every block and goes on after the inner blocks: one transaction — 3 `set_lock`s, the commit, 3 `unlock`s
when the OUTERMOST block is left; the object is idle again afterwards -/
example :
    let body : List BodyCmd := [.set 0 0 1 none, .block (some 0) [.set 0 1 2 none, .block none [.get 0 1]], .set 0 2 3 none]
    let r := runBlockOn (demoCfg []) (some 0) body demoWorld
    (match r.1 with | .ok _ => true | _ => false) = true ∧ r.2.ctx = none ∧ r.2.locks = [] ∧ r.2.counter = 7 ∧
    r.2.outs = [.bool true, .bool true, .val (some 2), .bool true] ∧ objOf r.2 0 = ⟨false, 0⟩ ∧
    r.2.log.map (·.cmd) = [.setLock 1 16, .setLock 2 16, .setLock 3 16, .setMany [(0, 1), (1, 2), (2, 3)] none,
      .unlock 1, .unlock 2, .unlock 3] := by decide +kernel

/-- the witness of the class of seeded change C16-10: a backend command of the OUTER body fails AFTER the inner block of the
same object was left (command 2, the `set_lock` of the third write): premises of `body_fault_applies_nothing` for the object
form; everything is rolled back — both locks released, nothing applied, no write sent, the task out of the transaction -/
example :
    let body : List BodyCmd := [.set 0 0 1 none, .block (some 0) [.set 0 1 2 none], .set 0 2 3 none]
    demoWorld.ctx = none ∧ ObjIdle demoWorld (some 0) ∧
    (∃ i, demoWorld.counter ≤ i ∧ i < (runBody (demoCfg [2]) body (enteredOn (some 0) demoWorld)).2.counter ∧
      (demoCfg [2]).fails i = true) ∧
    (let r := runBlockOn (demoCfg [2]) (some 0) body demoWorld
     (match r.1 with | .err (.fault 2 .exception) => true | _ => false) = true ∧ r.2.data = demoWorld.data ∧
     r.2.locks = [] ∧ r.2.ctx = none ∧ objOf r.2 0 = ⟨false, 0⟩ ∧
     r.2.log.map (·.cmd) = [.setLock 1 16, .setLock 2 16, .setLock 3 16, .unlock 1, .unlock 2]) :=
  ⟨rfl, fun i h => by cases h; rfl, ⟨2, by decide +kernel⟩, by decide +kernel⟩

/-- the same object open three times, the body raising inside the innermost block: both inner `__aexit__`s only take their
`_inner` back, the outermost one rolls back; and a shared object first entered INSIDE another object's transaction (the
decorator form builds an object of its own) is an inner block like any other -/
example :
    let body : List BodyCmd := [.block (some 0) [.set 0 0 1 none, .block (some 0) [.incr 0 1 none, .raise]], .delete 0 2]
    (let r := runBlockOn (demoCfg []) (some 0) body demoWorld
     (match r.1 with | .err .body => true | _ => false) = true ∧ r.2.data = demoWorld.data ∧ r.2.locks = [] ∧
     r.2.ctx = none ∧ objOf r.2 0 = ⟨false, 0⟩ ∧ r.2.counter = 5) ∧
    (let r := runBlock (demoCfg []) body demoWorld
     (match r.1 with | .err .body => true | _ => false) = true ∧ r.2.locks = [] ∧ r.2.ctx = none ∧ objOf r.2 0 = ⟨false, 0⟩) := by
  decide +kernel

/-! #### explicit `await tx.rollback()` / `await tx.commit()` in the middle of the body -/

/-- the witness of the class of seeded change C16-13: a write, an explicit rollback (commands 0-1: lock, unlock), another write
on the same backend (command 2: a NEW lock), then the body fails (command 3, a read): the rollback of `__aexit__` releases the
new lock (command 4), nothing is applied, the task is out of the transaction -/
example :
    let r := runBlock (demoCfg [3]) [.set 0 0 1 none, .rollback, .set 0 1 2 none, .get 0 3] demoWorld
    (match r.1 with | .err (.fault 3 .exception) => true | _ => false) = true ∧ r.2.locks = [] ∧ r.2.ctx = none ∧
    r.2.data = demoWorld.data ∧
    r.2.log.map (·.cmd) = [.setLock 1 16, .unlock 1, .setLock 2 16, .get 3, .unlock 2] := by decide +kernel

/-- the witness of the class of seeded change C16-14: an explicit commit (commands 0-2) applies the first write; the block goes
on INSIDE the transaction: the second write is buffered and locks again (command 3); the body fails (command 4): premises of
`failure_applies_nothing_since_last_commit` with `b1 = [set, commit]`; the store shows what the explicit commit applied and
nothing else, no lock is left -/
example :
    let b1 : List BodyCmd := [.set 0 0 1 none, .commit]
    let b2 : List BodyCmd := [.set 0 1 2 none, .get 0 3]
    hasCommitL b2 = false ∧ (runBody (demoCfg [4]) b1 (entered demoWorld)).1.isOk = true ∧
    (runBody (demoCfg [4]) (b1 ++ b2) (entered demoWorld)).1.isOk = false ∧
    (let r := runBlock (demoCfg [4]) (b1 ++ b2) demoWorld
     r.2.data = demoWorld.data ++ [((0, 0), ⟨1, none⟩)] ∧ r.2.data = (runBody (demoCfg [4]) b1 (entered demoWorld)).2.data ∧
     r.2.locks = [] ∧ r.2.ctx = none ∧
     r.2.log.map (·.cmd) = [.setLock 1 16, .setMany [(0, 1)] none, .unlock 1, .setLock 2 16, .get 3, .unlock 2]) := by
  decide +kernel

/-- an explicit rollback whose own unlock fails (command 1): the exception leaves the body, `__aexit__` rolls back with empty
`_locks` — exactly that lock is left, with its lease, excused by its own failed unlock -/
example :
    let r := runBlock (demoCfg [1]) [.set 0 0 1 none, .rollback, .set 0 1 2 none] demoWorld
    (match r.1 with | .err (.fault 1 .exception) => true | _ => false) = true ∧
    r.2.locks = [((0, 1), ⟨true, some 16⟩)] ∧ r.2.counter = 2 ∧ r.2.ctx = none := by decide +kernel

/-! #### failures of BaseException kind (`asyncio.CancelledError`: a command cut short by a time limit) -/

/-- the class of seeded change C16-4: the FIRST backend's commit is cut short (its `delete_many`, command 5, ends
with CancelledError).  `Transaction.commit` catches BaseException: backend 0's own locks go in its `finally`
(commands 6-8), backend 1 is rolled back and unlocked (command 9); nothing is left, nothing is applied, the caller
sees that very CancelledError -/
example :
    let r := runBlock (demoCfgB [5] [5] true) demoBody demoWorld
    (match r.1 with | .err (.fault 5 .baseException) => true | _ => false) = true ∧
    r.2.locks = [] ∧ r.2.counter = 10 ∧ r.2.ctx = none ∧ r.2.data = demoWorld.data ∧
    (⟨9, 1, .unlock 1, false⟩ : Ev) ∈ r.2.log ∧
    (r.2.log.filter fun ev => ev.failed && (match ev.cmd with | .unlock _ => true | _ => false)) = [] := by
  decide +kernel

/-- the class of defect D36 (N1), on the loop of /repo: the body raises after writing on two backends; the rollback's
unlock of lock key 2 of backend 0 (command 6) ends with CancelledError.  Its siblings of the same `gather` run (5, 7),
`_rollback` goes on: backend 1 is unlocked (command 8), the CancelledError is re-raised at the end; only the entry whose
own unlock failed is left -/
example :
    let r := runBlock (demoCfgB [6] [6] true) (demoBody ++ [.raise]) demoWorld
    (match r.1 with | .err (.fault 6 .baseException) => true | _ => false) = true ∧
    r.2.locks = [((0, 2), ⟨true, some 16⟩)] ∧ r.2.counter = 9 ∧ r.2.ctx = none ∧
    (⟨8, 1, .unlock 1, false⟩ : Ev) ∈ r.2.log ∧ r.2.data = demoWorld.data := by
  decide +kernel

/-- the same fault as an `Exception`: same commands, the caller sees the Exception -/
example :
    let r := runBlock (demoCfgB [6] [] true) (demoBody ++ [.raise]) demoWorld
    (match r.1 with | .err (.fault 6 .exception) => true | _ => false) = true ∧
    r.2.locks = [((0, 2), ⟨true, some 16⟩)] ∧ r.2.counter = 9 := by decide +kernel

/-- **Remark about the OLD loop of `Transaction._rollback`** (`except Exception` only, before repair 12f0cbb / D36;
`cfg.rbAll = false`): the full statement was FALSE of it — the hypothesis `cfg.rbAll = true` of
`locks_released_or_self_failed` cannot be dropped.  Witness (reproduced on the real code by
corpus/C16/N1_rollback_unlock_cancelled_other_backend_keeps_its_lock.json with 12f0cbb reverted): the run above with
the old loop — the CancelledError of command 6 leaves `_rollback`, backend 1 is never unlocked (8 commands in all), its
lock `(1, 1)` stays with its full lease although no unlock of it was ever issued. -/
theorem old_rollback_loop_left_locks :
    ∃ (cfg : Cfg) (body : List BodyCmd) (w : FWorld), cfg.rbAll = false ∧ w.ctx = none ∧ NoMine w ∧
      ∃ b lk e, alLookup (runBlock cfg body w).2.locks (b, lk) = some e ∧ e.mine = true ∧
        ¬ OwnUnlockFailed cfg w (runBlock cfg body w).2 b lk := by
  refine ⟨demoCfgB [6] [6] false, demoBody ++ [.raise], demoWorld, rfl, rfl,
    fun _ _ h => by simp [demoWorld, FWorld.init] at h, 1, 1, ⟨true, some 16⟩, by decide +kernel, rfl, ?_⟩
  rintro ⟨i, _, _, _, hmem⟩
  have hno : ∀ ev ∈ (runBlock (demoCfgB [6] [6] false) (demoBody ++ [.raise]) demoWorld).2.log,
      ¬ (ev.b = 1 ∧ ev.cmd = .unlock 1) := by decide +kernel
  exact hno _ hmem ⟨rfl, rfl⟩

/-- … and what that run looked like -/
example :
    let r := runBlock (demoCfgB [6] [6] false) (demoBody ++ [.raise]) demoWorld
    (match r.1 with | .err (.fault 6 .baseException) => true | _ => false) = true ∧
    r.2.locks = [((1, 1), ⟨true, some 16⟩), ((0, 2), ⟨true, some 16⟩)] ∧ r.2.counter = 8 ∧ r.2.ctx = none := by
  decide +kernel

/-- the first exception of a `gather` decides (seen on the OLD loop): unlock 5 fails with an `Exception`, its sibling 6
with a CancelledError — the awaiter gets the Exception, `_rollback` goes on; the other way round it was left -/
example :
    (runBlock (demoCfgB [5, 6] [6] false) (demoBody ++ [.raise]) demoWorld).2.counter = 9 ∧
    (runBlock (demoCfgB [5, 6] [5] false) (demoBody ++ [.raise]) demoWorld).2.counter = 8 := by decide +kernel

/-- three backends, commit: backend 0's `set_many` (command 3) fails with an Exception, the rollback of backend 1 is
cut short (its unlock, command 5, CancelledError): the caller sees the CancelledError (it replaces the commit's
exception), backend 2 kept its lock with the OLD loop and is unlocked by the loop of /repo -/
example :
    let body : List BodyCmd := [.set 0 0 1 none, .set 1 0 1 none, .set 2 0 1 none]
    let r := runBlock (demoCfgB [3, 5] [5] false) body demoWorld
    let r' := runBlock (demoCfgB [3, 5] [5] true) body demoWorld
    (match r.1 with | .err (.fault 5 .baseException) => true | _ => false) = true ∧
    r.2.locks = [((1, 1), ⟨true, some 16⟩), ((2, 1), ⟨true, some 16⟩)] ∧
    (match r'.1 with | .err (.fault 5 .baseException) => true | _ => false) = true ∧
    r'.2.locks = [((1, 1), ⟨true, some 16⟩)] := by decide +kernel

end CashewsVerif.Props.C16
