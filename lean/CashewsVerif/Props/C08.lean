import CashewsVerif.Lemmas.KeyPerm
import CashewsVerif.Lemmas.KeyUtf8
/-
C08 — cache keys are canonical per bound arguments and separate different arguments.
Property theorems only; helper lemmas live in `Lemmas/Key.lean`, the model in `Model/Key.lean`.

What the statements cover and what they exclude (and why):
* signatures are arbitrary lists of parameters (positional-or-keyword, keyword-only, `*args`,
  `**kwargs`, with or without defaults) — not even well-formedness is assumed; positional-only
  parameters are not modelled;
* templates consist of literal text and plain `{name}` fields; format specs, conversions and
  attribute / index lookups are not modelled;
* separation is stated for templates whose consecutive fields are separated by a literal that
  contains ':' (without that no separation is possible: `unseparated_template_collides`), for field
  texts without ':' (with it: `colon_in_text_collides`), and — in the typed corollary — for values
  of one type among str / int / bool / None / bytes of equal UTF-8 validity (`Distinguishable`).
  A valid-UTF-8 bytes value against an invalid one is excluded because the code's rendering of bytes
  is not injective there (`bytes_rendering_collides`, `bytes_collisions_are_mixed`: known finding);
  tuples and dicts with more than one element always contain ':' and are outside the property's
  domain.  Non-emptiness of the texts, which the property's wording also grants, is not needed;
* text is `List Char` — arbitrary sequences of Unicode scalar values; a `str` value is its own field
  text (`str_text_is_identity`, `str_items_text_is_identity`), so two strings that differ as
  sequences of code points get different keys however alike they look
  (`key_separates_different_text`, `one_text_argument_keys_differ`).  Lone surrogates, which a
  Python `str` can hold, are not `Char`s and are outside the model.
-/
namespace CashewsVerif.Props.C08
open CashewsVerif.KeyModel

/-! ### part 1: the key depends only on the bound arguments -/

/-- **Canonical per bound arguments.**  For every signature, every template, every key context:
a call that binds gets the key `render template (values of its bound arguments after defaults)` —
whichever of the two code paths of `_get_call_values` it takes (`bind` for calls with positional
arguments, `bind_partial` for keyword-only calls). -/
theorem key_is_function_of_bound (sig : Sig) (t : Tmpl) (ctx : Ctx) (c : Call) (b : Bound)
    (h : boundArgs sig c = some b) :
    cacheKey sig t ctx c = some (render t (withCtx ctx (valuesOf b))) := by
  unfold boundArgs at h
  cases hb : bind false sig c with
  | none => simp [hb] at h
  | some b0 =>
    simp only [hb, Option.map_some, Option.some.injEq] at h
    unfold cacheKey
    rw [callValues_of_bind sig c b0 hb, h]
    rfl

/-- **Same bound arguments, same key.**  Two calls — written positionally, by keyword, with
defaulted parameters omitted or spelled out, in any mixture — whose bound arguments after
`apply_defaults` coincide get the same key; for every signature, template and key context. -/
theorem key_depends_only_on_bound (sig : Sig) (t : Tmpl) (ctx : Ctx) (c₁ c₂ : Call)
    (h : boundArgs sig c₁ = boundArgs sig c₂) (hb : boundArgs sig c₁ ≠ none) :
    cacheKey sig t ctx c₁ = cacheKey sig t ctx c₂ := by
  cases h1 : boundArgs sig c₁ with
  | none => exact absurd h1 hb
  | some b =>
    rw [key_is_function_of_bound sig t ctx c₁ b h1, key_is_function_of_bound sig t ctx c₂ b (h ▸ h1)]

/-- `def f(a, b=5, *, c=None)` — the signature of defect D15 -/
def sigD15 : Sig :=
  [{ name := ['a'], kind := .pos }, { name := ['b'], kind := .pos, dflt := some (.int 5) },
   { name := ['c'], kind := .kwOnly, dflt := some .none }]

def tmplD15 : Tmpl := autoTemplate ['m'] ['f'] ['f'] [] sigD15

/-- non-vacuity: `f(1)`, `f(a=1)`, `f(1, 5)`, `f(b=5, a=1, c=None)` bind alike (and do bind) … -/
example : boundArgs sigD15 ⟨[.int 1], []⟩ = boundArgs sigD15 ⟨[], [(['a'], .int 1)]⟩ ∧
    boundArgs sigD15 ⟨[.int 1], []⟩ = boundArgs sigD15 ⟨[.int 1, .int 5], []⟩ ∧
    boundArgs sigD15 ⟨[.int 1], []⟩ =
      boundArgs sigD15 ⟨[], [(['b'], .int 5), (['a'], .int 1), (['c'], .none)]⟩ ∧
    boundArgs sigD15 ⟨[.int 1], []⟩ =
      some [(['a'], .one (.int 1)), (['b'], .one (.int 5)), (['c'], .one .none)] :=
  ⟨rfl, rfl, rfl, rfl⟩

/-- … and the model computes the key the repaired code computes (D15: before c02b738 the keyword
form was keyed `m:f:a:1:b::c:`) -/
example : cacheKey sigD15 tmplD15 {} ⟨[], [(['a'], .int 1)]⟩ = some "m:f:a:1:b:5:c:None".toList := by decide

example : tmplD15.toFormat = "m:f:a:{a}:b:{b}:c:{c}".toList := by decide

/-- an unbindable keyword-only call is still keyed (raw-kwargs fallback), an unbindable positional
call raises -/
example : cacheKey sigD15 tmplD15 {} ⟨[], [(['z'], .int 1)]⟩ = some "m:f:a::b::c:".toList ∧
    cacheKey sigD15 tmplD15 {} ⟨[.int 1], [(['z'], .int 1)]⟩ = none := by decide

/-! ### part 1, call forms: the rewritings that connect the forms of one call keep the bound arguments -/

/-- **A defaulted parameter may be left out.**  For every signature with distinct parameter names:
dropping the keyword argument of a positional-or-keyword or keyword-only parameter whose value is
that parameter's default does not change the key (any template, any key context, any other
arguments). -/
theorem key_same_when_default_omitted (sig : Sig) (hnd : (sig.map (·.name)).Nodup) (t : Tmpl) (ctx : Ctx)
    (args : List PyVal) (kw : Dict) (p : Param) (hp : p ∈ sig) (hk : p.kind = .pos ∨ p.kind = .kwOnly)
    (v : PyVal) (hdf : p.dflt = some v) (hkw : get? kw p.name = some v)
    (hb : boundArgs sig ⟨args, kw⟩ ≠ none) :
    cacheKey sig t ctx ⟨args, erase kw p.name⟩ = cacheKey sig t ctx ⟨args, kw⟩ := by
  have e := boundArgs_omit_default sig hnd args kw p hp hk v hdf hkw hb
  exact key_depends_only_on_bound sig t ctx _ _ e (e ▸ hb)

/-- **Positional or by keyword.**  `f(x₁ … xₖ, a, **kw)` and `f(x₁ … xₖ, p=a, **kw)` — the last
positional argument written as a keyword argument instead (inserted anywhere among the keyword
arguments), `p` being the positional-or-keyword parameter it lands on — get the same key.  Applied
repeatedly this connects the fully positional form of a call with its fully keyword form; together
with `key_same_when_default_omitted` and `key_same_when_keyword_arguments_reordered` it covers the
forms the property lists. -/
theorem key_same_when_positional_written_as_keyword (pre post : List Param) (p : Param) (t : Tmpl) (ctx : Ctx)
    (as : List PyVal) (a : PyVal) (kw kw' : Dict)
    (hlen : pre.length = as.length) (hpre : ∀ q ∈ pre, q.kind = .pos) (hp : p.kind = .pos)
    (hnd : ∀ q ∈ pre, q.name ≠ p.name)
    (hk1 : get? kw' p.name = some a) (hk2 : erase kw' p.name = kw)
    (hb : boundArgs (pre ++ p :: post) ⟨as ++ [a], kw⟩ ≠ none) :
    cacheKey (pre ++ p :: post) t ctx ⟨as, kw'⟩ = cacheKey (pre ++ p :: post) t ctx ⟨as ++ [a], kw⟩ := by
  have hb' : bind false (pre ++ p :: post) ⟨as ++ [a], kw⟩ ≠ none := by
    intro h; simp [boundArgs, h] at hb
  have e : boundArgs (pre ++ p :: post) ⟨as, kw'⟩ = boundArgs (pre ++ p :: post) ⟨as ++ [a], kw⟩ := by
    unfold boundArgs
    rw [bind_last_positional_as_keyword pre post p as a kw kw' hlen hpre hp hnd hk1 hk2 hb']
  exact key_depends_only_on_bound _ t ctx _ _ e (e ▸ hb)

/-- **Keyword arguments in any order.**  A call passes its keyword arguments as a dict; permuting them
(distinct names) does not change the key — for every signature, template and key context, whether the
call binds or not.  (The bound `**kwargs` dict comes out permuted; the formatter sorts it.) -/
theorem key_same_when_keyword_arguments_reordered (sig : Sig) (t : Tmpl) (ctx : Ctx) (as : List PyVal)
    (kw₁ kw₂ : Dict) (hp : kw₁.Perm kw₂) (hnd : (keys kw₁).Nodup) :
    cacheKey sig t ctx ⟨as, kw₁⟩ = cacheKey sig t ctx ⟨as, kw₂⟩ :=
  cacheKey_perm_kwargs sig t ctx as kw₁ kw₂ hp hnd

/-- a dict *argument* has the same field text in every insertion order (Python's `==` on dicts ignores
the order, and so does the formatter: it sorts the items) -/
theorem dict_text_same_in_any_insertion_order (l₁ l₂ : Dict) (hp : l₁.Perm l₂) (hnd : (keys l₁).Nodup) :
    typeFmt (.dict l₁) = typeFmt (.dict l₂) ∧ fmtField (.dict l₁) = fmtField (.dict l₂) :=
  dict_text_perm l₁ l₂ hp hnd

/-- **A set argument has one text whatever order it iterates in** (D50): the texts of the elements are
sorted before they are joined, so two lists of elements that are permutations of each other — the same
Python set built in another order — render alike on both formatter paths.  (Like for dicts: proved for
the rendered text of a top-level set; the lift to whole calls rests on the correspondence.) -/
theorem set_text_same_in_any_iteration_order (l₁ l₂ : List PyVal) (hp : l₁.Perm l₂) :
    typeFmt (.set l₁) = typeFmt (.set l₂) ∧ fmtField (.set l₁) = fmtField (.set l₂) :=
  set_text_perm l₁ l₂ hp

/-- `{1, 9}` and `{9, 1}` are both `1:9`; elements whose texts coincide stay both (`{1, '1'}` is `1:1`) -/
example : typeFmt (.set [.int 9, .int 1]) = "1:9".toList ∧ typeFmt (.set [.int 1, .int 9]) = "1:9".toList ∧
    typeFmt (.set [.str ['1'], .int 1]) = "1:1".toList ∧ typeFmt (.set []) = [] ∧
    cacheKey [{ name := ['a'], kind := .pos }] (autoTemplate ['m'] ['f'] ['f'] [] [{ name := ['a'], kind := .pos }]) {}
      ⟨[.set [.str ['b'], .str ['a']]], []⟩ = some "m:f:a:a:b".toList := by decide

/-- non-vacuity: `def f(**kw)`: `f(x=1, y=2)` and `f(y=2, x=1)`; the key is `m:f:x:1:y:2` -/
example : cacheKey [{ name := ['k', 'w'], kind := .varKw }] [.lit ['m'], .field KWARGS] {}
      ⟨[], [(['y'], .int 2), (['x'], .int 1)]⟩ =
    cacheKey [{ name := ['k', 'w'], kind := .varKw }] [.lit ['m'], .field KWARGS] {}
      ⟨[], [(['x'], .int 1), (['y'], .int 2)]⟩ :=
  key_same_when_keyword_arguments_reordered _ _ _ _ _ _ (List.Perm.swap _ _ _) (by decide)

example : cacheKey [{ name := ['k', 'w'], kind := .varKw }] [.lit ['m'], .field KWARGS] {}
      ⟨[], [(['y'], .int 2), (['x'], .int 1)]⟩ = some "mx:1:y:2".toList := by decide

/-- non-vacuity: `f(1, b=5)` → `f(1)` and `f(1)` → `f(a=1)` on the D15 signature satisfy the premises -/
example : cacheKey sigD15 tmplD15 {} ⟨[.int 1], erase [(['b'], .int 5)] ['b']⟩ =
    cacheKey sigD15 tmplD15 {} ⟨[.int 1], [(['b'], .int 5)]⟩ :=
  key_same_when_default_omitted sigD15 (by decide) tmplD15 {} [.int 1] [(['b'], .int 5)]
    { name := ['b'], kind := .pos, dflt := some (.int 5) } (by simp [sigD15]) (Or.inl rfl) (.int 5) rfl rfl
    (by intro h; cases h)

example : cacheKey sigD15 tmplD15 {} ⟨[], [(['a'], .int 1)]⟩ = cacheKey sigD15 tmplD15 {} ⟨[] ++ [.int 1], []⟩ :=
  key_same_when_positional_written_as_keyword [] _ { name := ['a'], kind := .pos } tmplD15 {} [] (.int 1) []
    [(['a'], .int 1)] rfl (by simp) rfl (by simp) rfl rfl (by intro h; cases h)

/-! ### part 2: separation -/

/-- **Separated templates are injective on ':'-free field texts.**  On a template whose consecutive
fields are separated by a literal containing ':', two value dicts whose rendered field texts contain
no ':' and that differ in the text of a field the template mentions are rendered differently —
whichever formatter path (fast / slow) each of them takes.  Proof: induction over the template; the
first ':' after the start of a field belongs to the separator. -/
theorem key_separates (t : Tmpl) (hs : separated t = true) (vals₁ vals₂ : Dict)
    (h₁ : ∀ n ∈ t.fields, ':' ∉ fieldText (fastPath t vals₁) vals₁ n)
    (h₂ : ∀ n ∈ t.fields, ':' ∉ fieldText (fastPath t vals₂) vals₂ n)
    (p : Str) (hp : p ∈ t.fields)
    (hd : fieldText (fastPath t vals₁) vals₁ p ≠ fieldText (fastPath t vals₂) vals₂ p) :
    render t vals₁ ≠ render t vals₂ := by
  intro h
  exact hd (renderWith_injective _ _ t hs h₁ h₂ h p hp)

/-- **Generated templates are separated** — for every signature, prefix and exclusion list. -/
theorem auto_template_separated (mod name qual : Str) (excl : List Str) (sig : Sig) :
    separated (autoTemplate mod name qual excl sig) = true := by
  simp [separated, autoTemplate, sepAux, sepAux_autoItems]

/-- **Generated templates mention every parameter** (so a difference in any parameter is a
difference in a mentioned field). -/
theorem auto_template_mentions_every_parameter (mod name qual : Str) (sig : Sig) :
    (autoTemplate mod name qual [] sig).fields = sig.map paramKey := by
  simp [autoTemplate, Tmpl.fields, fields_autoItems_nil]

/-- **Exclusion is by whole names.**  The generated template mentions exactly the parameters whose
name (as a whole string) is not in the exclusion list — a parameter called `s`, `e`, `l`, `f`, `se`,
`elf` ... is not touched by excluding `self`. -/
theorem auto_template_mentions_exactly_the_unexcluded (mod name qual : Str) (excl : List Str) (sig : Sig) :
    (autoTemplate mod name qual excl sig).fields = (sig.map paramKey).filter (fun n => !(excl.contains n)) := by
  have h : ∀ sig : Sig, Tmpl.fields (autoItems excl sig) = (sig.map paramKey).filter (fun n => !(excl.contains n)) := by
    intro sig
    induction sig with
    | nil => simp [autoItems, Tmpl.fields]
    | cons p r ih =>
      unfold autoItems
      by_cases hp : paramKey p ∈ excl
      · simp [hp, ih]
      · simp only [hp, if_false, List.map_cons]
        cases hk : p.kind <;> simp [paramKey, hk] at hp <;> simp [Tmpl.fields, ih, paramKey, hk, hp]
  simp [autoTemplate, Tmpl.fields, h]

/-- **`noself` drops the receiver and nothing else**: the template `noself` hands to the decorator
mentions every parameter except the one named exactly `self` (and is separated, like every generated
template), so calls that differ in any other parameter are still told apart. -/
theorem noself_template_mentions_all_but_self (mod name qual : Str) (sig : Sig) :
    separated (noselfTemplate mod name qual sig) = true ∧
    ∀ p ∈ sig, paramKey p ≠ SELF → paramKey p ∈ (noselfTemplate mod name qual sig).fields := by
  refine ⟨auto_template_separated _ _ _ _ _, ?_⟩
  intro p hp hne
  rw [noselfTemplate, auto_template_mentions_exactly_the_unexcluded]
  simp only [List.mem_filter, List.mem_map]
  exact ⟨⟨p, hp, rfl⟩, by simpa using hne⟩

/-- `def read(self, f, e)`: `noself` keeps `f` and `e` -/
example : (noselfTemplate ['m'] ['r'] ['K', '.', 'r']
      [{ name := SELF, kind := .pos }, { name := ['f'], kind := .pos }, { name := ['e'], kind := .pos }]).toFormat =
    "m:K.r:f:{f}:e:{e}".toList := by decide

/-- **Values of one type render differently** — for str, int, bool and None the field text
determines the value. (`bytes` is the exception: `bytes_rendering_collides`.) -/
theorem text_injective_one_type (v₁ v₂ : PyVal) (hty : v₁.type = v₂.type)
    (hsc : v₁.type = .str ∨ v₁.type = .int ∨ v₁.type = .bool ∨ v₁.type = .none)
    (h : typeFmt v₁ = typeFmt v₂) : v₁ = v₂ := by
  cases v₁ <;> cases v₂ <;> simp [PyVal.type] at hty hsc
  · simpa [typeFmt] using h
  · simp only [typeFmt] at h
    rw [intText_injective _ _ h]
  · rename_i a b
    cases a <;> cases b <;> simp [typeFmt] at h ⊢
  · rfl

/-- **A `str` is rendered as itself** (`_decode_direct`): for every string — any length, any code
points; a Lean `Char` is a Unicode scalar value, so precomposed and decomposed forms, compatibility
characters, case variants, white space, zero-width and control characters, non-BMP characters are
simply different lists — the field text is the string, on both formatter paths (`_type_format` on
the `str.format` fast path, `_format_field` on the slow path and inside containers).  No
normalisation, no case folding, no trimming, no re-encoding. -/
theorem str_text_is_identity (s : Str) : typeFmt (.str s) = s ∧ fmtField (.str s) = s := by
  constructor <;> simp [typeFmt, fmtField]

/-- the same one level down: a tuple (or `*args` tail) of strings renders as the strings joined by
':', a dict (or `**kwargs`) of strings as its `key:string` items in key order — the strings
themselves unchanged -/
theorem str_items_text_is_identity (ss : List Str) (kvs : List (Str × Str)) :
    typeFmt (.tuple (ss.map .str)) = joinColon ss ∧
    typeFmt (.dict (kvs.map fun kv => (kv.1, .str kv.2))) =
      joinColon ((sortKey kvs).map fun kv => kv.1 ++ ':' :: kv.2) := by
  have hl : ∀ l : List Str, fmtList (l.map .str) = l := by
    intro l
    induction l with
    | nil => simp [fmtList]
    | cons a r ih => simp [fmtList, fmtField, ih]
  have hd : ∀ l : List (Str × Str), fmtItems (l.map fun kv => (kv.1, .str kv.2)) = l := by
    intro l
    induction l with
    | nil => simp [fmtItems]
    | cons a r ih => simp [fmtItems, fmtField, ih]
  constructor
  · simp [typeFmt, hl]
  · simp [typeFmt, hd]

/-- bytes that are *not* valid UTF-8 are told apart among themselves (hex is injective) -/
theorem undecodable_bytes_injective (xs ys : List Nat) (hx : ∀ b ∈ xs, b < 256) (hy : ∀ b ∈ ys, b < 256)
    (ux : utf8Decode xs = none) (uy : utf8Decode ys = none)
    (h : typeFmt (.bytes xs) = typeFmt (.bytes ys)) : xs = ys := by
  simp only [typeFmt, decodeBytes, ux, uy] at h
  exact hexOf_injective xs ys hx hy h

/-- **Which bytes values collide.**  Two different bytes values have the same text only if exactly
one of them is valid UTF-8 (the other one is rendered as hex): among decodable values, and among
undecodable ones, the rendering is injective.  This is the exact shape of the known finding. -/
theorem bytes_collisions_are_mixed (xs ys : List Nat) (hx : ∀ b ∈ xs, b < 256) (hy : ∀ b ∈ ys, b < 256)
    (hne : xs ≠ ys) (h : typeFmt (.bytes xs) = typeFmt (.bytes ys)) :
    (utf8Decode xs).isSome ≠ (utf8Decode ys).isSome := by
  cases ux : utf8Decode xs with
  | none =>
    cases uy : utf8Decode ys with
    | none => exact absurd (undecodable_bytes_injective xs ys hx hy ux uy h) hne
    | some _ => simp
  | some s =>
    cases uy : utf8Decode ys with
    | none => simp
    | some s' =>
      simp only [typeFmt, decodeBytes, ux, uy] at h
      subst h
      exact absurd (utf8Decode_injective xs ys s ux uy) hne

/-- "two different values of one type" for which the code keeps its promise: str, int, bool, None,
and bytes values that are both valid UTF-8 or both not -/
def Distinguishable (v₁ v₂ : PyVal) : Prop :=
  v₁ ≠ v₂ ∧ v₁.type = v₂.type ∧
    (v₁.type = .str ∨ v₁.type = .int ∨ v₁.type = .bool ∨ v₁.type = .none ∨
      ∃ xs ys, v₁ = .bytes xs ∧ v₂ = .bytes ys ∧ (∀ b ∈ xs, b < 256) ∧ (∀ b ∈ ys, b < 256) ∧
        (utf8Decode xs).isSome = (utf8Decode ys).isSome)

/-- distinguishable values have different field texts -/
theorem text_differs_of_distinguishable (v₁ v₂ : PyVal) (h : Distinguishable v₁ v₂) :
    typeFmt v₁ ≠ typeFmt v₂ := by
  obtain ⟨hne, hty, hc⟩ := h
  intro e
  rcases hc with h | h | h | h | ⟨xs, ys, rfl, rfl, hx, hy, hu⟩
  · exact hne (text_injective_one_type v₁ v₂ hty (Or.inl h) e)
  · exact hne (text_injective_one_type v₁ v₂ hty (Or.inr (Or.inl h)) e)
  · exact hne (text_injective_one_type v₁ v₂ hty (Or.inr (Or.inr (Or.inl h))) e)
  · exact hne (text_injective_one_type v₁ v₂ hty (Or.inr (Or.inr (Or.inr h))) e)
  · exact bytes_collisions_are_mixed xs ys hx hy (fun h => hne (by rw [h])) e hu

/-- **Call-level separation.**  Signature arbitrary, template separated, key context without the
deprecated `rewrite`; two calls that bind; every field of the template is a bound value whose text
has no ':'; a mentioned parameter `p` holds two different values of one type — str, int, bool, None,
or bytes of the same UTF-8 validity.  Then the keys differ: a result cached for one argument tuple is
not returned for the other. -/
theorem key_separates_calls (sig : Sig) (t : Tmpl) (hs : separated t = true) (ctx : Ctx)
    (hctx : ctx.rewrite = false) (c₁ c₂ : Call) (b₁ b₂ : Bound)
    (hb₁ : boundArgs sig c₁ = some b₁) (hb₂ : boundArgs sig c₂ = some b₂)
    (hdom : ∀ n ∈ t.fields, ∃ v₁ v₂, get? (valuesOf b₁) n = some v₁ ∧ get? (valuesOf b₂) n = some v₂ ∧
      ':' ∉ typeFmt v₁ ∧ ':' ∉ typeFmt v₂)
    (p : Str) (hp : p ∈ t.fields) (v₁ v₂ : PyVal)
    (hv₁ : get? (valuesOf b₁) p = some v₁) (hv₂ : get? (valuesOf b₂) p = some v₂)
    (hd : Distinguishable v₁ v₂) :
    cacheKey sig t ctx c₁ ≠ cacheKey sig t ctx c₂ := by
  rw [key_is_function_of_bound sig t ctx c₁ b₁ hb₁, key_is_function_of_bound sig t ctx c₂ b₂ hb₂]
  -- lookups of template fields hit the call's own values (they win over the context)
  have look : ∀ (b : Bound) (n : Str) (v : PyVal), get? (valuesOf b) n = some v →
      get? (withCtx ctx (valuesOf b)) n = some v := by
    intro b n v hv
    simp [withCtx, hctx, get?_append, hv]
  have fast : ∀ (b : Bound), (∀ n ∈ t.fields, ∃ v, get? (valuesOf b) n = some v) →
      fastPath t (withCtx ctx (valuesOf b)) = true := by
    intro b hall
    simp only [fastPath, List.all_eq_true]
    intro n hn
    obtain ⟨v, hv⟩ := hall n hn
    simp [look b n v hv]
  have f₁ := fast b₁ (fun n hn => by obtain ⟨v₁, _, h, _⟩ := hdom n hn; exact ⟨v₁, h⟩)
  have f₂ := fast b₂ (fun n hn => by obtain ⟨_, v₂, _, h, _⟩ := hdom n hn; exact ⟨v₂, h⟩)
  have txt : ∀ (b : Bound) (n : Str) (v : PyVal), get? (valuesOf b) n = some v →
      fieldText true (withCtx ctx (valuesOf b)) n = typeFmt v := by
    intro b n v hv
    simp [fieldText, look b n v hv]
  intro h
  refine key_separates t hs _ _ ?_ ?_ p hp ?_ (Option.some.inj h)
  · intro n hn
    obtain ⟨w₁, _, hw₁, _, hc, _⟩ := hdom n hn
    rw [f₁, txt b₁ n w₁ hw₁]; exact hc
  · intro n hn
    obtain ⟨_, w₂, _, hw₂, _, hc⟩ := hdom n hn
    rw [f₂, txt b₂ n w₂ hw₂]; exact hc
  · rw [f₁, f₂, txt b₁ p v₁ hv₁, txt b₂ p v₂ hv₂]
    exact text_differs_of_distinguishable v₁ v₂ hd

/-- non-vacuity of `key_separates_calls`: `f(1)` and `f(a=2)` of `def f(a, b=5, *, c=None)` satisfy
every premise (generated template, all texts ':'-free, `a` differs within type int) -/
example : cacheKey sigD15 tmplD15 {} ⟨[.int 1], []⟩ ≠ cacheKey sigD15 tmplD15 {} ⟨[], [(['a'], .int 2)]⟩ := by
  refine key_separates_calls sigD15 tmplD15 (auto_template_separated _ _ _ _ _) {} rfl _ _
    [(['a'], .one (.int 1)), (['b'], .one (.int 5)), (['c'], .one .none)]
    [(['a'], .one (.int 2)), (['b'], .one (.int 5)), (['c'], .one .none)] rfl rfl ?_
    ['a'] (by decide) (.int 1) (.int 2) rfl rfl ⟨(by intro h; cases h), rfl, Or.inr (Or.inl rfl)⟩
  intro n hn
  have : n = ['a'] ∨ n = ['b'] ∨ n = ['c'] := by
    have hf : tmplD15.fields = [['a'], ['b'], ['c']] := by decide
    rw [hf] at hn
    simpa using hn
  rcases this with rfl | rfl | rfl
  · exact ⟨.int 1, .int 2, rfl, rfl, by decide, by decide⟩
  · exact ⟨.int 5, .int 5, rfl, rfl, by decide, by decide⟩
  · exact ⟨.none, .none, rfl, rfl, by decide, by decide⟩

/-- **Different texts, different keys.**  `key_separates_calls` for `str` values: whenever a
mentioned parameter holds the strings `s₁` and `s₂` in the two calls and `s₁ ≠ s₂` *as sequences of
code points*, the keys differ — however alike the two strings look (canonically or compatibility
equivalent, equal up to case, to white space at the ends, to a zero-width character ...).  Any
renderer of `str` that identifies two different strings contradicts this. -/
theorem key_separates_different_text (sig : Sig) (t : Tmpl) (hs : separated t = true) (ctx : Ctx)
    (hctx : ctx.rewrite = false) (c₁ c₂ : Call) (b₁ b₂ : Bound)
    (hb₁ : boundArgs sig c₁ = some b₁) (hb₂ : boundArgs sig c₂ = some b₂)
    (hdom : ∀ n ∈ t.fields, ∃ v₁ v₂, get? (valuesOf b₁) n = some v₁ ∧ get? (valuesOf b₂) n = some v₂ ∧
      ':' ∉ typeFmt v₁ ∧ ':' ∉ typeFmt v₂)
    (p : Str) (hp : p ∈ t.fields) (s₁ s₂ : Str)
    (hv₁ : get? (valuesOf b₁) p = some (.str s₁)) (hv₂ : get? (valuesOf b₂) p = some (.str s₂))
    (hne : s₁ ≠ s₂) :
    cacheKey sig t ctx c₁ ≠ cacheKey sig t ctx c₂ :=
  key_separates_calls sig t hs ctx hctx c₁ c₂ b₁ b₂ hb₁ hb₂ hdom p hp (.str s₁) (.str s₂) hv₁ hv₂
    ⟨fun h => hne (by injection h), rfl, Or.inl rfl⟩

/-- the smallest instance, fully explicit: `def f(a)` under its generated template keys `f(s₁)` and
`f(s₂)` differently for any two different ':'-free strings -/
theorem one_text_argument_keys_differ (mod name qual : Str) (s₁ s₂ : Str)
    (h₁ : ':' ∉ s₁) (h₂ : ':' ∉ s₂) (hne : s₁ ≠ s₂) :
    cacheKey [{ name := ['a'], kind := .pos }] (autoTemplate mod name qual [] [{ name := ['a'], kind := .pos }]) {}
        ⟨[.str s₁], []⟩ ≠
      cacheKey [{ name := ['a'], kind := .pos }] (autoTemplate mod name qual [] [{ name := ['a'], kind := .pos }]) {}
        ⟨[.str s₂], []⟩ := by
  have hf : (autoTemplate mod name qual [] [{ name := ['a'], kind := .pos }]).fields = [['a']] := by
    rw [auto_template_mentions_every_parameter]; rfl
  refine key_separates_different_text _ _ (auto_template_separated _ _ _ _ _) {} rfl _ _
    [(['a'], .one (.str s₁))] [(['a'], .one (.str s₂))] rfl rfl ?_ ['a'] (by rw [hf]; simp) s₁ s₂ rfl rfl hne
  intro n hn
  rw [hf] at hn
  have : n = ['a'] := by simpa using hn
  subst this
  exact ⟨.str s₁, .str s₂, rfl, rfl, by simpa [typeFmt] using h₁, by simpa [typeFmt] using h₂⟩

/-- look-alike strings are different strings with different keys: precomposed / decomposed e-acute
(U+00E9 / U+0065 U+0301), A-ring / ANGSTROM SIGN (U+00C5 / U+212B), the ligature U+FB01 / `fi`,
full-width / ASCII digits, case, a trailing space, a zero-width space (U+200B), two non-BMP
characters -/
example :
    let key (s : Str) := cacheKey [{ name := ['a'], kind := .pos }]
      (autoTemplate ['m'] ['f'] ['f'] [] [{ name := ['a'], kind := .pos }]) {} ⟨[.str s], []⟩
    key ['c', 'a', 'f', '\u00e9'] ≠ key ['c', 'a', 'f', 'e', '\u0301'] ∧
    key ['c', 'a', 'f', 'e', '\u0301'] = some ("m:f:a:cafe".toList ++ ['\u0301']) ∧
    key ['\u00c5'] ≠ key ['\u212b'] ∧ key ['\ufb01'] ≠ key ['f', 'i'] ∧
    key ['\uff11', '\uff12'] ≠ key ['1', '2'] ∧ key ['K'] ≠ key ['k'] ∧ key ['x'] ≠ key ['x', ' '] ∧
    key ['a', 'b'] ≠ key ['a', '\u200b', 'b'] ∧
    key [Char.ofNat 0x1F600] ≠ key [Char.ofNat 0x1F601] ∧
    key [Char.ofNat 0x1F600] = some ("m:f:a:".toList ++ [Char.ofNat 0x1F600]) := by
  decide

/-- the same texts passed as UTF-8 `bytes` are decoded, not normalised: `b'\xc3\xa9'` is U+00E9,
`b'e\xcc\x81'` is `e` + COMBINING ACUTE ACCENT, `b'\xf0\x9f\x98\x80'` is U+1F600 -/
example : typeFmt (.bytes [0xc3, 0xa9]) = ['\u00e9'] ∧
    typeFmt (.bytes [0x65, 0xcc, 0x81]) = ['e', '\u0301'] ∧
    typeFmt (.bytes [0xf0, 0x9f, 0x98, 0x80]) = [Char.ofNat 0x1F600] := by decide

/-! ### the second key of a decorated call: single flight -/

/-- **The single-flight key is exactly as fine as the cache key.**  A cache decorator stores under
`decoratorKey` (template with the optional prefix) and joins concurrent calls under `flightKey` (the
same template without the prefix): for every signature, template, prefix and context two calls share
one of them iff they share the other — so a call can only join the in-flight execution of a call
whose cached result it would also be served, and (with `key_separates_calls`) never that of a call
with distinguishable bound arguments. -/
theorem flight_key_shared_iff_cache_key_shared (sig : Sig) (pfx : Str) (t : Tmpl) (ctx : Ctx) (c₁ c₂ : Call) :
    flightKey sig t ctx c₁ = flightKey sig t ctx c₂ ↔
      decoratorKey sig pfx t ctx c₁ = decoratorKey sig pfx t ctx c₂ := by
  unfold flightKey decoratorKey withPrefix
  by_cases hp : pfx = []
  · simp [hp]
  · simp only [hp, if_false]
    have hr : ∀ vals : Dict, render (.lit (pfx ++ [':']) :: t) vals = (pfx ++ [':']) ++ render t vals := by
      intro vals
      simp [render, renderWith, fastPath, Tmpl.fields]
    simp only [cacheKey]
    cases h₁ : callValues sig c₁ <;> cases h₂ : callValues sig c₂ <;> simp [hr]

/-- a method on two receivers: `K.get(eu, '/u')` and `K.get(us, '/u')` have different cache keys and
different single-flight keys; the positional and the keyword form of one call share both -/
example :
    let sig : Sig := [{ name := SELF, kind := .pos }, { name := ['p'], kind := .pos }]
    let t := autoTemplate ['m'] ['g'] ['K', '.', 'g'] [] sig
    flightKey sig t {} ⟨[.str ['e', 'u'], .str ['/', 'u']], []⟩ ≠ flightKey sig t {} ⟨[.str ['u', 's'], .str ['/', 'u']], []⟩ ∧
    flightKey sig t {} ⟨[.str ['e', 'u'], .str ['/', 'u']], []⟩ =
      flightKey sig t {} ⟨[.str ['e', 'u']], [(['p'], .str ['/', 'u'])]⟩ ∧
    decoratorKey sig ['v', '1'] t {} ⟨[.str ['e', 'u'], .str ['/', 'u']], []⟩ = some "v1:m:K.g:self:eu:p:/u".toList := by
  decide

/-! ### the context a call is made in -/

/-- **The ambient key context reaches a key only through fields the call does not bind.**  Two key
contexts without the deprecated `rewrite` flag that agree on every template field the call's own
values leave open (context names such as `{site}`, and `{@}`) give the call the same key: a field
named like a parameter is always rendered from the call's bound argument, whatever the context holds
under that name. -/
theorem key_depends_on_context_only_through_unbound_fields (sig : Sig) (t : Tmpl) (ctx ctx' : Ctx) (c : Call)
    (vals : Dict) (hv : callValues sig c = some vals) (hr : ctx.rewrite = false) (hr' : ctx'.rewrite = false)
    (hag : ∀ n ∈ t.fields, get? vals n = none → get? (withCtx ctx []) n = get? (withCtx ctx' []) n) :
    cacheKey sig t ctx c = cacheKey sig t ctx' c := by
  simp only [cacheKey, hv, Option.map_some]
  congr 1
  apply render_congr_fields
  intro n hn
  have h := hag n hn
  simp only [withCtx, hr, hr', List.nil_append] at h ⊢
  simp only [Bool.false_eq_true, if_false, List.append_assoc, get?_append] at h ⊢
  cases hvn : get? vals n with
  | some v => simp
  | none => simpa using h hvn

/-- **A call that binds all the fields of its template has one key in every (non-rewrite) context** —
in particular a context that holds other values under the names of its parameters, like the values of
an enclosing call with the same parameter names. -/
theorem key_same_in_every_context_when_fields_bound (sig : Sig) (t : Tmpl) (ctx ctx' : Ctx) (c : Call)
    (vals : Dict) (hv : callValues sig c = some vals) (hr : ctx.rewrite = false) (hr' : ctx'.rewrite = false)
    (hb : ∀ n ∈ t.fields, (get? vals n).isSome) :
    cacheKey sig t ctx c = cacheKey sig t ctx' c := by
  refine key_depends_on_context_only_through_unbound_fields sig t ctx ctx' c vals hv hr hr' ?_
  intro n hn hnone
  have := hb n hn
  simp [hnone] at this

/-- **A call made inside the body of a decorated function has its top-level key.**  The body of a function
under any cashews decorator — `invalidate` included — runs in the caller's key context (`bodyCtx`), so the
key of a call made there is the key of the same call made next to the enclosing one: it does not depend on
the enclosing call's arguments. (The correspondence checks `bodyCtx` against every decorator.) -/
theorem nested_call_key_is_the_toplevel_key (sig : Sig) (t : Tmpl) (ambient : Ctx) (enclosing : Dict) (c : Call) :
    cacheKey sig t (bodyCtx ambient enclosing) c = cacheKey sig t ambient c := rfl

/-- why `bodyCtx` matters: *in* a rewrite context built from an enclosing call `add_friend(user_id='u1', ..)`
the inner `get_profile('u2')` with template `profile:{user_id}` would be keyed `profile:u1`, like
`get_profile('u1')`; in the caller's (empty) context the two differ.  A rewrite context is only ever what the
user wrote (`key_context(rewrite=True)`, deprecated) or what surrounds `delete_match` inside `invalidate`. -/
theorem rewrite_context_overrides_bound_field :
    let sig : Sig := [{ name := "user_id".toList, kind := .pos }]
    let t : Tmpl := [.lit "profile:".toList, .field "user_id".toList]
    let enclosing : Ctx := { vals := [("user_id".toList, .str ['u', '1'])], rewrite := true }
    cacheKey sig t enclosing ⟨[.str ['u', '2']], []⟩ = some "profile:u1".toList ∧
    cacheKey sig t enclosing ⟨[.str ['u', '2']], []⟩ = cacheKey sig t enclosing ⟨[.str ['u', '1']], []⟩ ∧
    cacheKey sig t (bodyCtx {} enclosing.vals) ⟨[.str ['u', '2']], []⟩ = some "profile:u2".toList ∧
    cacheKey sig t { enclosing with rewrite := false } ⟨[.str ['u', '2']], []⟩ = some "profile:u2".toList := by
  decide

/-! ### what is excluded, with witnesses -/

/-- **Known finding: the rendering of bytes is not injective.**  `b'\xff'` (not UTF-8, rendered as
hex) and `b'ff'` are two different values of one type whose text `ff` is non-empty and has no ':';
`def f(a)` keys `f(b'\xff')` and `f(b'ff')` alike under its generated template. -/
theorem bytes_rendering_collides :
    PyVal.bytes [255] ≠ PyVal.bytes [102, 102] ∧
    (PyVal.bytes [255]).type = (PyVal.bytes [102, 102]).type ∧
    typeFmt (.bytes [255]) = ['f', 'f'] ∧ typeFmt (.bytes [102, 102]) = ['f', 'f'] ∧
    cacheKey [{ name := ['a'], kind := .pos }] (autoTemplate ['m'] ['f'] ['f'] [] [{ name := ['a'], kind := .pos }]) {}
        ⟨[.bytes [255]], []⟩ =
      cacheKey [{ name := ['a'], kind := .pos }] (autoTemplate ['m'] ['f'] ['f'] [] [{ name := ['a'], kind := .pos }]) {}
        ⟨[.bytes [102, 102]], []⟩ := by
  refine ⟨?_, rfl, by decide, by decide, by decide⟩
  intro h
  injection h with h
  simp at h

/-- without a ':' literal between two fields no separation is possible: `{a}{b}` renders
`('x','yz')` and `('xy','z')` alike (texts non-empty, ':'-free, one type) -/
theorem unseparated_template_collides :
    separated [.field ['a'], .field ['b']] = false ∧
    render [.field ['a'], .field ['b']] [(['a'], .str ['x']), (['b'], .str ['y', 'z'])] =
      render [.field ['a'], .field ['b']] [(['a'], .str ['x', 'y']), (['b'], .str ['z'])] := by
  decide

/-- with ':' inside a text even a generated template collides: `a='x:b:y', b='z'` and
`a='x', b='y:b:z'` -/
theorem colon_in_text_collides :
    render (autoItems [] [{ name := ['a'], kind := .pos }, { name := ['b'], kind := .pos }])
        [(['a'], .str "x:b:y".toList), (['b'], .str ['z'])] =
      render (autoItems [] [{ name := ['a'], kind := .pos }, { name := ['b'], kind := .pos }])
        [(['a'], .str ['x']), (['b'], .str "y:b:z".toList)] := by
  decide

/-- the two formatter paths differ on `None` only: `None` is `"None"` when every field is present,
`""` as soon as one field of the template is missing -/
example : render [.field ['a']] [(['a'], .none)] = "None".toList ∧
    render [.field ['a'], .lit ['-'], .field ['z']] [(['a'], .none)] = ['-'] := by decide

/-- containers: tuples join with ':', dict items are sorted by key, `None` inside is `""` -/
example : typeFmt (.tuple [.int 1, .none, .str ['a']]) = "1::a".toList ∧
    typeFmt (.dict [(['b'], .int 1), (['a'], .bool true)]) = "a:true:b:1".toList := by decide

end CashewsVerif.Props.C08
