import CashewsVerif.Model.DisableCompose
import CashewsVerif.Lemmas.DisableHist
/-
C17 — composite commands (`Model/DisableCompose.lean`): whatever a program over the facade's public
commands does, every backend call it causes is enabled for its receiver and routed by longest
prefix; the on-remove callback only ever talks to an enabled tags backend.
-/
namespace CashewsVerif.Disable
open CashewsVerif.Route

/-- a call of the on-remove callback is in order: it is `set_remove` of one tag key, handed directly to
the backend registered under the longest prefix of that tag key, which has `set_remove` enabled in the
caller's context -/
def CbOk (t : Table) (w : World) (c : Nat) (cl : Call) : Prop :=
  cl.cmd = .setRemove ∧ cl.target = .raw cl.target.backend ∧
  isDisable w c cl.target.backend [.setRemove] = false ∧
  ∃ tag, cl.keys = [tagKey tag] ∧ t.getBackend (tagKey tag) = some cl.target.backend

/-- a backend call issued under the facade command `f` is in order: the receiver is registered, has
`f` enabled in the caller's context and is the longest-prefix backend of every key handed over -/
def BcOk (t : Table) (w : World) (c : Nat) (f : FCmd) (bc : BCall) : Prop :=
  isDisable w c bc.backend [f.cmd] = false ∧ bc.backend ∈ t.backends ∧
  ∀ k ∈ bc.keys, t.getBackend k = some bc.backend

def EvOk (t : Table) (w : World) (c : Nat) : PEv → Prop
  | .sub f calls cbs => (∀ bc ∈ calls, BcOk t w c f bc) ∧ ∀ cl ∈ cbs, CbOk t w c cl
  | .body => True

theorem removeCallback_ok {t : Table} {w : World} {c : Nat} :
    ∀ {tags : List (List Nat)} {cs : List Call}, removeCallback t w c tags = some cs → ∀ cl ∈ cs, CbOk t w c cl
  | [], cs, h => by
    simp only [removeCallback, Option.some.injEq] at h
    subst h
    simp
  | tag :: r, cs, h => by
    simp only [removeCallback] at h
    split at h
    · cases h
    · rename_i tb htb
      simp only [Option.map_eq_some_iff] at h
      obtain ⟨rest, hrest, rfl⟩ := h
      have ih := removeCallback_ok hrest
      intro cl hcl
      by_cases hd : isDisable w c tb [.setRemove] = true
      · simp only [hd, if_true] at hcl
        exact ih cl hcl
      · simp only [hd, Bool.false_eq_true, if_false, List.mem_cons] at hcl
        rcases hcl with rfl | hcl
        · exact ⟨rfl, rfl, by simpa [Target.backend] using hd, tag, rfl, htb⟩
        · exact ih cl hcl

theorem callbacksOf_ok {t : Table} {w : World} {c : Nat} :
    ∀ {inv : List (List (List Nat))} {cs : List Call}, callbacksOf t w c inv = some cs →
      ∀ cl ∈ cs, CbOk t w c cl
  | [], cs, h => by
    simp only [callbacksOf, Option.some.injEq] at h
    subst h
    simp
  | tags :: r, cs, h => by
    simp only [callbacksOf] at h
    split at h
    · rename_i a b ha hb
      cases h
      intro cl hcl
      rcases List.mem_append.1 hcl with hcl | hcl
      · exact removeCallback_ok ha cl hcl
      · exact callbacksOf_ok hb cl hcl
    · cases h

theorem callbacksFrom_ok {t : Table} {w : World} {c : Nat} {env : Env} :
    ∀ (k n : Nat) {cs : List Call}, callbacksFrom t w c env n k = some cs → ∀ cl ∈ cs, CbOk t w c cl
  | 0, n, cs, h => by
    simp only [callbacksFrom, Option.some.injEq] at h
    subst h
    simp
  | k + 1, n, cs, h => by
    simp only [callbacksFrom] at h
    split at h
    · rename_i a b ha hb
      cases h
      intro cl hcl
      rcases List.mem_append.1 hcl with hcl | hcl
      · exact callbacksOf_ok ha cl hcl
      · exact callbacksFrom_ok k (n + 1) hb cl hcl
    · cases h

/-- **the invariant of every program over the facade's commands** -/
theorem Prog.run_ok (t : Table) (w : World) (c : Nat) (inTx inv : Bool) (env : Env) :
    ∀ (p : Prog) (ini : List Nat) (n : Nat), ∀ ev ∈ (Prog.run t w c inTx inv env p ini n).1, EvOk t w c ev := by
  intro p
  induction p with
  | done r => intro ini n ev h; simp [Prog.run] at h
  | locked => intro ini n ev h; simp [Prog.run] at h
  | outOfFuel => intro ini n ev h; simp [Prog.run] at h
  | body k ih =>
    intro ini n ev h
    simp only [Prog.run, List.mem_cons] at h
    rcases h with rfl | h
    · trivial
    · exact ih ini n ev h
  | call f k ih =>
    intro ini n ev h
    simp only [Prog.run] at h
    split at h
    · simp at h
    · rename_i x hx
      have hcalls : ∀ bc ∈ x.2.1, BcOk t w c f bc :=
        (execS_calls t w c inTx inv ini f x.1 x.2.1 x.2.2 (by simpa using hx)).1
      split at h
      · simp only [List.mem_singleton] at h
        subst h
        exact ⟨hcalls, by simp⟩
      · rename_i cbs hcbs
        have hcb := callbacksFrom_ok (t := t) (w := w) (c := c) (env := env) x.2.1.length n hcbs
        split at h
        · simp only [List.mem_singleton] at h
          subst h
          exact ⟨hcalls, hcb⟩
        · simp only [List.mem_cons] at h
          rcases h with rfl | h
          · exact ⟨hcalls, hcb⟩
          · exact ih _ _ _ ev h

/-- where the `sub` events of a run come from: the facade command was run through the whole stack
(`execS`) in some environment, and the callback calls are those fired during its backend calls -/
theorem Prog.run_sub (t : Table) (w : World) (c : Nat) (inTx inv : Bool) (env : Env) :
    ∀ (p : Prog) (ini : List Nat) (n : Nat) (f : FCmd) (calls : List BCall) (cbs : List Call),
      PEv.sub f calls cbs ∈ (Prog.run t w c inTx inv env p ini n).1 →
      ∃ ini0 n0 res ini', execS t w c inTx inv ini0 f = some (res, calls, ini') ∧
        (cbs = [] ∨ callbacksFrom t w c env n0 calls.length = some cbs) := by
  intro p
  induction p with
  | done r => intro ini n f calls cbs h; simp [Prog.run] at h
  | locked => intro ini n f calls cbs h; simp [Prog.run] at h
  | outOfFuel => intro ini n f calls cbs h; simp [Prog.run] at h
  | body k ih =>
    intro ini n f calls cbs h
    simp only [Prog.run, List.mem_cons] at h
    rcases h with h | h
    · cases h
    · exact ih ini n f calls cbs h
  | call g k ih =>
    intro ini n f calls cbs h
    simp only [Prog.run] at h
    split at h
    · simp at h
    · rename_i x hx
      have hx' : execS t w c inTx inv ini g = some (x.1, x.2.1, x.2.2) := by simpa using hx
      split at h
      · simp only [List.mem_singleton, PEv.sub.injEq] at h
        obtain ⟨rfl, rfl, rfl⟩ := h
        exact ⟨ini, n, x.1, x.2.2, hx', Or.inl rfl⟩
      · rename_i cbs' hcbs
        split at h
        · simp only [List.mem_singleton, PEv.sub.injEq] at h
          obtain ⟨rfl, rfl, rfl⟩ := h
          exact ⟨ini, n, x.1, x.2.2, hx', Or.inr hcbs⟩
        · simp only [List.mem_cons, PEv.sub.injEq] at h
          rcases h with ⟨rfl, rfl, rfl⟩ | h
          · exact ⟨ini, n, x.1, x.2.2, hx', Or.inr hcbs⟩
          · exact ih _ _ _ f calls cbs h

theorem callbacksFrom_zero (t : Table) (w : World) (c : Nat) (env : Env) (n : Nat) :
    callbacksFrom t w c env n 0 = some [] := rfl

theorem mem_bcalls {evs : List PEv} {f : FCmd} {bc : BCall} (h : (f, bc) ∈ PEv.bcalls evs) :
    ∃ calls cbs, PEv.sub f calls cbs ∈ evs ∧ bc ∈ calls := by
  induction evs with
  | nil => simp [PEv.bcalls] at h
  | cons ev r ih =>
    cases ev with
    | body =>
      obtain ⟨calls, cbs, h1, h2⟩ := ih (by simpa [PEv.bcalls] using h)
      exact ⟨calls, cbs, List.mem_cons_of_mem _ h1, h2⟩
    | sub g calls cbs =>
      simp only [PEv.bcalls, List.mem_append, List.mem_map] at h
      rcases h with ⟨bc', hbc, he⟩ | h
      · cases he
        exact ⟨calls, cbs, by simp, hbc⟩
      · obtain ⟨calls', cbs', h1, h2⟩ := ih h
        exact ⟨calls', cbs', List.mem_cons_of_mem _ h1, h2⟩

theorem mem_cbcalls {evs : List PEv} {cl : Call} (h : cl ∈ PEv.cbcalls evs) :
    ∃ f calls cbs, PEv.sub f calls cbs ∈ evs ∧ cl ∈ cbs := by
  induction evs with
  | nil => simp [PEv.cbcalls] at h
  | cons ev r ih =>
    cases ev with
    | body =>
      obtain ⟨f, calls, cbs, h1, h2⟩ := ih (by simpa [PEv.cbcalls] using h)
      exact ⟨f, calls, cbs, List.mem_cons_of_mem _ h1, h2⟩
    | sub g calls cbs =>
      simp only [PEv.cbcalls, List.mem_append] at h
      rcases h with h | h
      · exact ⟨g, calls, cbs, by simp, h⟩
      · obtain ⟨f, calls', cbs', h1, h2⟩ := ih h
        exact ⟨f, calls', cbs', List.mem_cons_of_mem _ h1, h2⟩

/-- two keys that are matched by the same registered prefixes are served by the same backend -/
theorem getBackend_congr {t : Table} (ht : t.WF) {k₁ k₂ : List Nat}
    (h : ∀ q ∈ t.prefixes, q <+: k₁ ↔ q <+: k₂) : t.getBackend k₁ = t.getBackend k₂ := by
  have hiff : ∀ b, t.getBackend k₁ = some b ↔ t.getBackend k₂ = some b := by
    intro b
    rw [Table.getBackend_iff ht, Table.getBackend_iff ht]
    constructor
    · rintro ⟨p, h1, h2, h3⟩
      have hp : p ∈ t.prefixes := List.mem_map.2 ⟨(p, b), h1, rfl⟩
      exact ⟨p, h1, (h p hp).1 h2, fun q hq hqk => h3 q hq ((h q hq).2 hqk)⟩
    · rintro ⟨p, h1, h2, h3⟩
      have hp : p ∈ t.prefixes := List.mem_map.2 ⟨(p, b), h1, rfl⟩
      exact ⟨p, h1, (h p hp).2 h2, fun q hq hqk => h3 q hq ((h q hq).1 hqk)⟩
  cases h1 : t.getBackend k₁ with
  | some b => exact ((hiff b).1 h1).symm
  | none =>
    cases h2 : t.getBackend k₂ with
    | none => rfl
    | some b =>
      rw [(hiff b).2 h2] at h1
      cases h1

/-- with the whole cache disabled every registered backend has every command disabled -/
theorem full_disables_all {t : Table} {w : World} {c : Nat} (hfull : facadeFullDisable t w c = true)
    {b : Nat} (hb : b ∈ t.backends) (cmd : Cmd) : isDisable w c b [cmd] = true := by
  unfold facadeFullDisable at hfull
  rw [List.all_eq_true] at hfull
  exact isDisable_of_full (hfull b hb) cmd

/-- a final facade command runs none of the caller's code -/
theorem bodies_call_done (t : Table) (w : World) (c : Nat) (inTx inv : Bool) (env : Env) (f : FCmd)
    (r : Ans) (ini : List Nat) (n : Nat) :
    PEv.bodies (Prog.run t w c inTx inv env (.call f fun _ => .done r) ini n).1 = 0 := by
  simp only [Prog.run]
  split
  · rfl
  · rename_i x _
    split
    · rfl
    · rename_i cbs _
      by_cases hr : toAns env n x.1 = .raised
      · simp [hr, PEv.bodies]
      · simp [hr, PEv.bodies]

/-! ### programs that talk about one key only (`cache.lock`) -/

theorem lockProg_onlyKey (key : List Nat) (wait : Bool) : ∀ fuel, (lockProg key wait fuel).OnlyKey key
  | 0 => trivial
  | fuel + 1 => by
    have ih := lockProg_onlyKey key wait fuel
    simp only [lockProg, Prog.OnlyKey]
    refine ⟨⟨_, rfl⟩, fun a => ?_⟩
    have hping : ∀ p : Ans, Prog.OnlyKey key
        (match p with
          | .none_ => Prog.body (.done .none_)
          | _ => if wait then lockProg key wait fuel else .locked) := by
      intro p
      cases p <;> simp only [Prog.OnlyKey] <;> (cases wait <;> simp [Prog.OnlyKey, ih])
    cases a <;> simp [Prog.OnlyKey, Ans.truth]
    · exact hping
    · split
      · exact ⟨⟨_, rfl⟩, hping⟩
      · exact ⟨⟨_, rfl⟩, fun _ => trivial⟩
    · exact hping

theorem callbacksFrom_no_removed {t : Table} {w : World} {c : Nat} {env : Env} (h : ∀ n, env.removed n = []) :
    ∀ (k n : Nat), callbacksFrom t w c env n k = some []
  | 0, _ => rfl
  | k + 1, n => by
    simp [callbacksFrom, h n, callbacksOf, callbacksFrom_no_removed h k (n + 1)]

/-- every facade command such a program runs is a single-key command on that key -/
theorem Prog.run_onlyKey_sub (t : Table) (w : World) (c : Nat) (inTx inv : Bool) (env : Env) (key : List Nat) :
    ∀ (p : Prog), p.OnlyKey key → ∀ (ini : List Nat) (n : Nat) (f : FCmd) (calls : List BCall) (cbs : List Call),
      PEv.sub f calls cbs ∈ (Prog.run t w c inTx inv env p ini n).1 → ∃ cmd, f = .keyed cmd key := by
  intro p
  induction p with
  | done r => intro _ ini n f calls cbs h; simp [Prog.run] at h
  | locked => intro _ ini n f calls cbs h; simp [Prog.run] at h
  | outOfFuel => intro _ ini n f calls cbs h; simp [Prog.run] at h
  | body k ih =>
    intro hk ini n f calls cbs h
    simp only [Prog.run, List.mem_cons] at h
    rcases h with h | h
    · cases h
    · exact ih hk ini n f calls cbs h
  | call g k ih =>
    intro hk ini n f calls cbs h
    obtain ⟨hg, hrest⟩ := hk
    simp only [Prog.run] at h
    split at h
    · simp at h
    · split at h
      · simp only [List.mem_singleton, PEv.sub.injEq] at h
        obtain ⟨rfl, _, _⟩ := h
        exact hg
      · split at h
        · simp only [List.mem_singleton, PEv.sub.injEq] at h
          obtain ⟨rfl, _, _⟩ := h
          exact hg
        · simp only [List.mem_cons, PEv.sub.injEq] at h
          rcases h with ⟨rfl, _, _⟩ | h
          · exact hg
          · exact ih _ (hrest _) _ _ f calls cbs h

/-- ... and, when the key has a backend and the backends report no removed keys, it never ends in `NotConfiguredError` -/
theorem Prog.run_onlyKey_configured (t : Table) (w : World) (c : Nat) (inTx inv : Bool) (env : Env) (key : List Nat)
    (b : Nat) (hb : t.getBackend key = some b) (hrm : ∀ n, env.removed n = []) :
    ∀ (p : Prog), p.OnlyKey key → ∀ (ini : List Nat) (n : Nat),
      (Prog.run t w c inTx inv env p ini n).2.1 ≠ .notConfigured := by
  intro p
  induction p with
  | done r => intro _ ini n; simp [Prog.run]
  | locked => intro _ ini n; simp [Prog.run]
  | outOfFuel => intro _ ini n; simp [Prog.run]
  | body k ih => intro hk ini n; simpa [Prog.run] using ih hk ini n
  | call g k ih =>
    intro hk ini n
    obtain ⟨⟨cmd, rfl⟩, hrest⟩ := hk
    simp only [Prog.run, execS, hb, Option.map_some, callbacksFrom_no_removed hrm]
    split
    · simp
    · exact ih _ (hrest _) _ _

/-- every backend call a single-key command causes goes to the backend that owns the key -/
theorem execS_keyed_backend {t : Table} {w : World} {c : Nat} {inTx inv : Bool} {ini : List Nat} {cmd : Cmd}
    {key : List Nat} {b : Nat} (hb : t.getBackend key = some b) {res : Res} {calls : List BCall} {ini' : List Nat}
    (h : execS t w c inTx inv ini (.keyed cmd key) = some (res, calls, ini')) : ∀ bc ∈ calls, bc.backend = b := by
  simp only [execS, hb, Option.map_some, Option.some.injEq] at h
  intro bc hbc
  have hc : calls = (stackCall w c inv (targetOf inTx b) cmd [key] ini 0).2.1 := by rw [h]
  rw [hc] at hbc
  have := (stackCall_mem w c inv (targetOf inTx b) cmd [key] ini 0 bc hbc).2.1
  rw [this, target_backend_targetOf]

end CashewsVerif.Disable

namespace CashewsVerif.Disable.Ex
open CashewsVerif.Route

/-- the default backend 0 and a dedicated tags backend 1 under `_tag:` -/
def TT : Table := Table.ofList [([], 0), (tagPrefix, 1)]

/-- task 0 forks task 1, then switches the prefix `_tag:` off for itself -/
def WtagOff : World := ctlRun TT (World.init true) [.fork 0 1, .disable 0 [] tagPrefix]

/-- task 0 has disabled `set_add` alone, for the default backend and for the tags backend -/
def WaddOff : World := ctlRun TT (World.init true) [.disable 0 [.setAdd] [], .disable 0 [.setAdd] tagPrefix]

/-- backends answer "true"; nothing is removed -/
def envT : Env := ⟨fun _ => .truthy, fun _ => []⟩

/-- call 0 removes a key tagged "t" -/
def envRm : Env := ⟨fun _ => .truthy, fun n => if n = 0 then [[[116]]] else []⟩

/-- `set_pop` (call 0) hands out the members "u" and "_x" -/
def envPop : Env := ⟨fun n => if n = 0 then .keys [[117], [95, 120]] else .none_, fun _ => []⟩

/-- `set_lock` (call 0) answers False: the lock is held by somebody else; `ping` answers -/
def envHeld : Env := ⟨fun n => if n = 0 then .falsy else .truthy, fun _ => []⟩

end CashewsVerif.Disable.Ex
