import CashewsVerif.Lemmas.RedisKS
/- Simulation lemmas: with the connection up, every cashews command of the backend model (its client calls against the
wire-level server plus post-processing) has the effect and the result of the same command on the reference. -/
namespace CashewsVerif.Redis
open KS

/-- the server's keyspace is the reference state; every script SHA the backend remembers is loaded on the server -/
def Inv (w : World) (t : KS) : Prop := w.srv.ks = t ∧ ∀ s ∈ w.cached, s ∈ w.srv.loaded

def Sim (cfg : Cfg) (w : World) (t : KS) (op : ROp) : Prop :=
  Inv (step cfg w op).1 (Ref.step cfg t op).1 ∧ (step cfg w op).2 = (Ref.step cfg t op).2

macro "redis_simp" : tactic => `(tactic|
  simp [Sim, Inv, step, stepM, M.bind, M.pure, call, pipe, clientCall, pipeCall, Srv.exec, Srv.execPrim, Ref.step, outOf,
        failed, isPing, fallback, Ref.failOut, raiseOther, truthy, intOrNone, Ref.prim, *])

def dataCmd : Cmd → Bool
  | .sadd _ _ | .srem _ _ | .spop _ _ | .bitfield _ _ | .pexpire _ _ => true
  | _ => false

/-- the data commands neither read nor change the script cache: they are the reference's `prim` -/
theorem execPrim_data (s : Srv) (c : Cmd) (hc : dataCmd c = true) :
    (s.execPrim c).1.ks = (Ref.prim s.ks c).1 ∧ (s.execPrim c).2 = (Ref.prim s.ks c).2 ∧ (s.execPrim c).1.loaded = s.loaded := by
  cases c <;> simp [dataCmd] at hc <;> simp only [Ref.prim, Srv.execPrim] <;> (repeat' split) <;> simp_all

/-- a command that answers with an error changes nothing -/
theorem execPrim_err (s : Srv) (c : Cmd) (he : (s.execPrim c).2 = .err) : (s.execPrim c).1 = s := by
  cases c <;> simp only [Srv.execPrim] at he ⊢ <;> (repeat' split) <;> simp_all

theorem prim_err (t : KS) (c : Cmd) (he : (Ref.prim t c).2 = .err) : (Ref.prim t c).1 = t := by
  have := execPrim_err ⟨t, []⟩ c he
  simp only [Ref.prim]
  rw [this]

theorem spop_shape (t : KS) (k n) : (Ref.prim t (.spop k n)).2 = .err ∨ ∃ l, (Ref.prim t (.spop k n)).2 = .strs l := by
  simp only [Ref.prim, Srv.execPrim]; (repeat' split) <;> simp

theorem bitfield_shape (t : KS) (k ops) : (Ref.prim t (.bitfield k ops)).2 = .err ∨ ∃ l, (Ref.prim t (.bitfield k ops)).2 = .ints l := by
  simp only [Ref.prim, Srv.execPrim]; (repeat' split) <;> simp

theorem pxOf_ne_zero (ttl : Option Nat) : pxOf ttl ≠ some 0 := by
  unfold pxOf; split <;> simp

theorem exec_set_always (s : Srv) (k v) (px : Option Nat) (hpx : px ≠ some 0) :
    s.exec (.set k v px .always) = ({ s with ks := s.ks.put k ⟨.str v, px.map (s.ks.now + ·)⟩ }, .ok) := by
  cases px with
  | none => simp [Srv.exec, Srv.execPrim]
  | some x => cases x with
    | zero => simp at hpx
    | succ y => simp [Srv.exec, Srv.execPrim]

/-- a pipeline of TTL-ed SETs is the fold of the reference writes; none of them can fail -/
theorem execMulti_sets (s : Srv) (kvs : List (String × CVal)) (ttl : Option Nat) :
    let cs := kvs.map fun kv => Cmd.set kv.1 (encode kv.2) (pxOf ttl) .always
    (s.execMulti cs).ks = kvs.foldl (fun t kv => t.put kv.1 ⟨.str (encode kv.2), (pxOf ttl).map (t.now + ·)⟩) s.ks
    ∧ (s.execMulti cs).loaded = s.loaded ∧ multiErr s cs = false := by
  induction kvs generalizing s with
  | nil => simp [Srv.execMulti, multiErr]
  | cons kv kvs ih =>
    have he := exec_set_always s kv.1 (encode kv.2) (pxOf ttl) (pxOf_ne_zero ttl)
    have := ih ({ s with ks := s.ks.put kv.1 ⟨.str (encode kv.2), (pxOf ttl).map (s.ks.now + ·)⟩ })
    simp only [Srv.execMulti, List.map_cons, List.foldl_cons, multiErr, he] at this ⊢
    simpa using this

theorem pexpire_shape (t : KS) (k ms) : ∃ i, (Ref.prim t (.pexpire k ms)).2 = .int i := by
  simp only [Ref.prim, Srv.execPrim]; (repeat' split) <;> simp

theorem live_of_find {s : KS} {k : String} {v dl} (h : s.find k = some ⟨v, dl⟩) (v') :
    (⟨v', dl⟩ : REntry).live s.now = true := by
  have := find_live h
  simpa [REntry.live] using this

/-- with the connection up, `ensureScript` ends with the script loaded on the server and remembered -/
theorem ensureScript_up (cfg : Cfg) (hup : ∀ n, cfg.down n = false) (w : World) (sc : Script)
    (hc : ∀ s ∈ w.cached, s ∈ w.srv.loaded) :
    ∃ w', ensureScript cfg sc w = (w', .ok (some sc)) ∧ w'.srv.ks = w.srv.ks ∧ sc ∈ w'.srv.loaded ∧
      (∀ s ∈ w'.cached, s ∈ w'.srv.loaded) := by
  unfold ensureScript
  by_cases hm : sc ∈ w.cached
  · exact ⟨w, by simp [hm], rfl, hc sc hm, hc⟩
  · simp only [hm, if_false, clientCall, hup, Srv.exec, Srv.execPrim]
    by_cases hl : sc ∈ w.srv.loaded
    · simp [hl]
      intro s hs; exact hc s hs
    · simp [hl]
      intro s hs; exact Or.inr (hc s hs)

/-- `_UNLOCK` in closed form: delete iff the stored string equals the token -/
theorem runUnlock_eq (s : Srv) (k : String) (tok : Bytes) :
    s.runUnlock k [tok] =
      match s.ks.find k with
      | none => (s, .int 0)
      | some ⟨.str b, _⟩ => if b = tok then ({ s with ks := s.ks.del k }, .int 1) else (s, .int 0)
      | some _ => (s, .err) := by
  simp only [Srv.runUnlock, Srv.execPrim]
  cases hf : s.ks.find k with
  | none => simp
  | some e =>
    obtain ⟨v, dl⟩ := e
    cases v with
    | str b =>
      by_cases hb : b = tok
      · simp [hb, KS.delMany, KS.present, hf]
      · simp [hb]
    | _ => simp

/-- `_INCR_EXPIRE` in closed form: the counter moves, its deadline is set iff the new value is 1 -/
theorem runIncrExpire_eq (s : Srv) (k : String) (by_ : Int) (ms : Nat) (hms : 0 < ms) :
    s.runIncrExpire k [.num by_, .num ms] =
      match s.ks.find k with
      | none => ({ s with ks := s.ks.put k ⟨.str (.num by_), if by_ = 1 then some (s.ks.now + ms) else none⟩ }, .int by_)
      | some ⟨.str (.num i), dl⟩ =>
        ({ s with ks := s.ks.put k ⟨.str (.num (i + by_)), if i + by_ = 1 then some (s.ks.now + ms) else dl⟩ }, .int (i + by_))
      | some _ => (s, .err) := by
  have hms0 : ms ≠ 0 := by omega
  simp only [Srv.runIncrExpire, Srv.execPrim]
  cases hf : s.ks.find k with
  | none =>
    by_cases h1 : by_ = 1
    · have hfp := find_put_self_live s.ks k ⟨.str (.num 1), none⟩ rfl
      simp [h1, hfp, hms0]
    · simp [h1]
  | some e =>
    obtain ⟨v, dl⟩ := e
    cases v with
    | str b =>
      cases b with
      | num i =>
        by_cases h1 : i + by_ = 1
        · have hfp := find_put_self_live s.ks k ⟨.str (.num 1), dl⟩ (live_of_find hf _)
          simp [h1, hfp, hms0]
        · simp [h1]
      | blob x => simp
    | _ => simp

/-- `_INCR_SLICE` on an existing sorted set, in closed form: the reference's `slide` -/
theorem runIncrSlice_zset (s : Srv) (k : String) (a1 a2 : Bytes) (a b maxv : Int) (ms : Nat) (old dl)
    (ha : Srv.scoreOf a1 = some a) (hb : Srv.scoreOf a2 = some b) (hf : s.ks.find k = some ⟨.zset old, dl⟩) :
    s.runIncrSlice k [a1, a2, .num maxv, .num ms] =
      ({ s with ks := (Ref.slide s.ks k old dl a b maxv ms).1 }, .int (Ref.slide s.ks k old dl a b maxv ms).2) := by
  simp only [Srv.runIncrSlice, ha, hb, Ref.slide]
  generalize hk : (old.filter fun x => !(decide (0 ≤ x) && decide (x < a))) = kept
  have hz : s.execPrim (.zremrangebyscore k (.incl 0) (.excl a)) =
      (if kept.isEmpty then ({ s with ks := s.ks.del k }, .int ((old.length - kept.length : Nat)))
       else ({ s with ks := s.ks.put k ⟨.zset kept, dl⟩ }, .int ((old.length - kept.length : Nat)))) := by
    simp only [Srv.execPrim, hf, inRange, ZBound.geLo, ZBound.leHi, hk]
  rw [hz]
  have hin : inRange (.incl a) (.incl b) = fun x => decide (a ≤ x) && decide (x ≤ b) := by
    funext x; simp [inRange, ZBound.geLo, ZBound.leHi]
  by_cases he : kept.isEmpty = true
  · have : kept = [] := by simpa using he
    subst this
    have hfp := find_put_self_live s.ks k ⟨.zset [b], none⟩ rfl
    by_cases hn : (0 : Int) < maxv
    · by_cases hm : 0 < ms
      · have hm0 : ms ≠ 0 := by omega
        simp [Srv.execPrim, hn, hm, hm0, hfp]
      · have hm0 : ms = 0 := by omega
        simp [Srv.execPrim, hn, hm0]
    · simp [Srv.execPrim, hn]
  · have hl := live_of_find hf (.zset kept)
    have hfp := find_put_self_live s.ks k ⟨.zset kept, dl⟩ hl
    have hfp2 := find_put_self_live s.ks k ⟨.zset (kept ++ [b]), dl⟩ (live_of_find hf _)
    simp only [he]
    by_cases hn : ((kept.filter fun x => decide (a ≤ x) && decide (x ≤ b)).length : Int) < maxv
    · by_cases hmem : b ∈ kept <;> by_cases hm : 0 < ms
      · have hm0 : ms ≠ 0 := by omega
        simp [Srv.execPrim, hin, hn, hmem, hm, hm0, hfp]
      · have hm0 : ms = 0 := by omega
        simp [Srv.execPrim, hin, hn, hmem, hm0, hfp]
      · have hm0 : ms ≠ 0 := by omega
        simp [Srv.execPrim, hin, hn, hmem, hm, hm0, hfp, hfp2]
      · have hm0 : ms = 0 := by omega
        simp [Srv.execPrim, hin, hn, hmem, hm0, hfp]
    · simp [Srv.execPrim, hin, hn, hfp]

/-- `_INCR_SLICE` on an absent key / a key of another type / unreadable bounds -/
theorem runIncrSlice_other (s : Srv) (k : String) (a1 a2 : Bytes) (maxv : Int) (ms : Nat) :
    s.runIncrSlice k [a1, a2, .num maxv, .num ms] =
      match Srv.scoreOf a1, Srv.scoreOf a2 with
      | some a, some b =>
        match s.ks.find k with
        | none => if (0 : Int) < maxv then
            ({ s with ks := s.ks.put k ⟨.zset [b], if ms > 0 then some (s.ks.now + ms) else none⟩ }, .int 1) else (s, .int 0)
        | some ⟨.zset old, dl⟩ =>
          ({ s with ks := (Ref.slide s.ks k old dl a b maxv ms).1 }, .int (Ref.slide s.ks k old dl a b maxv ms).2)
        | some _ => (s, .err)
      | _, _ => (s, .err) := by
  cases ha : Srv.scoreOf a1 with
  | none => simp [Srv.runIncrSlice, ha]
  | some a =>
    cases hb : Srv.scoreOf a2 with
    | none => simp [Srv.runIncrSlice, ha, hb]
    | some b =>
      cases hf : s.ks.find k with
      | none =>
        have hfp := find_put_self_live s.ks k ⟨.zset [b], none⟩ rfl
        by_cases hn : (0 : Int) < maxv <;> by_cases hm : 0 < ms
        · have hm0 : ms ≠ 0 := by omega
          simp [Srv.runIncrSlice, ha, hb, Srv.execPrim, hf, hn, hm, hm0, hfp]
        · have hm0 : ms = 0 := by omega
          simp [Srv.runIncrSlice, ha, hb, Srv.execPrim, hf, hn, hm0]
        · simp [Srv.runIncrSlice, ha, hb, Srv.execPrim, hf, hn]
        · simp [Srv.runIncrSlice, ha, hb, Srv.execPrim, hf, hn]
      | some e =>
        obtain ⟨v, dl⟩ := e
        cases v with
        | zset old => simp [runIncrSlice_zset s k a1 a2 a b maxv ms old dl ha hb hf]
        | _ => simp [Srv.runIncrSlice, ha, hb, Srv.execPrim, hf]

macro "redis_simp0" : tactic => `(tactic|
  simp [Sim, Inv, step, stepM, M.bind, M.pure, call, pipe, clientCall, pipeCall, Srv.exec, Ref.step, outOf,
        failed, isPing, fallback, Ref.failOut, raiseOther, truthy, intOrNone, *])

section
variable (cfg : Cfg) (hup : ∀ n, cfg.down n = false) (w : World) (t : KS) (h : Inv w t)
include hup h

theorem sim_get (k : String) : Sim cfg w t (.get k) := by
  obtain ⟨rfl, hc⟩ := h
  cases hs : cfg.suppress <;> cases hf : w.srv.ks.find k with
  | none => redis_simp; exact hc
  | some e => obtain ⟨v, dl⟩ := e; cases v <;> redis_simp <;> exact hc

theorem sim_set (k v ttl c) : Sim cfg w t (.set k v ttl c) := by
  obtain ⟨rfl, hc⟩ := h
  have hpx : ∀ x, pxOf ttl = some x → x ≠ 0 := by
    intro x hx; unfold pxOf at hx; split at hx <;> simp_all <;> omega
  cases hs : cfg.suppress <;> cases hp : pxOf ttl with
  | none => cases c <;> cases hk : w.srv.ks.present k <;> redis_simp <;> exact hc
  | some x =>
    have := hpx x hp
    cases x with
    | zero => simp at this
    | succ y => cases c <;> cases hk : w.srv.ks.present k <;> redis_simp <;> exact hc

theorem sim_exists (k) : Sim cfg w t (.exists_ k) := by
  obtain ⟨rfl, hc⟩ := h
  cases hs : cfg.suppress <;> cases hk : w.srv.ks.present k <;> redis_simp <;> exact hc

theorem sim_isLocked (k) : Sim cfg w t (.isLocked k) := by
  obtain ⟨rfl, hc⟩ := h
  cases hs : cfg.suppress <;> cases hk : w.srv.ks.present k <;> redis_simp <;> exact hc

theorem sim_delete (k) : Sim cfg w t (.delete k) := by
  obtain ⟨rfl, hc⟩ := h
  cases hs : cfg.suppress <;> cases hk : w.srv.ks.present k <;> redis_simp <;> simp [KS.delMany] <;> exact hc

theorem sim_ping : Sim cfg w t .ping := by
  obtain ⟨rfl, hc⟩ := h
  cases hs : cfg.suppress <;> redis_simp <;> exact hc

theorem sim_clear : Sim cfg w t .clear := by
  obtain ⟨rfl, hc⟩ := h
  cases hs : cfg.suppress <;> redis_simp <;> exact hc

theorem sim_keysCount : Sim cfg w t .keysCount := by
  obtain ⟨rfl, hc⟩ := h
  cases hs : cfg.suppress <;> redis_simp <;> exact hc

omit hup in
theorem sim_adv (dt) : Sim cfg w t (.adv dt) := by
  obtain ⟨rfl, hc⟩ := h
  redis_simp
  exact ⟨rfl, hc⟩

theorem sim_getExpire (k) : Sim cfg w t (.getExpire k) := by
  obtain ⟨rfl, hc⟩ := h
  cases hs : cfg.suppress <;> cases hf : w.srv.ks.find k with
  | none => redis_simp; exact hc
  | some e => obtain ⟨v, dl⟩ := e; cases dl <;> redis_simp <;> exact hc

theorem sim_expire (k ms) : Sim cfg w t (.expire k ms) := by
  obtain ⟨rfl, hc⟩ := h
  cases hs : cfg.suppress <;> cases hf : w.srv.ks.find k with
  | none => redis_simp; exact hc
  | some e =>
    cases ms with
    | zero => redis_simp; exact hc
    | succ n =>
      have : ¬ ((n : Int) + 1 ≤ 0) := by omega
      redis_simp
      exact hc

theorem sim_setLock (k tok ms) : Sim cfg w t (.setLock k tok ms) := by
  obtain ⟨rfl, hc⟩ := h
  cases hs : cfg.suppress <;> cases ms with
  | zero =>
    have hp : pxOf (some 0) = none := rfl
    cases hk : w.srv.ks.present k <;> redis_simp <;> exact hc
  | succ n =>
    have hp : pxOf (some (n + 1)) = some (n + 1) := rfl
    cases hk : w.srv.ks.present k <;> redis_simp <;> exact hc

theorem sim_deleteMany (ks) : Sim cfg w t (.deleteMany ks) := by
  obtain ⟨rfl, hc⟩ := h
  cases hs : cfg.suppress <;> cases ks <;> redis_simp <;> exact hc

theorem sim_getMany (ks) : Sim cfg w t (.getMany ks) := by
  obtain ⟨rfl, hc⟩ := h
  cases hs : cfg.suppress <;> cases ks with
  | nil => redis_simp; simp [getMany, M.pure]; exact hc
  | cons k ks =>
    redis_simp
    simp [getMany, M.bind, M.pure, call, clientCall, hup, Srv.exec, Srv.execPrim, Ref.strValue]
    refine ⟨hc, ?_, ?_⟩
    · cases hf : w.srv.ks.find k with
      | none => rfl
      | some e => obtain ⟨v, dl⟩ := e; cases v <;> rfl
    · intro a ha
      cases hf : w.srv.ks.find a with
      | none => rfl
      | some e => obtain ⟨v, dl⟩ := e; cases v <;> rfl

theorem sim_setRemove (k ms) : Sim cfg w t (.setRemove k ms) := by
  obtain ⟨rfl, hc⟩ := h
  obtain ⟨h1, h2, h3⟩ := execPrim_data w.srv (.srem k ms) rfl
  by_cases he : (Ref.prim w.srv.ks (.srem k ms)).2 = .err
  · have := prim_err _ _ he
    cases hs : cfg.suppress <;> redis_simp0 <;> exact hc
  · cases hs : cfg.suppress <;> redis_simp0 <;> exact hc

theorem sim_setAdd_nottl (k ms) : Sim cfg w t (.setAdd k ms none) := by
  obtain ⟨rfl, hc⟩ := h
  obtain ⟨h1, h2, h3⟩ := execPrim_data w.srv (.sadd k ms) rfl
  by_cases he : (Ref.prim w.srv.ks (.sadd k ms)).2 = .err
  · have := prim_err _ _ he
    cases hs : cfg.suppress <;> redis_simp0 <;> exact hc
  · cases hs : cfg.suppress <;> redis_simp0 <;> exact hc

theorem sim_setPop (k n) : Sim cfg w t (.setPop k n) := by
  obtain ⟨rfl, hc⟩ := h
  obtain ⟨h1, h2, h3⟩ := execPrim_data w.srv (.spop k n) rfl
  rcases spop_shape w.srv.ks k n with he | ⟨l, hl⟩
  · have := prim_err _ _ he
    cases hs : cfg.suppress <;> redis_simp0 <;> exact hc
  · cases hs : cfg.suppress <;> redis_simp0 <;> exact hc

theorem sim_getBits (k idx size) : Sim cfg w t (.getBits k idx size) := by
  obtain ⟨rfl, hc⟩ := h
  obtain ⟨h1, h2, h3⟩ := execPrim_data w.srv (.bitfield k (idx.map fun i => .get size i)) rfl
  rcases bitfield_shape w.srv.ks k (idx.map fun i => .get size i) with he | ⟨l, hl⟩
  · have := prim_err _ _ he
    cases hs : cfg.suppress <;> redis_simp0 <;> exact hc
  · cases hs : cfg.suppress <;> redis_simp0 <;> exact hc

theorem sim_incrBits (k idx size by_) : Sim cfg w t (.incrBits k idx size by_) := by
  obtain ⟨rfl, hc⟩ := h
  obtain ⟨h1, h2, h3⟩ := execPrim_data w.srv (.bitfield k (incrBitsOps idx size by_)) rfl
  rcases bitfield_shape w.srv.ks k (incrBitsOps idx size by_) with he | ⟨l, hl⟩
  · have := prim_err _ _ he
    cases hs : cfg.suppress <;> redis_simp0 <;> exact hc
  · cases hs : cfg.suppress <;> redis_simp0 <;> exact hc

theorem sim_setMany (kvs ttl) : Sim cfg w t (.setMany kvs ttl) := by
  obtain ⟨rfl, hc⟩ := h
  obtain ⟨h1, h2, h3⟩ := execMulti_sets w.srv kvs ttl
  cases kvs with
  | nil => redis_simp0; exact hc
  | cons kv kvs =>
    simp only [List.map_cons] at h1 h2 h3
    cases hs : cfg.suppress <;> redis_simp0 <;> exact hc

theorem sim_setAdd_ttl (k ms t') : Sim cfg w t (.setAdd k ms (some t')) := by
  obtain ⟨rfl, hc⟩ := h
  obtain ⟨a1, a2, a3⟩ := execPrim_data w.srv (.sadd k ms) rfl
  obtain ⟨b1, b2, b3⟩ := execPrim_data (w.srv.execPrim (.sadd k ms)).1 (.pexpire k t') rfl
  obtain ⟨i, hi⟩ := pexpire_shape (Ref.prim w.srv.ks (.sadd k ms)).1 k t'
  by_cases he : (Ref.prim w.srv.ks (.sadd k ms)).2 = .err <;>
  cases hs : cfg.suppress <;>
  simp [Sim, Inv, step, stepM, M.bind, M.pure, pipe, pipeCall, Srv.exec, Ref.step, outOf, Ref.failOut, Srv.execMulti, multiErr, *] <;>
  exact hc

theorem sim_unlock (k tok) : Sim cfg w t (.unlock k tok) := by
  obtain ⟨rfl, hc⟩ := h
  obtain ⟨w', hw, hks, hl, hc'⟩ := ensureScript_up cfg hup w .unlock hc
  simp only [Sim, Inv, step, stepM, M.bind, hw, call, clientCall, hup, Srv.exec, hl, runUnlock_eq, hks, Ref.step]
  cases hs : cfg.suppress <;> cases hf : w.srv.ks.find k with
  | none => simp [outOf, M.pure, intOrNone, hks]; exact hc'
  | some e =>
    obtain ⟨v, dl⟩ := e
    cases v with
    | str b => by_cases hb : b = tok <;> simp [outOf, M.pure, intOrNone, hks, hb] <;> exact hc'
    | _ => simp [outOf, M.pure, intOrNone, hks, failed, isPing, fallback, hs, Ref.failOut]; exact hc'

theorem sim_incr_ttl (k by_ ttl ms) (hp : pxOf ttl = some ms) : Sim cfg w t (.incr k by_ ttl) := by
  obtain ⟨rfl, hc⟩ := h
  have hms : 0 < ms := by unfold pxOf at hp; split at hp <;> simp_all <;> omega
  obtain ⟨w', hw, hks, hl, hc'⟩ := ensureScript_up cfg hup w .incrExpire hc
  simp only [Sim, Inv, step, stepM, hp, M.bind, hw, call, clientCall, hup, Srv.exec, hl, runIncrExpire_eq _ _ _ _ hms, hks, Ref.step]
  cases hs : cfg.suppress <;> cases hf : w.srv.ks.find k with
  | none => simp [outOf, M.pure, intOrNone, hks]; exact hc'
  | some e =>
    obtain ⟨v, dl⟩ := e
    cases v with
    | str b =>
      cases b with
      | num i => simp [outOf, M.pure, intOrNone, hks]; exact hc'
      | blob x => simp [outOf, M.pure, intOrNone, hks, failed, isPing, fallback, hs, Ref.failOut]; exact hc'
    | _ => simp [outOf, M.pure, intOrNone, hks, failed, isPing, fallback, hs, Ref.failOut]; exact hc'

theorem sim_sliceIncr (k a1 a2 maxv ttl) : Sim cfg w t (.sliceIncr k a1 a2 maxv ttl) := by
  obtain ⟨rfl, hc⟩ := h
  obtain ⟨w', hw, hks, hl, hc'⟩ := ensureScript_up cfg hup w .incrSlice hc
  simp only [Sim, Inv, step, stepM, M.bind, hw, call, clientCall, hup, Srv.exec, hl, runIncrSlice_other, hks, Ref.step]
  cases hs : cfg.suppress <;> cases ha : Srv.scoreOf a1 <;> cases hb : Srv.scoreOf a2 <;>
    (try (simp [outOf, M.pure, intOrNone, hks, failed, isPing, fallback, hs, Ref.failOut]; exact hc'))
  all_goals
    cases hf : w.srv.ks.find k with
    | none => by_cases hn : (0 : Int) < maxv <;> simp [outOf, M.pure, intOrNone, hks, hn] <;> exact hc'
    | some e =>
      obtain ⟨v, dl⟩ := e
      cases v <;> simp [outOf, M.pure, intOrNone, hks, failed, isPing, fallback, hs, Ref.failOut] <;> exact hc'

theorem sim_incr_nottl (k by_ ttl) (hp : pxOf ttl = none) : Sim cfg w t (.incr k by_ ttl) := by
  obtain ⟨rfl, hc⟩ := h
  cases hs : cfg.suppress <;> cases hf : w.srv.ks.find k with
  | none => redis_simp; exact hc
  | some e =>
    obtain ⟨v, dl⟩ := e
    cases v with
    | str b => cases b <;> redis_simp <;> exact hc
    | _ => redis_simp; exact hc

end
end CashewsVerif.Redis
