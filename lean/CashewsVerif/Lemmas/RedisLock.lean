import CashewsVerif.Model.RedisLock
/- The lock wait loops over the Redis backend model (C19): what `set_lock` and `ping` answer, for any failure pattern and
when the server is down; the loops leave / end accordingly. -/
set_option linter.unusedSimpArgs false
namespace CashewsVerif.Redis

/-- `set_lock` answers a Boolean, or — suppression off only — raises the documented error; it makes exactly one client call -/
theorem setLock_shape (cfg : Cfg) (w : World) (k : String) (tok : Bytes) (ms : Nat) :
    (step cfg w (.setLock k tok ms)).1.calls = w.calls + 1 ∧
    ((∃ b, (step cfg w (.setLock k tok ms)).2 = .bool b) ∨
     ((step cfg w (.setLock k tok ms)).2 = .raise ∧ cfg.suppress = false)) := by
  simp only [step, stepM, call, M.bind, clientCall, failed, isPing]
  by_cases hd : cfg.down w.calls = true
  · cases hs : cfg.suppress <;> simp [hd, hs, M.pure, outOf]
  · by_cases he : (w.srv.exec (.set k tok (pxOf (some ms)) .nx)).2 = .err
    · cases hs : cfg.suppress <;> simp [hd, he, hs, M.pure, outOf]
    · simp [hd, he, M.pure, outOf]

/-- `ping` answers or raises the documented error — nothing else; exactly one client call -/
theorem ping_shape (cfg : Cfg) (w : World) :
    (step cfg w .ping).1.calls = w.calls + 1 ∧ ((step cfg w .ping).2 = .pong ∨ (step cfg w .ping).2 = .raise) := by
  simp only [step, stepM, call, M.bind, clientCall, failed, isPing]
  by_cases hd : cfg.down w.calls = true
  · simp [hd, outOf]
  · by_cases he : (w.srv.exec .ping).2 = .err
    · simp [hd, he, outOf]
    · simp [hd, he, M.pure, outOf]

/-- server unreachable at this call: `set_lock` answers `False` (suppression on: the safe client swallows the error) or raises
the documented error (suppression off) -/
theorem setLock_down (cfg : Cfg) (w : World) (k : String) (tok : Bytes) (ms : Nat) (hd : cfg.down w.calls = true) :
    (step cfg w (.setLock k tok ms)).2 = (if cfg.suppress then .bool false else .raise) := by
  simp only [step, stepM, call, M.bind, clientCall, failed, isPing]
  cases hs : cfg.suppress <;> simp [hd, hs, M.pure, outOf, fallback, truthy]

/-- server unreachable at this call: `ping` raises the documented error, suppression on or off -/
theorem ping_down (cfg : Cfg) (w : World) (hd : cfg.down w.calls = true) : (step cfg w .ping).2 = .raise := by
  simp only [step, stepM, call, M.bind, clientCall, failed, isPing]
  simp [hd, outOf]

/-- one step of `lock()` never lets anything but the documented error escape, and that only with suppression off;
it makes at most one client call -/
theorem lockStep_fine (cfg : Cfg) (k : String) (tok : Bytes) (ms : Nat) (wait : Bool) (p : LPos) (w : World) :
    (lockStep cfg k tok ms wait p w).2 ≠ .inr .raiseOther ∧
    ((lockStep cfg k tok ms wait p w).2 = .inr .raise → cfg.suppress = false) ∧
    w.calls ≤ (lockStep cfg k tok ms wait p w).1.calls ∧ (lockStep cfg k tok ms wait p w).1.calls ≤ w.calls + 1 := by
  cases p with
  | atSetLock =>
    obtain ⟨hc, hsh⟩ := setLock_shape cfg w k tok ms
    simp only [lockStep]
    rcases hsh with ⟨b, hb⟩ | ⟨hr, hs⟩
    · rw [hb]; cases b <;> simp [hc]
    · rw [hr]; simp [hc, hs]
  | atPing =>
    obtain ⟨hc, hsh⟩ := ping_shape cfg w
    simp only [lockStep]
    rcases hsh with h | h
    · rw [h]; cases wait <;> simp [hc]
    · rw [h]; simp [hc]
  | atSleep => simp [lockStep]

/-- …hence the loop, for ANY failure pattern, any behaviour of the others and any number of steps -/
theorem lockRun_fine (cfg : Cfg) (k : String) (tok : Bytes) (ms : Nat) (wait : Bool) (env : Nat → World → World) :
    ∀ (fuel : Nat) (p : LPos) (w : World),
      (lockRun cfg k tok ms wait env fuel p w).2 ≠ some .raiseOther ∧
      ((lockRun cfg k tok ms wait env fuel p w).2 = some .raise → cfg.suppress = false) := by
  intro fuel
  induction fuel with
  | zero => intro p w; simp [lockRun]
  | succ n ih =>
    intro p w
    obtain ⟨h1, h2, _, _⟩ := lockStep_fine cfg k tok ms wait p (env n w)
    simp only [lockRun]
    cases hr : (lockStep cfg k tok ms wait p (env n w)).2 with
    | inl p' => simpa using ih p' _
    | inr o =>
      rw [hr] at h1 h2
      refine ⟨?_, ?_⟩
      · simp only [ne_eq, Option.some.injEq]; intro h; exact h1 (by rw [h])
      · simp only [Option.some.injEq]; intro h; exact h2 (by rw [h])

/-- server down from now on, caller about to ping: it leaves the loop right there, running its body unprotected -/
theorem lockStep_atPing_down (cfg : Cfg) (k : String) (tok : Bytes) (ms : Nat) (wait : Bool) (w : World)
    (hd : cfg.down w.calls = true) : (lockStep cfg k tok ms wait .atPing w).2 = .inr .unprotected := by
  simp [lockStep, ping_down cfg w hd]

/-- server down from now on, caller about to try the lock: suppression on → it goes on to the ping (one more call),
suppression off → the documented error escapes -/
theorem lockStep_atSetLock_down (cfg : Cfg) (k : String) (tok : Bytes) (ms : Nat) (wait : Bool) (w : World)
    (hd : cfg.down w.calls = true) :
    (lockStep cfg k tok ms wait .atSetLock w).2 = (if cfg.suppress then .inl .atPing else .inr .raise) ∧
    (lockStep cfg k tok ms wait .atSetLock w).1.calls = w.calls + 1 := by
  refine ⟨?_, (setLock_shape cfg w k tok ms).1⟩
  simp only [lockStep, setLock_down cfg w k tok ms hd]
  cases cfg.suppress <;> simp

/-- how the loop ends once the server is down, by position -/
def downOutcome (cfg : Cfg) : LPos → LockOut
  | .atPing => .unprotected
  | _ => if cfg.suppress then .unprotected else .raise

theorem lockRun_down (cfg : Cfg) (k : String) (tok : Bytes) (ms : Nat) (wait : Bool) (env : Nat → World → World)
    (henv : EnvOk env) (p : LPos) (w : World) (hd : ∀ n, w.calls ≤ n → cfg.down n = true) (fuel : Nat) (hf : 3 ≤ fuel) :
    (lockRun cfg k tok ms wait env fuel p w).2 = some (downOutcome cfg p) := by
  obtain ⟨f, rfl⟩ : ∃ f, fuel = f + 3 := ⟨fuel - 3, by omega⟩
  -- the server stays down for whatever world the others leave behind
  have hdown : ∀ (n : Nat) (w' : World), w.calls ≤ w'.calls → cfg.down (env n w').calls = true :=
    fun n w' h => hd _ (Nat.le_trans h (henv n w'))
  have fromPing : ∀ (g : Nat) (w' : World), w.calls ≤ w'.calls →
      (lockRun cfg k tok ms wait env (g + 1) .atPing w').2 = some .unprotected := by
    intro g w' h
    simp only [lockRun, lockStep_atPing_down cfg k tok ms wait _ (hdown g w' h)]
  have fromSet : ∀ (g : Nat) (w' : World), w.calls ≤ w'.calls →
      (lockRun cfg k tok ms wait env (g + 2) .atSetLock w').2 = some (if cfg.suppress then .unprotected else .raise) := by
    intro g w' h
    obtain ⟨h1, h2⟩ := lockStep_atSetLock_down cfg k tok ms wait _ (hdown (g + 1) w' h)
    simp only [lockRun, h1]
    cases hs : cfg.suppress
    · simp
    · simp only [if_true]
      apply fromPing g
      rw [h2]
      exact Nat.le_trans (Nat.le_trans h (henv (g + 1) w')) (Nat.le_succ _)
  cases p with
  | atPing => exact fromPing (f + 2) w (Nat.le_refl _)
  | atSetLock => simpa [downOutcome] using fromSet (f + 1) w (Nat.le_refl _)
  | atSleep =>
    have : (lockRun cfg k tok ms wait env (f + 3) .atSleep w).2 =
        (lockRun cfg k tok ms wait env (f + 2) .atSetLock (env (f + 2) w)).2 := by
      simp [lockRun, lockStep]
    rw [this]
    simpa [downOutcome] using fromSet f (env (f + 2) w) (henv (f + 2) w)

/-! ### the transaction's wait loop -/

theorem txLockRun_fine (cfg : Cfg) (k : String) (tok : Bytes) (ms : Nat) (env : Nat → World → World) :
    ∀ (rounds : Nat) (w : World),
      (txLockRun cfg k tok ms env rounds w).2 ≠ .raiseOther ∧
      ((txLockRun cfg k tok ms env rounds w).2 = .raise → cfg.suppress = false) := by
  intro rounds
  induction rounds with
  | zero => intro w; simp [txLockRun]
  | succ n ih =>
    intro w
    obtain ⟨_, hsh⟩ := setLock_shape cfg (env n w) k tok ms
    simp only [txLockRun]
    rcases hsh with ⟨b, hb⟩ | ⟨hr, hs⟩
    · rw [hb]; cases b
      · simpa using ih _
      · simp
    · rw [hr]; simp [hs]

/-- nobody else acting: the loop makes at most `rounds` client calls -/
theorem txLockRun_calls (cfg : Cfg) (k : String) (tok : Bytes) (ms : Nat) :
    ∀ (rounds : Nat) (w : World), (txLockRun cfg k tok ms envId rounds w).1.calls ≤ w.calls + rounds := by
  intro rounds
  induction rounds with
  | zero => intro w; simp [txLockRun]
  | succ n ih =>
    intro w
    obtain ⟨hc, hsh⟩ := setLock_shape cfg (envId n w) k tok ms
    have hw : (envId n w).calls = w.calls := rfl
    simp only [txLockRun]
    rcases hsh with ⟨b, hb⟩ | ⟨hr, _⟩
    · rw [hb]; cases b
      · have := ih (step cfg (envId n w) (.setLock k tok ms)).1
        simp only; omega
      · simp only; omega
    · rw [hr]; simp only; omega

theorem txLockRun_down (cfg : Cfg) (k : String) (tok : Bytes) (ms : Nat) (env : Nat → World → World) (henv : EnvOk env) :
    ∀ (rounds : Nat) (w : World), (∀ n, w.calls ≤ n → cfg.down n = true) →
      (txLockRun cfg k tok ms env rounds w).2 =
        (if cfg.suppress then .lockedError else if rounds = 0 then .lockedError else .raise) := by
  intro rounds
  induction rounds with
  | zero => intro w _; simp [txLockRun]
  | succ n ih =>
    intro w hd
    have hd' : cfg.down (env n w).calls = true := hd _ (henv n w)
    obtain ⟨hc, _⟩ := setLock_shape cfg (env n w) k tok ms
    simp only [txLockRun, setLock_down cfg (env n w) k tok ms hd']
    cases hs : cfg.suppress
    · simp
    · simp only [if_true]
      have := ih (step cfg (env n w) (.setLock k tok ms)).1 (by
        intro m hm; apply hd; rw [hc] at hm; have := henv n w; omega)
      rw [this, hs]; simp

end CashewsVerif.Redis
