import CashewsVerif.Lemmas.TxProps
/- A concrete, non-trivial transaction that meets every hypothesis of the C03 / C04 theorems
(used by the non-vacuity examples in `Props/C03.lean` and `Props/C04.lean`). -/
namespace CashewsVerif.Props.C04
open CashewsVerif Store

/-- store: key 0 without TTL, key 2 with a deadline still 11 ticks ahead, key 4 expired but not purged
(now = 3); universe = three user keys and all their lock keys -/
def sampleStore : Mem :=
  { now := 3, cap := 1000,
    store := [(0, ⟨.tok 1, none⟩), (2, ⟨.int 5, some 14⟩), (4, ⟨.tok 2, some 2⟩)] }

def sampleK : List Key := [0, 2, 4, 1, 3, 5, 7]

/-- conditional writes on a store-only key, on a pending delete and on an expired-unpurged key, `expire`
after a write, a seeded `incr`, a sub-second TTL (8 ticks, 5 left at the end), time advancing inside -/
def sampleOps : List Op :=
  [.set 0 (.tok 9) none .nx, .set 0 (.tok 9) (some 8) .xx, .adv 1, .delete 0, .set 0 (.tok 7) none .xx,
   .set 4 (.int 1) (some 16) .nx, .incr 2 1 none, .expire 2 (some 80), .get 2, .adv 2,
   .getMany [0, 2, 4], .getExpire 0, .exists_ 4, .incr 0 1 (some 8)]

theorem sampleSetup : TxSetup sampleK sampleStore sampleOps := by
  refine ⟨⟨by decide, by decide⟩, by decide, by decide, ?_, ?_⟩
  · intro k hr
    simp only [Mem.view, sampleStore, lookup]
    have : k ≠ 0 ∧ k ≠ 2 ∧ k ≠ 4 := by
      simp only [reserved, beq_iff_eq] at hr
      omega
    simp [this.1.symm, this.2.1.symm, this.2.2.symm]
  · intro op hop
    simp only [sampleOps, List.mem_cons, List.not_mem_nil, or_false] at hop
    rcases hop with h | h | h | h | h | h | h | h | h | h | h | h | h | h <;> subst h <;>
      refine ⟨?_, ?_, rfl⟩ <;>
      simp [TxSt.KeysOk, Op.keys, TxSt.writeKeys, sampleK, reserved] <;>
      (intro m; cases m <;> simp [lockKey])

end CashewsVerif.Props.C04
