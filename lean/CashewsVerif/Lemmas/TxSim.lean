import CashewsVerif.Lemmas.TxWf
/-
The abstract transaction simulates direct execution on the ideal map (C04), as long as every
deadline in play stays ahead of the end `T` of the block.
-/
namespace CashewsVerif

/-- everything `Sim` says except the agreement (and overlay/delete disjointness) at key `k0` -/
structure SimX (T : Time) (k0 : Option Key) (a : ATx) (t : TtlMap) : Prop where
  nowb : a.b.now = t.now
  nowo : a.ov.now = t.now
  le   : t.now ≤ T
  stb  : ∀ k e, a.b.find k = some e → dlAfter T e.dl = true
  sto  : ∀ k e, a.ov.find k = some e → dlAfter T e.dl = true
  stt  : ∀ k e, t.find k = some e → dlAfter T e.dl = true
  disj : ∀ k, some k ≠ k0 → k ∈ a.del → a.ov.find k = none
  vals : ∀ k, some k ≠ k0 → (a.view k).map (·.val) = (t.find k).map (·.val)

/-- the simulation relation: the transaction's view of every key carries the value direct execution has -/
abbrev Sim (T : Time) (a : ATx) (t : TtlMap) : Prop := SimX T none a t

namespace Sim
variable {T : Time} {a : ATx} {t : TtlMap}

theorem toX (h : Sim T a t) (k0 : Option Key) : SimX T k0 a t :=
  ⟨h.nowb, h.nowo, h.le, h.stb, h.sto, h.stt, fun k _ => h.disj k (by simp), fun k _ => h.vals k (by simp)⟩

theorem disj' (h : Sim T a t) {k : Key} (hk : k ∈ a.del) : a.ov.find k = none := h.disj k (by simp) hk
theorem vals' (h : Sim T a t) (k : Key) : (a.view k).map (·.val) = (t.find k).map (·.val) := h.vals k (by simp)

theorem notDel_of_ov (h : Sim T a t) {k : Key} {e : Entry} (ho : a.ov.find k = some e) : k ∉ a.del :=
  fun hd => by rw [h.disj' hd] at ho; simp at ho

theorem view_none_iff (h : Sim T a t) (k : Key) : a.view k = none ↔ t.find k = none := by
  have := h.vals' k
  cases hv : a.view k <;> cases hf : t.find k <;> simp_all

theorem present_eq (h : Sim T a t) (k : Key) : a.present k = (t.find k).isSome := by
  have hv := h.vals' k
  unfold ATx.present
  unfold ATx.view at hv
  by_cases hd : k ∈ a.del
  · have := h.disj' hd
    simp only [hd, if_true, Option.map_none] at hv
    cases hf : t.find k <;> simp_all
  · simp only [hd, if_false] at hv
    cases ho : a.ov.find k <;> cases hb : a.b.find k <;> cases hf : t.find k <;> simp_all

end Sim

theorem writeDl_after {T : Time} (t : TtlMap) (k : Key) (ttl : Option Nat)
    (hst : ∀ e, t.find k = some e → dlAfter T e.dl = true) (hd : dlAfter T (deadlineOf t.now ttl) = true) :
    dlAfter T (t.writeDl k ttl) = true := by
  unfold TtlMap.writeDl
  cases hdl : deadlineOf t.now ttl with
  | some d => rw [hdl] at hd; exact hd
  | none =>
    simp only
    cases hf : t.find k with
    | none => rfl
    | some e => exact hst e hf

/-- writing the same value at `k0` on both sides establishes the relation everywhere -/
theorem sim_put {T : Time} {a : ATx} {t : TtlMap} {k : Key} (h : SimX T (some k) a t) (v : Val) (ttl : Option Nat)
    (hd : dlAfter T (deadlineOf t.now ttl) = true) : Sim T (a.put k v ttl) (t.write k v ttl) := by
  refine ⟨h.nowb, h.nowo, h.le, h.stb, ?_, ?_, ?_, ?_⟩
  · intro k' e he
    simp only [ATx.put, TtlMap.find_write] at he
    by_cases hk : k' = k
    · simp only [hk, if_true, Option.some.injEq] at he
      subst he
      exact writeDl_after a.ov k ttl (h.sto k) (by rw [h.nowo]; exact hd)
    · simp only [hk, if_false] at he; exact h.sto k' e he
  · intro k' e he
    simp only [TtlMap.find_write] at he
    by_cases hk : k' = k
    · simp only [hk, if_true, Option.some.injEq] at he
      subst he
      exact writeDl_after t k ttl (h.stt k) hd
    · simp only [hk, if_false] at he; exact h.stt k' e he
  · intro k' _ hk'
    simp only [ATx.put, List.mem_filter, decide_eq_true_eq] at hk'
    simp only [ATx.put, TtlMap.find_write, hk'.2, if_false]
    exact h.disj k' (by simp; exact hk'.2) hk'.1
  · intro k' _
    by_cases hk : k' = k
    · subst hk
      simp [ATx.view, ATx.put, TtlMap.find_write]
    · have := h.vals k' (by simp; exact hk)
      have hkn : (k' ≠ k) = True := by simp [hk]
      simp only [ATx.view, ATx.put, TtlMap.find_write, hk, if_false, List.mem_filter, decide_eq_true_eq,
        hkn, and_true] at this ⊢
      exact this

theorem sim_delete {T : Time} {a : ATx} {t : TtlMap} (h : Sim T a t) (k : Key) :
    Sim T (a.delete k) (t.remove k) := by
  refine ⟨h.nowb, h.nowo, h.le, h.stb, ?_, ?_, ?_, ?_⟩
  · intro k' e he
    simp only [ATx.delete, TtlMap.find_remove] at he
    by_cases hk : k' = k
    · simp [hk] at he
    · simp only [hk, if_false] at he; exact h.sto k' e he
  · intro k' e he
    simp only [TtlMap.find_remove] at he
    by_cases hk : k' = k
    · simp [hk] at he
    · simp only [hk, if_false] at he; exact h.stt k' e he
  · intro k' _ hk'
    simp only [ATx.delete, List.mem_cons] at hk'
    simp only [ATx.delete, TtlMap.find_remove]
    by_cases hk : k' = k
    · simp [hk]
    · simp only [hk, if_false]
      rcases hk' with hk' | hk'
      · exact absurd hk' hk
      · exact h.disj' hk'
  · intro k' _
    by_cases hk : k' = k
    · subst hk; simp [ATx.view, ATx.delete, TtlMap.find_remove]
    · have := h.vals' k'
      simp only [ATx.view, ATx.delete, TtlMap.find_remove, hk, if_false, List.mem_cons, false_or] at this ⊢
      exact this

theorem sim_setMany {T : Time} (kvs : List (Key × Val)) (ttl : Option Nat) : ∀ {a : ATx} {t : TtlMap},
    Sim T a t → dlAfter T (deadlineOf t.now ttl) = true →
    Sim T (kvs.foldl (fun a kv => a.put kv.1 kv.2 ttl) a) (kvs.foldl (fun t kv => t.write kv.1 kv.2 ttl) t) := by
  induction kvs with
  | nil => intro a t h _; exact h
  | cons kv kvs ih =>
    intro a t h hd
    simp only [List.foldl_cons]
    exact ih (sim_put (h.toX _) kv.2 ttl hd) hd

theorem sim_deleteMany {T : Time} (ks : List Key) : ∀ {a : ATx} {t : TtlMap},
    Sim T a t → Sim T (ks.foldl ATx.delete a) (ks.foldl TtlMap.remove t) := by
  induction ks with
  | nil => intro a t h; exact h
  | cons k ks ih => intro a t h; simp only [List.foldl_cons]; exact ih (sim_delete h k)

theorem put_of_notDel {a : ATx} {k : Key} (hk : k ∉ a.del) (v : Val) (ttl : Option Nat) :
    ({ a with ov := a.ov.write k v ttl } : ATx) = a.put k v ttl := by
  unfold ATx.put
  congr 1
  symm
  rw [List.filter_eq_self]
  intro x hx
  simp only [ne_eq, decide_eq_true_eq]
  intro e; subst e; exact hk hx

/-- what `seed` leaves at `k` in the overlay, compared with direct execution -/
theorem seed_char {T : Time} {a : ATx} {t : TtlMap} (h : Sim T a t) (k : Key) :
    SimX T (some k) (a.seed k) t ∧
    (match (a.seed k).ov.find k with
     | none => t.find k = none
     | some e' => ((a.seed k).view k).map (·.val) = some e'.val ∧
        ((t.find k).map (·.val) = some e'.val ∨ (e'.val = .int 0 ∧ t.find k = none))) ∧
    (k ∈ (a.seed k).del → (a.seed k).ov.find k = none) := by
  have hv := h.vals' k
  unfold ATx.seed
  by_cases hc : (a.ov.find k).isNone ∧ k ∉ a.del
  · rw [if_pos hc]
    have hon : a.ov.find k = none := by simpa using hc.1
    refine ⟨⟨h.nowb, h.nowo, h.le, h.stb, ?_, h.stt, ?_, ?_⟩, ?_, fun hd => absurd hd hc.2⟩
    · intro k' e he
      simp only [TtlMap.find_write] at he
      by_cases hk : k' = k
      · simp only [hk, if_true, Option.some.injEq] at he
        subst he
        simp [TtlMap.writeDl, deadlineOf, hon, dlAfter]
      · simp only [hk, if_false] at he; exact h.sto k' e he
    · intro k' hk' hd
      have hk : k' ≠ k := by simpa using hk'
      simp only [TtlMap.find_write, hk, if_false]
      exact h.disj' hd
    · intro k' hk'
      have hk : k' ≠ k := by simpa using hk'
      have := h.vals' k'
      simp only [ATx.view, TtlMap.find_write, hk, if_false] at this ⊢
      exact this
    · simp only [TtlMap.find_write, if_true, ATx.view, hc.2, if_false, Option.some_or, Option.map_some, true_and]
      simp only [ATx.view, hc.2, if_false, hon, Option.none_or] at hv
      cases hb : a.b.find k with
      | none =>
        rw [hb] at hv
        right
        refine ⟨rfl, ?_⟩
        cases hf : t.find k with
        | none => rfl
        | some e => rw [hf] at hv; simp at hv
      | some e =>
        rw [hb] at hv
        left
        simp only [Option.map_some, Option.getD_some]
        exact hv.symm
  · rw [if_neg hc]
    refine ⟨h.toX _, ?_, fun hd => h.disj' hd⟩
    cases ho : a.ov.find k with
    | none =>
      simp only
      have hd : k ∈ a.del := by
        by_cases hd : k ∈ a.del
        · exact hd
        · exact absurd ⟨by simp [ho], hd⟩ hc
      exact (h.view_none_iff k).mp (by simp [ATx.view, hd])
    | some e =>
      simp only
      have hd := h.notDel_of_ov ho
      simp only [ATx.view, hd, if_false, ho, Option.some_or, Option.map_some] at hv ⊢
      exact ⟨trivial, Or.inl hv.symm⟩

theorem sim_undel {T : Time} {a : ATx} {t : TtlMap} {k : Key} (h : SimX T (some k) a t)
    (hv : ((a.ov.find k).or (a.b.find k)).map (·.val) = (t.find k).map (·.val)) :
    Sim T { a with del := a.del.filter (· ≠ k) } t := by
  refine ⟨h.nowb, h.nowo, h.le, h.stb, h.sto, h.stt, ?_, ?_⟩
  · intro k' _ hk'
    simp only [List.mem_filter, decide_eq_true_eq] at hk'
    exact h.disj k' (by simp; exact hk'.2) hk'.1
  · intro k' _
    by_cases hk : k' = k
    · subst hk; simpa [ATx.view] using hv
    · have := h.vals k' (by simp; exact hk)
      have hkn : (k' ≠ k) = True := by simp [hk]
      simp only [ATx.view, List.mem_filter, decide_eq_true_eq, hkn, and_true] at this ⊢
      exact this

theorem dlAfter_incr_ttl {T now : Time} {ttl : Option Nat} (hd : dlAfter T (deadlineOf now ttl) = true) (n : Int) :
    dlAfter T (deadlineOf now (if n = 1 then ttl else none)) = true := by
  split
  · exact hd
  · rfl

theorem sim_incr {T : Time} {a : ATx} {t : TtlMap} (h : Sim T a t) (k : Key) (by_ : Int) (ttl : Option Nat)
    (hd : dlAfter T (deadlineOf t.now ttl) = true) :
    Sim T (a.step (.incr k by_ ttl)).1 (t.step (.incr k by_ ttl)).1 ∧
    (a.step (.incr k by_ ttl)).2 = (t.step (.incr k by_ ttl)).2 := by
  obtain ⟨hx, hchar, _⟩ := seed_char h k
  simp only [ATx.step, TtlMap.step]
  generalize a.seed k = a1 at hx hchar
  cases ho : a1.ov.find k with
  | none =>
    rw [ho] at hchar
    simp only at hchar
    rw [TtlMap.incr_none ho, TtlMap.incr_none hchar]
    exact ⟨sim_put hx _ _ (dlAfter_incr_ttl hd _), rfl⟩
  | some e' =>
    rw [ho] at hchar
    simp only at hchar
    obtain ⟨_, hval⟩ := hchar
    cases hc : e'.val.toInt? with
    | none =>
      rw [TtlMap.incr_err ho hc]
      rcases hval with hval | ⟨h0, _⟩
      · cases hf : t.find k with
        | none => rw [hf] at hval; simp at hval
        | some e =>
          rw [hf] at hval; simp only [Option.map_some, Option.some.injEq] at hval
          rw [TtlMap.incr_err hf (by rw [hval]; exact hc)]
          refine ⟨?_, rfl⟩
          apply sim_undel hx
          rw [ho, hf]; simp [hval]
      · rw [h0] at hc; simp [Val.toInt?] at hc
    | some c =>
      rw [TtlMap.incr_some ho hc]
      rcases hval with hval | ⟨h0, hnone⟩
      · cases hf : t.find k with
        | none => rw [hf] at hval; simp at hval
        | some e =>
          rw [hf] at hval; simp only [Option.map_some, Option.some.injEq] at hval
          rw [TtlMap.incr_some hf (by rw [hval]; exact hc)]
          exact ⟨sim_put hx _ _ (dlAfter_incr_ttl hd _), rfl⟩
      · rw [h0] at hc
        have hc0 : c = 0 := by simp [Val.toInt?] at hc; exact hc.symm
        subst hc0
        rw [TtlMap.incr_none hnone]
        exact ⟨sim_put hx _ _ (dlAfter_incr_ttl hd _), rfl⟩

theorem sim_expire {T : Time} {a : ATx} {t : TtlMap} (h : Sim T a t) (k : Key) (ttl : Option Nat)
    (hd : dlAfter T (deadlineOf t.now ttl) = true) :
    Sim T (a.step (.expire k ttl)).1 (t.step (.expire k ttl)).1 := by
  have hv := h.vals' k
  simp only [ATx.step, TtlMap.step]
  by_cases hdel : k ∈ a.del
  · rw [if_pos hdel]
    have : t.find k = none := (h.view_none_iff k).mp (by simp [ATx.view, hdel])
    rw [this]; exact h
  · rw [if_neg hdel]
    simp only [ATx.view, hdel, if_false] at hv
    cases ho : a.ov.find k with
    | some e =>
      rw [ho] at hv
      cases hf : t.find k with
      | none => rw [hf] at hv; simp at hv
      | some e' =>
        rw [hf] at hv
        simp only [Option.some_or, Option.map_some, Option.some.injEq] at hv
        simp only [put_of_notDel hdel]
        rw [hv]
        exact sim_put (h.toX _) _ _ hd
    | none =>
      rw [ho] at hv
      simp only [Option.none_or] at hv
      cases hb : a.b.find k with
      | none =>
        rw [hb] at hv
        cases hf : t.find k with
        | none => exact h
        | some e' => rw [hf] at hv; simp at hv
      | some e =>
        rw [hb] at hv
        cases hf : t.find k with
        | none => rw [hf] at hv; simp at hv
        | some e' =>
          rw [hf] at hv
          simp only [Option.map_some, Option.some.injEq] at hv
          simp only [put_of_notDel hdel]
          rw [hv]
          exact sim_put (h.toX _) _ _ hd

theorem getOne_eq {T : Time} {a : ATx} {t : TtlMap} (h : Sim T a t) (k : Key) :
    a.getOne k = (t.find k).map (·.val) := by
  rw [← h.vals' k]
  unfold ATx.getOne ATx.view
  cases ho : a.ov.find k with
  | some e => simp [h.notDel_of_ov ho]
  | none => by_cases hd : k ∈ a.del <;> simp [hd]

theorem getExpire_obs {T : Time} {a : ATx} {t : TtlMap} (h : Sim T a t) (k : Key) :
    (a.getExpire k == -2) = (t.getExpire k == -2) := by
  have hiff : a.getExpire k = -2 ↔ t.getExpire k = -2 := by
    rw [TtlMap.getExpire_missing, ← h.view_none_iff k]
    unfold ATx.getExpire ATx.view
    by_cases hd : k ∈ a.del
    · simp [hd]
    · simp only [hd, if_false]
      rcases TtlMap.getExpire_cases a.ov k with ⟨h1, h2⟩ | ⟨h1, e, h2, _⟩ | ⟨h1, e, d, h2, _⟩
      · have hneg : ¬ (a.ov.getExpire k ≥ 0) := by omega
        have hne : ¬ (a.b.getExpire k = -2 ∧ a.ov.getExpire k = -1) := by omega
        simp only [hneg, if_false, hne, h2, Option.none_or]
        exact TtlMap.getExpire_missing a.b k
      · have hneg : ¬ (a.ov.getExpire k ≥ 0) := by omega
        simp only [hneg, if_false, h2, Option.some_or, reduceCtorEq, iff_false]
        split <;> omega
      · simp only [h1, if_true, h2, Option.some_or, reduceCtorEq, iff_false]
        omega
  by_cases h1 : a.getExpire k = -2
  · simp [h1, hiff.mp h1]
  · have h2 : ¬ t.getExpire k = -2 := fun x => h1 (hiff.mpr x)
    have e1 : (a.getExpire k == -2) = false := by simpa using h1
    have e2 : (t.getExpire k == -2) = false := by simpa using h2
    rw [e1, e2]

theorem find_adv_stable {T : Time} (t : TtlMap) (dt : Nat) (k : Key) (hle : t.now + dt ≤ T)
    (hst : ∀ e, t.find k = some e → dlAfter T e.dl = true) :
    ({ t with now := t.now + dt } : TtlMap).find k = t.find k := by
  rw [TtlMap.find_adv]
  cases hf : t.find k with
  | none => rfl
  | some e =>
    have := hst e hf
    have hl : e.live (t.now + dt) = true := by
      unfold Entry.live
      cases hd : e.dl with
      | none => rfl
      | some d => rw [hd] at this; simp [dlAfter] at this ⊢; omega
    simp [Option.filter, hl]

theorem sim_adv {T : Time} {a : ATx} {t : TtlMap} (h : Sim T a t) (dt : Nat) (hle : t.now + dt ≤ T) :
    Sim T { a with b := { a.b with now := a.b.now + dt }, ov := { a.ov with now := a.ov.now + dt } }
      { t with now := t.now + dt } := by
  have fb : ∀ k, ({ a.b with now := a.b.now + dt } : TtlMap).find k = a.b.find k :=
    fun k => find_adv_stable a.b dt k (by rw [h.nowb]; exact hle) (h.stb k)
  have fo : ∀ k, ({ a.ov with now := a.ov.now + dt } : TtlMap).find k = a.ov.find k :=
    fun k => find_adv_stable a.ov dt k (by rw [h.nowo]; exact hle) (h.sto k)
  have ft : ∀ k, ({ t with now := t.now + dt } : TtlMap).find k = t.find k :=
    fun k => find_adv_stable t dt k hle (h.stt k)
  refine ⟨by simp [h.nowb], by simp [h.nowo], hle, ?_, ?_, ?_, ?_, ?_⟩
  · intro k e he; rw [fb] at he; exact h.stb k e he
  · intro k e he; rw [fo] at he; exact h.sto k e he
  · intro k e he; rw [ft] at he; exact h.stt k e he
  · intro k _ hk; rw [fo]; exact h.disj' hk
  · intro k _
    have := h.vals' k
    simp only [ATx.view, fo, fb, ft] at this ⊢
    exact this

/-- **one command: the abstract transaction answers as direct execution does** -/
theorem sim_step {T : Time} {a : ATx} {t : TtlMap} (h : Sim T a t) (op : Op) (htx : op.isTxOp = true)
    (hd : ∀ ttl ∈ op.ttls, dlAfter T (deadlineOf t.now ttl) = true) (hle : t.now + op.dt ≤ T) :
    Sim T (a.step op).1 (t.step op).1 ∧ obs op (a.step op).2 = obs op (t.step op).2 := by
  cases op with
  | set k v ttl c =>
    have hdt := hd ttl (by simp [Op.ttls])
    have hp := h.present_eq k
    cases c with
    | always => exact ⟨sim_put (h.toX _) v ttl hdt, rfl⟩
    | nx =>
      simp only [ATx.step, TtlMap.step, hp]
      cases (t.find k).isSome
      · exact ⟨sim_put (h.toX _) v ttl hdt, rfl⟩
      · exact ⟨h, rfl⟩
    | xx =>
      simp only [ATx.step, TtlMap.step, hp]
      cases (t.find k).isSome
      · exact ⟨h, rfl⟩
      · exact ⟨sim_put (h.toX _) v ttl hdt, rfl⟩
  | setMany kvs ttl => exact ⟨sim_setMany kvs ttl h (hd ttl (by simp [Op.ttls])), rfl⟩
  | get k =>
    refine ⟨h, ?_⟩
    simp only [ATx.step, TtlMap.step, obs]
    rw [← h.vals' k]; unfold ATx.view
    by_cases hdel : k ∈ a.del <;> simp [hdel]
  | getMany ks =>
    refine ⟨h, ?_⟩
    simp only [ATx.step, TtlMap.step, obs]
    congr 1
    exact List.map_congr_left (fun k _ => getOne_eq h k)
  | exists_ k =>
    refine ⟨h, ?_⟩
    simp only [ATx.step, TtlMap.step, obs, h.present_eq k]
  | incr k by_ ttl =>
    have := sim_incr h k by_ ttl (hd ttl (by simp [Op.ttls]))
    exact ⟨this.1, by simp only [obs]; exact this.2⟩
  | delete k => exact ⟨sim_delete h k, rfl⟩
  | deleteMany ks => exact ⟨sim_deleteMany ks h, rfl⟩
  | expire k ttl =>
    refine ⟨sim_expire h k ttl (hd ttl (by simp [Op.ttls])), ?_⟩
    have e1 : (a.step (.expire k ttl)).2 = .unit := by
      simp only [ATx.step]; split
      · rfl
      · split
        · rfl
        · split <;> rfl
    have e2 : (t.step (.expire k ttl)).2 = .unit := by
      simp only [TtlMap.step]; split <;> rfl
    rw [e1, e2]
  | getExpire k =>
    refine ⟨h, ?_⟩
    simp only [ATx.step, TtlMap.step, obs, getExpire_obs h k]
  | clear => simp [Op.isTxOp] at htx
  | adv dt => exact ⟨sim_adv h dt (by simpa [Op.dt] using hle), rfl⟩
  | purge => exact ⟨h, rfl⟩

end CashewsVerif
