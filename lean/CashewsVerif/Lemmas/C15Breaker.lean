import CashewsVerif.Lemmas.C15Slide
/-
Helper lemmas for C15, circuit breaker: the two counters return exactly the counts of the
specification, the `:open` key is live exactly while the specification says "open".
-/
namespace CashewsVerif.Decor.Breaker
open CashewsVerif CashewsVerif.Decor CashewsVerif.Decor.Spec

/-! ### the float test is exact -/

/-- Why the integer rule `rate * total ≤ fails * 100` is exactly Python's float test
    `fails * 100 / total >= errors_rate`.  `fails * 100` and `total` are integers far below 2^53, so the
    float quotient is the correctly rounded value of the exact quotient `q`; rounding is monotone and
    the integer `rate` is representable, hence `q ≥ rate ⇒ fl(q) ≥ rate`.  Conversely, if `q < rate`
    then (this lemma) `rate - q ≥ 1/total ≥ 1/9999`, ten orders of magnitude above the rounding
    error `q·2⁻⁵³ < 10⁻¹²`, so `fl(q) < rate`.  (The harness also evaluates the real expression on
    every boundary pair.) -/
theorem trip_gap (rate total fails : Nat) (ht : total ≤ 9999) (hlt : fails * 100 < rate * total) :
    total ≤ 9999 * (rate * total - fails * 100) := by
  generalize rate * total = a at *
  omega

/-! ### counters -/

/-- instants of the earlier calls that were let through / that failed -/
def lgT (past : List BEv) : List Nat := (past.filter (·.admitted)).map (·.ts)
def lgF (past : List BEv) : List Nat := (past.filter (·.failed)).map (·.ts)

/-- a counter key whose every write appended (the cap was never reached) -/
def CntInv (t : TtlMap) (k period : Nat) (lg : List Nat) : Prop :=
  ∃ last, LogInv t k period lg last ∧ (t.m k ≠ none → last ∈ lg)

theorem CntInv.frame {t t' : TtlMap} {k period : Nat} {lg : List Nat}
    (h : CntInv t k period lg) (hm : t'.m k = t.m k) (hn : t.now ≤ t'.now) : CntInv t' k period lg := by
  obtain ⟨last, h1, h2⟩ := h
  exact ⟨last, h1.frame hm hn, by rw [hm]; exact h2⟩

/-- one counting command: it returns the specification's count and appends the instant -/
theorem cnt_step {t : TtlMap} {k period cap : Nat} {lg : List Nat} (hp : 0 < period)
    (h : CntInv t k period lg) (hlt : ∀ a ∈ lg, a < t.now) (hcap : lg.length < cap) :
    (sliceIncr t k period t.now cap (some period)).2 = winCount lg t.now period + 1 ∧
    CntInv (sliceIncr t k period t.now cap (some period)).1 k period (lg ++ [t.now]) := by
  obtain ⟨last, hlog, hmem⟩ := h
  have hts : t.m k = none ∨ last < t.now := by
    by_cases hn : t.m k = none
    · exact .inl hn
    · exact .inr (hlt _ (hmem hn))
  have hk := kept_of_logInv hlog hts
  have hklen : (kept t k period t.now).length < cap := by
    rw [hk]
    exact Nat.lt_of_le_of_lt (List.length_filter_le _ _) hcap
  have hstep := logInv_slice hp hlog hts cap
  rw [if_pos hklen] at hstep
  refine ⟨?_, ⟨t.now, hstep, fun _ => by simp⟩⟩
  rw [sliceIncr_val, if_pos hklen, hk]
  congr 1
  -- the kept entries are exactly the ones the specification counts
  unfold winCount
  rcases hlog with ⟨_, h2⟩ | ⟨L, h1, _, _, h4, _⟩
  · simp [h2]
  · have hn : t.m k ≠ none := by rw [h1]; simp
    have hlast := hmem hn
    have hlast_lt := hlt _ hlast
    by_cases hl : t.now < last + period
    · have : lg.any (fun a => decide (t.now < a + period)) = true := by
        rw [List.any_eq_true]
        exact ⟨last, hlast, by simp [hl]⟩
      rw [this, if_pos rfl, List.countP_eq_length_filter]
      congr 1
      apply List.filter_congr
      intro a ha
      have := hlt a ha
      simp [notOlder, inWindow, hl]
      omega
    · have : lg.any (fun a => decide (t.now < a + period)) = false := by
        rw [List.any_eq_false]
        intro a ha
        have := h4 a ha
        simp; omega
      rw [this]
      simp [hl]

/-! ### the `:open` key -/

def liveAt (c : Option Entry) (x : Nat) : Bool :=
  match c with
  | some e => e.live x
  | none => false

theorem isOpen_eq (t : TtlMap) : isOpen t = liveAt (t.m kOpen) t.now := by
  unfold isOpen liveAt TtlMap.find
  cases t.m kOpen with
  | none => rfl
  | some e => cases h : e.live t.now <;> simp [h]

/-- `:open` is live at every later instant exactly while the specification says "open" -/
def OpenInv (p : Params) (t : TtlMap) (past : List BEv) : Prop :=
  ∀ x, t.now ≤ x → liveAt (t.m kOpen) x = openAt p past x

theorem lgT_append (past : List BEv) (e : BEv) :
    lgT (past ++ [e]) = lgT past ++ (if e.admitted then [e.ts] else []) := by
  unfold lgT
  cases h : e.admitted <;> simp [List.filter_append, h]

theorem lgF_append (past : List BEv) (e : BEv) :
    lgF (past ++ [e]) = lgF past ++ (if e.failed then [e.ts] else []) := by
  unfold lgF
  cases h : e.failed <;> simp [List.filter_append, h]

theorem openAt_append (p : Params) (past : List BEv) (e : BEv) (x : Nat) :
    openAt p (past ++ [e]) x = (openAt p past x || (e.opened && decide (x < e.ts + p.ttl))) := by
  simp [openAt]

theorem openAt_later {p : Params} {past : List BEv} {now x : Nat} (h : openAt p past now = false) (hx : now ≤ x) :
    openAt p past x = false := by
  unfold openAt at h ⊢
  rw [List.any_eq_false] at h ⊢
  intro e he
  have := h e he
  simp at this ⊢
  intro ho
  have := this ho
  omega

/-- the reachable states of the breaker, tied to the observed trace -/
structure BInv (p : Params) (t : TtlMap) (past : List BEv) : Prop where
  total : CntInv t kTotal p.period (lgT past)
  fails : CntInv t kFails p.period (lgF past)
  open_ : OpenInv p t past
  ts_le : ∀ e ∈ past, e.ts ≤ t.now

theorem lg_lt {t : TtlMap} {past : List BEv} (hts : ∀ e ∈ past, e.ts ≤ t.now) {dt : Nat} (hdt : past = [] ∨ 0 < dt)
    (f : BEv → Bool) : ∀ a ∈ (past.filter f).map (·.ts), a < t.now + dt := by
  intro a ha
  rcases hdt with h | h
  · simp [h] at ha
  · simp only [List.mem_map, List.mem_filter] at ha
    obtain ⟨e, ⟨he, _⟩, rfl⟩ := ha
    have := hts e he
    omega

theorem binv_init (p : Params) : BInv p TtlMap.init [] where
  total := ⟨0, .inl ⟨rfl, rfl⟩, fun h => absurd rfl h⟩
  fails := ⟨0, .inl ⟨rfl, rfl⟩, fun h => absurd rfl h⟩
  open_ := by intro x _; simp [liveAt, openAt, TtlMap.init]
  ts_le := by simp

/-- **one call of the breaker does what the property says, and keeps the invariant** -/
theorem step_holds (p : Params) (hp : 0 < p.period) (httl : 0 < p.ttl) (t : TtlMap) (past : List BEv)
    (c : Nat × Outcome) (hinv : BInv p t past) (hdt : past = [] ∨ 0 < c.1) (hcap : past.length < p.cap) :
    breakerStepHolds p past (call p t c).2 = true ∧ BInv p (call p t c).1 (past ++ [(call p t c).2]) := by
  obtain ⟨dt, oc⟩ := c
  obtain ⟨hT, hF, hO, hts⟩ := hinv
  simp only at hdt
  have hnow0 : (t.step (.adv dt)).1.now = t.now + dt := rfl
  have hopen0 : isOpen (t.step (.adv dt)).1 = openAt p past (t.now + dt) := by
    rw [isOpen_eq, hnow0, TtlMap.adv_m]
    exact hO _ (by omega)
  have hts' : ∀ e ∈ past, e.ts ≤ t.now + dt := fun e he => by have := hts e he; omega
  by_cases hop : openAt p past (t.now + dt) = true
  · -- open: the call is rejected, nothing is written
    have hcall : call p t (dt, oc) = ((t.step (.adv dt)).1, { ts := t.now + dt, res := .rejected, openAfter := true }) := by
      simp [call, hopen0, hop, hnow0]
    rw [hcall]
    dsimp only
    refine ⟨by simp [breakerStepHolds, hop], ?_⟩
    refine ⟨?_, ?_, ?_, ?_⟩
    · rw [lgT_append]; simp only [BEv.admitted]
      simpa using hT.frame (t' := (t.step (.adv dt)).1) (by rw [TtlMap.adv_m]) (by rw [hnow0]; omega)
    · rw [lgF_append]; simp only [BEv.failed]
      simpa using hF.frame (t' := (t.step (.adv dt)).1) (by rw [TtlMap.adv_m]) (by rw [hnow0]; omega)
    · intro x hx
      rw [openAt_append, TtlMap.adv_m]
      simp only [BEv.opened, BEv.admitted]
      simpa using hO x (by rw [hnow0] at hx; omega)
    · intro e he
      rw [hnow0]
      rcases List.mem_append.mp he with he | he
      · exact hts' e he
      · simp at he; subst he; simp
  · -- closed: `:total` is counted, the function runs
    have hop' : openAt p past (t.now + dt) = false := by simpa using hop
    have hT0 : CntInv (t.step (.adv dt)).1 kTotal p.period (lgT past) :=
      hT.frame (t' := (t.step (.adv dt)).1) (by rw [TtlMap.adv_m]) (by rw [hnow0]; omega)
    have hcapT : (lgT past).length < p.cap := by
      unfold lgT; rw [List.length_map]; exact Nat.lt_of_le_of_lt (List.length_filter_le _ _) hcap
    have hcapF : (lgF past).length < p.cap := by
      unfold lgF; rw [List.length_map]; exact Nat.lt_of_le_of_lt (List.length_filter_le _ _) hcap
    obtain ⟨hval1, hT1⟩ := cnt_step (cap := p.cap) hp hT0 (by rw [hnow0]; exact lg_lt hts hdt _) hcapT
    rw [hnow0] at hval1 hT1
    generalize hst1 : sliceIncr (t.step (.adv dt)).1 kTotal p.period (t.now + dt) p.cap (some p.period) = r1 at hval1 hT1
    have hr1now : r1.1.now = t.now + dt := by rw [← hst1, sliceIncr_now]; rfl
    have hr1F : r1.1.m kFails = t.m kFails := by rw [← hst1, sliceIncr_m_other _ _ _ _ _ (by decide)]; rfl
    have hr1O : r1.1.m kOpen = t.m kOpen := by rw [← hst1, sliceIncr_m_other _ _ _ _ _ (by decide)]; rfl
    have hclosed : ∀ x, t.now + dt ≤ x → liveAt (t.m kOpen) x = false := by
      intro x hx
      rw [hO x (by omega)]
      exact openAt_later hop' hx
    by_cases hoc : oc = .fail
    · subst hoc
      have hF1 : CntInv r1.1 kFails p.period (lgF past) := hF.frame hr1F (by rw [hr1now]; omega)
      obtain ⟨hval2, hF2⟩ := cnt_step (cap := p.cap) hp hF1 (by rw [hr1now]; exact lg_lt hts hdt _) hcapF
      rw [hr1now] at hval2 hF2
      generalize hst2 : sliceIncr r1.1 kFails p.period (t.now + dt) p.cap (some p.period) = r2 at hval2 hF2
      have hr2now : r2.1.now = t.now + dt := by rw [← hst2, sliceIncr_now, hr1now]
      have hr2T : r2.1.m kTotal = r1.1.m kTotal := by rw [← hst2, sliceIncr_m_other _ _ _ _ _ (by decide)]
      have hr2O : r2.1.m kOpen = t.m kOpen := by rw [← hst2, sliceIncr_m_other _ _ _ _ _ (by decide), hr1O]
      have htrip : trips p r1.2 r2.2 = shouldOpen p past { ts := t.now + dt, res := .ran .fail true, openAfter := true } := by
        unfold trips shouldOpen totalAt failsAt
        rw [hval1, hval2]
        simp only [BEv.failed]
        change _ = (true && decide (p.minCalls ≤ winCount (lgT past) (t.now + dt) p.period + 1) &&
          decide (p.rate * (winCount (lgT past) (t.now + dt) p.period + 1) ≤ 100 * (winCount (lgF past) (t.now + dt) p.period + 1)))
        generalize winCount (lgT past) (t.now + dt) p.period = W
        generalize winCount (lgF past) (t.now + dt) p.period = V
        rw [Bool.eq_iff_iff]
        simp only [Bool.and_eq_true, decide_eq_true_eq, Bool.not_eq_true', decide_eq_false_iff_not, bne_iff_ne, ne_eq,
          Bool.true_and]
        generalize p.rate * (W + 1) = X
        omega
      by_cases htr : trips p r1.2 r2.2 = true
      · -- the breaker opens
        have hfind : r2.1.find kOpen = none := by
          have := hclosed (t.now + dt) (by omega)
          unfold liveAt at this
          unfold TtlMap.find
          rw [hr2O, hr2now]
          cases hc : t.m kOpen with
          | none => rfl
          | some e => rw [hc] at this; simp at this; simp [this]
        have hset : (r2.1.step (.set kOpen (.int 1) (some p.ttl) .nx)).1 = r2.1.write kOpen (.int 1) (some p.ttl) := by
          simp [TtlMap.step, hfind]
        have hcell : (r2.1.write kOpen (.int 1) (some p.ttl)).m kOpen = some ⟨.int 1, some (t.now + dt + p.ttl)⟩ := by
          rw [TtlMap.write_m_same, TtlMap.deadlineOf_pos _ httl, hr2now]
        have hopenAfter : isOpen (r2.1.write kOpen (.int 1) (some p.ttl)) = true := by
          rw [isOpen_eq, hcell]
          simp [liveAt, Entry.live, hr2now, httl]
        have hcall : call p t (dt, .fail) = (r2.1.write kOpen (.int 1) (some p.ttl),
            { ts := t.now + dt, res := .ran .fail true, total := r1.2, fails := r2.2, openAfter := true }) := by
          simp only [call, hopen0, hop', Bool.false_eq_true, if_false, count, hnow0, hst1, hr1now, hst2, htr, if_true, hset,
            hopenAfter]
        rw [hcall]
        dsimp only
        refine ⟨?_, ?_, ?_, ?_, ?_⟩
        · have : shouldOpen p past { ts := t.now + dt, res := .ran .fail true, total := r1.2, fails := r2.2, openAfter := true } = true := by
            rw [← htr, htrip]; rfl
          simp [breakerStepHolds, hop', BEv.admitted, BEv.opened, this]
        · rw [lgT_append]; simp only [BEv.admitted]
          simpa using hT1.frame (t' := r2.1.write kOpen (.int 1) (some p.ttl))
            (by rw [TtlMap.write_m_other _ _ _ (by decide), hr2T]) (by simp [hr2now, hr1now])
        · rw [lgF_append]; simp only [BEv.failed]
          simpa using hF2.frame (t' := r2.1.write kOpen (.int 1) (some p.ttl))
            (by rw [TtlMap.write_m_other _ _ _ (by decide)]) (by simp)
        · intro x hx
          simp only [TtlMap.write_now, hr2now] at hx
          rw [openAt_append, hcell, openAt_later hop' hx]
          simp [liveAt, Entry.live, BEv.opened, BEv.admitted]
        · intro e he
          simp only [TtlMap.write_now, hr2now]
          rcases List.mem_append.mp he with he | he
          · exact hts' e he
          · simp at he; subst he; simp
      · -- the failure does not trip the breaker
        have htr' : trips p r1.2 r2.2 = false := by simpa using htr
        have hopenAfter : isOpen r2.1 = false := by
          rw [isOpen_eq, hr2O, hr2now]; exact hclosed _ (by omega)
        have hcall : call p t (dt, .fail) = (r2.1,
            { ts := t.now + dt, res := .ran .fail false, total := r1.2, fails := r2.2, openAfter := false }) := by
          simp only [call, hopen0, hop', Bool.false_eq_true, if_false, count, hnow0, hst1, hr1now, hst2, htr', hopenAfter]
        rw [hcall]
        dsimp only
        refine ⟨?_, ?_, ?_, ?_, ?_⟩
        · have : shouldOpen p past { ts := t.now + dt, res := .ran .fail false, total := r1.2, fails := r2.2, openAfter := false } = false := by
            rw [← htr', htrip]; rfl
          simp [breakerStepHolds, hop', BEv.admitted, BEv.opened, this]
        · rw [lgT_append]; simp only [BEv.admitted]
          simpa using hT1.frame (t' := r2.1) hr2T (by simp [hr2now, hr1now])
        · rw [lgF_append]; simp only [BEv.failed]
          simpa using hF2
        · intro x hx
          rw [hr2now] at hx
          rw [openAt_append, hr2O, hclosed x hx, openAt_later hop' hx]
          simp [BEv.opened]
        · intro e he
          rw [hr2now]
          rcases List.mem_append.mp he with he | he
          · exact hts' e he
          · simp at he; subst he; simp
    · -- the function returns, or raises an exception that is not counted
      have hopenAfter : isOpen r1.1 = false := by
        rw [isOpen_eq, hr1O, hr1now]; exact hclosed _ (by omega)
      have hcall : call p t (dt, oc) = (r1.1, { ts := t.now + dt, res := .ran oc false, total := r1.2, openAfter := false }) := by
        cases oc with
        | fail => exact absurd rfl hoc
        | ok => simp only [call, hopen0, hop', Bool.false_eq_true, if_false, count, hnow0, hst1, hopenAfter]
        | other => simp only [call, hopen0, hop', Bool.false_eq_true, if_false, count, hnow0, hst1, hopenAfter]
      rw [hcall]
      dsimp only
      have hnf : BEv.failed { ts := t.now + dt, res := .ran oc false, total := r1.2, openAfter := false } = false := by
        cases oc with
        | fail => exact absurd rfl hoc
        | ok => rfl
        | other => rfl
      refine ⟨?_, ?_, ?_, ?_, ?_⟩
      · simp [breakerStepHolds, hop', BEv.admitted, BEv.opened, shouldOpen, hnf]
      · rw [lgT_append]; simp only [BEv.admitted]
        simpa using hT1
      · rw [lgF_append, hnf]
        simpa using hF.frame hr1F (by rw [hr1now]; omega)
      · intro x hx
        rw [hr1now] at hx
        rw [openAt_append, hr1O, hclosed x hx, openAt_later hop' hx]
        simp [BEv.opened]
      · intro e he
        rw [hr1now]
        rcases List.mem_append.mp he with he | he
        · exact hts' e he
        · simp at he; subst he; simp

theorem run_holds (p : Params) (hp : 0 < p.period) (httl : 0 < p.ttl) :
    ∀ (calls : List (Nat × Outcome)) (t : TtlMap) (past : List BEv), BInv p t past → (∀ c ∈ calls, 0 < c.1) →
      past.length + calls.length ≤ p.cap → breakerHoldsFrom p past (run p t calls) = true := by
  intro calls
  induction calls with
  | nil => intro t past _ _ _; rfl
  | cons c rest ih =>
    intro t past hinv hpos hlen
    simp only [List.length_cons] at hlen
    obtain ⟨h1, h2⟩ := step_holds p hp httl t past c hinv (.inr (hpos c (by simp))) (by omega)
    simp only [run, breakerHoldsFrom, h1, Bool.true_and]
    exact ih _ _ h2 (fun d hd => hpos d (by simp [hd])) (by simp; omega)

theorem run_holds_init (p : Params) (hp : 0 < p.period) (httl : 0 < p.ttl) (calls : List (Nat × Outcome))
    (hinc : StrictlyIncreasing (calls.map (·.1))) (hlen : calls.length ≤ p.cap) :
    breakerHolds p (run p TtlMap.init calls) = true := by
  unfold breakerHolds
  cases calls with
  | nil => rfl
  | cons c rest =>
    simp only [List.length_cons] at hlen
    obtain ⟨h1, h2⟩ := step_holds p hp httl TtlMap.init [] c (binv_init p) (.inl rfl) (by simp; omega)
    simp only [run, breakerHoldsFrom, h1, Bool.true_and]
    refine run_holds p hp httl rest _ _ h2 ?_ (by simp; omega)
    intro d hd
    exact hinc d.1 (List.mem_map.mpr ⟨d, hd, rfl⟩)

/-- reading one call off a conforming trace -/
theorem holdsFrom_split (p : Params) : ∀ (tr past0 a : List BEv) (e : BEv) (b : List BEv),
    breakerHoldsFrom p past0 tr = true → tr = a ++ e :: b → breakerStepHolds p (past0 ++ a) e = true := by
  intro tr
  induction tr with
  | nil => intro past0 a e b _ h; simp at h
  | cons x rest ih =>
    intro past0 a e b h hsplit
    simp only [breakerHoldsFrom, Bool.and_eq_true] at h
    cases a with
    | nil =>
      simp at hsplit
      simpa [hsplit.1] using h.1
    | cons y a' =>
      simp at hsplit
      have := ih (past0 ++ [x]) a' e b h.2 hsplit.2
      simpa [hsplit.1] using this

end CashewsVerif.Decor.Breaker
