import CashewsVerif.Lemmas.ClientSideInv2
/-
C20, the timeline of an outage of the invalidation connection:  drop → (commands, refused attempt)* → commands → reconnect.
What a client whose listener is not running, or whose local copy is empty, reads — in ANY state (no invariant needed).
-/
set_option linter.unusedSimpArgs false
namespace CashewsVerif.Redis.CS
open CashewsVerif CashewsVerif.Redis

/-- the local copy of client `i` cannot answer: the listener is stopped (reads bypass it) or it holds nothing -/
def NoLocalAnswer (st : St) (i : Nat) : Prop := (st.cl i).started = false ∨ ∀ k, (st.cl i).loc k = none

theorem lookup_none_of_noLocalAnswer (st : St) (i : Nat) (h : NoLocalAnswer st i) (k : String) :
    (if (st.cl i).started then (st.cl i).lfind (now st) k else none) = none := by
  rcases h with h | h
  · simp [h]
  · simp [Client.lfind, h k]

theorem get_of_noLocalAnswer (st : St) (i : Nat) (h : NoLocalAnswer st i) (k : String) :
    (step st (.get i k)).2 = .val (srvValue st k) := by
  simp only [step, lookup_none_of_noLocalAnswer st i h k]
  cases hv : srvValue st k <;> rfl

theorem exists_of_noLocalAnswer (st : St) (i : Nat) (h : NoLocalAnswer st i) (k : String) :
    (step st (.exists_ i k)).2 = .bool (st.srv.ks.present k) := by
  simp only [step, lookup_none_of_noLocalAnswer st i h k]

theorem getManyCore_of_noLocalAnswer (st : St) (i : Nat) (h : NoLocalAnswer st i) (ks : List String) :
    (getManyCore st i ks).2 = ks.map (srvValue st) := by
  simp only [getManyCore]
  apply List.map_congr_left
  intro k _
  simp only [lookup_none_of_noLocalAnswer st i h k]

theorem getMany_of_noLocalAnswer (st : St) (i : Nat) (h : NoLocalAnswer st i) (ks : List String) :
    (step st (.getMany i ks)).2 = .vals (ks.map (srvValue st)) := by
  simp only [step, getManyCore_of_noLocalAnswer st i h ks]

theorem getMatch_of_noLocalAnswer (st : St) (i : Nat) (h : NoLocalAnswer st i) (pat : String) :
    (step st (.getMatch i pat)).2 =
      .pairs ((Ref.matching st.srv.ks pat).filterMap fun k => (srvValue st k).map fun v => (k, v)) := by
  simp only [step, getManyCore_of_noLocalAnswer st i h]
  congr 1
  generalize Ref.matching st.srv.ks pat = ks
  induction ks with
  | nil => rfl
  | cons k ks ih => simp only [List.map_cons, List.zip_cons_cons, List.filterMap_cons, ih]

/-- a read made while the listener is stopped is remembered in the local copy (this is what a reconnect has to throw away) -/
theorem get_stopped_writes_local (st : St) (i : Nat) (hs : (st.cl i).started = false) (k : String) :
    ∃ dl, ((step st (.get i k)).1.cl i).loc k =
      some ⟨(match srvValue st k with | some v => .val v | none => .absent), dl⟩ := by
  simp only [step, hs, Bool.false_eq_true, if_false]
  cases hv : srvValue st k <;>
    exact ⟨((st.cl i).lfind (now st) k).bind (·.dl), by simp [upd, Client.lset, pxOf]⟩

end CashewsVerif.Redis.CS
