import CashewsVerif.Spec.TxBody
/- Nested blocks are flat: the sequential meaning of a body does not see the block markers, whichever way an inner block is left. -/
namespace CashewsVerif.TxSched

/-- a marker of a nested block: its `__aenter__`, or its `__aexit__` (the inner body ran to its end, or an exception left the
inner block and the enclosing body caught it) -/
def Cmd.isNest : Cmd → Bool
  | .nestIn _ => true
  | .nestOut _ => true
  | _ => false

/-- the body with every nested block inlined -/
def flatten (p : List Cmd) : List Cmd := p.filter (fun c => !c.isNest)

theorem flatten_cons (c : Cmd) (r : List Cmd) : flatten (c :: r) = if c.isNest then flatten r else c :: flatten r := by
  unfold flatten
  cases h : c.isNest <;> simp [h]

theorem specBody_flatten (p : List Cmd) : ∀ (rd : List (Option Int)) (s : BodySt),
    specBody p rd s = specBody (flatten p) rd s := by
  induction p with
  | nil => intro rd s; rfl
  | cons c r ih =>
    intro rd s
    rw [flatten_cons]
    cases c <;> simp only [Cmd.isNest, Bool.false_eq_true, if_false, if_true, specBody, ih]

end CashewsVerif.TxSched
