import CashewsVerif.Lemmas.C15Rate
import CashewsVerif.Model.Decor.RateSched
/-
Helper lemmas for C15, interleavings: under every schedule the counter values drawn by concurrent
callers of `rate_limit` form ramps 1,2,3,… (restarting at 1 when the counter has lapsed), and a
caller is admitted iff it drew a value ≤ limit.
-/
namespace CashewsVerif.Decor.Sched
open CashewsVerif CashewsVerif.Decor

/-- what an `incr` step of the schedule drew, and whether the caller went on to the function body -/
def atBody : Option Phase → Bool
  | some (.body _) => true
  | _ => false

def incrEvent (k : Kind) (w : World) : Act → Option (Nat × Bool)
  | .tick _ => none
  | .task i =>
    match (step k w (.task i)).2 with
    | .incr (.int n) => some (n.toNat, atBody (((step k w (.task i)).1.tasks[i]?).map (·.phase)))
    | _ => none

def incrEvents (k : Kind) : World → List Act → List (Nat × Bool)
  | _, [] => []
  | w, a :: rest => (incrEvent k w a).toList ++ incrEvents k (step k w a).1 rest

/-- each value is 1 (fresh counter) or the previous value plus one -/
def RampFrom : Nat → List Nat → Prop
  | _, [] => True
  | prev, n :: r => (n = 1 ∨ n = prev + 1) ∧ RampFrom n r

theorem rampFrom_append_left {prev : Nat} {a b : List Nat} (h : RampFrom prev (a ++ b)) : RampFrom prev a := by
  induction a generalizing prev with
  | nil => trivial
  | cons x r ih => exact ⟨h.1, ih h.2⟩

theorem rampFrom_append_right {prev : Nat} {a b : List Nat} (h : RampFrom prev (a ++ b)) : ∃ prev', RampFrom prev' b := by
  induction a generalizing prev with
  | nil => exact ⟨prev, h⟩
  | cons x r ih => exact ih h.2

theorem ramp_no_restart (L : Nat) : ∀ (r : List Nat) (x : Nat), RampFrom x r → (∀ n ∈ r, n ≠ 1) →
    r.countP (fun n => decide (n ≤ L)) ≤ L - x := by
  intro r
  induction r with
  | nil => intro x _ _; simp
  | cons y r ih =>
    intro x h hne
    have hy : y = x + 1 := by
      rcases h.1 with h1 | h1
      · exact absurd h1 (hne y (by simp))
      · exact h1
    have := ih y h.2 (fun n hn => hne n (by simp [hn]))
    rw [List.countP_cons]
    split <;> rename_i hc <;> simp at hc <;> omega

/-- **between two restarts of the counter at most `L` of the drawn values are ≤ L** -/
theorem ramp_segment (L prev : Nat) (a seg b : List Nat) (h : RampFrom prev (a ++ seg ++ b))
    (hseg : ∀ n ∈ seg.tail, n ≠ 1) : seg.countP (fun n => decide (n ≤ L)) ≤ L := by
  obtain ⟨prev', h'⟩ := rampFrom_append_right (rampFrom_append_left h)
  cases seg with
  | nil => simp
  | cons x r =>
    have hx : 1 ≤ x := by rcases h'.1 with h1 | h1 <;> omega
    have := ramp_no_restart L r x h'.2 hseg
    rw [List.countP_cons]
    split <;> rename_i hc <;> simp at hc <;> omega

/-! ### the counter under the interleaving semantics -/

/-- the counter cell holds `prev ≥ 1`, or was never written (`prev = 0`) -/
def CounterInv (w : World) (prev : Nat) : Prop :=
  (w.tm.m Rate.key = none ∧ prev = 0) ∨ (∃ dl, w.tm.m Rate.key = some ⟨.int prev, dl⟩ ∧ 1 ≤ prev)

theorem CounterInv.frame {w w' : World} {prev : Nat} (h : CounterInv w prev)
    (hm : w'.tm.m Rate.key = w.tm.m Rate.key) : CounterInv w' prev := by
  rcases h with ⟨h, h0⟩ | ⟨dl, h, h1⟩
  · exact .inl ⟨by rw [hm]; exact h, h0⟩
  · exact .inr ⟨dl, by rw [hm]; exact h, h1⟩

theorem find_counter {w : World} {prev : Nat} (h : CounterInv w prev) :
    w.tm.find Rate.key = none ∨ ∃ dl, w.tm.find Rate.key = some ⟨.int prev, dl⟩ ∧ 1 ≤ prev := by
  rcases h with ⟨h, _⟩ | ⟨dl, h, h1⟩
  · exact .inl (TtlMap.find_none h)
  · by_cases hl : (⟨.int prev, dl⟩ : Entry).live w.tm.now = true
    · exact .inr ⟨dl, TtlMap.find_live h hl, h1⟩
    · exact .inl (TtlMap.find_dead h (by simpa using hl))

theorem tasks_setPhase_get (ts : List Task) (i : Nat) (ph : Phase) :
    ((setPhase ts i ph)[i]?).map (·.phase) = (ts[i]?).map (fun _ => ph) := by
  induction ts generalizing i with
  | nil => simp [setPhase]
  | cons t r ih =>
    cases i with
    | zero => simp [setPhase]
    | succ j => simpa [setPhase] using ih j

/-- one step of the schedule: the counter invariant is kept, and an `incr` step draws 1 or `prev + 1`
    and admits the caller iff the value is within the limit -/
theorem step_counter (p : Rate.Params) (w : World) (prev : Nat) (a : Act) (h : CounterInv w prev) :
    match incrEvent (.fixed p) w a with
    | none => CounterInv (step (.fixed p) w a).1 prev
    | some (n, adm) => (n = 1 ∨ n = prev + 1) ∧ adm = decide (n ≤ p.limit) ∧ CounterInv (step (.fixed p) w a).1 n := by
  cases a with
  | tick dt =>
    simp only [incrEvent]
    exact h.frame rfl
  | task i =>
    unfold incrEvent
    simp only [step]
    cases hti : w.tasks[i]? with
    | none => simpa using h
    | some tk =>
      simp only []
      cases hph : tk.phase with
      | fxIncr =>
        simp only [stepTask, hph]
        have hstep : ∀ (t : TtlMap), t.step (.incr Rate.key 1 (some p.period)) = t.incr Rate.key 1 (some p.period) := fun _ => rfl
        rcases find_counter h with hf | ⟨dl, hf, h1⟩
        · -- fresh counter: draws 1
          rw [hstep, TtlMap.incr_find_none hf]
          simp only [show (0 : Int) + 1 = 1 from rfl]
          have hcell : ((w.tm.write Rate.key (.int 1) (if (1 : Int) = 1 then some p.period else none)).m Rate.key) =
              some ⟨.int (1 : Nat), _⟩ := TtlMap.write_m_same _ _ _ _
          by_cases hr : Rate.rejects p 1 = true
          · have hlim : p.limit = 0 := by
              unfold Rate.rejects at hr; simp at hr; omega
            by_cases hb : Rate.bans p 1 = true <;>
              simp [hr, hb, tasks_setPhase_get, hti, hlim, CounterInv, atBody] <;> exact ⟨_, hcell⟩
          · have hlim : 1 ≤ p.limit := by
              unfold Rate.rejects at hr; simp at hr; omega
            simp [hr, tasks_setPhase_get, hti, hlim, CounterInv, atBody]
            exact ⟨_, hcell⟩
        · -- live counter: draws prev + 1
          rw [hstep, TtlMap.incr_find_int hf]
          obtain ⟨dl', hcell⟩ : ∃ dl', ((w.tm.write Rate.key (.int ((prev : Int) + 1)) (if (prev : Int) + 1 = 1 then some p.period else none)).m Rate.key) =
              some ⟨.int ((prev + 1 : Nat) : Int), dl'⟩ := by
            rw [TtlMap.write_m_same]
            exact ⟨_, by rw [show ((prev + 1 : Nat) : Int) = (prev : Int) + 1 from by simp]⟩
          have htn : ((prev : Int) + 1).toNat = prev + 1 := by omega
          by_cases hr : Rate.rejects p ((prev : Int) + 1) = true
          · have hlim : p.limit < prev + 1 := by
              unfold Rate.rejects at hr; simp at hr; omega
            have hnl : ¬ (prev + 1 ≤ p.limit) := by omega
            by_cases hb : Rate.bans p ((prev : Int) + 1) = true <;>
              simp [hr, hb, tasks_setPhase_get, hti, htn, hnl, CounterInv, atBody] <;> exact ⟨_, hcell⟩
          · have hlim : prev + 1 ≤ p.limit := by
              unfold Rate.rejects at hr; simp at hr; omega
            simp [hr, tasks_setPhase_get, hti, htn, hlim, CounterInv, atBody]
            exact ⟨_, hcell⟩
      | fxExpire =>
        simp only [stepTask, hph]
        rcases find_counter h with hf | ⟨dl, hf, h1⟩
        · rw [TtlMap.expire_find_none hf]
          exact h.frame rfl
        · rw [TtlMap.expire_find_some hf]
          exact .inr ⟨_, TtlMap.write_m_same _ _ _ _, h1⟩
      | new => simp only [stepTask, hph]; exact h.frame rfl
      | body x => simp only [stepTask, hph]; exact h.frame rfl
      | slCount x => simp only [stepTask, hph]; exact h.frame rfl
      | brOpen => simp only [stepTask, hph]; exact h.frame rfl
      | brHalf => simp only [stepTask, hph]; exact h.frame rfl
      | brTotal x => simp only [stepTask, hph]; exact h.frame rfl
      | brFails x y => simp only [stepTask, hph]; exact h.frame rfl
      | brLock => simp only [stepTask, hph]; exact h.frame rfl
      | done x y => simp only [stepTask, hph]; exact h.frame rfl

theorem events_ramp (p : Rate.Params) : ∀ (acts : List Act) (w : World) (prev : Nat), CounterInv w prev →
    RampFrom prev ((incrEvents (.fixed p) w acts).map (·.1)) ∧
    ∀ e ∈ incrEvents (.fixed p) w acts, e.2 = decide (e.1 ≤ p.limit) := by
  intro acts
  induction acts with
  | nil => intro w prev _; simp [incrEvents, RampFrom]
  | cons a rest ih =>
    intro w prev h
    have hs := step_counter p w prev a h
    simp only [incrEvents]
    cases he : incrEvent (.fixed p) w a with
    | none =>
      rw [he] at hs
      simpa using ih _ prev hs
    | some e =>
      obtain ⟨n, adm⟩ := e
      rw [he] at hs
      obtain ⟨h1, h2, h3⟩ := hs
      obtain ⟨i1, i2⟩ := ih _ n h3
      refine ⟨?_, ?_⟩
      · simpa [RampFrom] using ⟨h1, i1⟩
      · intro e he'
        simp at he'
        rcases he' with rfl | he'
        · exact h2
        · exact i2 e he'

theorem counterInv_init (ocs : List Breaker.Outcome) : CounterInv (init ocs) 0 := .inl ⟨rfl, rfl⟩

/-! ### finished tasks stay finished; a caller that found the breaker open is finished without running -/

theorem tasks_setPhase_other (ts : List Task) {i j : Nat} (ph : Phase) (h : j ≠ i) :
    (setPhase ts i ph)[j]? = ts[j]? := by
  induction ts generalizing i j with
  | nil => simp [setPhase]
  | cons t r ih =>
    cases i with
    | zero =>
      cases j with
      | zero => exact absurd rfl h
      | succ j' => simp [setPhase]
    | succ i' =>
      cases j with
      | zero => simp [setPhase]
      | succ j' => simpa [setPhase] using ih (i := i') (j := j') (by omega)

theorem stepTask_done (k : Kind) (t : TtlMap) (tk : Task) (r o : Bool) (h : tk.phase = .done r o) :
    stepTask k t tk = (t, .done r o, .idle) := by
  cases k <;> simp [stepTask, h]

theorem step_done (k : Kind) (w : World) (a : Act) (i : Nat) (r o : Bool)
    (h : (w.tasks[i]?).map (·.phase) = some (.done r o)) :
    ((step k w a).1.tasks[i]?).map (·.phase) = some (.done r o) := by
  cases a with
  | tick dt => exact h
  | task j =>
    simp only [step]
    cases hj : w.tasks[j]? with
    | none => exact h
    | some tk =>
      simp only []
      by_cases hij : i = j
      · subst hij
        rw [hj] at h
        simp at h
        rw [stepTask_done k w.tm tk r o h, tasks_setPhase_get, hj]
        rfl
      · rw [tasks_setPhase_other _ _ hij]
        exact h

theorem run_done (k : Kind) (i : Nat) (r o : Bool) : ∀ (acts : List Act) (w : World),
    (w.tasks[i]?).map (·.phase) = some (.done r o) → ((run k w acts).1.tasks[i]?).map (·.phase) = some (.done r o) := by
  intro acts
  induction acts with
  | nil => intro w h; exact h
  | cons a rest ih =>
    intro w h
    simp only [run]
    exact ih _ (step_done k w a i r o h)

theorem step_isLocked_true (k : Kind) (w : World) (i : Nat) (h : (step k w (.task i)).2 = .isLocked true) :
    ((step k w (.task i)).1.tasks[i]?).map (·.phase) = some (.done false false) := by
  simp only [step] at h ⊢
  cases hi : w.tasks[i]? with
  | none => rw [hi] at h; simp at h
  | some tk =>
    rw [hi] at h
    simp only [] at h ⊢
    rw [tasks_setPhase_get, hi]
    cases k with
    | fixed p =>
      cases hph : tk.phase <;> simp [stepTask, hph] at h
      all_goals (repeat' split at h) <;> simp at h
    | slide p =>
      cases hph : tk.phase <;> simp [stepTask, hph] at h
      all_goals (repeat' split at h) <;> simp at h
    | breaker p =>
      cases hph : tk.phase <;> simp [stepTask, hph] at h ⊢
      all_goals (repeat' split at h) <;> simp_all

end CashewsVerif.Decor.Sched
