import CashewsVerif.Lemmas.Route
/-
C17 — the routing table as a state component: the table reached by a history of `setup()` calls
(new prefixes and re-registrations) holds, under each prefix, the backend of the LAST registration
of that prefix, and its prefixes are exactly the prefixes ever registered.
-/
namespace CashewsVerif.Route

theorem Table.ofList_snoc (regs : List (List Nat × Nat)) (r : List Nat × Nat) :
    Table.ofList (regs ++ [r]) = (Table.ofList regs).add r.1 r.2 := by
  simp [Table.ofList, List.foldl_append]

theorem dictGet_foldl_add (p : List Nat) : ∀ (regs : List (List Nat × Nat)) (t : Table),
    dictGet p (regs.foldl (fun t r => t.add r.1 r.2) t).regs =
      regs.foldl (fun acc r => if r.1 = p then some r.2 else acc) (dictGet p t.regs)
  | [], _ => rfl
  | r :: rs, t => by
    simp only [List.foldl_cons]
    rw [dictGet_foldl_add p rs (t.add r.1 r.2)]
    congr 1
    simp only [Table.add]
    rw [dictGet_dictSet]

/-- under each prefix the table holds the backend registered LAST under it -/
theorem Table.dictGet_ofList (regs : List (List Nat × Nat)) (p : List Nat) :
    dictGet p (Table.ofList regs).regs = lastReg regs p := by
  unfold Table.ofList lastReg
  rw [dictGet_foldl_add]
  rfl

theorem mem_prefixes_foldl_add (q : List Nat) : ∀ (regs : List (List Nat × Nat)) (t : Table),
    q ∈ (regs.foldl (fun t r => t.add r.1 r.2) t).prefixes ↔ q ∈ t.prefixes ∨ q ∈ regs.map (·.1)
  | [], _ => by simp
  | r :: rs, t => by
    simp only [List.foldl_cons]
    rw [mem_prefixes_foldl_add q rs (t.add r.1 r.2)]
    have : q ∈ (t.add r.1 r.2).prefixes ↔ q ∈ t.prefixes ∨ q = r.1 := by
      unfold Table.prefixes Table.add
      rw [dictSet_keys]
      split
      · rename_i h
        constructor
        · exact Or.inl
        · rintro (h' | rfl)
          · exact h'
          · exact h
      · simp
    rw [this]
    simp only [List.map_cons, List.mem_cons]
    constructor
    · rintro ((h | h) | h)
      · exact Or.inl h
      · exact Or.inr (Or.inl h)
      · exact Or.inr (Or.inr h)
    · rintro (h | h | h)
      · exact Or.inl (Or.inl h)
      · exact Or.inl (Or.inr h)
      · exact Or.inr h

/-- the prefixes of the table are the prefixes ever registered -/
theorem Table.mem_prefixes_ofList (regs : List (List Nat × Nat)) (q : List Nat) :
    q ∈ (Table.ofList regs).prefixes ↔ q ∈ regs.map (·.1) := by
  unfold Table.ofList
  rw [mem_prefixes_foldl_add]
  simp [Table.empty, Table.prefixes]

theorem Table.mem_regs_ofList (regs : List (List Nat × Nat)) (p : List Nat) (b : Nat) :
    (p, b) ∈ (Table.ofList regs).regs ↔ lastReg regs p = some b := by
  rw [← Table.dictGet_ofList]
  constructor
  · exact dictGet_of_mem (Table.wf_ofList regs)
  · exact mem_of_dictGet

/-- **routing after any history of registrations**: the backend of a key is the one registered LAST
under the longest prefix, among all prefixes ever registered, that matches the key -/
theorem Table.getBackend_ofList_iff (regs : List (List Nat × Nat)) (key : List Nat) (b : Nat) :
    (Table.ofList regs).getBackend key = some b ↔
      ∃ p, lastReg regs p = some b ∧ p <+: key ∧
        ∀ q ∈ regs.map (·.1), q <+: key → q.length ≤ p.length := by
  rw [Table.getBackend_iff (Table.wf_ofList regs)]
  constructor
  · rintro ⟨p, h1, h2, h3⟩
    exact ⟨p, (Table.mem_regs_ofList regs p b).1 h1, h2,
      fun q hq => h3 q ((Table.mem_prefixes_ofList regs q).2 hq)⟩
  · rintro ⟨p, h1, h2, h3⟩
    exact ⟨p, (Table.mem_regs_ofList regs p b).2 h1, h2,
      fun q hq => h3 q ((Table.mem_prefixes_ofList regs q).1 hq)⟩

/-- a backend is in the table iff it is the last registration of some prefix -/
theorem Table.mem_backends_ofList (regs : List (List Nat × Nat)) (b : Nat) :
    b ∈ (Table.ofList regs).backends ↔ ∃ p, lastReg regs p = some b := by
  unfold Table.backends
  constructor
  · intro h
    obtain ⟨⟨p, b'⟩, hm, rfl⟩ := List.mem_map.1 h
    exact ⟨p, (Table.mem_regs_ofList regs p b').1 hm⟩
  · rintro ⟨p, hp⟩
    exact List.mem_map.2 ⟨(p, b), (Table.mem_regs_ofList regs p b).2 hp, rfl⟩

/-- registering a prefix again: the keys it serves move to the new backend, at once -/
theorem lastReg_snoc (regs : List (List Nat × Nat)) (p q : List Nat) (b : Nat) :
    lastReg (regs ++ [(p, b)]) q = if p = q then some b else lastReg regs q := by
  simp [lastReg, List.foldl_append]

end CashewsVerif.Route
