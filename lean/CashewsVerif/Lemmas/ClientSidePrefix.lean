import CashewsVerif.Model.ClientSidePrefix
/- C20: prefixing and unprefixing of keys (`_add_prefix` / `_remove_prefix`). -/
namespace CashewsVerif.Redis.CS

theorem removePrefix_addPrefix (p k : String) : removePrefix p (addPrefix p k) = k := by
  simp [removePrefix, addPrefix, String.toList_append]

theorem addPrefix_injective (p : String) {k k' : String} (h : addPrefix p k = addPrefix p k') : k = k' := by
  have := congrArg (removePrefix p) h
  simpa [removePrefix_addPrefix] using this

theorem map_removePrefix_addPrefix (p : String) (ks : List String) : (ks.map (addPrefix p)).map (removePrefix p) = ks := by
  induction ks with
  | nil => rfl
  | cons k ks ih => simp only [List.map_cons, removePrefix_addPrefix, ih]

theorem applyWire_wireMsg (p : String) (c : Client) (now : Nat) (m : Msg) :
    c.applyWire p now (wireMsg p m) = c.applyMsg now m := by
  cases m with
  | flush => rfl
  | keys ks =>
    simp only [wireMsg, Client.applyWire, Client.applyMsg]
    induction ks generalizing c with
    | nil => rfl
    | cons k ks ih => simp only [List.map_cons, List.foldl_cons, removePrefix_addPrefix, ih]

end CashewsVerif.Redis.CS
