import CashewsVerif.Lemmas.TxSchedInv
/- The lock invariant: while every transaction is within its timeout, a lock a task believes it holds
is recorded in the store under that task's token with a lease that outlasts the transaction. -/
namespace CashewsVerif.TxSched

/-- `t'` comes from `t` by task-local code: identity fields kept, the locks it believes to hold kept -/
structure Task.Frame (t t' : Task) : Prop where
  isTx : t'.isTx = t.isTx
  mode : t'.mode = t.mode
  timeout : t'.timeout = t.timeout
  enterAt : t'.enterAt = t.enterAt
  ctx : t'.ctx = t.ctx
  held : t'.held = t.locks

theorem Frame_abort (t : Task) (o : Outcome) : Task.Frame t (abort t o) := by
  unfold abort; split <;> constructor <;> simp_all [Task.held]

theorem Frame_afterCommit (t : Task) : Task.Frame t (afterCommit t) := by
  unfold afterCommit; split <;> constructor <;> simp_all [Task.held]

theorem Frame_endOfProg (t : Task) : Task.Frame t (endOfProg t) := by
  unfold endOfProg
  split
  · split
    · constructor <;> simp [Task.held]
    · split
      · constructor <;> simp [Task.held]
      · have h := Frame_afterCommit { t with prog := [] }
        exact ⟨h.isTx, h.mode, h.timeout, h.enterAt, h.ctx, h.held⟩
  · constructor <;> simp [Task.held]

theorem Frame_lockOrFail (t : Task) (k : Nat) (prog : List Cmd) : Task.Frame t (lockOrFail t k prog) := by
  unfold lockOrFail
  split
  · exact Frame_abort t _
  · constructor <;> simp [Task.held]

theorem Frame_park (now : Nat) (t : Task) (c : Cmd) (rest : List Cmd) (hl : localCmd t c = none) :
    Task.Frame t (park now t c rest) := by
  cases c <;> simp only [park]
  case sleep d => constructor <;> simp [Task.held]
  case raise b => exact Frame_abort t _
  case commit =>
    split
    · constructor <;> simp [Task.held]
    · split <;> constructor <;> simp [Task.held]
  case rollback => constructor <;> simp [Task.held]
  case set k v => split; exact Frame_lockOrFail _ _ _; constructor <;> simp [Task.held]
  case delete k => split; exact Frame_lockOrFail _ _ _; constructor <;> simp [Task.held]
  case incr k n =>
    split
    · split
      · constructor <;> simp [Task.held]
      · exact Frame_lockOrFail _ _ _
    · constructor <;> simp [Task.held]
  case get k => split <;> constructor <;> simp [Task.held]
  case expire k =>
    split
    · split
      · constructor <;> simp [Task.held]
      · exact Frame_lockOrFail _ _ _
    · constructor <;> simp [Task.held]
  case setx k v e =>
    split
    · split
      · constructor <;> simp [Task.held]
      · exact Frame_lockOrFail _ _ _
    · constructor <;> simp [Task.held]
  case nestIn f => simp [localCmd] at hl
  case nestOut => simp [localCmd] at hl

/-- deciding a conditional `set` is task-local code -/
theorem setxApply_frame (t : Task) (k : Nat) (v : Int) (e p : Bool) :
    (setxApply t k v e p).isTx = t.isTx ∧ (setxApply t k v e p).mode = t.mode ∧ (setxApply t k v e p).timeout = t.timeout ∧
    (setxApply t k v e p).enterAt = t.enterAt ∧ (setxApply t k v e p).ctx = t.ctx ∧ (setxApply t k v e p).locks = t.locks ∧
    (setxApply t k v e p).reads = t.reads ∧ (setxApply t k v e p).form = t.form ∧ (setxApply t k v e p).prog = t.prog ∧
    (setxApply t k v e p).pc = t.pc := by
  unfold setxApply; split <;> simp

theorem localCmd_frame {t t' : Task} {c : Cmd} (hl : localCmd t c = some t') :
    t'.isTx = t.isTx ∧ t'.mode = t.mode ∧ t'.timeout = t.timeout ∧ t'.enterAt = t.enterAt ∧ t'.ctx = t.ctx ∧
    t'.locks = t.locks ∧ t'.reads = t.reads ∧ t'.form = t.form := by
  cases c <;> simp only [localCmd] at hl
  case set k v => split at hl <;> simp at hl; subst hl; simp
  case incr k n =>
    split at hl
    · split at hl
      · simp at hl; subst hl; simp
      · split at hl <;> simp at hl; subst hl; simp
    · simp at hl
  case get k =>
    split at hl
    · split at hl
      · simp at hl; subst hl; simp
      · split at hl <;> simp at hl; subst hl; simp
    · simp at hl
  case delete k => split at hl <;> simp at hl; subst hl; simp
  case expire k =>
    split at hl
    · split at hl
      · simp at hl; subst hl; simp
      · split at hl <;> simp at hl; subst hl; simp
    · simp at hl
  case setx k v e =>
    have f := fun p => setxApply_frame t k v e p
    split at hl
    · split at hl
      · simp at hl; subst hl; exact ⟨(f _).1, (f _).2.1, (f _).2.2.1, (f _).2.2.2.1, (f _).2.2.2.2.1, (f _).2.2.2.2.2.1, (f _).2.2.2.2.2.2.1, (f _).2.2.2.2.2.2.2.1⟩
      · split at hl <;> simp at hl; subst hl; exact ⟨(f _).1, (f _).2.1, (f _).2.2.1, (f _).2.2.2.1, (f _).2.2.2.2.1, (f _).2.2.2.2.2.1, (f _).2.2.2.2.2.2.1, (f _).2.2.2.2.2.2.2.1⟩
    · simp at hl
  case sleep d => simp at hl
  case raise => simp at hl
  case nestIn f => simp at hl; subst hl; simp
  case nestOut => simp at hl; subst hl; simp
  case commit =>
    split at hl
    · split at hl <;> simp at hl
      subst hl; simp
    · simp at hl; subst hl; simp
  case rollback =>
    split at hl
    · split at hl <;> simp at hl
      subst hl; simp
    · simp at hl; subst hl; simp

theorem Frame_settle (now : Nat) (prog : List Cmd) (t : Task) : Task.Frame t (settle now prog t) := by
  refine settle_ind (R := fun _ t' => t'.isTx = t.isTx ∧ t'.mode = t.mode ∧ t'.timeout = t.timeout ∧
      t'.enterAt = t.enterAt ∧ t'.ctx = t.ctx ∧ t'.locks = t.locks) (P := Task.Frame t) now ?_ ?_ ?_ prog t
      ⟨rfl, rfl, rfl, rfl, rfl, rfl⟩
  · intro t1 c rest t2 h hl
    have := localCmd_frame hl
    simp_all
  · intro t1 h
    have f := Frame_endOfProg t1
    exact ⟨f.isTx.trans h.1, f.mode.trans h.2.1, f.timeout.trans h.2.2.1, f.enterAt.trans h.2.2.2.1,
      f.ctx.trans h.2.2.2.2.1, f.held.trans h.2.2.2.2.2⟩
  · intro t1 c rest h hl
    have f := Frame_park now t1 c rest hl
    exact ⟨f.isTx.trans h.1, f.mode.trans h.2.1, f.timeout.trans h.2.2.1, f.enterAt.trans h.2.2.2.1,
      f.ctx.trans h.2.2.2.2.1, f.held.trans h.2.2.2.2.2⟩

/-- buffering the backend's value for `expire` is task-local as well -/
theorem expBuffer_frame (t : Task) (k : Nat) (cur : Option Int) :
    (expBuffer t k cur).isTx = t.isTx ∧ (expBuffer t k cur).mode = t.mode ∧ (expBuffer t k cur).timeout = t.timeout ∧
    (expBuffer t k cur).enterAt = t.enterAt ∧ (expBuffer t k cur).ctx = t.ctx ∧ (expBuffer t k cur).locks = t.locks ∧
    (expBuffer t k cur).prog = t.prog ∧ (expBuffer t k cur).del = t.del ∧ (expBuffer t k cur).results = t.results ∧
    (expBuffer t k cur).reads = t.reads ++ [cur] := by
  cases cur <;> simp [expBuffer]

theorem Frame_settle_expBuffer (now : Nat) (t : Task) (k : Nat) (cur : Option Int) :
    Task.Frame t (settle now (expBuffer t k cur).prog (expBuffer t k cur)) := by
  have f := Frame_settle now (expBuffer t k cur).prog (expBuffer t k cur)
  have e := expBuffer_frame t k cur
  exact ⟨f.isTx.trans e.1, f.mode.trans e.2.1, f.timeout.trans e.2.2.1, f.enterAt.trans e.2.2.2.1,
    f.ctx.trans e.2.2.2.2.1, f.held.trans e.2.2.2.2.2.1⟩

theorem Frame_settle_setx (now : Nat) (t : Task) (k : Nat) (v : Int) (e p : Bool) (x : Option Int) :
    Task.Frame t (settle now (setxApply { t with reads := t.reads ++ [x] } k v e p).prog
      (setxApply { t with reads := t.reads ++ [x] } k v e p)) := by
  have f := Frame_settle now (setxApply { t with reads := t.reads ++ [x] } k v e p).prog
    (setxApply { t with reads := t.reads ++ [x] } k v e p)
  have g := setxApply_frame { t with reads := t.reads ++ [x] } k v e p
  exact ⟨f.isTx.trans g.1, f.mode.trans g.2.1, f.timeout.trans g.2.2.1, f.enterAt.trans g.2.2.2.1,
    f.ctx.trans g.2.2.2.2.1, f.held.trans g.2.2.2.2.2.1⟩

theorem Frame_afterMid (now : Nat) (t : Task) : Task.Frame t (afterMid now t) := by
  unfold afterMid
  split
  · rename_i hl
    have f := Frame_settle now t.prog { t with cmuts := t.cmuts ++ commitMutsOf t.ov t.del, ov := [], del := [],
                                               cinc := t.cinc ++ t.pend, pend := [] }
    exact ⟨f.isTx, f.mode, f.timeout, f.enterAt, f.ctx, f.held⟩
  · constructor <;> simp [Task.held]

/-- being cancelled keeps identity and held locks -/
theorem cancel_frame (t : Task) :
    (cancelTask t).isTx = t.isTx ∧ (cancelTask t).mode = t.mode ∧ (cancelTask t).timeout = t.timeout ∧
    (cancelTask t).enterAt = t.enterAt ∧ (cancelTask t).ctx = t.ctx ∧ (cancelTask t).held = t.held := by
  have f := Frame_abort t .cancelled
  unfold cancelTask
  split <;> first
    | (rename_i hpc; exact ⟨f.isTx, f.mode, f.timeout, f.enterAt, f.ctx, by rw [f.held]; simp [Task.held, hpc]⟩)
    | simp

/-- waking up keeps identity and held locks -/
theorem wake_frame (now : Nat) (t : Task) :
    (wake now t).isTx = t.isTx ∧ (wake now t).mode = t.mode ∧ (wake now t).timeout = t.timeout ∧
    (wake now t).enterAt = t.enterAt ∧ (wake now t).ctx = t.ctx ∧ (wake now t).held = t.held := by
  unfold wake
  split
  · rename_i w hpc
    split
    · have f := Frame_settle now t.prog t
      exact ⟨f.isTx, f.mode, f.timeout, f.enterAt, f.ctx, by rw [f.held]; simp [Task.held, hpc]⟩
    · simp
  · rename_i k left w hpc
    split
    · split
      · have f := Frame_abort t .raisedLocked
        exact ⟨f.isTx, f.mode, f.timeout, f.enterAt, f.ctx, by rw [f.held]; simp [Task.held, hpc]⟩
      · simp [Task.held, hpc]
    · simp
  · simp

/-- the task is inside its transaction: entered, not yet finished (commit / rollback and unlock included) -/
def Task.inTx (t : Task) : Prop := t.ctx = true ∧ ∀ o, t.pc ≠ .finished o

/-- **within the timeout**: every task that is inside its transaction entered it less than `timeout` ago -/
def World.Safe (w : World) : Prop :=
  ∀ i, (w.tasks i).inTx → w.now < (w.tasks i).enterAt + (w.tasks i).timeout

structure World.LockInv (w : World) : Prop where
  owned : ∀ i l, l ∈ (w.tasks i).held →
    ∃ d, w.lock l = some (i, d) ∧ (w.tasks i).enterAt + (w.tasks i).timeout ≤ d
  entered : ∀ i, (w.tasks i).ctx = true → (w.tasks i).enterAt ≤ w.now

theorem held_inTx {t : Task} (h : t.TI) {l : LockKey} (hl : l ∈ t.held) : t.inTx := by
  constructor
  · cases hc : t.ctx
    · have h1 := (h.noctx hc).1
      have h2 := h.noctx_pc hc
      unfold Task.held at hl
      split at hl
      · rename_i hpc; simp [hpc, PC.plainOk] at h2
      · rename_i hpc; simp [hpc, PC.plainOk] at h2
      · simp [h1] at hl
    · rfl
  · intro o hpc
    have := h.fin o hpc
    simp [Task.held, hpc, this] at hl

/-- a held lock is live: its lease outlasts the transaction, which is still within its timeout -/
theorem World.LockInv.live {w : World} (hi : w.LockInv) (hti : w.AllTI) (hs : w.Safe) {i : Nat} {l : LockKey}
    (hl : l ∈ (w.tasks i).held) : ∃ d, w.lock l = some (i, d) ∧ w.now < d := by
  obtain ⟨d, h1, h2⟩ := hi.owned i l hl
  have := hs i (held_inTx (hti i) hl)
  exact ⟨d, h1, by omega⟩

/-- **mutual exclusion of lock holders** -/
theorem World.LockInv.exclusive {w : World} (hi : w.LockInv) {i j : Nat} {l : LockKey}
    (h1 : l ∈ (w.tasks i).held) (h2 : l ∈ (w.tasks j).held) : i = j := by
  obtain ⟨d1, e1, _⟩ := hi.owned i l h1
  obtain ⟨d2, e2, _⟩ := hi.owned j l h2
  rw [e1] at e2
  simp at e2
  exact e2.1

theorem TI.ctx_of_pc {t : Task} (h : t.TI) (hp : ¬ t.pc.plainOk) : t.ctx = true := by
  cases hc : t.ctx
  · exact absurd (h.noctx_pc hc) hp
  · rfl

theorem TI.noctx_of_pc {t : Task} (h : t.TI) (hp : ¬ t.pc.txOk) : t.ctx = false := by
  cases hc : t.ctx
  · rfl
  · exact absurd (h.ctx_pc hc) hp

theorem unlockOne_ne (lock : Locks) (l : LockKey) (tid now : Nat) {l' : LockKey} (h : l' ≠ l) :
    unlockOne lock l tid now l' = lock l' := by
  unfold unlockOne
  cases hl : lock l with
  | none => rfl
  | some p =>
    obtain ⟨o, d⟩ := p
    dsimp only
    split
    · simp [h]
    · rfl

theorem unlockOne_owner (lock : Locks) (l : LockKey) (tid now : Nat) {o d : Nat} (h : lock l = some (o, d)) (ho : o ≠ tid) :
    unlockOne lock l tid now = lock := by
  unfold unlockOne
  rw [h]
  simp [ho]

/-- assembling the invariant after a step of `tid` from three facts about that step -/
theorem LockInv_runTask_of (w : World) (tid : Nat) (hi : w.LockInv)
    (hother : ∀ i, i ≠ tid → ∀ l, l ∈ (w.tasks i).held →
      (taskStep tid w.now w.store w.lock (w.tasks tid)).lock l = w.lock l)
    (hown : ∀ l, l ∈ (taskStep tid w.now w.store w.lock (w.tasks tid)).task.held →
      ∃ d, (taskStep tid w.now w.store w.lock (w.tasks tid)).lock l = some (tid, d) ∧
        (taskStep tid w.now w.store w.lock (w.tasks tid)).task.enterAt +
          (taskStep tid w.now w.store w.lock (w.tasks tid)).task.timeout ≤ d)
    (hent : (taskStep tid w.now w.store w.lock (w.tasks tid)).task.ctx = true →
      (taskStep tid w.now w.store w.lock (w.tasks tid)).task.enterAt ≤ w.now) :
    (w.runTask tid).LockInv := by
  constructor
  · intro i l hl
    by_cases hne : i = tid
    · subst hne
      simp only [runTask_tasks_self, runTask_lock] at hl ⊢
      exact hown l hl
    · rw [runTask_tasks_ne w tid hne] at hl ⊢
      simp only [runTask_lock]
      rw [hother i hne l hl]
      exact hi.owned i l hl
  · intro i hc
    by_cases hne : i = tid
    · subst hne
      simp only [runTask_tasks_self, runTask_now] at hc ⊢
      exact hent hc
    · rw [runTask_tasks_ne w tid hne] at hc ⊢
      exact hi.entered i hc

/-- the step's task result keeps identity and held locks, and the lock table is untouched -/
theorem LockInv_runTask_same (w : World) (tid : Nat) (hi : w.LockInv)
    (hl : (taskStep tid w.now w.store w.lock (w.tasks tid)).lock = w.lock)
    (hh : (taskStep tid w.now w.store w.lock (w.tasks tid)).task.held = (w.tasks tid).held)
    (he : (taskStep tid w.now w.store w.lock (w.tasks tid)).task.enterAt = (w.tasks tid).enterAt)
    (hto : (taskStep tid w.now w.store w.lock (w.tasks tid)).task.timeout = (w.tasks tid).timeout)
    (hc : (taskStep tid w.now w.store w.lock (w.tasks tid)).task.ctx = (w.tasks tid).ctx) :
    (w.runTask tid).LockInv := by
  refine LockInv_runTask_of w tid hi ?_ ?_ ?_
  · intro i _ l _; rw [hl]
  · intro l hl'; rw [hl, he, hto]; rw [hh] at hl'; exact hi.owned tid l hl'
  · intro hc'; rw [he]; rw [hc] at hc'; exact hi.entered tid hc'

theorem LockInv_runTask (w : World) (tid : Nat) (hti : w.AllTI) (hi : w.LockInv) (hs : w.Safe) :
    (w.runTask tid).LockInv := by
  have ht := hti tid
  cases hpc : (w.tasks tid).pc
  case start =>
    have hcf := TI.noctx_of_pc ht (by simp [hpc, PC.txOk])
    have hl0 := (ht.noctx hcf).1
    refine LockInv_runTask_of w tid hi ?_ ?_ ?_ <;> rw [taskStep_start _ _ _ _ _ hpc]
    · intro i _ l _; rfl
    · intro l hl
      have f := Frame_settle w.now (if (w.tasks tid).isTx then { w.tasks tid with ctx := true, enterAt := w.now } else w.tasks tid).prog
        (if (w.tasks tid).isTx then { w.tasks tid with ctx := true, enterAt := w.now } else w.tasks tid)
      dsimp only at hl
      rw [f.held] at hl
      split at hl <;> simp [hl0] at hl
    · intro hc
      have f := Frame_settle w.now (if (w.tasks tid).isTx then { w.tasks tid with ctx := true, enterAt := w.now } else w.tasks tid).prog
        (if (w.tasks tid).isTx then { w.tasks tid with ctx := true, enterAt := w.now } else w.tasks tid)
      dsimp only at hc ⊢
      rw [f.enterAt]
      rw [f.ctx] at hc
      split
      · simp
      · rename_i hx; simp [hx, hcf] at hc
  case lockTry k left =>
    have hw := ht.waiting k left (Or.inl hpc)
    have hc := TI.ctx_of_pc ht (by simp [hpc, PC.plainOk])
    cases hf : lockFree w.lock (lockKeyOf (w.tasks tid).mode k) w.now
    · refine LockInv_runTask_same w tid hi ?_ ?_ ?_ ?_ ?_ <;> rw [taskStep_lockTry_busy _ _ _ _ _ hpc hf] <;>
        simp [Task.held, hpc]
    · refine LockInv_runTask_of w tid hi ?_ ?_ ?_ <;> rw [taskStep_lockTry_free _ _ _ _ _ hpc hf]
      · intro i hne l hl
        obtain ⟨d, e, hd⟩ := hi.live hti hs hl
        dsimp only
        split
        · rename_i heq; subst heq
          simp [lockFree, e] at hf; omega
        · rfl
      · intro l hl
        have f := Frame_settle w.now (w.tasks tid).prog { w.tasks tid with locks := insertLock (lockKeyOf (w.tasks tid).mode k) (w.tasks tid).locks }
        dsimp only at hl ⊢
        rw [f.held] at hl
        rw [f.enterAt, f.timeout]
        rcases mem_insertLock.mp hl with rfl | hl
        · exact ⟨w.now + (w.tasks tid).timeout, by simp, by have := hi.entered tid hc; simp; omega⟩
        · have hne : l ≠ lockKeyOf (w.tasks tid).mode k := fun h => hw.2 (h ▸ hl)
          obtain ⟨d, e, hd⟩ := hi.owned tid l (by simpa [Task.held, hpc] using hl)
          exact ⟨d, by simp [hne, e], hd⟩
      · intro hc'
        have f := Frame_settle w.now (w.tasks tid).prog { w.tasks tid with locks := insertLock (lockKeyOf (w.tasks tid).mode k) (w.tasks tid).locks }
        dsimp only
        rw [f.enterAt]
        exact hi.entered tid hc
  case lockSleep k left wk =>
    refine LockInv_runTask_same w tid hi ?_ ?_ ?_ ?_ ?_ <;> rw [taskStep_lockSleep _ _ _ _ _ hpc]
  case bodySleep wk =>
    refine LockInv_runTask_same w tid hi ?_ ?_ ?_ ?_ ?_ <;> rw [taskStep_bodySleep _ _ _ _ _ hpc]
  case finished o =>
    refine LockInv_runTask_same w tid hi ?_ ?_ ?_ ?_ ?_ <;> rw [taskStep_finished _ _ _ _ _ hpc]
  case seedGet k n =>
    refine LockInv_runTask_same w tid hi ?_ ?_ ?_ ?_ ?_ <;> rw [taskStep_seedGet _ _ _ _ _ hpc] <;> dsimp only
    · exact (Frame_settle _ _ _).held.trans (by simp [Task.held, hpc])
    · exact (Frame_settle _ _ _).enterAt
    · exact (Frame_settle _ _ _).timeout
    · exact (Frame_settle _ _ _).ctx
  case readGet k =>
    refine LockInv_runTask_same w tid hi ?_ ?_ ?_ ?_ ?_ <;> rw [taskStep_readGet _ _ _ _ _ hpc] <;> dsimp only
    · exact (Frame_settle _ _ _).held.trans (by simp [Task.held, hpc])
    · exact (Frame_settle _ _ _).enterAt
    · exact (Frame_settle _ _ _).timeout
    · exact (Frame_settle _ _ _).ctx
  case expGet k =>
    have f := Frame_settle_expBuffer w.now (w.tasks tid) k (w.store k)
    refine LockInv_runTask_same w tid hi ?_ ?_ ?_ ?_ ?_ <;> rw [taskStep_expGet _ _ _ _ _ hpc] <;> dsimp only
    · exact f.held.trans (by simp [Task.held, hpc])
    · exact f.enterAt
    · exact f.timeout
    · exact f.ctx
  case existsGet k v e =>
    have f := Frame_settle_setx w.now (w.tasks tid) k v e (w.store k).isSome (w.store k)
    refine LockInv_runTask_same w tid hi ?_ ?_ ?_ ?_ ?_ <;> rw [taskStep_existsGet _ _ _ _ _ hpc] <;> dsimp only
    · exact f.held.trans (by simp [Task.held, hpc])
    · exact f.enterAt
    · exact f.timeout
    · exact f.ctx
  case direct c =>
    have hheld : (w.tasks tid).held = (w.tasks tid).locks := by simp [Task.held, hpc]
    refine LockInv_runTask_same w tid hi ?_ ?_ ?_ ?_ ?_ <;> rw [taskStep_direct _ _ _ _ _ hpc] <;>
      unfold directStep <;> split <;> (try rfl) <;> dsimp only
    all_goals first
      | exact (Frame_settle _ _ _).held.trans (by simp [Task.held, hpc])
      | exact (Frame_settle _ _ _).enterAt
      | exact (Frame_settle _ _ _).timeout
      | exact (Frame_settle _ _ _).ctx
  case commitDel =>
    refine LockInv_runTask_same w tid hi ?_ ?_ ?_ ?_ ?_ <;> rw [taskStep_commitDel _ _ _ _ _ hpc] <;> dsimp only
    · split
      · simp [Task.held, hpc]
      · exact (Frame_afterCommit _).held.trans (by simp [Task.held, hpc])
    · split
      · rfl
      · exact (Frame_afterCommit _).enterAt
    · split
      · rfl
      · exact (Frame_afterCommit _).timeout
    · split
      · rfl
      · exact (Frame_afterCommit _).ctx
  case commitSet =>
    refine LockInv_runTask_same w tid hi ?_ ?_ ?_ ?_ ?_ <;> rw [taskStep_commitSet _ _ _ _ _ hpc] <;> dsimp only
    · exact (Frame_afterCommit _).held.trans (by simp [Task.held, hpc])
    · exact (Frame_afterCommit _).enterAt
    · exact (Frame_afterCommit _).timeout
    · exact (Frame_afterCommit _).ctx
  case unlocking ls o =>
    have hu := ht.unl ls o hpc
    cases ls with
    | nil =>
      refine LockInv_runTask_same w tid hi ?_ ?_ ?_ ?_ ?_ <;> rw [taskStep_unlocking_nil _ _ _ _ _ hpc] <;>
        simp [Task.held, hpc]
    | cons l rest =>
      have hn := List.nodup_cons.mp hu.2.1
      refine LockInv_runTask_of w tid hi ?_ ?_ ?_ <;> rw [taskStep_unlocking_cons _ _ _ _ _ hpc] <;> dsimp only
      · intro i hne l' hl'
        obtain ⟨d, e, hd⟩ := hi.owned i l' hl'
        by_cases hl0 : l' = l
        · subst hl0; rw [unlockOne_owner _ _ _ _ e hne]
        · exact unlockOne_ne _ _ _ _ hl0
      · intro l' hl'
        have hmem : l' ∈ rest := by
          split at hl' <;> simp_all [Task.held]
        have hne : l' ≠ l := fun h => hn.1 (h ▸ hmem)
        obtain ⟨d, e, hd⟩ := hi.owned tid l' (by simp [Task.held, hpc, hu.1, hmem])
        exact ⟨d, by rw [unlockOne_ne _ _ _ _ hne]; exact e, hd⟩
      · intro hc; exact hi.entered tid hc
  case midDel =>
    refine LockInv_runTask_same w tid hi ?_ ?_ ?_ ?_ ?_ <;> rw [taskStep_midDel _ _ _ _ _ hpc] <;> dsimp only
    · split
      · simp [Task.held, hpc]
      · exact (Frame_afterMid _ _).held.trans (by simp [Task.held, hpc])
    · split
      · rfl
      · exact (Frame_afterMid _ _).enterAt
    · split
      · rfl
      · exact (Frame_afterMid _ _).timeout
    · split
      · rfl
      · exact (Frame_afterMid _ _).ctx
  case midSet =>
    refine LockInv_runTask_same w tid hi ?_ ?_ ?_ ?_ ?_ <;> rw [taskStep_midSet _ _ _ _ _ hpc] <;> dsimp only
    · exact (Frame_afterMid _ _).held.trans (by simp [Task.held, hpc])
    · exact (Frame_afterMid _ _).enterAt
    · exact (Frame_afterMid _ _).timeout
    · exact (Frame_afterMid _ _).ctx
  case midUnlock ls =>
    have hu := ht.mid ls hpc
    cases ls with
    | nil =>
      refine LockInv_runTask_same w tid hi ?_ ?_ ?_ ?_ ?_ <;> rw [taskStep_midUnlock_nil _ _ _ _ _ hpc] <;> dsimp only
      · exact (Frame_settle _ _ _).held.trans (by simp [Task.held, hpc])
      · exact (Frame_settle _ _ _).enterAt
      · exact (Frame_settle _ _ _).timeout
      · exact (Frame_settle _ _ _).ctx
    | cons l rest =>
      have hn := List.nodup_cons.mp hu.2.2.2.1
      refine LockInv_runTask_of w tid hi ?_ ?_ ?_ <;> rw [taskStep_midUnlock_cons _ _ _ _ _ hpc] <;> dsimp only
      · intro i hne l' hl'
        obtain ⟨d, e, hd⟩ := hi.owned i l' hl'
        by_cases hl0 : l' = l
        · subst hl0; rw [unlockOne_owner _ _ _ _ e hne]
        · exact unlockOne_ne _ _ _ _ hl0
      · intro l' hl'
        by_cases hr : rest = []
        · exfalso
          rw [if_pos hr, (Frame_settle _ _ _).held, hu.1] at hl'
          cases hl'
        · rw [if_neg hr] at hl' ⊢
          have hmem : l' ∈ rest := by simpa [Task.held, hu.1] using hl'
          have hne : l' ≠ l := fun h => hn.1 (h ▸ hmem)
          obtain ⟨d, e, hd⟩ := hi.owned tid l' (by simp [Task.held, hpc, hu.1, hmem])
          exact ⟨d, by rw [unlockOne_ne _ _ _ _ hne]; exact e, hd⟩
      · intro hc
        by_cases hr : rest = []
        · rw [if_pos hr] at hc ⊢
          rw [(Frame_settle _ _ _).enterAt]
          rw [(Frame_settle _ _ _).ctx] at hc
          exact hi.entered tid hc
        · rw [if_neg hr] at hc ⊢
          exact hi.entered tid hc

theorem LockInv_step (w : World) (a : Act) (hti : w.AllTI) (hi : w.LockInv) (hs : w.Safe) : (w.step a).LockInv := by
  cases a with
  | run tid => exact LockInv_runTask w tid hti hi hs
  | adv d =>
    constructor
    · intro i l hl
      have f := wake_frame (w.now + d) (w.tasks i)
      simp only [World.step] at hl ⊢
      rw [f.2.2.2.2.2] at hl
      rw [f.2.2.1, f.2.2.2.1]
      exact hi.owned i l hl
    · intro i hc
      have f := wake_frame (w.now + d) (w.tasks i)
      simp only [World.step] at hc ⊢
      rw [f.2.2.2.2.1] at hc
      rw [f.2.2.2.1]
      have := hi.entered i hc
      omega
  | cancel tid =>
    constructor
    · intro i l hl
      simp only [World.step] at hl ⊢
      by_cases hit : i = tid
      · have f := cancel_frame (w.tasks i)
        rw [if_pos hit] at hl ⊢
        rw [f.2.2.2.2.2] at hl
        rw [f.2.2.1, f.2.2.2.1]
        exact hi.owned i l hl
      · rw [if_neg hit] at hl ⊢
        exact hi.owned i l hl
    · intro i hc
      simp only [World.step] at hc ⊢
      by_cases hit : i = tid
      · have f := cancel_frame (w.tasks i)
        rw [if_pos hit] at hc ⊢
        rw [f.2.2.2.2.1] at hc
        rw [f.2.2.2.1]
        exact hi.entered i hc
      · rw [if_neg hit] at hc ⊢
        exact hi.entered i hc

theorem LockInv_init (store : Store) (ts : List Task) (h : ∀ t ∈ ts, t.Fresh) : (World.init store ts).LockInv := by
  have hti := AllTI_init store ts h
  constructor
  · intro i l hl
    have hin := held_inTx (hti i) hl
    exfalso
    have : ((World.init store ts).tasks i).ctx = false := by
      show (ts.getD i Task.inert).ctx = false
      by_cases hi : i < ts.length
      · rw [List.getD_eq_getElem?_getD, List.getElem?_eq_getElem hi]; exact (h _ (List.getElem_mem hi)).ctx
      · rw [List.getD_eq_getElem?_getD, List.getElem?_eq_none (by omega)]; rfl
    rw [hin.1] at this; cases this
  · intro i hc
    exfalso
    have : ((World.init store ts).tasks i).ctx = false := by
      show (ts.getD i Task.inert).ctx = false
      by_cases hi : i < ts.length
      · rw [List.getD_eq_getElem?_getD, List.getElem?_eq_getElem hi]; exact (h _ (List.getElem_mem hi)).ctx
      · rw [List.getD_eq_getElem?_getD, List.getElem?_eq_none (by omega)]; rfl
    rw [hc] at this; cases this

/-- "every transaction finishes within its timeout", as a condition on a schedule: in every state the
schedule passes through, each task that is inside its transaction entered it less than `timeout` ago -/
def WithinTimeout (w : World) (sched : List Act) : Prop := ∀ p, p <+: sched → (w.run p).Safe

/-- all structural + lock invariants along a schedule that stays within the timeouts -/
theorem LockInv_run (store : Store) (ts : List Task) (h : ∀ t ∈ ts, t.Fresh) (sched : List Act)
    (hs : WithinTimeout (World.init store ts) sched) :
    ((World.init store ts).run sched).AllTI ∧ ((World.init store ts).run sched).LockInv := by
  refine run_invariant_under (P := fun w => w.AllTI ∧ w.LockInv) (S := World.Safe) ?_ sched _
    ⟨AllTI_init store ts h, LockInv_init store ts h⟩ hs
  intro w a hp hsafe
  exact ⟨AllTI_step w a hp.1, LockInv_step w a hp.1 hp.2 hsafe⟩

end CashewsVerif.TxSched
