import CashewsVerif.Lemmas.Disable
/-
C17 — lemmas about overlapping calls of a decorated function (`cstart / cfinish / crun / cdrain` of
`Model/Disable.lean`).
-/
namespace CashewsVerif.Disable
open CashewsVerif.Route

theorem regs_isEmpty_false {t : Table} (h : t.regs ≠ []) : t.regs.isEmpty = false := by
  cases hr : t.regs with
  | nil => exact absurd hr h
  | cons _ _ => rfl

theorem takeFlight_spec (c : Nat) : ∀ (l : List Flight) (f : Flight) (r : List Flight),
    takeFlight c l = some (f, r) → f.call = c ∧ l.Perm (f :: r)
  | [], f, r, h => by simp [takeFlight] at h
  | g :: l, f, r, h => by
    unfold takeFlight at h
    by_cases hg : g.call = c
    · simp only [hg, if_true, Option.some.injEq, Prod.mk.injEq] at h
      obtain ⟨rfl, rfl⟩ := h
      exact ⟨hg, List.Perm.refl _⟩
    · simp only [hg, if_false] at h
      cases ht : takeFlight c l with
      | none => simp [ht] at h
      | some p =>
        obtain ⟨f', r'⟩ := p
        simp only [ht, Option.some.injEq, Prod.mk.injEq] at h
        obtain ⟨rfl, rfl⟩ := h
        have ih := takeFlight_spec c l f' r' ht
        exact ⟨ih.1, (List.Perm.cons g ih.2).trans (List.Perm.swap _ _ _)⟩

theorem takeFlight_head (f : Flight) (r : List Flight) : takeFlight f.call (f :: r) = some (f, r) := by
  simp [takeFlight]

theorem lookupKey_mem {k : List Nat} {e : Nat} : ∀ {l : List (List Nat × Nat)},
    lookupKey k l = some e → (k, e) ∈ l
  | [], h => by simp [lookupKey] at h
  | (k', e') :: l, h => by
    unfold lookupKey at h
    by_cases hk : k' = k
    · simp only [hk, if_true, Option.some.injEq] at h
      subst h; subst hk
      exact List.mem_cons_self
    · simp only [hk, if_false] at h
      exact List.mem_cons_of_mem _ (lookupKey_mem h)

theorem findLeader_spec {key : List Nat} {f : Flight} : ∀ {l : List Flight},
    findLeader key l = some f → f ∈ l ∧ f.key = key ∧ ∃ e st, f.role = .own e true st
  | [], h => by simp [findLeader] at h
  | g :: l, h => by
    unfold findLeader at h
    split at h
    · rename_i e st hr
      by_cases hk : g.key = key
      · simp only [hk, if_true, Option.some.injEq] at h
        subst h
        exact ⟨List.mem_cons_self, hk, e, st, hr⟩
      · simp only [hk, if_false] at h
        have ih := findLeader_spec h
        exact ⟨List.mem_cons_of_mem _ ih.1, ih.2⟩
    · have ih := findLeader_spec h
      exact ⟨List.mem_cons_of_mem _ ih.1, ih.2⟩

/-! ### every call starts while the cache is fully disabled -/

/-- (caller, execution it runs) of a call in flight -/
def Flight.pair (f : Flight) : Nat × Nat := (f.call, f.role.exec?.getD 0)

/-- the state reached when all calls `ids` (in this order) started under a full disable -/
structure AllBypass (s : CSt) (ids : List Nat) : Prop where
  execs : s.execs = ids.length
  calls : s.calls = []
  nc : s.nc = []
  cached : s.cached = []
  roles : ∀ f ∈ s.flights, ∃ e, f.role = .bypass e
  perm : (s.results ++ s.flights.map Flight.pair).Perm ids.zipIdx

theorem AllBypass.init : AllBypass CSt.init [] :=
  ⟨rfl, rfl, rfl, rfl, by simp [CSt.init], by simp [CSt.init]⟩

theorem AllBypass.start {t : Table} {s : CSt} {ids : List Nat} (h : AllBypass s ids)
    (hreg : t.regs ≠ []) (prot : Bool) (w : World) (call ctx : Nat) (key : List Nat)
    (hfull : facadeFullDisable t w ctx = true) :
    AllBypass (cstart t prot w s call ctx key) (ids ++ [call]) := by
  have hs : cstart t prot w s call ctx key =
      { s with execs := s.execs + 1, flights := s.flights ++ [⟨call, key, .bypass s.execs⟩] } := by
    simp [cstart, regs_isEmpty_false hreg, hfull]
  rw [hs]
  refine ⟨by simp [h.execs], h.calls, h.nc, h.cached, ?_, ?_⟩
  · intro f hf
    rcases List.mem_append.1 hf with hf | hf
    · exact h.roles f hf
    · simp only [List.mem_singleton] at hf
      exact ⟨s.execs, by rw [hf]⟩
  · have hz : (ids ++ [call]).zipIdx = ids.zipIdx ++ [(call, ids.length)] := by
      simp [List.zipIdx_append]
    rw [hz]
    simp only [List.map_append, List.map_cons, List.map_nil, Flight.pair, Role.exec?,
      Option.getD_some, ← List.append_assoc, h.execs]
    exact List.Perm.append_right _ h.perm

theorem AllBypass.finish {s : CSt} {ids : List Nat} (h : AllBypass s ids) (c : Nat) :
    AllBypass (cfinish s c) ids := by
  unfold cfinish
  cases ht : takeFlight c s.flights with
  | none => exact h
  | some p =>
    obtain ⟨f, rest⟩ := p
    obtain ⟨hc, hp⟩ := takeFlight_spec c _ _ _ ht
    have hfm : f ∈ s.flights := hp.mem_iff.2 List.mem_cons_self
    obtain ⟨e, he⟩ := h.roles f hfm
    simp only [he]
    refine ⟨h.execs, h.calls, h.nc, h.cached, ?_, ?_⟩
    · intro g hg
      exact h.roles g (hp.mem_iff.2 (List.mem_cons_of_mem _ hg))
    · have h1 : (s.results ++ s.flights.map Flight.pair).Perm
          (s.results ++ (f :: rest).map Flight.pair) :=
        List.Perm.append_left _ (hp.map _)
      have h2 : (s.results ++ (f :: rest).map Flight.pair).Perm
          (s.results ++ [(c, e)] ++ rest.map Flight.pair) := by
        simp only [List.map_cons, Flight.pair, he, Role.exec?, Option.getD_some, hc,
          List.append_assoc, List.singleton_append]
        exact List.Perm.refl _
      exact (h2.symm.trans h1.symm).trans h.perm

theorem AllBypass.drainN {ids : List Nat} : ∀ (n : Nat) {s : CSt}, AllBypass s ids →
    AllBypass (cdrainN n s) ids ∧ (s.flights.length ≤ n → (cdrainN n s).flights = [])
  | 0, s, h => ⟨h, fun hl => List.eq_nil_of_length_eq_zero (Nat.le_zero.1 hl)⟩
  | n + 1, s, h => by
    unfold cdrainN
    cases hf : s.flights with
    | nil => exact ⟨h, fun _ => hf⟩
    | cons f r =>
      simp only
      have hfin := h.finish f.call
      have hfl : (cfinish s f.call).flights = r := by
        obtain ⟨e, he⟩ := h.roles f (by rw [hf]; exact List.mem_cons_self)
        simp [cfinish, hf, takeFlight_head, he]
      have ih := AllBypass.drainN n hfin
      refine ⟨ih.1, fun hl => ih.2 ?_⟩
      rw [hfl]
      simp only [List.length_cons] at hl
      omega

theorem AllBypass.run {t : Table} (hreg : t.regs ≠ []) (prot : Bool) :
    ∀ (evs : List CEv) (r : CRun) (ids : List Nat), AllBypass r.s ids → AllStartsFull t r.w evs →
      AllBypass (crun t prot r evs).s (ids ++ CEv.starts evs)
  | [], r, ids, h, _ => by simpa [crun, CEv.starts] using h
  | .start call ctx key :: evs, r, ids, h, hf => by
    obtain ⟨hfull, hrest⟩ := hf
    have := AllBypass.run hreg prot evs (cstep t prot r (.start call ctx key)) (ids ++ [call])
      (h.start hreg prot r.w call ctx key hfull) hrest
    simpa [crun, CEv.starts, List.append_assoc] using this
  | .finish call :: evs, r, ids, h, hf => by
    have := AllBypass.run hreg prot evs (cstep t prot r (.finish call)) ids (h.finish call) hf
    simpa [crun, CEv.starts] using this
  | .ctl op :: evs, r, ids, h, hf => by
    have := AllBypass.run hreg prot evs (cstep t prot r (.ctl op)) ids h hf
    simpa [crun, CEv.starts] using this

/-! ### one fully disabled call among arbitrary others -/

/-- execution numbers in use are below the counter -/
structure Bounded (s : CSt) : Prop where
  cached : ∀ p ∈ s.cached, p.2 < s.execs
  flights : ∀ f ∈ s.flights, ∀ e, f.role.exec? = some e → e < s.execs
  results : ∀ p ∈ s.results, p.2 < s.execs

theorem Bounded.init : Bounded CSt.init := ⟨by simp [CSt.init], by simp [CSt.init], by simp [CSt.init]⟩

/-- what a starting call can do to the state (`calls` and `nc` aside) -/
theorem cstart_cases (t : Table) (prot : Bool) (w : World) (s : CSt) (call ctx : Nat) (key : List Nat) :
    (cstart t prot w s call ctx key).cached = s.cached ∧
    (((cstart t prot w s call ctx key).execs = s.execs ∧
        (cstart t prot w s call ctx key).flights = s.flights ∧
        (cstart t prot w s call ctx key).results = s.results) ∨
     (∃ role, role.exec? = some s.execs ∧
        (cstart t prot w s call ctx key).execs = s.execs + 1 ∧
        (cstart t prot w s call ctx key).flights = s.flights ++ [⟨call, key, role⟩] ∧
        (cstart t prot w s call ctx key).results = s.results) ∨
     (∃ l, (cstart t prot w s call ctx key).execs = s.execs ∧
        (cstart t prot w s call ctx key).flights = s.flights ++ [⟨call, key, .joined l⟩] ∧
        (cstart t prot w s call ctx key).results = s.results) ∨
     (∃ e, (key, e) ∈ s.cached ∧ (cstart t prot w s call ctx key).execs = s.execs ∧
        (cstart t prot w s call ctx key).flights = s.flights ∧
        (cstart t prot w s call ctx key).results = s.results ++ [(call, e)])) := by
  unfold cstart
  split
  · exact ⟨rfl, Or.inl ⟨rfl, rfl, rfl⟩⟩
  split
  · exact ⟨rfl, Or.inr (Or.inl ⟨_, rfl, rfl, rfl, rfl⟩)⟩
  split
  · exact ⟨rfl, Or.inr (Or.inr (Or.inl ⟨_, rfl, rfl, rfl⟩))⟩
  split
  · exact ⟨rfl, Or.inl ⟨rfl, rfl, rfl⟩⟩
  unfold cstartOn
  split
  · rename_i e hl
    refine ⟨rfl, Or.inr (Or.inr (Or.inr ⟨e, ?_, rfl, rfl, rfl⟩))⟩
    split at hl
    · exact lookupKey_mem hl
    · simp at hl
  · exact ⟨rfl, Or.inr (Or.inl ⟨_, rfl, rfl, rfl, rfl⟩)⟩

theorem Bounded.start {s : CSt} (h : Bounded s) (t : Table) (prot : Bool) (w : World)
    (call ctx : Nat) (key : List Nat) : Bounded (cstart t prot w s call ctx key) := by
  have up : ∀ x, x < s.execs → x < s.execs + 1 := fun _ hx => Nat.lt_succ_of_lt hx
  obtain ⟨hc, hcase⟩ := cstart_cases t prot w s call ctx key
  rcases hcase with ⟨he, hf, hr⟩ | ⟨role, hro, he, hf, hr⟩ | ⟨l, he, hf, hr⟩ | ⟨e, hm, he, hf, hr⟩
  · exact ⟨by rw [hc, he]; exact h.cached, by rw [hf, he]; exact h.flights, by rw [hr, he]; exact h.results⟩
  · refine ⟨by rw [hc, he]; exact fun p hp => up _ (h.cached p hp), ?_,
      by rw [hr, he]; exact fun p hp => up _ (h.results p hp)⟩
    rw [hf, he]
    intro f hf' e he'
    rcases List.mem_append.1 hf' with hf' | hf'
    · exact up _ (h.flights f hf' e he')
    · simp only [List.mem_singleton] at hf'
      subst hf'
      simp only [hro, Option.some.injEq] at he'
      omega
  · refine ⟨by rw [hc, he]; exact h.cached, ?_, by rw [hr, he]; exact h.results⟩
    rw [hf, he]
    intro f hf' e he'
    rcases List.mem_append.1 hf' with hf' | hf'
    · exact h.flights f hf' e he'
    · simp only [List.mem_singleton] at hf'
      subst hf'
      simp [Role.exec?] at he'
  · refine ⟨by rw [hc, he]; exact h.cached, by rw [hf, he]; exact h.flights, ?_⟩
    rw [hr, he]
    intro p hp
    rcases List.mem_append.1 hp with hp | hp
    · exact h.results p hp
    · simp only [List.mem_singleton] at hp
      subst hp
      exact h.cached _ hm

theorem Bounded.finish {s : CSt} (h : Bounded s) (c : Nat) : Bounded (cfinish s c) := by
  unfold cfinish
  cases ht : takeFlight c s.flights with
  | none => exact h
  | some p =>
    obtain ⟨f, rest⟩ := p
    obtain ⟨_, hp⟩ := takeFlight_spec c _ _ _ ht
    have hfm : f ∈ s.flights := hp.mem_iff.2 List.mem_cons_self
    have hrest : ∀ g ∈ rest, g ∈ s.flights := fun g hg => hp.mem_iff.2 (List.mem_cons_of_mem _ hg)
    cases hr : f.role with
    | joined l => simpa only [hr] using h
    | bypass e =>
      simp only [hr]
      have he : e < s.execs := h.flights f hfm e (by simp [hr, Role.exec?])
      refine ⟨h.cached, fun g hg => h.flights g (hrest g hg), ?_⟩
      intro p hp'
      rcases List.mem_append.1 hp' with hp' | hp'
      · exact h.results p hp'
      · simp only [List.mem_singleton] at hp'
        subst hp'
        exact he
    | own e j st =>
      simp only [hr]
      have he : e < s.execs := h.flights f hfm e (by simp [hr, Role.exec?])
      refine ⟨?_, fun g hg => h.flights g (hrest g (List.mem_filter.1 hg).1), ?_⟩
      · intro p hp'
        cases st with
        | none => exact h.cached p hp'
        | some b =>
          rcases List.mem_cons.1 hp' with hp' | hp'
          · subst hp'
            exact he
          · exact h.cached p hp'
      · intro p hp'
        simp only [List.mem_append, List.mem_singleton, List.mem_map] at hp'
        rcases hp' with (hp' | hp') | ⟨g, _, hp'⟩
        · exact h.results p hp'
        · subst hp'
          exact he
        · subst hp'
          exact he

theorem Bounded.step {r : CRun} (h : Bounded r.s) (t : Table) (prot : Bool) (ev : CEv) :
    Bounded (cstep t prot r ev).s := by
  cases ev with
  | start call ctx key => exact h.start t prot r.w call ctx key
  | finish call => exact h.finish call
  | ctl op => exact h

theorem Bounded.run (t : Table) (prot : Bool) : ∀ (evs : List CEv) (r : CRun), Bounded r.s →
    Bounded (crun t prot r evs).s
  | [], _, h => h
  | ev :: evs, r, h => by
    have := Bounded.run t prot evs (cstep t prot r ev) (h.step t prot ev)
    simpa [crun] using this

/-- execution `e`, started by call `c` under a full disable, is `c`'s alone: it is never stored, no
other call in flight runs or awaits it, no other caller was handed its outcome, and `c` itself is
still running it or has been handed it -/
structure Private (s : CSt) (c : Nat) (key : List Nat) (e : Nat) : Prop where
  lt : e < s.execs
  cached : ∀ p ∈ s.cached, p.2 ≠ e
  flights : ∀ f ∈ s.flights, f.role.exec? = some e → f = ⟨c, key, .bypass e⟩
  results : ∀ p ∈ s.results, p.2 = e → p.1 = c
  mine : ⟨c, key, .bypass e⟩ ∈ s.flights ∨ (c, e) ∈ s.results

theorem Private.of_start {t : Table} {s : CSt} (hb : Bounded s) (hreg : t.regs ≠ []) (prot : Bool)
    (w : World) (c ctx : Nat) (key : List Nat) (hfull : facadeFullDisable t w ctx = true) :
    Private (cstart t prot w s c ctx key) c key s.execs := by
  have hs : cstart t prot w s c ctx key =
      { s with execs := s.execs + 1, flights := s.flights ++ [⟨c, key, .bypass s.execs⟩] } := by
    simp [cstart, regs_isEmpty_false hreg, hfull]
  rw [hs]
  refine ⟨Nat.lt_succ_self _, ?_, ?_, ?_, Or.inl (by simp)⟩
  · intro p hp
    exact Nat.ne_of_lt (hb.cached p hp)
  · intro f hf he
    rcases List.mem_append.1 hf with hf | hf
    · exact absurd (hb.flights f hf _ he) (Nat.lt_irrefl _)
    · simpa using hf
  · intro p hp he
    exact absurd (he ▸ hb.results p hp) (Nat.lt_irrefl _)

theorem Private.start {s : CSt} {c : Nat} {key : List Nat} {e : Nat} (h : Private s c key e)
    (t : Table) (prot : Bool) (w : World) (call ctx : Nat) (key' : List Nat) :
    Private (cstart t prot w s call ctx key') c key e := by
  have hne : s.execs ≠ e := Nat.ne_of_gt h.lt
  have mineF : ∀ g, (⟨c, key, .bypass e⟩ ∈ s.flights ++ [g] ∨ (c, e) ∈ s.results) := fun g =>
    h.mine.imp (fun x => List.mem_append_left _ x) id
  obtain ⟨hc, hcase⟩ := cstart_cases t prot w s call ctx key'
  rcases hcase with ⟨he, hf, hr⟩ | ⟨role, hro, he, hf, hr⟩ | ⟨l, he, hf, hr⟩ | ⟨e', hm, he, hf, hr⟩
  · exact ⟨by rw [he]; exact h.lt, by rw [hc]; exact h.cached, by rw [hf]; exact h.flights,
      by rw [hr]; exact h.results, by rw [hf, hr]; exact h.mine⟩
  · refine ⟨by rw [he]; exact Nat.lt_succ_of_lt h.lt, by rw [hc]; exact h.cached, ?_,
      by rw [hr]; exact h.results, by rw [hf, hr]; exact mineF _⟩
    rw [hf]
    intro f hf' he'
    rcases List.mem_append.1 hf' with hf' | hf'
    · exact h.flights f hf' he'
    · simp only [List.mem_singleton] at hf'
      subst hf'
      simp only [hro, Option.some.injEq] at he'
      exact absurd he' hne
  · refine ⟨by rw [he]; exact h.lt, by rw [hc]; exact h.cached, ?_,
      by rw [hr]; exact h.results, by rw [hf, hr]; exact mineF _⟩
    rw [hf]
    intro f hf' he'
    rcases List.mem_append.1 hf' with hf' | hf'
    · exact h.flights f hf' he'
    · simp only [List.mem_singleton] at hf'
      subst hf'
      simp [Role.exec?] at he'
  · refine ⟨by rw [he]; exact h.lt, by rw [hc]; exact h.cached, by rw [hf]; exact h.flights, ?_,
      by rw [hf, hr]; exact h.mine.imp id (fun x => List.mem_append_left _ x)⟩
    rw [hr]
    intro p hp he'
    rcases List.mem_append.1 hp with hp | hp
    · exact h.results p hp he'
    · simp only [List.mem_singleton] at hp
      subst hp
      exact absurd he' (h.cached _ hm)

theorem Private.finish {s : CSt} {c : Nat} {key : List Nat} {e : Nat} (h : Private s c key e)
    (call : Nat) : Private (cfinish s call) c key e := by
  unfold cfinish
  cases ht : takeFlight call s.flights with
  | none => exact h
  | some p =>
    obtain ⟨f, rest⟩ := p
    obtain ⟨hcall, hp⟩ := takeFlight_spec call _ _ _ ht
    have hfm : f ∈ s.flights := hp.mem_iff.2 List.mem_cons_self
    have hrest : ∀ g ∈ rest, g ∈ s.flights := fun g hg => hp.mem_iff.2 (List.mem_cons_of_mem _ hg)
    have hsplit : ∀ g ∈ s.flights, g = f ∨ g ∈ rest := fun g hg => List.mem_cons.1 (hp.mem_iff.1 hg)
    cases hr : f.role with
    | joined l => simpa only [hr] using h
    | bypass e' =>
      simp only [hr]
      refine ⟨h.lt, h.cached, fun g hg => h.flights g (hrest g hg), ?_, ?_⟩
      · intro p hp' he
        rcases List.mem_append.1 hp' with hp' | hp'
        · exact h.results p hp' he
        · simp only [List.mem_singleton] at hp'
          subst hp'
          simp only at he
          have := h.flights f hfm (by simp [hr, Role.exec?, he])
          rw [← hcall, this]
      · rcases h.mine with hm | hm
        · rcases hsplit _ hm with hm | hm
          · right
            have : e' = e := by
              have := congrArg Flight.role hm
              simp only [hr] at this
              injection this with this
              exact this.symm
            have hc : call = c := by rw [← hcall, ← hm]
            simp [this, hc]
          · exact Or.inl hm
        · exact Or.inr (List.mem_append_left _ hm)
    | own e' j st =>
      simp only [hr]
      have hne : e' ≠ e := by
        intro he
        have := h.flights f hfm (by simp [hr, Role.exec?, he])
        rw [this] at hr
        simp at hr
      refine ⟨h.lt, ?_, fun g hg => h.flights g (hrest g (List.mem_filter.1 hg).1), ?_, ?_⟩
      · intro p hp'
        cases st with
        | none => exact h.cached p hp'
        | some b =>
          rcases List.mem_cons.1 hp' with hp' | hp'
          · subst hp'
            exact hne
          · exact h.cached p hp'
      · intro p hp' he
        simp only [List.mem_append, List.mem_singleton, List.mem_map] at hp'
        rcases hp' with (hp' | hp') | ⟨g, _, hp'⟩
        · exact h.results p hp' he
        · subst hp'
          exact absurd he hne
        · subst hp'
          exact absurd he hne
      · rcases h.mine with hm | hm
        · rcases hsplit _ hm with hm | hm
          · rw [← hm] at hr
            simp at hr
          · exact Or.inl (List.mem_filter.2 ⟨hm, by simp⟩)
        · exact Or.inr (List.mem_append_left _ (List.mem_append_left _ hm))

theorem Private.run {c : Nat} {key : List Nat} {e : Nat} (t : Table) (prot : Bool) :
    ∀ (evs : List CEv) (r : CRun), Private r.s c key e → Private (crun t prot r evs).s c key e
  | [], _, h => h
  | ev :: evs, r, h => by
    have hstep : Private (cstep t prot r ev).s c key e := by
      cases ev with
      | start call ctx key' => exact h.start t prot r.w call ctx key'
      | finish call => exact h.finish call
      | ctl op => exact h
    have := Private.run t prot evs (cstep t prot r ev) hstep
    simpa [crun] using this

theorem Private.drainN {c : Nat} {key : List Nat} {e : Nat} : ∀ (n : Nat) {s : CSt},
    Private s c key e → Private (cdrainN n s) c key e
  | 0, _, h => h
  | n + 1, s, h => by
    unfold cdrainN
    cases hf : s.flights with
    | nil => exact h
    | cons f r => exact Private.drainN n (h.finish f.call)

theorem crun_append (t : Table) (prot : Bool) (r : CRun) (a b : List CEv) :
    crun t prot r (a ++ b) = crun t prot (crun t prot r a) b := by
  simp [crun, List.foldl_append]

end CashewsVerif.Disable
