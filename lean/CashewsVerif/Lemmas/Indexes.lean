import CashewsVerif.Model.Indexes
/-
Helper lemmas for C18 (index derivation): what one bucket's probe loop returns, the invariant of
the outer loop, irrelevance of surplus fuel.
-/
namespace CashewsVerif.Indexes

theorem probe_spec {h : List UInt8 → Nat} {key : List UInt8} {m : Nat} {seen : List Nat} :
    ∀ {fuel i v i'}, probe h key m seen fuel i = some (v, i') →
      v ∉ seen ∧ (0 < m → v < m) ∧ i ≤ i' ∧ v = h (probeBytes key i') % m := by
  intro fuel
  induction fuel with
  | zero => intro i v i' hp; simp [probe] at hp
  | succ fuel ih =>
    intro i v i' hp
    simp only [probe] at hp
    split at hp
    · have := ih hp
      exact ⟨this.1, this.2.1, by omega, this.2.2.2⟩
    · rename_i hn
      simp only [Option.some.injEq, Prod.mk.injEq] at hp
      obtain ⟨hv, hi⟩ := hp
      subst hv; subst hi
      exact ⟨hn, fun hm => Nat.mod_lt _ hm, Nat.le_refl _, rfl⟩

theorem probe_mono {h : List UInt8 → Nat} {key : List UInt8} {m : Nat} {seen : List Nat} :
    ∀ {fuel fuel' i r}, probe h key m seen fuel i = some r → fuel ≤ fuel' →
      probe h key m seen fuel' i = some r := by
  intro fuel
  induction fuel with
  | zero => intro fuel' i r hp; simp [probe] at hp
  | succ fuel ih =>
    intro fuel' i r hp hle
    obtain ⟨f', rfl⟩ : ∃ f', fuel' = f' + 1 := ⟨fuel' - 1, by omega⟩
    simp only [probe] at hp ⊢
    split
    · rename_i hin
      rw [if_pos hin] at hp
      exact ih hp (by omega)
    · rename_i hn
      rw [if_neg hn] at hp
      exact hp

theorem loop_spec {hash : Nat → List UInt8 → Nat} {nalg : Nat} {key : List UInt8} {m fuel : Nat} :
    ∀ {n b seen S}, loop hash nalg key m fuel n b seen = some S →
      seen.Nodup → (∀ x ∈ seen, x < m) → (0 < m ∨ n = 0) →
      S.length = seen.length + n ∧ S.Nodup ∧ (∀ x ∈ S, x < m) := by
  intro n
  induction n with
  | zero =>
    intro b seen S hl hnd hlt _
    simp only [loop, Option.some.injEq] at hl
    subst hl
    exact ⟨rfl, hnd, hlt⟩
  | succ n ih =>
    intro b seen S hl hnd hlt hm
    have hm : 0 < m := by omega
    simp only [loop] at hl
    split at hl
    · simp at hl
    · rename_i v i' hp
      have ps := probe_spec hp
      have := ih hl
        (by
          rw [List.nodup_append]
          refine ⟨hnd, by simp, ?_⟩
          intro a ha c hc
          simp only [List.mem_singleton] at hc
          subst hc
          intro hac; subst hac; exact ps.1 ha)
        (by
          intro x hx
          simp only [List.mem_append, List.mem_singleton] at hx
          rcases hx with hx | hx
          · exact hlt x hx
          · subst hx; exact ps.2.1 hm)
        (Or.inl hm)
      refine ⟨?_, this.2⟩
      rw [this.1]; simp; omega

theorem loop_mono {hash : Nat → List UInt8 → Nat} {nalg : Nat} {key : List UInt8} {m fuel fuel' : Nat}
    (hle : fuel ≤ fuel') :
    ∀ {n b seen S}, loop hash nalg key m fuel n b seen = some S →
      loop hash nalg key m fuel' n b seen = some S := by
  intro n
  induction n with
  | zero => intro b seen S hl; simpa [loop] using hl
  | succ n ih =>
    intro b seen S hl
    simp only [loop] at hl ⊢
    split at hl
    · simp at hl
    · rename_i v i' hp
      rw [probe_mono hp hle]
      exact ih hl

theorem probe_congr {h h' : List UInt8 → Nat} {key : List UInt8} {m : Nat} {seen : List Nat} :
    ∀ {fuel i}, (∀ j, i ≤ j → j < i + fuel → h (probeBytes key j) = h' (probeBytes key j)) →
      probe h key m seen fuel i = probe h' key m seen fuel i := by
  intro fuel
  induction fuel with
  | zero => intros; rfl
  | succ fuel ih =>
    intro i hh
    simp only [probe]
    rw [hh i (Nat.le_refl _) (by omega)]
    rw [ih (fun j h1 h2 => hh j (by omega) (by omega))]

theorem loop_congr {hash hash' : Nat → List UInt8 → Nat} {nalg : Nat} {key : List UInt8} {m fuel : Nat} :
    ∀ {n b seen},
      (∀ a j, j < b + n + fuel → hash a (probeBytes key j) = hash' a (probeBytes key j)) →
      loop hash nalg key m fuel n b seen = loop hash' nalg key m fuel n b seen := by
  intro n
  induction n with
  | zero => intros; rfl
  | succ n ih =>
    intro b seen hh
    simp only [loop]
    rw [probe_congr (h := hash (b % nalg)) (h' := hash' (b % nalg))
      (fun j _ h2 => hh (b % nalg) j (by omega))]
    split
    · rfl
    · exact ih (fun a j hj => hh a j (by omega))

end CashewsVerif.Indexes
