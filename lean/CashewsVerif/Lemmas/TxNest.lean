import CashewsVerif.Model.TxCtx
/- Nested transaction blocks join the outermost one: erasing every inner `enter … exit` pair changes nothing —
for blocks opened on context objects of their own and for blocks that re-enter a shared context object, to any depth. -/
namespace CashewsVerif

/-- erase the inner blocks of a program (`d` = number of blocks currently open) -/
def flatten (d : Nat) : List Ev → List Ev
  | [] => []
  | .enter m :: es => if d = 0 then .enter m :: flatten 1 es else flatten (d + 1) es
  | .enterObj o m :: es => if d = 0 then .enterObj o m :: flatten 1 es else flatten (d + 1) es
  | .exit x :: es => if d ≤ 1 then .exit x :: flatten 0 es else flatten (d - 1) es
  | .cmd op :: es => .cmd op :: flatten d es
  | .rollback :: es => .rollback :: flatten d es
  | .commit :: es => .commit :: flatten d es

/-- the answers of everything that is not a block boundary -/
def cmdOuts : List Ev → List Out → List Out
  | .enter _ :: es, _ :: os => cmdOuts es os
  | .enterObj _ _ :: es, _ :: os => cmdOuts es os
  | .exit _ :: es, _ :: os => cmdOuts es os
  | _ :: es, o :: os => o :: cmdOuts es os
  | _, _ => []

/-- `true` iff the program opens blocks only on context objects of their own (`async with cache.transaction(m):`
written out at every block, or the decorator form) -/
def sharedFree : List Ev → Bool
  | [] => true
  | .enterObj _ _ :: _ => false
  | _ :: es => sharedFree es

/-- the open blocks after a program (syntactic) -/
def nestAfter : Nest → List Ev → Nest
  | n, [] => n
  | n, .enter _ :: es => nestAfter (n.push none) es
  | n, .enterObj o _ :: es => nestAfter (n.push (some o)) es
  | n, .exit _ :: es => nestAfter n.pop es
  | n, .cmd _ :: es => nestAfter n es
  | n, .rollback :: es => nestAfter n es
  | n, .commit :: es => nestAfter n es

/-- the frame of an inner block / of the outermost block opened on the given kind of object -/
def innerFrame : Option Nat → Frame
  | none => .fresh true
  | some o => .shared o

def botFrame : Option Nat → Frame
  | none => .fresh false
  | some o => .shared o

/-- no shared object is in use -/
def Ctx.objsIdle (c : Ctx) : Prop := ∀ o, c.objs o = ⟨false, 0⟩

/-- the nested run (`c`, open blocks as recorded by `n`) and the flattened run (`c'`, at most one block open)
agree on everything but the stack of open blocks and the `_inner` counters: in the nested run the counter of
every shared object is the number of its open inner blocks, and `_tx` is set exactly on the owner -/
structure NestRel (n : Nest) (c c' : Ctx) : Prop where
  st : c.st = c'.st
  inTx : c.inTx = c'.inTx
  nextId : c.nextId = c'.nextId
  zero : n.owner = none → n.inner = [] ∧ c.inTx = false ∧ c.frames = [] ∧ c'.frames = [] ∧ c.objsIdle ∧ c'.objsIdle
  pos : ∀ x, n.owner = some x →
    c.inTx = true ∧ c.frames = n.inner.map innerFrame ++ [botFrame x] ∧ c'.frames = [botFrame x] ∧
    (∀ o, c.objs o = ⟨decide (x = some o), n.inner.count (some o)⟩ ∧ c'.objs o = ⟨decide (x = some o), 0⟩)

theorem Ctx.run_cons (c : Ctx) (e : Ev) (es : List Ev) :
    c.run (e :: es) = (((c.step e).1.run es).1, (c.step e).2 :: ((c.step e).1.run es).2) := rfl

theorem Nest.depth_zero {n : Nest} (h : n.owner = none) : n.depth = 0 := by
  unfold Nest.depth; rw [h]

theorem Nest.depth_pos {n : Nest} {x} (h : n.owner = some x) : n.depth = n.inner.length + 1 := by
  unfold Nest.depth; rw [h]

/-! one lemma per kind of step -/

/-- opening the outermost block: both runs start a transaction -/
theorem nest_enter_zero {n : Nest} {c c' : Ctx} (h : NestRel n c c') (h0 : n.owner = none)
    (e : Ev) (x : Option Nat) (m : TxMode)
    (he : (x = none ∧ e = .enter m) ∨ (∃ o, x = some o ∧ e = .enterObj o m)) :
    NestRel (n.push x) (c.step e).1 (c'.step e).1 := by
  obtain ⟨hi, hin, hf, hf', hid, hid'⟩ := h.zero h0
  have hin' : c'.inTx = false := by rw [← h.inTx]; exact hin
  have hp : n.push x = ⟨some x, []⟩ := by unfold Nest.push; rw [h0]
  rw [hp]
  rcases he with ⟨rfl, rfl⟩ | ⟨o, rfl, rfl⟩
  · simp only [Ctx.step, hin, hin', Bool.false_eq_true, if_false]
    refine ⟨by simp [h.st, h.nextId], rfl, by simp [h.nextId], by simp, ?_⟩
    intro x hx
    simp only [Option.some.injEq] at hx
    subst hx
    refine ⟨rfl, by simp [hf, botFrame], by simp [hf', botFrame], ?_⟩
    intro o
    exact ⟨by simp [hid o], by simp [hid' o]⟩
  · simp only [Ctx.step, hin, hin', Bool.false_eq_true, if_false]
    refine ⟨by simp [h.st, h.nextId], rfl, by simp [h.nextId], by simp, ?_⟩
    intro x hx
    simp only [Option.some.injEq] at hx
    subst hx
    refine ⟨rfl, by simp [hf, botFrame], by simp [hf', botFrame], ?_⟩
    intro o'
    by_cases hoo : o' = o
    · subst hoo; simp [Ctx.setObj, hid o', hid' o']
    · have hne : ¬ o = o' := fun hh => hoo hh.symm
      simp [Ctx.setObj, hoo, hne, hid o', hid' o']

/-- opening an inner block: the nested run pushes a frame and counts it, the flattened run does nothing -/
theorem nest_enter_pos {n : Nest} {c c' : Ctx} (h : NestRel n c c') {y : Option Nat} (hy : n.owner = some y)
    (e : Ev) (x : Option Nat) (m : TxMode)
    (he : (x = none ∧ e = .enter m) ∨ (∃ o, x = some o ∧ e = .enterObj o m)) :
    NestRel (n.push x) (c.step e).1 c' := by
  obtain ⟨hin, hf, hf', hobj⟩ := h.pos y hy
  have hp : n.push x = ⟨some y, x :: n.inner⟩ := by unfold Nest.push; rw [hy]
  rw [hp]
  rcases he with ⟨rfl, rfl⟩ | ⟨o, rfl, rfl⟩
  · simp only [Ctx.step, hin, if_true]
    refine ⟨h.st, by simp [← h.inTx, hin], h.nextId, by simp, ?_⟩
    intro x hx
    simp only [Option.some.injEq] at hx
    subst hx
    refine ⟨rfl, by simp [hf, innerFrame], hf', ?_⟩
    intro o
    obtain ⟨a, b⟩ := hobj o
    exact ⟨by simp [a], b⟩
  · simp only [Ctx.step, hin, if_true]
    refine ⟨h.st, by simp [← h.inTx, hin], h.nextId, by simp, ?_⟩
    intro x hx
    simp only [Option.some.injEq] at hx
    subst hx
    refine ⟨rfl, by simp [hf, innerFrame], hf', ?_⟩
    intro o'
    obtain ⟨a, b⟩ := hobj o'
    by_cases hoo : o' = o
    · subst hoo
      obtain ⟨a, b⟩ := hobj o'
      exact ⟨by simp [Ctx.setObj, a], b⟩
    · have hne : ¬ o = o' := fun hh => hoo hh.symm
      exact ⟨by simp [Ctx.setObj, hoo, a, hne], b⟩

/-- leaving an inner block: the nested run pops a frame and uncounts it without ending the transaction -/
theorem nest_exit_inner {n : Nest} {c c' : Ctx} (h : NestRel n c c') {y : Option Nat} (hy : n.owner = some y)
    {z : Option Nat} {r : List (Option Nat)} (hz : n.inner = z :: r) (exc : Leave) :
    NestRel n.pop (c.step (.exit exc)).1 c' := by
  obtain ⟨hin, hf, hf', hobj⟩ := h.pos y hy
  have hp : n.pop = ⟨some y, r⟩ := by unfold Nest.pop; rw [hz]; simp [hy]
  rw [hp]
  rw [hz] at hf hobj
  cases z with
  | none =>
    simp only [List.map_cons, innerFrame, List.cons_append] at hf
    simp only [Ctx.step, hf]
    refine ⟨h.st, by simp [← h.inTx, hin], h.nextId, by simp, ?_⟩
    intro x hx
    simp only [Option.some.injEq] at hx
    subst hx
    refine ⟨hin, rfl, hf', ?_⟩
    intro o
    obtain ⟨a, b⟩ := hobj o
    exact ⟨by simpa [List.count_cons] using a, b⟩
  | some o =>
    simp only [List.map_cons, innerFrame, List.cons_append] at hf
    have hcnt : (c.objs o).inner = r.count (some o) + 1 := by
      rw [(hobj o).1]; simp
    have hne0 : (c.objs o).inner ≠ 0 := by omega
    simp only [Ctx.step, hf, hne0, ne_eq, not_false_eq_true, if_true]
    refine ⟨h.st, by simp [← h.inTx, hin], h.nextId, by simp, ?_⟩
    intro x hx
    simp only [Option.some.injEq] at hx
    subst hx
    refine ⟨hin, rfl, hf', ?_⟩
    intro o'
    obtain ⟨a, b⟩ := hobj o'
    by_cases hoo : o' = o
    · subst hoo
      refine ⟨?_, b⟩
      simp only [Ctx.setObj, if_true, hcnt, Nat.add_sub_cancel]
      rw [a]
    · have hne : ¬ o = o' := fun hh => hoo hh.symm
      refine ⟨?_, b⟩
      simp only [Ctx.setObj, hoo, if_false]
      simpa [List.count_cons, hne] using a

/-- leaving the outermost block: both runs end the transaction the same way -/
theorem nest_exit_bot {n : Nest} {c c' : Ctx} (h : NestRel n c c') {y : Option Nat} (hy : n.owner = some y)
    (hz : n.inner = []) (exc : Leave) :
    NestRel n.pop (c.step (.exit exc)).1 (c'.step (.exit exc)).1 := by
  obtain ⟨hin, hf, hf', hobj⟩ := h.pos y hy
  have hp : n.pop = ⟨none, []⟩ := by unfold Nest.pop; rw [hz]
  rw [hp]
  rw [hz] at hf hobj
  simp only [List.map_nil, List.nil_append, List.count_nil] at hf hobj
  cases y with
  | none =>
    simp only [botFrame] at hf hf'
    simp only [Ctx.step, hf, hf']
    refine ⟨by simp [h.st], rfl, h.nextId, ?_, by simp⟩
    intro _
    refine ⟨rfl, rfl, rfl, rfl, ?_, ?_⟩
    · intro o; simpa using (hobj o).1
    · intro o; simpa using (hobj o).2
  | some o =>
    simp only [botFrame] at hf hf'
    obtain ⟨a, b⟩ := hobj o
    simp only [decide_true] at a b
    have h1 : ¬ (c.objs o).inner ≠ 0 := by simp [a]
    have h2 : ¬ (c'.objs o).inner ≠ 0 := by simp [b]
    have h3 : (!(c.objs o).tx) = false := by simp [a]
    have h4 : (!(c'.objs o).tx) = false := by simp [b]
    simp only [Ctx.step, hf, hf', h1, h2, h3, h4, Bool.false_eq_true, if_false]
    refine ⟨by simp [h.st], rfl, h.nextId, ?_, by simp⟩
    intro _
    refine ⟨rfl, rfl, rfl, rfl, ?_, ?_⟩
    · intro o'
      by_cases hoo : o' = o
      · subst hoo; simp [Ctx.setObj, a]
      · have hne : ¬ o = o' := fun hh => hoo hh.symm
        simp only [Ctx.setObj, hoo, if_false]
        simpa [hne] using (hobj o').1
    · intro o'
      by_cases hoo : o' = o
      · subst hoo; simp [Ctx.setObj, b]
      · have hne : ¬ o = o' := fun hh => hoo hh.symm
        simp only [Ctx.setObj, hoo, if_false]
        simpa [hne] using (hobj o').2

/-- replacing the transaction state on both sides keeps the relation -/
theorem NestRel.with_st {n : Nest} {c c' : Ctx} (h : NestRel n c c') (s : TxSt) :
    NestRel n { c with st := s } { c' with st := s } :=
  ⟨rfl, h.inTx, h.nextId, h.zero, h.pos⟩

/-- a step that is not a block boundary: same step, same answer in both runs -/
theorem nest_other {n : Nest} {c c' : Ctx} (h : NestRel n c c') (e : Ev)
    (he : (∃ op, e = .cmd op) ∨ e = .rollback ∨ e = .commit) :
    NestRel n (c.step e).1 (c'.step e).1 ∧ (c.step e).2 = (c'.step e).2 := by
  have hfe : c.frames.isEmpty = c'.frames.isEmpty := by
    cases ho : n.owner with
    | none => obtain ⟨_, _, a, b, _⟩ := h.zero ho; rw [a, b]
    | some x => obtain ⟨_, a, b, _⟩ := h.pos x ho; rw [a, b]; simp
  have hst := h.st
  have hin := h.inTx
  rcases he with ⟨op, rfl⟩ | rfl | rfl
  · cases hi : c.inTx with
    | true =>
      have hi' : c'.inTx = true := by rw [← hin]; exact hi
      simp only [Ctx.step]
      rw [if_pos hi, if_pos hi', hst]
      exact ⟨h.with_st _, rfl⟩
    | false =>
      have hi' : c'.inTx = false := by rw [← hin]; exact hi
      simp only [Ctx.step]
      rw [if_neg (by simp [hi]), if_neg (by simp [hi']), hst]
      exact ⟨h.with_st _, rfl⟩
  · cases hi : c.inTx with
    | true =>
      have hi' : c'.inTx = true := by rw [← hin]; exact hi
      simp only [Ctx.step]
      rw [if_pos hi, if_pos hi', hst]
      exact ⟨h.with_st _, rfl⟩
    | false =>
      have hi' : c'.inTx = false := by rw [← hin]; exact hi
      simp only [Ctx.step, hi, hi', Bool.false_eq_true, if_false, ← hfe]
      cases c.frames.isEmpty <;> exact ⟨h, rfl⟩
  · cases hi : c.inTx with
    | true =>
      have hi' : c'.inTx = true := by rw [← hin]; exact hi
      simp only [Ctx.step]
      rw [if_pos hi, if_pos hi', hst]
      exact ⟨h.with_st _, rfl⟩
    | false =>
      have hi' : c'.inTx = false := by rw [← hin]; exact hi
      simp only [Ctx.step, hi, hi', Bool.false_eq_true, if_false, ← hfe]
      cases c.frames.isEmpty <;> exact ⟨h, rfl⟩

theorem nest_run (es : List Ev) : ∀ (n : Nest) (c c' : Ctx), NestRel n c c' →
    NestRel (nestAfter n es) (c.run es).1 (c'.run (flatten n.depth es)).1 ∧
      cmdOuts es (c.run es).2 = cmdOuts (flatten n.depth es) (c'.run (flatten n.depth es)).2 := by
  induction es with
  | nil => intro n c c' h; exact ⟨h, rfl⟩
  | cons e es ih =>
    intro n c c' h
    cases e with
    | enter m =>
      cases ho : n.owner with
      | none =>
        have hd := Nest.depth_zero ho
        have hr := nest_enter_zero h ho (.enter m) none m (Or.inl ⟨rfl, rfl⟩)
        have hd' : (n.push none).depth = 1 := by simp [Nest.push, ho, Nest.depth]
        obtain ⟨hr', ho'⟩ := ih _ _ _ hr
        rw [hd'] at hr' ho'
        refine ⟨?_, ?_⟩
        · simpa only [hd, flatten, if_true, Ctx.run_cons, nestAfter] using hr'
        · simpa only [hd, flatten, if_true, Ctx.run_cons, cmdOuts] using ho'
      | some y =>
        have hd := Nest.depth_pos ho
        have hr := nest_enter_pos h ho (.enter m) none m (Or.inl ⟨rfl, rfl⟩)
        have hd' : (n.push none).depth = n.depth + 1 := by simp [Nest.push, ho, Nest.depth]
        obtain ⟨hr', ho'⟩ := ih _ _ _ hr
        rw [hd'] at hr' ho'
        have hne : ¬ n.depth = 0 := by omega
        refine ⟨?_, ?_⟩
        · simpa only [flatten, hne, if_false, Ctx.run_cons, nestAfter] using hr'
        · simpa only [flatten, hne, if_false, Ctx.run_cons, cmdOuts] using ho'
    | enterObj o m =>
      cases ho : n.owner with
      | none =>
        have hd := Nest.depth_zero ho
        have hr := nest_enter_zero h ho (.enterObj o m) (some o) m (Or.inr ⟨o, rfl, rfl⟩)
        have hd' : (n.push (some o)).depth = 1 := by simp [Nest.push, ho, Nest.depth]
        obtain ⟨hr', ho'⟩ := ih _ _ _ hr
        rw [hd'] at hr' ho'
        refine ⟨?_, ?_⟩
        · simpa only [hd, flatten, if_true, Ctx.run_cons, nestAfter] using hr'
        · simpa only [hd, flatten, if_true, Ctx.run_cons, cmdOuts] using ho'
      | some y =>
        have hd := Nest.depth_pos ho
        have hr := nest_enter_pos h ho (.enterObj o m) (some o) m (Or.inr ⟨o, rfl, rfl⟩)
        have hd' : (n.push (some o)).depth = n.depth + 1 := by simp [Nest.push, ho, Nest.depth]
        obtain ⟨hr', ho'⟩ := ih _ _ _ hr
        rw [hd'] at hr' ho'
        have hne : ¬ n.depth = 0 := by omega
        refine ⟨?_, ?_⟩
        · simpa only [flatten, hne, if_false, Ctx.run_cons, nestAfter] using hr'
        · simpa only [flatten, hne, if_false, Ctx.run_cons, cmdOuts] using ho'
    | exit x =>
      cases ho : n.owner with
      | none =>
        obtain ⟨hi, _, hf, hf', _, _⟩ := h.zero ho
        have hd := Nest.depth_zero ho
        have hp : n.pop = n := by
          unfold Nest.pop; rw [hi]; cases n; simp_all
        have hs : (c.step (.exit x)) = (c, .err) := by simp [Ctx.step, hf]
        have hs' : (c'.step (.exit x)) = (c', .err) := by simp [Ctx.step, hf']
        obtain ⟨hr', ho'⟩ := ih _ _ _ h
        rw [hd] at hr' ho'
        refine ⟨?_, ?_⟩
        · simpa only [hd, flatten, Nat.zero_le, if_true, Ctx.run_cons, hs, hs', nestAfter, hp] using hr'
        · simpa only [hd, flatten, Nat.zero_le, if_true, Ctx.run_cons, hs, hs', cmdOuts] using ho'
      | some y =>
        have hd := Nest.depth_pos ho
        cases hz : n.inner with
        | nil =>
          have hr := nest_exit_bot h ho hz x
          have hd1 : n.depth = 1 := by rw [hd, hz]; rfl
          have hd' : n.pop.depth = 0 := by simp [Nest.pop, hz, Nest.depth]
          obtain ⟨hr', ho'⟩ := ih _ _ _ hr
          rw [hd'] at hr' ho'
          refine ⟨?_, ?_⟩
          · simpa only [hd1, flatten, Nat.le_refl, if_true, Ctx.run_cons, nestAfter] using hr'
          · simpa only [hd1, flatten, Nat.le_refl, if_true, Ctx.run_cons, cmdOuts] using ho'
        | cons z r =>
          have hr := nest_exit_inner h ho hz x
          have hd2 : n.depth = r.length + 2 := by rw [hd, hz]; rfl
          have hd' : n.pop.depth = n.depth - 1 := by simp [Nest.pop, hz, Nest.depth, ho]
          obtain ⟨hr', ho'⟩ := ih _ _ _ hr
          rw [hd'] at hr' ho'
          have hle : ¬ n.depth ≤ 1 := by omega
          refine ⟨?_, ?_⟩
          · simpa only [flatten, hle, if_false, Ctx.run_cons, nestAfter] using hr'
          · simpa only [flatten, hle, if_false, Ctx.run_cons, cmdOuts] using ho'
    | cmd op =>
      obtain ⟨hr, hout⟩ := nest_other h (.cmd op) (Or.inl ⟨op, rfl⟩)
      obtain ⟨hr', ho'⟩ := ih _ _ _ hr
      refine ⟨by simpa only [flatten, Ctx.run_cons, nestAfter] using hr', ?_⟩
      simp only [flatten, Ctx.run_cons, cmdOuts, hout, ho']
    | rollback =>
      obtain ⟨hr, hout⟩ := nest_other h .rollback (Or.inr (Or.inl rfl))
      obtain ⟨hr', ho'⟩ := ih _ _ _ hr
      refine ⟨by simpa only [flatten, Ctx.run_cons, nestAfter] using hr', ?_⟩
      simp only [flatten, Ctx.run_cons, cmdOuts, hout, ho']
    | commit =>
      obtain ⟨hr, hout⟩ := nest_other h .commit (Or.inr (Or.inr rfl))
      obtain ⟨hr', ho'⟩ := ih _ _ _ hr
      refine ⟨by simpa only [flatten, Ctx.run_cons, nestAfter] using hr', ?_⟩
      simp only [flatten, Ctx.run_cons, cmdOuts, hout, ho']

/-- a clean context is related to itself -/
theorem nestRel_init (c : Ctx) (h1 : c.inTx = false) (h2 : c.frames = []) (h3 : c.objsIdle) :
    NestRel Nest.empty c c :=
  ⟨rfl, rfl, rfl, fun _ => ⟨rfl, h1, h2, h2, h3, h3⟩, fun x hx => by simp [Nest.empty] at hx⟩

/-- commands inside an open transaction are `TxSt.run` -/
theorem Ctx.run_cmds (ops : List Op) : ∀ (c : Ctx), c.inTx = true →
    c.run (ops.map .cmd) = ({ c with st := (c.st.run ops).1 }, (c.st.run ops).2) := by
  induction ops with
  | nil => intro c _; rfl
  | cons op ops ih =>
    intro c h
    obtain ⟨st, it, fr, ni, ob⟩ := c
    simp only at h
    subst h
    simp only [List.map_cons, Ctx.run, Ctx.step, if_true, TxSt.run]
    rw [ih ⟨(st.step op).1, true, fr, ni, ob⟩ rfl]

end CashewsVerif
