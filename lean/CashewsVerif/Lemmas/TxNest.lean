import CashewsVerif.Model.TxCtx
/- Nested transaction blocks join the outermost one: erasing every inner `enter … exit` pair changes nothing. -/
namespace CashewsVerif

/-- erase the inner blocks of a program (`d` = number of blocks currently open) -/
def flatten (d : Nat) : List Ev → List Ev
  | [] => []
  | .enter m :: es => if d = 0 then .enter m :: flatten 1 es else flatten (d + 1) es
  | .exit x :: es => if d ≤ 1 then .exit x :: flatten 0 es else flatten (d - 1) es
  | .cmd op :: es => .cmd op :: flatten d es
  | .rollback :: es => .rollback :: flatten d es
  | .commit :: es => .commit :: flatten d es

/-- the answers of everything that is not a block boundary -/
def cmdOuts : List Ev → List Out → List Out
  | .enter _ :: es, _ :: os => cmdOuts es os
  | .exit _ :: es, _ :: os => cmdOuts es os
  | _ :: es, o :: os => o :: cmdOuts es os
  | _, _ => []

/-- the nested run (`c`, `d` blocks open) and the flattened run (`c'`, at most one block open) agree on
everything but the stack of open blocks -/
structure NestRel (d : Nat) (c c' : Ctx) : Prop where
  st : c.st = c'.st
  inTx : c.inTx = c'.inTx
  nextId : c.nextId = c'.nextId
  zero : d = 0 → c.inTx = false ∧ c.frames = [] ∧ c'.frames = []
  pos : d > 0 → c.inTx = true ∧ c.frames = List.replicate (d - 1) true ++ [false] ∧ c'.frames = [false]

theorem nest_run (es : List Ev) : ∀ (d : Nat) (c c' : Ctx), NestRel d c c' →
    ∃ d', NestRel d' (c.run es).1 (c'.run (flatten d es)).1 ∧
      cmdOuts es (c.run es).2 = cmdOuts (flatten d es) (c'.run (flatten d es)).2 := by
  induction es with
  | nil => intro d c c' h; exact ⟨d, h, rfl⟩
  | cons e es ih =>
    intro d c c' h
    obtain ⟨st, it, fr, ni⟩ := c
    obtain ⟨st', it', fr', ni'⟩ := c'
    obtain ⟨hst, hin, hni, hz, hp⟩ := h
    simp only at hst hin hni hz hp
    subst hst hin hni
    cases e with
    | enter m =>
      by_cases hd : d = 0
      · obtain ⟨h1, h2, h3⟩ := hz hd
        subst h1 h2 h3 hd
        simp only [flatten, if_true, Ctx.run, Ctx.step, Bool.false_eq_true, if_false, cmdOuts]
        exact ih 1 _ _ ⟨rfl, rfl, rfl, by simp, fun _ => ⟨rfl, rfl, rfl⟩⟩
      · have hpos : d > 0 := Nat.pos_of_ne_zero hd
        obtain ⟨h1, h2, h3⟩ := hp hpos
        subst h1 h2 h3
        simp only [flatten, hd, if_false, Ctx.run, Ctx.step, if_true, cmdOuts]
        refine ih (d + 1) _ _ ⟨rfl, rfl, rfl, by omega, fun _ => ⟨rfl, ?_, rfl⟩⟩
        simp only [Nat.add_sub_cancel]
        have : d = (d - 1) + 1 := by omega
        rw [this, List.replicate_succ]; simp
    | exit x =>
      by_cases hd : d = 0
      · obtain ⟨h1, h2, h3⟩ := hz hd
        subst h1 h2 h3 hd
        simp only [flatten, Nat.zero_le, if_true, Ctx.run, Ctx.step, cmdOuts]
        exact ih 0 _ _ ⟨rfl, rfl, rfl, fun _ => ⟨rfl, rfl, rfl⟩, by omega⟩
      · by_cases hd1 : d = 1
        · obtain ⟨h1, h2, h3⟩ := hp (by omega)
          subst hd1
          simp only [Nat.sub_self, List.replicate_zero, List.nil_append] at h2
          subst h1 h2 h3
          simp only [flatten, Nat.le_refl, if_true, Ctx.run, Ctx.step, cmdOuts]
          exact ih 0 _ _ ⟨rfl, rfl, rfl, fun _ => ⟨rfl, rfl, rfl⟩, by omega⟩
        · obtain ⟨h1, h2, h3⟩ := hp (by omega)
          have hle : ¬ d ≤ 1 := by omega
          have hrep : List.replicate (d - 1) true = true :: List.replicate (d - 2) true := by
            have : d - 1 = (d - 2) + 1 := by omega
            rw [this, List.replicate_succ]
          rw [hrep] at h2
          subst h1 h2 h3
          simp only [flatten, hle, if_false, Ctx.run, Ctx.step, List.cons_append, cmdOuts]
          refine ih (d - 1) _ _ ⟨rfl, rfl, rfl, by omega, fun _ => ⟨rfl, ?_, rfl⟩⟩
          have : d - 1 - 1 = d - 2 := by omega
          rw [this]
    | cmd op =>
      simp only [flatten, Ctx.run, Ctx.step, cmdOuts]
      cases it with
      | true =>
        simp only [if_true]
        obtain ⟨d', hr, ho⟩ := ih d ⟨(st.step op).1, true, fr, ni⟩ ⟨(st.step op).1, true, fr', ni⟩ ⟨rfl, rfl, rfl, hz, hp⟩
        exact ⟨d', hr, by rw [ho]⟩
      | false =>
        simp only [Bool.false_eq_true, if_false]
        obtain ⟨d', hr, ho⟩ := ih d ⟨{ st with b := (st.b.step op).1 }, false, fr, ni⟩
          ⟨{ st with b := (st.b.step op).1 }, false, fr', ni⟩ ⟨rfl, rfl, rfl, hz, hp⟩
        exact ⟨d', hr, by rw [ho]⟩
    | rollback =>
      simp only [flatten, Ctx.run, Ctx.step, cmdOuts]
      cases it with
      | true =>
        simp only [if_true]
        obtain ⟨d', hr, ho⟩ := ih d ⟨st.rollback, true, fr, ni⟩ ⟨st.rollback, true, fr', ni⟩ ⟨rfl, rfl, rfl, hz, hp⟩
        exact ⟨d', hr, by rw [ho]⟩
      | false =>
        simp only [Bool.false_eq_true, if_false]
        obtain ⟨d', hr, ho⟩ := ih d ⟨st, false, fr, ni⟩ ⟨st, false, fr', ni⟩ ⟨rfl, rfl, rfl, hz, hp⟩
        exact ⟨d', hr, by rw [ho]⟩
    | commit =>
      simp only [flatten, Ctx.run, Ctx.step, cmdOuts]
      cases it with
      | true =>
        simp only [if_true]
        obtain ⟨d', hr, ho⟩ := ih d ⟨st.commit, true, fr, ni⟩ ⟨st.commit, true, fr', ni⟩ ⟨rfl, rfl, rfl, hz, hp⟩
        exact ⟨d', hr, by rw [ho]⟩
      | false =>
        simp only [Bool.false_eq_true, if_false]
        obtain ⟨d', hr, ho⟩ := ih d ⟨st, false, fr, ni⟩ ⟨st, false, fr', ni⟩ ⟨rfl, rfl, rfl, hz, hp⟩
        exact ⟨d', hr, by rw [ho]⟩

/-- commands inside an open transaction are `TxSt.run` -/
theorem Ctx.run_cmds (ops : List Op) : ∀ (c : Ctx), c.inTx = true →
    c.run (ops.map .cmd) = ({ c with st := (c.st.run ops).1 }, (c.st.run ops).2) := by
  induction ops with
  | nil => intro c _; rfl
  | cons op ops ih =>
    intro c h
    obtain ⟨st, it, fr, ni⟩ := c
    simp only at h
    subst h
    simp only [List.map_cons, Ctx.run, Ctx.step, if_true, TxSt.run]
    rw [ih ⟨(st.step op).1, true, fr, ni⟩ rfl]

end CashewsVerif
