import CashewsVerif.Lemmas.TxCommit
/- Whole transactions: the concrete run refines the abstract run, from `begin_` on. -/
namespace CashewsVerif
open Store

/-- the ideal map of a store -/
def Mem.toTtl (b : Mem) : TtlMap := { now := b.now, m := lookup b.store }

theorem Mem.refines_toTtl (b : Mem) : Refines b b.toTtl :=
  ⟨rfl, fun k => by rw [TtlMap.find_eq]; rfl⟩

namespace ATx

theorem foldl_put_b (kvs : List (Key × Val)) (ttl : Option Nat) : ∀ a : ATx,
    (kvs.foldl (fun a kv => a.put kv.1 kv.2 ttl) a).b = a.b := by
  induction kvs with
  | nil => intro a; rfl
  | cons kv kvs ih => intro a; simp only [List.foldl_cons]; rw [ih]; rfl

theorem foldl_delete_b (ks : List Key) : ∀ a : ATx, (ks.foldl delete a).b = a.b := by
  induction ks with
  | nil => intro a; rfl
  | cons k ks ih => intro a; simp only [List.foldl_cons]; rw [ih]; rfl

theorem seed_b (a : ATx) (k : Key) : (a.seed k).b = a.b := by
  unfold seed; split <;> rfl

/-- **the abstract transaction never writes the backend**: a command leaves it as it is, up to the clock -/
theorem step_b (a : ATx) (op : Op) (h : op.isTxOp = true) :
    (a.step op).1.b = { a.b with now := a.b.now + op.dt } := by
  cases op with
  | set k v ttl c =>
    cases c <;> simp only [step, Op.dt, Nat.add_zero]
    · rfl
    · split <;> rfl
    · split <;> rfl
  | setMany kvs ttl => simp only [step, foldl_put_b, Op.dt, Nat.add_zero]
  | get k => rfl
  | getMany ks => rfl
  | exists_ k => rfl
  | incr k by_ ttl => simp only [step, seed_b, Op.dt, Nat.add_zero]
  | delete k => rfl
  | deleteMany ks => simp only [step, foldl_delete_b, Op.dt, Nat.add_zero]
  | expire k ttl =>
    simp only [step, Op.dt, Nat.add_zero]
    split
    · rfl
    · split
      · rfl
      · split <;> rfl
  | getExpire k => rfl
  | clear => simp [Op.isTxOp] at h
  | adv dt => rfl
  | purge => rfl

theorem run_b (ops : List Op) : ∀ (a : ATx), (∀ op ∈ ops, op.isTxOp = true) →
    (a.run ops).1.b = { a.b with now := endTime a.b.now ops } := by
  induction ops with
  | nil => intro a _; rfl
  | cons op ops ih =>
    intro a h
    simp only [run, endTime]
    rw [ih _ (fun op' h' => h op' (by simp [h'])), step_b a op (h op (by simp))]

theorem wf_run (ops : List Op) : ∀ {a : ATx}, a.Wf → (∀ op ∈ ops, UserOp op) → (a.run ops).1.Wf := by
  induction ops with
  | nil => intro a h _; exact h
  | cons op ops ih =>
    intro a h hu
    simp only [run]
    exact ih (wf_step h op (hu op (by simp))) (fun op' h' => hu op' (by simp [h']))

end ATx

/-- the TTLs of the commands, each counted from the instant its command runs, give deadlines satisfying `P` -/
def TtlsOk (P : Option Time → Prop) : Time → List Op → Prop
  | _, [] => True
  | now, op :: ops => (∀ ttl ∈ op.ttls, P (deadlineOf now ttl)) ∧ TtlsOk P (now + op.dt) ops

/-- a command over user keys of the universe `K`, whose lock keys (either mode) are in `K` too -/
def OpOk (K : List Key) (op : Op) : Prop :=
  TxSt.KeysOk K op ∧ (∀ k ∈ TxSt.writeKeys op, ∀ m, lockKey m k ∈ K) ∧ op.isTxOp = true

namespace TxSt
variable {K : List Key} {P : Option Time → Prop}

theorem begin_refines {b : Mem} (hw : b.Within K) (hfit : K.length ≤ b.cap) (hfit' : K.length ≤ overlaySize)
    (hfree : ∀ k, reserved k = true → b.view k = none) (mode : TxMode) (id timeout : Nat) :
    TxRef K P (begin_ b mode id timeout) (ATx.begin_ b.toTtl) b.toTtl := by
  refine ⟨⟨⟨rfl, fun k => by simp [Mem.view, begin_, freshOverlay, ATx.begin_, TtlMap.find]⟩,
      ⟨by simp [begin_, freshOverlay, keys], by simp [begin_, freshOverlay, keys]⟩, hfit'⟩,
    ⟨b.refines_toTtl, hw, hfit⟩, rfl, fun _ _ => rfl, rfl, fun k hr => ?_, ?_, ?_⟩
  · left; rw [← b.refines_toTtl.2 k]; exact hfree k hr
  · intro lk hl; simp [begin_] at hl
  · intro ke hke; simp [begin_, freshOverlay] at hke

theorem opOk_user {op : Op} (h : OpOk K op) : ATx.UserOp op := fun k hk => (h.1 k hk).2

/-- **a whole run of transaction commands, in any mode, refines the abstract run** -/
theorem run_refines (hP0 : P none) (ops : List Op) : ∀ {st : TxSt} {a : ATx} {tb : TtlMap},
    TxRef K P st a tb → a.Wf → (∀ op ∈ ops, OpOk K op) → TtlsOk P a.b.now ops →
    ∃ tb', TxRef K P (st.run ops).1 (a.run ops).1 tb' ∧ (st.run ops).2 = (a.run ops).2 := by
  induction ops with
  | nil => intro st a tb h _ _ _; exact ⟨tb, h, rfl⟩
  | cons op ops ih =>
    intro st a tb h hw hok ht
    have hop := hok op (by simp)
    have hnow : st.ov.now = a.b.now := by rw [h.ov.ref.1, hw.clock]
    obtain ⟨tb1, h1, o1⟩ := step_refines h op hop.1 (fun k hk => hop.2.1 k hk st.mode) hP0
      (by rw [hnow]; exact ht.1)
    have hw1 := ATx.wf_step hw op (opOk_user hop)
    have hb1 : (a.step op).1.b.now = a.b.now + op.dt := by rw [ATx.step_b a op hop.2.2]
    obtain ⟨tb2, h2, o2⟩ := ih h1 hw1 (fun op' h' => hok op' (by simp [h'])) (by rw [hb1]; exact ht.2)
    simp only [run, ATx.run]
    exact ⟨tb2, h2, by rw [o1, o2]⟩

end TxSt
end CashewsVerif
