import CashewsVerif.Model.Glob
import CashewsVerif.Lemmas.MemRefine
/- Helper lemmas for C13 (pattern language, scan over the store, overlay merge). -/
namespace CashewsVerif.Glob
open CashewsVerif Store

/-! ### joining and splitting -/

theorem joinWith_cons_head {α} (sep : List α) (a : α) (p : List α) (ps : List (List α)) :
    joinWith sep ((a :: p) :: ps) = a :: joinWith sep (p :: ps) := by
  cases ps <;> simp [joinWith]

theorem translate_nil : translate [] = [] := rfl

theorem translate_cons (c : Char) (cs : List Char) :
    translate (c :: cs) = if c = '*' then .anyStar :: translate cs else .lit c :: translate cs := by
  unfold translate pieces
  by_cases h : c = '*'
  · simp [splitStar, h, joinWith, lits]
  · simp only [splitStar, h, if_false, List.map_cons, lits]
    exact joinWith_cons_head _ _ _ _

theorem source_nil : source [] = [] := rfl

theorem source_cons (c : Char) (cs : List Char) :
    source (c :: cs) =
      if c = '*' then '.' :: '*' :: source cs
      else if special c then '\\' :: c :: source cs else c :: source cs := by
  unfold source pieces
  by_cases h : c = '*'
  · simp [splitStar, h, joinWith, escape]
  · simp only [splitStar, h, if_false, List.map_cons, escape]
    by_cases hs : special c
    · simp only [hs, if_true]
      rw [joinWith_cons_head, joinWith_cons_head]
    · simp only [hs]
      exact joinWith_cons_head _ _ _ _

/-! ### the matcher and the denotation -/

theorem anySuffix_iff (p : List Char → Bool) (s : List Char) :
    anySuffix p s = true ↔ ∃ s₁ s₂, s = s₁ ++ s₂ ∧ p s₂ = true := by
  induction s with
  | nil =>
    simp only [anySuffix]
    constructor
    · intro h; exact ⟨[], [], rfl, h⟩
    · rintro ⟨s₁, s₂, h, hp⟩
      have : s₂ = [] := (List.nil_eq_append_iff.mp h).2
      rw [← this]; exact hp
  | cons c s ih =>
    simp only [anySuffix, Bool.or_eq_true, ih]
    constructor
    · rintro (h | ⟨s₁, s₂, h, hp⟩)
      · exact ⟨[], c :: s, rfl, h⟩
      · exact ⟨c :: s₁, s₂, by simp [h], hp⟩
    · rintro ⟨s₁, s₂, h, hp⟩
      cases s₁ with
      | nil => left; simp at h; rw [h]; exact hp
      | cons d s₁ =>
        right
        simp at h
        exact ⟨s₁, s₂, h.2, hp⟩

theorem anySuffix_congr {p q : List Char → Bool} (h : ∀ s, p s = q s) (s : List Char) :
    anySuffix p s = anySuffix q s := by
  induction s with
  | nil => simp [anySuffix, h]
  | cons c s ih => simp [anySuffix, h, ih]

theorem matchRe_iff (r : Regex) (s : List Char) : matchRe r s = true ↔ Matches r s := by
  induction r generalizing s with
  | nil => cases s <;> simp [matchRe, Matches]
  | cons a r ih =>
    cases a with
    | lit c =>
      cases s with
      | nil =>
        simp only [matchRe, Matches, Atom.Den]
        constructor
        · intro h; cases h
        · rintro ⟨s₁, s₂, h, h1, _⟩
          subst h1; simp at h
      | cons d s =>
        simp only [matchRe, Matches, Atom.Den, Bool.and_eq_true, beq_iff_eq, ih]
        constructor
        · rintro ⟨h1, h2⟩
          exact ⟨[c], s, by simp [h1], rfl, h2⟩
        · rintro ⟨s₁, s₂, h, h1, h2⟩
          subst h1
          simp at h
          exact ⟨h.1, h.2 ▸ h2⟩
    | anyStar =>
      simp only [matchRe, Matches, Atom.Den, anySuffix_iff, ih, true_and]

theorem glob_eq_matchRe (pat key : List Char) : glob pat key = matchRe (translate pat) key := by
  induction pat generalizing key with
  | nil => simp [glob, translate_nil, matchRe]
  | cons p ps ih =>
    rw [translate_cons]
    by_cases h : p = '*'
    · simp only [glob, h, if_true, matchRe]
      exact anySuffix_congr ih key
    · simp only [glob, h, if_false, matchRe]
      cases key with
      | nil => rfl
      | cons c key => simp [ih]

/-! ### association lists with distinct keys -/

theorem lookup_of_mem {st : Store} (h : (keys st).Nodup) {k : Key} {e : Entry} (hm : (k, e) ∈ st) :
    lookup st k = some e := by
  induction st with
  | nil => cases hm
  | cons p st ih =>
    obtain ⟨k0, e0⟩ := p
    simp only [keys, List.map_cons, List.nodup_cons] at h
    simp only [List.mem_cons, Prod.mk.injEq] at hm
    rcases hm with ⟨h1, h2⟩ | hm
    · subst h1; subst h2; simp [lookup]
    · have : k0 ≠ k := by
        intro hk; subst hk
        exact h.1 (List.mem_map.mpr ⟨(k0, e), hm, rfl⟩)
      simp only [lookup, this, if_false]
      exact ih h.2 hm

theorem mem_of_lookup {st : Store} {k : Key} {e : Entry} (h : lookup st k = some e) : (k, e) ∈ st := by
  induction st with
  | nil => cases h
  | cons p st ih =>
    obtain ⟨k0, e0⟩ := p
    by_cases h0 : k0 = k
    · simp [lookup, h0] at h; simp [h0, h]
    · simp [lookup, h0] at h
      exact List.mem_cons_of_mem _ (ih h)

/-- filtering a store with distinct keys filters what each lookup finds -/
theorem lookup_filter {st : Store} (h : (keys st).Nodup) (P : Key × Entry → Bool) (k : Key) :
    lookup (st.filter P) k = (lookup st k).filter (fun e => P (k, e)) := by
  induction st with
  | nil => rfl
  | cons p st ih =>
    obtain ⟨k0, e0⟩ := p
    simp only [keys, List.map_cons, List.nodup_cons] at h
    have ih' := ih h.2
    by_cases h0 : k0 = k
    · subst h0
      have hn : lookup st k0 = none := by
        cases hl : lookup st k0 with
        | none => rfl
        | some e => exact absurd (List.mem_map.mpr ⟨(k0, e), mem_of_lookup hl, rfl⟩) h.1
      by_cases hp : P (k0, e0)
      · simp [List.filter, hp, lookup, Option.filter]
      · simp [List.filter, hp, lookup, Option.filter, ih', hn]
    · by_cases hp : P (k0, e0)
      · simp [List.filter, hp, lookup, h0, ih']
      · simp [List.filter, hp, lookup, h0, ih']

theorem nodup_keys_filter {st : Store} (h : (keys st).Nodup) (P : Key × Entry → Bool) :
    (keys (st.filter P)).Nodup := by
  unfold keys at *
  exact h.sublist (List.Sublist.map _ List.filter_sublist)

theorem erase_eq_filter (st : Store) (k : Key) : erase st k = st.filter (fun ke => ke.1 != k) := by
  induction st with
  | nil => rfl
  | cons p st ih =>
    obtain ⟨k0, e0⟩ := p
    by_cases h0 : k0 = k <;> simp [erase, h0, ih]

theorem foldl_erase_eq_filter (ks : List Key) (st : Store) :
    ks.foldl erase st = st.filter (fun ke => !ks.contains ke.1) := by
  induction ks generalizing st with
  | nil => exact (List.filter_eq_self.mpr (by simp)).symm
  | cons k ks ih =>
    simp only [List.foldl_cons, ih, erase_eq_filter, List.filter_filter]
    apply List.filter_congr
    intro ke _
    by_cases h : ke.1 = k <;> simp [h, Bool.and_comm]

/-! ### rawDelete / getMany in terms of the store -/

theorem rawDelete_eq (m : Mem) (k : Key) : (m.rawDelete k).1 = { m with store := erase m.store k } := by
  unfold Mem.rawDelete
  split
  · rename_i h
    have : k ∉ keys m.store := by
      rw [mem_keys_iff_lookup]; simp [h]
    rw [erase_of_not_mem _ _ this]
  · rfl

theorem foldl_rawDelete_eq (ks : List Key) (m : Mem) :
    ks.foldl (fun m k => (m.rawDelete k).1) m = { m with store := ks.foldl erase m.store } := by
  induction ks generalizing m with
  | nil => rfl
  | cons k ks ih => simp only [List.foldl_cons]; rw [ih, rawDelete_eq]

theorem getMany_spec (ks : List Key) (m : Mem) :
    (m.getMany ks).2 = ks.map (fun k => (m.view k).map (·.val)) ∧
    (m.getMany ks).1.now = m.now ∧ ∀ k, (m.getMany ks).1.view k = m.view k := by
  induction ks generalizing m with
  | nil => simp [Mem.getMany]
  | cons k ks ih =>
    obtain ⟨h1, h2, h3⟩ := ih (m.rawGet k).1
    simp only [Mem.getMany, List.map_cons]
    refine ⟨?_, ?_, ?_⟩
    · rw [h1, Mem.rawGet_out]
      congr 1
      apply List.map_congr_left
      intro k' _
      rw [Mem.rawGet_view]
    · rw [h2, Mem.rawGet_now]
    · intro k'; rw [h3, Mem.rawGet_view]

/-! ### scan -/

/-- the selection predicate on store entries -/
def sel (name : Nat → List Char) (now : Nat) (pat : List Char) (ke : Key × Entry) : Bool :=
  ke.2.live now && glob pat (name ke.1)

theorem scan_eq (name : Nat → List Char) (m : Mem) (pat : List Char) :
    scan name m pat = (m.store.filter (sel name m.now pat)).map (·.1) := by
  unfold scan sel
  congr 1
  apply List.filter_congr
  intro ke _
  rw [glob_eq_matchRe]

theorem mem_scan_iff {name : Nat → List Char} {m : Mem} (h : (keys m.store).Nodup) (pat : List Char) (k : Key) :
    k ∈ scan name m pat ↔ (m.view k).isSome ∧ glob pat (name k) = true := by
  rw [scan_eq]
  simp only [List.mem_map, List.mem_filter, sel, Bool.and_eq_true, Mem.view]
  constructor
  · rintro ⟨⟨k', e⟩, ⟨hm, hl, hg⟩, rfl⟩
    simp [lookup_of_mem h hm, Option.filter, hl, hg]
  · rintro ⟨hv, hg⟩
    cases hl : lookup m.store k with
    | none => simp [hl] at hv
    | some e =>
      by_cases hlive : e.live m.now
      · exact ⟨(k, e), ⟨mem_of_lookup hl, hlive, hg⟩, rfl⟩
      · simp [hl, Option.filter, hlive] at hv

theorem nodup_scan {name : Nat → List Char} {m : Mem} (h : (keys m.store).Nodup) (pat : List Char) :
    (scan name m pat).Nodup := by
  rw [scan_eq]
  exact nodup_keys_filter h _

/-- in a store with distinct keys, a key is among the scanned ones iff its own entry is selected -/
theorem contains_scan {name : Nat → List Char} {m : Mem} (h : (keys m.store).Nodup) (pat : List Char)
    {ke : Key × Entry} (hm : ke ∈ m.store) :
    (scan name m pat).contains ke.1 = sel name m.now pat ke := by
  obtain ⟨k, e⟩ := ke
  have hl := lookup_of_mem h hm
  rw [Bool.eq_iff_iff, List.contains_iff_mem, mem_scan_iff h]
  simp [Mem.view, hl, sel, Option.filter]

theorem deleteMatch_store {name : Nat → List Char} {m : Mem} (h : (keys m.store).Nodup) (pat : List Char) :
    deleteMatch name m pat = { m with store := m.store.filter (fun ke => !sel name m.now pat ke) } := by
  unfold deleteMatch
  rw [foldl_rawDelete_eq, foldl_erase_eq_filter]
  congr 1
  apply List.filter_congr
  intro ke hm
  rw [contains_scan h pat hm]

theorem deleteMatch_view {name : Nat → List Char} {m : Mem} (h : (keys m.store).Nodup) (pat : List Char) (k : Key) :
    (deleteMatch name m pat).view k = if glob pat (name k) then none else m.view k := by
  rw [deleteMatch_store h]
  simp only [Mem.view, lookup_filter h]
  cases lookup m.store k with
  | none => simp
  | some e =>
    by_cases hg : glob pat (name k) = true <;> by_cases hl : e.live m.now = true <;>
      simp [Option.filter, sel, hg, hl]

theorem nodup_deleteMatch {name : Nat → List Char} {m : Mem} (h : (keys m.store).Nodup) (pat : List Char) :
    (keys (deleteMatch name m pat).store).Nodup := by
  rw [deleteMatch_store h]; exact nodup_keys_filter h _

theorem zip_map_self {α β} (f : α → β) (l : List α) : l.zip (l.map f) = l.map (fun a => (a, f a)) := by
  induction l with
  | nil => rfl
  | cons a l ih => simp [ih]

theorem getMatchAll_out {name : Nat → List Char} {m : Mem} (h : (keys m.store).Nodup) (pat : List Char) :
    (getMatchAll name m pat).2 = (m.store.filter (sel name m.now pat)).map (fun ke => (ke.1, some ke.2.val)) := by
  unfold getMatchAll
  simp only [(getMany_spec _ m).1]
  rw [zip_map_self, scan_eq, List.map_map]
  apply List.map_congr_left
  intro ke hke
  obtain ⟨k, e⟩ := ke
  simp only [List.mem_filter, sel, Bool.and_eq_true] at hke
  simp [Mem.view, lookup_of_mem h hke.1, Option.filter, hke.2.1]

/-- what `get_match` yields: the selected entries that are not bit-field objects, each with its stored value
(a stored `None` is `some .nil`, never the default `none`) -/
theorem getMatch_out {name : Nat → List Char} {bits : Val → Bool} {m : Mem} (h : (keys m.store).Nodup) (pat : List Char) :
    (getMatch name bits m pat).2 =
      (m.store.filter (fun ke => sel name m.now pat ke && !bits ke.2.val)).map (fun ke => (ke.1, some ke.2.val)) := by
  unfold getMatch
  simp only [getMatchAll_out h]
  rw [List.filter_map, List.filter_filter]
  congr 1
  apply List.filter_congr
  intro ke _
  simp [yielded, Function.comp, Bool.and_comm]

theorem getMatch_view (name : Nat → List Char) (bits : Val → Bool) (m : Mem) (pat : List Char) (k : Key) :
    (getMatch name bits m pat).1.view k = m.view k := by
  unfold getMatch getMatchAll
  exact (getMany_spec _ m).2.2 k

end CashewsVerif.Glob
