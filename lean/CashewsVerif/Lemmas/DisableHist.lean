import CashewsVerif.Lemmas.DisableStack
import CashewsVerif.Lemmas.RouteHist
/-
C17 — public commands through the middleware stack (`execS`) and histories that interleave
registration, control operations and commands (`hstep`, `hrun` of `Model/Disable.lean`).
-/
namespace CashewsVerif.Route

section AssembleOn
variable {κ ν : Type} [DecidableEq κ]

theorem dictGet_dictUpdateZip_notMem (k : κ) : ∀ (ks : List κ) (vs : List ν) (d : List (κ × ν)),
    k ∉ ks → dictGet k (dictUpdateZip d ks vs) = dictGet k d
  | [], _, _, _ => by simp [dictUpdateZip]
  | _ :: _, [], _, _ => by simp [dictUpdateZip]
  | a :: as, v :: vs, d, h => by
    simp only [dictUpdateZip]
    have ha : ¬ a = k := fun e => h (by simp [e])
    rw [dictGet_dictUpdateZip_notMem k as vs _ (fun hm => h (List.mem_cons_of_mem _ hm)),
      dictGet_dictSet]
    simp [ha]

/-- `dictGet_assembleFrom` when only the groups of some backends (`P`) are known to answer with a
per-key value, and the key looked up belongs to none of the other groups -/
theorem dictGet_assembleFrom_on (f : κ → ν) (resp : Nat → List ν) (k : κ) (P : Nat → Prop) :
    ∀ (groups : List (Nat × List κ)) (i0 : Nat) (d : List (κ × ν)),
    (∀ i (h : i < groups.length), P (groups[i]).1 → resp (i0 + i) = (groups[i]).2.map f) →
    (∀ i (h : i < groups.length), ¬ P (groups[i]).1 → k ∉ (groups[i]).2) →
    dictGet k (assembleFrom resp i0 d groups) =
      if k ∈ groups.flatMap (·.2) then some (f k) else dictGet k d
  | [], i0, d, _, _ => by simp [assembleFrom]
  | (b, ks) :: r, i0, d, h, hn => by
    simp only [assembleFrom]
    have hr : ∀ i (hi : i < r.length), P (r[i]).1 → resp (i0 + 1 + i) = (r[i]).2.map f := by
      intro i hi hp
      have := h (i + 1) (by simp; omega) (by simpa using hp)
      simpa only [Nat.add_assoc, Nat.add_comm 1 i, List.getElem_cons_succ] using this
    have hnr : ∀ i (hi : i < r.length), ¬ P (r[i]).1 → k ∉ (r[i]).2 := by
      intro i hi hp
      have := hn (i + 1) (by simp; omega) (by simpa using hp)
      simpa using this
    rw [dictGet_assembleFrom_on f resp k P r (i0 + 1) _ hr hnr]
    by_cases hp : P b
    · have h0 : resp i0 = ks.map f := by
        have := h 0 (by simp) (by simpa using hp)
        simpa only [Nat.add_zero, List.getElem_cons_zero] using this
      rw [h0, dictGet_dictUpdateZip]
      by_cases h1 : k ∈ r.flatMap (·.2)
      · simp [h1]
      · by_cases h2 : k ∈ ks <;> simp [h1, h2]
    · have hk : k ∉ ks := by
        have := hn 0 (by simp) (by simpa using hp)
        simpa using this
      rw [dictGet_dictUpdateZip_notMem k ks _ d hk]
      by_cases h1 : k ∈ r.flatMap (·.2) <;> simp [h1, hk]

end AssembleOn

end CashewsVerif.Route

namespace CashewsVerif.Disable
open CashewsVerif.Route

/-! ### public commands through the stack -/

theorem groups_backends {t : Table} {keys : List (List Nat)} {groups : List (Nat × List (List Nat))}
    (hg : groupKeys t.getBackend keys = some groups) :
    ∀ b ks, (b, ks) ∈ groups → b ∈ t.backends ∧ ∀ k ∈ ks, t.getBackend k = some b := by
  intro b ks hm
  obtain ⟨hok, _⟩ := groupKeys_spec hg
  have := hok.2 b ks hm
  refine ⟨?_, this.2⟩
  cases hks : ks with
  | nil => exact absurd hks this.1
  | cons k _ => exact getBackend_mem_backends (this.2 k (by simp [hks]))

/-- **Everything a public command asks of any backend object** — the command itself, the deletion
`invalidate_further()` replaces a read by, the `init()` of the auto-init middleware — goes to a
registered backend that has the command ENABLED in the caller's context and that is the
longest-prefix backend of every key handed over; and only such backends are initialised. -/
theorem execS_calls (t : Table) (w : World) (c : Nat) (inTx inv : Bool) (ini : List Nat) (f : FCmd)
    (res : Res) (calls : List BCall) (ini' : List Nat)
    (h : execS t w c inTx inv ini f = some (res, calls, ini')) :
    (∀ bc ∈ calls, isDisable w c bc.backend [f.cmd] = false ∧ bc.backend ∈ t.backends ∧
        ∀ k ∈ bc.keys, t.getBackend k = some bc.backend) ∧
    (∀ b ∈ ini', b ∈ ini ∨ (b ∈ t.backends ∧ isDisable w c b [f.cmd] = false)) ∧
    (∀ b ∈ ini, b ∈ ini') := by
  have grp : ∀ (cmd : Cmd) (keys : List (List Nat)) (groups : List (Nat × List (List Nat))),
      groupKeys t.getBackend keys = some groups →
      (∀ bc ∈ (groupCallsS w c inTx inv cmd groups ini 0).1,
        isDisable w c bc.backend [cmd] = false ∧ bc.backend ∈ t.backends ∧
        ∀ k ∈ bc.keys, t.getBackend k = some bc.backend) ∧
      (∀ b ∈ (groupCallsS w c inTx inv cmd groups ini 0).2.2,
        b ∈ ini ∨ (b ∈ t.backends ∧ isDisable w c b [cmd] = false)) ∧
      (∀ b ∈ ini, b ∈ (groupCallsS w c inTx inv cmd groups ini 0).2.2) := by
    intro cmd keys groups hg
    have hgb := groups_backends hg
    refine ⟨?_, ?_, fun b hb => groupCallsS_ini_mono w c inTx inv cmd groups ini 0 b hb⟩
    · intro bc hbc
      obtain ⟨b, ks, hm, rfl, hk, hd⟩ := groupCallsS_mem w c inTx inv cmd groups ini 0 bc hbc
      refine ⟨hd, (hgb _ ks hm).1, ?_⟩
      intro k hkm
      rcases hk with hk | hk
      · rw [hk] at hkm
        exact (hgb _ ks hm).2 k hkm
      · rw [hk] at hkm
        simp at hkm
    · intro b hb
      rcases groupCallsS_ini w c inTx inv cmd groups ini 0 b hb with h | ⟨ks, hm, hd⟩
      · exact Or.inl h
      · exact Or.inr ⟨(hgb b ks hm).1, hd⟩
  have allb : ∀ (cmd : Cmd),
      (∀ bc ∈ (allBackendsS w c inv cmd t.backends ini 0).1,
        isDisable w c bc.backend [cmd] = false ∧ bc.backend ∈ t.backends ∧
        ∀ k ∈ bc.keys, t.getBackend k = some bc.backend) ∧
      (∀ b ∈ (allBackendsS w c inv cmd t.backends ini 0).2.2,
        b ∈ ini ∨ (b ∈ t.backends ∧ isDisable w c b [cmd] = false)) ∧
      (∀ b ∈ ini, b ∈ (allBackendsS w c inv cmd t.backends ini 0).2.2) := by
    intro cmd
    refine ⟨?_, ?_, fun b hb => allBackendsS_ini_mono w c inv cmd t.backends ini 0 b hb⟩
    · intro bc hbc
      obtain ⟨h1, h2, h3⟩ := allBackendsS_mem w c inv cmd t.backends ini 0 bc hbc
      exact ⟨h3, h1, by rw [h2]; simp⟩
    · intro b hb
      exact allBackendsS_ini w c inv cmd t.backends ini 0 b hb
  cases f with
  | keyed cmd key =>
    simp only [execS, Option.map_eq_some_iff] at h
    obtain ⟨b, hb, hm⟩ := h
    have e1 : calls = (stackCall w c inv (targetOf inTx b) cmd [key] ini 0).2.1 := by rw [hm]
    have e2 : ini' = (stackCall w c inv (targetOf inTx b) cmd [key] ini 0).2.2 := by rw [hm]
    subst e1 e2
    refine ⟨?_, ?_, fun x hx => stackCall_ini_mono w c inv _ cmd [key] ini 0 x hx⟩
    · intro bc hbc
      obtain ⟨h1, h2, h3⟩ := stackCall_mem w c inv (targetOf inTx b) cmd [key] ini 0 bc hbc
      rw [target_ctl_targetOf] at h1
      rw [target_backend_targetOf] at h2
      rw [h2]
      refine ⟨h1, getBackend_mem_backends hb, ?_⟩
      intro k hk
      rcases h3 with h3 | h3
      · rw [h3] at hk
        simp only [List.mem_singleton] at hk
        subst hk
        exact hb
      · rw [h3] at hk
        simp at hk
    · intro x hx
      rcases stackCall_ini w c inv (targetOf inTx b) cmd [key] ini 0 with e | ⟨e, hd⟩
      · rw [e] at hx
        exact Or.inl hx
      · rw [e, target_backend_targetOf] at hx
        rw [target_ctl_targetOf] at hd
        rcases List.mem_cons.1 hx with rfl | hx
        · exact Or.inr ⟨getBackend_mem_backends hb, hd⟩
        · exact Or.inl hx
  | getMany keys =>
    simp only [execS, Option.map_eq_some_iff] at h
    obtain ⟨groups, hg, hm⟩ := h
    simp only [Prod.mk.injEq] at hm
    obtain ⟨_, rfl, rfl⟩ := hm
    exact grp .getMany keys groups hg
  | setMany keys =>
    simp only [execS, Option.map_eq_some_iff] at h
    obtain ⟨groups, hg, hm⟩ := h
    simp only [Prod.mk.injEq] at hm
    obtain ⟨_, rfl, rfl⟩ := hm
    exact grp .setMany keys groups hg
  | deleteMany keys =>
    simp only [execS, Option.map_eq_some_iff] at h
    obtain ⟨groups, hg, hm⟩ := h
    simp only [Prod.mk.injEq] at hm
    obtain ⟨_, rfl, rfl⟩ := hm
    exact grp .deleteMany keys groups hg
  | clear =>
    simp only [execS, Option.some.injEq, Prod.mk.injEq] at h
    obtain ⟨_, rfl, rfl⟩ := h
    exact allb .clear
  | keysCount =>
    simp only [execS, Option.some.injEq, Prod.mk.injEq] at h
    obtain ⟨_, rfl, rfl⟩ := h
    exact allb .getKeysCount

/-- `exec` is `execS` outside `invalidate_further()` with every registered backend initialised -/
theorem execS_plain (t : Table) (w : World) (c : Nat) (inTx : Bool) (ini : List Nat) (f : FCmd)
    (hin : ∀ b ∈ t.backends, b ∈ ini) :
    execS t w c inTx false ini f =
      (exec t w c inTx f).map fun rc => (rc.1, rc.2.map BCall.cmd, ini) := by
  cases f with
  | keyed cmd key =>
    simp only [execS, exec, Option.map_map]
    cases hb : t.getBackend key with
    | none => rfl
    | some b =>
      simp only [Option.map_some, Function.comp]
      rw [stackCall_plain w c (targetOf inTx b) cmd [key] ini 0
        (by rw [target_backend_targetOf]; exact hin b (getBackend_mem_backends hb))]
  | getMany keys =>
    simp only [execS, exec, Option.map_map]
    cases hg : groupKeys t.getBackend keys with
    | none => rfl
    | some groups =>
      have hgi : ∀ g ∈ groups, g.1 ∈ ini := fun g hgm => hin _ (groups_backends hg g.1 g.2 hgm).1
      obtain ⟨h1, h2, h3⟩ := groupCallsS_plain w c inTx .getMany groups ini 0 hgi
      simp only [Option.map_some, Function.comp, h1, h2, h3 rfl]
  | setMany keys =>
    simp only [execS, exec, Option.map_map]
    cases hg : groupKeys t.getBackend keys with
    | none => rfl
    | some groups =>
      have hgi : ∀ g ∈ groups, g.1 ∈ ini := fun g hgm => hin _ (groups_backends hg g.1 g.2 hgm).1
      obtain ⟨h1, h2, _⟩ := groupCallsS_plain w c inTx .setMany groups ini 0 hgi
      simp only [Option.map_some, Function.comp, h1, h2]
  | deleteMany keys =>
    simp only [execS, exec, Option.map_map]
    cases hg : groupKeys t.getBackend keys with
    | none => rfl
    | some groups =>
      have hgi : ∀ g ∈ groups, g.1 ∈ ini := fun g hgm => hin _ (groups_backends hg g.1 g.2 hgm).1
      obtain ⟨h1, h2, _⟩ := groupCallsS_plain w c inTx .deleteMany groups ini 0 hgi
      simp only [Option.map_some, Function.comp, h1, h2]
  | clear =>
    obtain ⟨h1, h2, _⟩ := allBackendsS_plain w c .clear (Or.inl rfl) t.backends ini 0 hin
    simp only [execS, exec, Option.map_some, h1, h2]
  | keysCount =>
    obtain ⟨h1, h2, h3⟩ := allBackendsS_plain w c .getKeysCount (Or.inr rfl) t.backends ini 0 hin
    simp only [execS, exec, Option.map_some, h1, h2, h3, List.range_eq_range']

/-- **one default per key, in every environment**: the position of a key whose backend has
`get_many` disabled holds the caller's default — inside `invalidate_further()`, on backends that
were never initialised, in and outside a transaction -/
theorem execS_getMany_disabled_slot (t : Table) (w : World) (c : Nat) (inTx inv : Bool)
    (ini : List Nat) (keys : List (List Nat)) (slots : List Slot) (calls : List BCall) (ini' : List Nat)
    (h : execS t w c inTx inv ini (.getMany keys) = some (.many slots, calls, ini'))
    (i : Nat) (hi : i < keys.length) (b : Nat) (hb : t.getBackend (keys[i]) = some b)
    (hd : isDisable w c b [.getMany] = true) : slots[i]? = some Slot.dflt := by
  simp only [execS, Option.map_eq_some_iff] at h
  obtain ⟨groups, hg, hm⟩ := h
  simp only [Prod.mk.injEq, Res.many.injEq] at hm
  obtain ⟨rfl, _, _⟩ := hm
  obtain ⟨hok, hspec⟩ := groupKeys_spec hg
  have hk : keys[i] ∈ keys := List.getElem_mem hi
  have hin : keys[i] ∈ groups.flatMap (·.2) := by
    have hkb : keys[i] ∈ groupOf groups b := by
      rw [hspec b]
      simp [hk, hb]
    exact List.mem_flatMap.2 ⟨_, mem_of_groupOf_ne_nil (List.ne_nil_of_mem hkb), hkb⟩
  have key := dictGet_assembleFrom_on (fun _ => Slot.dflt)
    (fun j => (groupCallsS w c inTx inv .getMany groups ini 0).2.1.getD j []) (keys[i])
    (fun b' => isDisable w c b' [.getMany] = true) groups 0 []
    (by
      intro j hj hp
      simpa using groupCallsS_slots_disabled w c inTx inv groups ini 0 j hj hp)
    (by
      intro j hj hp hmem
      have := (hok.2 (groups[j]).1 (groups[j]).2 (List.getElem_mem hj)).2 _ hmem
      rw [hb] at this
      simp only [Option.some.injEq] at this
      rw [← this] at hp
      exact hp hd)
  simp only [hin, if_true] at key
  simp only [getManyResult, List.map_map, List.getElem?_map, List.getElem?_eq_getElem hi,
    Option.map_some, Function.comp, key, Slot.ofOption]

/-! ### histories -/

theorem hrun_nil (s : Sys) : hrun s [] = s := rfl

theorem hrun_cons (s : Sys) (op : HOp) (ops : List HOp) :
    hrun s (op :: ops) = hrun (hstep s op).1 ops := rfl

theorem hrun_append (s : Sys) (a b : List HOp) : hrun s (a ++ b) = hrun (hrun s a) b := by
  simp [hrun, List.foldl_append]

/-- the table of a history is the table of its registrations -/
theorem hrun_t : ∀ (ops : List HOp) (s : Sys),
    (hrun s ops).t = (HOp.setups ops).foldl (fun t r => t.add r.1 r.2) s.t
  | [], _ => rfl
  | op :: ops, s => by
    rw [hrun_cons, hrun_t ops]
    cases op <;> simp only [HOp.setups, hstep, List.foldl_cons]
    · split <;> rfl

theorem hrun_fresh_t (ops : List HOp) : (hrun Sys.fresh ops).t = Table.ofList (HOp.setups ops) := by
  rw [hrun_t]
  rfl

theorem hstep_cmd_out {s : Sys} {c : Nat} {inTx : Bool} {f : FCmd} {res : Res} {calls : List BCall}
    (h : (hstep s (.cmd c inTx f)).2 = .cmd (some (res, calls))) :
    ∃ ini', execS s.t s.w c inTx (s.inv c) s.inited f = some (res, calls, ini') := by
  simp only [hstep] at h
  cases he : execS s.t s.w c inTx (s.inv c) s.inited f with
  | none => simp [he] at h
  | some r =>
    obtain ⟨r1, r2, r3⟩ := r
    simp only [he, HOut.cmd.injEq, Option.some.injEq, Prod.mk.injEq] at h
    obtain ⟨rfl, rfl⟩ := h
    exact ⟨r3, rfl⟩

/-! #### the control state along a history -/

theorem controlSet_setVar_mono {w : World} {b : Nat} (c b' : Nat) (s : List Cmd)
    (h : w.controlSet b = true) : (setVar w c b' s).controlSet b = true := by
  simp only [setVar]
  split <;> simp [h]

theorem ctlStep_controlSet_mono (t : Table) (w : World) (op : CtlOp) (b : Nat)
    (h : w.controlSet b = true) : (ctlStep t w op).1.controlSet b = true := by
  cases op <;> simp only [ctlStep]
  · split
    · exact h
    · exact controlSet_setVar_mono _ _ _ h
  · split
    · exact h
    · exact controlSet_setVar_mono _ _ _ h
  · split
    · exact h
    · exact controlSet_setVar_mono _ _ _ h
  · exact h

theorem ctlRun_controlSet_mono (t : Table) (b : Nat) : ∀ (ops : List CtlOp) (w : World),
    w.controlSet b = true → (ctlRun t w ops).controlSet b = true
  | [], _, h => h
  | op :: ops, w, h => by
    simp only [ctlRun, List.foldl_cons]
    exact ctlRun_controlSet_mono t b ops _ (ctlStep_controlSet_mono t w op b h)

/-- The view a context has of a backend is the same in two worlds that agree on the context's own
variable, provided the shared `_control_set` flag cannot be observed: the backend is enabled by
default, or the flag was raised already (and flags are never lowered). -/
theorem view_unchanged {w w' : World} (hok : w.Ok) (hok' : w'.Ok) (b c' : Nat)
    (hvar : w'.var c' b = w.var c' b) (hebd : w'.enableByDefault b = w.enableByDefault b)
    (hmono : w.controlSet b = true → w'.controlSet b = true)
    (hb : w.enableByDefault b = true ∨ w.controlSet b = true) (cmds : List Cmd) :
    isDisable w' c' b cmds = isDisable w c' b cmds ∧ isFullDisable w' c' b = isFullDisable w c' b := by
  rcases hb with he | hc
  · rw [isDisable_eq hok' c' b (by rw [hebd, he]), isDisable_eq hok c' b he,
      isFullDisable_eq hok' c' b (by rw [hebd, he]), isFullDisable_eq hok c' b he, hvar]
    exact ⟨rfl, rfl⟩
  · have hc' := hmono hc
    simp [isDisable, isFullDisable, hc, hc', hvar]

theorem hstep_ok {s : Sys} (h : s.w.Ok) (op : HOp) : (hstep s op).1.w.Ok := by
  cases op <;> simp only [hstep]
  · split
    · exact ok_setVar h _ _ _
    · exact h
  · exact h
  · exact ok_ctlStep h _
  · exact h
  · exact h
  · split <;> exact h

theorem hrun_ok : ∀ (ops : List HOp) {s : Sys}, s.w.Ok → (hrun s ops).w.Ok
  | [], _, h => h
  | op :: ops, _, h => by
    rw [hrun_cons]
    exact hrun_ok ops (hstep_ok h op)

theorem hstep_enableByDefault (s : Sys) (op : HOp) :
    (hstep s op).1.w.enableByDefault = s.w.enableByDefault := by
  cases op <;> simp only [hstep]
  · split <;> rfl
  · exact ctlStep_enableByDefault _ _ _
  · split <;> rfl

theorem hrun_enableByDefault : ∀ (ops : List HOp) (s : Sys),
    (hrun s ops).w.enableByDefault = s.w.enableByDefault
  | [], _ => rfl
  | op :: ops, s => by
    rw [hrun_cons, hrun_enableByDefault ops, hstep_enableByDefault]

theorem hstep_controlSet_mono (s : Sys) (op : HOp) (b : Nat) (h : s.w.controlSet b = true) :
    (hstep s op).1.w.controlSet b = true := by
  cases op <;> simp only [hstep]
  · split
    · exact controlSet_setVar_mono _ _ _ h
    · exact h
  · exact h
  · exact ctlStep_controlSet_mono _ _ _ _ h
  · exact h
  · exact h
  · split <;> exact h

theorem hrun_controlSet_mono (b : Nat) : ∀ (ops : List HOp) (s : Sys),
    s.w.controlSet b = true → (hrun s ops).w.controlSet b = true
  | [], _, h => h
  | op :: ops, s, h => by
    rw [hrun_cons]
    exact hrun_controlSet_mono b ops _ (hstep_controlSet_mono s op b h)

theorem hstep_var_other (s : Sys) (op : HOp) (c' : Nat) (h : op.target ≠ some c') :
    (hstep s op).1.w.var c' = s.w.var c' := by
  cases op with
  | setup c p b d =>
    simp only [hstep]
    cases d with
    | false => rfl
    | true =>
      simp only [HOp.target, if_true, ne_eq, Option.some.injEq] at h
      funext b'
      have : ¬ c' = c := fun e => h e.symm
      simp [disableB, setVar, this]
  | initB b => rfl
  | ctl op =>
    simp only [hstep]
    exact ctlStep_var_other _ _ op c' (by simpa [HOp.target] using h)
  | invEnter c => rfl
  | invExit c => rfl
  | cmd c inTx f =>
    simp only [hstep]
    split <;> rfl

theorem hrun_var_other (c' : Nat) : ∀ (ops : List HOp) (s : Sys),
    (∀ op ∈ ops, op.target ≠ some c') → (hrun s ops).w.var c' = s.w.var c'
  | [], _, _ => rfl
  | op :: ops, s, h => by
    rw [hrun_cons, hrun_var_other c' ops _ (fun o ho => h o (List.mem_cons_of_mem _ ho))]
    exact hstep_var_other s op c' (h op (by simp))

end CashewsVerif.Disable
