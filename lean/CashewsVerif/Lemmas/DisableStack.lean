import CashewsVerif.Lemmas.Disable
/-
C17 — the default middleware stack (`runChain`, `stackCall`, `groupCallsS`, `allBackendsS`, `execS` of
`Model/Disable.lean`): which orders of the middlewares keep a disabled command away from the backend,
what the stack of `Cache()` issues, and how `execS` specialises to `exec`.
-/
namespace CashewsVerif.Disable
open CashewsVerif.Route

theorem Target.ctl_eq_backend (tg : Target) : tg.ctl = tg.backend := by cases tg <;> rfl

/-! ### which chains are safe -/

/-- the disable check comes first, preceded at most by middlewares that never talk to the backend -/
def SafeOrder (chain : List Mw) : Prop :=
  ∃ pre post, chain = pre ++ Mw.disable :: post ∧ ∀ m ∈ pre, m = Mw.callbacks

theorem runChain_safe {chain : List Mw} (h : SafeOrder chain) (w : World) (c : Nat) (inv : Bool)
    (tg : Target) (cmd : Cmd) (keys : List (List Nat)) (ini : List Nat) (n : Nat)
    (hd : isDisable w c tg.ctl [cmd] = true) :
    runChain w c inv tg cmd keys chain ini n = (defaultShape cmd keys.length, [], ini) := by
  obtain ⟨pre, post, rfl, hpre⟩ := h
  induction pre with
  | nil => simp [runChain, hd]
  | cons m pre ih =>
    have hm : m = Mw.callbacks := hpre m (by simp)
    subst hm
    simp only [List.cons_append, runChain]
    exact ih (fun m hm => hpre m (List.mem_cons_of_mem _ hm))

/-- a world in which context 0 has disabled `get` — and nothing else — for backend 0 -/
def Wdis : World := disableB (World.init true) 0 0 [.get]

theorem wdis_delete_enabled : isDisable Wdis 0 (Target.raw 0).ctl [Cmd.delete] = false := by decide

theorem wdis_disabled : isDisable Wdis 0 (Target.raw 0).ctl [Cmd.get] = true := by decide

/-- a chain that stays silent for a disabled `get` in every environment has the safe order -/
theorem safe_of_silent : ∀ (chain : List Mw),
    (∀ inv ini, (runChain Wdis 0 inv (.raw 0) .get [[]] chain ini 0).2.1 = []) → SafeOrder chain
  | [], h => by
    have := h false []
    simp [runChain] at this
  | .disable :: rest, _ => ⟨[], rest, rfl, by simp⟩
  | .callbacks :: rest, h => by
    obtain ⟨pre, post, e, hp⟩ := safe_of_silent rest (fun inv ini => by simpa [runChain] using h inv ini)
    refine ⟨.callbacks :: pre, post, by simp [e], ?_⟩
    intro m hm
    rcases List.mem_cons.1 hm with rfl | hm
    · rfl
    · exact hp m hm
  | .autoInit :: rest, h => by
    have := h false []
    simp [runChain, Target.backend] at this
  | .invalidate :: rest, h => by
    have := h true []
    simp [runChain, invalidateOf, wdis_delete_enabled] at this

/-! ### the stack of `Cache()` -/

theorem stackCall_eq (w : World) (c : Nat) (inv : Bool) (tg : Target) (cmd : Cmd)
    (keys : List (List Nat)) (ini : List Nat) (n : Nat) :
    stackCall w c inv tg cmd keys ini n =
      if isDisable w c tg.ctl [cmd] then (defaultShape cmd keys.length, [], ini)
      else match (if inv then invalidateOf cmd else none) with
        | some (del, res) => (res, if isDisable w c tg.ctl [del] then [] else [.cmd ⟨tg, del, keys⟩], ini)
        | none =>
          if ini.contains tg.backend then (passShape cmd n keys.length, [.cmd ⟨tg, cmd, keys⟩], ini)
          else (passShape cmd (n + 1) keys.length, [.init tg, .cmd ⟨tg, cmd, keys⟩], tg.backend :: ini) := by
  simp only [stackCall, chainOf, defaultMws, List.reverse_cons, List.reverse_nil, List.nil_append,
    List.cons_append, runChain]
  by_cases hd : isDisable w c tg.ctl [cmd] = true
  · simp only [hd, if_true]
  · simp only [hd, Bool.false_eq_true, if_false]
    cases hm : (if inv then invalidateOf cmd else none) with
    | none => rfl
    | some p => rfl

theorem defaultMws_safe : SafeOrder (chainOf defaultMws) :=
  ⟨[], [.callbacks, .invalidate, .autoInit], rfl, by simp⟩

theorem stackCall_disabled (w : World) (c : Nat) (inv : Bool) (tg : Target) (cmd : Cmd)
    (keys : List (List Nat)) (ini : List Nat) (n : Nat) (hd : isDisable w c tg.ctl [cmd] = true) :
    stackCall w c inv tg cmd keys ini n = (defaultShape cmd keys.length, [], ini) :=
  runChain_safe defaultMws_safe w c inv tg cmd keys ini n hd

/-- whatever the stack issues goes to the one backend object it was built for, carries the keys of
the command (or none: `init`), and is issued only if the command is enabled -/
theorem stackCall_mem (w : World) (c : Nat) (inv : Bool) (tg : Target) (cmd : Cmd)
    (keys : List (List Nat)) (ini : List Nat) (n : Nat) (bc : BCall)
    (h : bc ∈ (stackCall w c inv tg cmd keys ini n).2.1) :
    isDisable w c tg.ctl [cmd] = false ∧ bc.backend = tg.backend ∧ (bc.keys = keys ∨ bc.keys = []) := by
  rw [stackCall_eq] at h
  by_cases hd : isDisable w c tg.ctl [cmd] = true
  · simp [hd] at h
  · simp only [hd, Bool.false_eq_true, if_false] at h
    refine ⟨by simpa using hd, ?_⟩
    split at h
    · rename_i del res _
      by_cases hdel : isDisable w c tg.ctl [del] = true
      · simp [hdel] at h
      · simp only [hdel, Bool.false_eq_true, if_false, List.mem_singleton] at h
        subst h
        exact ⟨rfl, Or.inl rfl⟩
    · split at h
      · simp only [List.mem_singleton] at h
        subst h
        exact ⟨rfl, Or.inl rfl⟩
      · simp only [List.mem_cons, List.not_mem_nil, or_false] at h
        rcases h with rfl | rfl
        · exact ⟨rfl, Or.inr rfl⟩
        · exact ⟨rfl, Or.inl rfl⟩

/-- a backend call is in order by itself: a command is handed over only if THAT command — the read, or the
deletion `invalidate_further()` replaces it by — is enabled for the receiver in the caller's context -/
def BCall.cmdOk (w : World) (c : Nat) : BCall → Prop
  | .cmd cl => isDisable w c cl.target.ctl [cl.cmd] = false
  | .init _ => True

theorem stackCall_cmdOk (w : World) (c : Nat) (inv : Bool) (tg : Target) (cmd : Cmd)
    (keys : List (List Nat)) (ini : List Nat) (n : Nat) (bc : BCall)
    (h : bc ∈ (stackCall w c inv tg cmd keys ini n).2.1) : bc.cmdOk w c := by
  rw [stackCall_eq] at h
  by_cases hd : isDisable w c tg.ctl [cmd] = true
  · simp [hd] at h
  · have hd' : isDisable w c tg.ctl [cmd] = false := by simpa using hd
    simp only [hd, Bool.false_eq_true, if_false] at h
    split at h
    · rename_i del res _
      by_cases hdel : isDisable w c tg.ctl [del] = true
      · simp [hdel] at h
      · simp only [hdel, Bool.false_eq_true, if_false, List.mem_singleton] at h
        subst h
        simpa [BCall.cmdOk] using hdel
    · split at h
      · simp only [List.mem_singleton] at h
        subst h
        exact hd'
      · simp only [List.mem_cons, List.not_mem_nil, or_false] at h
        rcases h with rfl | rfl
        · trivial
        · exact hd'

/-- a backend is initialised by the stack only for an enabled command -/
theorem stackCall_ini (w : World) (c : Nat) (inv : Bool) (tg : Target) (cmd : Cmd)
    (keys : List (List Nat)) (ini : List Nat) (n : Nat) :
    (stackCall w c inv tg cmd keys ini n).2.2 = ini ∨
      ((stackCall w c inv tg cmd keys ini n).2.2 = tg.backend :: ini ∧
        isDisable w c tg.ctl [cmd] = false) := by
  rw [stackCall_eq]
  by_cases hd : isDisable w c tg.ctl [cmd] = true
  · simp [hd]
  · simp only [hd, Bool.false_eq_true, if_false]
    split
    · exact Or.inl rfl
    · split
      · exact Or.inl rfl
      · exact Or.inr ⟨rfl, by simp⟩

theorem stackCall_ini_mono (w : World) (c : Nat) (inv : Bool) (tg : Target) (cmd : Cmd)
    (keys : List (List Nat)) (ini : List Nat) (n : Nat) (b : Nat) (h : b ∈ ini) :
    b ∈ (stackCall w c inv tg cmd keys ini n).2.2 := by
  rcases stackCall_ini w c inv tg cmd keys ini n with e | ⟨e, _⟩ <;> rw [e]
  · exact h
  · exact List.mem_cons_of_mem _ h

/-- outside `invalidate_further()` and on an initialised backend the stack is the disable middleware alone -/
theorem stackCall_plain (w : World) (c : Nat) (tg : Target) (cmd : Cmd) (keys : List (List Nat))
    (ini : List Nat) (n : Nat) (hin : tg.backend ∈ ini) :
    stackCall w c false tg cmd keys ini n =
      ((middleware w c tg cmd keys n).1, (middleware w c tg cmd keys n).2.map BCall.cmd, ini) := by
  rw [stackCall_eq]
  unfold middleware
  have : ini.contains tg.backend = true := by simpa using hin
  split
  · simp
  · simp

/-! ### the group loop through the stack -/

theorem groupCallsS_mem (w : World) (c : Nat) (inTx inv : Bool) (cmd : Cmd) :
    ∀ (groups : List (Nat × List (List Nat))) (ini : List Nat) (n : Nat) (bc : BCall),
    bc ∈ (groupCallsS w c inTx inv cmd groups ini n).1 →
    ∃ b ks, (b, ks) ∈ groups ∧ bc.backend = b ∧ (bc.keys = ks ∨ bc.keys = []) ∧
      isDisable w c b [cmd] = false
  | [], _, _, _, h => by simp [groupCallsS] at h
  | (b, ks) :: r, ini, n, bc, h => by
    simp only [groupCallsS, List.mem_append] at h
    rcases h with h | h
    · obtain ⟨h1, h2, h3⟩ := stackCall_mem w c inv (targetOf inTx b) cmd ks ini n bc h
      rw [target_ctl_targetOf] at h1
      rw [target_backend_targetOf] at h2
      exact ⟨b, ks, by simp, h2, h3, h1⟩
    · obtain ⟨b', ks', h1, h2⟩ := groupCallsS_mem w c inTx inv cmd r _ _ bc h
      exact ⟨b', ks', List.mem_cons_of_mem _ h1, h2⟩

theorem groupCallsS_ini (w : World) (c : Nat) (inTx inv : Bool) (cmd : Cmd) :
    ∀ (groups : List (Nat × List (List Nat))) (ini : List Nat) (n : Nat) (b : Nat),
    b ∈ (groupCallsS w c inTx inv cmd groups ini n).2.2 →
    b ∈ ini ∨ ∃ ks, (b, ks) ∈ groups ∧ isDisable w c b [cmd] = false
  | [], _, _, _, h => Or.inl (by simpa [groupCallsS] using h)
  | (b0, ks) :: r, ini, n, b, h => by
    simp only [groupCallsS] at h
    rcases groupCallsS_ini w c inTx inv cmd r _ _ b h with h | ⟨ks', h1, h2⟩
    · rcases stackCall_ini w c inv (targetOf inTx b0) cmd ks ini n with e | ⟨e, hd⟩
      · rw [e] at h
        exact Or.inl h
      · rw [e, target_backend_targetOf] at h
        rw [target_ctl_targetOf] at hd
        rcases List.mem_cons.1 h with rfl | h
        · exact Or.inr ⟨ks, by simp, hd⟩
        · exact Or.inl h
    · exact Or.inr ⟨ks', List.mem_cons_of_mem _ h1, h2⟩

theorem groupCallsS_ini_mono (w : World) (c : Nat) (inTx inv : Bool) (cmd : Cmd) :
    ∀ (groups : List (Nat × List (List Nat))) (ini : List Nat) (n : Nat) (b : Nat),
    b ∈ ini → b ∈ (groupCallsS w c inTx inv cmd groups ini n).2.2
  | [], _, _, _, h => by simpa [groupCallsS] using h
  | (b0, ks) :: r, ini, n, b, h => by
    simp only [groupCallsS]
    exact groupCallsS_ini_mono w c inTx inv cmd r _ _ b (stackCall_ini_mono w c inv _ cmd ks ini n b h)

theorem groupCallsS_length (w : World) (c : Nat) (inTx inv : Bool) (cmd : Cmd) :
    ∀ (groups : List (Nat × List (List Nat))) (ini : List Nat) (n : Nat),
    (groupCallsS w c inTx inv cmd groups ini n).2.1.length = groups.length
  | [], _, _ => rfl
  | (b, ks) :: r, ini, n => by
    simp [groupCallsS, groupCallsS_length w c inTx inv cmd r]

/-- the slots a disabled group answers with: one default per key, in every environment -/
theorem groupCallsS_slots_disabled (w : World) (c : Nat) (inTx inv : Bool) :
    ∀ (groups : List (Nat × List (List Nat))) (ini : List Nat) (n : Nat) (i : Nat)
      (h : i < groups.length), isDisable w c (groups[i]).1 [.getMany] = true →
    (groupCallsS w c inTx inv .getMany groups ini n).2.1.getD i [] =
      (groups[i]).2.map fun _ => Slot.dflt
  | [], _, _, i, h, _ => by simp at h
  | (b, ks) :: r, ini, n, i, h, hd => by
    simp only [groupCallsS]
    cases i with
    | zero =>
      simp only [List.getElem_cons_zero] at hd
      simp only [List.getD_cons_zero, List.getElem_cons_zero]
      rw [stackCall_disabled w c inv (targetOf inTx b) .getMany ks ini n
        (by rw [target_ctl_targetOf]; exact hd)]
      simp [slotsOf, defaultShape, List.map_const']
    | succ i =>
      simp only [List.getD_cons_succ, List.getElem_cons_succ]
      exact groupCallsS_slots_disabled w c inTx inv r _ _ i (by simpa using h) hd

theorem groupCallsS_plain (w : World) (c : Nat) (inTx : Bool) (cmd : Cmd) :
    ∀ (groups : List (Nat × List (List Nat))) (ini : List Nat) (n : Nat),
    (∀ g ∈ groups, g.1 ∈ ini) →
    (groupCallsS w c inTx false cmd groups ini n).1 = (groupCalls w c inTx cmd groups n).1.map BCall.cmd ∧
    (groupCallsS w c inTx false cmd groups ini n).2.2 = ini ∧
    (cmd = .getMany → (groupCallsS w c inTx false cmd groups ini n).2.1 = (groupCalls w c inTx cmd groups n).2)
  | [], _, _, _ => by simp [groupCallsS, groupCalls]
  | (b, ks) :: r, ini, n, hin => by
    have hb : (targetOf inTx b).backend ∈ ini := by
      rw [target_backend_targetOf]
      exact hin (b, ks) (by simp)
    have hr : ∀ g ∈ r, g.1 ∈ ini := fun g hg => hin g (List.mem_cons_of_mem _ hg)
    simp only [groupCallsS, groupCalls]
    rw [stackCall_plain w c (targetOf inTx b) cmd ks ini n hb]
    unfold middleware
    by_cases hd : isDisable w c (targetOf inTx b).ctl [cmd] = true
    · simp only [hd, if_true, List.map_nil, List.length_nil, Nat.add_zero, List.nil_append]
      obtain ⟨h1, h2, h3⟩ := groupCallsS_plain w c inTx cmd r ini n hr
      refine ⟨h1, h2, ?_⟩
      intro e
      subst e
      simp [h3 rfl, slotsOf, defaultShape]
    · simp only [hd, Bool.false_eq_true, if_false, List.map_cons, List.map_nil, List.length_cons,
        List.length_nil, Nat.zero_add, List.cons_append, List.nil_append]
      obtain ⟨h1, h2, h3⟩ := groupCallsS_plain w c inTx cmd r ini (n + 1) hr
      refine ⟨by rw [h1], h2, ?_⟩
      intro e
      subst e
      simp [h3 rfl, slotsOf, passShape]

/-! ### the loop over all registered backends through the stack -/

theorem allBackendsS_mem (w : World) (c : Nat) (inv : Bool) (cmd : Cmd) :
    ∀ (bs : List Nat) (ini : List Nat) (n : Nat) (bc : BCall),
    bc ∈ (allBackendsS w c inv cmd bs ini n).1 →
    bc.backend ∈ bs ∧ bc.keys = [] ∧ isDisable w c bc.backend [cmd] = false
  | [], _, _, _, h => by simp [allBackendsS] at h
  | b :: r, ini, n, bc, h => by
    simp only [allBackendsS, List.mem_append] at h
    rcases h with h | h
    · obtain ⟨h1, h2, h3⟩ := stackCall_mem w c inv (.raw b) cmd [] ini n bc h
      have e : bc.backend = b := h2
      refine ⟨by simp [e], ?_, by rw [e]; exact h1⟩
      rcases h3 with h3 | h3 <;> exact h3
    · obtain ⟨h1, h2⟩ := allBackendsS_mem w c inv cmd r _ _ bc h
      exact ⟨List.mem_cons_of_mem _ h1, h2⟩

theorem allBackendsS_ini (w : World) (c : Nat) (inv : Bool) (cmd : Cmd) :
    ∀ (bs : List Nat) (ini : List Nat) (n : Nat) (b : Nat),
    b ∈ (allBackendsS w c inv cmd bs ini n).2.2 →
    b ∈ ini ∨ (b ∈ bs ∧ isDisable w c b [cmd] = false)
  | [], _, _, _, h => Or.inl (by simpa [allBackendsS] using h)
  | b0 :: r, ini, n, b, h => by
    simp only [allBackendsS] at h
    rcases allBackendsS_ini w c inv cmd r _ _ b h with h | ⟨h1, h2⟩
    · rcases stackCall_ini w c inv (.raw b0) cmd [] ini n with e | ⟨e, hd⟩
      · rw [e] at h
        exact Or.inl h
      · rw [e] at h
        rcases List.mem_cons.1 h with rfl | h
        · exact Or.inr ⟨by simp, hd⟩
        · exact Or.inl h
    · exact Or.inr ⟨List.mem_cons_of_mem _ h1, h2⟩

theorem allBackendsS_ini_mono (w : World) (c : Nat) (inv : Bool) (cmd : Cmd) :
    ∀ (bs : List Nat) (ini : List Nat) (n : Nat) (b : Nat),
    b ∈ ini → b ∈ (allBackendsS w c inv cmd bs ini n).2.2
  | [], _, _, _, h => by simpa [allBackendsS] using h
  | b0 :: r, ini, n, b, h => by
    simp only [allBackendsS]
    exact allBackendsS_ini_mono w c inv cmd r _ _ b (stackCall_ini_mono w c inv _ cmd [] ini n b h)

theorem allBackendsS_plain (w : World) (c : Nat) (cmd : Cmd) (hc : cmd = .clear ∨ cmd = .getKeysCount) :
    ∀ (bs : List Nat) (ini : List Nat) (n : Nat), (∀ b ∈ bs, b ∈ ini) →
    (allBackendsS w c false cmd bs ini n).1 = (allBackendsCalls w c cmd bs).map BCall.cmd ∧
    (allBackendsS w c false cmd bs ini n).2.2 = ini ∧
    (allBackendsS w c false cmd bs ini n).2.1 = List.range' n (allBackendsCalls w c cmd bs).length
  | [], _, _, _ => by simp [allBackendsS, allBackendsCalls]
  | b :: r, ini, n, hin => by
    have hb : (Target.raw b).backend ∈ ini := hin b (by simp)
    have hr : ∀ x ∈ r, x ∈ ini := fun x hx => hin x (List.mem_cons_of_mem _ hx)
    simp only [allBackendsS, allBackendsCalls]
    rw [stackCall_plain w c (.raw b) cmd [] ini n hb]
    unfold middleware
    by_cases hd : isDisable w c b [cmd] = true
    · have hd' : isDisable w c (Target.raw b).ctl [cmd] = true := hd
      simp only [hd, hd', if_true, List.map_nil, List.length_nil, Nat.add_zero, List.nil_append]
      obtain ⟨h1, h2, h3⟩ := allBackendsS_plain w c cmd hc r ini n hr
      refine ⟨h1, h2, ?_⟩
      rw [h3]
      rcases hc with rfl | rfl <;> simp [defaultShape]
    · have hd' : ¬ isDisable w c (Target.raw b).ctl [cmd] = true := hd
      simp only [hd, hd', Bool.false_eq_true, if_false, List.map_cons, List.map_nil, List.length_cons,
        List.length_nil, Nat.zero_add, List.cons_append, List.nil_append]
      obtain ⟨h1, h2, h3⟩ := allBackendsS_plain w c cmd hc r ini (n + 1) hr
      refine ⟨by rw [h1], h2, ?_⟩
      rw [h3]
      rcases hc with rfl | rfl <;> simp [passShape, List.range'_succ]

theorem groupCallsS_cmdOk (w : World) (c : Nat) (inTx inv : Bool) (cmd : Cmd) :
    ∀ (groups : List (Nat × List (List Nat))) (ini : List Nat) (n : Nat) (bc : BCall),
    bc ∈ (groupCallsS w c inTx inv cmd groups ini n).1 → bc.cmdOk w c
  | [], _, _, _, h => by simp [groupCallsS] at h
  | (b, ks) :: r, ini, n, bc, h => by
    simp only [groupCallsS, List.mem_append] at h
    rcases h with h | h
    · exact stackCall_cmdOk w c inv (targetOf inTx b) cmd ks ini n bc h
    · exact groupCallsS_cmdOk w c inTx inv cmd r _ _ bc h

theorem allBackendsS_cmdOk (w : World) (c : Nat) (inv : Bool) (cmd : Cmd) :
    ∀ (bs : List Nat) (ini : List Nat) (n : Nat) (bc : BCall),
    bc ∈ (allBackendsS w c inv cmd bs ini n).1 → bc.cmdOk w c
  | [], _, _, _, h => by simp [allBackendsS] at h
  | b :: r, ini, n, bc, h => by
    simp only [allBackendsS, List.mem_append] at h
    rcases h with h | h
    · exact stackCall_cmdOk w c inv (.raw b) cmd [] ini n bc h
    · exact allBackendsS_cmdOk w c inv cmd r _ _ bc h

/-- **every command a public command hands to a backend is itself enabled for that backend** -/
theorem execS_cmdOk (t : Table) (w : World) (c : Nat) (inTx inv : Bool) (ini : List Nat) (f : FCmd)
    (res : Res) (calls : List BCall) (ini' : List Nat)
    (h : execS t w c inTx inv ini f = some (res, calls, ini')) : ∀ bc ∈ calls, bc.cmdOk w c := by
  cases f with
  | keyed cmd key =>
    simp only [execS, Option.map_eq_some_iff] at h
    obtain ⟨b, _, hm⟩ := h
    intro bc hbc
    have : calls = (stackCall w c inv (targetOf inTx b) cmd [key] ini 0).2.1 := by rw [hm]
    rw [this] at hbc
    exact stackCall_cmdOk _ _ _ _ _ _ _ _ bc hbc
  | getMany keys =>
    simp only [execS, Option.map_eq_some_iff] at h
    obtain ⟨groups, _, hm⟩ := h
    cases hm
    exact groupCallsS_cmdOk w c inTx inv .getMany groups ini 0
  | setMany keys =>
    simp only [execS, Option.map_eq_some_iff] at h
    obtain ⟨groups, _, hm⟩ := h
    cases hm
    exact groupCallsS_cmdOk w c inTx inv .setMany groups ini 0
  | deleteMany keys =>
    simp only [execS, Option.map_eq_some_iff] at h
    obtain ⟨groups, _, hm⟩ := h
    cases hm
    exact groupCallsS_cmdOk w c inTx inv .deleteMany groups ini 0
  | clear =>
    simp only [execS, Option.some.injEq, Prod.mk.injEq] at h
    obtain ⟨_, rfl, _⟩ := h
    exact allBackendsS_cmdOk w c inv .clear t.backends ini 0
  | keysCount =>
    simp only [execS, Option.some.injEq, Prod.mk.injEq] at h
    obtain ⟨_, rfl, _⟩ := h
    exact allBackendsS_cmdOk w c inv .getKeysCount t.backends ini 0

end CashewsVerif.Disable
