import CashewsVerif.Lemmas.TxProps
import CashewsVerif.Lemmas.Glob
import CashewsVerif.Spec.TxMatchSpec
/-
Per-command lemmas for the pattern commands inside a transaction (`Model/TxMatch.lean`):
`delete_match` refines the abstract `ATx.deleteMatchL`, which simulates `TtlMap.removeMatch` (direct execution on
the ideal map), which `Glob.deleteMatch` on a `Mem` refines; `scan` / `get_match` inside the transaction yield,
key by key, what they yield on the directly updated store.
-/
namespace CashewsVerif
open Store CashewsVerif.Glob

/-- the proviso on a pattern: it reaches no reserved (':'-prefixed) key -/
def PatOk (name : Nat → List Char) (pat : List Char) : Prop := ∀ k, reserved k = true → glob pat (name k) = false

/-- the key universe contains the lock keys of its user keys -/
def LockClosed (K : List Key) : Prop := ∀ k ∈ K, reserved k = false → ∀ m, lockKey m k ∈ K

/-! ### the ideal map -/

namespace TtlMap

@[simp] theorem removeMatch_now (name : Nat → List Char) (t : TtlMap) (pat : List Char) :
    (t.removeMatch name pat).now = t.now := rfl

theorem find_removeMatch (name : Nat → List Char) (t : TtlMap) (pat : List Char) (k : Key) :
    (t.removeMatch name pat).find k = if glob pat (name k) then none else t.find k := by
  rw [find_eq, find_eq]
  show Option.filter (·.live t.now) (if glob pat (name k) then none else t.m k) = _
  by_cases h : glob pat (name k) = true <;> simp [h]

theorem stepC_now (name : Nat → List Char) (t : TtlMap) (c : TxCmd) :
    (t.stepC name c).now = t.now + c.timing.dt := by
  cases c with
  | op o => exact step_now t o
  | deleteMatch pat => rfl
  | scan pat => rfl
  | getMatch pat => rfl

end TtlMap

/-! ### direct execution on a `Mem` -/

namespace Mem

theorem deleteMatch_now {name : Nat → List Char} {m : Mem} (h : (keys m.store).Nodup) (pat : List Char) :
    (Glob.deleteMatch name m pat).now = m.now ∧ (Glob.deleteMatch name m pat).cap = m.cap := by
  rw [Glob.deleteMatch_store h]; exact ⟨rfl, rfl⟩

theorem good_deleteMatch {K : List Key} {m : Mem} {t : TtlMap} (g : Good K m t) (name : Nat → List Char)
    (pat : List Char) : Good K (Glob.deleteMatch name m pat) (t.removeMatch name pat) := by
  have hnd := g.within.1
  refine ⟨⟨?_, fun k => ?_⟩, ⟨Glob.nodup_deleteMatch hnd pat, ?_⟩, ?_⟩
  · rw [(deleteMatch_now hnd pat).1]; exact g.ref.1
  · rw [Glob.deleteMatch_view hnd, TtlMap.find_removeMatch, g.ref.2 k]
  · intro k hk
    rw [Glob.deleteMatch_store hnd] at hk
    simp only [keys, List.mem_map] at hk
    obtain ⟨ke, hke, rfl⟩ := hk
    exact g.within.2 ke.1 (List.mem_map.mpr ⟨ke, (List.mem_filter.mp hke).1, rfl⟩)
  · rw [(deleteMatch_now hnd pat).2]; exact g.fits

theorem deleteMatch_allDl {P : Option Time → Prop} {m : Mem} (h : m.AllDl P) (hnd : (keys m.store).Nodup)
    (name : Nat → List Char) (pat : List Char) : (Glob.deleteMatch name m pat).AllDl P := by
  intro ke hke
  rw [Glob.deleteMatch_store hnd] at hke
  exact h ke (List.mem_filter.mp hke).1

theorem getMany_allDl {P : Option Time → Prop} (ks : List Key) : ∀ {m : Mem}, m.AllDl P → (m.getMany ks).1.AllDl P := by
  induction ks with
  | nil => intro m h; exact h
  | cons k ks ih => intro m h; simp only [getMany]; exact ih (rawGet_allDl h k)

/-- direct execution of one command of a history with pattern commands, on the store and on its ideal map -/
theorem good_stepC {K : List Key} {m : Mem} {t : TtlMap} (g : Good K m t) (name : Nat → List Char) (c : TxCmd)
    (hk : ∀ k ∈ c.timing.keys, k ∈ K) : Good K (m.stepC name c).1 (t.stepC name c) := by
  cases c with
  | op o => exact (good_step g o hk).1
  | deleteMatch pat => exact good_deleteMatch g name pat
  | scan pat => exact g
  | getMatch pat => exact (good_getMany _ g).1

theorem good_runC {K : List Key} (name : Nat → List Char) (cmds : List TxCmd) : ∀ {m : Mem} {t : TtlMap}, Good K m t →
    (∀ c ∈ cmds, ∀ k ∈ c.timing.keys, k ∈ K) → Good K (m.runC name cmds).1 (t.runC name cmds) := by
  induction cmds with
  | nil => intro m t g _; exact g
  | cons c cs ih =>
    intro m t g hk
    simp only [runC, TtlMap.runC]
    exact ih (good_stepC g name c (hk c (by simp))) (fun c' h' => hk c' (by simp [h']))

end Mem

/-! ### `delete_match` inside the transaction refines the abstract one -/

namespace TxSt
variable {K : List Key} {P : Option Time → Prop}

theorem markAll_refines (ks : List Key) : ∀ {st : TxSt} {a : ATx} {tb : TtlMap}, TxRef K P st a tb →
    (∀ k ∈ ks, reserved k = false ∧ lockKey st.mode k ∈ K) →
    ∃ tb', TxRef K P (st.markAll ks).1 { a with del := ks.reverse ++ a.del } tb' ∧ (st.markAll ks).2 = true := by
  induction ks with
  | nil => intro st a tb h _; exact ⟨tb, h, rfl⟩
  | cons k ks ih =>
    intro st a tb h hk
    obtain ⟨tb1, h1, ok1⟩ := lockUpdates_refines h (hk k (by simp)).1 (hk k (by simp)).2
    have hp := lockUpdates_proj st k
    have h1' : TxRef K P { (st.lockUpdates k).1 with del := k :: (st.lockUpdates k).1.del } { a with del := k :: a.del } tb1 :=
      ⟨h1.ov, h1.b, by show k :: _ = k :: _; rw [h1.del], h1.user, h1.bnow, h1.locks, h1.lockKeys, h1.fresh⟩
    obtain ⟨tb2, h2, ok2⟩ := ih h1' (fun k' hk' => by
      show reserved k' = false ∧ lockKey (st.lockUpdates k).1.mode k' ∈ K
      rw [hp.2.2.1]; exact hk k' (by simp [hk']))
    refine ⟨tb2, ?_, ?_⟩
    · simp only [markAll, ok1, if_true]
      have : (k :: ks).reverse ++ a.del = ks.reverse ++ (k :: a.del) := by simp
      rw [this]; exact h2
    · simp only [markAll, ok1, if_true]; exact ok2

/-- the keys the backend's `scan` yields are exactly the live matching keys of the store, all of them user keys -/
theorem scan_b_spec {st : TxSt} {a : ATx} {tb : TtlMap} (h : TxRef K P st a tb) {name : Nat → List Char} {pat : List Char}
    (hpat : PatOk name pat) (k : Key) :
    k ∈ Glob.scan name st.b pat ↔ (a.b.find k).isSome ∧ glob pat (name k) = true := by
  rw [Glob.mem_scan_iff h.b.within.1, h.b.ref.2 k]
  cases hr : reserved k with
  | true => simp [hpat k hr]
  | false => rw [h.user k hr]

theorem scan_b_user {st : TxSt} {a : ATx} {tb : TtlMap} (h : TxRef K P st a tb) {name : Nat → List Char} {pat : List Char}
    (hpat : PatOk name pat) {k : Key} (hk : k ∈ Glob.scan name st.b pat) : reserved k = false ∧ k ∈ K := by
  have hm := (Glob.mem_scan_iff h.b.within.1 pat k).mp hk
  refine ⟨?_, ?_⟩
  · cases hr : reserved k with
    | false => rfl
    | true => rw [hpat k hr] at hm; exact absurd hm.2 (by simp)
  · apply h.b.within.2
    rw [mem_keys_iff_lookup]
    have := hm.1
    unfold Mem.view at this
    cases hl : lookup st.b.store k with
    | none => rw [hl] at this; simp at this
    | some e => simp

/-- **`delete_match` in any mode refines the abstract `delete_match`**; a single task always gets its locks -/
theorem deleteMatchLock_refines {st : TxSt} {a : ATx} {tb : TtlMap} (h : TxRef K P st a tb) (hcl : LockClosed K)
    {name : Nat → List Char} {pat : List Char} (hpat : PatOk name pat) :
    ∃ tb', TxRef K P (st.deleteMatchLock name pat).1 (a.deleteMatchL name pat (Glob.scan name st.b pat)) tb' ∧
      (st.deleteMatchLock name pat).2 = true := by
  have h0 : TxRef K P ({ st with ov := Glob.deleteMatch name st.ov pat } : TxSt)
      { a with ov := a.ov.removeMatch name pat } tb :=
    ⟨Mem.good_deleteMatch h.ov name pat, h.b, h.del, h.user, h.bnow, h.locks, h.lockKeys,
     Mem.deleteMatch_allDl h.fresh h.ov.within.1 name pat⟩
  obtain ⟨tb', h', ok⟩ := markAll_refines (Glob.scan name st.b pat) h0 (fun k hk => by
    obtain ⟨hu, hK⟩ := scan_b_user h hpat hk
    exact ⟨hu, hcl k hK hu _⟩)
  exact ⟨tb', h', ok⟩

theorem markAll_fast (ks : List Key) : ∀ (st : TxSt), st.mode = .fast →
    st.markAll ks = ({ st with del := ks.foldl (fun d k => k :: d) st.del }, true) := by
  induction ks with
  | nil => intro st _; rfl
  | cons k ks ih =>
    intro st hm
    have hl : st.lockUpdates k = (st, true) := by simp [lockUpdates, hm]
    simp only [markAll, hl, if_true, List.foldl_cons]
    exact ih { st with del := k :: st.del } hm

/-- in fast mode the lock backend's `delete_match` is the plain backend's -/
theorem deleteMatchLock_fast (name : Nat → List Char) (st : TxSt) (pat : List Char) (hm : st.mode = .fast) :
    st.deleteMatchLock name pat = (st.deleteMatchBase name pat, true) := by
  unfold deleteMatchLock deleteMatchBase
  exact markAll_fast _ ({ st with ov := Glob.deleteMatch name st.ov pat } : TxSt) hm

/-- the command, in whichever mode, through the lock backend's method -/
theorem stepC_deleteMatch (name : Nat → List Char) (st : TxSt) (pat : List Char) :
    st.stepC name (.deleteMatch pat) =
      ((st.deleteMatchLock name pat).1, .out (if (st.deleteMatchLock name pat).2 then .unit else .err)) := by
  by_cases hm : st.mode = .fast
  · simp only [stepC, hm, if_true]
    rw [deleteMatchLock_fast name st pat hm]; rfl
  · simp only [stepC, hm, if_false]

end TxSt

/-! ### the abstract `delete_match` is well formed and simulates direct execution -/

namespace ATx

theorem wf_deleteMatchL {a : ATx} (h : a.Wf) (name : Nat → List Char) (pat : List Char) {ks : List Key}
    (hks : ∀ k ∈ ks, reserved k = false) : (a.deleteMatchL name pat ks).Wf := by
  refine ⟨h.clock, fun k hr => ?_, fun k hk => ?_⟩
  · show (a.ov.removeMatch name pat).find k = none
    rw [TtlMap.find_removeMatch, h.ovUser k hr]; simp
  · simp only [deleteMatchL, List.mem_append, List.mem_reverse] at hk
    rcases hk with hk | hk
    · exact hks k hk
    · exact h.delUser k hk

end ATx

theorem sim_deleteMatch {T : Time} {a : ATx} {t : TtlMap} (h : Sim T a t) (name : Nat → List Char) (pat : List Char)
    {ks : List Key} (hks : ∀ k, k ∈ ks ↔ (a.b.find k).isSome ∧ glob pat (name k) = true) :
    Sim T (a.deleteMatchL name pat ks) (t.removeMatch name pat) := by
  refine ⟨h.nowb, h.nowo, h.le, h.stb, ?_, ?_, ?_, ?_⟩
  · intro k e he
    simp only [ATx.deleteMatchL, TtlMap.find_removeMatch] at he
    by_cases hg : glob pat (name k) = true
    · simp [hg] at he
    · simp only [hg] at he; exact h.sto k e he
  · intro k e he
    rw [TtlMap.find_removeMatch] at he
    by_cases hg : glob pat (name k) = true
    · simp [hg] at he
    · simp only [hg] at he; exact h.stt k e he
  · intro k _ hk
    simp only [ATx.deleteMatchL, List.mem_append, List.mem_reverse] at hk
    show (a.ov.removeMatch name pat).find k = none
    rw [TtlMap.find_removeMatch]
    rcases hk with hk | hk
    · simp [((hks k).mp hk).2]
    · rw [h.disj' hk]; simp
  · intro k _
    have hv := h.vals' k
    rw [TtlMap.find_removeMatch]
    unfold ATx.view at hv ⊢
    simp only [ATx.deleteMatchL, List.mem_append, List.mem_reverse, TtlMap.find_removeMatch]
    by_cases hg : glob pat (name k) = true
    · simp only [hg, if_true, Option.none_or, Option.map_none]
      by_cases hd : k ∈ ks ∨ k ∈ a.del
      · simp [hd]
      · simp only [hd, if_false]
        have : ¬ k ∈ ks := fun x => hd (Or.inl x)
        have hb : a.b.find k = none := by
          cases hb : a.b.find k with
          | none => rfl
          | some e => exact absurd ((hks k).mpr ⟨by simp [hb], hg⟩) this
        simp [hb]
    · have hn : ¬ k ∈ ks := fun x => hg ((hks k).mp x).2
      simp only [hg, hn, false_or]
      exact hv

/-! ### reads by pattern -/

theorem contains_map_fst {β} (l : List (Key × β)) (k : Key) :
    (l.map (·.1)).contains k = (l.find? (·.1 == k)).isSome := by
  induction l with
  | nil => rfl
  | cons x l ih =>
    by_cases hx : x.1 = k
    · simp [List.find?, hx]
    · have : (x.1 == k) = false := by simpa using hx
      have h2 : (k == x.1) = false := by simpa using fun e : k = x.1 => hx e.symm
      simp only [List.map_cons, List.contains_cons, List.find?, this, h2, Bool.false_or]
      exact ih

theorem find_filter_const {β} (l : List (Key × β)) (q : Key × β → Bool) (k : Key) (c : Bool)
    (hq : ∀ x : Key × β, x.1 = k → q x = c) :
    (l.filter q).find? (·.1 == k) = if c then l.find? (·.1 == k) else none := by
  induction l with
  | nil => cases c <;> rfl
  | cons x l ih =>
    by_cases hx : x.1 = k
    · have hqx := hq x hx
      have hb : (x.1 == k) = true := by simpa using hx
      cases c with
      | true => simp [List.filter, hqx, List.find?, hb]
      | false =>
        simp only [List.filter, hqx]
        rw [ih]; rfl
    · have hb : (x.1 == k) = false := by simpa using hx
      by_cases hqx : q x = true
      · simp only [List.filter, hqx, List.find?, hb]; exact ih
      · have : q x = false := by simpa using hqx
        simp only [List.filter, this, List.find?, hb]; exact ih

theorem find_map_lookup (l : Store) (g : Key × Entry → Option Val) (k : Key) :
    (l.map fun ke => (ke.1, g ke)).find? (·.1 == k) = (lookup l k).map fun e => (k, g (k, e)) := by
  induction l with
  | nil => rfl
  | cons x l ih =>
    obtain ⟨k0, e0⟩ := x
    by_cases hx : k0 = k
    · subst hx; simp [lookup]
    · have hb : (k0 == k) = false := by simpa using hx
      simp only [List.map_cons, List.find?, hb, lookup, hx, if_false]
      exact ih

/-- the pair `get_match` yields for key `k` whose visible entry is `v` -/
def pairOf (name : Nat → List Char) (pat : List Char) (v : Option Entry) (k : Key) : Option (Key × Option Val) :=
  if glob pat (name k) then v.map fun e => (k, some e.val) else none

/-- `Memory.get_match`, key by key: the live entry under a matching key, with its own value -/
theorem find_getMatchAll {name : Nat → List Char} {m : Mem} (h : (keys m.store).Nodup) (pat : List Char) (k : Key) :
    (Glob.getMatchAll name m pat).2.find? (·.1 == k) = pairOf name pat (m.view k) k := by
  rw [Glob.getMatchAll_out h, find_map_lookup, Glob.lookup_filter h]
  unfold pairOf Mem.view Glob.sel
  cases lookup m.store k with
  | none => simp
  | some e =>
    by_cases hg : glob pat (name k) = true <;> by_cases hl : e.live m.now = true <;> simp [Option.filter, hg, hl]

namespace TxSt
variable {K : List Key} {P : Option Time → Prop}

/-- `get_match` inside the transaction touches both stores with reads only -/
theorem getMatch_refines {st : TxSt} {a : ATx} {tb : TtlMap} (h : TxRef K P st a tb) (name : Nat → List Char)
    (pat : List Char) : TxRef K P (st.getMatch name pat).1 a tb :=
  ⟨(Mem.good_getMany _ h.ov).1, (Mem.good_getMany _ h.b).1, h.del, h.user, h.bnow, h.locks, h.lockKeys,
   Mem.getMany_allDl _ h.fresh⟩

/-- `scan` inside the transaction yields a key iff direct execution yields it -/
theorem scan_mem_iff {st : TxSt} {a : ATx} {tb : TtlMap} (h : TxRef K P st a tb) {T : Time} {t : TtlMap} {m : Mem}
    (hs : Sim T a t) (g : Good K m t) {name : Nat → List Char} {pat : List Char} (hpat : PatOk name pat) (k : Key) :
    k ∈ st.scan name pat ↔ k ∈ Glob.scan name m pat := by
  unfold scan
  simp only [List.mem_append, List.mem_filter, Bool.and_eq_true, Bool.not_eq_true', List.contains_eq_mem,
    decide_eq_false_iff_not]
  rw [Glob.mem_scan_iff h.ov.within.1, Glob.mem_scan_iff h.b.within.1, Glob.mem_scan_iff g.within.1,
    h.ov.ref.2 k, h.b.ref.2 k, g.ref.2 k, h.del]
  by_cases hg : glob pat (name k) = true
  · have hu : reserved k = false := by
      cases hr : reserved k with
      | false => rfl
      | true => rw [hpat k hr] at hg; exact absurd hg (by simp)
    rw [h.user k hu]
    have hp := hs.present_eq k
    unfold ATx.present at hp
    simp only [hg, and_true]
    rw [← Bool.coe_iff_coe] at *
    cases ho : (a.ov.find k).isSome <;> cases hb : (a.b.find k).isSome <;> by_cases hd : k ∈ a.del <;>
      simp_all
  · simp [hg]

/-- `get_match` inside the transaction yields for a key the pair direct execution yields for it -/
theorem getMatch_find {st : TxSt} {a : ATx} {tb : TtlMap} (h : TxRef K P st a tb) {T : Time} {t : TtlMap} {m : Mem}
    (hs : Sim T a t) (g : Good K m t) {name : Nat → List Char} {pat : List Char} (hpat : PatOk name pat) (k : Key) :
    (st.getMatch name pat).2.find? (·.1 == k) = (Glob.getMatchAll name m pat).2.find? (·.1 == k) := by
  unfold getMatch
  simp only [List.find?_append]
  rw [find_filter_const _ _ k (!st.del.contains k && !((Glob.getMatchAll name st.ov pat).2.map (·.1)).contains k)
    (fun x hx => by rw [hx])]
  rw [contains_map_fst, find_getMatchAll h.ov.within.1, find_getMatchAll h.b.within.1, find_getMatchAll g.within.1,
    h.ov.ref.2 k, h.b.ref.2 k, g.ref.2 k, h.del]
  unfold pairOf
  by_cases hg : glob pat (name k) = true
  · have hu : reserved k = false := by
      cases hr : reserved k with
      | false => rfl
      | true => rw [hpat k hr] at hg; exact absurd hg (by simp)
    rw [h.user k hu]
    have hv := hs.vals' k
    unfold ATx.view at hv
    simp only [hg, if_true]
    by_cases hd : k ∈ a.del
    · have ho := hs.disj' hd
      simp only [hd, if_true, Option.map_none] at hv
      have ht : t.find k = none := by
        cases hf : t.find k with
        | none => rfl
        | some e => rw [hf] at hv; simp at hv
      simp [hd, ho, ht]
    · simp only [hd, if_false] at hv
      cases ho : a.ov.find k with
      | some e =>
        rw [ho] at hv
        cases hf : t.find k with
        | none => rw [hf] at hv; simp at hv
        | some e' =>
          rw [hf] at hv
          simp only [Option.some_or, Option.map_some, Option.some.injEq] at hv
          simp [hv]
      | none =>
        rw [ho] at hv
        simp only [Option.none_or] at hv
        cases hb : a.b.find k with
        | none =>
          rw [hb] at hv
          cases hf : t.find k with
          | none => simp [hd]
          | some e' => rw [hf] at hv; simp at hv
        | some e =>
          rw [hb] at hv
          cases hf : t.find k with
          | none => rw [hf] at hv; simp at hv
          | some e' =>
            rw [hf] at hv
            simp only [Option.map_some, Option.some.injEq] at hv
            simp [hd, hv]
  · simp [hg]

end TxSt
end CashewsVerif
