import CashewsVerif.Spec.RateLimit
/-
Cell-level facts about the ideal TTL map used by the C15 models: what `find`, `write`, `incr`,
`expire` and a conditional `set` do to the one key they touch.
-/
namespace CashewsVerif
namespace TtlMap

theorem find_none {t : TtlMap} {k : Nat} (h : t.m k = none) : t.find k = none := by
  simp [find, h]

theorem find_live {t : TtlMap} {k : Nat} {e : Entry} (h : t.m k = some e) (hl : e.live t.now = true) :
    t.find k = some e := by
  simp [find, h, hl]

theorem find_dead {t : TtlMap} {k : Nat} {e : Entry} (h : t.m k = some e) (hl : e.live t.now = false) :
    t.find k = none := by
  simp [find, h, hl]

@[simp] theorem write_now (t : TtlMap) (k : Nat) (v : Val) (ttl : Option Nat) : (t.write k v ttl).now = t.now := rfl

theorem write_m_same (t : TtlMap) (k : Nat) (v : Val) (ttl : Option Nat) :
    (t.write k v ttl).m k = some ⟨v, match deadlineOf t.now ttl with
      | some d => some d
      | none => (t.find k).bind (·.dl)⟩ := by
  simp only [write, if_true]
  cases deadlineOf t.now ttl <;> rfl

theorem write_m_other (t : TtlMap) {k k' : Nat} (v : Val) (ttl : Option Nat) (h : k' ≠ k) :
    (t.write k v ttl).m k' = t.m k' := by
  simp [write, h]

theorem deadlineOf_pos (now : Nat) {x : Nat} (h : 0 < x) : deadlineOf now (some x) = some (now + x) := by
  cases x with
  | zero => omega
  | succ n => rfl

theorem deadlineOf_none (now : Nat) : deadlineOf now none = none := rfl

theorem incr_find_none {t : TtlMap} {k : Nat} (h : t.find k = none) (b : Int) (ttl : Option Nat) :
    t.incr k b ttl = (t.write k (.int (0 + b)) (if 0 + b = 1 then ttl else none), .int (0 + b)) := by
  simp [incr, h]

theorem incr_find_int {t : TtlMap} {k : Nat} {c : Int} {dl : Option Nat} (h : t.find k = some ⟨.int c, dl⟩)
    (b : Int) (ttl : Option Nat) :
    t.incr k b ttl = (t.write k (.int (c + b)) (if c + b = 1 then ttl else none), .int (c + b)) := by
  simp [incr, h, Val.toInt?]

theorem expire_find_some {t : TtlMap} {k : Nat} {e : Entry} (h : t.find k = some e) (ttl : Option Nat) :
    (t.step (.expire k ttl)).1 = t.write k e.val ttl := by
  simp [step, h]

theorem expire_find_none {t : TtlMap} {k : Nat} (h : t.find k = none) (ttl : Option Nat) :
    (t.step (.expire k ttl)).1 = t := by
  simp [step, h]

theorem adv_now (t : TtlMap) (dt : Nat) : (t.step (.adv dt)).1.now = t.now + dt := rfl
theorem adv_m (t : TtlMap) (dt : Nat) : (t.step (.adv dt)).1.m = t.m := rfl

theorem live_iff (v : Val) (d now : Nat) : (Entry.live ⟨v, some d⟩ now = true) ↔ now < d := by
  simp [Entry.live]

end TtlMap
end CashewsVerif
