import CashewsVerif.Model.Fine
import CashewsVerif.Lemmas.MemStep
namespace CashewsVerif
open Store

theorem roundDiv_eight (d : Nat) : roundDiv 8 d = roundTicks d := by
  unfold roundDiv roundTicks
  simp only
  have h1 : (2 * (d % 8) < 8) ↔ (d % 8 < 4) := by omega
  have h2 : (2 * (d % 8) > 8) ↔ (d % 8 > 4) := by omega
  simp only [h1, h2]

theorem Mem.getExpireR_eight (s : Mem) (k : Key) : s.getExpireR 8 k = s.getExpire k := by
  unfold Mem.getExpireR Mem.getExpire
  cases lookup s.store k with
  | none => rfl
  | some e => obtain ⟨v, dl⟩ := e; cases dl <;> simp only [roundDiv_eight]

theorem TtlMap.getExpireR_eight (t : TtlMap) (k : Key) : t.getExpireR 8 k = t.getExpire k := by
  unfold TtlMap.getExpireR TtlMap.getExpire
  cases t.find k with
  | none => rfl
  | some e => obtain ⟨v, dl⟩ := e; cases dl <;> simp only [roundDiv_eight]

/-- in a refining state the TTL query agrees with the ideal map's at every resolution -/
theorem Mem.good_getExpireR {K : List Key} {s : Mem} {t : TtlMap} (g : Good K s t) (R : Nat) (k : Key) :
    s.getExpireR R k = t.getExpireR R k := by
  have h := g.ref.2 k
  unfold Mem.getExpireR TtlMap.getExpireR
  rw [← h]
  unfold view
  cases hl : lookup s.store k with
  | none => simp
  | some e =>
    unfold Entry.live
    cases hd : e.dl with
    | none => simp [Option.filter, hd]
    | some d =>
      rw [g.ref.1]
      by_cases hdn : d ≤ t.now
      · have : ¬ t.now < d := Nat.not_lt.mpr hdn
        simp [Option.filter, hd, hdn, this]
      · have : t.now < d := Nat.lt_of_not_le hdn
        simp [Option.filter, hd, hdn, this]

end CashewsVerif
