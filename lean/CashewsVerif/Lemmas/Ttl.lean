import CashewsVerif.Spec.Ttl
/- Lemmas about the duration-string parser model (for Props/C02 `ttl_string`, `ttl_forms_agree`). -/
namespace CashewsVerif.Ttl

theorem ploop_append (st : PSt) (a b : List Char) :
    ploop st (a ++ b) = (ploop st a).bind (fun st' => ploop st' b) := by
  induction a generalizing st with
  | nil => simp [ploop]
  | cons c cs ih =>
    simp only [List.cons_append, ploop]
    cases pstep st c with
    | none => simp
    | some st' => simpa using ih st'

/-- a run of digits is appended to `mul` -/
theorem ploop_digits (r : Nat) (mul ds : List Char) (h : ∀ c ∈ ds, c.isDigit = true) :
    ploop ⟨r, mul⟩ ds = some ⟨r, mul ++ ds⟩ := by
  induction ds generalizing mul with
  | nil => simp [ploop]
  | cons c cs ih =>
    have hc : c.isDigit = true := h c (by simp)
    simp only [ploop, pstep, hc, if_true]
    rw [ih (mul ++ [c]) (fun x hx => h x (by simp [hx]))]
    simp

/-- `<digits of n><unit>` adds `n * seconds(unit)` to `result` -/
theorem ploop_segment (r n sec : Nat) (u : Char) (hu : u.isDigit = false) (hs : unitSeconds u = some sec) :
    ploop ⟨r, []⟩ (Nat.toDigits 10 n ++ [u]) = some ⟨r + n * sec, []⟩ := by
  rw [ploop_append, ploop_digits r [] _ (fun c hc => Nat.isDigit_of_mem_toDigits (by decide) (by decide) hc)]
  simp only [List.nil_append, Option.bind_some, ploop, pstep, hu, hs]
  simp [Nat.toDigits_ne_nil, intOf]

theorem isDigit_toLower (c : Char) (h : c.isDigit = true) : c.toLower = c := by
  simp only [Char.isDigit, Bool.and_eq_true, decide_eq_true_eq] at h
  have hn : ¬ (c.val ≥ 'A'.val ∧ c.val ≤ 'Z'.val) := by
    intro h1
    exact absurd (UInt32.le_trans h1.1 h.2) (by decide)
  unfold Char.toLower
  rw [dif_neg hn]

theorem isDigit_not_space (c : Char) (h : c.isDigit = true) : isSpace c = false := by
  simp only [Char.isDigit, Bool.and_eq_true, decide_eq_true_eq] at h
  simp only [isSpace, Bool.or_eq_false_iff, decide_eq_false_iff_not]
  refine ⟨⟨⟨⟨⟨?_, ?_⟩, ?_⟩, ?_⟩, ?_⟩, ?_⟩ <;> (intro hc; subst hc; revert h; decide)

theorem strip_id (s : List Char) (c d : Char) (m : List Char) (hs : s = c :: m ++ [d])
    (hc : isSpace c = false) (hd : isSpace d = false) : strip s = s := by
  subst hs
  simp [strip, hc, hd]

/-- here the regenerated table `Gen.ttlUnits` meets the meaning of the units -/
theorem unit_lookup (u : U) : unitSeconds u.char = some u.secs := by
  cases u <;> decide

theorem unit_not_digit (u : U) : u.char.isDigit = false := by cases u <;> decide
theorem unit_lower (u : U) : u.char.toLower = u.char := by cases u <;> decide
theorem unit_not_space (u : U) : isSpace u.char = false := by cases u <;> decide

theorem digits_isDigit (n : Nat) (c : Char) (h : c ∈ digits n) : c.isDigit = true :=
  Nat.isDigit_of_mem_toDigits (by decide) (by decide) h

theorem render_cons (p : Nat × U) (ps : List (Nat × U)) :
    render (p :: ps) = (digits p.1 ++ [p.2.char]) ++ render ps := by
  simp [render]

theorem render_chars (segs : List (Nat × U)) (c : Char) (h : c ∈ render segs) :
    c.isDigit = true ∨ ∃ u : U, c = u.char := by
  induction segs with
  | nil => simp [render] at h
  | cons p ps ih =>
    rw [render_cons] at h
    simp only [List.mem_append, List.mem_singleton] at h
    rcases h with (h | h) | h
    · exact .inl (digits_isDigit _ _ h)
    · exact .inr ⟨p.2, h⟩
    · exact ih h

theorem ploop_render (r : Nat) (segs : List (Nat × U)) :
    ploop ⟨r, []⟩ (render segs) = some ⟨r + total segs, []⟩ := by
  induction segs generalizing r with
  | nil => simp [render, ploop, total]
  | cons p ps ih =>
    rw [render_cons, ploop_append]
    have := ploop_segment r p.1 p.2.secs p.2.char (unit_not_digit _) (unit_lookup _)
    simp only [digits] at this ⊢
    rw [this, Option.bind_some, ih]
    simp [total, Nat.add_assoc]

theorem dropWhile_noSpace (l : List Char) (h : ∀ c ∈ l, isSpace c = false) : l.dropWhile isSpace = l := by
  cases l with
  | nil => rfl
  | cons a as => simp [List.dropWhile, h a (by simp)]

theorem strip_noSpace (l : List Char) (h : ∀ c ∈ l, isSpace c = false) : strip l = l := by
  unfold strip
  rw [dropWhile_noSpace l h, dropWhile_noSpace l.reverse (by simpa using h), List.reverse_reverse]

theorem map_lower_id (l : List Char) (h : ∀ c ∈ l, c.toLower = c) : l.map Char.toLower = l := by
  induction l with
  | nil => rfl
  | cons a as ih => simp [h a (by simp), ih (fun c hc => h c (by simp [hc]))]

theorem prep_render (segs : List (Nat × U)) : (strip (render segs)).map Char.toLower = render segs := by
  rw [strip_noSpace, map_lower_id]
  · intro c hc
    rcases render_chars segs c hc with h | ⟨u, rfl⟩
    · exact isDigit_toLower c h
    · exact unit_lower u
  · intro c hc
    rcases render_chars segs c hc with h | ⟨u, rfl⟩
    · exact isDigit_not_space c h
    · exact unit_not_space u

theorem ttlFromStr_render (segs : List (Nat × U)) : ttlFromStr (render segs) = some (total segs) := by
  unfold ttlFromStr
  rw [prep_render, ploop_render]
  simp [pfinish]

theorem ttlFromStr_digits (n : Nat) : ttlFromStr (digits n) = some n := by
  unfold ttlFromStr
  have hd : ∀ c ∈ digits n, c.isDigit = true := digits_isDigit n
  rw [strip_noSpace _ (fun c hc => isDigit_not_space c (hd c hc)),
    map_lower_id _ (fun c hc => isDigit_toLower c (hd c hc)), ploop_digits 0 [] _ hd]
  simp [pfinish, digits, Nat.toDigits_ne_nil, intOf]

end CashewsVerif.Ttl
