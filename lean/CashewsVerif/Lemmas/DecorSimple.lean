import CashewsVerif.Model.Decor.Simple
import CashewsVerif.Lemmas.DecorBase
/- Invariant of the simple-cache model: the store holds exactly the accepted, still fresh executions. -/
namespace CashewsVerif.Decor.Simple
open CashewsVerif CashewsVerif.Decor

/-- the result of `x` is younger than its ttl at `now` (a ttl of 0 means "no ttl", as in the code) -/
def Fresh (cfg : Cfg) (x : Exec) (now : Nat) : Prop :=
  cfg.ttl x.key x.res = 0 ∨ now < x.at_ + cfg.ttl x.key x.res

/-- what an accepted execution writes -/
def entryOf (cfg : Cfg) (x : Exec) : Entry := ⟨x.res.enc, deadlineOf x.at_ (some (cfg.ttl x.key x.res))⟩

theorem live_entryOf_iff (cfg : Cfg) (x : Exec) (now : Nat) :
    (entryOf cfg x).live now = true ↔ Fresh cfg x now := by
  unfold entryOf Fresh Entry.live
  cases h : cfg.ttl x.key x.res with
  | zero => simp [deadlineOf]
  | succ n => simp [deadlineOf]

theorem Fresh.mono {cfg : Cfg} {x : Exec} {a b : Nat} (hab : a ≤ b) (h : Fresh cfg x b) : Fresh cfg x a := by
  unfold Fresh at h ⊢; omega

structure Inv (cfg : Cfg) (script : Nat → Beh) (s : St) : Prop where
  stored : ∀ k e, s.store.m k = some e →
    ∃ x ∈ s.execs, x.key = k ∧ accepts cfg.cond x.beh = true ∧ e = entryOf cfg x
  latest : ∀ x ∈ s.execs, accepts cfg.cond x.beh = true → Fresh cfg x s.store.now →
    s.store.m x.key = some (entryOf cfg x)
  past : ∀ x ∈ s.execs, x.at_ ≤ s.store.now
  stamped : ∀ n x, s.execs[n]? = some x → x.beh = script n ∧ x.res = (script n).kind.res n 0

theorem inv_init (cfg : Cfg) (script : Nat → Beh) : Inv cfg script St.init :=
  ⟨by simp [St.init, TtlMap.init], by simp [St.init], by simp [St.init], by simp [St.init]⟩

/-- the state after a miss on key `k` -/
def missState (cfg : Cfg) (script : Nat → Beh) (s : St) (k : Nat) : St :=
  let n := s.execs.length
  let b := script n
  let r := b.kind.res n 0
  let t1 := advance s.store b.dur
  { store := if accepts cfg.cond b then t1.write k r.enc (some (cfg.ttl k r)) else t1,
    execs := s.execs ++ [⟨k, t1.now, b, r⟩] }

theorem step_call_miss (cfg : Cfg) (script : Nat → Beh) (s : St) (k : Nat) (h : s.store.find k = none) :
    step cfg script s (.call k) =
      (missState cfg script s k, .got ((script s.execs.length).kind.res s.execs.length 0) false) := by
  simp [step, callStep, h, missState]

theorem step_call_hit (cfg : Cfg) (script : Nat → Beh) (s : St) (k : Nat) (e : Entry) (h : s.store.find k = some e) :
    step cfg script s (.call k) = (s, .got (Res.dec e.val) true) := by
  simp [step, callStep, h]

/-- the state after a call whose caller was cancelled under thunder protection is the state after the same call -/
theorem step_lost_state (cfg : Cfg) (script : Nat → Beh) (s : St) (k : Nat) :
    (step cfg script s (.lost k)).1 = (step cfg script s (.call k)).1 := rfl

/-- a call that was cut short leaves the state as it is -/
theorem step_cut_state (cfg : Cfg) (script : Nat → Beh) (s : St) (k : Nat) : (step cfg script s (.cut k)).1 = s := by
  simp only [step]
  split <;> rfl

theorem inv_miss {cfg : Cfg} {script : Nat → Beh} {s : St} (inv : Inv cfg script s) (k : Nat)
    (hmiss : s.store.find k = none) : Inv cfg script (missState cfg script s k) := by
  let y : Exec := ⟨k, s.store.now + (script s.execs.length).dur, script s.execs.length,
    (script s.execs.length).kind.res s.execs.length 0⟩
  have hfind1 : (advance s.store (script s.execs.length).dur).find k = none := find_none_advance _ hmiss
  -- an older execution of the same key is stale by now
  have stale : ∀ x ∈ s.execs, x.key = k → accepts cfg.cond x.beh = true → ¬ Fresh cfg x s.store.now := by
    intro x hx hk ha hf
    have hm := inv.latest x hx ha hf
    rw [hk] at hm
    have := (find_eq_none.mp hmiss) _ hm
    rw [(live_entryOf_iff cfg x _).mpr hf] at this
    exact absurd this (by simp)
  by_cases hacc : accepts cfg.cond (script s.execs.length) = true
  · -- accepted: the store now holds the new result under `k`
    have hmk : (missState cfg script s k).store.m k = some (entryOf cfg y) := by
      simp only [missState, hacc, if_true]
      rw [write_m_miss _ _ _ _ hfind1]
      rfl
    have hmne : ∀ k', k' ≠ k → (missState cfg script s k).store.m k' = s.store.m k' := by
      intro k' hne
      simp only [missState, hacc, if_true]
      rw [write_m_ne _ _ _ hne]; rfl
    have hnow : (missState cfg script s k).store.now = s.store.now + (script s.execs.length).dur := by
      simp [missState, hacc]
    have hex : (missState cfg script s k).execs = s.execs ++ [y] := rfl
    refine ⟨?_, ?_, ?_, ?_⟩
    · intro k' e he
      by_cases hk : k' = k
      · subst hk
        rw [hmk] at he
        exact ⟨y, by simp [hex], rfl, hacc, by simpa using he.symm⟩
      · rw [hmne k' hk] at he
        obtain ⟨x, hx, h1, h2, h3⟩ := inv.stored k' e he
        exact ⟨x, by simp [hex, hx], h1, h2, h3⟩
    · intro x hx ha hf
      rw [hnow] at hf
      rw [hex, List.mem_append, List.mem_singleton] at hx
      rcases hx with hx | hx
      · have hf0 : Fresh cfg x s.store.now := hf.mono (Nat.le_add_right _ _)
        by_cases hk : x.key = k
        · exact absurd hf0 (stale x hx hk ha)
        · rw [hmne _ hk]; exact inv.latest x hx ha hf0
      · subst hx; exact hmk
    · intro x hx
      rw [hnow]
      rw [hex, List.mem_append, List.mem_singleton] at hx
      rcases hx with hx | hx
      · have := inv.past x hx; omega
      · subst hx; exact Nat.le_refl _
    · intro n x hx
      rw [hex] at hx
      by_cases hn : n < s.execs.length
      · rw [List.getElem?_append_left hn] at hx; exact inv.stamped n x hx
      · have hn' : s.execs.length ≤ n := Nat.le_of_not_lt hn
        rw [List.getElem?_append_right hn'] at hx
        cases hd : n - s.execs.length with
        | zero =>
          have : n = s.execs.length := by omega
          subst this
          simp at hx; subst hx; exact ⟨rfl, rfl⟩
        | succ m => simp [hd] at hx
  · -- rejected: the store is untouched
    have hacc' : accepts cfg.cond (script s.execs.length) = false := by simpa using hacc
    have hm : (missState cfg script s k).store.m = s.store.m := by simp [missState, hacc']
    have hnow : (missState cfg script s k).store.now = s.store.now + (script s.execs.length).dur := by
      simp [missState, hacc']
    have hex : (missState cfg script s k).execs = s.execs ++ [y] := rfl
    refine ⟨?_, ?_, ?_, ?_⟩
    · intro k' e he
      rw [hm] at he
      obtain ⟨x, hx, h1, h2, h3⟩ := inv.stored k' e he
      exact ⟨x, by simp [hex, hx], h1, h2, h3⟩
    · intro x hx ha hf
      rw [hnow] at hf
      rw [hex, List.mem_append, List.mem_singleton] at hx
      rcases hx with hx | hx
      · rw [hm]; exact inv.latest x hx ha (hf.mono (Nat.le_add_right _ _))
      · subst hx; rw [hacc'] at ha; exact absurd ha (by simp)
    · intro x hx
      rw [hnow]
      rw [hex, List.mem_append, List.mem_singleton] at hx
      rcases hx with hx | hx
      · have := inv.past x hx; omega
      · subst hx; exact Nat.le_refl _
    · intro n x hx
      rw [hex] at hx
      by_cases hn : n < s.execs.length
      · rw [List.getElem?_append_left hn] at hx; exact inv.stamped n x hx
      · have hn' : s.execs.length ≤ n := Nat.le_of_not_lt hn
        rw [List.getElem?_append_right hn'] at hx
        cases hd : n - s.execs.length with
        | zero =>
          have : n = s.execs.length := by omega
          subst this
          simp at hx; subst hx; exact ⟨rfl, rfl⟩
        | succ m => simp [hd] at hx

theorem inv_step {cfg : Cfg} {script : Nat → Beh} {s : St} (inv : Inv cfg script s) (op : Op) :
    Inv cfg script (step cfg script s op).1 := by
  cases op with
  | adv dt =>
    refine ⟨?_, ?_, ?_, ?_⟩
    · intro k e he; exact inv.stored k e he
    · intro x hx ha hf
      exact inv.latest x hx ha (hf.mono (Nat.le_add_right _ dt))
    · intro x hx; have := inv.past x hx; simp [step]; omega
    · exact inv.stamped
  | call k =>
    cases h : s.store.find k with
    | none => rw [step_call_miss cfg script s k h]; exact inv_miss inv k h
    | some e => rw [step_call_hit cfg script s k e h]; exact inv
  | lost k =>
    rw [step_lost_state]
    cases h : s.store.find k with
    | none => rw [step_call_miss cfg script s k h]; exact inv_miss inv k h
    | some e => rw [step_call_hit cfg script s k e h]; exact inv
  | cut k => rw [step_cut_state]; exact inv

theorem inv_run {cfg : Cfg} {script : Nat → Beh} {s : St} (inv : Inv cfg script s) (ops : List Op) :
    Inv cfg script (run cfg script s ops).1 := by
  induction ops generalizing s with
  | nil => exact inv
  | cons op ops ih => simp only [run]; exact ih (inv_step inv op)

end CashewsVerif.Decor.Simple
