import CashewsVerif.Model.Bits
import CashewsVerif.Spec.Counters
/-
Helper lemmas for C18 (bit fields): bit-level characterisation of the `get` / `set` loops, the
field algebra (`get_set`, `get_incr`), refinement of the ideal counter array.
-/
namespace CashewsVerif.Bits

theorem testBit_one_shl (p j : Nat) : (1 <<< p).testBit j = decide (p = j) := by
  rw [Nat.one_shiftLeft, Nat.testBit_two_pow]

theorem testBit_setBit1 (a p j : Nat) : (setBit1 a p).testBit j = (a.testBit j || decide (p = j)) := by
  simp only [setBit1, Nat.testBit_or, testBit_one_shl]

theorem testBit_setBit0 (a p j : Nat) : (setBit0 a p).testBit j = (a.testBit j && !decide (p = j)) := by
  simp only [setBit0, Nat.testBit_xor, Nat.testBit_and, testBit_one_shl]
  cases a.testBit j <;> cases decide (p = j) <;> rfl

theorem testBit_one (t : Nat) : (1 : Nat).testBit t = decide (t = 0) := by
  have h := @Nat.testBit_two_pow 0 t
  simp only [Nat.pow_zero] at h
  rw [h]
  by_cases ht : t = 0 <;> simp [ht, eq_comm]

/-- one iteration of the `get` loop contributes exactly bit `b` -/
theorem testBit_and_one_shl (x b j : Nat) :
    (((x &&& 1) <<< b)).testBit j = (decide (j = b) && x.testBit 0) := by
  rw [Nat.testBit_shiftLeft, Nat.testBit_and, testBit_one]
  by_cases h : j = b
  · subst h; simp
  · by_cases h2 : j ≥ b
    · have : j - b ≠ 0 := by omega
      simp [h, this]
    · simp [h, h2]

/-- the `get` loop over an arbitrary base offset -/
def getFrom (a base n : Nat) : Nat :=
  (List.range n).foldl (fun value b => value ||| (((a >>> (base + b)) &&& 1) <<< b)) 0

theorem get_eq_getFrom (a i w : Nat) : get a i w = getFrom a (i * w) w := rfl

theorem getFrom_succ (a base n : Nat) :
    getFrom a base (n + 1) = getFrom a base n ||| (((a >>> (base + n)) &&& 1) <<< n) := by
  simp [getFrom, List.range_succ, List.foldl_append]

theorem testBit_getFrom (a base n j : Nat) :
    (getFrom a base n).testBit j = (decide (j < n) && a.testBit (base + j)) := by
  induction n with
  | zero => simp [getFrom]
  | succ n ih =>
    rw [getFrom_succ, Nat.testBit_or, ih, testBit_and_one_shl, Nat.testBit_shiftRight]
    by_cases h1 : j < n
    · have : j ≠ n := by omega
      have : j < n + 1 := by omega
      simp [*]
    · by_cases h2 : j = n
      · subst h2; simp
      · have : ¬ j < n + 1 := by omega
        simp [*]

/-- **bit view of `get`**: bit `b` of field `i` is bit `i*w + b` of the array, for `b < w` -/
theorem testBit_get (a i w b : Nat) :
    (get a i w).testBit b = (decide (b < w) && a.testBit (i * w + b)) := by
  rw [get_eq_getFrom, testBit_getFrom]

/-- the `set` loop over an arbitrary base offset -/
def setFrom (a base v n : Nat) : Nat :=
  (List.range n).foldl
    (fun acc b => if (v >>> b) &&& 1 = 1 then setBit1 acc (base + b) else setBit0 acc (base + b)) a

theorem set_eq_setFrom (a i v w : Nat) : set a i v w = setFrom a (i * w) v w := rfl

theorem setFrom_succ (a base v n : Nat) :
    setFrom a base v (n + 1) =
      if (v >>> n) &&& 1 = 1 then setBit1 (setFrom a base v n) (base + n)
      else setBit0 (setFrom a base v n) (base + n) := by
  simp [setFrom, List.range_succ, List.foldl_append]

theorem shr_and_one_eq_one (v b : Nat) : ((v >>> b) &&& 1 = 1) ↔ v.testBit b = true := by
  rw [Nat.and_one_is_mod, Nat.shiftRight_eq_div_pow, Nat.testBit_eq_decide_div_mod_eq]
  simp

theorem testBit_setFrom (a base v n p : Nat) :
    (setFrom a base v n).testBit p =
      if base ≤ p ∧ p < base + n then v.testBit (p - base) else a.testBit p := by
  induction n with
  | zero =>
    have : ¬ (base ≤ p ∧ p < base + 0) := by omega
    rw [if_neg this]; simp [setFrom]
  | succ n ih =>
    rw [setFrom_succ]
    by_cases hp : p = base + n
    · subst hp
      have h1 : base ≤ base + n ∧ base + n < base + (n + 1) := by omega
      have h2 : base + n - base = n := by omega
      rw [if_pos h1, h2]
      by_cases hv : v.testBit n = true
      · rw [if_pos ((shr_and_one_eq_one v n).2 hv), testBit_setBit1, hv]; simp
      · rw [if_neg (fun h => hv ((shr_and_one_eq_one v n).1 h)), testBit_setBit0]
        simp at hv; simp [hv]
    · have hne : ¬ (base + n = p) := fun h => hp h.symm
      have hiff : (base ≤ p ∧ p < base + (n + 1)) ↔ (base ≤ p ∧ p < base + n) := by omega
      split
      · rw [testBit_setBit1, ih]; simp only [hne, decide_false, Bool.or_false]
        by_cases hc : base ≤ p ∧ p < base + n
        · rw [if_pos hc, if_pos (hiff.2 hc)]
        · rw [if_neg hc, if_neg (fun h => hc (hiff.1 h))]
      · rw [testBit_setBit0, ih]; simp only [hne, decide_false, Bool.not_false, Bool.and_true]
        by_cases hc : base ≤ p ∧ p < base + n
        · rw [if_pos hc, if_pos (hiff.2 hc)]
        · rw [if_neg hc, if_neg (fun h => hc (hiff.1 h))]

/-- **bit view of `set`**: the bits of field `i` become the low `w` bits of `v`, every other bit
of the array is untouched -/
theorem testBit_set (a i v w p : Nat) :
    (set a i v w).testBit p =
      if i * w ≤ p ∧ p < i * w + w then v.testBit (p - i * w) else a.testBit p := by
  rw [set_eq_setFrom, testBit_setFrom]

/-- distinct fields do not overlap -/
theorem field_disjoint {i j w b : Nat} (hij : i ≠ j) (hb : b < w) :
    ¬ (i * w ≤ j * w + b ∧ j * w + b < i * w + w) := by
  rcases Nat.lt_or_gt_of_ne hij with h | h
  · have := Nat.mul_le_mul_right w (show i + 1 ≤ j from h)
    rw [Nat.succ_mul] at this
    omega
  · have := Nat.mul_le_mul_right w (show j + 1 ≤ i from h)
    rw [Nat.succ_mul] at this
    omega

/-- reading after writing: the written field holds the low `w` bits of the value, every other
field is unchanged -/
theorem get_set (a i v w j : Nat) :
    get (set a i v w) j w = if i = j then v % 2 ^ w else get a j w := by
  apply Nat.eq_of_testBit_eq
  intro b
  rw [testBit_get, testBit_set]
  by_cases hb : b < w
  · by_cases hij : i = j
    · subst hij
      have h1 : i * w ≤ i * w + b ∧ i * w + b < i * w + w := by omega
      have h2 : i * w + b - i * w = b := by omega
      rw [if_pos h1, if_pos rfl, h2, Nat.testBit_mod_two_pow]
    · rw [if_neg (field_disjoint hij hb), if_neg hij, testBit_get]
  · by_cases hij : i = j
    · simp [hb, hij, Nat.testBit_mod_two_pow]
    · simp [hb, hij, testBit_get]

theorem get_lt (a i w : Nat) : get a i w < 2 ^ w := by
  apply Nat.lt_pow_two_of_testBit
  intro b hb
  rw [testBit_get]
  have : ¬ b < w := by omega
  simp [this]

theorem get_zero (i w : Nat) : get 0 i w = 0 := by
  apply Nat.eq_of_testBit_eq
  intro b
  rw [testBit_get]; simp

/-! ### saturation arithmetic -/

theorem two_pow_cast (w : Nat) : ((2 : Int) ^ w) = ((2 ^ w : Nat) : Int) := by
  rw [Int.natCast_pow]; rfl

/-- pre-clamping the increment (first line of `Bitarray.incr`) does not change the result: the
field is a saturating counter in the raw `by` -/
theorem clamp_clampBy (w x : Nat) (hx : x < 2 ^ w) (by_ : Int) :
    clamp w ((x : Int) + clampBy w by_) = clamp w ((x : Int) + by_) := by
  unfold clamp clampBy
  rw [two_pow_cast]
  generalize (2 ^ w : Nat) = P at hx
  split <;> omega

theorem clamp_eq_satAdd (w x : Nat) (by_ : Int) :
    (clamp w ((x : Int) + by_)).toNat = Counters.satAdd w x by_ := rfl

theorem satAdd_lt (w x : Nat) (by_ : Int) : Counters.satAdd w x by_ < 2 ^ w := by
  unfold Counters.satAdd
  rw [two_pow_cast]
  have : 0 < 2 ^ w := Nat.two_pow_pos w
  generalize (2 ^ w : Nat) = P at this
  omega

/-- **field algebra of `incr`** -/
theorem get_incr (a i w : Nat) (by_ : Int) (j : Nat) :
    get (incr a i w by_) j w = if i = j then Counters.satAdd w (get a i w) by_ else get a j w := by
  unfold incr
  simp only []
  rw [get_set, clamp_clampBy w _ (get_lt a i w), clamp_eq_satAdd, Nat.mod_eq_of_lt (satAdd_lt _ _ _)]

/-! ### refinement of the ideal counter array -/

/-- the array `a` represents the counter function `c` at width `w` -/
def Repr (w a : Nat) (c : Nat → Nat) : Prop := ∀ j, get a j w = c j

theorem repr_init (w : Nat) : Repr w 0 Counters.init := fun j => get_zero j w

theorem repr_incr {w a c} (h : Repr w a c) (i : Nat) (by_ : Int) :
    Repr w (incr a i w by_) (Counters.incr c w i by_) := by
  intro j
  rw [get_incr]
  unfold Counters.incr
  rw [h i, h j]

theorem getBits_eq {w a c} (h : Repr w a c) (idxs : List Nat) :
    getBits a idxs w = Counters.getMany c idxs := by
  unfold getBits Counters.getMany
  exact List.map_congr_left (fun j _ => h j)

theorem incrBits_fold {w : Nat} {by_ : Int} (idxs : List Nat) :
    ∀ (a : Nat) (c : Nat → Nat) (acc : List Nat), Repr w a c →
    let r := idxs.foldl (fun (s : Nat × List Nat) i =>
      let a' := incr s.1 i w by_
      (a', s.2 ++ [get a' i w])) (a, acc)
    let r' := idxs.foldl (fun (s : (Nat → Nat) × List Nat) i =>
      let c' := Counters.incr s.1 w i by_
      (c', s.2 ++ [c' i])) (c, acc)
    Repr w r.1 r'.1 ∧ r.2 = r'.2 := by
  induction idxs with
  | nil => intro a c acc h; exact ⟨h, rfl⟩
  | cons i rest ih =>
    intro a c acc h
    simp only [List.foldl_cons]
    have h' := repr_incr h i by_
    rw [h' i]
    exact ih _ _ _ h'

theorem incrBits_eq {w a c} (h : Repr w a c) (idxs : List Nat) (by_ : Int) :
    Repr w (incrBits a idxs w by_).1 (Counters.incrMany c w idxs by_).1 ∧
    (incrBits a idxs w by_).2 = (Counters.incrMany c w idxs by_).2 :=
  incrBits_fold idxs a c [] h

theorem step_eq {w a c} (h : Repr w a c) (op : Op) :
    Repr w (step w a op).1 (Counters.step w c op).1 ∧ (step w a op).2 = (Counters.step w c op).2 := by
  cases op with
  | getBits idxs => exact ⟨h, getBits_eq h idxs⟩
  | incrBits idxs by_ => exact incrBits_eq h idxs by_

theorem run_eq {w : Nat} (ops : List Op) : ∀ {a c}, Repr w a c → run w a ops = Counters.run w c ops := by
  induction ops with
  | nil => intros; rfl
  | cons op rest ih =>
    intro a c h
    have hs := step_eq h op
    simp only [run, Counters.run]
    rw [hs.2, ih hs.1]

end CashewsVerif.Bits
