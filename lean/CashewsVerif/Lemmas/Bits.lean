import CashewsVerif.Model.Bits
import CashewsVerif.Spec.Counters
/-
Helper lemmas for C18 (bit fields): bit-level characterisation of the `get` / `set` loops, the
field algebra (`get_set`, `get_incr`), refinement of the ideal counter array.
-/
namespace CashewsVerif.Bits

theorem testBit_one_shl (p j : Nat) : (1 <<< p).testBit j = decide (p = j) := by
  rw [Nat.one_shiftLeft, Nat.testBit_two_pow]

theorem testBit_setBit1 (a p j : Nat) : (setBit1 a p).testBit j = (a.testBit j || decide (p = j)) := by
  simp only [setBit1, Nat.testBit_or, testBit_one_shl]

theorem testBit_setBit0 (a p j : Nat) : (setBit0 a p).testBit j = (a.testBit j && !decide (p = j)) := by
  simp only [setBit0, Nat.testBit_xor, Nat.testBit_and, testBit_one_shl]
  cases a.testBit j <;> cases decide (p = j) <;> rfl

theorem testBit_one (t : Nat) : (1 : Nat).testBit t = decide (t = 0) := by
  have h := @Nat.testBit_two_pow 0 t
  simp only [Nat.pow_zero] at h
  rw [h]
  by_cases ht : t = 0 <;> simp [ht, eq_comm]

/-- one iteration of the `get` loop contributes exactly bit `b` -/
theorem testBit_and_one_shl (x b j : Nat) :
    (((x &&& 1) <<< b)).testBit j = (decide (j = b) && x.testBit 0) := by
  rw [Nat.testBit_shiftLeft, Nat.testBit_and, testBit_one]
  by_cases h : j = b
  · subst h; simp
  · by_cases h2 : j ≥ b
    · have : j - b ≠ 0 := by omega
      simp [h, this]
    · simp [h, h2]

/-- the `get` loop over an arbitrary base offset -/
def getFrom (a base n : Nat) : Nat :=
  (List.range n).foldl (fun value b => value ||| (((a >>> (base + b)) &&& 1) <<< b)) 0

theorem get_eq_getFrom (a i w : Nat) : get a i w = getFrom a (i * w) w := rfl

theorem getFrom_succ (a base n : Nat) :
    getFrom a base (n + 1) = getFrom a base n ||| (((a >>> (base + n)) &&& 1) <<< n) := by
  simp [getFrom, List.range_succ, List.foldl_append]

theorem testBit_getFrom (a base n j : Nat) :
    (getFrom a base n).testBit j = (decide (j < n) && a.testBit (base + j)) := by
  induction n with
  | zero => simp [getFrom]
  | succ n ih =>
    rw [getFrom_succ, Nat.testBit_or, ih, testBit_and_one_shl, Nat.testBit_shiftRight]
    by_cases h1 : j < n
    · have : j ≠ n := by omega
      have : j < n + 1 := by omega
      simp [*]
    · by_cases h2 : j = n
      · subst h2; simp
      · have : ¬ j < n + 1 := by omega
        simp [*]

/-- **bit view of `get`**: bit `b` of field `i` is bit `i*w + b` of the array, for `b < w` -/
theorem testBit_get (a i w b : Nat) :
    (get a i w).testBit b = (decide (b < w) && a.testBit (i * w + b)) := by
  rw [get_eq_getFrom, testBit_getFrom]

/-- the `set` loop over an arbitrary base offset -/
def setFrom (a base v n : Nat) : Nat :=
  (List.range n).foldl
    (fun acc b => if (v >>> b) &&& 1 = 1 then setBit1 acc (base + b) else setBit0 acc (base + b)) a

theorem set_eq_setFrom (a i v w : Nat) : set a i v w = setFrom a (i * w) v w := rfl

theorem setFrom_succ (a base v n : Nat) :
    setFrom a base v (n + 1) =
      if (v >>> n) &&& 1 = 1 then setBit1 (setFrom a base v n) (base + n)
      else setBit0 (setFrom a base v n) (base + n) := by
  simp [setFrom, List.range_succ, List.foldl_append]

theorem shr_and_one_eq_one (v b : Nat) : ((v >>> b) &&& 1 = 1) ↔ v.testBit b = true := by
  rw [Nat.and_one_is_mod, Nat.shiftRight_eq_div_pow, Nat.testBit_eq_decide_div_mod_eq]
  simp

theorem testBit_setFrom (a base v n p : Nat) :
    (setFrom a base v n).testBit p =
      if base ≤ p ∧ p < base + n then v.testBit (p - base) else a.testBit p := by
  induction n with
  | zero =>
    have : ¬ (base ≤ p ∧ p < base + 0) := by omega
    rw [if_neg this]; simp [setFrom]
  | succ n ih =>
    rw [setFrom_succ]
    by_cases hp : p = base + n
    · subst hp
      have h1 : base ≤ base + n ∧ base + n < base + (n + 1) := by omega
      have h2 : base + n - base = n := by omega
      rw [if_pos h1, h2]
      by_cases hv : v.testBit n = true
      · rw [if_pos ((shr_and_one_eq_one v n).2 hv), testBit_setBit1, hv]; simp
      · rw [if_neg (fun h => hv ((shr_and_one_eq_one v n).1 h)), testBit_setBit0]
        simp at hv; simp [hv]
    · have hne : ¬ (base + n = p) := fun h => hp h.symm
      have hiff : (base ≤ p ∧ p < base + (n + 1)) ↔ (base ≤ p ∧ p < base + n) := by omega
      split
      · rw [testBit_setBit1, ih]; simp only [hne, decide_false, Bool.or_false]
        by_cases hc : base ≤ p ∧ p < base + n
        · rw [if_pos hc, if_pos (hiff.2 hc)]
        · rw [if_neg hc, if_neg (fun h => hc (hiff.1 h))]
      · rw [testBit_setBit0, ih]; simp only [hne, decide_false, Bool.not_false, Bool.and_true]
        by_cases hc : base ≤ p ∧ p < base + n
        · rw [if_pos hc, if_pos (hiff.2 hc)]
        · rw [if_neg hc, if_neg (fun h => hc (hiff.1 h))]

/-- **bit view of `set`**: the bits of field `i` become the low `w` bits of `v`, every other bit
of the array is untouched -/
theorem testBit_set (a i v w p : Nat) :
    (set a i v w).testBit p =
      if i * w ≤ p ∧ p < i * w + w then v.testBit (p - i * w) else a.testBit p := by
  rw [set_eq_setFrom, testBit_setFrom]

/-- distinct fields do not overlap -/
theorem field_disjoint {i j w b : Nat} (hij : i ≠ j) (hb : b < w) :
    ¬ (i * w ≤ j * w + b ∧ j * w + b < i * w + w) := by
  rcases Nat.lt_or_gt_of_ne hij with h | h
  · have := Nat.mul_le_mul_right w (show i + 1 ≤ j from h)
    rw [Nat.succ_mul] at this
    omega
  · have := Nat.mul_le_mul_right w (show j + 1 ≤ i from h)
    rw [Nat.succ_mul] at this
    omega

/-- reading after writing: the written field holds the low `w` bits of the value, every other
field is unchanged -/
theorem get_set (a i v w j : Nat) :
    get (set a i v w) j w = if i = j then v % 2 ^ w else get a j w := by
  apply Nat.eq_of_testBit_eq
  intro b
  rw [testBit_get, testBit_set]
  by_cases hb : b < w
  · by_cases hij : i = j
    · subst hij
      have h1 : i * w ≤ i * w + b ∧ i * w + b < i * w + w := by omega
      have h2 : i * w + b - i * w = b := by omega
      rw [if_pos h1, if_pos rfl, h2, Nat.testBit_mod_two_pow]
    · rw [if_neg (field_disjoint hij hb), if_neg hij, testBit_get]
  · by_cases hij : i = j
    · simp [hb, hij, Nat.testBit_mod_two_pow]
    · simp [hb, hij, testBit_get]

theorem get_lt (a i w : Nat) : get a i w < 2 ^ w := by
  apply Nat.lt_pow_two_of_testBit
  intro b hb
  rw [testBit_get]
  have : ¬ b < w := by omega
  simp [this]

theorem get_zero (i w : Nat) : get 0 i w = 0 := by
  apply Nat.eq_of_testBit_eq
  intro b
  rw [testBit_get]; simp

/-! ### saturation arithmetic -/

theorem two_pow_cast (w : Nat) : ((2 : Int) ^ w) = ((2 ^ w : Nat) : Int) := by
  rw [Int.natCast_pow]; rfl

/-- pre-clamping the increment (first line of `Bitarray.incr`) does not change the result: the
field is a saturating counter in the raw `by` -/
theorem clamp_clampBy (w x : Nat) (hx : x < 2 ^ w) (by_ : Int) :
    clamp w ((x : Int) + clampBy w by_) = clamp w ((x : Int) + by_) := by
  unfold clamp clampBy
  rw [two_pow_cast]
  generalize (2 ^ w : Nat) = P at hx
  split <;> omega

theorem clamp_eq_satAdd (w x : Nat) (by_ : Int) :
    (clamp w ((x : Int) + by_)).toNat = Counters.satAdd w x by_ := rfl

theorem satAdd_lt (w x : Nat) (by_ : Int) : Counters.satAdd w x by_ < 2 ^ w := by
  unfold Counters.satAdd
  rw [two_pow_cast]
  have : 0 < 2 ^ w := Nat.two_pow_pos w
  generalize (2 ^ w : Nat) = P at this
  omega

/-- **field algebra of `incr`** -/
theorem get_incr (a i w : Nat) (by_ : Int) (j : Nat) :
    get (incr a i w by_) j w = if i = j then Counters.satAdd w (get a i w) by_ else get a j w := by
  unfold incr
  simp only []
  rw [get_set, clamp_clampBy w _ (get_lt a i w), clamp_eq_satAdd, Nat.mod_eq_of_lt (satAdd_lt _ _ _)]

/-! ### refinement of the ideal counter array -/

/-- the array `a` represents the counter function `c` at width `w` -/
def Repr (w a : Nat) (c : Nat → Nat) : Prop := ∀ j, get a j w = c j

theorem repr_init (w : Nat) : Repr w 0 Counters.init := fun j => get_zero j w

theorem repr_incr {w a c} (h : Repr w a c) (i : Nat) (by_ : Int) :
    Repr w (incr a i w by_) (Counters.incr c w i by_) := by
  intro j
  rw [get_incr]
  unfold Counters.incr
  rw [h i, h j]

theorem getBits_eq {w a c} (h : Repr w a c) (idxs : List Nat) :
    getBits a idxs w = Counters.getMany c idxs := by
  unfold getBits Counters.getMany
  exact List.map_congr_left (fun j _ => h j)

theorem incrBits_fold {w : Nat} {by_ : Int} (idxs : List Nat) :
    ∀ (a : Nat) (c : Nat → Nat) (acc : List Nat), Repr w a c →
    let r := idxs.foldl (fun (s : Nat × List Nat) i =>
      let a' := incr s.1 i w by_
      (a', s.2 ++ [get a' i w])) (a, acc)
    let r' := idxs.foldl (fun (s : (Nat → Nat) × List Nat) i =>
      let c' := Counters.incr s.1 w i by_
      (c', s.2 ++ [c' i])) (c, acc)
    Repr w r.1 r'.1 ∧ r.2 = r'.2 := by
  induction idxs with
  | nil => intro a c acc h; exact ⟨h, rfl⟩
  | cons i rest ih =>
    intro a c acc h
    simp only [List.foldl_cons]
    have h' := repr_incr h i by_
    rw [h' i]
    exact ih _ _ _ h'

theorem incrBits_eq {w a c} (h : Repr w a c) (idxs : List Nat) (by_ : Int) :
    Repr w (incrBits a idxs w by_).1 (Counters.incrMany c w idxs by_).1 ∧
    (incrBits a idxs w by_).2 = (Counters.incrMany c w idxs by_).2 :=
  incrBits_fold idxs a c [] h

theorem step_eq {w a c} (h : Repr w a c) (op : Op) :
    Repr w (step w a op).1 (Counters.step w c op).1 ∧ (step w a op).2 = (Counters.step w c op).2 := by
  cases op with
  | getBits idxs => exact ⟨h, getBits_eq h idxs⟩
  | incrBits idxs by_ => exact incrBits_eq h idxs by_

theorem run_eq {w : Nat} (ops : List Op) : ∀ {a c}, Repr w a c → run w a ops = Counters.run w c ops := by
  induction ops with
  | nil => intros; rfl
  | cons op rest ih =>
    intro a c h
    have hs := step_eq h op
    simp only [run, Counters.run]
    rw [hs.2, ih hs.1]

/-! ### a key with a lifetime: the lazy store refines the eagerly expiring counter array -/

theorem view_none_of_slot_none {t : TState} (h : t.slot = none) : t.view = none := by
  simp [TState.view, h]

theorem tget_snd (t : TState) : (tget t).2 = t.view := by
  unfold tget TState.view
  cases t.slot with
  | none => rfl
  | some s => by_cases h : s.expired t.now <;> simp [h]

theorem tget_now (t : TState) : (tget t).1.now = t.now := by
  unfold tget
  cases t.slot with
  | none => rfl
  | some s => by_cases h : s.expired t.now <;> simp [h]

/-- after `_get` the stale entry is gone: the store holds exactly what the key logically holds -/
theorem tget_slot (t : TState) : (tget t).1.slot = t.view := by
  unfold tget TState.view
  cases hs : t.slot with
  | none => simp [hs]
  | some s => by_cases h : s.expired t.now <;> simp [h, hs]

theorem tget_view (t : TState) : (tget t).1.view = t.view := by
  unfold tget TState.view
  cases hs : t.slot with
  | none => simp [hs]
  | some s => by_cases h : s.expired t.now <;> simp [h, hs]

theorem view_not_expired {t : TState} {sl : Slot} (h : t.view = some sl) : sl.expired t.now = false := by
  unfold TState.view at h
  cases hs : t.slot with
  | none => simp [hs] at h
  | some s =>
    by_cases he : s.expired t.now
    · simp [hs, he] at h
    · simp [hs, he] at h; subst h; simpa using he

theorem tset_now (t : TState) (a ttl : Nat) : (tset t a ttl).now = t.now := rfl

/-- `_set` on a store without a stale entry: the new array is there, with the new deadline or the
inherited one -/
theorem tset_view (t : TState) (hp : t.slot = t.view) (a ttl : Nat) :
    (tset t a ttl).view =
      some ⟨a, if ttl ≠ 0 then some (t.now + ttl) else t.view.bind (·.dl)⟩ := by
  by_cases httl : ttl = 0
  · subst httl
    cases hv : t.view with
    | none =>
      have : t.slot = none := by rw [hp, hv]
      simp [tset, TState.view, this, Slot.expired]
    | some sl =>
      have hs : t.slot = some sl := by rw [hp, hv]
      have hne := view_not_expired hv
      have hne' : Slot.expired ⟨a, sl.dl⟩ t.now = false := by simpa [Slot.expired] using hne
      simp [tset, TState.view, hs, hne, hne']
  · have : ¬ (t.now + ttl ≤ t.now) := by omega
    simp [tset, TState.view, httl, Slot.expired, this]

/-- the store `t` represents the ideal timed counter array `s` at width `w` -/
def TRepr (w : Nat) (t : TState) (s : Counters.TCounters) : Prop :=
  t.now = s.now ∧
  match t.view with
  | none => s.live = false ∧ s.dl = none ∧ ∀ j, s.c j = 0
  | some sl => s.live = true ∧ s.dl = sl.dl ∧ Repr w sl.a s.c

theorem trepr_init (w now : Nat) : TRepr w ⟨now, none⟩ (Counters.fresh now) :=
  ⟨rfl, by simp [TState.view, Counters.fresh, Counters.init]⟩

/-- what `_get(key, default=Bitarray("0"))` hands out represents the ideal array -/
theorem trepr_array {w t s} (h : TRepr w t s) : Repr w ((t.view.map (·.a)).getD 0) s.c := by
  obtain ⟨_, hv⟩ := h
  cases hvw : t.view with
  | none => rw [hvw] at hv; intro j; simp [get_zero, hv.2.2 j]
  | some sl => rw [hvw] at hv; simpa using hv.2.2

theorem trepr_of_view {w : Nat} {t t' : TState} {s : Counters.TCounters} (h : TRepr w t s)
    (hn : t'.now = t.now) (hv : t'.view = t.view) : TRepr w t' s := by
  refine ⟨by rw [hn]; exact h.1, ?_⟩
  rw [hv]; exact h.2

theorem tstep_eq {w t s} (h : TRepr w t s) (op : TOp) :
    TRepr w (tstep w t op).1 (Counters.tstep w s op).1 ∧ (tstep w t op).2 = (Counters.tstep w s op).2 := by
  have hnow := h.1
  have harr := trepr_array h
  have hv := h.2
  cases op with
  | getBits idxs =>
    have e1 : tstep w t (.getBits idxs) = ((tget t).1, getBits ((t.view.map (·.a)).getD 0) idxs w) := by
      simp only [tstep, tget_snd]
    rw [e1]
    exact ⟨trepr_of_view h (tget_now t) (tget_view t), getBits_eq harr idxs⟩
  | incrBits idxs by_ =>
    have e1 : tstep w t (.incrBits idxs by_) =
        (tset (tget t).1 (incrBits ((t.view.map (·.a)).getD 0) idxs w by_).1 0,
          (incrBits ((t.view.map (·.a)).getD 0) idxs w by_).2) := by
      simp only [tstep, tget_snd]
    have e2 : Counters.tstep w s (.incrBits idxs by_) =
        ({ s with c := (Counters.incrMany s.c w idxs by_).1, live := true }, (Counters.incrMany s.c w idxs by_).2) := rfl
    rw [e1, e2]
    have hi := incrBits_eq harr idxs by_
    refine ⟨⟨by rw [tset_now, tget_now]; exact hnow, ?_⟩, hi.2⟩
    rw [tset_view _ (by rw [tget_slot, tget_view])]
    simp only [ne_eq, not_true_eq_false, if_false, tget_view]
    refine ⟨by first | rfl | trivial, ?_, hi.1⟩
    cases hvw : t.view with
    | none => rw [hvw] at hv; simpa using hv.2.1
    | some sl => rw [hvw] at hv; simpa using hv.2.1
  | expire ttl =>
    cases hvw : t.view with
    | none =>
      rw [hvw] at hv
      have e1 : tstep w t (.expire ttl) = ((tget t).1, []) := by simp only [tstep, tget_snd, hvw]
      have e2 : Counters.tstep w s (.expire ttl) = (s, []) := by simp [Counters.tstep, hv.1]
      rw [e1, e2]
      exact ⟨trepr_of_view h (tget_now t) (tget_view t), rfl⟩
    | some sl =>
      rw [hvw] at hv
      have e1 : tstep w t (.expire ttl) = (tset (tget t).1 sl.a ttl, []) := by simp only [tstep, tget_snd, hvw]
      rw [e1]
      have hview := tset_view (tget t).1 (by rw [tget_slot, tget_view]) sl.a ttl
      rw [tget_view, hvw, tget_now] at hview
      by_cases httl : ttl = 0
      · have e2 : Counters.tstep w s (.expire ttl) = (s, []) := by simp [Counters.tstep, httl]
        rw [e2]
        refine ⟨⟨by rw [tset_now, tget_now]; exact hnow, ?_⟩, rfl⟩
        rw [hview]; simpa [httl] using hv
      · have e2 : Counters.tstep w s (.expire ttl) = ({ s with dl := some (s.now + ttl) }, []) := by
          simp [Counters.tstep, httl, hv.1]
        rw [e2]
        refine ⟨⟨by rw [tset_now, tget_now]; exact hnow, ?_⟩, rfl⟩
        rw [hview]; simp [httl, hnow, hv.1, hv.2.2]
  | delete =>
    have e2 : Counters.tstep w s .delete = (Counters.fresh s.now, b2l s.live) := rfl
    rw [e2]
    cases hs : t.slot with
    | none =>
      have hvw := view_none_of_slot_none hs
      rw [hvw] at hv
      have e1 : tstep w t .delete = (t, b2l false) := by simp only [tstep, hs]
      rw [e1, hv.1]
      refine ⟨⟨hnow, ?_⟩, rfl⟩
      rw [hvw]; simp [Counters.fresh, Counters.init]
    | some sl =>
      have e1 : tstep w t .delete = ({ t with slot := none }, b2l (!sl.expired t.now)) := by simp only [tstep, hs]
      rw [e1]
      refine ⟨⟨hnow, by simp [TState.view, Counters.fresh, Counters.init]⟩, ?_⟩
      by_cases he : sl.expired t.now
      · have hvw : t.view = none := by simp [TState.view, hs, he]
        rw [hvw] at hv; simp [he, hv.1]
      · have hvw : t.view = some sl := by simp [TState.view, hs, he]
        rw [hvw] at hv; simp [he, hv.1]
  | touch =>
    have e1 : tstep w t .touch = ((tget t).1, b2l t.view.isSome) := by simp only [tstep, tget_snd]
    have e2 : Counters.tstep w s .touch = (s, b2l s.live) := rfl
    rw [e1, e2]
    refine ⟨trepr_of_view h (tget_now t) (tget_view t), ?_⟩
    cases hvw : t.view with
    | none => rw [hvw] at hv; simp [hv.1]
    | some sl => rw [hvw] at hv; simp [hv.1]
  | adv dt =>
    have e1 : tstep w t (.adv dt) = ({ t with now := t.now + dt }, []) := rfl
    rw [e1]
    cases hs : t.slot with
    | none =>
      have hvw := view_none_of_slot_none hs
      rw [hvw] at hv
      have e2 : Counters.tstep w s (.adv dt) = ({ s with now := s.now + dt }, []) := by
        simp [Counters.tstep, hv.2.1]
      rw [e2]
      refine ⟨⟨by simp [hnow], ?_⟩, rfl⟩
      simp only [TState.view]; exact hv
    | some sl =>
      by_cases he : sl.expired t.now
      · -- already stale: the ideal array was reset when the deadline passed
        have hvw : t.view = none := by simp [TState.view, hs, he]
        rw [hvw] at hv
        have e2 : Counters.tstep w s (.adv dt) = ({ s with now := s.now + dt }, []) := by
          simp [Counters.tstep, hv.2.1]
        rw [e2]
        refine ⟨⟨by simp [hnow], ?_⟩, rfl⟩
        have he' : sl.expired (t.now + dt) = true := by
          unfold Slot.expired at he ⊢
          cases hd : sl.dl with
          | none => simp [hd] at he
          | some d => simp [hd] at he ⊢; omega
        simp only [TState.view, he', if_true]; exact hv
      · have hvw : t.view = some sl := by simp [TState.view, hs, he]
        rw [hvw] at hv
        cases hd : sl.dl with
        | none =>
          have hsd : s.dl = none := by rw [hv.2.1, hd]
          have e2 : Counters.tstep w s (.adv dt) = ({ s with now := s.now + dt }, []) := by
            simp [Counters.tstep, hsd]
          rw [e2]
          refine ⟨⟨by simp [hnow], ?_⟩, rfl⟩
          have he' : sl.expired (t.now + dt) = false := by simp [Slot.expired, hd]
          simp only [TState.view, he']; exact hv
        | some d =>
          have hsd : s.dl = some d := by rw [hv.2.1, hd]
          by_cases hreach : d ≤ s.now + dt
          · have he' : sl.expired (t.now + dt) = true := by simp [Slot.expired, hd, hnow, hreach]
            have e2 : Counters.tstep w s (.adv dt) = (Counters.fresh (s.now + dt), []) := by
              simp [Counters.tstep, hsd, hreach]
            rw [e2]
            refine ⟨⟨by simp [hnow, Counters.fresh], ?_⟩, rfl⟩
            simp [TState.view, he', Counters.fresh, Counters.init]
          · have he' : sl.expired (t.now + dt) = false := by simp [Slot.expired, hd, hnow, hreach]
            have e2 : Counters.tstep w s (.adv dt) = ({ s with now := s.now + dt }, []) := by
              simp [Counters.tstep, hsd, hreach]
            rw [e2]
            refine ⟨⟨by simp [hnow], ?_⟩, rfl⟩
            simp only [TState.view, he']; exact hv

theorem trun_eq {w : Nat} (ops : List TOp) : ∀ {t s}, TRepr w t s → trun w t ops = Counters.trun w s ops := by
  induction ops with
  | nil => intros; rfl
  | cons op rest ih =>
    intro t s h
    have hs := tstep_eq h op
    simp only [trun, Counters.trun]
    rw [hs.2, ih hs.1]

/-! ### several keys and copies of bit-field values -/

/-- `_set` whatever the store holds for the key (a stale entry or not) -/
theorem tset_view' (t : TState) (a ttl : Nat) :
    (tset t a ttl).view =
      some ⟨a, if ttl ≠ 0 then some (t.now + ttl) else t.view.bind (·.dl)⟩ := by
  obtain ⟨now, slot⟩ := t
  by_cases httl : ttl = 0
  · subst httl
    cases slot with
    | none => simp [tset, TState.view, Slot.expired]
    | some sl =>
      obtain ⟨b, dl⟩ := sl
      by_cases he : Slot.expired ⟨b, dl⟩ now
      · cases dl with
        | none => simp [Slot.expired] at he
        | some d =>
          have hd : d ≤ now := by simpa [Slot.expired] using he
          simp [tset, TState.view, Slot.expired, hd]
      · have he' : Slot.expired ⟨b, dl⟩ now = false := by simpa using he
        have he'' : Slot.expired ⟨a, dl⟩ now = false := by simpa [Slot.expired] using he'
        simp [tset, TState.view, he', he'']
  · have : ¬ (now + ttl ≤ now) := by omega
    simp [tset, TState.view, httl, Slot.expired, this]

theorem MState.set_same (m : MState) (k : Nat) (t : TState) : (m.set k t) k = t := by simp [MState.set]

theorem MCounters.set_same (m : Counters.MCounters) (k : Nat) (t : Counters.TCounters) : (m.set k t) k = t := by
  simp [Counters.MCounters.set]

def MRepr (w : Nat) (m : MState) (s : Counters.MCounters) : Prop := ∀ k, TRepr w (m k) (s k)

theorem mrepr_init (w now : Nat) : MRepr w (fun _ => ⟨now, none⟩) (fun _ => Counters.fresh now) :=
  fun _ => trepr_init w now

theorem mstep_eq {w m s} (h : MRepr w m s) (op : MOp) :
    MRepr w (mstep w m op).1 (Counters.mstep w s op).1 ∧ (mstep w m op).2 = (Counters.mstep w s op).2 := by
  cases op with
  | on k op =>
    have hk := tstep_eq (h k) op
    refine ⟨?_, hk.2⟩
    intro k'
    simp only [mstep, Counters.mstep, MState.set, Counters.MCounters.set]
    by_cases e : k' = k
    · simp only [e, if_true]; exact hk.1
    · simp only [e, if_false]; exact h k'
  | adv dt =>
    exact ⟨fun k => (tstep_eq (h k) (.adv dt)).1, rfl⟩
  | copy src dst ttl =>
    have hsrc := h src
    have hget : TRepr w (tget (m src)).1 (s src) := trepr_of_view hsrc (tget_now _) (tget_view _)
    have hm' : MRepr w (m.set src (tget (m src)).1) s := by
      intro k
      simp only [MState.set]
      by_cases e : k = src
      · simp only [e, if_true]; exact hget
      · simp only [e, if_false]; exact h k
    cases hv : (m src).view with
    | none =>
      have hl : (s src).live = false := by have := hsrc.2; rw [hv] at this; exact this.1
      have e1 : mstep w m (.copy src dst ttl) = (m.set src (tget (m src)).1, b2l false) := by
        simp only [mstep, tget_snd, hv]
      have e2 : Counters.mstep w s (.copy src dst ttl) = (s, b2l false) := by
        simp [Counters.mstep, hl]
      rw [e1, e2]; exact ⟨hm', rfl⟩
    | some sl =>
      have hs := hsrc.2; rw [hv] at hs
      have e1 : mstep w m (.copy src dst ttl) =
          ((m.set src (tget (m src)).1).set dst (tset ((m.set src (tget (m src)).1) dst) sl.a ttl), b2l true) := by
        simp only [mstep, tget_snd, hv]
      have e2 : Counters.mstep w s (.copy src dst ttl) =
          (s.set dst { (s dst) with c := (s src).c, live := true,
                                    dl := if ttl ≠ 0 then some ((s dst).now + ttl) else (s dst).dl }, b2l true) := by
        simp [Counters.mstep, hs.1]
      rw [e1, e2]
      refine ⟨?_, rfl⟩
      intro k
      by_cases e : k = dst
      · subst e
        have hd := hm' k
        show TRepr w ((MState.set _ k _) k) ((Counters.MCounters.set _ k _) k)
        rw [MState.set_same, MCounters.set_same]
        generalize (m.set src (tget (m src)).1) k = D at hd ⊢
        refine ⟨?_, ?_⟩
        · rw [tset_now]; exact hd.1
        · rw [tset_view']
          refine ⟨rfl, ?_, hs.2.2⟩
          have hdv := hd.2
          by_cases httl : ttl = 0
          · simp only [httl, ne_eq, not_true_eq_false, if_false]
            cases hvv : D.view with
            | none => rw [hvv] at hdv; simpa using hdv.2.1
            | some sl' => rw [hvv] at hdv; simpa using hdv.2.1
          · simp only [httl, ne_eq, not_false_eq_true, if_true]
            rw [← hd.1]
      · simp only [MState.set, Counters.MCounters.set, e, if_false]
        exact hm' k

theorem mrun_eq {w : Nat} (ops : List MOp) : ∀ {m s}, MRepr w m s → mrun w m ops = Counters.mrun w s ops := by
  induction ops with
  | nil => intros; rfl
  | cons op rest ih =>
    intro m s h
    have hs := mstep_eq h op
    simp only [mrun, Counters.mrun]
    rw [hs.2, ih hs.1]

end CashewsVerif.Bits
