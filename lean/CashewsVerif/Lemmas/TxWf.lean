import CashewsVerif.Lemmas.TxFind
/- Well-formedness of the abstract transaction: one clock, and only user keys in overlay and pending deletes. -/
namespace CashewsVerif

namespace TtlMap

theorem incr_now (t : TtlMap) (k : Key) (by_ : Int) (ttl : Option Nat) : (t.incr k by_ ttl).1.now = t.now := by
  unfold incr; simp only; split <;> rfl

theorem find_incr_ne (t : TtlMap) (k : Key) (by_ : Int) (ttl : Option Nat) {k' : Key} (h : k' ≠ k) :
    (t.incr k by_ ttl).1.find k' = t.find k' := by
  unfold incr; simp only; split
  · rfl
  · rw [find_write, if_neg h]

theorem incr_none {t : TtlMap} {k : Key} (h : t.find k = none) (by_ : Int) (ttl : Option Nat) :
    t.incr k by_ ttl = (t.write k (.int (0 + by_)) (if 0 + by_ = 1 then ttl else none), .int (0 + by_)) := by
  unfold incr; simp [h]

theorem incr_some {t : TtlMap} {k : Key} {e : Entry} {c : Int} (h : t.find k = some e) (hc : e.val.toInt? = some c)
    (by_ : Int) (ttl : Option Nat) :
    t.incr k by_ ttl = (t.write k (.int (c + by_)) (if c + by_ = 1 then ttl else none), .int (c + by_)) := by
  unfold incr; simp [h, hc]

theorem incr_err {t : TtlMap} {k : Key} {e : Entry} (h : t.find k = some e) (hc : e.val.toInt? = none)
    (by_ : Int) (ttl : Option Nat) : t.incr k by_ ttl = (t, .err) := by
  unfold incr; simp [h, hc]

end TtlMap

namespace ATx

structure Wf (a : ATx) : Prop where
  clock : a.ov.now = a.b.now
  ovUser : ∀ k, reserved k = true → a.ov.find k = none
  delUser : ∀ k ∈ a.del, reserved k = false

theorem wf_begin (b : TtlMap) : (begin_ b).Wf :=
  ⟨rfl, fun k _ => by simp [begin_, TtlMap.find], fun k h => by simp [begin_] at h⟩

theorem wf_put {a : ATx} (h : a.Wf) {k : Key} (hr : reserved k = false) (v : Val) (ttl : Option Nat) :
    (a.put k v ttl).Wf := by
  refine ⟨h.clock, fun k' hr' => ?_, fun k' hk' => ?_⟩
  · show (a.ov.write k v ttl).find k' = none
    rw [TtlMap.find_write, if_neg (fun e => by rw [e, hr] at hr'; exact absurd hr' (by simp))]
    exact h.ovUser k' hr'
  · simp only [put, List.mem_filter] at hk'
    exact h.delUser k' hk'.1

theorem wf_delete {a : ATx} (h : a.Wf) {k : Key} (hr : reserved k = false) : (a.delete k).Wf := by
  refine ⟨h.clock, fun k' hr' => ?_, fun k' hk' => ?_⟩
  · show (a.ov.remove k).find k' = none
    rw [TtlMap.find_remove]; split
    · rfl
    · exact h.ovUser k' hr'
  · simp only [delete, List.mem_cons] at hk'
    rcases hk' with hk' | hk'
    · rw [hk']; exact hr
    · exact h.delUser k' hk'

theorem wf_seed {a : ATx} (h : a.Wf) {k : Key} (hr : reserved k = false) : (a.seed k).Wf := by
  unfold seed; split
  · refine ⟨h.clock, fun k' hr' => ?_, h.delUser⟩
    show (a.ov.write k _ none).find k' = none
    rw [TtlMap.find_write, if_neg (fun e => by rw [e, hr] at hr'; exact absurd hr' (by simp))]
    exact h.ovUser k' hr'
  · exact h

/-- user keys only -/
def UserOp (op : Op) : Prop := ∀ k ∈ op.keys, reserved k = false

theorem wf_step {a : ATx} (h : a.Wf) (op : Op) (hu : UserOp op) : (a.step op).1.Wf := by
  cases op with
  | set k v ttl c =>
    have hr := hu k (by simp [Op.keys])
    cases c with
    | always => exact wf_put h hr v ttl
    | nx => simp only [step]; split; exact h; exact wf_put h hr v ttl
    | xx => simp only [step]; split; exact wf_put h hr v ttl; exact h
  | setMany kvs ttl =>
    simp only [step]
    have : ∀ (kvs : List (Key × Val)) (a : ATx), a.Wf → (∀ kv ∈ kvs, reserved kv.1 = false) →
        (kvs.foldl (fun a kv => a.put kv.1 kv.2 ttl) a).Wf := by
      intro kvs
      induction kvs with
      | nil => intro a h _; exact h
      | cons kv kvs ih =>
        intro a h hk
        simp only [List.foldl_cons]
        exact ih _ (wf_put h (hk kv (by simp)) kv.2 ttl) (fun kv' h' => hk kv' (by simp [h']))
    exact this kvs a h (fun kv hkv => hu kv.1 (by simp only [Op.keys, List.mem_map]; exact ⟨kv, hkv, rfl⟩))
  | get k => exact h
  | getMany ks => exact h
  | exists_ k => exact h
  | incr k by_ ttl =>
    have hr := hu k (by simp [Op.keys])
    have hs := wf_seed h hr (k := k)
    simp only [step]
    refine ⟨by rw [TtlMap.incr_now]; exact hs.clock, fun k' hr' => ?_, fun k' hk' => ?_⟩
    · show ((a.seed k).ov.incr k by_ ttl).1.find k' = none
      rw [TtlMap.find_incr_ne _ _ _ _ (fun e => by rw [e, hr] at hr'; exact absurd hr' (by simp))]
      exact hs.ovUser k' hr'
    · simp only [List.mem_filter] at hk'
      exact hs.delUser k' hk'.1
  | delete k => exact wf_delete h (hu k (by simp [Op.keys]))
  | deleteMany ks =>
    simp only [step]
    have : ∀ (ks : List Key) (a : ATx), a.Wf → (∀ k ∈ ks, reserved k = false) → (ks.foldl delete a).Wf := by
      intro ks
      induction ks with
      | nil => intro a h _; exact h
      | cons k ks ih =>
        intro a h hk
        simp only [List.foldl_cons]
        exact ih _ (wf_delete h (hk k (by simp))) (fun k' h' => hk k' (by simp [h']))
    exact this ks a h (fun k hk => hu k (by simpa [Op.keys] using hk))
  | expire k ttl =>
    have hr := hu k (by simp [Op.keys])
    have hw : ∀ v, ({ a with ov := a.ov.write k v ttl } : ATx).Wf := fun v =>
      ⟨h.clock, fun k' hr' => by
        show (a.ov.write k v ttl).find k' = none
        rw [TtlMap.find_write, if_neg (fun e => by rw [e, hr] at hr'; exact absurd hr' (by simp))]
        exact h.ovUser k' hr', h.delUser⟩
    simp only [step]
    split
    · exact h
    · split
      · exact hw _
      · split
        · exact h
        · exact hw _
  | getExpire k => exact h
  | clear =>
    exact ⟨h.clock, fun k _ => by simp [step, TtlMap.find], fun k hk => by simp [step] at hk⟩
  | adv dt =>
    refine ⟨by simp [step, h.clock], fun k hr => ?_, h.delUser⟩
    show ({ a.ov with now := a.ov.now + dt } : TtlMap).find k = none
    rw [TtlMap.find_adv, h.ovUser k hr]; rfl
  | purge => exact h

end ATx
end CashewsVerif
