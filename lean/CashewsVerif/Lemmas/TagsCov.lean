import CashewsVerif.Lemmas.TagsFrame
/-
Lemmas about the tag model, part 3: the coverage relation behind the completeness half of C12.

`Cov s k t`: if key `k` is live then it is a member of the tag set `t`, and that set does not
expire before the key (`DlCovers`: the set has no deadline, or both have one and the key's is not
later).  This is where the max-deadline rule of `set_add` is needed.
-/
namespace CashewsVerif.Tags
open St

/-- the set's deadline `sd` is not earlier than the key's deadline `kd` -/
def DlCovers (sd kd : Option Nat) : Prop := sd = none ∨ ∃ d d', kd = some d ∧ sd = some d' ∧ d ≤ d'

def Cov (s : St) (k t : Nat) : Prop :=
  ∀ e, s.kv k = some e → e.live s.now = true →
    ∃ se, s.ts t = some se ∧ k ∈ members se ∧ DlCovers se.dl e.dl

/-- **the invariant**: every live key whose latest write carried tag `t` is a member of the tag
set `t`, which lives at least as long as the key -/
def CInv (s : St) : Prop := ∀ k t, t ∈ s.last k → Cov s k t

theorem live_of_covers {e se : Entry} {now : Nat} (hl : e.live now = true) (hc : DlCovers se.dl e.dl) :
    se.live now = true := by
  unfold Entry.live at *
  rcases hc with h | ⟨d, d', h1, h2, h3⟩
  · simp [h]
  · simp [h1] at hl
    simp [h2]; omega

/-- a covering set is live, so the set commands see it -/
theorem cov_lm {s : St} {k t : Nat} {e : Entry} (h : Cov s k t) (he : s.kv k = some e) (hl : e.live s.now = true) :
    k ∈ lm s t := by
  obtain ⟨se, h1, h2, h3⟩ := h e he hl
  unfold lm
  rw [liveAt_some h1 (live_of_covers hl h3)]
  exact h2

theorem cov_of_kv_none {s : St} {k t : Nat} (h : s.kv k = none) : Cov s k t := by
  intro e he; simp [h] at he

/-- coverage only depends on `now`, `kv k` and `ts t` -/
theorem cov_congr {s s' : St} {k t : Nat} (hn : s'.now = s.now) (hk : s'.kv k = s.kv k) (ht : s'.ts t = s.ts t)
    (h : Cov s k t) : Cov s' k t := by
  intro e he hl
  rw [hk] at he; rw [hn] at hl
  obtain ⟨se, h1, h2, h3⟩ := h e he hl
  exact ⟨se, by rw [ht]; exact h1, h2, h3⟩

/-! ### `set_add` never breaks coverage and establishes it for the added key -/

theorem cov_setAdd {s : St} {k' t' : Nat} (t k : Nat) (ttl : Option Nat) (h : Cov s k' t') :
    Cov (s.setAdd t k ttl) k' t' := by
  by_cases ht : t' = t
  · subst ht
    intro e he hl
    simp only [setAdd_kv, setAdd_now] at he hl
    obtain ⟨se, h1, h2, h3⟩ := h e he hl
    have hsl := live_of_covers hl h3
    have hcur : liveAt s.now s.ts t' = some se := liveAt_some h1 hsl
    unfold setAdd
    simp only [upd_same, hcur]
    refine ⟨_, rfl, ?_, ?_⟩
    · show k' ∈ insertKey k (members se)
      exact mem_insertKey.mpr (Or.inr h2)
    · rcases h3 with h3 | ⟨d, d', e1, e2, e3⟩
      · left; simp [h3]
      · simp only [e2]
        cases hd : deadlineOf s.now ttl with
        | none => left; rfl
        | some d'' => right; exact ⟨d, max d'' d', e1, rfl, by omega⟩
  · exact cov_congr (s := s) rfl rfl (setAdd_ts_other s k ttl ht) h

theorem cov_setAdd_self {s : St} {k t : Nat} {e : Entry} (ttl : Option Nat) (he : s.kv k = some e)
    (hd : deadlineOf s.now ttl = none ∨ e.dl = deadlineOf s.now ttl) : Cov (s.setAdd t k ttl) k t := by
  intro e' he' _
  simp only [setAdd_kv] at he'
  rw [he] at he'; cases he'
  unfold setAdd
  simp only [upd_same]
  refine ⟨_, rfl, ?_, ?_⟩
  · simp [members, mem_insertKey]
  · cases hc : liveAt s.now s.ts t with
    | none =>
      simp only
      rcases hd with hd | hd
      · left; exact hd
      · cases hx : deadlineOf s.now ttl with
        | none => left; rfl
        | some d => right; exact ⟨d, d, by rw [hd, hx], rfl, Nat.le_refl _⟩
    | some se =>
      simp only
      cases hs : se.dl with
      | none => left; rfl
      | some d =>
        cases hx : deadlineOf s.now ttl with
        | none => left; rfl
        | some d' =>
          right
          rcases hd with hd | hd
          · rw [hx] at hd; cases hd
          · exact ⟨d', max d' d, by rw [hd, hx], rfl, by omega⟩

theorem cov_tagAll {s : St} {k' t' : Nat} (tags : List Nat) (k : Nat) (ttl : Option Nat) (h : Cov s k' t') :
    Cov (s.tagAll tags k ttl) k' t' := by
  induction tags generalizing s with
  | nil => exact h
  | cons t r ih => exact ih (cov_setAdd t k ttl h)

theorem cov_tagAll_self {s : St} {k t : Nat} {e : Entry} (tags : List Nat) (ttl : Option Nat) (he : s.kv k = some e)
    (hd : deadlineOf s.now ttl = none ∨ e.dl = deadlineOf s.now ttl) (ht : t ∈ tags) :
    Cov (s.tagAll tags k ttl) k t := by
  induction tags generalizing s with
  | nil => simp at ht
  | cons t0 r ih =>
    simp only [tagAll, List.foldl_cons]
    by_cases h0 : t = t0
    · subst h0
      exact cov_tagAll r k ttl (cov_setAdd_self ttl he hd)
    · have : t ∈ r := by simpa [h0] using ht
      exact ih (s := s.setAdd t0 k ttl) (by simpa using he) (by simpa using hd) this

/-! ### removing a key from sets, popping, deleting -/

theorem cov_setRemove {s : St} {k' t' : Nat} (t k : Nat) (hne : k' ≠ k) (h : Cov s k' t') :
    Cov (s.setRemove t k) k' t' := by
  by_cases ht : t' = t
  · subst ht
    intro e he hl
    simp only [setRemove_kv, setRemove_now] at he hl
    obtain ⟨se, h1, h2, h3⟩ := h e he hl
    have hcur : liveAt s.now s.ts t' = some se := liveAt_some h1 (live_of_covers hl h3)
    unfold setRemove
    simp only [upd_same, hcur]
    refine ⟨_, rfl, ?_, h3⟩
    show k' ∈ (members se).filter (· ≠ k)
    exact List.mem_filter.mpr ⟨h2, by simpa using hne⟩
  · exact cov_congr (s := s) rfl rfl (setRemove_ts_other s k ht) h

theorem cov_pruneL {s : St} {k' t' : Nat} (l : List Nat) (k : Nat) (hne : k' ≠ k) (h : Cov s k' t') :
    Cov (pruneL l s k) k' t' := by
  induction l generalizing s with
  | nil => exact h
  | cons t r ih => exact ih (cov_setRemove t k hne h)

theorem cov_rawDelete {s : St} {k' t' : Nat} (cfg : Cfg) (k : Nat) (h : Cov s k' t') :
    Cov (s.rawDelete cfg k).1 k' t' := by
  by_cases hk : k' = k
  · subst hk
    exact cov_of_kv_none (by simp [rawDelete_kv])
  · unfold rawDelete
    split
    · exact h
    · rw [prune_eq]
      apply cov_pruneL _ _ hk
      exact cov_congr (s := s) rfl (by simp [upd, hk]) rfl h

theorem cov_touch {s : St} {k' t' : Nat} (cfg : Cfg) (k : Nat) (h : Cov s k' t') : Cov (s.touch cfg k).1 k' t' :=
  touch_preserves (P := fun s => Cov s k' t') cfg s k h (cov_rawDelete cfg k h)

theorem cov_setPop {s : St} {k' t' : Nat} (t c : Nat) (hk : k' ∉ (lm s t).take c ∨ t' ≠ t) (h : Cov s k' t') :
    Cov (s.setPop t c).1 k' t' := by
  by_cases ht : t' = t
  · subst ht
    have hk : k' ∉ (lm s t').take c := by rcases hk with h | h; exact h; exact absurd rfl h
    intro e he hl
    simp only [setPop_kv, setPop_now] at he hl
    obtain ⟨se, h1, h2, h3⟩ := h e he hl
    have hcur : liveAt s.now s.ts t' = some se := liveAt_some h1 (live_of_covers hl h3)
    have hlm : lm s t' = members se := by unfold lm; rw [hcur]; rfl
    unfold setPop
    simp only [upd_same, hcur]
    refine ⟨_, rfl, ?_, h3⟩
    show k' ∈ (members se).drop c
    have : k' ∈ (members se).take c ++ (members se).drop c := by rw [List.take_append_drop]; exact h2
    rcases List.mem_append.mp this with h' | h'
    · rw [hlm] at hk; exact absurd h' hk
    · exact h'
  · exact cov_congr (s := s) rfl rfl (setPop_ts_other s c ht) h

end CashewsVerif.Tags
