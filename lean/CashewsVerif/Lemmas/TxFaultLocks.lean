import CashewsVerif.Lemmas.TxFaultBody
/-
C16: the lock bookkeeping.  Through the body every lock entry carrying this transaction's token is remembered
in the `_locks` of some wrapped backend (`LockInv`); on the way out every wrapped backend gets its
`_unlock_updates` run, whatever fails (`Covered` shrinks to the empty list), so what is left of this
transaction's locks are exactly those whose own `unlock` command was made to fail (`FU`).  The OLD loop of
`Transaction._rollback` (`cfg.rbAll = false`, before 12f0cbb) caught `Exception` only, so an `unlock` that ended with a
BaseException (cancellation) took the task out of the loop and the wrappers after it were never unlocked (`BU`).
-/
namespace CashewsVerif.TxFault

/-- some wrapped backend of `ts` is the wrapper of `b` and remembers lock key `lk` -/
def Holds (ts : List TxB) (b lk : Nat) : Prop := ∃ t ∈ ts, t.bid = b ∧ lk ∈ t.locks

/-- an update of a wrapper that keeps its backend and forgets no lock -/
def Good (f : TxB → TxB) : Prop := ∀ t, (f t).bid = t.bid ∧ ∀ lk, lk ∈ t.locks → lk ∈ (f t).locks

theorem Holds_upsert {f : TxB → TxB} (hf : Good f) (b : Nat) {ts : List TxB} {b' lk : Nat}
    (h : Holds ts b' lk) : Holds (upsert b f ts) b' lk := by
  induction ts with
  | nil => obtain ⟨t, ht, _⟩ := h; cases ht
  | cons t0 rest ih =>
    obtain ⟨t, ht, hb, hl⟩ := h
    unfold upsert
    by_cases h0 : t0.bid = b
    · simp only [h0, if_true]
      rcases List.mem_cons.1 ht with rfl | hm
      · exact ⟨f t, List.mem_cons_self, by rw [(hf t).1]; exact hb, (hf t).2 lk hl⟩
      · exact ⟨t, List.mem_cons_of_mem _ hm, hb, hl⟩
    · simp only [h0, if_false]
      rcases List.mem_cons.1 ht with rfl | hm
      · exact ⟨t, List.mem_cons_self, hb, hl⟩
      · obtain ⟨t', ht', hb', hl'⟩ := ih ⟨t, hm, hb, hl⟩
        exact ⟨t', List.mem_cons_of_mem _ ht', hb', hl'⟩

theorem Holds_upsert_add (b lk : Nat) (ts : List TxB) :
    Holds (upsert b (fun t => { t with locks := t.locks ++ [lk] }) ts) b lk := by
  induction ts with
  | nil => exact ⟨_, List.mem_cons_self, rfl, by simp [TxB.fresh]⟩
  | cons t0 rest ih =>
    unfold upsert
    by_cases h0 : t0.bid = b
    · rw [if_pos h0]
      exact ⟨{ t0 with locks := t0.locks ++ [lk] }, List.mem_cons_self, h0, by simp⟩
    · rw [if_neg h0]
      obtain ⟨t', ht', hb', hl'⟩ := ih
      exact ⟨t', List.mem_cons_of_mem _ ht', hb', hl'⟩

/-! ### through the body -/

/-- the `unlock` of lock key `lk` on backend `b` was issued in this run (index ≥ `c0`) and made to fail -/
def FU (cfg : Cfg) (c0 : Nat) (w : FWorld) (b lk : Nat) : Prop :=
  ∃ i, c0 ≤ i ∧ i < w.counter ∧ cfg.fails i = true ∧ (⟨i, b, .unlock lk, true⟩ : Ev) ∈ w.log

/-- the loop of `_rollback` is the OLD one (`except Exception` only) and some `unlock` command issued in this run
(index ≥ `c0`) was made to fail with an exception of BaseException kind -/
def BU (cfg : Cfg) (c0 : Nat) (w : FWorld) : Prop :=
  cfg.rbAll = false ∧ ∃ i b' lk', c0 ≤ i ∧ i < w.counter ∧ cfg.fails i = true ∧ cfg.base i = true ∧
    (⟨i, b', .unlock lk', true⟩ : Ev) ∈ w.log

/-- the excuse of a lock entry that carries the transaction's token but is remembered by no wrapper any more: its own
`unlock` — issued by an explicit `tx.commit()` / `tx.rollback()` of the body, which empties `_locks` before it unlocks — was
made to fail (or, OLD loop only, `_rollback` was left early) -/
def Exc (cfg : Cfg) (c0 : Nat) (w : FWorld) (b lk : Nat) : Prop := FU cfg c0 w b lk ∨ BU cfg c0 w

theorem Exc.grow {cfg : Cfg} {c0 : Nat} {w w' : FWorld} {b lk : Nat} (h : Exc cfg c0 w b lk)
    (hc : w.counter ≤ w'.counter) (hl : ∀ ev, ev ∈ w.log → ev ∈ w'.log) : Exc cfg c0 w' b lk := by
  rcases h with ⟨i, h1, h2, h3, h4⟩ | ⟨ha, i, b', lk', h1, h2, h3, h4, h5⟩
  · exact Or.inl ⟨i, h1, Nat.lt_of_lt_of_le h2 hc, h3, hl _ h4⟩
  · exact Or.inr ⟨ha, i, b', lk', h1, Nat.lt_of_lt_of_le h2 hc, h3, h4, hl _ h5⟩

/-- inside the block (that started at command `c0`): every lock entry with this transaction's token is remembered by the
wrapper of its backend — or has the excuse that its own unlock was made to fail —, and its deadline is at most
`timeout` ahead -/
def LockInv (cfg : Cfg) (c0 : Nat) (w : FWorld) : Prop :=
  c0 ≤ w.counter ∧ ∃ tx, w.ctx = some tx ∧ ∀ b lk e, alLookup w.locks (b, lk) = some e → e.mine = true →
    (Holds tx.backs b lk ∨ Exc cfg c0 w b lk) ∧ ∃ d, e.dl = some d ∧ d ≤ w.now + cfg.timeout

def RI (cfg : Cfg) (c0 : Nat) (w w' : FWorld) : Prop := LockInv cfg c0 w → LockInv cfg c0 w'

theorem RI.pre (cfg : Cfg) (c0 : Nat) : Pre (RI cfg c0) := ⟨fun _ h => h, fun h1 h2 h => h2 (h1 h)⟩

theorem modB_RI (cfg : Cfg) (c0 : Nat) (b : Nat) {f : TxB → TxB} (hf : Good f) : Rel (RI cfg c0) (modB b f) := by
  intro w hI
  obtain ⟨hc0, tx, hc, h⟩ := hI
  refine ⟨hc0, { tx with backs := upsert b f tx.backs }, by simp [modB, modW, hc], fun b' lk e he hm => ?_⟩
  obtain ⟨hh, hd⟩ := h b' lk e he hm
  exact ⟨hh.imp (Holds_upsert hf b) id, hd⟩

/-- the environment's move before a command keeps the invariant: it only removes foreign entries -/
theorem LockInv_logged (cfg : Cfg) (c0 : Nat) (b : Nat) (c : BCmd) (w : FWorld) (hI : LockInv cfg c0 w) :
    LockInv cfg c0 (logged cfg b c w) := by
  obtain ⟨hc0, tx, hctx, h⟩ := hI
  refine ⟨Nat.le_trans hc0 (Nat.le_succ _), tx, hctx, fun b' lk e he hm => ?_⟩
  obtain ⟨hh, hd⟩ := h b' lk e (logged_locks_sub _ _ _ _ _ _ he) hm
  exact ⟨hh.imp id fun hx => hx.grow (Nat.le_succ _) (fun ev hev => by simp [logged, hev]), hd⟩

/-- a command other than `set_lock` keeps the invariant, failing or not -/
theorem backendCmd_RI (cfg : Cfg) (c0 : Nat) (b : Nat) (c : BCmd) (hc : c.noLock) :
    Rel (RI cfg c0) (backendCmd cfg b c) := by
  intro w hI
  cases hf : cfg.fails w.counter
  · rw [backendCmd_ok cfg b c w hf]
    obtain ⟨hc0, tx, hctx, h⟩ := LockInv_logged cfg c0 b c w hI
    refine ⟨by rw [applyCmd_counter]; exact hc0, tx, by simp [applyCmd_ctx, hctx], fun b' lk e he hm => ?_⟩
    have he' := applyCmd_locks_shrink b c _ hc _ _ he
    obtain ⟨hh, hd⟩ := h b' lk e he' hm
    exact ⟨hh.imp id fun hx => hx.grow (by rw [applyCmd_counter]; exact Nat.le_refl _) (fun ev hev => by rw [applyCmd_log]; exact hev),
      by simpa [applyCmd_now] using hd⟩
  · rw [backendCmd_fail cfg b c w hf]
    exact LockInv_logged cfg c0 b c w hI

/-- `set_lock` either finds the key held and changes nothing, or writes an entry with this transaction's token
and a deadline `ttl` ahead -/
theorem applyCmd_setLock (b lk ttl : Nat) (w : FWorld) :
    applyCmd b (.setLock lk ttl) w = (.bool false, w) ∨
    applyCmd b (.setLock lk ttl) w =
      (.bool true, { w with locks := alPut w.locks (b, lk) ⟨true, some (w.now + ttl)⟩ }) := by
  unfold applyCmd
  simp only
  split
  · split
    · exact Or.inl rfl
    · exact Or.inr rfl
  · exact Or.inr rfl

theorem adv_RI (cfg : Cfg) (c0 dt : Nat) : Rel (RI cfg c0) (modW fun w => { w with now := w.now + dt }) := by
  refine Rel.modW _ fun w hI => ?_
  obtain ⟨hc0, tx, hc, h⟩ := hI
  refine ⟨hc0, tx, hc, fun b lk e he hm => ?_⟩
  obtain ⟨hh, d, hd1, hd2⟩ := h b lk e he hm
  exact ⟨hh, d, hd1, by simp only; omega⟩

/-- the whole wait loop of `_lock_updates` keeps the invariant, whatever the environment releases meanwhile and
however long the lock-steps take: the entry a successful `set_lock` writes is remembered at once -/
theorem lockLoop_RI (cfg : Cfg) (c0 : Nat) (b lk : Nat) (n : Nat) : Rel (RI cfg c0) (lockLoop cfg b lk n) := by
  induction n with
  | zero => exact Rel.throw (RI.pre _ _) _
  | succ n ih =>
    intro w hI
    unfold lockLoop
    simp only [bind_eq, M.bind]
    cases hf : cfg.fails w.counter
    · rw [backendCmd_ok cfg b _ w hf]
      simp only
      have hI' := LockInv_logged cfg c0 b (.setLock lk cfg.timeout) w hI
      generalize logged cfg b (.setLock lk cfg.timeout) w = wl at hI' ⊢
      rcases applyCmd_setLock b lk cfg.timeout wl with hr | hr
      · -- the key is held (live): `set_lock` answered False; one lock-step, retry
        rw [hr]
        simp only [show ¬ (Reply.bool false = Reply.bool true) by decide, if_false]
        exact ih _ (adv_RI cfg c0 cfg.stepDt wl hI')
      · obtain ⟨hc0, tx, hctx, h⟩ := hI'
        rw [hr]
        simp only [if_true]
        refine ⟨hc0, { tx with backs := upsert b (fun t => { t with locks := t.locks ++ [lk] }) tx.backs },
          by simp [modB, modW, hctx], fun b' lk' e he hm => ?_⟩
        simp only [modB, modW, alLookup_put] at he
        split at he
        · rename_i heq
          simp only [Prod.mk.injEq] at heq
          obtain ⟨rfl, rfl⟩ := heq
          simp only [Option.some.injEq] at he
          subst he
          exact ⟨Or.inl (Holds_upsert_add _ _ _), _, rfl, by simp [modB, modW]⟩
        · obtain ⟨hh, d, hd1, hd2⟩ := h b' lk' e he hm
          refine ⟨hh.imp (Holds_upsert (f := fun t => { t with locks := t.locks ++ [lk] })
            (fun t => ⟨rfl, fun l hl => by simp [hl]⟩) b) id, d, hd1, ?_⟩
          simpa [modB, modW] using hd2
    · rw [backendCmd_fail cfg b _ w hf]
      exact LockInv_logged cfg c0 b _ w hI


theorem good_keep {f : TxB → TxB} (h1 : ∀ t, (f t).bid = t.bid) (h2 : ∀ t, (f t).locks = t.locks) : Good f :=
  fun t => ⟨h1 t, fun lk h => by rw [h2 t]; exact h⟩

theorem lockUpdates_RI (cfg : Cfg) (c0 : Nat) (b k : Nat) : Rel (RI cfg c0) (lockUpdates cfg b k) := by
  unfold lockUpdates
  simp only [bind_eq, pure_eq]
  rel_steps (RI.pre cfg c0)
  exact lockLoop_RI _ _ _ _ _

/-- leaves of the `RI` proofs -/
macro "ri_leaf" : tactic => `(tactic| first
  | exact modB_RI _ _ _ (good_keep (fun _ => rfl) (fun _ => rfl))
  | exact backendCmd_RI _ _ _ _ (by trivial)
  | exact lockLoop_RI _ _ _ _ _
  | exact lockUpdates_RI _ _ _ _
  | assumption)

theorem wrap_RI (cfg : Cfg) (c0 b : Nat) : Rel (RI cfg c0) (wrap b) := modB_RI cfg c0 b (good_keep (fun _ => rfl) (fun _ => rfl))

theorem incrSeed_RI (cfg : Cfg) (c0 : Nat) (b k : Nat) : Rel (RI cfg c0) (incrSeed cfg b k) := by
  unfold incrSeed
  simp only [bind_eq, pure_eq]
  rel_steps (RI.pre cfg c0)
  all_goals ri_leaf

theorem txSet_RI (cfg : Cfg) (c0 : Nat) (b k : Nat) (v : Int) (ttl : Option Nat) : Rel (RI cfg c0) (txSet cfg b k v ttl) := by
  unfold txSet
  simp only [bind_eq, pure_eq]
  rel_steps (RI.pre cfg c0)
  all_goals ri_leaf

theorem txIncr_RI (cfg : Cfg) (c0 : Nat) (b k : Nat) (ttl : Option Nat) : Rel (RI cfg c0) (txIncr cfg b k ttl) := by
  unfold txIncr
  simp only [bind_eq, pure_eq]
  rel_steps (RI.pre cfg c0)
  all_goals ri_leaf

theorem txGet_RI (cfg : Cfg) (c0 : Nat) (b k : Nat) : Rel (RI cfg c0) (txGet cfg b k) := by
  unfold txGet
  simp only [bind_eq, pure_eq]
  rel_steps (RI.pre cfg c0)
  all_goals ri_leaf

theorem txDelete_RI (cfg : Cfg) (c0 : Nat) (b k : Nat) : Rel (RI cfg c0) (txDelete cfg b k) := by
  unfold txDelete
  simp only [bind_eq, pure_eq]
  rel_steps (RI.pre cfg c0)
  all_goals ri_leaf

theorem lockAll_RI (cfg : Cfg) (c0 : Nat) (b : Nat) (ks : List Nat) : Rel (RI cfg c0) (lockAll cfg b ks) := by
  induction ks with
  | nil => exact Rel.pure (RI.pre _ _) _
  | cons k rest ih =>
    unfold lockAll
    simp only [bind_eq]
    exact Rel.bind (RI.pre _ _) (lockUpdates_RI _ _ _ _) fun _ => ih

theorem txSetMany_RI (cfg : Cfg) (c0 : Nat) (b : Nat) (kvs : List (Nat × Int)) (ttl : Option Nat) :
    Rel (RI cfg c0) (txSetMany cfg b kvs ttl) := by
  unfold txSetMany
  simp only [bind_eq, pure_eq]
  rel_steps (RI.pre cfg c0)
  all_goals first | exact wrap_RI _ _ _ | exact lockAll_RI _ _ _ _ | ri_leaf

theorem txDelMany_RI (cfg : Cfg) (c0 : Nat) (b : Nat) (ks : List Nat) : Rel (RI cfg c0) (txDelMany cfg b ks) := by
  unfold txDelMany
  simp only [bind_eq, pure_eq]
  rel_steps (RI.pre cfg c0)
  all_goals first | exact wrap_RI _ _ _ | exact lockAll_RI _ _ _ _ | ri_leaf

theorem txExists_RI (cfg : Cfg) (c0 : Nat) (b k : Nat) : Rel (RI cfg c0) (txExists cfg b k) := by
  unfold txExists
  simp only [bind_eq, pure_eq]
  rel_steps (RI.pre cfg c0)
  all_goals ri_leaf

theorem txSetIf_RI (cfg : Cfg) (c0 : Nat) (b k : Nat) (v : Int) (ttl : Option Nat) (ex : Bool) :
    Rel (RI cfg c0) (txSetIf cfg b k v ttl ex) := by
  unfold txSetIf
  simp only [bind_eq, pure_eq]
  rel_steps (RI.pre cfg c0)
  all_goals first | exact wrap_RI _ _ _ | exact txExists_RI _ _ _ _ | ri_leaf

theorem txExpire_RI (cfg : Cfg) (c0 : Nat) (b k ttl : Nat) : Rel (RI cfg c0) (txExpire cfg b k ttl) := by
  unfold txExpire
  simp only [bind_eq, pure_eq]
  rel_steps (RI.pre cfg c0)
  all_goals first | exact wrap_RI _ _ _ | ri_leaf

theorem emit_RI (cfg : Cfg) (c0 : Nat) (r : Reply) : Rel (RI cfg c0) (emit r) := Rel.modW _ fun _ h => h

/-- bumping / taking back the `_inner` of a context object has nothing to do with the locks -/
theorem LockInv_putObj (cfg : Cfg) (c0 : Nat) (w : FWorld) (i : Nat) (v : CtxObj) (h : LockInv cfg c0 w) : LockInv cfg c0 (putObj w i v) := h

/-- a nested block inside the transaction keeps the lock bookkeeping: its `__aexit__` only takes its `_inner` back -/
theorem blockOn_RI (cfg : Cfg) (c0 : Nat) (o : Option Nat) {inner : M Unit} (hin : Rel (RI cfg c0) inner) (hk : Rel RInK inner) :
    Rel (RI cfg c0) (blockOn cfg o inner) := by
  intro w hI
  have hs : w.ctx.isSome = true := by obtain ⟨_, tx, hc, _⟩ := hI; rw [hc]; rfl
  obtain ⟨t, ht⟩ := Option.isSome_iff_exists.1 hs
  unfold blockOn
  cases o with
  | none =>
    have he : enterOn none w = (true, w) := by simp [enterOn, ht]
    rw [he]
    have h1 := hin w hI
    generalize inner w = p at h1
    obtain ⟨r, w2⟩ := p
    cases r <;> simp only [exitOn, if_true] <;> exact h1
  | some i =>
    have he : enterOn (some i) w = (true, putObj w i { objOf w i with inner := (objOf w i).inner + 1 }) := by
      simp [enterOn, ht]
    rw [he]
    generalize hw1 : putObj w i { objOf w i with inner := (objOf w i).inner + 1 } = w1
    have hI1 : LockInv cfg c0 w1 := by rw [← hw1]; exact LockInv_putObj _ _ _ _ _ hI
    have ho1 : objOf w1 i = { objOf w i with inner := (objOf w i).inner + 1 } := by
      rw [← hw1, objOf_putObj, if_pos rfl]
    have hI2 := hin w1 hI1
    obtain ⟨_, ho2, _⟩ := hk w1 (by obtain ⟨_, tx, hc, _⟩ := hI1; rw [hc]; rfl)
    have hexit : ∀ exc, exitOn cfg (some i) true exc (inner w1).2 =
        (.ok (), putObj (inner w1).2 i { objOf (inner w1).2 i with inner := (objOf (inner w1).2 i).inner - 1 }) := by
      intro exc
      have : (objOf (inner w1).2 i).inner ≠ 0 := by rw [ho2 i, ho1]; simp
      simp only [exitOn, this, ne_eq, not_false_eq_true, if_true]
    have hfin := LockInv_putObj cfg c0 (inner w1).2 i
      { objOf (inner w1).2 i with inner := (objOf (inner w1).2 i).inner - 1 } hI2
    generalize hp : inner w1 = p at hexit hfin
    obtain ⟨r, w2⟩ := p
    cases r with
    | ok a => simp only; rw [hexit false]; exact hfin
    | err e => simp only; rw [hexit true]; exact hfin

/-! ### on the way out -/

/-- commit / rollback steps: counter and log grow, the clock stands, lock stores only lose entries -/
def RExit (w w' : FWorld) : Prop :=
  w.counter ≤ w'.counter ∧ (∀ ev, ev ∈ w.log → ev ∈ w'.log) ∧ w'.now = w.now ∧
  (∀ key e, alLookup w'.locks key = some e → alLookup w.locks key = some e)

theorem RExit.pre : Pre RExit :=
  ⟨fun _ => ⟨Nat.le_refl _, fun _ h => h, rfl, fun _ _ h => h⟩,
   fun h1 h2 => ⟨Nat.le_trans h1.1 h2.1, fun ev h => h2.2.1 ev (h1.2.1 ev h), h2.2.2.1.trans h1.2.2.1,
     fun k e h => h1.2.2.2 k e (h2.2.2.2 k e h)⟩⟩

theorem FU.mono {cfg : Cfg} {c0 : Nat} {w w' : FWorld} {b lk : Nat} (h : FU cfg c0 w b lk) (hr : RExit w w') :
    FU cfg c0 w' b lk := by
  obtain ⟨i, h1, h2, h3, h4⟩ := h
  exact ⟨i, h1, Nat.lt_of_lt_of_le h2 hr.1, h3, hr.2.1 _ h4⟩

theorem backendCmd_RExit (cfg : Cfg) (b : Nat) (c : BCmd) (hc : c.noLock) : Rel RExit (backendCmd cfg b c) := by
  intro w
  cases hf : cfg.fails w.counter
  · rw [backendCmd_ok cfg b c w hf]
    refine ⟨by simp [applyCmd_counter, logged], fun ev h => ?_, by simp [applyCmd_now, logged], fun k e h => ?_⟩
    · simp [applyCmd_log, logged, h]
    · exact logged_locks_sub _ _ _ _ _ _ (applyCmd_locks_shrink b c (logged cfg b c w) hc k e h)
  · rw [backendCmd_fail cfg b c w hf]
    exact ⟨by simp [logged], fun ev h => by simp [logged, h], rfl, fun _ _ h => logged_locks_sub _ _ _ _ _ _ h⟩

theorem closeOn_RExit (o : Option Nat) : Rel RExit (closeOn o) := by
  refine Rel.modW _ fun w => ?_
  cases o <;> exact RExit.pre.refl _

theorem gatherUnlock_RExit (cfg : Cfg) (b : Nat) (ls : List Nat) : Rel RExit (gatherUnlock cfg b ls) := by
  induction ls with
  | nil => exact Rel.pure RExit.pre _
  | cons lk rest ih =>
    intro w
    rw [gatherUnlock_snd]
    exact RExit.pre.trans (backendCmd_RExit cfg b (.unlock lk) trivial w) (ih _)

/-- lock key `lk` of backend `b` does not carry this transaction's token (any more) -/
def Released (w : FWorld) (b lk : Nat) : Prop := ∀ e, alLookup w.locks (b, lk) = some e → e.mine = false

theorem Released.mono {w w' : FWorld} {b lk : Nat} (h : Released w b lk) (hr : RExit w w') : Released w' b lk :=
  fun e he => h e (hr.2.2.2 _ _ he)

/-- an `unlock` that took effect leaves no entry with this transaction's token under its key -/
theorem applyCmd_unlock_released (b lk : Nat) (wl : FWorld) (e : LEntry)
    (he : alLookup (applyCmd b (.unlock lk) wl).2.locks (b, lk) = some e) : e.mine = false := by
  unfold applyCmd at he
  simp only at he
  split at he
  · rename_i hnone
    simp [hnone] at he
  · rename_i e0 hsome
    split at he
    · simp at he
    · split at he
      · simp at he
      · rename_i hmine
        simp only [hsome, Option.some.injEq] at he
        subst he
        simpa using hmine

/-- one `unlock`: the entry is gone (or was never ours), or that very command was made to fail -/
theorem unlock_spec (cfg : Cfg) (c0 b lk : Nat) (w : FWorld) (hc : c0 ≤ w.counter) :
    Released (backendCmd cfg b (.unlock lk) w).2 b lk ∨ FU cfg c0 (backendCmd cfg b (.unlock lk) w).2 b lk := by
  cases hf : cfg.fails w.counter
  · left
    rw [backendCmd_ok cfg b _ w hf]
    intro e he
    exact applyCmd_unlock_released b lk _ e he
  · right
    rw [backendCmd_fail cfg b _ w hf]
    exact ⟨w.counter, hc, by simp [logged], hf, by simp [logged, hf]⟩

theorem gatherUnlock_spec (cfg : Cfg) (c0 b : Nat) (ls : List Nat) (w : FWorld) (hc : c0 ≤ w.counter) :
    ∀ lk ∈ ls, Released (gatherUnlock cfg b ls w).2 b lk ∨ FU cfg c0 (gatherUnlock cfg b ls w).2 b lk := by
  induction ls generalizing w with
  | nil => intro lk h; cases h
  | cons l rest ih =>
    intro lk hlk
    rw [gatherUnlock_snd]
    have hstep := backendCmd_RExit cfg b (.unlock l) trivial w
    have hrest := gatherUnlock_RExit cfg b rest (backendCmd cfg b (.unlock l) w).2
    rcases List.mem_cons.1 hlk with rfl | hm
    · rcases unlock_spec cfg c0 b lk w hc with h | h
      · exact Or.inl (h.mono hrest)
      · exact Or.inr (h.mono hrest)
    · exact ih _ (Nat.le_trans hc hstep.1) lk hm

theorem mem_unlockOrder (uprio : List (Nat × Nat)) (b : Nat) (ls : List Nat) (lk : Nat) (h : lk ∈ ls) :
    lk ∈ unlockOrder uprio b ls := by
  unfold unlockOrder
  simp only [List.mem_append, List.mem_filter]
  by_cases hp : lk ∈ (uprio.filter fun p => p.1 = b ∧ p.2 ∈ ls).map (·.2)
  · exact Or.inl hp
  · exact Or.inr ⟨h, by simpa using hp⟩

theorem BU.mono {cfg : Cfg} {c0 : Nat} {w w' : FWorld} (h : BU cfg c0 w) (hr : RExit w w') : BU cfg c0 w' := by
  obtain ⟨ha, i, b', lk', h1, h2, h3, h4, h5⟩ := h
  exact ⟨ha, i, b', lk', h1, Nat.lt_of_lt_of_le h2 hr.1, h3, h4, hr.2.1 _ h5⟩

/-- what is still ours in the lock stores is remembered by a wrapper still to be processed, or its unlock failed, or
`_rollback` was left by a BaseException -/
def Covered (cfg : Cfg) (c0 : Nat) (ts : List TxB) (w : FWorld) : Prop :=
  ∀ b lk e, alLookup w.locks (b, lk) = some e → e.mine = true → Holds ts b lk ∨ FU cfg c0 w b lk ∨ BU cfg c0 w

theorem Covered.mono {cfg : Cfg} {c0 : Nat} {ts : List TxB} {w w' : FWorld} (h : Covered cfg c0 ts w)
    (hr : RExit w w') : Covered cfg c0 ts w' := by
  intro b lk e he hm
  rcases h b lk e (hr.2.2.2 _ _ he) hm with h1 | h1 | h1
  · exact Or.inl h1
  · exact Or.inr (Or.inl (h1.mono hr))
  · exact Or.inr (Or.inr (h1.mono hr))

theorem unlockUpdates_RExit (cfg : Cfg) (t : TxB) : Rel RExit (unlockUpdates cfg t) :=
  fun w => gatherUnlock_RExit _ _ _ w

/-- `_unlock_updates` of one wrapper discharges that wrapper -/
theorem unlockUpdates_cov (cfg : Cfg) (c0 : Nat) (t : TxB) (ts : List TxB) (w : FWorld) (hc : c0 ≤ w.counter)
    (h : Covered cfg c0 (t :: ts) w) : Covered cfg c0 ts (unlockUpdates cfg t w).2 := by
  intro b lk e he hm
  have hr := unlockUpdates_RExit cfg t w
  rcases h b lk e (hr.2.2.2 _ _ he) hm with h1 | h1 | h1
  · obtain ⟨t', ht', hb, hl⟩ := h1
    rcases List.mem_cons.1 ht' with rfl | hmem
    · subst hb
      rcases gatherUnlock_spec cfg c0 t'.bid _ w hc lk (mem_unlockOrder ((cfg.uprio.drop (unlocksSoFar w.log)).take t'.locks.length) t'.bid _ lk hl) with h2 | h2
      · have := h2 e he
        rw [hm] at this
        cases this
      · exact Or.inr (Or.inl h2)
    · exact Or.inl ⟨t', hmem, hb, hl⟩
  · exact Or.inr (Or.inl (h1.mono hr))
  · exact Or.inr (Or.inr (h1.mono hr))

theorem runCmds_RExit (cfg : Cfg) (b : Nat) (cs : List BCmd) (h : ∀ c ∈ cs, c.noLock) : Rel RExit (runCmds cfg b cs) := by
  induction cs with
  | nil => exact Rel.pure RExit.pre _
  | cons c rest ih =>
    unfold runCmds
    simp only [bind_eq]
    exact Rel.bind RExit.pre (backendCmd_RExit cfg b c (h c List.mem_cons_self)) fun _ =>
      ih fun c' hc' => h c' (List.mem_cons_of_mem _ hc')

theorem commitCmds_noLock (now : Nat) (t : TxB) : ∀ c ∈ commitCmds now t, c.noLock := by
  intro c hc
  unfold commitCmds at hc
  simp only [List.mem_append, List.mem_map] at hc
  rcases hc with hc | ⟨g, _, rfl⟩
  · split at hc
    · cases hc
    · rw [List.mem_singleton] at hc; subst hc; trivial
  · trivial

theorem baseCommit_RExit (cfg : Cfg) (t : TxB) : Rel RExit (baseCommit cfg t) := by
  unfold baseCommit
  simp only [bind_eq]
  exact Rel.bind RExit.pre (Rel.getW RExit.pre) fun w => runCmds_RExit _ _ _ (commitCmds_noLock _ _)

theorem commitOne_RExit (cfg : Cfg) (t : TxB) : Rel RExit (commitOne cfg t) :=
  Rel.tryFinally RExit.pre (baseCommit_RExit cfg t) (unlockUpdates_RExit cfg t)

theorem rollbackOne_RExit (cfg : Cfg) (t : TxB) : Rel RExit (rollbackOne cfg t) :=
  Rel.tryFinally RExit.pre (Rel.pure RExit.pre _) (unlockUpdates_RExit cfg t)

theorem commitOne_cov (cfg : Cfg) (c0 : Nat) (t : TxB) (ts : List TxB) (w : FWorld) (hc : c0 ≤ w.counter)
    (h : Covered cfg c0 (t :: ts) w) : Covered cfg c0 ts (commitOne cfg t w).2 := by
  unfold commitOne
  rw [tryFinally_snd]
  have hr := baseCommit_RExit cfg t w
  exact unlockUpdates_cov cfg c0 t ts _ (Nat.le_trans hc hr.1) (h.mono hr)

theorem rollbackOne_cov (cfg : Cfg) (c0 : Nat) (t : TxB) (ts : List TxB) (w : FWorld) (hc : c0 ≤ w.counter)
    (h : Covered cfg c0 (t :: ts) w) : Covered cfg c0 ts (rollbackOne cfg t w).2 := by
  unfold rollbackOne
  rw [tryFinally_snd]
  exact unlockUpdates_cov cfg c0 t ts _ hc h

theorem rollbackList_RExit (cfg : Cfg) (ts : List TxB) (w : FWorld) : RExit w (rollbackList cfg ts w).2 := by
  induction ts generalizing w with
  | nil => exact RExit.pre.refl w
  | cons t rest ih =>
    rcases rollbackList_snd cfg t rest w with h | ⟨h, _⟩ <;> rw [h]
    · exact RExit.pre.trans (rollbackOne_RExit cfg t w) (ih _)
    · exact rollbackOne_RExit cfg t w

/-- an exception that leaves the `gather` of the unlocks is the fault of one of them -/
theorem gatherUnlock_err (cfg : Cfg) (b : Nat) (ls : List Nat) (w : FWorld) (e : Err)
    (h : (gatherUnlock cfg b ls w).1 = .err e) :
    ∃ i lk, w.counter ≤ i ∧ i < (gatherUnlock cfg b ls w).2.counter ∧ cfg.fails i = true ∧
      e = .fault i (cfg.kindAt i) ∧ (⟨i, b, .unlock lk, true⟩ : Ev) ∈ (gatherUnlock cfg b ls w).2.log := by
  induction ls generalizing w with
  | nil => simp [gatherUnlock, pure_eq, M.pure] at h
  | cons lk rest ih =>
    have hstep := backendCmd_RExit cfg b (.unlock lk) trivial w
    have hrest := gatherUnlock_RExit cfg b rest (backendCmd cfg b (.unlock lk) w).2
    rw [gatherUnlock_snd]
    cases hf : cfg.fails w.counter with
    | false =>
      have hok := backendCmd_ok cfg b (.unlock lk) w hf
      simp only [gatherUnlock, hok] at h
      rw [hok] at hstep ⊢
      generalize (applyCmd b (.unlock lk) (logged cfg b (.unlock lk) w)).2 = w1 at h hstep ⊢
      have := ih w1 (by
        generalize gatherUnlock cfg b rest w1 = q at h
        obtain ⟨r2, w2⟩ := q
        exact h)
      obtain ⟨i, lk', h1, h2, h3, h4, h5⟩ := this
      exact ⟨i, lk', Nat.le_trans hstep.1 h1, h2, h3, h4, h5⟩
    | true =>
      have hbad := backendCmd_fail cfg b (.unlock lk) w hf
      simp only [gatherUnlock, hbad] at h
      rw [hbad] at hrest ⊢
      have he : e = .fault w.counter (cfg.kindAt w.counter) := by
        generalize gatherUnlock cfg b rest (logged cfg b (.unlock lk) w) = q at h
        obtain ⟨r2, w2⟩ := q
        simp only [Res.err.injEq] at h
        exact h.symm
      refine ⟨w.counter, lk, Nat.le_refl _, Nat.lt_of_lt_of_le (by simp [logged]) hrest.1, hf, he, hrest.2.1 _ ?_⟩
      simp [logged, hf]

/-- an exception that leaves the rollback of one wrapped backend is the fault of one of its unlocks -/
theorem rollbackOne_err (cfg : Cfg) (t : TxB) (w : FWorld) (e : Err) (h : (rollbackOne cfg t w).1 = .err e) :
    ∃ i lk, w.counter ≤ i ∧ i < (rollbackOne cfg t w).2.counter ∧ cfg.fails i = true ∧
      e = .fault i (cfg.kindAt i) ∧ (⟨i, t.bid, .unlock lk, true⟩ : Ev) ∈ (rollbackOne cfg t w).2.log := by
  have hw : (rollbackOne cfg t w).2 = (unlockUpdates cfg t w).2 := by
    unfold rollbackOne; rw [tryFinally_snd]; rfl
  have hr : (unlockUpdates cfg t w).1 = .err e := by
    unfold rollbackOne tryFinally at h
    simp only [M.pure] at h
    generalize unlockUpdates cfg t w = q at h ⊢
    obtain ⟨r2, w2⟩ := q
    cases r2 with
    | ok a => simp at h
    | err e' => simpa using h
  rw [hw]
  exact gatherUnlock_err cfg t.bid _ w e hr

theorem isBase_fault (cfg : Cfg) (i : Nat) (h : (Err.fault i (cfg.kindAt i)).isBase = true) : cfg.base i = true := by
  unfold Cfg.kindAt at h
  cases hb : cfg.base i with
  | true => rfl
  | false => simp [hb, Err.isBase] at h

/-- **what `_rollback` leaves behind**: every wrapped backend is discharged, or the loop was left by a BaseException -/
theorem rollbackList_cov (cfg : Cfg) (c0 : Nat) (ts : List TxB) (w : FWorld) (hc : c0 ≤ w.counter)
    (h : Covered cfg c0 ts w) : Covered cfg c0 [] (rollbackList cfg ts w).2 := by
  induction ts generalizing w with
  | nil => exact h
  | cons t rest ih =>
    have h1 := rollbackOne_cov cfg c0 t rest w hc h
    rcases rollbackList_snd cfg t rest w with hs | ⟨hs, hall, e, he, hb⟩ <;> rw [hs]
    · exact ih _ (Nat.le_trans hc (rollbackOne_RExit cfg t w).1) h1
    · -- the loop is left: whatever the remaining wrappers remember stays
      obtain ⟨i, lk', hi1, hi2, hi3, hi4, hi5⟩ := rollbackOne_err cfg t w e he
      have hbu : BU cfg c0 (rollbackOne cfg t w).2 :=
        ⟨hall, i, t.bid, lk', Nat.le_trans hc hi1, hi2, hi3, isBase_fault cfg i (hi4 ▸ hb), hi5⟩
      intro b lk en hen hm
      rcases h1 b lk en hen hm with h2 | h2 | h2
      · exact Or.inr (Or.inr hbu)
      · exact Or.inr (Or.inl h2)
      · exact Or.inr (Or.inr h2)

theorem commitLoop_RExit (cfg : Cfg) (ts : List TxB) (w : FWorld) : RExit w (commitLoop cfg ts w).2 := by
  induction ts generalizing w with
  | nil => exact RExit.pre.refl w
  | cons t rest ih =>
    rcases commitLoop_snd cfg t rest w with h | h <;> rw [h]
    · exact RExit.pre.trans (commitOne_RExit cfg t w) (ih _)
    · exact RExit.pre.trans (commitOne_RExit cfg t w) (rollbackList_RExit cfg rest _)

/-- **every wrapped backend is discharged by `Transaction.commit`, whatever fails**: a failing commit rolls the
remaining ones back -/
theorem commitLoop_cov (cfg : Cfg) (c0 : Nat) (ts : List TxB) (w : FWorld) (hc : c0 ≤ w.counter)
    (h : Covered cfg c0 ts w) : Covered cfg c0 [] (commitLoop cfg ts w).2 := by
  induction ts generalizing w with
  | nil => exact h
  | cons t rest ih =>
    have h1 := commitOne_cov cfg c0 t rest w hc h
    have hc1 := Nat.le_trans hc (commitOne_RExit cfg t w).1
    rcases commitLoop_snd cfg t rest w with h' | h' <;> rw [h']
    · exact ih _ hc1 h1
    · exact rollbackList_cov cfg c0 rest _ hc1 h1

/-! ### explicit `tx.commit()` / `tx.rollback()` in the body, and the body as a whole -/

theorem Holds_nil (b lk : Nat) : ¬ Holds [] b lk := fun ⟨_, ht, _⟩ => by cases ht

/-- after the wrappers have been run through commit / rollback (`Covered … []`) and emptied, the invariant holds again:
whatever still carries the transaction's token has the excuse that its own unlock failed -/
theorem LockInv_of_cov (cfg : Cfg) (c0 : Nat) (w w1 : FWorld) (hI : LockInv cfg c0 w) (hr : RExit w w1)
    (hs : w1.ctx.isSome = true) (hcov : Covered cfg c0 [] w1) (f : Tx → Tx) :
    LockInv cfg c0 { w1 with ctx := w1.ctx.map f } := by
  obtain ⟨hc0, tx, hctx, h⟩ := hI
  obtain ⟨tx1, htx1⟩ := Option.isSome_iff_exists.1 hs
  refine ⟨Nat.le_trans hc0 hr.1, f tx1, by simp [htx1], fun b lk e he hm => ?_⟩
  refine ⟨?_, ?_⟩
  · rcases hcov b lk e he hm with h1 | h1
    · exact absurd h1 (Holds_nil b lk)
    · exact Or.inr h1
  · obtain ⟨d, hd1, hd2⟩ := (h b lk e (hr.2.2.2 _ _ he) hm).2
    exact ⟨d, hd1, by show d ≤ w1.now + cfg.timeout; rw [hr.2.2.1]; exact hd2⟩

/-- `await tx.commit()` in the body: every wrapper's `_unlock_updates` ran; the locks it took are released or their own
unlock was made to fail -/
theorem txCommitNow_RI (cfg : Cfg) (c0 : Nat) : Rel (RI cfg c0) (txCommitNow cfg) := by
  intro w hI
  obtain ⟨hc0, tx, hctx, h⟩ := hI
  unfold txCommitNow
  simp only [hctx]
  have hcov : Covered cfg c0 tx.backs w := fun b lk e he hm => (h b lk e he hm).1
  have h1 := commitLoop_cov cfg c0 tx.backs w hc0 hcov
  have hr := commitLoop_RExit cfg tx.backs w
  have hk := (commitLoop_RK cfg tx.backs w).1
  generalize commitLoop cfg tx.backs w = p at h1 hr hk
  obtain ⟨r, w1⟩ := p
  exact LockInv_of_cov cfg c0 w w1 ⟨hc0, tx, hctx, h⟩ hr (by rw [hk, hctx]; rfl) h1 _

/-- `await tx.rollback()` in the body -/
theorem txRollbackNow_RI (cfg : Cfg) (c0 : Nat) : Rel (RI cfg c0) (txRollbackNow cfg) := by
  intro w hI
  obtain ⟨hc0, tx, hctx, h⟩ := hI
  unfold txRollbackNow
  simp only [hctx]
  have hcov : Covered cfg c0 tx.backs w := fun b lk e he hm => (h b lk e he hm).1
  have h1 := rollbackList_cov cfg c0 tx.backs w hc0 hcov
  have hr := rollbackList_RExit cfg tx.backs w
  have hk := (rollbackList_RK cfg tx.backs w).1
  rw [← txRollback_snd] at h1 hr hk
  generalize txRollback cfg tx.backs w = p at h1 hr hk
  obtain ⟨r, w1⟩ := p
  exact LockInv_of_cov cfg c0 w w1 ⟨hc0, tx, hctx, h⟩ hr (by rw [hk, hctx]; rfl) h1 _

mutual
theorem bodyStep_RI (cfg : Cfg) (c0 : Nat) : (c : BodyCmd) → Rel (RI cfg c0) (bodyStep cfg c)
  | .set .. => by unfold bodyStep; exact Rel.bind (RI.pre _ _) (txSet_RI _ _ _ _ _ _) fun _ => emit_RI _ _ _
  | .incr .. => by unfold bodyStep; exact Rel.bind (RI.pre _ _) (txIncr_RI _ _ _ _ _) fun _ => emit_RI _ _ _
  | .get .. => by unfold bodyStep; exact Rel.bind (RI.pre _ _) (txGet_RI _ _ _ _) fun _ => emit_RI _ _ _
  | .delete .. => by unfold bodyStep; exact Rel.bind (RI.pre _ _) (txDelete_RI _ _ _ _) fun _ => emit_RI _ _ _
  | .adv _ => by unfold bodyStep; exact adv_RI _ _ _
  | .raise => by unfold bodyStep; exact Rel.throw (RI.pre _ _) _
  | .setMany .. => by unfold bodyStep; exact Rel.bind (RI.pre _ _) (txSetMany_RI _ _ _ _ _) fun _ => emit_RI _ _ _
  | .delMany .. => by unfold bodyStep; exact Rel.bind (RI.pre _ _) (txDelMany_RI _ _ _ _) fun _ => emit_RI _ _ _
  | .expire .. => by unfold bodyStep; exact Rel.bind (RI.pre _ _) (txExpire_RI _ _ _ _ _) fun _ => emit_RI _ _ _
  | .setIf .. => by unfold bodyStep; exact Rel.bind (RI.pre _ _) (txSetIf_RI _ _ _ _ _ _ _) fun _ => emit_RI _ _ _
  | .block o body => by unfold bodyStep; exact blockOn_RI cfg c0 o (runBody_RI cfg c0 body) (runBody_RInK cfg body)
  | .commit => by unfold bodyStep; exact txCommitNow_RI cfg c0
  | .rollback => by unfold bodyStep; exact txRollbackNow_RI cfg c0

theorem runBody_RI (cfg : Cfg) (c0 : Nat) : (body : List BodyCmd) → Rel (RI cfg c0) (runBody cfg body)
  | [] => by unfold runBody; exact Rel.pure (RI.pre _ _) _
  | c :: rest => by unfold runBody; exact Rel.bind (RI.pre _ _) (bodyStep_RI cfg c0 c) fun _ => runBody_RI cfg c0 rest
end

end CashewsVerif.TxFault
