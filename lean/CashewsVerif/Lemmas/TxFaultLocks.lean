import CashewsVerif.Lemmas.TxFaultBody
/-
C16: the lock bookkeeping.  Through the body every lock entry carrying this transaction's token is remembered
in the `_locks` of some wrapped backend (`LockInv`); on the way out every wrapped backend gets its
`_unlock_updates` run, whatever fails (`Covered` shrinks to the empty list), so what is left of this
transaction's locks are exactly those whose own `unlock` command was made to fail (`FU`).  The OLD loop of
`Transaction._rollback` (`cfg.rbAll = false`, before 12f0cbb) caught `Exception` only, so an `unlock` that ended with a
BaseException (cancellation) took the task out of the loop and the wrappers after it were never unlocked (`BU`).
-/
namespace CashewsVerif.TxFault

/-- some wrapped backend of `ts` is the wrapper of `b` and remembers lock key `lk` -/
def Holds (ts : List TxB) (b lk : Nat) : Prop := ∃ t ∈ ts, t.bid = b ∧ lk ∈ t.locks

/-- an update of a wrapper that keeps its backend and forgets no lock -/
def Good (f : TxB → TxB) : Prop := ∀ t, (f t).bid = t.bid ∧ ∀ lk, lk ∈ t.locks → lk ∈ (f t).locks

theorem Holds_upsert {f : TxB → TxB} (hf : Good f) (b : Nat) {ts : List TxB} {b' lk : Nat}
    (h : Holds ts b' lk) : Holds (upsert b f ts) b' lk := by
  induction ts with
  | nil => obtain ⟨t, ht, _⟩ := h; cases ht
  | cons t0 rest ih =>
    obtain ⟨t, ht, hb, hl⟩ := h
    unfold upsert
    by_cases h0 : t0.bid = b
    · simp only [h0, if_true]
      rcases List.mem_cons.1 ht with rfl | hm
      · exact ⟨f t, List.mem_cons_self, by rw [(hf t).1]; exact hb, (hf t).2 lk hl⟩
      · exact ⟨t, List.mem_cons_of_mem _ hm, hb, hl⟩
    · simp only [h0, if_false]
      rcases List.mem_cons.1 ht with rfl | hm
      · exact ⟨t, List.mem_cons_self, hb, hl⟩
      · obtain ⟨t', ht', hb', hl'⟩ := ih ⟨t, hm, hb, hl⟩
        exact ⟨t', List.mem_cons_of_mem _ ht', hb', hl'⟩

theorem Holds_upsert_add (b lk : Nat) (ts : List TxB) :
    Holds (upsert b (fun t => { t with locks := t.locks ++ [lk] }) ts) b lk := by
  induction ts with
  | nil => exact ⟨_, List.mem_cons_self, rfl, by simp [TxB.fresh]⟩
  | cons t0 rest ih =>
    unfold upsert
    by_cases h0 : t0.bid = b
    · rw [if_pos h0]
      exact ⟨{ t0 with locks := t0.locks ++ [lk] }, List.mem_cons_self, h0, by simp⟩
    · rw [if_neg h0]
      obtain ⟨t', ht', hb', hl'⟩ := ih
      exact ⟨t', List.mem_cons_of_mem _ ht', hb', hl'⟩

/-! ### through the body -/

/-- inside the block: every lock entry with this transaction's token is remembered by the wrapper of its
backend, and its deadline is at most `T` ahead -/
def LockInv (T : Nat) (w : FWorld) : Prop :=
  ∃ tx, w.ctx = some tx ∧ ∀ b lk e, alLookup w.locks (b, lk) = some e → e.mine = true →
    Holds tx.backs b lk ∧ ∃ d, e.dl = some d ∧ d ≤ w.now + T

def RI (T : Nat) (w w' : FWorld) : Prop := LockInv T w → LockInv T w'

theorem RI.pre (T : Nat) : Pre (RI T) := ⟨fun _ h => h, fun h1 h2 h => h2 (h1 h)⟩

theorem modB_RI (T : Nat) (b : Nat) {f : TxB → TxB} (hf : Good f) : Rel (RI T) (modB b f) := by
  intro w hI
  obtain ⟨tx, hc, h⟩ := hI
  refine ⟨{ tx with backs := upsert b f tx.backs }, by simp [modB, modW, hc], fun b' lk e he hm => ?_⟩
  obtain ⟨hh, hd⟩ := h b' lk e he hm
  exact ⟨Holds_upsert hf b hh, hd⟩

/-- the environment's move before a command keeps the invariant: it only removes foreign entries -/
theorem LockInv_logged (T : Nat) (cfg : Cfg) (b : Nat) (c : BCmd) (w : FWorld) (hI : LockInv T w) :
    LockInv T (logged cfg b c w) := by
  obtain ⟨tx, hctx, h⟩ := hI
  exact ⟨tx, hctx, fun b' lk e he hm => h b' lk e (logged_locks_sub _ _ _ _ _ _ he) hm⟩

/-- a command other than `set_lock` keeps the invariant, failing or not -/
theorem backendCmd_RI (T : Nat) (cfg : Cfg) (b : Nat) (c : BCmd) (hc : c.noLock) :
    Rel (RI T) (backendCmd cfg b c) := by
  intro w hI
  cases hf : cfg.fails w.counter
  · rw [backendCmd_ok cfg b c w hf]
    obtain ⟨tx, hctx, h⟩ := LockInv_logged T cfg b c w hI
    refine ⟨tx, by simp [applyCmd_ctx, hctx], fun b' lk e he hm => ?_⟩
    have he' := applyCmd_locks_shrink b c _ hc _ _ he
    simpa [applyCmd_now] using h b' lk e he' hm
  · rw [backendCmd_fail cfg b c w hf]
    exact LockInv_logged T cfg b c w hI

/-- `set_lock` either finds the key held and changes nothing, or writes an entry with this transaction's token
and a deadline `ttl` ahead -/
theorem applyCmd_setLock (b lk ttl : Nat) (w : FWorld) :
    applyCmd b (.setLock lk ttl) w = (.bool false, w) ∨
    applyCmd b (.setLock lk ttl) w =
      (.bool true, { w with locks := alPut w.locks (b, lk) ⟨true, some (w.now + ttl)⟩ }) := by
  unfold applyCmd
  simp only
  split
  · split
    · exact Or.inl rfl
    · exact Or.inr rfl
  · exact Or.inr rfl

theorem adv_RI (T dt : Nat) : Rel (RI T) (modW fun w => { w with now := w.now + dt }) := by
  refine Rel.modW _ fun w hI => ?_
  obtain ⟨tx, hc, h⟩ := hI
  refine ⟨tx, hc, fun b lk e he hm => ?_⟩
  obtain ⟨hh, d, hd1, hd2⟩ := h b lk e he hm
  exact ⟨hh, d, hd1, by simp only; omega⟩

/-- the whole wait loop of `_lock_updates` keeps the invariant, whatever the environment releases meanwhile and
however long the lock-steps take: the entry a successful `set_lock` writes is remembered at once -/
theorem lockLoop_RI (cfg : Cfg) (b lk : Nat) (n : Nat) : Rel (RI cfg.timeout) (lockLoop cfg b lk n) := by
  induction n with
  | zero => exact Rel.throw (RI.pre _) _
  | succ n ih =>
    intro w hI
    unfold lockLoop
    simp only [bind_eq, M.bind]
    cases hf : cfg.fails w.counter
    · rw [backendCmd_ok cfg b _ w hf]
      simp only
      have hI' := LockInv_logged cfg.timeout cfg b (.setLock lk cfg.timeout) w hI
      generalize logged cfg b (.setLock lk cfg.timeout) w = wl at hI' ⊢
      rcases applyCmd_setLock b lk cfg.timeout wl with hr | hr
      · -- the key is held (live): `set_lock` answered False; one lock-step, retry
        rw [hr]
        simp only [show ¬ (Reply.bool false = Reply.bool true) by decide, if_false]
        exact ih _ (adv_RI cfg.timeout cfg.stepDt wl hI')
      · obtain ⟨tx, hctx, h⟩ := hI'
        rw [hr]
        simp only [if_true]
        refine ⟨{ tx with backs := upsert b (fun t => { t with locks := t.locks ++ [lk] }) tx.backs },
          by simp [modB, modW, hctx], fun b' lk' e he hm => ?_⟩
        simp only [modB, modW, alLookup_put] at he
        split at he
        · rename_i heq
          simp only [Prod.mk.injEq] at heq
          obtain ⟨rfl, rfl⟩ := heq
          simp only [Option.some.injEq] at he
          subst he
          exact ⟨Holds_upsert_add _ _ _, _, rfl, by simp [modB, modW]⟩
        · obtain ⟨hh, d, hd1, hd2⟩ := h b' lk' e he hm
          refine ⟨Holds_upsert (f := fun t => { t with locks := t.locks ++ [lk] })
            (fun t => ⟨rfl, fun l hl => by simp [hl]⟩) b hh, d, hd1, ?_⟩
          simpa [modB, modW] using hd2
    · rw [backendCmd_fail cfg b _ w hf]
      exact LockInv_logged _ cfg b _ w hI


theorem good_keep {f : TxB → TxB} (h1 : ∀ t, (f t).bid = t.bid) (h2 : ∀ t, (f t).locks = t.locks) : Good f :=
  fun t => ⟨h1 t, fun lk h => by rw [h2 t]; exact h⟩

theorem lockUpdates_RI (cfg : Cfg) (b k : Nat) : Rel (RI cfg.timeout) (lockUpdates cfg b k) := by
  unfold lockUpdates
  simp only [bind_eq, pure_eq]
  rel_steps (RI.pre cfg.timeout)
  exact lockLoop_RI _ _ _ _

/-- leaves of the `RI` proofs -/
macro "ri_leaf" : tactic => `(tactic| first
  | exact modB_RI _ _ (good_keep (fun _ => rfl) (fun _ => rfl))
  | exact backendCmd_RI _ _ _ _ (by trivial)
  | exact lockLoop_RI _ _ _ _
  | exact lockUpdates_RI _ _ _
  | assumption)

theorem wrap_RI (T b : Nat) : Rel (RI T) (wrap b) := modB_RI T b (good_keep (fun _ => rfl) (fun _ => rfl))

theorem incrSeed_RI (cfg : Cfg) (b k : Nat) : Rel (RI cfg.timeout) (incrSeed cfg b k) := by
  unfold incrSeed
  simp only [bind_eq, pure_eq]
  rel_steps (RI.pre cfg.timeout)
  all_goals ri_leaf

theorem txSet_RI (cfg : Cfg) (b k : Nat) (v : Int) (ttl : Option Nat) : Rel (RI cfg.timeout) (txSet cfg b k v ttl) := by
  unfold txSet
  simp only [bind_eq, pure_eq]
  rel_steps (RI.pre cfg.timeout)
  all_goals ri_leaf

theorem txIncr_RI (cfg : Cfg) (b k : Nat) (ttl : Option Nat) : Rel (RI cfg.timeout) (txIncr cfg b k ttl) := by
  unfold txIncr
  simp only [bind_eq, pure_eq]
  rel_steps (RI.pre cfg.timeout)
  all_goals ri_leaf

theorem txGet_RI (cfg : Cfg) (b k : Nat) : Rel (RI cfg.timeout) (txGet cfg b k) := by
  unfold txGet
  simp only [bind_eq, pure_eq]
  rel_steps (RI.pre cfg.timeout)
  all_goals ri_leaf

theorem txDelete_RI (cfg : Cfg) (b k : Nat) : Rel (RI cfg.timeout) (txDelete cfg b k) := by
  unfold txDelete
  simp only [bind_eq, pure_eq]
  rel_steps (RI.pre cfg.timeout)
  all_goals ri_leaf

theorem lockAll_RI (cfg : Cfg) (b : Nat) (ks : List Nat) : Rel (RI cfg.timeout) (lockAll cfg b ks) := by
  induction ks with
  | nil => exact Rel.pure (RI.pre _) _
  | cons k rest ih =>
    unfold lockAll
    simp only [bind_eq]
    exact Rel.bind (RI.pre _) (lockUpdates_RI _ _ _) fun _ => ih

theorem txSetMany_RI (cfg : Cfg) (b : Nat) (kvs : List (Nat × Int)) (ttl : Option Nat) :
    Rel (RI cfg.timeout) (txSetMany cfg b kvs ttl) := by
  unfold txSetMany
  simp only [bind_eq, pure_eq]
  rel_steps (RI.pre cfg.timeout)
  all_goals first | exact wrap_RI _ _ | exact lockAll_RI _ _ _ | ri_leaf

theorem txDelMany_RI (cfg : Cfg) (b : Nat) (ks : List Nat) : Rel (RI cfg.timeout) (txDelMany cfg b ks) := by
  unfold txDelMany
  simp only [bind_eq, pure_eq]
  rel_steps (RI.pre cfg.timeout)
  all_goals first | exact wrap_RI _ _ | exact lockAll_RI _ _ _ | ri_leaf

theorem txExists_RI (cfg : Cfg) (b k : Nat) : Rel (RI cfg.timeout) (txExists cfg b k) := by
  unfold txExists
  simp only [bind_eq, pure_eq]
  rel_steps (RI.pre cfg.timeout)
  all_goals ri_leaf

theorem txSetIf_RI (cfg : Cfg) (b k : Nat) (v : Int) (ttl : Option Nat) (ex : Bool) :
    Rel (RI cfg.timeout) (txSetIf cfg b k v ttl ex) := by
  unfold txSetIf
  simp only [bind_eq, pure_eq]
  rel_steps (RI.pre cfg.timeout)
  all_goals first | exact wrap_RI _ _ | exact txExists_RI _ _ _ | ri_leaf

theorem txExpire_RI (cfg : Cfg) (b k ttl : Nat) : Rel (RI cfg.timeout) (txExpire cfg b k ttl) := by
  unfold txExpire
  simp only [bind_eq, pure_eq]
  rel_steps (RI.pre cfg.timeout)
  all_goals first | exact wrap_RI _ _ | ri_leaf

theorem emit_RI (T : Nat) (r : Reply) : Rel (RI T) (emit r) := Rel.modW _ fun _ h => h

/-- bumping / taking back the `_inner` of a context object has nothing to do with the locks -/
theorem LockInv_putObj (T : Nat) (w : FWorld) (i : Nat) (v : CtxObj) (h : LockInv T w) : LockInv T (putObj w i v) := h

/-- a nested block inside the transaction keeps the lock bookkeeping: its `__aexit__` only takes its `_inner` back -/
theorem blockOn_RI (cfg : Cfg) (o : Option Nat) {inner : M Unit} (hin : Rel (RI cfg.timeout) inner) (hk : Rel RIn inner) :
    Rel (RI cfg.timeout) (blockOn cfg o inner) := by
  intro w hI
  have hs : w.ctx.isSome = true := by obtain ⟨tx, hc, _⟩ := hI; rw [hc]; rfl
  obtain ⟨t, ht⟩ := Option.isSome_iff_exists.1 hs
  unfold blockOn
  cases o with
  | none =>
    have he : enterOn none w = (true, w) := by simp [enterOn, ht]
    rw [he]
    have h1 := hin w hI
    generalize inner w = p at h1
    obtain ⟨r, w2⟩ := p
    cases r <;> simp only [exitOn, if_true] <;> exact h1
  | some i =>
    have he : enterOn (some i) w = (true, putObj w i { objOf w i with inner := (objOf w i).inner + 1 }) := by
      simp [enterOn, ht]
    rw [he]
    generalize hw1 : putObj w i { objOf w i with inner := (objOf w i).inner + 1 } = w1
    have hI1 : LockInv cfg.timeout w1 := by rw [← hw1]; exact LockInv_putObj _ _ _ _ hI
    have ho1 : objOf w1 i = { objOf w i with inner := (objOf w i).inner + 1 } := by
      rw [← hw1, objOf_putObj, if_pos rfl]
    have hI2 := hin w1 hI1
    obtain ⟨_, ho2, _⟩ := hk w1 (by obtain ⟨tx, hc, _⟩ := hI1; rw [hc]; rfl)
    have hexit : ∀ exc, exitOn cfg (some i) true exc (inner w1).2 =
        (.ok (), putObj (inner w1).2 i { objOf (inner w1).2 i with inner := (objOf (inner w1).2 i).inner - 1 }) := by
      intro exc
      have : (objOf (inner w1).2 i).inner ≠ 0 := by rw [ho2 i, ho1]; simp
      simp only [exitOn, this, ne_eq, not_false_eq_true, if_true]
    have hfin := LockInv_putObj cfg.timeout (inner w1).2 i
      { objOf (inner w1).2 i with inner := (objOf (inner w1).2 i).inner - 1 } hI2
    generalize hp : inner w1 = p at hexit hfin
    obtain ⟨r, w2⟩ := p
    cases r with
    | ok a => simp only; rw [hexit false]; exact hfin
    | err e => simp only; rw [hexit true]; exact hfin

mutual
theorem bodyStep_RI (cfg : Cfg) : (c : BodyCmd) → Rel (RI cfg.timeout) (bodyStep cfg c)
  | .set .. => by unfold bodyStep; exact Rel.bind (RI.pre _) (txSet_RI _ _ _ _ _) fun _ => emit_RI _ _
  | .incr .. => by unfold bodyStep; exact Rel.bind (RI.pre _) (txIncr_RI _ _ _ _) fun _ => emit_RI _ _
  | .get .. => by unfold bodyStep; exact Rel.bind (RI.pre _) (txGet_RI _ _ _) fun _ => emit_RI _ _
  | .delete .. => by unfold bodyStep; exact Rel.bind (RI.pre _) (txDelete_RI _ _ _) fun _ => emit_RI _ _
  | .adv _ => by unfold bodyStep; exact adv_RI _ _
  | .raise => by unfold bodyStep; exact Rel.throw (RI.pre _) _
  | .setMany .. => by unfold bodyStep; exact Rel.bind (RI.pre _) (txSetMany_RI _ _ _ _) fun _ => emit_RI _ _
  | .delMany .. => by unfold bodyStep; exact Rel.bind (RI.pre _) (txDelMany_RI _ _ _) fun _ => emit_RI _ _
  | .expire .. => by unfold bodyStep; exact Rel.bind (RI.pre _) (txExpire_RI _ _ _ _) fun _ => emit_RI _ _
  | .setIf .. => by unfold bodyStep; exact Rel.bind (RI.pre _) (txSetIf_RI _ _ _ _ _ _) fun _ => emit_RI _ _
  | .block o body => by unfold bodyStep; exact blockOn_RI cfg o (runBody_RI cfg body) (runBody_RIn cfg body)

theorem runBody_RI (cfg : Cfg) : (body : List BodyCmd) → Rel (RI cfg.timeout) (runBody cfg body)
  | [] => by unfold runBody; exact Rel.pure (RI.pre _) _
  | c :: rest => by unfold runBody; exact Rel.bind (RI.pre _) (bodyStep_RI cfg c) fun _ => runBody_RI cfg rest
end

/-! ### on the way out -/

/-- the `unlock` of lock key `lk` on backend `b` was issued in this run (index ≥ `c0`) and made to fail -/
def FU (cfg : Cfg) (c0 : Nat) (w : FWorld) (b lk : Nat) : Prop :=
  ∃ i, c0 ≤ i ∧ i < w.counter ∧ cfg.fails i = true ∧ (⟨i, b, .unlock lk, true⟩ : Ev) ∈ w.log

/-- commit / rollback steps: counter and log grow, the clock stands, lock stores only lose entries -/
def RExit (w w' : FWorld) : Prop :=
  w.counter ≤ w'.counter ∧ (∀ ev, ev ∈ w.log → ev ∈ w'.log) ∧ w'.now = w.now ∧
  (∀ key e, alLookup w'.locks key = some e → alLookup w.locks key = some e)

theorem RExit.pre : Pre RExit :=
  ⟨fun _ => ⟨Nat.le_refl _, fun _ h => h, rfl, fun _ _ h => h⟩,
   fun h1 h2 => ⟨Nat.le_trans h1.1 h2.1, fun ev h => h2.2.1 ev (h1.2.1 ev h), h2.2.2.1.trans h1.2.2.1,
     fun k e h => h1.2.2.2 k e (h2.2.2.2 k e h)⟩⟩

theorem FU.mono {cfg : Cfg} {c0 : Nat} {w w' : FWorld} {b lk : Nat} (h : FU cfg c0 w b lk) (hr : RExit w w') :
    FU cfg c0 w' b lk := by
  obtain ⟨i, h1, h2, h3, h4⟩ := h
  exact ⟨i, h1, Nat.lt_of_lt_of_le h2 hr.1, h3, hr.2.1 _ h4⟩

theorem backendCmd_RExit (cfg : Cfg) (b : Nat) (c : BCmd) (hc : c.noLock) : Rel RExit (backendCmd cfg b c) := by
  intro w
  cases hf : cfg.fails w.counter
  · rw [backendCmd_ok cfg b c w hf]
    refine ⟨by simp [applyCmd_counter, logged], fun ev h => ?_, by simp [applyCmd_now, logged], fun k e h => ?_⟩
    · simp [applyCmd_log, logged, h]
    · exact logged_locks_sub _ _ _ _ _ _ (applyCmd_locks_shrink b c (logged cfg b c w) hc k e h)
  · rw [backendCmd_fail cfg b c w hf]
    exact ⟨by simp [logged], fun ev h => by simp [logged, h], rfl, fun _ _ h => logged_locks_sub _ _ _ _ _ _ h⟩

theorem closeOn_RExit (o : Option Nat) : Rel RExit (closeOn o) := by
  refine Rel.modW _ fun w => ?_
  cases o <;> exact RExit.pre.refl _

theorem gatherUnlock_RExit (cfg : Cfg) (b : Nat) (ls : List Nat) : Rel RExit (gatherUnlock cfg b ls) := by
  induction ls with
  | nil => exact Rel.pure RExit.pre _
  | cons lk rest ih =>
    intro w
    rw [gatherUnlock_snd]
    exact RExit.pre.trans (backendCmd_RExit cfg b (.unlock lk) trivial w) (ih _)

/-- lock key `lk` of backend `b` does not carry this transaction's token (any more) -/
def Released (w : FWorld) (b lk : Nat) : Prop := ∀ e, alLookup w.locks (b, lk) = some e → e.mine = false

theorem Released.mono {w w' : FWorld} {b lk : Nat} (h : Released w b lk) (hr : RExit w w') : Released w' b lk :=
  fun e he => h e (hr.2.2.2 _ _ he)

/-- an `unlock` that took effect leaves no entry with this transaction's token under its key -/
theorem applyCmd_unlock_released (b lk : Nat) (wl : FWorld) (e : LEntry)
    (he : alLookup (applyCmd b (.unlock lk) wl).2.locks (b, lk) = some e) : e.mine = false := by
  unfold applyCmd at he
  simp only at he
  split at he
  · rename_i hnone
    simp [hnone] at he
  · rename_i e0 hsome
    split at he
    · simp at he
    · split at he
      · simp at he
      · rename_i hmine
        simp only [hsome, Option.some.injEq] at he
        subst he
        simpa using hmine

/-- one `unlock`: the entry is gone (or was never ours), or that very command was made to fail -/
theorem unlock_spec (cfg : Cfg) (c0 b lk : Nat) (w : FWorld) (hc : c0 ≤ w.counter) :
    Released (backendCmd cfg b (.unlock lk) w).2 b lk ∨ FU cfg c0 (backendCmd cfg b (.unlock lk) w).2 b lk := by
  cases hf : cfg.fails w.counter
  · left
    rw [backendCmd_ok cfg b _ w hf]
    intro e he
    exact applyCmd_unlock_released b lk _ e he
  · right
    rw [backendCmd_fail cfg b _ w hf]
    exact ⟨w.counter, hc, by simp [logged], hf, by simp [logged, hf]⟩

theorem gatherUnlock_spec (cfg : Cfg) (c0 b : Nat) (ls : List Nat) (w : FWorld) (hc : c0 ≤ w.counter) :
    ∀ lk ∈ ls, Released (gatherUnlock cfg b ls w).2 b lk ∨ FU cfg c0 (gatherUnlock cfg b ls w).2 b lk := by
  induction ls generalizing w with
  | nil => intro lk h; cases h
  | cons l rest ih =>
    intro lk hlk
    rw [gatherUnlock_snd]
    have hstep := backendCmd_RExit cfg b (.unlock l) trivial w
    have hrest := gatherUnlock_RExit cfg b rest (backendCmd cfg b (.unlock l) w).2
    rcases List.mem_cons.1 hlk with rfl | hm
    · rcases unlock_spec cfg c0 b lk w hc with h | h
      · exact Or.inl (h.mono hrest)
      · exact Or.inr (h.mono hrest)
    · exact ih _ (Nat.le_trans hc hstep.1) lk hm

theorem mem_unlockOrder (uprio : List (Nat × Nat)) (b : Nat) (ls : List Nat) (lk : Nat) (h : lk ∈ ls) :
    lk ∈ unlockOrder uprio b ls := by
  unfold unlockOrder
  simp only [List.mem_append, List.mem_filter]
  by_cases hp : lk ∈ (uprio.filter fun p => p.1 = b ∧ p.2 ∈ ls).map (·.2)
  · exact Or.inl hp
  · exact Or.inr ⟨h, by simpa using hp⟩

/-- the loop of `_rollback` is the OLD one (`except Exception` only) and some `unlock` command issued in this run
(index ≥ `c0`) was made to fail with an exception of BaseException kind -/
def BU (cfg : Cfg) (c0 : Nat) (w : FWorld) : Prop :=
  cfg.rbAll = false ∧ ∃ i b' lk', c0 ≤ i ∧ i < w.counter ∧ cfg.fails i = true ∧ cfg.base i = true ∧
    (⟨i, b', .unlock lk', true⟩ : Ev) ∈ w.log

theorem BU.mono {cfg : Cfg} {c0 : Nat} {w w' : FWorld} (h : BU cfg c0 w) (hr : RExit w w') : BU cfg c0 w' := by
  obtain ⟨ha, i, b', lk', h1, h2, h3, h4, h5⟩ := h
  exact ⟨ha, i, b', lk', h1, Nat.lt_of_lt_of_le h2 hr.1, h3, h4, hr.2.1 _ h5⟩

/-- what is still ours in the lock stores is remembered by a wrapper still to be processed, or its unlock failed, or
`_rollback` was left by a BaseException -/
def Covered (cfg : Cfg) (c0 : Nat) (ts : List TxB) (w : FWorld) : Prop :=
  ∀ b lk e, alLookup w.locks (b, lk) = some e → e.mine = true → Holds ts b lk ∨ FU cfg c0 w b lk ∨ BU cfg c0 w

theorem Covered.mono {cfg : Cfg} {c0 : Nat} {ts : List TxB} {w w' : FWorld} (h : Covered cfg c0 ts w)
    (hr : RExit w w') : Covered cfg c0 ts w' := by
  intro b lk e he hm
  rcases h b lk e (hr.2.2.2 _ _ he) hm with h1 | h1 | h1
  · exact Or.inl h1
  · exact Or.inr (Or.inl (h1.mono hr))
  · exact Or.inr (Or.inr (h1.mono hr))

theorem unlockUpdates_RExit (cfg : Cfg) (t : TxB) : Rel RExit (unlockUpdates cfg t) :=
  gatherUnlock_RExit _ _ _

/-- `_unlock_updates` of one wrapper discharges that wrapper -/
theorem unlockUpdates_cov (cfg : Cfg) (c0 : Nat) (t : TxB) (ts : List TxB) (w : FWorld) (hc : c0 ≤ w.counter)
    (h : Covered cfg c0 (t :: ts) w) : Covered cfg c0 ts (unlockUpdates cfg t w).2 := by
  intro b lk e he hm
  have hr := unlockUpdates_RExit cfg t w
  rcases h b lk e (hr.2.2.2 _ _ he) hm with h1 | h1 | h1
  · obtain ⟨t', ht', hb, hl⟩ := h1
    rcases List.mem_cons.1 ht' with rfl | hmem
    · subst hb
      rcases gatherUnlock_spec cfg c0 t'.bid _ w hc lk (mem_unlockOrder cfg.uprio t'.bid _ lk hl) with h2 | h2
      · have := h2 e he
        rw [hm] at this
        cases this
      · exact Or.inr (Or.inl h2)
    · exact Or.inl ⟨t', hmem, hb, hl⟩
  · exact Or.inr (Or.inl (h1.mono hr))
  · exact Or.inr (Or.inr (h1.mono hr))

theorem runCmds_RExit (cfg : Cfg) (b : Nat) (cs : List BCmd) (h : ∀ c ∈ cs, c.noLock) : Rel RExit (runCmds cfg b cs) := by
  induction cs with
  | nil => exact Rel.pure RExit.pre _
  | cons c rest ih =>
    unfold runCmds
    simp only [bind_eq]
    exact Rel.bind RExit.pre (backendCmd_RExit cfg b c (h c List.mem_cons_self)) fun _ =>
      ih fun c' hc' => h c' (List.mem_cons_of_mem _ hc')

theorem commitCmds_noLock (now : Nat) (t : TxB) : ∀ c ∈ commitCmds now t, c.noLock := by
  intro c hc
  unfold commitCmds at hc
  simp only [List.mem_append, List.mem_map] at hc
  rcases hc with hc | ⟨g, _, rfl⟩
  · split at hc
    · cases hc
    · rw [List.mem_singleton] at hc; subst hc; trivial
  · trivial

theorem baseCommit_RExit (cfg : Cfg) (t : TxB) : Rel RExit (baseCommit cfg t) := by
  unfold baseCommit
  simp only [bind_eq]
  exact Rel.bind RExit.pre (Rel.getW RExit.pre) fun w => runCmds_RExit _ _ _ (commitCmds_noLock _ _)

theorem commitOne_RExit (cfg : Cfg) (t : TxB) : Rel RExit (commitOne cfg t) :=
  Rel.tryFinally RExit.pre (baseCommit_RExit cfg t) (unlockUpdates_RExit cfg t)

theorem rollbackOne_RExit (cfg : Cfg) (t : TxB) : Rel RExit (rollbackOne cfg t) :=
  Rel.tryFinally RExit.pre (Rel.pure RExit.pre _) (unlockUpdates_RExit cfg t)

theorem commitOne_cov (cfg : Cfg) (c0 : Nat) (t : TxB) (ts : List TxB) (w : FWorld) (hc : c0 ≤ w.counter)
    (h : Covered cfg c0 (t :: ts) w) : Covered cfg c0 ts (commitOne cfg t w).2 := by
  unfold commitOne
  rw [tryFinally_snd]
  have hr := baseCommit_RExit cfg t w
  exact unlockUpdates_cov cfg c0 t ts _ (Nat.le_trans hc hr.1) (h.mono hr)

theorem rollbackOne_cov (cfg : Cfg) (c0 : Nat) (t : TxB) (ts : List TxB) (w : FWorld) (hc : c0 ≤ w.counter)
    (h : Covered cfg c0 (t :: ts) w) : Covered cfg c0 ts (rollbackOne cfg t w).2 := by
  unfold rollbackOne
  rw [tryFinally_snd]
  exact unlockUpdates_cov cfg c0 t ts _ hc h

theorem rollbackList_RExit (cfg : Cfg) (ts : List TxB) (w : FWorld) : RExit w (rollbackList cfg ts w).2 := by
  induction ts generalizing w with
  | nil => exact RExit.pre.refl w
  | cons t rest ih =>
    rcases rollbackList_snd cfg t rest w with h | ⟨h, _⟩ <;> rw [h]
    · exact RExit.pre.trans (rollbackOne_RExit cfg t w) (ih _)
    · exact rollbackOne_RExit cfg t w

/-- an exception that leaves the `gather` of the unlocks is the fault of one of them -/
theorem gatherUnlock_err (cfg : Cfg) (b : Nat) (ls : List Nat) (w : FWorld) (e : Err)
    (h : (gatherUnlock cfg b ls w).1 = .err e) :
    ∃ i lk, w.counter ≤ i ∧ i < (gatherUnlock cfg b ls w).2.counter ∧ cfg.fails i = true ∧
      e = .fault i (cfg.kindAt i) ∧ (⟨i, b, .unlock lk, true⟩ : Ev) ∈ (gatherUnlock cfg b ls w).2.log := by
  induction ls generalizing w with
  | nil => simp [gatherUnlock, pure_eq, M.pure] at h
  | cons lk rest ih =>
    have hstep := backendCmd_RExit cfg b (.unlock lk) trivial w
    have hrest := gatherUnlock_RExit cfg b rest (backendCmd cfg b (.unlock lk) w).2
    rw [gatherUnlock_snd]
    cases hf : cfg.fails w.counter with
    | false =>
      have hok := backendCmd_ok cfg b (.unlock lk) w hf
      simp only [gatherUnlock, hok] at h
      rw [hok] at hstep ⊢
      generalize (applyCmd b (.unlock lk) (logged cfg b (.unlock lk) w)).2 = w1 at h hstep ⊢
      have := ih w1 (by
        generalize gatherUnlock cfg b rest w1 = q at h
        obtain ⟨r2, w2⟩ := q
        exact h)
      obtain ⟨i, lk', h1, h2, h3, h4, h5⟩ := this
      exact ⟨i, lk', Nat.le_trans hstep.1 h1, h2, h3, h4, h5⟩
    | true =>
      have hbad := backendCmd_fail cfg b (.unlock lk) w hf
      simp only [gatherUnlock, hbad] at h
      rw [hbad] at hrest ⊢
      have he : e = .fault w.counter (cfg.kindAt w.counter) := by
        generalize gatherUnlock cfg b rest (logged cfg b (.unlock lk) w) = q at h
        obtain ⟨r2, w2⟩ := q
        simp only [Res.err.injEq] at h
        exact h.symm
      refine ⟨w.counter, lk, Nat.le_refl _, Nat.lt_of_lt_of_le (by simp [logged]) hrest.1, hf, he, hrest.2.1 _ ?_⟩
      simp [logged, hf]

/-- an exception that leaves the rollback of one wrapped backend is the fault of one of its unlocks -/
theorem rollbackOne_err (cfg : Cfg) (t : TxB) (w : FWorld) (e : Err) (h : (rollbackOne cfg t w).1 = .err e) :
    ∃ i lk, w.counter ≤ i ∧ i < (rollbackOne cfg t w).2.counter ∧ cfg.fails i = true ∧
      e = .fault i (cfg.kindAt i) ∧ (⟨i, t.bid, .unlock lk, true⟩ : Ev) ∈ (rollbackOne cfg t w).2.log := by
  have hw : (rollbackOne cfg t w).2 = (unlockUpdates cfg t w).2 := by
    unfold rollbackOne; rw [tryFinally_snd]; rfl
  have hr : (unlockUpdates cfg t w).1 = .err e := by
    unfold rollbackOne tryFinally at h
    simp only [M.pure] at h
    generalize unlockUpdates cfg t w = q at h ⊢
    obtain ⟨r2, w2⟩ := q
    cases r2 with
    | ok a => simp at h
    | err e' => simpa using h
  rw [hw]
  exact gatherUnlock_err cfg t.bid _ w e hr

theorem isBase_fault (cfg : Cfg) (i : Nat) (h : (Err.fault i (cfg.kindAt i)).isBase = true) : cfg.base i = true := by
  unfold Cfg.kindAt at h
  cases hb : cfg.base i with
  | true => rfl
  | false => simp [hb, Err.isBase] at h

/-- **what `_rollback` leaves behind**: every wrapped backend is discharged, or the loop was left by a BaseException -/
theorem rollbackList_cov (cfg : Cfg) (c0 : Nat) (ts : List TxB) (w : FWorld) (hc : c0 ≤ w.counter)
    (h : Covered cfg c0 ts w) : Covered cfg c0 [] (rollbackList cfg ts w).2 := by
  induction ts generalizing w with
  | nil => exact h
  | cons t rest ih =>
    have h1 := rollbackOne_cov cfg c0 t rest w hc h
    rcases rollbackList_snd cfg t rest w with hs | ⟨hs, hall, e, he, hb⟩ <;> rw [hs]
    · exact ih _ (Nat.le_trans hc (rollbackOne_RExit cfg t w).1) h1
    · -- the loop is left: whatever the remaining wrappers remember stays
      obtain ⟨i, lk', hi1, hi2, hi3, hi4, hi5⟩ := rollbackOne_err cfg t w e he
      have hbu : BU cfg c0 (rollbackOne cfg t w).2 :=
        ⟨hall, i, t.bid, lk', Nat.le_trans hc hi1, hi2, hi3, isBase_fault cfg i (hi4 ▸ hb), hi5⟩
      intro b lk en hen hm
      rcases h1 b lk en hen hm with h2 | h2 | h2
      · exact Or.inr (Or.inr hbu)
      · exact Or.inr (Or.inl h2)
      · exact Or.inr (Or.inr h2)

theorem commitLoop_RExit (cfg : Cfg) (ts : List TxB) (w : FWorld) : RExit w (commitLoop cfg ts w).2 := by
  induction ts generalizing w with
  | nil => exact RExit.pre.refl w
  | cons t rest ih =>
    rcases commitLoop_snd cfg t rest w with h | h <;> rw [h]
    · exact RExit.pre.trans (commitOne_RExit cfg t w) (ih _)
    · exact RExit.pre.trans (commitOne_RExit cfg t w) (rollbackList_RExit cfg rest _)

/-- **every wrapped backend is discharged by `Transaction.commit`, whatever fails**: a failing commit rolls the
remaining ones back -/
theorem commitLoop_cov (cfg : Cfg) (c0 : Nat) (ts : List TxB) (w : FWorld) (hc : c0 ≤ w.counter)
    (h : Covered cfg c0 ts w) : Covered cfg c0 [] (commitLoop cfg ts w).2 := by
  induction ts generalizing w with
  | nil => exact h
  | cons t rest ih =>
    have h1 := commitOne_cov cfg c0 t rest w hc h
    have hc1 := Nat.le_trans hc (commitOne_RExit cfg t w).1
    rcases commitLoop_snd cfg t rest w with h' | h' <;> rw [h']
    · exact ih _ hc1 h1
    · exact rollbackList_cov cfg c0 rest _ hc1 h1

end CashewsVerif.TxFault
