import CashewsVerif.Lemmas.TagsTrace
/-
Lemmas about the tag model, part 8: the removal paths other than `delete` / `delete_many`.

`delete_match(pattern)` - whatever the pattern is, a glob, the exact name of one key (no wildcard), or
something that matches nothing - goes through `Memory._delete` for every *live* matching key: exactly those
keys lose their entry, are marked explicitly deleted (`since := []`) and, under documented usage, are
pruned from every tag set.  `delete_tags` marks every key it physically removes as explicitly deleted too.
-/
namespace CashewsVerif.Tags
open St

theorem liveAt_congr {now : Nat} {m m' : Nat → Option Entry} {k : Nat} (h : m' k = m k) :
    liveAt now m' k = liveAt now m k := by
  simp [liveAt, h]

theorem delMatch_nil (cfg : Cfg) (s : St) : s.delMatch cfg [] = s := rfl

theorem delMatch_cons (cfg : Cfg) (s : St) (k : Nat) (r : List Nat) :
    s.delMatch cfg (k :: r) =
      (if (liveAt s.now s.kv k).isSome then s.delKey cfg k else s).delMatch cfg r := rfl

theorem delMatch_now (cfg : Cfg) (ks : List Nat) (s : St) : (s.delMatch cfg ks).now = s.now := by
  induction ks generalizing s with
  | nil => rfl
  | cons k r ih =>
    rw [delMatch_cons, ih]
    split <;> simp

/-- **what `delete_match` does to the data keys**: a key loses its entry iff it matches and is live
(`scan` skips expired entries); every other entry - value and deadline - is untouched; the removed keys,
and only they, count as explicitly deleted -/
theorem delMatch_kv_since (cfg : Cfg) (ks : List Nat) (s : St) (k : Nat) :
    (s.delMatch cfg ks).kv k = (if k ∈ ks ∧ (liveAt s.now s.kv k).isSome = true then none else s.kv k) ∧
    (s.delMatch cfg ks).since k = (if k ∈ ks ∧ (liveAt s.now s.kv k).isSome = true then [] else s.since k) := by
  induction ks generalizing s with
  | nil => simp [delMatch_nil]
  | cons k0 r ih =>
    rw [delMatch_cons]
    by_cases hl : (liveAt s.now s.kv k0).isSome = true
    · rw [if_pos hl]
      have h := ih (s.delKey cfg k0)
      rw [delKey_now] at h
      by_cases hk : k = k0
      · subst hk
        have hn : (s.delKey cfg k).kv k = none := by rw [delKey_kv]; simp
        have hs : (s.delKey cfg k).since k = [] := by rw [delKey_since]; simp
        have hnl : (liveAt s.now (s.delKey cfg k).kv k).isSome = false := by rw [liveAt_none_of hn]; rfl
        rw [hnl, hn, hs] at h
        simp [h.1, h.2, hl]
      · have hkv : (s.delKey cfg k0).kv k = s.kv k := by rw [delKey_kv]; simp [hk]
        have hs : (s.delKey cfg k0).since k = s.since k := by rw [delKey_since]; simp [hk]
        rw [liveAt_congr hkv, hkv, hs] at h
        simp [h.1, h.2, hk]
    · rw [if_neg hl]
      have h := ih s
      by_cases hk : k = k0
      · subst hk
        simp only [Bool.not_eq_true] at hl
        simp [h.1, h.2, hl]
      · simp [h.1, h.2, hk]

theorem pinv_delMatch {cfg : Cfg} {s : St} (ks : List Nat) (h : PInv cfg s) : PInv cfg (s.delMatch cfg ks) := by
  induction ks generalizing s with
  | nil => exact h
  | cons k r ih =>
    rw [delMatch_cons]
    apply ih
    split
    · exact pinv_delKey k h
    · exact h

/-- under documented usage, a key removed by `delete_match` is a member of no tag set afterwards
(the on-remove callback pruned it) -/
theorem delMatch_pruned {cfg : Cfg} {s : St} (ks : List Nat) (h : PInv cfg s) {k : Nat} (hk : k ∈ ks)
    (hl : (liveAt s.now s.kv k).isSome = true) (t : Nat) : k ∉ lm (s.delMatch cfg ks) t := by
  intro hm
  have h1 := ((pinv_delMatch ks h).1 k t hm).2
  rw [(delMatch_kv_since cfg ks s k).1, if_pos ⟨hk, hl⟩] at h1
  simp at h1

/-! ### `delete_tags` marks what it removes -/

/-- the loop of `_delete_tag` either leaves the entry and `since` of `k` alone, or `k` was among the popped
members: then it was passed to `delete_many` - its entry is gone and it counts as explicitly deleted -/
theorem loop_kv_since_cases (cfg : Cfg) (t k : Nat) : ∀ fuel s,
    ((deleteTagLoop cfg fuel s t).kv k = s.kv k ∧ (deleteTagLoop cfg fuel s t).since k = s.since k) ∨
    ((deleteTagLoop cfg fuel s t).kv k = none ∧ (deleteTagLoop cfg fuel s t).since k = []) := by
  intro fuel
  induction fuel with
  | zero => intro s; left; exact ⟨rfl, rfl⟩
  | succ n ih =>
    intro s
    have hr : ((round cfg s t).kv k = s.kv k ∧ (round cfg s t).since k = s.since k) ∨
        ((round cfg s t).kv k = none ∧ (round cfg s t).since k = []) := by
      rw [round_since, round_kv]; split <;> simp
    rw [deleteTagLoop_succ]
    split
    · left; exact ⟨rfl, rfl⟩
    · split
      · exact hr
      · rcases ih (round cfg s t) with ⟨h1, h2⟩ | h
        · rcases hr with ⟨hr1, hr2⟩ | ⟨hr1, hr2⟩
          · left; exact ⟨h1.trans hr1, h2.trans hr2⟩
          · right; exact ⟨h1.trans hr1, h2.trans hr2⟩
        · right; exact h

theorem deleteTags_kv_since_cases (cfg : Cfg) (tl : List Nat) (s : St) (k : Nat) :
    ((s.deleteTags cfg tl).kv k = s.kv k ∧ (s.deleteTags cfg tl).since k = s.since k) ∨
    ((s.deleteTags cfg tl).kv k = none ∧ (s.deleteTags cfg tl).since k = []) := by
  unfold deleteTags
  induction tl generalizing s with
  | nil => left; exact ⟨rfl, rfl⟩
  | cons t r ih =>
    simp only [List.foldl_cons]
    have h0 : ((s.deleteTag cfg t).kv k = s.kv k ∧ (s.deleteTag cfg t).since k = s.since k) ∨
        ((s.deleteTag cfg t).kv k = none ∧ (s.deleteTag cfg t).since k = []) :=
      loop_kv_since_cases cfg t k _ s
    rcases ih (s.deleteTag cfg t) with ⟨h1, h2⟩ | h
    · rcases h0 with ⟨h01, h02⟩ | ⟨h01, h02⟩
      · left; exact ⟨h1.trans h01, h2.trans h02⟩
      · right; exact ⟨h1.trans h01, h2.trans h02⟩
    · right; exact h

/-- a key whose entry `delete_tags` physically removed counts as explicitly deleted -/
theorem deleteTags_removed_since (cfg : Cfg) (tl : List Nat) (s : St) (k : Nat)
    (hb : s.kv k ≠ none) (ha : (s.deleteTags cfg tl).kv k = none) : (s.deleteTags cfg tl).since k = [] := by
  rcases deleteTags_kv_since_cases cfg tl s k with ⟨h1, _⟩ | ⟨_, h2⟩
  · rw [ha] at h1; exact absurd h1.symm hb
  · exact h2

end CashewsVerif.Tags
