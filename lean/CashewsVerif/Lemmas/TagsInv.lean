import CashewsVerif.Lemmas.TagsLoop
/-
Lemmas about the tag model, part 5: the coverage invariant `CInv` is kept by every command, and what
it gives for `delete_tags` (every key whose latest write carried the tag becomes unreadable).
-/
namespace CashewsVerif.Tags
open St

theorem cinv_init : CInv init := by
  intro k t ht; simp [init] at ht

theorem cinv_rawDelete {s : St} (cfg : Cfg) (k : Nat) (h : CInv s) : CInv (s.rawDelete cfg k).1 := by
  intro k' t ht
  rw [rawDelete_last] at ht
  exact cov_rawDelete cfg k (h k' t ht)

theorem cinv_touch {s : St} (cfg : Cfg) (k : Nat) (h : CInv s) : CInv (s.touch cfg k).1 :=
  touch_preserves cfg s k h (cinv_rawDelete cfg k h)

theorem cinv_delKey {s : St} (cfg : Cfg) (k : Nat) (h : CInv s) : CInv (s.delKey cfg k) := by
  intro k' t ht
  rw [delKey_last] at ht
  exact cov_delKey cfg k (h k' t ht)

theorem writeTagged_kv (s : St) (k : Nat) (v : Val) (ttl : Option Nat) (tags : List Nat) (k' : Nat) :
    (s.writeTagged k v ttl tags).kv k' = (s.rawSet k v ttl).kv k' := by
  unfold writeTagged noteWrite
  simp only
  rw [(tagAll_frame tags (s.rawSet k v ttl) k ttl).2.1]

theorem writeTagged_now (s : St) (k : Nat) (v : Val) (ttl : Option Nat) (tags : List Nat) :
    (s.writeTagged k v ttl tags).now = s.now := by
  unfold writeTagged noteWrite
  simp only
  rw [(tagAll_frame tags (s.rawSet k v ttl) k ttl).1]; rfl

theorem writeTagged_last (s : St) (k : Nat) (v : Val) (ttl : Option Nat) (tags : List Nat) :
    (s.writeTagged k v ttl tags).last = upd s.last k tags := by
  unfold writeTagged noteWrite
  simp only
  rw [(tagAll_frame tags (s.rawSet k v ttl) k ttl).2.2.1]; rfl

theorem writeTagged_since (s : St) (k : Nat) (v : Val) (ttl : Option Nat) (tags : List Nat) :
    (s.writeTagged k v ttl tags).since = upd s.since k (tags ++ s.since k) := by
  unfold writeTagged noteWrite
  simp only
  rw [(tagAll_frame tags (s.rawSet k v ttl) k ttl).2.2.2]; rfl

theorem lm_writeTagged (s : St) (k : Nat) (v : Val) (ttl : Option Nat) (tags : List Nat) (t x : Nat) :
    x ∈ lm (s.writeTagged k v ttl tags) t ↔ x ∈ lm s t ∨ (x = k ∧ t ∈ tags) := by
  have h1 : lm (s.writeTagged k v ttl tags) t = lm ((s.rawSet k v ttl).tagAll tags k ttl) t := lm_other rfl rfl
  have h2 : lm (s.rawSet k v ttl) t = lm s t := lm_other rfl rfl
  rw [h1, lm_tagAll, h2]

/-- the tagged write of `set` / `incr` / a decorated call keeps the invariant: the new entry is covered
by every set it was just added to, everything else is undisturbed -/
theorem cinv_writeTagged {s : St} (k : Nat) (v : Val) (ttl : Option Nat) (tags : List Nat) (h : CInv s) :
    CInv (s.writeTagged k v ttl tags) := by
  intro k' t ht
  rw [writeTagged_last] at ht
  have hcongr : ∀ k' t, Cov ((s.rawSet k v ttl).tagAll tags k ttl) k' t → Cov (s.writeTagged k v ttl tags) k' t :=
    fun k' t hc => cov_congr (s := (s.rawSet k v ttl).tagAll tags k ttl) rfl rfl rfl hc
  apply hcongr
  by_cases hk : k' = k
  · subst hk
    rw [upd_same] at ht
    refine cov_tagAll_self (e := ⟨v, _⟩) tags ttl (by simp [rawSet, upd]; rfl) ?_ ht
    simp only [rawSet_now]
    cases hd : deadlineOf s.now ttl with
    | none => left; rfl
    | some d => right; rfl
  · rw [upd_other _ _ hk] at ht
    apply cov_tagAll
    exact cov_congr (s := s) rfl (by simp [rawSet, upd, hk]) rfl (h k' t ht)

theorem cinv_wset {s : St} (cfg : Cfg) (k : Nat) (v : Val) (ttl : Option Nat) (c : Cond) (tags : List Nat) (h : CInv s) :
    CInv (s.wset cfg k v ttl c tags).1 := by
  unfold wset
  cases c with
  | always => exact cinv_writeTagged k v ttl tags h
  | nx => simp only; split
          · exact cinv_touch cfg k h
          · exact cinv_writeTagged k v ttl tags (cinv_touch cfg k h)
  | xx => simp only; split
          · exact cinv_writeTagged k v ttl tags (cinv_touch cfg k h)
          · exact cinv_touch cfg k h

/-- the repaired `incr` is a touch followed by a tagged write with the TTL the key really got -/
theorem wincr_err {cfg : Cfg} {s : St} {k : Nat} (by_ : Int) (ttl : Option Nat) (tags : List Nat)
    (h : counterOf (s.touch cfg k).2 = none) : s.wincr cfg k by_ ttl tags = ((s.touch cfg k).1, .err) := by
  unfold wincr wincrWith
  simp only [h]

theorem wincr_ok {cfg : Cfg} {s : St} {k : Nat} (by_ : Int) (ttl : Option Nat) (tags : List Nat) {c : Int}
    (h : counterOf (s.touch cfg k).2 = some c) :
    s.wincr cfg k by_ ttl tags =
      ((s.touch cfg k).1.writeTagged k (.int (c + by_)) (if c + by_ = 1 then ttl else none) tags, .int (c + by_)) := by
  unfold wincr wincrWith
  simp only [h, writeTagged, if_true]

theorem cinv_wincr {s : St} (cfg : Cfg) (k : Nat) (by_ : Int) (ttl : Option Nat) (tags : List Nat) (h : CInv s) :
    CInv (s.wincr cfg k by_ ttl tags).1 := by
  cases hc : counterOf (s.touch cfg k).2 with
  | none => rw [wincr_err by_ ttl tags hc]; exact cinv_touch cfg k h
  | some c => rw [wincr_ok by_ ttl tags hc]; exact cinv_writeTagged _ _ _ _ (cinv_touch cfg k h)

theorem cinv_wcall {s : St} (cfg : Cfg) (k : Nat) (v : Val) (ttl : Option Nat) (tags : List Nat) (h : CInv s) :
    CInv (s.wcall cfg k v ttl tags).1 := by
  unfold wcall
  simp only
  split
  · exact cinv_touch cfg k h
  · exact cinv_writeTagged _ _ _ _ (cinv_touch cfg k h)

theorem cinv_delMatch {s : St} (cfg : Cfg) (ks : List Nat) (h : CInv s) : CInv (s.delMatch cfg ks) := by
  unfold delMatch
  induction ks generalizing s with
  | nil => exact h
  | cons k r ih =>
    simp only [List.foldl_cons]
    apply ih
    split
    · exact cinv_delKey cfg k h
    · exact h

theorem cinv_deleteTag {s : St} (cfg : Cfg) (t : Nat) (h : CInv s) : CInv (s.deleteTag cfg t) := by
  intro k' t' ht
  unfold deleteTag at *
  rw [(loop_frame cfg t _ s).2] at ht
  exact cov_loop cfg t _ s (h k' t' ht)

theorem cinv_deleteTags {s : St} (cfg : Cfg) (tl : List Nat) (h : CInv s) : CInv (s.deleteTags cfg tl) := by
  unfold deleteTags
  induction tl generalizing s with
  | nil => exact h
  | cons t r ih => exact ih (cinv_deleteTag cfg t h)

theorem cinv_adv {s : St} (dt : Nat) (h : CInv s) : CInv { s with now := s.now + dt } := by
  intro k t ht e he hl
  exact h k t ht e he (live_mono hl)

theorem cinv_purge {s : St} (cfg : Cfg) (ks : List Nat) (h : CInv s) : CInv (ks.foldl (fun s k => (s.touch cfg k).1) s) := by
  induction ks generalizing s with
  | nil => exact h
  | cons k r ih => exact ih (cinv_touch cfg k h)

theorem cinv_step {s : St} (cfg : Cfg) (op : TOp) (h : CInv s) : CInv (step cfg s op).1 := by
  cases op with
  | set k v ttl c tags => exact cinv_wset cfg k v ttl c tags h
  | incr k by_ ttl tags => exact cinv_wincr cfg k by_ ttl tags h
  | call k v ttl tags => exact cinv_wcall cfg k v ttl tags h
  | get k => exact cinv_touch cfg k h
  | exists_ k => exact cinv_touch cfg k h
  | delete k => exact cinv_delKey cfg k h
  | deleteMany ks => exact foldl_delKey_preserves cfg (fun s k => cinv_delKey cfg k) ks s h
  | deleteMatch ks => exact cinv_delMatch cfg ks h
  | deleteTags tl => exact cinv_deleteTags cfg tl h
  | adv dt => exact cinv_adv dt h
  | purge => exact cinv_purge cfg cfg.keys h

theorem cinv_exec {s : St} (cfg : Cfg) (ops : List TOp) (h : CInv s) : CInv (exec cfg s ops) := by
  unfold exec
  induction ops generalizing s with
  | nil => exact h
  | cons op r ih => exact ih (cinv_step cfg op h)

/-! ### what the invariant gives for `delete_tags` -/

theorem readable_none_of {s s' : St} {k : Nat} (hkv : s'.kv k = s.kv k ∨ s'.kv k = none) (hn : s.now ≤ s'.now)
    (h : readable s k = none) : readable s' k = none := by
  unfold readable liveAt at *
  rcases hkv with hkv | hkv
  · rw [hkv]
    cases he : s.kv k with
    | none => simp
    | some e =>
      simp only [he] at h
      have : e.live s.now = false := by
        by_cases hl : e.live s.now = true
        · simp [hl] at h
        · simpa using hl
      have hmono : e.live s'.now = true → e.live s.now = true := by
        intro hl
        have h' : s'.now = s.now + (s'.now - s.now) := by omega
        rw [h'] at hl
        exact live_mono hl
      have h2 : e.live s'.now = false := by
        by_cases hl : e.live s'.now = true
        · rw [hmono hl] at this; cases this
        · simpa using hl
      simp [h2]
  · simp [hkv]

theorem deleteTag_kv_cases (cfg : Cfg) (s : St) (t k : Nat) :
    (s.deleteTag cfg t).kv k = s.kv k ∨ (s.deleteTag cfg t).kv k = none := loop_kv_cases cfg t k _ s

theorem deleteTag_now (cfg : Cfg) (s : St) (t : Nat) : (s.deleteTag cfg t).now = s.now := (loop_frame cfg t _ s).1
theorem deleteTag_last (cfg : Cfg) (s : St) (t : Nat) : (s.deleteTag cfg t).last = s.last := (loop_frame cfg t _ s).2

theorem deleteTag_kills {s : St} (cfg : Cfg) (hb : 0 < cfg.batch) (h : CInv s) {t k : Nat} (ht : t ∈ s.last k) :
    readable (s.deleteTag cfg t) k = none := by
  cases he : s.kv k with
  | none =>
    apply readable_none_of (s := s) (deleteTag_kv_cases cfg s t k) (by rw [deleteTag_now]; exact Nat.le_refl _)
    simp [readable, liveAt, he]
  | some e =>
    by_cases hl : e.live s.now = true
    · have hm : k ∈ lm s t := cov_lm (h k t ht) he hl
      have : (s.deleteTag cfg t).kv k = none := loop_complete cfg hb t k _ s (Nat.lt_succ_self _) hm
      simp [readable, liveAt, this]
    · apply readable_none_of (s := s) (deleteTag_kv_cases cfg s t k) (by rw [deleteTag_now]; exact Nat.le_refl _)
      simp [readable, liveAt, he, hl]

theorem deleteTags_keeps_unreadable (cfg : Cfg) (tl : List Nat) (s : St) (k : Nat) (h : readable s k = none) :
    readable (s.deleteTags cfg tl) k = none := by
  unfold deleteTags
  induction tl generalizing s with
  | nil => exact h
  | cons t r ih =>
    apply ih
    exact readable_none_of (deleteTag_kv_cases cfg s t k) (by rw [deleteTag_now]; exact Nat.le_refl _) h

theorem deleteTags_kills {s : St} (cfg : Cfg) (hb : 0 < cfg.batch) (tl : List Nat) (h : CInv s) {t k : Nat}
    (ht : t ∈ s.last k) (hmem : t ∈ tl) : readable (s.deleteTags cfg tl) k = none := by
  induction tl generalizing s with
  | nil => simp at hmem
  | cons t0 r ih =>
    show readable ((s.deleteTag cfg t0).deleteTags cfg r) k = none
    by_cases h0 : t = t0
    · subst h0
      exact deleteTags_keeps_unreadable cfg r _ k (deleteTag_kills cfg hb h ht)
    · have : t ∈ r := by simpa [h0] using hmem
      exact ih (cinv_deleteTag cfg t0 h) (by rw [deleteTag_last]; exact ht) this

end CashewsVerif.Tags
