import CashewsVerif.Model.Decor.Iterator
import CashewsVerif.Lemmas.DecorBase
import CashewsVerif.Lemmas.DecorCkey
/- Invariant of the iterator model: a live marker always belongs to one logged run whose chunks are all
   present, in order, and outlive the marker. -/
namespace CashewsVerif.Decor.Iter
open CashewsVerif CashewsVerif.Decor

/-- everything run `n` with body `steps` delivers to its consumer from item index `i` on:
the items in order, ending with the exception if the body raises (specification; no store) -/
def produced (n : Nat) : List (Kind × Nat) → Nat → List Res
  | [], _ => []
  | (.exc c p, _) :: _, _ => [Res.exc c p n]
  | (kd, _) :: rest, i => kd.res n i :: produced n rest (i + 1)

/-- the condition accepts everything run `steps` delivers (each item, and the final exception if any) -/
def allOk (cond : Cond) : List (Kind × Nat) → Bool
  | [] => true
  | (.exc c p, _) :: _ => excOk cond c p
  | (kd, _) :: rest => itemOk cond kd && allOk cond rest

theorem allOk_item (cond : Cond) (kd : Kind) (hk : ∀ c p, kd ≠ .exc c p) (d : Nat) (rest : List (Kind × Nat)) :
    allOk cond ((kd, d) :: rest) = (itemOk cond kd && allOk cond rest) := by
  cases kd with
  | exc c p => exact absurd rfl (hk c p)
  | val => simp [allOk]
  | none => simp [allOk]
  | falsy j => simp [allOk]
  | eobj _ _ => simp [allOk]

/-- what run `n` with body `steps` hands to consumer `cs` from item index `i` on: a prefix of `produced` -/
def delivered (cs : Consumer) (n : Nat) : List (Kind × Nat) → Nat → List Res
  | [], _ => []
  | (.exc c p, _) :: _, i => if cs = .cancel i then [] else [Res.exc c p n]
  | (kd, _) :: rest, i =>
    if cs = .cancel i then [] else kd.res n i :: (if cs = .take i then [] else delivered cs n rest (i + 1))

theorem body_cancel (cond : Cond) (ttl k n start findur : Nat) (cs : Consumer) (steps : List (Kind × Nat)) (t : TtlMap)
    (ok : Bool) (i : Nat) (hc : cs = .cancel i) : body cond ttl k n start findur cs steps t ok i = (t, []) := by
  cases steps with
  | nil => simp [body, hc]
  | cons st rest =>
    obtain ⟨kd, d⟩ := st
    cases kd <;> simp [body, hc]

theorem body_nil (cond : Cond) (ttl k n start findur : Nat) (cs : Consumer) (t : TtlMap) (ok : Bool) (i : Nat)
    (hc : cs ≠ .cancel i) :
    body cond ttl k n start findur cs [] t ok i =
      (if ok && decide (i ≠ 0) && decide ((advance t findur).now - start < ttl) then
          (advance t findur).write (ckey k 0) (.int i) (some (ttl - ((advance t findur).now - start)))
        else advance t findur, []) := by
  simp [body, hc]

theorem body_exc (cond : Cond) (ttl k n start findur : Nat) (cs : Consumer) (c p d : Nat) (rest : List (Kind × Nat))
    (t : TtlMap) (ok : Bool) (i : Nat) (hc : cs ≠ .cancel i) :
    body cond ttl k n start findur cs ((.exc c p, d) :: rest) t ok i =
      (if ok && excOk cond c p && decide ((advance t d).now - start < ttl) then
          ((advance t d).write (ckey k (i + 1)) (Res.exc c p n).enc (some ttl)).write (ckey k 0) (.int (i + 1 : Nat))
            (some (ttl - ((advance t d).now - start)))
        else advance t d, [Res.exc c p n]) := by
  simp [body, hc]

theorem body_take (cond : Cond) (ttl k n start findur : Nat) (cs : Consumer) (kd : Kind) (hk : ∀ c p, kd ≠ .exc c p)
    (d : Nat) (rest : List (Kind × Nat)) (t : TtlMap) (ok : Bool) (i : Nat) (ht : cs = .take i) :
    body cond ttl k n start findur cs ((kd, d) :: rest) t ok i = (advance t d, [kd.res n i]) := by
  cases kd with
  | exc c p => exact absurd rfl (hk c p)
  | val => simp [body, ht]
  | none => simp [body, ht]
  | falsy j => simp [body, ht]
  | eobj _ _ => simp [body, ht]

theorem body_item (cond : Cond) (ttl k n start findur : Nat) (cs : Consumer) (kd : Kind) (hk : ∀ c p, kd ≠ .exc c p)
    (d : Nat) (rest : List (Kind × Nat)) (t : TtlMap) (ok : Bool) (i : Nat) (hc : cs ≠ .cancel i) (ht : cs ≠ .take i) :
    body cond ttl k n start findur cs ((kd, d) :: rest) t ok i =
      ((body cond ttl k n start findur cs rest
          (if ok && itemOk cond kd then (advance t d).write (ckey k (i + 1)) (kd.res n i).enc (some ttl) else advance t d)
          (ok && itemOk cond kd) (i + 1)).1,
       kd.res n i :: (body cond ttl k n start findur cs rest
          (if ok && itemOk cond kd then (advance t d).write (ckey k (i + 1)) (kd.res n i).enc (some ttl) else advance t d)
          (ok && itemOk cond kd) (i + 1)).2) := by
  cases kd with
  | exc c p => exact absurd rfl (hk c p)
  | val => simp [body, hc, ht]
  | none => simp [body, hc, ht]
  | falsy j => simp [body, hc, ht]
  | eobj _ _ => simp [body, hc, ht]

theorem ending_cancel (cs : Consumer) (steps : List (Kind × Nat)) (i : Nat) (hc : cs = .cancel i) :
    ending cs steps i = .cancelled := by
  cases steps with
  | nil => simp [ending, hc]
  | cons st rest =>
    obtain ⟨kd, d⟩ := st
    cases kd <;> simp [ending, hc]

theorem ending_nil (cs : Consumer) (i : Nat) (hc : cs ≠ .cancel i) : ending cs [] i = .completed := by
  simp [ending, hc]

theorem ending_exc (cs : Consumer) (c p d : Nat) (rest : List (Kind × Nat)) (i : Nat) (hc : cs ≠ .cancel i) :
    ending cs ((.exc c p, d) :: rest) i = .raised := by
  simp [ending, hc]

theorem ending_take (cs : Consumer) (kd : Kind) (hk : ∀ c p, kd ≠ .exc c p) (d : Nat) (rest : List (Kind × Nat)) (i : Nat)
    (ht : cs = .take i) : ending cs ((kd, d) :: rest) i = .abandoned := by
  cases kd with
  | exc c p => exact absurd rfl (hk c p)
  | val => simp [ending, ht]
  | none => simp [ending, ht]
  | falsy j => simp [ending, ht]
  | eobj _ _ => simp [ending, ht]

theorem ending_item (cs : Consumer) (kd : Kind) (hk : ∀ c p, kd ≠ .exc c p) (d : Nat) (rest : List (Kind × Nat)) (i : Nat)
    (hc : cs ≠ .cancel i) (ht : cs ≠ .take i) : ending cs ((kd, d) :: rest) i = ending cs rest (i + 1) := by
  cases kd with
  | exc c p => exact absurd rfl (hk c p)
  | val => simp [ending, hc, ht]
  | none => simp [ending, hc, ht]
  | falsy j => simp [ending, hc, ht]
  | eobj _ _ => simp [ending, hc, ht]

theorem delivered_cancel (cs : Consumer) (n : Nat) (steps : List (Kind × Nat)) (i : Nat) (hc : cs = .cancel i) :
    delivered cs n steps i = [] := by
  cases steps with
  | nil => simp [delivered]
  | cons st rest =>
    obtain ⟨kd, d⟩ := st
    cases kd <;> simp [delivered, hc]

theorem delivered_exc (cs : Consumer) (n c p d : Nat) (rest : List (Kind × Nat)) (i : Nat) (hc : cs ≠ .cancel i) :
    delivered cs n ((.exc c p, d) :: rest) i = [Res.exc c p n] := by
  simp [delivered, hc]

theorem delivered_take (cs : Consumer) (n : Nat) (kd : Kind) (hk : ∀ c p, kd ≠ .exc c p) (d : Nat) (rest : List (Kind × Nat))
    (i : Nat) (ht : cs = .take i) : delivered cs n ((kd, d) :: rest) i = [kd.res n i] := by
  cases kd with
  | exc c p => exact absurd rfl (hk c p)
  | val => simp [delivered, ht]
  | none => simp [delivered, ht]
  | falsy j => simp [delivered, ht]
  | eobj _ _ => simp [delivered, ht]

theorem delivered_item (cs : Consumer) (n : Nat) (kd : Kind) (hk : ∀ c p, kd ≠ .exc c p) (d : Nat) (rest : List (Kind × Nat))
    (i : Nat) (hc : cs ≠ .cancel i) (ht : cs ≠ .take i) :
    delivered cs n ((kd, d) :: rest) i = kd.res n i :: delivered cs n rest (i + 1) := by
  cases kd with
  | exc c p => exact absurd rfl (hk c p)
  | val => simp [delivered, hc, ht]
  | none => simp [delivered, hc, ht]
  | falsy j => simp [delivered, hc, ht]
  | eobj _ _ => simp [delivered, hc, ht]

theorem produced_item (n : Nat) (kd : Kind) (hk : ∀ c p, kd ≠ .exc c p) (d : Nat) (rest : List (Kind × Nat)) (i : Nat) :
    produced n ((kd, d) :: rest) i = kd.res n i :: produced n rest (i + 1) := by
  cases kd with
  | exc c p => exact absurd rfl (hk c p)
  | val => simp [produced]
  | none => simp [produced]
  | falsy j => simp [produced]
  | eobj _ _ => simp [produced]

theorem res_not_exc (kd : Kind) (hk : ∀ c p, kd ≠ .exc c p) (n i : Nat) : (kd.res n i).isExc = false := by
  cases kd with
  | exc c p => exact absurd rfl (hk c p)
  | val => rfl
  | none => rfl
  | falsy j => rfl
  | eobj _ _ => rfl

theorem kind_cases (kd : Kind) : (∃ c p, kd = .exc c p) ∨ ∀ c p, kd ≠ .exc c p := by
  cases kd with
  | exc c p => exact .inl ⟨c, p, rfl⟩
  | val => exact .inr (fun _ _ h => by cases h)
  | none => exact .inr (fun _ _ h => by cases h)
  | falsy j => exact .inr (fun _ _ h => by cases h)
  | eobj _ _ => exact .inr (fun _ _ h => by cases h)

theorem consumer_cases (cs : Consumer) (i : Nat) : cs = .cancel i ∨ (cs ≠ .cancel i ∧ cs = .take i) ∨ (cs ≠ .cancel i ∧ cs ≠ .take i) := by
  by_cases hc : cs = .cancel i
  · exact .inl hc
  · by_cases ht : cs = .take i
    · exact .inr (.inl ⟨hc, ht⟩)
    · exact .inr (.inr ⟨hc, ht⟩)

/-- the consumer receives exactly what the body delivers to it, whatever the store and the condition do -/
theorem body_outs (cond : Cond) (ttl k n start findur : Nat) (cs : Consumer) (steps : List (Kind × Nat)) (t : TtlMap) (ok : Bool)
    (i : Nat) : (body cond ttl k n start findur cs steps t ok i).2 = delivered cs n steps i := by
  induction steps generalizing t ok i with
  | nil =>
    by_cases hc : cs = .cancel i
    · rw [body_cancel _ _ _ _ _ _ _ _ _ _ _ hc]; simp [delivered]
    · rw [body_nil _ _ _ _ _ _ _ _ _ _ hc]; simp [delivered]
  | cons st rest ih =>
    obtain ⟨kd, d⟩ := st
    rcases consumer_cases cs i with hc | ⟨hc, ht⟩ | ⟨hc, ht⟩
    · rw [body_cancel _ _ _ _ _ _ _ _ _ _ _ hc, delivered_cancel _ _ _ _ hc]
    · rcases kind_cases kd with ⟨c, p, rfl⟩ | hk
      · rw [body_exc _ _ _ _ _ _ _ _ _ _ _ _ _ _ hc, delivered_exc _ _ _ _ _ _ _ hc]
      · rw [body_take _ _ _ _ _ _ _ _ hk _ _ _ _ _ ht, delivered_take _ _ _ hk _ _ _ ht]
    · rcases kind_cases kd with ⟨c, p, rfl⟩ | hk
      · rw [body_exc _ _ _ _ _ _ _ _ _ _ _ _ _ _ hc, delivered_exc _ _ _ _ _ _ _ hc]
      · rw [body_item _ _ _ _ _ _ _ _ hk _ _ _ _ _ hc ht, delivered_item _ _ _ hk _ _ _ hc ht]
        simp only
        rw [ih]

/-- a run that ended by itself delivered everything it produces -/
theorem delivered_done (cs : Consumer) (n : Nat) (steps : List (Kind × Nat)) (i : Nat)
    (h : (ending cs steps i).done = true) : delivered cs n steps i = produced n steps i := by
  induction steps generalizing i with
  | nil => simp [delivered, produced]
  | cons st rest ih =>
    obtain ⟨kd, d⟩ := st
    rcases consumer_cases cs i with hc | ⟨hc, ht⟩ | ⟨hc, ht⟩
    · rw [ending_cancel _ _ _ hc] at h; simp [Ending.done] at h
    · rcases kind_cases kd with ⟨c, p, rfl⟩ | hk
      · rw [delivered_exc _ _ _ _ _ _ _ hc]; simp [produced]
      · rw [ending_take _ _ hk _ _ _ ht] at h; simp [Ending.done] at h
    · rcases kind_cases kd with ⟨c, p, rfl⟩ | hk
      · rw [delivered_exc _ _ _ _ _ _ _ hc]; simp [produced]
      · rw [ending_item _ _ hk _ _ _ hc ht] at h
        rw [delivered_item _ _ _ hk _ _ _ hc ht, produced_item _ _ hk, ih _ h]

/-- a drained run always ends by itself -/
theorem ending_drain_done (steps : List (Kind × Nat)) (i : Nat) : (ending .drain steps i).done = true := by
  induction steps generalizing i with
  | nil => rw [ending_nil _ _ (by simp)]; rfl
  | cons st rest ih =>
    obtain ⟨kd, d⟩ := st
    rcases kind_cases kd with ⟨c, p, rfl⟩ | hk
    · rw [ending_exc _ _ _ _ _ _ (by simp)]; rfl
    · rw [ending_item _ _ hk _ _ _ (by simp) (by simp)]; exact ih _

/-- whatever the consumer does, what it receives is a prefix of what the run produces -/
theorem delivered_prefix (cs : Consumer) (n : Nat) (steps : List (Kind × Nat)) (i : Nat) :
    delivered cs n steps i = (produced n steps i).take (delivered cs n steps i).length := by
  induction steps generalizing i with
  | nil => simp [delivered, produced]
  | cons st rest ih =>
    obtain ⟨kd, d⟩ := st
    rcases consumer_cases cs i with hc | ⟨hc, ht⟩ | ⟨hc, ht⟩
    · rw [delivered_cancel _ _ _ _ hc]; simp
    · rcases kind_cases kd with ⟨c, p, rfl⟩ | hk
      · rw [delivered_exc _ _ _ _ _ _ _ hc]; simp [produced]
      · rw [delivered_take _ _ _ hk _ _ _ ht, produced_item _ _ hk]; simp
    · rcases kind_cases kd with ⟨c, p, rfl⟩ | hk
      · rw [delivered_exc _ _ _ _ _ _ _ hc]; simp [produced]
      · rw [delivered_item _ _ _ hk _ _ _ hc ht, produced_item _ _ hk]
        simp only [List.length_cons, List.take_succ_cons]
        rw [← ih]

/-- only the last thing a run delivers can be an exception -/
theorem produced_wf (n : Nat) (steps : List (Kind × Nat)) (i j : Nat) (r : Res)
    (h : (produced n steps i)[j]? = some r) (hj : j + 1 < (produced n steps i).length) : r.isExc = false := by
  induction steps generalizing i j with
  | nil => simp [produced] at hj
  | cons st rest ih =>
    obtain ⟨kd, d⟩ := st
    rcases kind_cases kd with ⟨c, p, rfl⟩ | hk
    · simp [produced] at hj
    · rw [produced_item _ _ hk] at h hj
      cases j with
      | zero => simp at h; subst h; exact res_not_exc kd hk n i
      | succ j' =>
        simp only [List.getElem?_cons_succ] at h
        simp only [List.length_cons] at hj
        exact ih (i + 1) j' h (by omega)

/-- an exception among what a run delivers sits at the end, carries the run's stamp, and is what the body's first
raising step raises (class and payload), after exactly that many non-raising steps -/
theorem produced_exc_at (n : Nat) (steps : List (Kind × Nat)) (i j c p m : Nat)
    (h : (produced n steps i)[j]? = some (.exc c p m)) :
    m = n ∧ j + 1 = (produced n steps i).length ∧
      ∃ pre d rest, steps = pre ++ (.exc c p, d) :: rest ∧ pre.length = j ∧ ∀ st ∈ pre, ∀ c' p', st.1 ≠ .exc c' p' := by
  induction steps generalizing i j with
  | nil => simp [produced] at h
  | cons st rest ih =>
    obtain ⟨kd, d⟩ := st
    rcases kind_cases kd with ⟨c0, p0, rfl⟩ | hk
    · simp only [produced] at h ⊢
      cases j with
      | zero =>
        simp only [List.getElem?_cons_zero, Option.some.injEq, Res.exc.injEq] at h
        obtain ⟨rfl, rfl, rfl⟩ := h
        exact ⟨rfl, rfl, [], d, rest, rfl, rfl, by simp⟩
      | succ j' => simp at h
    · rw [produced_item _ _ hk] at h ⊢
      cases j with
      | zero =>
        simp only [List.getElem?_cons_zero, Option.some.injEq] at h
        have := res_not_exc kd hk n i
        rw [h] at this
        simp [Res.isExc] at this
      | succ j' =>
        simp only [List.getElem?_cons_succ] at h
        obtain ⟨hm, hlen, pre, d', rest', hst, hpl, hpre⟩ := ih (i + 1) j' h
        refine ⟨hm, by simp only [List.length_cons]; omega, (kd, d) :: pre, d', rest', by rw [hst]; rfl, by simp [hpl], ?_⟩
        intro st hst' c' p'
        rcases List.mem_cons.mp hst' with rfl | hmem
        · exact hk c' p'
        · exact hpre st hmem c' p'

/-- a stamped payload among what run `n` produces carries the stamp `n` -/
theorem produced_val_stamp (n : Nat) (steps : List (Kind × Nat)) (i m j : Nat)
    (h : Res.val m j ∈ produced n steps i) : n = m := by
  induction steps generalizing i with
  | nil => simp [produced] at h
  | cons st rest ih =>
    obtain ⟨kd, d⟩ := st
    cases kd with
    | exc c p => simp [produced] at h
    | val =>
      simp only [produced, Kind.res, List.mem_cons, Res.val.injEq] at h
      rcases h with h | h
      · exact h.1.symm
      · exact ih _ h
    | none =>
      simp only [produced, Kind.res, List.mem_cons] at h
      rcases h with h | h
      · cases h
      · exact ih _ h
    | falsy f =>
      simp only [produced, Kind.res, List.mem_cons] at h
      rcases h with h | h
      · cases h
      · exact ih _ h

    | eobj _ _ =>
      simp only [produced, Kind.res, List.mem_cons] at h
      rcases h with h | h
      · cases h
      · exact ih _ h

/-- an exception OBJECT among what a run delivers was yielded by the step at that very position (it carries the run's
stamp, class and payload of what that step yields); nothing was raised there -/
theorem produced_eobj_at (n : Nat) (steps : List (Kind × Nat)) (i j c p m : Nat)
    (h : (produced n steps i)[j]? = some (.eobj c p m)) :
    m = n ∧ ∃ d, steps[j]? = some (.eobj c p, d) := by
  induction steps generalizing i j with
  | nil => simp [produced] at h
  | cons st rest ih =>
    obtain ⟨kd, d⟩ := st
    rcases kind_cases kd with ⟨c0, p0, rfl⟩ | hk
    · simp only [produced] at h
      cases j with
      | zero => simp at h
      | succ j' => simp at h
    · rw [produced_item _ _ hk] at h
      cases j with
      | zero =>
        simp only [List.getElem?_cons_zero, Option.some.injEq] at h
        cases kd with
        | exc c' p' => exact absurd rfl (hk c' p')
        | val => simp [Kind.res] at h
        | none => simp [Kind.res] at h
        | falsy f => simp [Kind.res] at h
        | eobj c' p' =>
          simp only [Kind.res, Res.eobj.injEq] at h
          obtain ⟨rfl, rfl, rfl⟩ := h
          exact ⟨rfl, d, rfl⟩
      | succ j' =>
        simp only [List.getElem?_cons_succ] at h
        obtain ⟨hm, d', hd'⟩ := ih (i + 1) j' h
        exact ⟨hm, d', by simpa using hd'⟩

/-- what the miss path does to the store -/
structure BodyFacts (cond : Cond) (cs : Consumer) (steps : List (Kind × Nat)) (ttl k start : Nat) (t : TtlMap) (ok : Bool) (i : Nat) (t' : TtlMap) (rs : List Res) : Prop where
  /-- only slot 0 (the marker) and the chunk slots from `i+1` on are written -/
  frame : ∀ q, (∀ j, (j = 0 ∨ i < j) → q ≠ ckey k j) → t'.m q = t.m q
  now_le : t.now ≤ t'.now
  /-- the marker is untouched, or the run ended by itself, the marker now describes exactly this run and every chunk is in place -/
  marker : t'.m (ckey k 0) = t.m (ckey k 0) ∨
    (ok = true ∧ (ending cs steps i).done = true ∧ allOk cond steps = true ∧ 0 < ttl ∧ t'.now < start + ttl ∧ i + rs.length ≠ 0 ∧
      t'.m (ckey k 0) = some ⟨.int ((i + rs.length : Nat) : Int), some (start + ttl)⟩ ∧
      ∀ j r, rs[j]? = some r → ∃ d, t'.m (ckey k (i + j + 1)) = some ⟨r.enc, some d⟩ ∧ start + ttl ≤ d)

theorem body_facts (cond : Cond) (ttl k n start findur : Nat) (cs : Consumer) (steps : List (Kind × Nat)) (t : TtlMap) (ok : Bool)
    (i : Nat) (hstart : start ≤ t.now) :
    BodyFacts cond cs steps ttl k start t ok i (body cond ttl k n start findur cs steps t ok i).1
      (body cond ttl k n start findur cs steps t ok i).2 := by
  induction steps generalizing t ok i with
  | nil =>
    by_cases hcc : cs = .cancel i
    · rw [body_cancel _ _ _ _ _ _ _ _ _ _ _ hcc]
      exact ⟨fun _ _ => rfl, Nat.le_refl _, .inl rfl⟩
    rw [body_nil _ _ _ _ _ _ _ _ _ _ hcc]
    by_cases hc : (ok && decide (i ≠ 0) && decide ((advance t findur).now - start < ttl)) = true
    · simp only [hc, if_true]
      have hc' : (ok = true ∧ i ≠ 0) ∧ (advance t findur).now - start < ttl := by
        simp only [Bool.and_eq_true, decide_eq_true_eq] at hc; exact hc
      obtain ⟨⟨hok, hi⟩, hsp⟩ := hc'
      have hn : (advance t findur).now = t.now + findur := rfl
      refine ⟨?_, by simp, .inr ⟨hok, by rw [ending_nil _ _ hcc]; rfl, rfl, by omega, by simp; omega, by simpa using hi, ?_, by simp⟩⟩
      · intro q hq
        rw [write_m_ne _ _ _ (hq 0 (.inl rfl))]; rfl
      · rw [write_m_pos _ _ _ (by omega)]
        simp only [advance_now, List.length_nil, Nat.add_zero]
        congr 2
        simp only [Option.some.injEq]; omega
    · simp only [hc, Bool.false_eq_true, if_false]
      exact ⟨fun _ _ => rfl, by simp, .inl rfl⟩
  | cons st rest ih =>
    obtain ⟨kd, d⟩ := st
    by_cases hcc : cs = .cancel i
    · rw [body_cancel _ _ _ _ _ _ _ _ _ _ _ hcc]
      exact ⟨fun _ _ => rfl, Nat.le_refl _, .inl rfl⟩
    rcases kind_cases kd with ⟨c, p, rfl⟩ | hk
    · rw [body_exc _ _ _ _ _ _ _ _ _ _ _ _ _ _ hcc]
      by_cases hc : (ok && excOk cond c p && decide ((advance t d).now - start < ttl)) = true
      · simp only [hc, if_true]
        have hc' : (ok = true ∧ excOk cond c p = true) ∧ (advance t d).now - start < ttl := by
          simp only [Bool.and_eq_true, decide_eq_true_eq] at hc; exact hc
        obtain ⟨⟨hok, hex⟩, hsp⟩ := hc'
        have hn : (advance t d).now = t.now + d := rfl
        have hpos : 0 < ttl := by omega
        refine ⟨?_, by simp, .inr ⟨hok, by rw [ending_exc _ _ _ _ _ _ hcc]; rfl, by simpa [allOk] using hex, hpos, by simp; omega, by simp, ?_, ?_⟩⟩
        · intro q hq
          rw [write_m_ne _ _ _ (hq 0 (.inl rfl)), write_m_ne _ _ _ (hq (i + 1) (.inr (by omega)))]; rfl
        · rw [write_m_pos _ _ _ (by omega)]
          simp only [write_now, advance_now, List.length_singleton]
          congr 2
          simp only [Option.some.injEq]; omega
        · intro j r hj
          cases j with
          | succ j' => simp at hj
          | zero =>
            simp only [List.getElem?_cons_zero, Option.some.injEq] at hj
            subst hj
            refine ⟨t.now + d + ttl, ?_, by omega⟩
            rw [write_m_ne _ _ _ (ckey_ne_of_slot (by omega) k), write_m_pos _ _ _ hpos]
            simp
      · simp only [hc, Bool.false_eq_true, if_false]
        exact ⟨fun _ _ => rfl, by simp, .inl rfl⟩
    · by_cases htt : cs = .take i
      · -- the consumer closes the stream at this item: time has passed, nothing is written
        rw [body_take _ _ _ _ _ _ _ _ hk _ _ _ _ _ htt]
        exact ⟨fun _ _ => rfl, by simp, .inl rfl⟩
      rw [body_item _ _ _ _ _ _ _ _ hk _ _ _ _ _ hcc htt]
      -- the store after this item
      generalize ht2 : (if (ok && itemOk cond kd) = true then
          (advance t d).write (ckey k (i + 1)) (kd.res n i).enc (some ttl) else advance t d) = t2
      have hnow2 : t2.now = t.now + d := by
        subst ht2; split <;> simp
      have hm2 : ∀ q, q ≠ ckey k (i + 1) → t2.m q = t.m q := by
        intro q hq; subst ht2
        split
        · rw [write_m_ne _ _ _ hq]; rfl
        · rfl
      have ih' := ih t2 (ok && itemOk cond kd) (i + 1) (by omega)
      refine ⟨?_, ?_, ?_⟩
      · intro q hq
        rw [ih'.frame q (fun j hj => hq j (by omega)), hm2 q (hq (i + 1) (.inr (by omega)))]
      · have := ih'.now_le
        show t.now ≤ (body cond ttl k n start findur cs rest t2 (ok && itemOk cond kd) (i + 1)).1.now
        omega
      · rcases ih'.marker with hm | ⟨hok', hdone, hall, hpos, hend, hcnt, hmark, hch⟩
        · left; rw [hm, hm2 _ (ckey_ne_of_slot (by omega) k)]
        · right
          have hokk : ok = true ∧ itemOk cond kd = true := by simpa using hok'
          refine ⟨hokk.1, by rw [ending_item _ _ hk _ _ _ hcc htt]; exact hdone,
            by rw [allOk_item _ _ hk, hokk.2, hall]; rfl, hpos, hend, by simp, ?_, ?_⟩
          · rw [hmark]; simp only [List.length_cons]
            congr 3; omega
          · intro j r hj
            cases j with
            | zero =>
              simp only [List.getElem?_cons_zero, Option.some.injEq] at hj
              subst hj
              refine ⟨t.now + d + ttl, ?_, by omega⟩
              rw [ih'.frame _ (fun j hj => ckey_ne_of_slot (by omega) k)]
              subst ht2
              simp only [hok', if_true]
              rw [write_m_pos _ _ _ hpos]; simp
            | succ j' =>
              simp only [List.getElem?_cons_succ] at hj
              obtain ⟨d', h1, h2⟩ := hch j' r hj
              exact ⟨d', by rw [← h1]; congr 2; omega, h2⟩

/-- converse of `BodyFacts.marker`: a run that ended by itself, whose every item the condition accepts, that delivered
something and ended less than ttl after its start, has written its marker -/
theorem body_written (cond : Cond) (ttl k n start findur : Nat) (cs : Consumer) (steps : List (Kind × Nat)) (t : TtlMap) (ok : Bool)
    (i : Nat) (hstart : start ≤ t.now) (hok : ok = true) (hdone : (ending cs steps i).done = true)
    (hall : allOk cond steps = true)
    (hne : i + (produced n steps i).length ≠ 0)
    (hfast : (body cond ttl k n start findur cs steps t ok i).1.now < start + ttl) :
    (body cond ttl k n start findur cs steps t ok i).1.m (ckey k 0) =
      some ⟨.int ((i + (produced n steps i).length : Nat) : Int), some (start + ttl)⟩ := by
  induction steps generalizing t ok i with
  | nil =>
    have hcc : cs ≠ .cancel i := by
      intro h; rw [ending_cancel _ _ _ h] at hdone; simp [Ending.done] at hdone
    rw [body_nil _ _ _ _ _ _ _ _ _ _ hcc] at hfast ⊢
    have hn : (advance t findur).now = t.now + findur := rfl
    have hnow : (if (ok && decide (i ≠ 0) && decide ((advance t findur).now - start < ttl)) = true then
          (advance t findur).write (ckey k 0) (.int i) (some (ttl - ((advance t findur).now - start)))
        else advance t findur).now = t.now + findur := by split <;> rfl
    simp only [hnow] at hfast
    simp only [produced, List.length_nil, Nat.add_zero] at hne ⊢
    have hc : (ok && decide (i ≠ 0) && decide ((advance t findur).now - start < ttl)) = true := by
      simp only [Bool.and_eq_true, decide_eq_true_eq]
      exact ⟨⟨hok, hne⟩, by omega⟩
    simp only [hc, if_true]
    rw [write_m_pos _ _ _ (by omega)]
    congr 2
    simp only [Option.some.injEq]; omega
  | cons st rest ih =>
    obtain ⟨kd, d⟩ := st
    have hcc : cs ≠ .cancel i := by
      intro h; rw [ending_cancel _ _ _ h] at hdone; simp [Ending.done] at hdone
    rcases kind_cases kd with ⟨c, p, rfl⟩ | hk
    · rw [body_exc _ _ _ _ _ _ _ _ _ _ _ _ _ _ hcc] at hfast ⊢
      have hn : (advance t d).now = t.now + d := rfl
      have hnow : (if (ok && excOk cond c p && decide ((advance t d).now - start < ttl)) = true then
            ((advance t d).write (ckey k (i + 1)) (Res.exc c p n).enc (some ttl)).write (ckey k 0) (.int (i + 1 : Nat))
              (some (ttl - ((advance t d).now - start)))
          else advance t d).now = t.now + d := by split <;> rfl
      simp only [hnow] at hfast
      have hex : excOk cond c p = true := by simpa [allOk] using hall
      have hc : (ok && excOk cond c p && decide ((advance t d).now - start < ttl)) = true := by
        simp only [Bool.and_eq_true, decide_eq_true_eq]
        exact ⟨⟨hok, hex⟩, by omega⟩
      simp only [hc, if_true, produced, List.length_singleton]
      rw [write_m_pos _ _ _ (by simp; omega)]
      simp only [write_now]
      congr 2
      simp only [Option.some.injEq]; omega
    · have htt : cs ≠ .take i := by
        intro h; rw [ending_take _ _ hk _ _ _ h] at hdone; simp [Ending.done] at hdone
      rw [ending_item _ _ hk _ _ _ hcc htt] at hdone
      rw [body_item _ _ _ _ _ _ _ _ hk _ _ _ _ _ hcc htt] at hfast ⊢
      rw [allOk_item _ _ hk] at hall
      have hio : itemOk cond kd = true ∧ allOk cond rest = true := by simpa using hall
      have hok' : (ok && itemOk cond kd) = true := by simp [hok, hio.1]
      simp only [hok', if_true] at hfast ⊢
      rw [produced_item _ _ hk, List.length_cons]
      have := ih ((advance t d).write (ckey k (i + 1)) (kd.res n i).enc (some ttl)) true (i + 1)
        (by simp; omega) rfl hdone hio.2 (by omega) hfast
      rw [this]
      congr 3; omega

/-- marker entry `e` of key `k` describes the logged run `r`, which ended by itself and all of whose chunks are in the store -/
structure Cached (cfg : Cfg) (t : TtlMap) (k : Nat) (e : Entry) (r : Run) : Prop where
  key : r.key = k
  val : e.val = .int (r.outs.length : Nat)
  ne : r.outs.length ≠ 0
  dl : e.dl = some (r.start + cfg.ttl k)
  chunks : ∀ j x, r.outs[j]? = some x → ∃ d, t.m (ckey k (j + 1)) = some ⟨x.enc, some d⟩ ∧ r.start + cfg.ttl k ≤ d
  wf : ∀ j x, r.outs[j]? = some x → j + 1 < r.outs.length → x.isExc = false
  intime : r.fin < r.start + cfg.ttl k
  done : r.ending.done = true

structure Inv (cfg : Cfg) (script : Nat → IBeh) (s : St) : Prop where
  cached : ∀ k e, s.store.m (ckey k 0) = some e → e.live s.store.now = true →
    ∃ n r, s.runs[n]? = some r ∧ Cached cfg s.store k e r ∧ allOk cfg.cond (script n).steps = true
  /-- every accepted run that ended by itself, took less than its ttl and is younger than its ttl is what the marker shows -/
  latest : ∀ n r, s.runs[n]? = some r → r.ending.done = true → allOk cfg.cond (script n).steps = true → r.outs ≠ [] →
    r.fin < r.start + cfg.ttl r.key → s.store.now < r.start + cfg.ttl r.key →
    s.store.m (ckey r.key 0) = some ⟨.int (r.outs.length : Nat), some (r.start + cfg.ttl r.key)⟩
  past : ∀ r ∈ s.runs, r.start ≤ s.store.now
  /-- the log is faithful: what the consumer received and how the run ended are what the script and the consumer determine -/
  stamped : ∀ n r, s.runs[n]? = some r →
    r.outs = delivered r.cons n (script n).steps 0 ∧ r.ending = ending r.cons (script n).steps 0

theorem inv_init (cfg : Cfg) (script : Nat → IBeh) : Inv cfg script St.init :=
  ⟨by simp [St.init, TtlMap.init], by simp [St.init], by simp [St.init], by simp [St.init]⟩

/-- a logged run that ended by itself delivered the complete sequence its body produces -/
theorem Inv.complete {cfg : Cfg} {script : Nat → IBeh} {s : St} (inv : Inv cfg script s) (n : Nat) (r : Run)
    (hr : s.runs[n]? = some r) (hd : r.ending.done = true) : r.outs = produced n (script n).steps 0 := by
  obtain ⟨ho, he⟩ := inv.stamped n r hr
  rw [ho]
  exact delivered_done _ _ _ _ (he ▸ hd)

theorem markerCount_cached {cfg : Cfg} {t : TtlMap} {k : Nat} {e : Entry} {r : Run} (h : Cached cfg t k e r) :
    markerCount (some e) = r.outs.length := by
  obtain ⟨v, dl⟩ := e
  have := h.val
  simp only at this
  subst this
  rfl

/-- the state after a miss on key `k` read by consumer `cs` -/
def missState (cfg : Cfg) (script : Nat → IBeh) (s : St) (k : Nat) (cs : Consumer) : St :=
  let b := script s.runs.length
  let res := body cfg.cond (cfg.ttl k) k s.runs.length s.store.now b.findur cs b.steps s.store true 0
  { store := res.1, runs := s.runs ++ [⟨k, s.store.now, res.2, res.1.now, cs, ending cs b.steps 0⟩] }

theorem step_iter_miss (cfg : Cfg) (script : Nat → IBeh) (s : St) (k : Nat) (cs : Consumer)
    (h : markerCount (s.store.find (ckey k 0)) = 0) :
    step cfg script s (.iter k cs) =
      (missState cfg script s k cs, .got (delivered cs s.runs.length (script s.runs.length).steps 0) false) := by
  simp only [step, h, ne_eq, not_true_eq_false, if_false, missState]
  rw [← body_outs cfg.cond (cfg.ttl k) k s.runs.length s.store.now (script s.runs.length).findur cs
    (script s.runs.length).steps s.store true 0]

theorem step_iter_hit (cfg : Cfg) (script : Nat → IBeh) (s : St) (k : Nat) (cs : Consumer)
    (h : markerCount (s.store.find (ckey k 0)) ≠ 0) :
    step cfg script s (.iter k cs) =
      (s, .got (cs.view (replay s.store k (markerCount (s.store.find (ckey k 0))) 0)) true) := by
  simp [step, h]

theorem inv_miss {cfg : Cfg} {script : Nat → IBeh} {s : St} (inv : Inv cfg script s) (k : Nat) (cs : Consumer)
    (hmiss : markerCount (s.store.find (ckey k 0)) = 0) : Inv cfg script (missState cfg script s k cs) := by
  have bf := body_facts cfg.cond (cfg.ttl k) k s.runs.length s.store.now (script s.runs.length).findur cs
    (script s.runs.length).steps s.store true 0 (Nat.le_refl _)
  have bo := body_outs cfg.cond (cfg.ttl k) k s.runs.length s.store.now (script s.runs.length).findur cs
    (script s.runs.length).steps s.store true 0
  have bw := body_written cfg.cond (cfg.ttl k) k s.runs.length s.store.now (script s.runs.length).findur cs
    (script s.runs.length).steps s.store true 0 (Nat.le_refl _) rfl
  generalize hres : body cfg.cond (cfg.ttl k) k s.runs.length s.store.now (script s.runs.length).findur cs
    (script s.runs.length).steps s.store true 0 = res at bf bo bw
  have hst : missState cfg script s k cs = { store := res.1, runs := s.runs ++
      [⟨k, s.store.now, res.2, res.1.now, cs, ending cs (script s.runs.length).steps 0⟩] } := by
    simp only [missState, hres]
  rw [hst]
  refine ⟨?_, ?_, ?_, ?_⟩
  · intro k' e he hl
    simp only at he hl
    by_cases hk : k' = k
    · subst hk
      rcases bf.marker with hm | ⟨_, hdone, hall, hpos, hend, hcnt, hmark, hch⟩
      · -- marker untouched: it was not live before, so it is not live now
        rw [hm] at he
        have hl0 : e.live s.store.now = true := live_mono bf.now_le hl
        obtain ⟨n, r, hr, hc, _⟩ := inv.cached k' e he hl0
        have hf : s.store.find (ckey k' 0) = some e := find_eq_some.mpr ⟨he, hl0⟩
        rw [hf, markerCount_cached hc] at hmiss
        exact absurd hmiss hc.ne
      · rw [hmark] at he
        simp only [Option.some.injEq] at he
        subst he
        refine ⟨s.runs.length, ⟨k', s.store.now, res.2, res.1.now, cs, ending cs (script s.runs.length).steps 0⟩, by simp,
          ⟨rfl, ?_, ?_, rfl, ?_, ?_, hend, hdone⟩, hall⟩
        · simp
        · simpa using hcnt
        · intro j x hj
          have := hch j x hj
          simpa using this
        · intro j x hj hlt
          simp only at hj hlt
          rw [bo, delivered_done _ _ _ _ hdone] at hj hlt
          exact produced_wf _ _ _ _ _ hj hlt
    · -- another key: nothing of it was touched
      have hfr : ∀ j, res.1.m (ckey k' j) = s.store.m (ckey k' j) :=
        fun j => bf.frame _ (fun j' _ => ckey_ne_of_key hk j j')
      rw [hfr 0] at he
      obtain ⟨n, r, hr, hc, hall⟩ := inv.cached k' e he (live_mono bf.now_le hl)
      have hn : n < s.runs.length := (List.getElem?_eq_some_iff.mp hr).1
      exact ⟨n, r, by rw [List.getElem?_append_left hn]; exact hr,
        ⟨hc.key, hc.val, hc.ne, hc.dl, fun j x hj => by rw [hfr]; exact hc.chunks j x hj, hc.wf, hc.intime, hc.done⟩, hall⟩
  · -- latest
    intro n r hr hdone hall hne hfast hfresh
    simp only at hr hfresh ⊢
    by_cases hn : n < s.runs.length
    · rw [List.getElem?_append_left hn] at hr
      have hfresh0 : s.store.now < r.start + cfg.ttl r.key := by have := bf.now_le; omega
      have hm := inv.latest n r hr hdone hall hne hfast hfresh0
      by_cases hk : r.key = k
      · -- an older cached run of the same key that is still fresh contradicts the miss
        have hf : s.store.find (ckey k 0) = some ⟨.int (r.outs.length : Nat), some (r.start + cfg.ttl r.key)⟩ := by
          rw [← hk]; exact find_eq_some.mpr ⟨hm, by simp [Entry.live]; omega⟩
        rw [hf] at hmiss
        simp only [markerCount] at hmiss
        exact absurd (by simpa using hmiss) hne
      · rw [bf.frame _ (fun j' _ => ckey_ne_of_key hk 0 j')]; exact hm
    · have hn' : s.runs.length ≤ n := Nat.le_of_not_lt hn
      rw [List.getElem?_append_right hn'] at hr
      cases hd : n - s.runs.length with
      | zero =>
        have : n = s.runs.length := by omega
        subst this
        simp at hr; subst hr
        simp only at hne hfast hdone ⊢
        have hprod : res.2 = produced s.runs.length (script s.runs.length).steps 0 := by
          rw [bo]; exact delivered_done _ _ _ _ hdone
        have := bw hdone hall (by rw [← hprod]; simpa using hne) hfast
        rw [hprod]
        simpa using this
      | succ m => simp [hd] at hr
  · intro r hr
    simp only [List.mem_append, List.mem_singleton] at hr
    rcases hr with hr | hr
    · have := inv.past r hr; have := bf.now_le; show r.start ≤ res.1.now; omega
    · subst hr; exact bf.now_le
  · intro n r hr
    simp only at hr
    by_cases hn : n < s.runs.length
    · rw [List.getElem?_append_left hn] at hr; exact inv.stamped n r hr
    · have hn' : s.runs.length ≤ n := Nat.le_of_not_lt hn
      rw [List.getElem?_append_right hn'] at hr
      cases hd : n - s.runs.length with
      | zero =>
        have : n = s.runs.length := by omega
        subst this
        simp at hr; subst hr; exact ⟨bo, rfl⟩
      | succ m => simp [hd] at hr

theorem inv_step {cfg : Cfg} {script : Nat → IBeh} {s : St} (inv : Inv cfg script s) (op : Op) :
    Inv cfg script (step cfg script s op).1 := by
  cases op with
  | adv dt =>
    refine ⟨?_, ?_, ?_, inv.stamped⟩
    · intro k e he hl
      obtain ⟨n, r, hr, hc, hall⟩ := inv.cached k e he (live_mono (Nat.le_add_right _ dt) hl)
      exact ⟨n, r, hr, ⟨hc.key, hc.val, hc.ne, hc.dl, hc.chunks, hc.wf, hc.intime, hc.done⟩, hall⟩
    · intro n r hr hdone hall hne hfast hfresh
      exact inv.latest n r hr hdone hall hne hfast (by simp [step] at hfresh; omega)
    · intro r hr; have := inv.past r hr; simp [step]; omega
  | iter k cs =>
    by_cases h : markerCount (s.store.find (ckey k 0)) = 0
    · rw [step_iter_miss cfg script s k cs h]; exact inv_miss inv k cs h
    · rw [step_iter_hit cfg script s k cs h]; exact inv

theorem inv_run {cfg : Cfg} {script : Nat → IBeh} {s : St} (inv : Inv cfg script s) (ops : List Op) :
    Inv cfg script (run cfg script s ops).1 := by
  induction ops generalizing s with
  | nil => exact inv
  | cons op ops ih => simp only [run]; exact ih (inv_step inv op)

/-- a run that did not end by itself (abandoned or cancelled) writes at most chunk slots of its own key: every marker
and everything else in the store is exactly as before -/
theorem miss_interrupted (cfg : Cfg) (script : Nat → IBeh) (s : St) (k : Nat) (cs : Consumer)
    (hint : (ending cs (script s.runs.length).steps 0).done = false) (q : Nat) (hq : ∀ j, q ≠ ckey k (j + 1)) :
    (missState cfg script s k cs).store.m q = s.store.m q := by
  have bf := body_facts cfg.cond (cfg.ttl k) k s.runs.length s.store.now (script s.runs.length).findur cs
    (script s.runs.length).steps s.store true 0 (Nat.le_refl _)
  simp only [missState]
  by_cases h0 : q = ckey k 0
  · subst h0
    rcases bf.marker with hm | ⟨_, hdone, _⟩
    · exact hm
    · rw [hint] at hdone; exact absurd hdone (by simp)
  · refine bf.frame q (fun j hj => ?_)
    rcases hj with rfl | hj
    · exact h0
    · obtain ⟨j', rfl⟩ : ∃ j', j = j' + 1 := ⟨j - 1, by omega⟩
      exact hq j'

/-- reading back a cached run: while the marker is live every chunk is live, and the read stops only
at the end of the run (an exception can only be its last element) -/
theorem replay_cached {cfg : Cfg} {t : TtlMap} {k : Nat} {e : Entry} {r : Run} (hc : Cached cfg t k e r)
    (hlive : t.now < r.start + cfg.ttl k) (fuel i : Nat) (hfi : i + fuel = r.outs.length) :
    replay t k fuel i = r.outs.drop i := by
  induction fuel generalizing i with
  | zero =>
    have : i = r.outs.length := by omega
    subst this; simp [replay]
  | succ f ih =>
    have hi : i < r.outs.length := by omega
    obtain ⟨d, hm, hd⟩ := hc.chunks i r.outs[i] (by simp [hi])
    have hfind : t.find (ckey k (i + 1)) = some ⟨(r.outs[i]).enc, some d⟩ :=
      find_eq_some.mpr ⟨hm, by simp [Entry.live]; omega⟩
    rw [List.drop_eq_getElem_cons hi]
    simp only [replay, hfind, Res.dec_enc]
    by_cases hx : (r.outs[i]).isExc = true
    · simp only [hx, if_true]
      have hlast : ¬ (i + 1 < r.outs.length) := by
        intro hlt
        have := hc.wf i r.outs[i] (by simp [hi]) hlt
        rw [this] at hx; exact absurd hx (by simp)
      have : r.outs.length ≤ i + 1 := by omega
      rw [List.drop_eq_nil_of_le this]
    · simp only [hx, Bool.false_eq_true, if_false]
      rw [ih (i + 1) (by omega)]

end CashewsVerif.Decor.Iter
