import CashewsVerif.Lemmas.MemRefine
/- One step of `Mem` simulates one step of `TtlMap` (no eviction: key universe fits the capacity). -/
namespace CashewsVerif
open Store

def Op.keys : Op → List Key
  | .set k _ _ _ => [k]
  | .setMany kvs _ => kvs.map (·.1)
  | .get k => [k]
  | .getMany ks => ks
  | .exists_ k => [k]
  | .incr k _ _ => [k]
  | .delete k => [k]
  | .deleteMany ks => ks
  | .expire k _ => [k]
  | .getExpire k => [k]
  | .clear => []
  | .adv _ => []
  | .purge => []

/-- refinement + the bookkeeping that rules out eviction -/
structure Good (K : List Key) (s : Mem) (t : TtlMap) : Prop where
  ref : Refines s t
  within : s.Within K
  fits : K.length ≤ s.cap

namespace Mem

theorem good_rawGet {K s t} (g : Good K s t) (k : Key) :
    Good K (s.rawGet k).1 t ∧ (s.rawGet k).2 = (t.find k).map (·.val) :=
  ⟨⟨(rawGet_refines g.ref k).1, rawGet_within g.within k, by rw [rawGet_cap]; exact g.fits⟩,
   (rawGet_refines g.ref k).2⟩

theorem good_rawSet {K s t} (g : Good K s t) {k : Key} (hk : k ∈ K) (v : Val) (ttl : Option Nat) :
    Good K (s.rawSet k v ttl) (t.write k v ttl) :=
  ⟨rawSet_refines g.ref g.within g.fits hk v ttl, rawSet_within g.within g.fits hk v ttl, g.fits⟩

theorem good_rawDelete {K s t} (g : Good K s t) (k : Key) :
    Good K (s.rawDelete k).1 (t.remove k) ∧ (s.rawDelete k).2 = (t.find k).isSome :=
  ⟨⟨(rawDelete_refines g.ref k).1, rawDelete_within g.within k, by rw [rawDelete_cap]; exact g.fits⟩,
   (rawDelete_refines g.ref k).2⟩

theorem good_setMany {K} (kvs : List (Key × Val)) (ttl : Option Nat) :
    ∀ {s t}, Good K s t → (∀ kv ∈ kvs, kv.1 ∈ K) →
    Good K (kvs.foldl (fun s kv => s.rawSet kv.1 kv.2 ttl) s)
           (kvs.foldl (fun t kv => t.write kv.1 kv.2 ttl) t) := by
  induction kvs with
  | nil => intro s t g _; exact g
  | cons kv kvs ih =>
    intro s t g hk
    simp only [List.foldl_cons]
    exact ih (good_rawSet g (hk kv (by simp)) kv.2 ttl) (fun kv' h' => hk kv' (by simp [h']))

theorem good_getMany {K} (ks : List Key) :
    ∀ {s t}, Good K s t →
    Good K (s.getMany ks).1 t ∧ (s.getMany ks).2 = ks.map fun k => (t.find k).map (·.val) := by
  induction ks with
  | nil => intro s t g; exact ⟨g, rfl⟩
  | cons k ks ih =>
    intro s t g
    have h1 := good_rawGet g k
    have h2 := ih h1.1
    simp only [getMany, List.map_cons]
    exact ⟨h2.1, by rw [h1.2, h2.2]⟩

theorem good_deleteMany {K} (ks : List Key) :
    ∀ {s t}, Good K s t →
    Good K (ks.foldl (fun s k => (s.rawDelete k).1) s) (ks.foldl TtlMap.remove t) := by
  induction ks with
  | nil => intro s t g; exact g
  | cons k ks ih =>
    intro s t g
    simp only [List.foldl_cons]
    exact ih (good_rawDelete g k).1

theorem good_sweep {K} (ks : List Key) :
    ∀ {s t}, Good K s t → Good K (ks.foldl (fun s k => (s.rawGet k).1) s) t := by
  induction ks with
  | nil => intro s t g; exact g
  | cons k ks ih =>
    intro s t g
    simp only [List.foldl_cons]
    exact ih (good_rawGet g k).1

theorem good_clear {K s t} (g : Good K s t) :
    Good K { s with store := [] } { t with m := fun _ => none } :=
  ⟨⟨g.ref.1, fun k => by simp [view, TtlMap.find]⟩, ⟨by simp [keys], by simp [keys]⟩, g.fits⟩

theorem dead_stays_dead {e : Entry} {now : Time} (dt : Nat) (h : e.live now = false) :
    e.live (now + dt) = false := by
  unfold Entry.live at h ⊢
  cases hd : e.dl with
  | none => simp [hd] at h
  | some d =>
    simp only [hd, decide_eq_false_iff_not, Nat.not_lt] at h ⊢
    exact Nat.le_trans h (Nat.le_add_right _ _)

theorem filter_live_adv (o : Option Entry) (now : Time) (dt : Nat) :
    o.filter (·.live (now + dt)) = (o.filter (·.live now)).filter (·.live (now + dt)) := by
  cases o with
  | none => rfl
  | some e =>
    by_cases h : e.live now
    · simp [Option.filter, h]
    · have h' : e.live now = false := by simpa using h
      simp [Option.filter, h', dead_stays_dead dt h']

theorem good_adv {K s t} (g : Good K s t) (dt : Nat) :
    Good K { s with now := s.now + dt } { t with now := t.now + dt } := by
  refine ⟨⟨by simp [g.ref.1], fun k => ?_⟩, g.within, g.fits⟩
  have h := g.ref.2 k
  simp only [view, TtlMap.find_eq] at h ⊢
  rw [g.ref.1] at h ⊢
  rw [filter_live_adv (lookup s.store k), filter_live_adv (t.m k), h]

/-- the simulation step -/
theorem good_step {K s t} (g : Good K s t) (op : Op) (hk : ∀ k ∈ op.keys, k ∈ K) :
    Good K (s.step op).1 (t.step op).1 ∧ (s.step op).2 = (t.step op).2 := by
  cases op with
  | set k v ttl c =>
    have hkK : k ∈ K := hk k (by simp [Op.keys])
    have hg := good_rawGet g k
    cases c with
    | always => exact ⟨good_rawSet g hkK v ttl, rfl⟩
    | nx =>
      simp only [step, TtlMap.step]
      rw [hg.2]
      cases hf : t.find k with
      | none => simp; exact good_rawSet hg.1 hkK v ttl
      | some e => simp; exact hg.1
    | xx =>
      simp only [step, TtlMap.step]
      rw [hg.2]
      cases hf : t.find k with
      | none => simp; exact hg.1
      | some e => simp; exact good_rawSet hg.1 hkK v ttl
  | setMany kvs ttl =>
    exact ⟨good_setMany kvs ttl g (fun kv h => hk kv.1 (by simp [Op.keys]; exact ⟨kv.2, h⟩)), rfl⟩
  | get k =>
    have hg := good_rawGet g k
    simp only [step, TtlMap.step]
    exact ⟨hg.1, by rw [hg.2]⟩
  | getMany ks =>
    have hg := good_getMany ks g
    simp only [step, TtlMap.step]
    exact ⟨hg.1, by rw [hg.2]⟩
  | exists_ k =>
    have hg := good_rawGet g k
    simp only [step, TtlMap.step]
    refine ⟨hg.1, ?_⟩
    rw [hg.2]; cases t.find k <;> rfl
  | incr k by_ ttl =>
    have hkK : k ∈ K := hk k (by simp [Op.keys])
    have hg := good_rawGet g k
    simp only [step, TtlMap.step, TtlMap.incr]
    rw [hg.2]
    cases hf : t.find k with
    | none => simp; exact good_rawSet hg.1 hkK _ _
    | some e =>
      simp only [Option.map_some]
      cases hv : e.val.toInt? with
      | none => exact ⟨hg.1, rfl⟩
      | some c => simp; exact good_rawSet hg.1 hkK _ _
  | delete k =>
    have hg := good_rawDelete g k
    simp only [step, TtlMap.step]
    exact ⟨hg.1, by rw [hg.2]⟩
  | deleteMany ks => exact ⟨good_deleteMany ks g, rfl⟩
  | expire k ttl =>
    have hkK : k ∈ K := hk k (by simp [Op.keys])
    have h1 := good_rawGet g k
    have h2 := good_rawGet h1.1 k
    simp only [step, TtlMap.step]
    rw [h1.2]
    cases hf : t.find k with
    | none => exact ⟨h1.1, rfl⟩
    | some e =>
      simp only [Option.map_some]
      rw [h2.2, hf]
      simp only [Option.map_some]
      exact ⟨good_rawSet h2.1 hkK _ _, trivial⟩
  | getExpire k =>
    simp only [step, TtlMap.step]
    refine ⟨g, ?_⟩
    have h := g.ref.2 k
    unfold getExpire TtlMap.getExpire
    rw [← h]
    unfold view
    cases hl : lookup s.store k with
    | none => simp
    | some e =>
      unfold Entry.live
      cases hd : e.dl with
      | none => simp [Option.filter, hd]
      | some d =>
        rw [g.ref.1]
        by_cases hdn : d ≤ t.now
        · have : ¬ t.now < d := Nat.not_lt.mpr hdn
          simp [Option.filter, hd, hdn, this]
        · have : t.now < d := Nat.lt_of_not_le hdn
          simp [Option.filter, hd, hdn, this]
  | clear => exact ⟨good_clear g, rfl⟩
  | adv dt => exact ⟨good_adv g dt, rfl⟩
  | purge => exact ⟨good_sweep _ g, rfl⟩

theorem good_init (K : List Key) (cap : Nat) (h : K.length ≤ cap) : Good K (Mem.init cap) TtlMap.init :=
  ⟨⟨rfl, fun k => by simp [view, init, TtlMap.find, TtlMap.init]⟩, ⟨by simp [init, keys], by simp [init, keys]⟩, h⟩

theorem good_run {K} (ops : List Op) :
    ∀ {s t}, Good K s t → (∀ op ∈ ops, ∀ k ∈ op.keys, k ∈ K) →
    Good K (s.run ops).1 (t.run ops).1 ∧ (s.run ops).2 = (t.run ops).2 := by
  induction ops with
  | nil => intro s t g _; exact ⟨g, rfl⟩
  | cons op ops ih =>
    intro s t g hk
    have h1 := good_step g op (hk op (by simp))
    have h2 := ih h1.1 (fun op' h' => hk op' (by simp [h']))
    simp only [run, TtlMap.run]
    exact ⟨h2.1, by rw [h1.2, h2.2]⟩

end Mem
end CashewsVerif
