import CashewsVerif.Model.Lock
import CashewsVerif.Lemmas.MemRefine
/-
The backend *lock contract* of C06 and the proofs that the in-memory model `Mem` and the ideal
`TtlMap` satisfy it.

Contract, in words (`owner s k` = the live lock on `k`):
* `set_lock` is write-if-absent-or-expired with a lease: on a key without a live lock it answers
  True and the key is owned by the presented value until `now + ttl`; on a key with a live lock
  it answers False and changes no lock; other keys are never affected;
* `unlock` is delete-iff-owner: presenting the owner's value removes the lock and answers True;
  presenting anything else answers False and changes no lock;
* both are atomic (they are single steps of the transition system);
* time only kills locks (a lock is live strictly before its deadline), `is_locked` and the
  backend's own expiry sweep do not change any live lock.
-/
namespace CashewsVerif.Lock
open Store

structure LockContract {σ : Type} (B : LockOps σ) (Ok : σ → Prop) (keyOk : Key → Prop) : Prop where
  owner_live : ∀ s k v d, Ok s → B.owner s k = some (v, some d) → B.now s < d
  -- set_lock
  setLock_ok : ∀ s k v ttl, Ok s → keyOk k → Ok (B.setLock s k v ttl).1
  setLock_now : ∀ s k v ttl, B.now (B.setLock s k v ttl).1 = B.now s
  setLock_free : ∀ s k v ttl, Ok s → keyOk k → B.owner s k = none →
      (B.setLock s k v ttl).2 = true ∧
      B.owner (B.setLock s k v ttl).1 k = some (v, deadlineOf (B.now s) ttl)
  setLock_held : ∀ s k v ttl o, Ok s → keyOk k → B.owner s k = some o →
      (B.setLock s k v ttl).2 = false ∧ B.owner (B.setLock s k v ttl).1 k = some o
  setLock_frame : ∀ s k v ttl k', Ok s → keyOk k → k' ≠ k →
      B.owner (B.setLock s k v ttl).1 k' = B.owner s k'
  -- unlock
  unlock_ok : ∀ s k v, Ok s → Ok (B.unlock s k v).1
  unlock_now : ∀ s k v, B.now (B.unlock s k v).1 = B.now s
  unlock_owner : ∀ s k v d, Ok s → B.owner s k = some (v, d) →
      (B.unlock s k v).2 = true ∧ B.owner (B.unlock s k v).1 k = none
  unlock_other : ∀ s k v, Ok s → (∀ d, B.owner s k ≠ some (v, d)) →
      (B.unlock s k v).2 = false ∧ B.owner (B.unlock s k v).1 k = B.owner s k
  unlock_frame : ∀ s k v k', Ok s → k' ≠ k → B.owner (B.unlock s k v).1 k' = B.owner s k'
  -- is_locked
  isLocked_ok : ∀ s k, Ok s → Ok (B.isLocked s k).1
  isLocked_now : ∀ s k, B.now (B.isLocked s k).1 = B.now s
  isLocked_out : ∀ s k, Ok s → (B.isLocked s k).2 = (B.owner s k).isSome
  isLocked_owner : ∀ s k k', Ok s → B.owner (B.isLocked s k).1 k' = B.owner s k'
  -- time
  tick_ok : ∀ s dt, Ok s → Ok (B.tick s dt)
  tick_now : ∀ s dt, B.now (B.tick s dt) = B.now s + dt
  tick_owner : ∀ s dt k, Ok s →
      B.owner (B.tick s dt) k = (B.owner s k).filter (fun o => liveAt o.2 (B.now s + dt))
  -- expiry sweep
  purge_ok : ∀ s, Ok s → Ok (B.purge s)
  purge_now : ∀ s, B.now (B.purge s) = B.now s
  purge_owner : ∀ s k, Ok s → B.owner (B.purge s) k = B.owner s k

/-! ### the ideal TTL map -/

theorem liveAt_eq_live (e : Entry) (now : Nat) : liveAt e.dl now = e.live now := by
  unfold liveAt Entry.live; cases e.dl <;> rfl

theorem ttlOwner_eq (t : TtlMap) (k : Key) :
    ttlOwner t k = ((t.m k).filter (·.live t.now)).map fun e => (e.val, e.dl) := by
  unfold ttlOwner; rw [TtlMap.find_eq]

theorem find_write_ne (t : TtlMap) {k k' : Key} (h : k' ≠ k) (v : Val) (ttl : Option Nat) :
    (t.write k v ttl).find k' = t.find k' := by
  simp only [TtlMap.find_eq, TtlMap.write, h, if_false]

theorem find_remove (t : TtlMap) (k k' : Key) :
    (t.remove k).find k' = if k' = k then none else t.find k' := by
  simp only [TtlMap.find_eq, TtlMap.remove]
  by_cases h : k' = k <;> simp [h]

theorem deadlineOf_live (now : Nat) (ttl : Option Nat) (v : Val) :
    (⟨v, deadlineOf now ttl⟩ : Entry).live now = true := by
  unfold Entry.live deadlineOf
  cases ttl with
  | none => rfl
  | some n => cases n with
    | zero => rfl
    | succ m => simp

theorem find_write_self_of_absent (t : TtlMap) (k : Key) (v : Val) (ttl : Option Nat)
    (h : t.find k = none) : (t.write k v ttl).find k = some ⟨v, deadlineOf t.now ttl⟩ := by
  unfold TtlMap.write
  rw [h]
  have hl := deadlineOf_live t.now ttl v
  cases hd : deadlineOf t.now ttl with
  | none => simp [TtlMap.find, Entry.live]
  | some d => rw [hd] at hl; simp [TtlMap.find, hl]

theorem ttlContract : LockContract ttlOps (fun _ => True) (fun _ => True) where
  owner_live := by
    intro s k v d _ h
    simp only [ttlOps, ttlOwner, TtlMap.find_eq] at h
    cases hm : s.m k with
    | none => simp [hm] at h
    | some e =>
      by_cases hl : e.live s.now
      · simp [hm, Option.filter, hl] at h
        obtain ⟨_, h2⟩ := h
        unfold Entry.live at hl; rw [h2] at hl
        show s.now < d
        simpa using hl
      · simp [hm, Option.filter, hl] at h
  setLock_ok := by intros; trivial
  setLock_now := by
    intro s k v ttl
    simp only [ttlOps, ttlSetLock]; split <;> rfl
  setLock_free := by
    intro s k v ttl _ _ h
    simp only [ttlOps, ttlOwner, Option.map_eq_none_iff] at h
    simp only [ttlOps, ttlSetLock, h, Option.isSome_none, Bool.false_eq_true, if_false, true_and]
    simp only [ttlOwner, find_write_self_of_absent s k v ttl h, Option.map_some]
  setLock_held := by
    intro s k v ttl o _ _ h
    have : (s.find k).isSome = true := by
      simp only [ttlOps, ttlOwner] at h
      cases hf : s.find k <;> simp [hf] at h ⊢
    simp only [ttlOps, ttlSetLock, this, if_true, true_and]
    exact h
  setLock_frame := by
    intro s k v ttl k' _ _ hne
    simp only [ttlOps, ttlSetLock]
    split
    · rfl
    · simp only [ttlOwner, find_write_ne s hne]
  unlock_ok := by intros; trivial
  unlock_now := by
    intro s k v
    simp only [ttlOps, ttlUnlock]; split <;> rfl
  unlock_owner := by
    intro s k v d _ h
    have : (s.find k).map (·.val) = some v := by
      simp only [ttlOps, ttlOwner] at h
      cases hf : s.find k with
      | none => simp [hf] at h
      | some e => simp [hf] at h ⊢; exact h.1
    simp only [ttlOps, ttlUnlock, this, if_true, true_and]
    simp [ttlOwner, find_remove]
  unlock_other := by
    intro s k v _ h
    have : ¬ (s.find k).map (·.val) = some v := by
      intro hc
      simp only [ttlOps, ttlOwner] at h
      cases hf : s.find k with
      | none => simp [hf] at hc
      | some e =>
        simp [hf] at hc
        exact h e.dl (by simp [hf, hc])
    simp only [ttlOps, ttlUnlock, this, if_false, and_self]
  unlock_frame := by
    intro s k v k' _ hne
    simp only [ttlOps, ttlUnlock]
    split
    · simp only [ttlOwner, find_remove, hne, if_false]
    · rfl
  isLocked_ok := by intros; trivial
  isLocked_now := by intros; rfl
  isLocked_out := by
    intro s k _
    simp only [ttlOps, ttlOwner, Option.isSome_map]
  isLocked_owner := by intros; rfl
  tick_ok := by intros; trivial
  tick_now := by intros; rfl
  tick_owner := by
    intro s dt k _
    simp only [ttlOps, ttlOwner_eq]
    cases hm : s.m k with
    | none => simp
    | some e =>
      have hmono : e.live (s.now + dt) = true → e.live s.now = true := by
        unfold Entry.live; cases e.dl with
        | none => simp
        | some d => simp; omega
      by_cases h2 : e.live (s.now + dt)
      · simp [Option.filter, h2, hmono h2, liveAt_eq_live]
      · by_cases h1 : e.live s.now
        · simp [Option.filter, h2, h1, liveAt_eq_live]
        · simp [Option.filter, h2, h1]
  purge_ok := by intros; trivial
  purge_now := by intros; rfl
  purge_owner := by intros; rfl

/-! ### the in-memory backend model -/

theorem memOwner_eq_view (s : Mem) (k : Key) :
    memOwner s k = (s.view k).map fun e => (e.val, e.dl) := by
  unfold memOwner Mem.view
  cases lookup s.store k with
  | none => rfl
  | some e => by_cases h : e.live s.now <;> simp [Option.filter, h]

/-- the lock view of an absent or expired-but-still-stored entry is "no lock" -/
theorem memOwner_none_iff (s : Mem) (k : Key) :
    memOwner s k = none ↔
      (lookup s.store k = none ∨ ∃ e d, lookup s.store k = some e ∧ e.dl = some d ∧ d ≤ s.now) := by
  unfold memOwner
  cases h : lookup s.store k with
  | none => simp
  | some e =>
    cases hd : e.dl with
    | none => simp [Entry.live, hd]
    | some d => simp [Entry.live, hd]

/-- `memSetLock` is the C01 model's conditional write -/
theorem memSetLock_eq_step (s : Mem) (k : Key) (v : Val) (ttl : Option Nat) :
    s.step (.set k v ttl .nx) = ((memSetLock s k v ttl).1, .bool (memSetLock s k v ttl).2) := by
  simp only [Mem.step, memSetLock]
  split <;> rfl

/-- invariant of the in-memory instance: distinct keys from a universe that fits the capacity
(no eviction; eviction is C11's subject) -/
def MemOk (K : List Key) (s : Mem) : Prop := s.Within K ∧ K.length ≤ s.cap

theorem view_rawSet_of_absent {K : List Key} {s : Mem} (hw : s.Within K) (hK : K.length ≤ s.cap)
    {k : Key} (hk : k ∈ K) (v : Val) (ttl : Option Nat) (habs : s.view k = none) (k' : Key) :
    (s.rawSet k v ttl).view k' =
      if k = k' then some ⟨v, deadlineOf s.now ttl⟩ else s.view k' := by
  rw [Mem.rawSet_noevict hw hK hk]
  unfold Mem.view
  simp only [lookup_put]
  by_cases hkk : k = k'
  · subst hkk
    have hnd : s.newDeadline k ttl = deadlineOf s.now ttl := by
      unfold Mem.newDeadline
      cases hd : deadlineOf s.now ttl with
      | some d => rfl
      | none =>
        simp only
        unfold Mem.view at habs
        cases hl : lookup s.store k with
        | none => rfl
        | some e =>
          rw [hl] at habs
          by_cases hv : e.live s.now
          · simp [Option.filter, hv] at habs
          · simp [hv]
    simp only [if_true, hnd, Option.filter, deadlineOf_live]
  · simp [hkk]

theorem memContract (K : List Key) : LockContract memOps (MemOk K) (· ∈ K) where
  owner_live := by
    intro s k v d _ h
    simp only [memOps, memOwner] at h
    cases hl : lookup s.store k with
    | none => simp [hl] at h
    | some e =>
      by_cases hv : e.live s.now
      · simp [hl, hv] at h
        unfold Entry.live at hv; rw [h.2] at hv
        show s.now < d
        simpa using hv
      · simp [hl, hv] at h
  setLock_ok := by
    intro s k v ttl h hk
    simp only [memOps, memSetLock]
    have hg := Mem.rawGet_within h.1 k
    have hc := Mem.rawGet_cap s k
    split
    · exact ⟨hg, by rw [hc]; exact h.2⟩
    · exact ⟨Mem.rawSet_within hg (by rw [hc]; exact h.2) hk v ttl, by
        rw [Mem.rawSet_cap, hc]; exact h.2⟩
  setLock_now := by
    intro s k v ttl
    simp only [memOps, memSetLock]
    split
    · exact Mem.rawGet_now s k
    · show (Mem.rawSet _ k v ttl).now = s.now
      unfold Mem.rawSet; exact Mem.rawGet_now s k
  setLock_free := by
    intro s k v ttl h hk hown
    simp only [memOps, memOwner_eq_view, Option.map_eq_none_iff] at hown
    have hout : (s.rawGet k).2 = none := by rw [Mem.rawGet_out, hown]; rfl
    simp only [memOps, memSetLock, hout, Option.isSome_none, Bool.false_eq_true, if_false, true_and]
    have hg := Mem.rawGet_within h.1 k
    have hc := Mem.rawGet_cap s k
    have habs : (s.rawGet k).1.view k = none := by rw [Mem.rawGet_view]; exact hown
    rw [memOwner_eq_view, view_rawSet_of_absent hg (by rw [hc]; exact h.2) hk v ttl habs]
    simp [Mem.rawGet_now]
  setLock_held := by
    intro s k v ttl o h hk hown
    simp only [memOps, memOwner_eq_view] at hown
    have hout : ((s.rawGet k).2).isSome = true := by
      rw [Mem.rawGet_out]
      cases hv : s.view k <;> simp [hv] at hown ⊢
    simp only [memOps, memSetLock, hout, if_true, true_and]
    rw [memOwner_eq_view, Mem.rawGet_view]; exact hown
  setLock_frame := by
    intro s k v ttl k' h hk hne
    simp only [memOps, memSetLock]
    split
    · rw [memOwner_eq_view, memOwner_eq_view, Mem.rawGet_view]
    · rename_i hnone
      have hg := Mem.rawGet_within h.1 k
      have hc := Mem.rawGet_cap s k
      have habs : (s.rawGet k).1.view k = none := by
        rw [Mem.rawGet_view]
        have := Mem.rawGet_out s k
        cases hv : s.view k with
        | none => rfl
        | some e => rw [hv] at this; simp [this] at hnone
      rw [memOwner_eq_view, view_rawSet_of_absent hg (by rw [hc]; exact h.2) hk v ttl habs]
      have : ¬ k = k' := fun hh => hne hh.symm
      simp only [this, if_false]
      rw [Mem.rawGet_view, ← memOwner_eq_view]
  unlock_ok := by
    intro s k v h
    simp only [memOps, memUnlock]
    have hg := Mem.rawGet_within h.1 k
    have hc := Mem.rawGet_cap s k
    split
    · exact ⟨Mem.rawDelete_within hg k, by rw [Mem.rawDelete_cap, hc]; exact h.2⟩
    · exact ⟨hg, by rw [hc]; exact h.2⟩
  unlock_now := by
    intro s k v
    simp only [memOps, memUnlock]
    split
    · show ((s.rawGet k).1.rawDelete k).1.now = s.now
      unfold Mem.rawDelete
      split <;> exact Mem.rawGet_now s k
    · exact Mem.rawGet_now s k
  unlock_owner := by
    intro s k v d h hown
    simp only [memOps, memOwner_eq_view] at hown
    obtain ⟨e, hv, he⟩ : ∃ e, s.view k = some e ∧ (e.val, e.dl) = (v, d) := by
      cases hv : s.view k with
      | none => simp [hv] at hown
      | some e => exact ⟨e, rfl, by simpa [hv] using hown⟩
    have hout : (s.rawGet k).2 = some v := by
      rw [Mem.rawGet_out, hv]; simp at he ⊢; exact he.1
    simp only [memOps, memUnlock, hout, if_true]
    -- the entry is live in the state after the read, so `_delete` answers True and removes it
    have hv' : (s.rawGet k).1.view k = some e := by rw [Mem.rawGet_view]; exact hv
    generalize (s.rawGet k).1 = s1 at hv' ⊢
    unfold Mem.view at hv'
    unfold Mem.rawDelete
    cases hl : lookup s1.store k with
    | none => simp [hl] at hv'
    | some e1 =>
      rw [hl] at hv'
      by_cases hlive : e1.live s1.now
      · simp only [hlive, true_and]
        simp [memOwner]
      · simp [Option.filter, hlive] at hv'
  unlock_other := by
    intro s k v h hne
    have hout : ¬ (s.rawGet k).2 = some v := by
      intro hc
      rw [Mem.rawGet_out] at hc
      cases hv : s.view k with
      | none => simp [hv] at hc
      | some e =>
        simp [hv] at hc
        exact hne e.dl (by simp [memOps, memOwner_eq_view, hv, hc])
    simp only [memOps, memUnlock, hout, if_false, true_and]
    rw [memOwner_eq_view, memOwner_eq_view, Mem.rawGet_view]
  unlock_frame := by
    intro s k v k' h hne
    simp only [memOps, memUnlock]
    have hkk : ¬ k = k' := fun hh => hne hh.symm
    split
    · show memOwner ((s.rawGet k).1.rawDelete k).1 k' = memOwner s k'
      rw [memOwner_eq_view s, ← Mem.rawGet_view s k k']
      generalize (s.rawGet k).1 = s1
      rw [memOwner_eq_view]
      unfold Mem.rawDelete
      split
      · rfl
      · simp [Mem.view, lookup_erase, hkk]
    · rw [memOwner_eq_view, memOwner_eq_view, Mem.rawGet_view]
  isLocked_ok := by
    intro s k h
    exact ⟨Mem.rawGet_within h.1 k, by
      show _ ≤ (s.rawGet k).1.cap
      rw [Mem.rawGet_cap]; exact h.2⟩
  isLocked_now := by intro s k; exact Mem.rawGet_now s k
  isLocked_out := by
    intro s k _
    simp only [memOps, memIsLocked, Mem.rawGet_out, memOwner_eq_view, Option.isSome_map]
  isLocked_owner := by
    intro s k k' _
    simp only [memOps, memIsLocked]
    rw [memOwner_eq_view, memOwner_eq_view, Mem.rawGet_view]
  tick_ok := by intro s dt h; exact h
  tick_now := by intros; rfl
  tick_owner := by
    intro s dt k _
    simp only [memOps, memOwner]
    cases hl : lookup s.store k with
    | none => simp
    | some e =>
      have hmono : e.live (s.now + dt) = true → e.live s.now = true := by
        unfold Entry.live; cases e.dl with
        | none => simp
        | some d => simp; omega
      by_cases h2 : e.live (s.now + dt)
      · simp [Option.filter, h2, hmono h2, liveAt_eq_live]
      · by_cases h1 : e.live s.now
        · simp [Option.filter, h2, h1, liveAt_eq_live]
        · simp [Option.filter, h2, h1]
  purge_ok := by
    intro s h
    simp only [memOps, Mem.purge]
    generalize keys s.store = ks
    induction ks generalizing s with
    | nil => exact h
    | cons k ks ih =>
      simp only [List.foldl_cons]
      exact ih _ ⟨Mem.rawGet_within h.1 k, by rw [Mem.rawGet_cap]; exact h.2⟩
  purge_now := by
    intro s
    simp only [memOps, Mem.purge]
    generalize keys s.store = ks
    induction ks generalizing s with
    | nil => rfl
    | cons k ks ih => simp only [List.foldl_cons]; rw [ih, Mem.rawGet_now]
  purge_owner := by
    intro s k' h
    clear h
    simp only [memOps, Mem.purge]
    generalize keys s.store = ks
    induction ks generalizing s with
    | nil => rfl
    | cons k ks ih =>
      simp only [List.foldl_cons]; rw [ih, memOwner_eq_view, memOwner_eq_view, Mem.rawGet_view]

end CashewsVerif.Lock
