import CashewsVerif.Model.Decor.Outcome
/- Rewrite lemmas about the ideal TTL map used by the decorator models (C02). -/
namespace CashewsVerif.Decor
open CashewsVerif

theorem find_eq_some {t : TtlMap} {k : Nat} {e : Entry} :
    t.find k = some e ↔ t.m k = some e ∧ e.live t.now = true := by
  unfold TtlMap.find
  cases h : t.m k with
  | none => simp
  | some e' =>
    by_cases hl : e'.live t.now = true
    · simp only [hl, if_true, Option.some.injEq]
      constructor
      · intro h'; subst h'; exact ⟨rfl, hl⟩
      · intro h'; exact h'.1
    · simp only [hl, Bool.false_eq_true, if_false, Option.some.injEq]
      constructor
      · intro h'; cases h'
      · intro h'; rw [h'.1] at hl; exact absurd h'.2 hl

theorem find_eq_none {t : TtlMap} {k : Nat} :
    t.find k = none ↔ ∀ e, t.m k = some e → e.live t.now = false := by
  unfold TtlMap.find
  cases h : t.m k with
  | none => simp
  | some e' =>
    by_cases hl : e'.live t.now = true
    · simp [hl]
    · simp [hl]

theorem live_mono {e : Entry} {a b : Nat} (hab : a ≤ b) (h : e.live b = true) : e.live a = true := by
  unfold Entry.live at h ⊢
  cases hd : e.dl with
  | none => rfl
  | some d => simp [hd] at h ⊢; omega

@[simp] theorem advance_now (t : TtlMap) (d : Nat) : (advance t d).now = t.now + d := rfl
@[simp] theorem advance_m (t : TtlMap) (d : Nat) : (advance t d).m = t.m := rfl

theorem find_none_advance {t : TtlMap} {k : Nat} (d : Nat) (h : t.find k = none) : (advance t d).find k = none := by
  rw [find_eq_none] at h ⊢
  intro e he
  have := h e he
  cases hl : e.live (advance t d).now with
  | false => rfl
  | true => rw [live_mono (Nat.le_add_right _ _) hl] at this; exact this

@[simp] theorem write_now (t : TtlMap) (k : Nat) (v : Val) (ttl : Option Nat) : (t.write k v ttl).now = t.now := rfl

theorem write_m_ne (t : TtlMap) {k k' : Nat} (v : Val) (ttl : Option Nat) (h : k' ≠ k) :
    (t.write k v ttl).m k' = t.m k' := by
  simp [TtlMap.write, h]

theorem write_m_pos (t : TtlMap) (k : Nat) (v : Val) {ttl : Nat} (h : 0 < ttl) :
    (t.write k v (some ttl)).m k = some ⟨v, some (t.now + ttl)⟩ := by
  cases ttl with
  | zero => omega
  | succ n => simp [TtlMap.write, deadlineOf]

theorem write_m_miss (t : TtlMap) (k : Nat) (v : Val) (ttl : Nat) (h : t.find k = none) :
    (t.write k v (some ttl)).m k = some ⟨v, deadlineOf t.now (some ttl)⟩ := by
  cases ttl with
  | zero => simp [TtlMap.write, deadlineOf, h]
  | succ n => simp [TtlMap.write, deadlineOf]

end CashewsVerif.Decor
